(* C02 — returned specifications are closed, one-rule-per-class, genuine and
   productive.  Statements only.

   What is proved here:
   * C02_closed: the rules dictionary SpecificationRuleExtractor builds from a
     proof tree (equivalence-level rule keys), the stored rule keys, the
     equivalence database's representatives and explanation paths (contract:
     C06_path) contains the start label, every right-hand label is a left-hand
     label, and every entry is a stored rule key or a step of an explanation
     path — for EVERY order in which the set of labels without a rule is
     iterated.
   * C02_one_rule_per_class: the dictionary the extractor returns has pairwise
     distinct left-hand labels (one entry per left-hand label), because it is
     built by dictionary assignments only.
   * C02_productive_decided: the per-specification productivity verdict the
     check computes with the table-method model means "every class of the
     specification pumps in the least-fixed-point sense" (C03).
   * forest database: no theorem HERE says that what RuleDBForest returns is productive or closed - that is
     C11_productive / C11_closed in Props/C11.v (over C11's own model and key type).
   Not a theorem (stated in DESIGN.md): productivity of specifications found by
   the pruning databases relies on the strategies being productive (pruning is
   a greatest fixed point); it is DECIDED per returned specification by the
   proved-correct procedure above.

   Added later (what turns the extracted dictionary into the returned object):
   * SpecificationRuleExtractor._find_rule / rules() over the strategy table
     (model Spec/FindRule.v, proofs Spec/FindRuleProofs.v):
       C02_rules_from_table, C02_rules_from_table_all   genuineness AS A THEOREM: every rule handed out is
           strategy(class) of a table entry, its equivalence form, or the reverse of a reversible entry, for the
           strategy a store handed back for the entry's key;
       C02_find_rule_total, C02_find_rule_total_generic  an entry stored by an add_hist history is found again and
           the rule found is filed under the entry's key; C02_search_find_rule_total: the same for the RuleDB ANY run of
           the searcher model built (composition with C04 through RuleDB/SearchHist.v; hypotheses on the table only);
       C02_find_rule_outcomes  every failure characterised; C02_find_rule_forget_foreign_parent_refuted the recorded
           limitation of RuleDBForgetStrategy; C02_extractor_hands_out_nonunary_equivalence_refuted the finding
           findings/oneway_equivalence_with_empty_sibling.py about the code BEFORE /repo commit 398db71 (model run
           with convert := false; FIXED by that commit: rules() converts) and C02_repair_converts the repair, which is
           what the code does now (convert := true, the only branch compared with the code).
   * CombinatorialSpecification.__init__ (model Spec/Grouping.v, proofs Spec/GroupingProofs.v, GroupingInit.v,
     GroupingProd.v, GroupingProdLink.v), for every input satisfying wf_input (Spec/GroupingWf.v: closed, one rule
     per class, equivalence rules unary with a rule for their child, chains of hidden classes end, every class
     reachable from the root, the root has a rule or is empty):
       C02_grouping_never_asserts, C02_grouping_terminates, C02_grouping_result (closed = _is_valid_spec, root
       kept, every class that is not hidden keeps its rule, path rules follow the chains, every hidden class lies
       on a path), C02_hidden_on_two_paths ("exactly one path" is false in general), C02_group_ungroup_roundtrip,
       C02_constructor_never_raises, C02_lazy_empty_sound, C02_set_subrules_only_adds_empty_rules,
       C02_enforce_labels_partial, C02_grouping_preserves_productivity, C02_wf_decided.
     Added with the real shifts (the check now sends list(rule.shifts()) of every rule, it used to send []):
       C02_shifts_decided (third premise of C02_grouping_preserves_productivity, decided by shifts_okb) and
       C02_object_keys_pump_iff (the bits and the two key lists run_spec prints for a real rule set are an
       instance of the theorem), Examples C02_grouping_preserves_productivity_applied (a path whose members have
       shifts 1, -1, 2), C02_object_keys_pump_iff_applied, C02_shifts_premise_matters.
   Genuineness of the rule OBJECTS is NOT a theorem: the oracle compares the CHILDREN of strategy(class) with the
   children of the base rule of every rule handed out (not constructor, parameters, reverse index); declared
   shifts of derived forms are compared with the rules they stand for (word universes); the theorems above are
   about the strategy-table level. *)
From Coq Require Import ZArith List Bool.
From CSS Require Import Base.Sx Forest.Spec Forest.Model Forest.Run Forest.Theorems
  Spec.Extractor Spec.ExtractorProofs Spec.ExtractorRun.
From CSS Require ClassDB.Model ClassDB.Proofs Searcher.Model Searcher.Contracts RuleDB.Model RuleDB.CdbFacts RuleDB.GetProofs
  RuleDB.AddProofs RuleDB.AddHist RuleDB.SearchHist Props.C04
  Spec.FindRule Spec.FindRuleProofs Spec.FindRuleSearch Spec.FindRuleRepair Spec.Grouping Spec.GroupingWf Spec.GroupingFacts Spec.GroupingProofs
  Spec.GroupingInit Spec.GroupingProd Spec.GroupingProdLink.
From CSS Require Spec.GroupingProdObj Spec.GroupingPumps Spec.GroupingPumpsProofs Spec.GroupingRun Spec.GroupingDesc Spec.GroupingDescProofs.
From CSS Require Searcher.Deciders.
From CSS Require Equiv.Model Equiv.Hist Equiv.Total Props.C06 Spec.ExtractorEquiv.
Import ListNotations.

(* AUDIT: the find_path contract used to be asked for EVERY pair of labels (forall l t); it is
   now asked only for the labels `order` iterates over, the only ones the extractor calls
   find_path on (the old form is implied: ExtractorProofs.extract_closed). *)
Theorem C02_closed : forall rep fpath stored tree root order d,
  (forall l, In l order -> forall t, rep l = rep t ->
     fpath l t <> [] /\ hd O (fpath l t) = l /\ last (fpath l t) O = t) ->
  extract rep fpath stored tree root order = Some d ->
  (forall d0 e2p, decompositions rep stored tree [] [] = Some (d0, e2p) ->
     forall l, no_lhs d0 root l = true -> In l order) ->
  (forall e, In e d -> forall c, In c (snd e) -> dom d c = true) /\
  dom d root = true /\
  (forall e, In e d -> In e stored \/ exists l t p c, step_of (fpath l t) p c /\ e = (p, [c])).
Proof. intros rep fpath stored tree root order d Hf. exact (extract_closed_order rep fpath stored tree root order d Hf). Qed.

(* C06 -> C02 (CLAUSES G.2 row 6): the path contract of C02_closed DISCHARGED.  `rep` and `fpath` are no longer
   free: they are db[.] and find_path of the model of EquivalenceDB (Equiv/Model.v), read on the state reached by
   ANY history `ops` of equivalence-database operations over natural-number labels (what the class database hands
   out), for any set-iteration order.  The third conjunct is STRONGER than C02_closed's: a unary entry the
   extractor adds for a path step is an edge the equivalence database recorded ("follows recorded edges only",
   C06_path, is finally consumed) - the edges C02_find_rule_total turns back into rules. *)
Theorem C02_closed_on_equivalence_database :
  forall (iter : list Z -> list Z),
  (forall l x, In x (iter l) <-> In x l) -> (forall l, (length (iter l) <= length l)%nat) ->
  forall ops s rs stored tree root order d,
  Spec.ExtractorEquiv.nonneg_hist ops ->
  Equiv.Model.exec iter Equiv.Model.init ops = Some (s, rs) ->
  extract (Spec.ExtractorEquiv.natrep s) (Spec.ExtractorEquiv.natpath iter s) stored tree root order = Some d ->
  (forall d0 e2p, decompositions (Spec.ExtractorEquiv.natrep s) stored tree [] [] = Some (d0, e2p) ->
     forall l, no_lhs d0 root l = true -> In l order) ->
  (forall e, In e d -> forall c, In c (snd e) -> dom d c = true) /\
  dom d root = true /\
  (forall e, In e d -> In e stored \/
     exists p c, e = (p, [c]) /\ Equiv.Hist.recorded ops (Z.of_nat p) (Z.of_nat c)).
Proof.
  intros iter HI HL ops s rs stored tree root order d.
  exact (Spec.ExtractorEquiv.extract_closed_on_equivdb iter HI HL ops s rs stored tree root order d).
Qed.

(* a dictionary updated by an assignment has one entry per key (kept as a lemma: this used to be
   the whole of C02_one_rule_per_class, which said nothing about the extractor) *)
Lemma C02_assign_lookup : forall d k v,
  lookup (assign d k v) k = Some v /\
  forall x, x <> k -> lookup (assign d k v) x = lookup d x.
Proof.
  intros d k v. split.
  - rewrite lookup_assign, Nat.eqb_refl. reflexivity.
  - intros x Hx. rewrite lookup_assign. destruct (Nat.eqb k x) eqn:E; auto.
    apply Nat.eqb_eq in E. congruence.
Qed.

(* AUDIT: restated about the EXTRACTOR'S RESULT.  Every rules dictionary the extractor returns has
   pairwise distinct left-hand labels, and its entries are exactly what looking a label up
   returns: no class is the left-hand side of two rules. *)
Theorem C02_one_rule_per_class : forall rep fpath stored tree root order d,
  extract rep fpath stored tree root order = Some d ->
  NoDup (map fst d) /\
  forall p cs, In (p, cs) d <-> lookup d p = Some cs.
Proof. exact extract_functional. Qed.

(* meaning of the productivity verdict computed on each returned specification *)
Theorem C02_productive_decided : forall ks fuel st,
  run pick0 fuel init (map AddKey ks) = Some st ->
  forall c, snd (is_pumping st c) = true <-> pumps ks c.
Proof.
  intros ks fuel st H c.
  destruct (sound_complete _ _ _ _ H c) as [A _].
  assert (keys_of (map AddKey ks) = ks) as E.
  { clear. induction ks as [|k ks IH]; simpl; auto. rewrite IH. reflexivity. }
  rewrite E in A. exact A.
Qed.

Example C02_nonvacuous :
  (* tree: 0 -> (1 1) at equivalence level; stored rule 5 -> (1 2) with rep 5 = 0, rep 2 = 1;
     root label 0 reaches 5 by the path 0,5 and label 2 reaches 1... *)
  let rep := fun l => match l with 5%nat => 0%nat | 2%nat => 1%nat | _ => l end in
  let fpath := fun l t => if Nat.eqb l t then [l] else [l; t] in
  extract rep fpath [(5, [1; 2]); (1, [])]%nat [(0, [1; 1]); (1, [])]%nat 0%nat [0; 2]%nat
  = Some [(5, [1; 2]); (1, []); (0, [5]); (2, [1])]%nat.
Proof. vm_compute. reflexivity. Qed.

(* ------------------------------------------------------------------------
   NON-VACUITY (audit): every result of this file APPLIED to a concrete instance.
   Extractor instance: the one of C02_nonvacuous above — two stored rules, a two-node proof tree
   at equivalence level, two labels (root 0 and right-hand label 2) that get their rule from an
   explanation path. *)
Definition c2_rep (l : nat) : nat := match l with 5%nat => 0%nat | 2%nat => 1%nat | _ => l end.
Definition c2_fpath (l t : nat) : list nat := if Nat.eqb l t then [l] else [l; t].
Definition c2_stored : list rkey := [(5, [1; 2]); (1, [])]%nat.
Definition c2_tree : list rkey := [(0, [1; 1]); (1, [])]%nat.
Definition c2_order : list nat := [0; 2]%nat.
Definition c2_d : list rkey := [(5, [1; 2]); (1, []); (0, [5]); (2, [1])]%nat.

Lemma c2_fpath_ok : forall l, In l c2_order -> forall t, c2_rep l = c2_rep t ->
  c2_fpath l t <> [] /\ hd O (c2_fpath l t) = l /\ last (c2_fpath l t) O = t.
Proof.
  intros l _ t _. unfold c2_fpath. destruct (Nat.eqb l t) eqn:E.
  - apply Nat.eqb_eq in E. subst t. repeat split; discriminate.
  - repeat split; discriminate.
Qed.
Lemma c2_extract : extract c2_rep c2_fpath c2_stored c2_tree 0%nat c2_order = Some c2_d.
Proof. vm_compute. reflexivity. Qed.
(* the iteration order covers the labels without a rule after the decompositions (0 and 2) *)
Lemma c2_cover : forall d0 e2p, decompositions c2_rep c2_stored c2_tree [] [] = Some (d0, e2p) ->
  forall l, no_lhs d0 0%nat l = true -> In l c2_order.
Proof.
  intros d0 e2p H. vm_compute in H. injection H as <- <-. intros l Hl.
  destruct l as [|[|[|[|[|[|l]]]]]]; vm_compute in Hl; try discriminate; simpl; auto.
Qed.

Example C02_closed_nonvacuous :
  (forall e, In e c2_d -> forall c, In c (snd e) -> dom c2_d c = true) /\
  dom c2_d 0%nat = true /\
  (forall e, In e c2_d ->
     In e c2_stored \/ exists l t p c, step_of (c2_fpath l t) p c /\ e = (p, [c])).
Proof.
  exact (C02_closed c2_rep c2_fpath c2_stored c2_tree 0%nat c2_order c2_d c2_fpath_ok c2_extract c2_cover).
Qed.
(* the conclusion discriminates: with the iteration order missing label 2 the extractor's
   dictionary is NOT closed (the coverage premise is then false, and the conclusion too) *)
Example C02_closed_near_miss :
  exists d, extract c2_rep c2_fpath c2_stored c2_tree 0%nat [0%nat] = Some d /\
            dom d 0%nat = true /\ dom d 2%nat = false /\ In (5, [1; 2])%nat d.
Proof. eexists. split; [vm_compute; reflexivity|]. vm_compute. auto. Qed.

(* covers C02_closed_on_equivalence_database: the same extractor instance, with the equivalence database REAL:
   the history records the two-way edge 0 - 5 and the one-way cycle 1 -> 2 -> 1, then detects cycles; under the
   ascending iteration order db[0] = db[5] = 5 and db[1] = db[2] = 2 (so the proof tree is at the level of the
   representatives 5 and 2); the extractor returns the same dictionary c2_d, closed, and its two unary entries
   (0,[5]) and (2,[1]) are recorded edges *)
Definition c2_ops : list Equiv.Model.op :=
  [Equiv.Model.TwoWay 0 5; Equiv.Model.OneWay 1 2; Equiv.Model.OneWay 2 1; Equiv.Model.Connect]%Z.
Definition c2_eqdb : Equiv.Model.db := Eval vm_compute in
  match Equiv.Model.exec Equiv.Model.isort Equiv.Model.init c2_ops with Some (s, _) => s | None => Equiv.Model.init end.
Definition c2_eqrs : list Equiv.Model.res := Eval vm_compute in
  match Equiv.Model.exec Equiv.Model.isort Equiv.Model.init c2_ops with Some (_, rs) => rs | None => [] end.
Lemma c2_eqexec : Equiv.Model.exec Equiv.Model.isort Equiv.Model.init c2_ops = Some (c2_eqdb, c2_eqrs).
Proof. vm_compute. reflexivity. Qed.
Definition c2_tree_reps : list rkey := [(5, [2; 2]); (2, [])]%nat.
Lemma c2_eq_nonneg : Spec.ExtractorEquiv.nonneg_hist c2_ops.
Proof.
  intros o x Ho Hx. unfold c2_ops in Ho. simpl in Ho.
  repeat (destruct Ho as [<-|Ho]; [simpl in Hx; intuition (subst; discriminate || (apply Z.leb_le; reflexivity))|]).
  destruct Ho.
Qed.
Lemma c2_eq_extract :
  extract (Spec.ExtractorEquiv.natrep c2_eqdb) (Spec.ExtractorEquiv.natpath Equiv.Model.isort c2_eqdb)
          c2_stored c2_tree_reps 0%nat c2_order = Some c2_d.
Proof. vm_compute. reflexivity. Qed.
Lemma c2_eq_cover : forall d0 e2p,
  decompositions (Spec.ExtractorEquiv.natrep c2_eqdb) c2_stored c2_tree_reps [] [] = Some (d0, e2p) ->
  forall l, no_lhs d0 0%nat l = true -> In l c2_order.
Proof.
  assert (E : decompositions (Spec.ExtractorEquiv.natrep c2_eqdb) c2_stored c2_tree_reps [] [] =
              Some ([(5, [1; 2]); (1, [])]%nat, [(2, 1); (5, 5)]%nat)) by (vm_compute; reflexivity).
  intros d0 e2p H. rewrite E in H. injection H as <- <-. intros l Hl.
  destruct l as [|[|[|[|[|[|l]]]]]]; vm_compute in Hl; try discriminate; simpl; auto.
Qed.
Example C02_closed_on_equivalence_database_nonvacuous :
  (forall e, In e c2_d -> forall c, In c (snd e) -> dom c2_d c = true) /\
  dom c2_d 0%nat = true /\
  (forall e, In e c2_d -> In e c2_stored \/
     exists p c, e = (p, [c]) /\ Equiv.Hist.recorded c2_ops (Z.of_nat p) (Z.of_nat c)).
Proof.
  exact (C02_closed_on_equivalence_database Equiv.Model.isort Equiv.Hist.isort_In Equiv.Total.isort_len
           c2_ops c2_eqdb c2_eqrs c2_stored c2_tree_reps 0%nat c2_order c2_d
           c2_eq_nonneg c2_eqexec c2_eq_extract c2_eq_cover).
Qed.
Example C02_equivalence_database_view_values :
  map (Spec.ExtractorEquiv.natrep c2_eqdb) [0; 1; 2; 5]%nat = [5; 2; 2; 5]%nat /\
  Spec.ExtractorEquiv.natpath Equiv.Model.isort c2_eqdb 2 1 = [2; 1]%nat /\
  Spec.ExtractorEquiv.natpath Equiv.Model.isort c2_eqdb 0 1 = [].
Proof. vm_compute. auto. Qed.

Example C02_one_rule_per_class_nonvacuous :
  NoDup (map fst c2_d) /\ forall p cs, In (p, cs) c2_d <-> lookup c2_d p = Some cs.
Proof.
  exact (C02_one_rule_per_class c2_rep c2_fpath c2_stored c2_tree 0%nat c2_order c2_d c2_extract).
Qed.
(* the stored rule for label 1 occurs twice in the tree walk / the second assignment to an existing
   label overwrites instead of adding a second entry: a tree naming class 1 twice still gives one
   entry for it; and a list with two entries for one label fails the conclusion *)
Example C02_one_rule_per_class_discriminates :
  extract c2_rep c2_fpath c2_stored (c2_tree ++ [(1, [])])%nat 0%nat c2_order = Some c2_d /\
  ~ NoDup (map fst [(1, [2]); (1, [])]%nat).
Proof.
  split; [vm_compute; reflexivity|]. simpl. intros H. inversion H as [|x l Hn _]; subst.
  apply Hn. left. reflexivity.
Qed.

(* productivity verdict: the forest keys of the two-class specification of Props/C01.v
   (0 -> 1 shift 0 ; 1 -> 0 0 shifts 1 1) plus a third rule 2 -> 3 (shift 1) whose child has no
   rule.  Both directions of the equivalence are used: the verdict `true` gives pumps, and the
   verdict `false` refutes pumps. *)
Definition c2_keys : list fkey :=
  [mkkey 0 [(1%nat, 0%Z)]; mkkey 1 [(0%nat, 1%Z); (0%nat, 1%Z)]; mkkey 2 [(3%nat, 1%Z)]].
Lemma c2_run : exists st, run pick0 100 init (map AddKey c2_keys) = Some st /\
  map (fun c => snd (is_pumping st c)) [0; 1; 2; 3]%nat = [true; true; false; false].
Proof. eexists. split; vm_compute; reflexivity. Qed.
Example C02_productive_decided_nonvacuous :
  pumps c2_keys 0 /\ pumps c2_keys 1 /\ ~ pumps c2_keys 2 /\ ~ pumps c2_keys 3.
Proof.
  destruct c2_run as (st & Hr & Hv). simpl in Hv. injection Hv as H0 H1 H2 H3.
  pose proof (C02_productive_decided c2_keys 100 st Hr) as D.
  split; [apply D; exact H0|]. split; [apply D; exact H1|].
  split; intros P; apply D in P; simpl in P; [rewrite H2 in P|rewrite H3 in P]; discriminate.
Qed.


(* ====================================================================== _find_rule / rules() *)
Module FR.
Import ClassDB.Model ClassDB.Proofs Searcher.Model Searcher.Contracts RuleDB.Model RuleDB.CdbFacts RuleDB.GetProofs RuleDB.AddProofs
  RuleDB.AddHist Spec.FindRule Spec.FindRuleProofs Spec.FindRuleSearch Spec.FindRuleRepair.
Open Scope Z_scope.

(* every rule _find_rule hands out is strategy(class) of a table entry (apply_strategy: the strategy applies to the
   class, or it is the empty rule of an empty class), in one of four forms - as it is, its equivalence form (then it
   has exactly one non-empty child and the strategy can be an equivalence), the reverse of a REVERSIBLE unary rule,
   the equivalence form of the reverse of a reversible rule - and the strategy is the one a store handed back for
   the entry's key (reversed key for the reversed forms), applied to the class carrying the key's first label.
   Any table, any two stores (dict of RuleDB, RecomputingDict of RuleDBForgetStrategy, anything else). *)
Theorem C02_rules_from_table : forall (T : table) (cap : Z -> bool) (get_r get_e : lookup) d p cs d' f,
  find_rule T cap get_r get_e d p cs = (d', inl f) ->
  let r := form_rule f in
  apply_strategy T (r_sid r) (r_parent r) = Some r /\
  (exists k d0 d1 x,
      (get_r d0 k = (d1, GOk (r_sid r) x) \/ get_e d0 k = (d1, GOk (r_sid r) x)) /\
      snd (c_get_class d1 (fst k)) = RClass (r_parent r) /\
      match f with
      | FPlain _ | FEquiv _ => k = (p, cs)
      | FRev _ | FEquivRev _ _ => exists c, cs = [c] /\ k = (c, [p])
      end) /\
  match f with
  | FPlain _ => True
  | FEquiv _ => plain_is_equivalence T cap r = true /\ length (kids_of T r) <> 1%nat
  | FRev _ => r_reversible T r = true /\ exists c, kids_of T r = [c]
  | FEquivRev _ i => r_reversible T r = true /\ plain_is_equivalence T cap r = true /\
                     first_nonempty T (kids_of T r) = Some i /\ oracle T (r_parent r) = false
  end.
Proof. intros T cap get_r get_e. exact (find_rule_from_table T cap get_r get_e). Qed.

(* ... hence every rule rules() yields, for the entry at the same position of the extractor's dictionary *)
Theorem C02_rules_from_table_all : forall (T : table) (cap : Z -> bool) (get_r get_e : lookup) entries d d' fs e,
  rules T cap get_r get_e false d entries = (d', fs, e) ->
  Forall2 (fun k f => from_table T cap get_r get_e (fst k) (snd k) f) (firstn (length fs) entries) fs.
Proof. intros T cap get_r get_e. exact (rules_from_table T cap get_r get_e). Qed.

(* an entry that is stored - in rule_to_strategy, in eqv_rule_to_strategy, or reversed in eqv_rule_to_strategy -
   with a strategy that reproduces the key is found, and the rule found is filed under the entry's key
   (form_key = what RuleDBBase._clean_labels computes for the rule object) *)
Theorem C02_find_rule_total_generic : forall (T : table) (cap : Z -> bool) (get_r get_e : lookup) d p cs d',
  stored_entry T cap get_r get_e d p cs d' ->
  exists f, find_rule T cap get_r get_e d p cs = (d', inl f) /\ form_key T d' f = Some (p, cs).
Proof. intros T cap get_r get_e. exact (find_rule_total T cap get_r get_e). Qed.

(* the default RuleDB after ANY sequence of ruledb.add calls each made under add_pre (abstract history add_hist; that
   searches produce such histories is C02_search_find_rule_total below), interleaved with any growth of the class database: every key of rule_to_strategy, every edge recorded
   in the equivalence database (the steps of the explanation paths C02_closed speaks of: C06_path) in the direction it
   was recorded and, for two-way edges, backwards, and every key of eqv_rule_to_strategy both ways is turned back into a
   rule that is filed under exactly that entry.  Contracts: the emptiness cache is truthful (C04_empty_cache_
   truthful), strategies in the equivalence store can be equivalences, two-way entries are reversible; the class a
   reversed/equivalence entry ends in is not empty. *)
Theorem C02_find_rule_total : forall (T : table) (cap : Z -> bool) a, add_hist T a ->
  let d := b_cdb dstore a in
  let fr := find_rule T cap (dict_lookup (b_r dstore a)) (dict_lookup (b_e dstore a)) d in
  (forall c l, label_of Z.eqb (fun c : Z => c) d c = Some l -> empv T d c = oracle T c) ->
  (forall k sid, d_get k (b_e dstore a) = Some sid -> cap sid = true) ->
  (forall sid c e, entry_of T sid c = Some e -> e_two_way e = true -> e_reversible e = true) ->
  (forall p cs sid, d_get (p, cs) (b_r dstore a) = Some sid ->
     exists f, fr p cs = (d, inl f) /\ form_key T d f = Some (p, cs)) /\
  (forall tw x y, In (EqEdge tw x y) (b_eq dstore a) ->
     ((forall C, label_of Z.eqb (fun c : Z => c) d C = Some y -> oracle T C = false) ->
      exists f, fr x [y] = (d, inl f) /\ form_key T d f = Some (x, [y])) /\
     (tw = true -> (forall C, label_of Z.eqb (fun c : Z => c) d C = Some x -> oracle T C = false) ->
      exists f', fr y [x] = (d, inl f') /\ form_key T d f' = Some (y, [x]))) /\
  (forall p cs sid, d_get (p, cs) (b_e dstore a) = Some sid ->
     exists c, cs = [c] /\
     ((forall C, label_of Z.eqb (fun c : Z => c) d C = Some c -> oracle T C = false) ->
      exists f, fr p [c] = (d, inl f) /\ form_key T d f = Some (p, [c])) /\
     ((forall C, label_of Z.eqb (fun c : Z => c) d C = Some p -> oracle T C = false) ->
      exists f', fr c [p] = (d, inl f') /\ form_key T d f' = Some (c, [p]))).
Proof. intros T cap. exact (dict_find_rule_total T cap). Qed.

(* COMPOSITION C04 -> C02 (C04_search_gives_add_hist): the same for the RuleDB a SEARCH built, with the history, the
   truthful cache and "strategies in the equivalence store can be equivalences" DISCHARGED.  For every run of the
   searcher model on a pruning database (any table honouring the contracts of Searcher/Contracts.v, start class,
   packets of strategies of `pack`, is_verified answers, fuel, driver; also a run that died - the statement is about
   the state it stopped in): the rule stores of the run are the key sets of a RuleDB state  a  reached by an add_hist
   history, and _find_rule over  a  turns every key of rule_to_strategy, every edge the run handed to the equivalence
   database (forwards, two-way ones also backwards) and every key of eqv_rule_to_strategy (both ways) back into a rule
   filed under exactly that entry.  Remaining hypotheses (all on the TABLE): the two strategy contracts, sym_unary and
   twoway_faithful (see C04_search_gives_add_hist for why they cannot be discharged), a strategy with a two-way entry
   can be an equivalence (cap), two-way entries are reversible; and per entry: the class a reversed / equivalence
   entry ends in is not empty. *)
Theorem C02_search_find_rule_total : forall (T : table) (cap : Z -> bool) (pack : list Z),
  sym_unary T -> (forall sid0 c0 r, In r (rules_from_strategy T sid0 c0) -> twoway_faithful T r) ->
  pe_contract T pack -> sym_contract T ->
  (forall sid c e, entry_of T sid c = Some e -> e_two_way e = true -> cap sid = true) ->
  (forall sid c e, entry_of T sid c = Some e -> e_two_way e = true -> e_reversible e = true) ->
  forall F dl ev ans start ps, packets_in pack ps ->
  let s := run_search T 0 F dl ev ans start ps in
  let d := cdb s in
  exists a, add_hist T a /\ b_cdb dstore a = d /\ d_keys (b_r dstore a) = rstore s /\ d_keys (b_e dstore a) = estore s /\
  let fr := find_rule T cap (dict_lookup (b_r dstore a)) (dict_lookup (b_e dstore a)) d in
  (forall p cs, In (p, cs) (rstore s) ->
     exists f, fr p cs = (d, inl f) /\ form_key T d f = Some (p, cs)) /\
  (forall tw x y, In (EvEdge tw x y) (trace s) ->
     ((forall C, label_of Z.eqb (fun c : Z => c) d C = Some y -> oracle T C = false) ->
      exists f, fr x [y] = (d, inl f) /\ form_key T d f = Some (x, [y])) /\
     (tw = true -> (forall C, label_of Z.eqb (fun c : Z => c) d C = Some x -> oracle T C = false) ->
      exists f', fr y [x] = (d, inl f') /\ form_key T d f' = Some (y, [x]))) /\
  (forall p cs, In (p, cs) (estore s) ->
     exists c, cs = [c] /\
     ((forall C, label_of Z.eqb (fun c : Z => c) d C = Some c -> oracle T C = false) ->
      exists f, fr p [c] = (d, inl f) /\ form_key T d f = Some (p, [c])) /\
     ((forall C, label_of Z.eqb (fun c : Z => c) d C = Some p -> oracle T C = false) ->
      exists f', fr c [p] = (d, inl f') /\ form_key T d f' = Some (c, [p]))).
Proof. exact search_find_rule_total. Qed.

(* applied to the search of C04's sx_table (a symmetry entry on an EMPTY class: stores {(2,()), (0,(2,))} and
   {(0,(1,)), (3,(4,))}): all hypotheses discharged by computation *)
Lemma sx_cap : forall sid c e, entry_of C04.sx_table sid c = Some e -> e_two_way e = true -> (fun _ : Z => true) sid = true.
Proof. reflexivity. Qed.
Lemma sx_rev : forall sid c e, entry_of C04.sx_table sid c = Some e -> e_two_way e = true -> e_reversible e = true.
Proof.
  intros sid c e He Ht. unfold entry_of in He. destruct (strat_of C04.sx_table sid) as [x|] eqn:Es; [|discriminate].
  unfold strat_of in Es. destruct (sid <? 0); [discriminate|].
  destruct (Z.to_nat sid) as [|[|[|n]]]; simpl in Es; try (destruct n; discriminate); injection Es as <-; simpl in He;
    repeat match type of He with context [if ?b then _ else _] => destruct b end; try discriminate;
    injection He as <-; try reflexivity; discriminate.
Qed.
Example C02_search_find_rule_total_nonvacuous :
  let s := run_search C04.sx_table 0 20 false true C04.ex_ans 0 C04.sx_ps in
  let d := cdb s in
  exists a, add_hist C04.sx_table a /\ b_cdb dstore a = d /\ d_keys (b_r dstore a) = rstore s /\ d_keys (b_e dstore a) = estore s /\
  let fr := find_rule C04.sx_table (fun _ => true) (dict_lookup (b_r dstore a)) (dict_lookup (b_e dstore a)) d in
  (forall p cs, In (p, cs) (rstore s) ->
     exists f, fr p cs = (d, inl f) /\ form_key C04.sx_table d f = Some (p, cs)) /\
  (forall tw x y, In (EvEdge tw x y) (trace s) ->
     ((forall C, label_of Z.eqb (fun c : Z => c) d C = Some y -> oracle C04.sx_table C = false) ->
      exists f, fr x [y] = (d, inl f) /\ form_key C04.sx_table d f = Some (x, [y])) /\
     (tw = true -> (forall C, label_of Z.eqb (fun c : Z => c) d C = Some x -> oracle C04.sx_table C = false) ->
      exists f', fr y [x] = (d, inl f') /\ form_key C04.sx_table d f' = Some (y, [x]))) /\
  (forall p cs, In (p, cs) (estore s) ->
     exists c, cs = [c] /\
     ((forall C, label_of Z.eqb (fun c : Z => c) d C = Some c -> oracle C04.sx_table C = false) ->
      exists f, fr p [c] = (d, inl f) /\ form_key C04.sx_table d f = Some (p, [c])) /\
     ((forall C, label_of Z.eqb (fun c : Z => c) d C = Some p -> oracle C04.sx_table C = false) ->
      exists f', fr c [p] = (d, inl f') /\ form_key C04.sx_table d f' = Some (c, [p]))).
Proof.
  exact (C02_search_find_rule_total C04.sx_table (fun _ => true) C04.sx_pack C04.C04_sx_sym_unary C04.C04_sx_faithful
           C04.C04_sx_pe_contract C04.C04_sx_sym_contract sx_cap sx_rev 20%nat false true C04.ex_ans 0 C04.sx_ps C04.sx_packets).
Qed.
(* the entries it speaks about *)
Example C02_search_find_rule_total_entries :
  let s := run_search C04.sx_table 0 20 false true C04.ex_ans 0 C04.sx_ps in
  rstore s = [(2, []); (0, [2])] /\ estore s = [(0, [1]); (3, [4])] /\ In (EvEdge true 3 4) (trace s).
Proof. cbv zeta. split; [|split]; vm_compute; auto 20. Qed.

(* THE SAME with every table hypothesis replaced by ONE boolean the extracted run_c02 evaluates on the table of every
   table-universe search whose rules() it is compared on (Searcher/Deciders.v find_rule_hyps_b = pe_contractb &&
   sym_contractb && sym_unaryb && items_plainb && cap_okb && rev_okb; its value is printed as the second bit of output
   field 6 of run_c02 - there conjoined with packets_inb of the packets sent, none in C02 - and compared with the
   harness's Python predicates on every such case).  A case where it is false is a case this theorem says nothing
   about.  items_plainb is sufficient, not necessary, for twoway_faithful; the other conjuncts are exact. *)
Theorem C02_search_find_rule_total_decided : forall (T : table) (cap : Z -> bool) (pack : list Z),
  Searcher.Deciders.find_rule_hyps_b T pack cap = true ->
  forall F dl ev ans start ps, packets_inb pack ps = true ->
  let s := run_search T 0 F dl ev ans start ps in
  let d := cdb s in
  exists a, add_hist T a /\ b_cdb dstore a = d /\ d_keys (b_r dstore a) = rstore s /\ d_keys (b_e dstore a) = estore s /\
  let fr := find_rule T cap (dict_lookup (b_r dstore a)) (dict_lookup (b_e dstore a)) d in
  (forall p cs, In (p, cs) (rstore s) ->
     exists f, fr p cs = (d, inl f) /\ form_key T d f = Some (p, cs)) /\
  (forall tw x y, In (EvEdge tw x y) (trace s) ->
     ((forall C, label_of Z.eqb (fun c : Z => c) d C = Some y -> oracle T C = false) ->
      exists f, fr x [y] = (d, inl f) /\ form_key T d f = Some (x, [y])) /\
     (tw = true -> (forall C, label_of Z.eqb (fun c : Z => c) d C = Some x -> oracle T C = false) ->
      exists f', fr y [x] = (d, inl f') /\ form_key T d f' = Some (y, [x]))) /\
  (forall p cs, In (p, cs) (estore s) ->
     exists c, cs = [c] /\
     ((forall C, label_of Z.eqb (fun c : Z => c) d C = Some c -> oracle T C = false) ->
      exists f, fr p [c] = (d, inl f) /\ form_key T d f = Some (p, [c])) /\
     ((forall C, label_of Z.eqb (fun c : Z => c) d C = Some p -> oracle T C = false) ->
      exists f', fr c [p] = (d, inl f') /\ form_key T d f' = Some (c, [p]))).
Proof.
  intros T cap pack H F dl ev ans start ps Hps.
  destruct (Searcher.Deciders.find_rule_hyps_sound T pack cap H) as (A & B & C & D & E & G).
  exact (C02_search_find_rule_total T cap pack A B C D E G F dl ev ans start ps (proj1 (packets_inb_spec pack ps) Hps)).
Qed.
(* satisfiable: C04's sx_table (a symmetry entry on an EMPTY class) *)
Example C02_decider_true_somewhere :
  Searcher.Deciders.find_rule_hyps_b C04.sx_table C04.sx_pack (fun _ => true) = true /\ packets_inb C04.sx_pack C04.sx_ps = true.
Proof. split; reflexivity. Qed.

(* exactly when it fails (any stores): see outcomes_spec in Spec/FindRuleProofs.v - ValueError iff the key is in
   neither store in either direction; RuntimeError / class-database errors only when a lookup raises them; the
   three asserts and StrategyDoesNotApply only when the strategy handed back does not reproduce the key *)
Theorem C02_find_rule_outcomes : forall (T : table) (cap : Z -> bool) (get_r get_e : lookup) d p cs d' e,
  find_rule T cap get_r get_e d p cs = (d', inr e) -> outcomes_spec T cap get_r get_e d p cs d' e.
Proof. intros T cap get_r get_e. exact (find_rule_outcomes T cap get_r get_e). Qed.

(* the recorded limitation: a rule with a foreign parent produced by a factory from a class outside the key is found
   by RuleDB and makes RuleDBForgetStrategy raise RuntimeError (known finding C14 forget-foreign-parent-outside-key) *)
Theorem C02_find_rule_forget_foreign_parent_refuted :
  let T := C14.fp_table in
  let cap := fun _ : Z => true in
  let A := dict_add T (dict_init C14.fp_cdb) 1 [2] (mkR 0 1 RPlain) in
  let B := rec_add T (rec_init C14.fp_cdb) 1 [2] (mkR 0 1 RPlain) in
  d_get (1, [2]) (b_e dstore A) = Some 0 /\ r_mem (1, [2]) (b_e rstore_t B) = true /\
  snd (find_rule T cap (rec_lookup T [1] false (b_r rstore_t B)) (rec_lookup T [1] true (b_e rstore_t B))
         (b_cdb rstore_t B) 1 [2]) = inr ERecompute /\
  snd (find_rule T cap (dict_lookup (b_r dstore A)) (dict_lookup (b_e dstore A)) (b_cdb dstore A) 1 [2])
    = inl (FPlain (mkR 0 1 RPlain)).
Proof. exact find_rule_forget_foreign_parent_refuted. Qed.

(* the code before fix 398db71 (convert = false): an equivalence rule handed out with several children can only be an
   unconverted rule of rule_to_strategy (the finding, now fixed); with the repair (convert := true = /repo since
   398db71) every rule rules() yields whose
   is_equivalence() is True has exactly one child - the hypothesis unary_eqv of the grouping theorems *)
Theorem C02_equivalences_handed_out_unary : forall (T : table) (cap : Z -> bool) (get_r get_e : lookup) entries d d' fs e,
  (rules T cap get_r get_e false d entries = (d', fs, e) ->
   forall f, In f fs -> form_is_equivalence T cap f = true ->
   (exists c, form_children T f = [c]) \/ (exists r, f = FPlain r /\ length (kids_of T r) <> 1%nat)) /\
  (rules T cap get_r get_e true d entries = (d', fs, e) ->
   forall f, In f fs -> form_is_equivalence T cap f = true -> exists c, form_children T f = [c]).
Proof.
  intros T cap get_r get_e entries d d' fs e. split.
  - exact (unconverted_only_from_rule_store T cap get_r get_e entries d d' fs e).
  - exact (repair_makes_equivalences_unary T cap get_r get_e entries d d' fs e).
Qed.
End FR.

(* ====================================================================== CombinatorialSpecification.__init__ *)
Module GR.
Import Spec.Grouping Spec.GroupingWf Spec.GroupingFacts Spec.GroupingProofs Spec.GroupingInit Spec.GroupingProdLink.
Close Scope Z_scope.

(* no assert of _group_equiv_in_path / EquivalencePathRule.__init__ / get_rule fires, WHATEVER the fuel: the only
   way not to get a result is to run out of fuel ... *)
Theorem C02_grouping_never_asserts : forall is_empty root d0, wf_input is_empty root d0 ->
  forall fuel, group_core is_empty fuel root d0 = XFuel \/
               exists d1, group_core is_empty fuel root d0 = XOk d1 /\ grouped is_empty root d0 d1.
Proof. exact group_core_never_raises. Qed.

(* ... and the loop finishes within group_fuel turns (the fuel the executable model uses) *)
Theorem C02_grouping_terminates : forall is_empty root d0, wf_input is_empty root d0 ->
  forall fuel, group_fuel root d0 <= fuel ->
  exists d1, group_core is_empty fuel root d0 = XOk d1 /\ grouped is_empty root d0 d1.
Proof. exact group_core_ok. Qed.

(* what `grouped` says, spelled out *)
Theorem C02_grouping_result : forall is_empty root d0 d1, grouped is_empty root d0 d1 ->
  let nh := not_hidden root d0 in
  NoDup (map fst d1) /\
  is_valid_spec is_empty root d1 = true /\                 (* closed: the assert after the loop holds *)
  dmem root d1 = true /\                                    (* the root is kept *)
  (forall c, mem c nh = false -> dget c d1 = None) /\       (* hidden classes lose their rule *)
  (forall c r, dget c d0 = Some (GB r) -> b_eqv r = false -> dget c d1 = Some (GB r)) /\
  (forall c r, dget c d0 = Some (GB r) -> b_eqv r = true -> mem c nh = true ->
     exists rs y, dget c d1 = Some (GP r rs) /\ fchain root d0 (r :: rs) c y /\ mem y nh = true /\
                  dmem y d1 = true) /\
  (forall c g, dget c d1 = Some g ->
     mem c nh = true /\
     ((exists r0 rs, g = GP r0 rs /\ dget c d0 = Some (GB r0) /\ b_eqv r0 = true) \/
      (exists r, g = GB r /\ b_eqv r = false /\ dget c d0 = Some (GB r)) \/
      (dget c d0 = None /\ g = empty_rule c /\ is_empty c = true))) /\
  (forall h g, dget h d0 = Some g -> mem h nh = false ->
     exists c0 r0 rs, dget c0 d1 = Some (GP r0 rs) /\ In h (map b_cls rs)).
Proof. intros is_empty root d0 d1 H. exact H. Qed.

(* a path rule's members are the rules of d0 along a chain: each is the entry of its class and an equivalence, its
   one child is the class of the next member - hidden - or, for the last member, the path's child, which is not
   hidden; so children and composite of the path rule are those of the chain *)
Theorem C02_path_members_form_a_chain : forall root d0 l c y, fchain root d0 l c y ->
  (exists r l', l = r :: l' /\ b_cls r = c) /\
  (forall m, In m l -> dget (b_cls m) d0 = Some (GB m) /\ b_eqv m = true) /\
  (forall m, In m (tl l) -> mem (b_cls m) (not_hidden root d0) = false) /\
  (forall m, In m l -> exists z, b_ch m = [z] /\
      (z = y \/ (mem z (not_hidden root d0) = false /\ In z (map b_cls (tl l))))) /\
  (forall r0 rs, l = r0 :: rs -> g_ch (GP r0 rs) = [y]).
Proof.
  intros root d0 l c y H. repeat split.
  - exact (fchain_head root d0 l c y H).
  - apply (fchain_mem root d0 l c y H); assumption.
  - apply (fchain_mem root d0 l c y H); assumption.
  - exact (fchain_tl_hidden root d0 l c y H).
  - exact (fchain_next root d0 l c y H).
  - intros r0 rs ->. exact (fchain_last root d0 rs r0 c y H).
Qed.

(* grouping, then _ungroup_equiv_path: every class has its original rule again; the only other entries are lazily
   added empty rules of empty classes *)
Theorem C02_group_ungroup_roundtrip : forall is_empty root d0, wf_input is_empty root d0 ->
  forall fuel d1, group_core is_empty fuel root d0 = XOk d1 ->
  (forall c g, dget c d0 = Some g -> dget c (ungroup d1) = Some g) /\
  (forall c g, dget c (ungroup d1) = Some g ->
     dget c d0 = Some g \/ (dget c d0 = None /\ g = empty_rule c /\ is_empty c = true)).
Proof.
  intros is_empty root d0 W fuel d1 H. apply (ungroup_grouped is_empty root d0 W).
  destruct (group_core_never_raises is_empty root d0 W fuel) as [E|(d & E & G)]; congruence.
Qed.

(* the whole constructor with group_equiv=True never raises; its rules_dict is the grouped dictionary plus lazily
   added empty rules, every child of every rule has a rule, labels are distinct and the root has one *)
Theorem C02_constructor_never_raises : forall is_empty root rules,
  let d0 := ungroup (rules_dict rules) in
  wf_input is_empty root d0 ->
  (forall e, spec_init is_empty root rules true <> XErr e) /\
  (forall s, spec_init is_empty root rules true = XOk s ->
     exists d1, grouped is_empty root d0 d1 /\ ext is_empty d1 (sp_rules s) /\ closed_strict (sp_rules s) /\
                sp_root s = root /\ NoDup (sp_labels s) /\ In root (sp_labels s)).
Proof. exact spec_init_ok. Qed.

(* get_rule hands out the rule of the class; it adds a rule only for a class without one whose OWN is_empty() says
   empty, and then the empty rule; it raises (assert) exactly for a non-empty class without a rule *)
Theorem C02_lazy_empty_sound : forall is_empty d c,
  match get_rule is_empty d c with
  | XOk (d', g) =>
      (dget c d = Some g /\ d' = d) \/
      (dget c d = None /\ is_empty c = true /\ g = empty_rule c /\ d' = d ++ [(c, g)])
  | XErr e => e = XAssertEmpty /\ dget c d = None /\ is_empty c = false
  | XFuel => False
  end.
Proof. exact get_rule_spec. Qed.

Theorem C02_set_subrules_only_adds_empty_rules : forall is_empty root d,
  is_valid_spec is_empty root d = true ->
  exists d', set_subrules is_empty d = XOk d' /\ ext is_empty d d' /\ closed_strict d'.
Proof. exact set_subrules_ok. Qed.

(* _enforce_labels: no KeyError when every child has a rule; labels are distinct and every class pushed gets one.
   PARTIAL: that the traversal finishes within enforce_fuel turns is not proved (the model's XFuel answer has never
   been observed; a too small fuel would show as a model/implementation mismatch). *)
Theorem C02_enforce_labels_partial : forall fuel d, closed_strict d -> forall todo done labels,
  (forall c, In c todo -> dmem c d = true) -> NoDup labels ->
  match enforce fuel d todo done labels with
  | XOk ls => NoDup ls /\ (forall c, In c labels -> In c ls) /\ (forall c, In c todo -> In c ls)
  | XErr _ => False
  | XFuel => True
  end.
Proof. exact enforce_ok. Qed.

(* productivity is preserved: w.r.t. the forest keys of the grouped rules (a path rule counts with the SUM of its
   members' shifts) a class that is not hidden - the root in particular - pumps iff it pumps w.r.t. the keys of
   the ungrouped rules (d0 and the lazily added empty rules) *)
Theorem C02_grouping_preserves_productivity : forall is_empty root d0 d1,
  wf_input is_empty root d0 -> grouped is_empty root d0 d1 ->
  (forall k r, In (k, GB r) d0 -> length (b_sh r) = length (b_ch r)) ->
  (forall c, mem c (not_hidden root d0) = true ->
     (pumps (R1 d1) c <-> pumps (R0 d0 d1) c)) /\
  (pumps (R1 d1) root <-> pumps (R0 d0 d1) root) /\
  (forall c v, derivable (R1 d1) c v -> derivable (R0 d0 d1) c v).
Proof.
  intros is_empty root d0 d1 W G S. split; [|split].
  - exact (grouping_preserves_pumping is_empty root d0 d1 W G S).
  - exact (grouping_preserves_root_pumping is_empty root d0 d1 W G S).
  - exact (grouped_derivable_ungrouped is_empty root d0 d1 W G S).
Qed.

(* the third premise is decided by shifts_okb, which the check evaluates (next to wf_inputb) on every real rule set,
   now that every rule is sent with the shifts it declares *)
Theorem C02_shifts_decided : forall d, shifts_okb d = true ->
  forall k r, In (k, GB r) d -> length (b_sh r) = length (b_ch r).
Proof. exact Spec.GroupingProdObj.shifts_okb_sound. Qed.

(* what the check observes on a real rule set, put together: if wf_inputb and shifts_okb answer true on the
   ungrouped input, the executable constructor finishes, and its rules_dict has as many entries as the dictionary
   _group_equiv_in_path left (same_dictb; _set_subrules only appends, so it IS that dictionary), then the two key
   lists run_spec prints - R1 of the OBJECT'S rules_dict, compared by the check with the forest keys the real object
   declares, and R0 of the ungrouped rules - pump the same classes among those with a rule in the object *)
Theorem C02_object_keys_pump_iff : forall is_empty root rules s,
  let d0 := ungroup (rules_dict rules) in
  wf_inputb is_empty root d0 = true -> shifts_okb d0 = true ->
  spec_init is_empty root rules true = XOk s ->
  same_dictb is_empty root rules true (sp_rules s) = true ->
  grouped is_empty root d0 (sp_rules s) /\
  (forall c g, In (c, g) (sp_rules s) -> (pumps (R1 (sp_rules s)) c <-> pumps (R0 d0 (sp_rules s)) c)) /\
  (pumps (R1 (sp_rules s)) root <-> pumps (R0 d0 (sp_rules s)) root) /\
  (forall c v, derivable (R1 (sp_rules s)) c v -> derivable (R0 d0 (sp_rules s)) c v).
Proof. exact Spec.GroupingProdObj.object_keys_pump_iff. Qed.

(* the hypotheses are decided by wf_inputb, which the check evaluates on every real rule set *)
Theorem C02_wf_decided : forall is_empty root d, wf_inputb is_empty root d = true -> wf_input is_empty root d.
Proof. exact wf_inputb_sound. Qed.

(* ---------------------------------------------------------------- concrete inputs *)
Definition ex_empty (c : nat) : bool := Nat.eqb c 9.
Definition R (c : nat) (ch : list nat) (e : bool) (sh : list Z) (t : Z) : grule := GB (mkB c ch e sh t).
(* 0 -> (1, 5, 9) ; 1 => 2 => 3 => 4 (equivalences, 2 and 3 hidden) ; 5 => 3 ; 4 -> () ; 9 is empty, without rule *)
Definition ex_rules : list grule :=
  [R 0 [1; 5; 9] false [0; 1; 0]%Z 0; R 1 [2] true [0]%Z 1; R 2 [3] true [0]%Z 2; R 3 [4] true [0]%Z 3;
   R 5 [3] true [0]%Z 4; R 4 [] false [] 5].

Example C02_nonvacuous_grouping :
  wf_inputb ex_empty 0 (ungroup (rules_dict ex_rules)) = true /\
  exists s, spec_init ex_empty 0 ex_rules true = XOk s /\
    map fst (sp_rules s) = [0; 1; 5; 4; 9] /\
    dget 1 (sp_rules s) = Some (GP (mkB 1 [2] true [0]%Z 1) [mkB 2 [3] true [0]%Z 2; mkB 3 [4] true [0]%Z 3]) /\
    dget 9 (sp_rules s) = Some (empty_rule 9) /\ sp_labels s = [0; 1; 4; 5; 9].
Proof. vm_compute. split; [reflexivity|]. eexists. repeat split; reflexivity. Qed.

(* "every hidden class lies on exactly ONE path" is false in general: class 3 above is hidden and lies on the path
   of 1 and on the path of 5 (two classes with equivalence rules into the same chain - what the extractor builds
   when two explanation paths merge) *)
Theorem C02_hidden_on_two_paths :
  wf_inputb ex_empty 0 (ungroup (rules_dict ex_rules)) = true /\
  exists d1 r1 rs1 r5 rs5,
    group_core ex_empty (group_fuel 0 (rules_dict ex_rules)) 0 (rules_dict ex_rules) = XOk d1 /\
    dget 1 d1 = Some (GP r1 rs1) /\ dget 5 d1 = Some (GP r5 rs5) /\
    In 3 (map b_cls rs1) /\ In 3 (map b_cls rs5).
Proof.
  vm_compute. split; [reflexivity|]. do 5 eexists. repeat split; try reflexivity.
  - right. left. reflexivity.
  - left. reflexivity.
Qed.

(* ill-formed inputs on which the real constructor fails as the model does:
   an equivalence rule with an empty sibling that was not converted (the finding fixed by 398db71, see below), and a cycle of hidden
   classes (the loop never ends; only table universes with their arbitrary shifts produce it) *)
Example C02_grouping_rejects_nonunary_equivalence :
  spec_init ex_empty 0 [R 0 [1; 9] true [0; 0]%Z 0; R 1 [] false [] 1] true = XErr XAssertPathUnary /\
  spec_init ex_empty 0 [R 0 [9; 1] true [0; 0]%Z 0; R 1 [2] true [0]%Z 1; R 2 [] false [] 2] true = XErr XAssertChain /\
  wf_inputb ex_empty 0 (rules_dict [R 0 [1; 9] true [0; 0]%Z 0; R 1 [] false [] 1]) = false.
Proof. vm_compute. repeat split; reflexivity. Qed.

Example C02_grouping_hidden_cycle_runs_out_of_fuel :
  spec_init ex_empty 0 [R 0 [1] true [1]%Z 0; R 1 [2] true [1]%Z 1; R 2 [1] true [1]%Z 2] true = XFuel /\
  wf_inputb ex_empty 0 (rules_dict [R 0 [1] true [1]%Z 0; R 1 [2] true [1]%Z 1; R 2 [1] true [1]%Z 2]) = false.
Proof. vm_compute. split; reflexivity. Qed.

(* ---------------------------------------------------------------- productivity with real-looking shifts
   0 -> (1, 5, 9) shifts (1, 0, 0) ; 1 => 2 => 3 => 4 equivalences with shifts 1, -1, 2 (2 and 3 hidden) ;
   4 -> (0, 5) shifts (0, 1) ; 5 -> () ; 9 is empty, without rule *)
Definition pr_rules : list grule :=
  [R 0 [1; 5; 9] false [1; 0; 0]%Z 0; R 1 [2] true [1]%Z 1; R 2 [3] true [(-1)]%Z 2; R 3 [4] true [2]%Z 3;
   R 4 [0; 5] false [0; 1]%Z 4; R 5 [] false [] 5].
Definition pr_d0 : dict := ungroup (rules_dict pr_rules).
Definition pr_d1 : dict :=
  [(0, R 0 [1; 5; 9] false [1; 0; 0]%Z 0);
   (1, GP (mkB 1 [2] true [1]%Z 1) [mkB 2 [3] true [(-1)]%Z 2; mkB 3 [4] true [2]%Z 3]);
   (4, R 4 [0; 5] false [0; 1]%Z 4); (5, R 5 [] false [] 5); (9, empty_rule 9)].

(* the table-method model's verdict on the GROUPED keys (path 1 => 2 => 3 => 4 counted as 1 -> 4 with shift
   1 + (-1) + 2 = 2) ... *)
Lemma pr_run : exists st, run pick0 100 init (map AddKey (R1 pr_d1)) = Some st /\
  map (fun c => snd (is_pumping st c)) [0; 1; 4; 5; 9] = [true; true; true; true; true].
Proof. eexists. split; vm_compute; reflexivity. Qed.

(* C02_grouping_preserves_productivity APPLIED to a dictionary with a path rule whose members have non-zero
   shifts; all three hypotheses discharged by computation (wf_inputb, the executable group_core, shifts_okb).
   The verdict computed on the keys of the grouped object (C02_productive_decided) is carried to the ungrouped
   rules, hidden classes 2 and 3 included (through the chain, GroupingProd.pumps_hidden is not even needed:
   they are parents of R0 keys whose only child pumps) *)
Example C02_grouping_preserves_productivity_applied :
  group_core ex_empty (group_fuel 0 pr_d0) 0 pr_d0 = XOk pr_d1 /\
  R1 pr_d1 = [mkkey 0 [(1, 1%Z); (5, 0%Z); (9, 0%Z)]; mkkey 1 [(4, 2%Z)]; mkkey 4 [(0, 0%Z); (5, 1%Z)];
              mkkey 5 []; mkkey 9 []] /\
  R0 pr_d0 pr_d1 = [mkkey 0 [(1, 1%Z); (5, 0%Z); (9, 0%Z)]; mkkey 1 [(2, 1%Z)]; mkkey 2 [(3, (-1)%Z)];
                    mkkey 3 [(4, 2%Z)]; mkkey 4 [(0, 0%Z); (5, 1%Z)]; mkkey 5 []; mkkey 9 []] /\
  (pumps (R1 pr_d1) 0 <-> pumps (R0 pr_d0 pr_d1) 0) /\
  pumps (R1 pr_d1) 0 /\ pumps (R0 pr_d0 pr_d1) 0 /\ pumps (R0 pr_d0 pr_d1) 1 /\ pumps (R0 pr_d0 pr_d1) 4.
Proof.
  assert (wf_input ex_empty 0 pr_d0) as W by (apply C02_wf_decided; vm_compute; reflexivity).
  destruct (C02_grouping_terminates ex_empty 0 pr_d0 W (group_fuel 0 pr_d0) (le_n _)) as (d1 & Hg & G).
  assert (d1 = pr_d1) as -> by (vm_compute in Hg; injection Hg as <-; reflexivity).
  assert (forall k r, In (k, GB r) pr_d0 -> length (b_sh r) = length (b_ch r)) as S
    by (apply C02_shifts_decided; vm_compute; reflexivity).
  destruct (C02_grouping_preserves_productivity ex_empty 0 pr_d0 pr_d1 W G S) as (Hall & Hroot & _).
  destruct pr_run as (st & Hr & Hv). cbn [map] in Hv. injection Hv as H0 H1 H4 _ _.
  pose proof (C02_productive_decided (R1 pr_d1) 100 st Hr) as D.
  assert (pumps (R1 pr_d1) 0) as P0 by (apply D; exact H0).
  split; [exact Hg|]. split; [vm_compute; reflexivity|]. split; [vm_compute; reflexivity|].
  split; [exact Hroot|]. split; [exact P0|]. split; [apply Hroot; exact P0|].
  split; (apply Hall; [vm_compute; reflexivity|apply D; assumption]).
Qed.

(* the same through the executable constructor, as the check does it on every real rule set: the four bits
   run_spec prints (wf, shifts_ok, status, same) are the hypotheses *)
Example C02_object_keys_pump_iff_applied :
  exists s, spec_init ex_empty 0 pr_rules true = XOk s /\ sp_rules s = pr_d1 /\
    (pumps (R1 (sp_rules s)) 0 <-> pumps (R0 pr_d0 (sp_rules s)) 0) /\
    (pumps (R1 (sp_rules s)) 1 <-> pumps (R0 pr_d0 (sp_rules s)) 1).
Proof.
  eexists. split; [vm_compute; reflexivity|]. split; [reflexivity|].
  destruct (C02_object_keys_pump_iff ex_empty 0 pr_rules _
              ltac:(vm_compute; reflexivity) ltac:(vm_compute; reflexivity) ltac:(vm_compute; reflexivity)
              ltac:(vm_compute; reflexivity)) as (_ & Hall & Hroot & _).
  split; [exact Hroot|]. apply (Hall 1 (GP (mkB 1 [2] true [1]%Z 1) [mkB 2 [3] true [(-1)]%Z 2; mkB 3 [4] true [2]%Z 3])).
  right. left. reflexivity.
Qed.

(* the premise `one shift per child` is needed for the KEYS to be those of the rules: with the shifts left out
   (what the check used to send) zip(children, shifts) is empty, every rule is a leaf and pumps vacuously *)
Example C02_shifts_premise_matters :
  shifts_okb (ungroup (rules_dict [R 0 [1] false [] 0; R 1 [0] false [] 1])) = false /\
  R1 (rules_dict [R 0 [1] false [] 0; R 1 [0] false [] 1]) = [mkkey 0 []; mkkey 1 []].
Proof. vm_compute. split; reflexivity. Qed.

(* ---------------------------------------------------------------- the PROVED productivity verdict on the object
   Spec/GroupingPumps.v: pumpsb ks c = the answer of is_pumping(c) of the table-method model (Forest/Model.v run,
   with the fuel proved sufficient: run_total) on a fresh table fed with ks.  run_spec prints, for every real
   rule set, pumpsb on R1 of the finished object and on R0 of the ungrouped rules, for the root (field 9) and
   for every class with a key (fields 10, 11) - C02_run_spec_prints_the_verdicts; the check REQUIRES these bits
   to be 1 wherever a productive rule set is owed (harness/props/c02.py), and compares them with the independent
   Python naive_lfp everywhere. *)
Import Spec.GroupingPumps Spec.GroupingPumpsProofs.

(* the verdict is a decision procedure for `pumps` (no hypothesis: for ANY key list and class) *)
Theorem C02_object_root_pumps_decided : forall d0 d1 root,
  (pumpsb (R1 d1) root = true <-> pumps (R1 d1) root) /\
  (pumpsb (R0 d0 d1) root = true <-> pumps (R0 d0 d1) root).
Proof. intros. split; apply pumpsb_spec. Qed.

Theorem C02_pumps_decided : forall ks c, pumpsb ks c = true <-> pumps ks c.
Proof. exact pumpsb_spec. Qed.

(* "every class in it": the all-classes verdict (all bits of field 10 / 11 are 1) *)
Theorem C02_object_all_classes_pump_decided : forall ks,
  all_pumpb ks = true <-> forall k, In k ks -> pumps ks (parent k).
Proof. exact all_pumpb_spec. Qed.

(* combined with C02_grouping_preserves_productivity (through C02_object_keys_pump_iff): the four bits run_spec
   prints and ONE positive verdict give pumps (R1 object) root AND pumps (R0 ungrouped) root - the `pumps keys c`
   hypothesis of C01_spec_correct, for the keys the object declares *)
Theorem C02_object_root_pumps : forall is_empty root rules s,
  let d0 := ungroup (rules_dict rules) in
  wf_inputb is_empty root d0 = true -> shifts_okb d0 = true ->
  spec_init is_empty root rules true = XOk s ->
  same_dictb is_empty root rules true (sp_rules s) = true ->
  (pumpsb (R1 (sp_rules s)) root = true \/ pumpsb (R0 d0 (sp_rules s)) root = true) ->
  pumps (R1 (sp_rules s)) root /\ pumps (R0 d0 (sp_rules s)) root.
Proof. exact object_root_pumps. Qed.

(* under the premises of the grouping theorem the two verdicts cannot differ, for the root and for every class
   with a rule in the object (the check compares fields 10 and 11 accordingly) *)
Theorem C02_object_verdicts_agree : forall is_empty root rules s,
  let d0 := ungroup (rules_dict rules) in
  wf_inputb is_empty root d0 = true -> shifts_okb d0 = true ->
  spec_init is_empty root rules true = XOk s ->
  same_dictb is_empty root rules true (sp_rules s) = true ->
  pumpsb (R1 (sp_rules s)) root = pumpsb (R0 d0 (sp_rules s)) root /\
  forall c g, In (c, g) (sp_rules s) -> pumpsb (R1 (sp_rules s)) c = pumpsb (R0 d0 (sp_rules s)) c.
Proof. exact object_verdicts_agree. Qed.

Theorem C02_object_all_classes_pump : forall is_empty root rules s,
  let d0 := ungroup (rules_dict rules) in
  wf_inputb is_empty root d0 = true -> shifts_okb d0 = true ->
  spec_init is_empty root rules true = XOk s ->
  same_dictb is_empty root rules true (sp_rules s) = true ->
  all_pumpb (R1 (sp_rules s)) = true ->
  forall c g, In (c, g) (sp_rules s) -> pumps (R1 (sp_rules s)) c /\ pumps (R0 d0 (sp_rules s)) c.
Proof. exact object_all_classes_pump. Qed.

(* what the extracted run_spec prints (category (i): the very function the harness runs) *)
Theorem C02_run_spec_prints_the_verdicts : forall (a : sx) s,
  let root := sx_nat (sx_nth a 0) in
  let ge := sx_bool (sx_nth a 1) in
  let is_empty := fun c => mem c (sx_nats (sx_nth a 2)) in
  let rules := map Spec.GroupingRun.dec_grule (sx_list (sx_nth a 3)) in
  let d0 := ungroup (rules_dict rules) in
  sx_list a <> [] ->
  spec_init is_empty root rules ge = XOk s ->
  sx_nth (Spec.GroupingRun.run_spec a) 6 = L (map Spec.GroupingRun.enc_fkey (R1 (sp_rules s))) /\
  sx_nth (Spec.GroupingRun.run_spec a) 7 = L (map Spec.GroupingRun.enc_fkey (R0 d0 (sp_rules s))) /\
  sx_nth (Spec.GroupingRun.run_spec a) 9 =
    L [of_bool (pumpsb (R1 (sp_rules s)) root); of_bool (pumpsb (R0 d0 (sp_rules s)) root)] /\
  sx_nth (Spec.GroupingRun.run_spec a) 10 =
    L (map (fun k => L [of_nat (parent k); of_bool (pumpsb (R1 (sp_rules s)) (parent k))]) (R1 (sp_rules s))) /\
  sx_nth (Spec.GroupingRun.run_spec a) 11 =
    L (map (fun k => L [of_nat (parent k); of_bool (pumpsb (R0 d0 (sp_rules s)) (parent k))]) (R0 d0 (sp_rules s))).
Proof. exact run_spec_verdicts. Qed.

(* non-vacuity on the example with a path of shifts 1, -1, 2: the verdicts are computed, and the combination
   theorem is applied *)
Example C02_object_root_pumps_applied :
  exists s, spec_init ex_empty 0 pr_rules true = XOk s /\
    pumpsb (R1 (sp_rules s)) 0 = true /\ pumpsb (R0 pr_d0 (sp_rules s)) 0 = true /\
    all_pumpb (R1 (sp_rules s)) = true /\
    pumps (R1 (sp_rules s)) 0 /\ pumps (R0 pr_d0 (sp_rules s)) 0.
Proof.
  eexists. split; [vm_compute; reflexivity|]. split; [vm_compute; reflexivity|].
  split; [vm_compute; reflexivity|]. split; [vm_compute; reflexivity|].
  apply (C02_object_root_pumps ex_empty 0 pr_rules _
           ltac:(vm_compute; reflexivity) ltac:(vm_compute; reflexivity) ltac:(vm_compute; reflexivity)
           ltac:(vm_compute; reflexivity)).
  left. vm_compute. reflexivity.
Qed.
(* and a rule set whose root does NOT pump: 0 -> (0 with shift 0); both verdicts are false *)
Example C02_object_root_does_not_pump :
  pumpsb (R1 (rules_dict [R 0 [0] false [0]%Z 0])) 0 = false /\ ~ pumps (R1 (rules_dict [R 0 [0] false [0]%Z 0])) 0.
Proof.
  split; [vm_compute; reflexivity|]. intros P. apply C02_pumps_decided in P. vm_compute in P. discriminate.
Qed.

(* ---------------------------------------------------------------- C02's object -> the descriptor list C01 evaluates
   Spec/GroupingDesc.v descs_of : (tag -> constructor description) -> (tag -> path step) -> Grouping.dict -> list cdesc.
   The forest keys DECLARED by the descriptors of the classes of the dictionary are exactly R1 of the dictionary:
   C02's proved verdict is about the keys of the descriptor list C01's theorems evaluate. *)
Theorem C02_descriptors_declare_R1 : forall info sinfo (d : dict),
  NoDup (map fst d) -> (forall c g, In (c, g) d -> parent (gkey g) = c) ->
  forall k, In k (R1 d) ->
  exists dd, nth_error (Spec.GroupingDesc.descs_of info sinfo d) (parent k) = Some dd /\
             Spec.CountRun.c_deps dd = Forest.Spec.kids k.
Proof. exact Spec.GroupingDescProofs.descs_declare_R1. Qed.

Theorem C02_descriptors_declare_only_R1 : forall info sinfo (d : dict),
  (forall c g, In (c, g) d -> parent (gkey g) = c) ->
  forall c dd, nth_error (Spec.GroupingDesc.descs_of info sinfo d) c = Some dd ->
  (exists g, dget c d = Some g /\ dd = Spec.GroupingDesc.desc_of info sinfo g /\
             In (mkkey c (Spec.CountRun.c_deps dd)) (R1 d)) \/
  (dget c d = None /\ dd = Spec.GroupingDesc.empty_desc).
Proof. exact Spec.GroupingDescProofs.descs_only_R1. Qed.

(* C02 -> C01, PARTIAL: the four bits + a positive verdict + C01's per-descriptor contracts give the true counts
   of the root from the descriptor list of the object.  Missing: that harness/props/c01.py describe() builds THIS
   list from the real object (trusted Python, other class numbering, shift 0 written for a path where R1 has the
   sum of its members' shifts), that run_c01 is ever fed with it, and the contracts themselves
   (Spec/GroupingDescProofs.v). *)
Theorem C02_object_counts_partial :
  forall T npar vpos kpos, Spec.AdapterSound.T_ok T npar -> (forall l m, Count.TermsPolyOrder.canon (T l m)) ->
  forall info sinfo is_empty root rules s,
  let d0 := ungroup (rules_dict rules) in
  wf_inputb is_empty root d0 = true -> shifts_okb d0 = true ->
  spec_init is_empty root rules true = XOk s ->
  same_dictb is_empty root rules true (sp_rules s) = true ->
  pumpsb (R1 (sp_rules s)) root = true ->
  let ds := Spec.GroupingDesc.descs_of info sinfo (sp_rules s) in
  (forall c d, nth_error ds c = Some d -> Spec.Adapter.deps_shape d) ->
  (forall c d, nth_error ds c = Some d -> forall Hz, Spec.AdapterSound.rule_contract T npar vpos kpos Hz c d) ->
  forall n, (0 <= n)%Z ->
  exists f0, forall f, (f0 <= f)%nat ->
    Spec.Eval.eval Count.Terms.terms [] (Spec.AdapterGenuine.spec_ofN ds) f root n = T root n.
Proof. exact Spec.GroupingDescProofs.object_counts_partial. Qed.

(* the descriptor list of the example object: classes 0, 1, 4, 5, 9 get the descriptors of their entries (the path
   of class 1 declares (4, 1 + -1 + 2)), the hidden classes 2, 3 and the non-classes 6..8 the filler *)
Example C02_descriptors_example :
  map Spec.CountRun.c_deps (Spec.GroupingDesc.descs_of (fun _ => Spec.GroupingDesc.empty_desc)
                              (fun _ => Count.ConstructorsRun.dec_step (L [])) pr_d1) =
  [[(1%nat, 1); (5%nat, 0); (9%nat, 0)]; [(4%nat, 2)]; []; []; [(0%nat, 0); (5%nat, 1)]; []; []; []; []; []]%Z /\
  map (fun k => (parent k, Forest.Spec.kids k)) (R1 pr_d1) =
  [(0%nat, [(1%nat, 1); (5%nat, 0); (9%nat, 0)]); (1%nat, [(4%nat, 2)]); (4%nat, [(0%nat, 0); (5%nat, 1)]);
   (5%nat, []); (9%nat, [])]%Z.
Proof. split; vm_compute; reflexivity. Qed.
End GR.

(* ====================================================================== the finding fixed by /repo 398db71, in the models *)
Module FINDING.
Import ClassDB.Model Searcher.Model RuleDB.Model Spec.FindRule Spec.Grouping.
Open Scope Z_scope.

(* strategy 0: possibly_empty, NOT two-way, can be an equivalence; class 0 -> (1, 2) with class 2 empty.
   strategy 1: verification of class 1.  RuleDBBase.add files (0, (1,)) in rule_to_strategy. *)
Definition f_table : table :=
  mkT [0; 0; 1]
      [ mkS 0 false true true true [(0, mkE [1; 2] false false [0; 0])] [];
        mkS 2 false false false false [(1, mkE [] false false [])] [] ]
      [1] [].
Definition f_cdb : cdbT := mk [0; 1; 2] [(0, 0); (1, 1); (2, 2)] [None; None; None] 0.
Definition f_db : dbst dstore :=
  dict_add f_table (dict_add f_table (dict_init f_cdb) 0 [1; 2] (mkR 0 0 RPlain)) 1 [] (mkR 1 1 RVer).
Definition f_rules (convert : bool) :=
  rules f_table (fun _ => true) (dict_lookup (b_r dstore f_db)) (dict_lookup (b_e dstore f_db)) convert
        (b_cdb dstore f_db) [(0, [1]); (1, [])].
(* the rule objects as the constructor sees them (classes = their numbers) *)
Definition grule_of (f : form) : grule :=
  GB (mkB (Z.to_nat (form_parent f_table f)) (map Z.to_nat (form_children f_table f))
          (form_is_equivalence f_table (fun _ => true) f) [] 0).
Definition f_empty (c : nat) : bool := Nat.eqb c 2.

(* rules() hands out strategy(class 0) AS IT IS: a rule with two children whose is_equivalence() is True; the
   constructor's EquivalencePathRule asserts on it.  Replayed on the real code:
   findings/oneway_equivalence_with_empty_sibling.py *)
Theorem C02_extractor_hands_out_nonunary_equivalence_refuted :
  d_keys (b_r dstore f_db) = [(0, [1]); (1, [])] /\ d_keys (b_e dstore f_db) = [] /\
  exists fs, f_rules false = (b_cdb dstore f_db, fs, None) /\
    fs = [FPlain (mkR 0 0 RPlain); FPlain (mkR 1 1 RVer)] /\
    form_children f_table (FPlain (mkR 0 0 RPlain)) = [1; 2] /\
    form_is_equivalence f_table (fun _ => true) (FPlain (mkR 0 0 RPlain)) = true /\
    spec_init f_empty 0 (map grule_of fs) true = XErr XAssertPathUnary.
Proof. vm_compute. split; [reflexivity|split; [reflexivity|]]. eexists. repeat split; reflexivity. Qed.

(* with the proposed repair (rules() converts such a rule into its equivalence form, as ForestRuleExtractor.rules
   does) the constructor accepts the rule set *)
Theorem C02_repair_converts :
  exists fs s, f_rules true = (b_cdb dstore f_db, fs, None) /\
    fs = [FEquiv (mkR 0 0 RPlain); FPlain (mkR 1 1 RVer)] /\
    spec_init f_empty 0 (map grule_of fs) true = XOk s /\ map fst (sp_rules s) = [0%nat; 1%nat].
Proof. vm_compute. do 2 eexists. repeat split; reflexivity. Qed.
End FINDING.

Import FR GR FINDING.
Print Assumptions C02_closed.
Print Assumptions C02_closed_on_equivalence_database.
Print Assumptions C02_one_rule_per_class.
Print Assumptions C02_productive_decided.
Print Assumptions C02_rules_from_table.
Print Assumptions C02_rules_from_table_all.
Print Assumptions C02_find_rule_total_generic.
Print Assumptions C02_find_rule_total.
Print Assumptions C02_search_find_rule_total.
Print Assumptions C02_search_find_rule_total_decided.
Print Assumptions C02_find_rule_outcomes.
Print Assumptions C02_find_rule_forget_foreign_parent_refuted.
Print Assumptions C02_equivalences_handed_out_unary.
Print Assumptions C02_grouping_never_asserts.
Print Assumptions C02_grouping_terminates.
Print Assumptions C02_grouping_result.
Print Assumptions C02_path_members_form_a_chain.
Print Assumptions C02_group_ungroup_roundtrip.
Print Assumptions C02_constructor_never_raises.
Print Assumptions C02_lazy_empty_sound.
Print Assumptions C02_set_subrules_only_adds_empty_rules.
Print Assumptions C02_enforce_labels_partial.
Print Assumptions C02_grouping_preserves_productivity.
Print Assumptions C02_shifts_decided.
Print Assumptions C02_object_keys_pump_iff.
Print Assumptions C02_object_root_pumps_decided.
Print Assumptions C02_pumps_decided.
Print Assumptions C02_object_all_classes_pump_decided.
Print Assumptions C02_object_root_pumps.
Print Assumptions C02_object_verdicts_agree.
Print Assumptions C02_object_all_classes_pump.
Print Assumptions C02_run_spec_prints_the_verdicts.
Print Assumptions C02_descriptors_declare_R1.
Print Assumptions C02_descriptors_declare_only_R1.
Print Assumptions C02_object_counts_partial.
Print Assumptions C02_wf_decided.
Print Assumptions C02_hidden_on_two_paths.
Print Assumptions C02_extractor_hands_out_nonunary_equivalence_refuted.
Print Assumptions C02_repair_converts.
