(* C01 — a specification returned by the searcher enumerates the root class
   correctly.  Statements only (proofs: Spec/Eval.v).

   A specification is a partial map  class label -> rule, a rule being its
   children (with the shifts it declares) and its term operator
       r_op : (children's term providers) -> (own earlier terms) -> n -> terms.
   `eval fuel c n` is Rule.get_terms/_ensure_level through the children's
   get_terms, with explicit fuel.  T is the TRUE enumeration of every class.

   Hypotheses of the first six theorems (about the abstract evaluator `eval`):
     genuine        fed with the true tables of its children a rule returns the true table of its parent
     local          a rule reads child i only at sizes <= n - shift_i and its own terms only below n
     keys/spec      every forest key considered belongs to a rule of `spec` whose children-with-shifts are
                    AMONG the key's (incl; the first version asked for equality, which the rules handed out
                    by ForestRuleExtractor.rules() do not satisfy: Spec/EvalDrop.v) (`spec` is a FUNCTION: one
                    rule per class is built into its type; there is no separate closedness hypothesis —
                    closure along derivations follows from `pumps`)
     productive     the class pumps w.r.t. those keys (C03's notion; for RuleDBForest discharged by the
                    pipeline theorems below, otherwise a hypothesis).
   For rules of the LIBRARY'S constructors `local` and `genuine` are THEOREMS (second half of this file:
   C01_srule_of_local from C10, C01_srule_of_genuine* from C09) and the executable evaluator that the
   harness runs (Spec/CountRun.v rounds / run_c01) is proved to compute `eval` (C01_rounds_is_eval) and
   the true tables (C01_rounds_correct, C01_run_correct).
   Conclusion: evaluation terminates (enough fuel exists) and returns the true
   counts for every class, size and parameter value; and the specification has
   no other solution. *)
From Coq Require Import ZArith List.
From CSS Require Import Forest.Spec Spec.Eval Spec.EvalDrop.
Import ListNotations.
Open Scope Z_scope.

Theorem C01_spec_correct :
  forall (terms : Type) (dflt : terms) (spec : nat -> option (srule terms))
         (T : nat -> Z -> terms) (keys : list fkey),
  (forall k, In k keys -> exists r, spec (parent k) = Some r /\ incl (r_kids terms r) (kids k)) ->
  (forall c m, m < 0 -> T c m = dflt) ->
  (forall c r, spec c = Some r -> forall p o n, n < 0 -> r_op terms r p o n = dflt) ->
  (forall c r, spec c = Some r -> local terms r) ->
  (forall c r, spec c = Some r -> genuine terms T c r) ->
  forall c, pumps keys c ->
  forall n, 0 <= n ->
  exists f0, forall f, (f0 <= f)%nat -> eval terms dflt spec f c n = T c n.
Proof.
  intros terms dflt spec T keys Hk Tn On Hl Hg c P n Hn.
  apply (eval_correct terms dflt spec T Tn On Hl Hg).
  apply (pumps_ev_sub terms spec keys Hk c P n Hn).
Qed.

Theorem C01_unique_solution :
  forall (terms : Type) (dflt : terms) (spec : nat -> option (srule terms))
         (T U : nat -> Z -> terms) (keys : list fkey),
  (forall k, In k keys -> exists r, spec (parent k) = Some r /\ incl (r_kids terms r) (kids k)) ->
  (forall c m, m < 0 -> T c m = dflt) ->
  (forall c r, spec c = Some r -> local terms r) ->
  (forall c r, spec c = Some r -> genuine terms T c r) ->
  (forall c m, m < 0 -> U c m = dflt) ->
  (forall c r n, spec c = Some r -> 0 <= n ->
     r_op terms r (fun i m => U (kid terms r i) m) (U c) n = U c n) ->
  forall c, pumps keys c -> forall n, 0 <= n -> U c n = T c n.
Proof.
  intros terms dflt spec T U keys Hk Tn Hl Hg Un Us c P n Hn.
  apply (unique_solution terms dflt spec T Tn Hl Hg U Un Us).
  apply (pumps_ev_sub terms spec keys Hk c P n Hn).
Qed.

(* two specifications for the same classes that both satisfy the hypotheses
   (e.g. found by different rule databases, proof-tree choices or time
   slicings) count identically: both equal T *)
Theorem C01_choice_independent :
  forall (terms : Type) (dflt : terms) (spec1 spec2 : nat -> option (srule terms))
         (T : nat -> Z -> terms) (keys1 keys2 : list fkey),
  (forall k, In k keys1 -> exists r, spec1 (parent k) = Some r /\ incl (r_kids terms r) (kids k)) ->
  (forall k, In k keys2 -> exists r, spec2 (parent k) = Some r /\ incl (r_kids terms r) (kids k)) ->
  (forall c m, m < 0 -> T c m = dflt) ->
  (forall c r, spec1 c = Some r -> forall p o n, n < 0 -> r_op terms r p o n = dflt) ->
  (forall c r, spec2 c = Some r -> forall p o n, n < 0 -> r_op terms r p o n = dflt) ->
  (forall c r, spec1 c = Some r -> local terms r) -> (forall c r, spec2 c = Some r -> local terms r) ->
  (forall c r, spec1 c = Some r -> genuine terms T c r) ->
  (forall c r, spec2 c = Some r -> genuine terms T c r) ->
  forall c, pumps keys1 c -> pumps keys2 c -> forall n, 0 <= n ->
  exists f0, forall f, (f0 <= f)%nat ->
    eval terms dflt spec1 f c n = eval terms dflt spec2 f c n.
Proof.
  intros terms dflt spec1 spec2 T keys1 keys2 Hk1 Hk2 Tn On1 On2 Hl1 Hl2 Hg1 Hg2 c P1 P2 n Hn.
  destruct (C01_spec_correct terms dflt spec1 T keys1 Hk1 Tn On1 Hl1 Hg1 c P1 n Hn) as [f1 H1].
  destruct (C01_spec_correct terms dflt spec2 T keys2 Hk2 Tn On2 Hl2 Hg2 c P2 n Hn) as [f2 H2].
  exists (Nat.max f1 f2). intros f Hf. rewrite H1, H2; auto;
    [apply (Nat.le_trans _ (Nat.max f1 f2)); auto; apply Nat.le_max_r
    |apply (Nat.le_trans _ (Nat.max f1 f2)); auto; apply Nat.le_max_l].
Qed.

Print Assumptions C01_spec_correct.
Print Assumptions C01_unique_solution.
Print Assumptions C01_choice_independent.

(* ------------------------------------------------------------------------
   The forest pipeline end to end (Spec/Pipeline.v): no productivity
   hypothesis is left.  If the table-method model, run on the inserted forest
   keys `ks` (any order, any `set.pop()` resolution `pick`), reports the start
   class as pumping, and the extractor model returns `res`, and every
   extracted key was turned back into a rule whose children are the key's
   children minus EMPTY classes (`drops (empty_class T dflt)`: what rules()
   guarantees - it hands out rule.to_equivalence_rule() for a union whose
   other children are empty; Spec/EvalDrop.v, replayed on 2000 searches), then — for genuine
   (C09) and local (C10) rules — the recursive evaluation returns the true
   counts of the start class at every size, and the specification has no
   other solution there.  C03 (`sound_complete`) and C11
   (`extract_productive`) discharge what C01_spec_correct assumes. *)
From CSS Require Import Forest.Model Forest.Run Forest.Theorems Forest.Extractor Forest.ExtractorRun
  Forest.ExtractorTheorems Spec.Pipeline.

Theorem C01_forest_pipeline_correct :
  forall (terms : Type) (dflt : terms) (T : nat -> Z -> terms) (spec : nat -> option (srule terms))
         (pick : list nat -> nat) (fuel fuelx root : nat) (ks res : list bkey) (st : tm),
  run pick fuel init (add_ops ks) = Some st ->
  pumping_answer st root = true ->
  (forall k, In k ks -> (bk_bucket k < 4)%nat) ->
  extract fuelx root ks = Ok res ->
  (forall k, In k res ->
     exists r, spec (parent (bk_key k)) = Some r /\
               drops (empty_class T dflt) (r_kids terms r) (kids (bk_key k))) ->
  (forall c m, m < 0 -> T c m = dflt) ->
  (forall c r, spec c = Some r -> forall p o n, n < 0 -> r_op terms r p o n = dflt) ->
  (forall c r, spec c = Some r -> local terms r) ->
  (forall c r, spec c = Some r -> genuine terms T c r) ->
  forall n, 0 <= n ->
  exists f0, forall f, (f0 <= f)%nat -> eval terms dflt spec f root n = T root n.
Proof.
  intros terms dflt T spec pick fuel fuelx root ks res st.
  exact (forest_pipeline_correct terms dflt T spec pick fuel fuelx root ks res st).
Qed.

Theorem C01_forest_pipeline_unique :
  forall (terms : Type) (dflt : terms) (T U : nat -> Z -> terms) (spec : nat -> option (srule terms))
         (pick : list nat -> nat) (fuel fuelx root : nat) (ks res : list bkey) (st : tm),
  run pick fuel init (add_ops ks) = Some st ->
  pumping_answer st root = true ->
  (forall k, In k ks -> (bk_bucket k < 4)%nat) ->
  extract fuelx root ks = Ok res ->
  (forall k, In k res ->
     exists r, spec (parent (bk_key k)) = Some r /\
               drops (empty_class T dflt) (r_kids terms r) (kids (bk_key k))) ->
  (forall c m, m < 0 -> T c m = dflt) ->
  (forall c r, spec c = Some r -> local terms r) ->
  (forall c r, spec c = Some r -> genuine terms T c r) ->
  (forall c m, m < 0 -> U c m = dflt) ->
  (forall c r n, spec c = Some r -> 0 <= n ->
     r_op terms r (fun i m => U (kid terms r i) m) (U c) n = U c n) ->
  forall n, 0 <= n -> U root n = T root n.
Proof.
  intros terms dflt T U spec pick fuel fuelx root ks res st H1 H2 H3 H4 H5 H6 H7 H8 H9 H10.
  exact (forest_pipeline_unique terms dflt T spec pick fuel fuelx root ks res st
           H1 H2 H3 H4 H5 H6 H7 H8 U H9 H10).
Qed.

(* non-vacuity: words over a one-letter alphabet, W = epsilon + a W written as the
   single rule  0 -> (0 shifted by 1)  whose operator puts the empty word in by hand;
   T 0 n = 1.  The table method reports class 0 as pumping, the extractor keeps
   the rule, and all hypotheses of the pipeline theorem hold. *)
Definition ex_rule : srule Z :=
  mkrule Z [(0%nat, 1)] (fun p _ n => if n <? 0 then 0 else if n =? 0 then 1 else p 0%nat (n - 1)).
Definition ex_spec (c : nat) : option (srule Z) := match c with O => Some ex_rule | _ => None end.
Definition ex_T (c : nat) (n : Z) : Z := match c with O => if n <? 0 then 0 else 1 | _ => 0 end.
Definition ex_ks : list bkey := [mkb (mkkey 0 [(0%nat, 1)]) 1].

Example C01_forest_pipeline_nonvacuous :
  exists st res,
    run pick0 50 init (add_ops ex_ks) = Some st /\ pumping_answer st 0 = true /\
    (forall k, In k ex_ks -> (bk_bucket k < 4)%nat) /\
    extract 50 0 ex_ks = Ok res /\ res <> [] /\
    (forall k, In k res -> exists r, ex_spec (parent (bk_key k)) = Some r /\
                                     drops (empty_class ex_T 0) (r_kids Z r) (kids (bk_key k))) /\
    (forall c m, m < 0 -> ex_T c m = 0) /\
    (forall c r, ex_spec c = Some r -> forall p o n, n < 0 -> r_op Z r p o n = 0) /\
    (forall c r, ex_spec c = Some r -> local Z r) /\
    (forall c r, ex_spec c = Some r -> genuine Z ex_T c r).
Proof.
  eexists. exists ex_ks. split; [vm_compute; reflexivity|].
  split; [vm_compute; reflexivity|].
  split; [intros k [<-|[]]; simpl; auto with arith|].
  split; [vm_compute; reflexivity|].
  split; [discriminate|].
  split; [intros k [<-|[]]; exists ex_rule; split; [reflexivity|apply drops_refl]|].
  split; [intros [|c] m Hm; simpl; auto; apply Z.ltb_lt in Hm; rewrite Hm; reflexivity|].
  split; [intros [|c] r E p o n Hn; [|discriminate]; injection E as <-; simpl; apply Z.ltb_lt in Hn; rewrite Hn; reflexivity|].
  split.
  - intros [|c] r E; [|discriminate]. injection E as <-.
    intros p p' o o' n Hp Ho. simpl.
    destruct (n <? 0) eqn:E1; auto. destruct (n =? 0) eqn:E2; auto.
    apply Hp; simpl; auto. unfold shift; simpl. apply Z.le_refl.
  - intros [|c] r E; [|discriminate]. injection E as <-.
    intros n Hn. simpl. unfold kid; simpl.
    assert (n <? 0 = false) as -> by (apply Z.ltb_ge; auto).
    destruct (n =? 0) eqn:E2; auto.
    assert (n - 1 <? 0 = false) as ->; auto.
    apply Z.ltb_ge. apply Z.eqb_neq in E2. apply Z.lt_le_pred. apply Z.le_neq; auto.
Qed.

(* ------------------------------------------------------------------------
   NON-VACUITY (audit): a two-class specification with two different rule shapes, fed to EVERY
   theorem of this file (the theorems are APPLIED, so Coq checks that the hypotheses discharged
   below are the theorems' own).  Binary words:
       class 0 = epsilon + class 1            rule 0 -> [(1,0)]         (union-like, shift 0)
       class 1 = a.class 0 + b.class 0        rule 1 -> [(0,1);(0,1)]   (repeated child, shift 1)
   true counts T 0 n = 2^n, T 1 n = 2^n (n >= 1), 0 at n = 0. *)
Require Import Lia.
Definition bw_r0 : srule Z :=
  mkrule Z [(1%nat, 0)] (fun p _ n => if n <? 0 then 0 else (if n =? 0 then 1 else 0) + p 0%nat n).
Definition bw_r1 : srule Z :=
  mkrule Z [(0%nat, 1); (0%nat, 1)]
    (fun p _ n => if n <? 0 then 0 else p 0%nat (n - 1) + p 1%nat (n - 1)).
Definition bw_spec (c : nat) : option (srule Z) :=
  match c with 0%nat => Some bw_r0 | 1%nat => Some bw_r1 | _ => None end.
Definition bw_T (c : nat) (n : Z) : Z :=
  match c with
  | 0%nat => if n <? 0 then 0 else 2 ^ n
  | 1%nat => if n <=? 0 then 0 else 2 ^ n
  | _ => 0
  end.
Definition bw_keys : list fkey := [mkkey 0 [(1%nat, 0)]; mkkey 1 [(0%nat, 1); (0%nat, 1)]].
Definition bw_ks : list bkey := [mkb (mkkey 0 [(1%nat, 0)]) 1; mkb (mkkey 1 [(0%nat, 1); (0%nat, 1)]) 1].

Lemma bw_keys_spec : forall k, In k bw_keys ->
  exists r, bw_spec (parent k) = Some r /\ incl (r_kids Z r) (kids k).
Proof. intros k [<-|[<-|[]]]; eexists; (split; [reflexivity|apply incl_refl]). Qed.
Lemma bw_T_neg : forall c m, m < 0 -> bw_T c m = 0.
Proof.
  intros [|[|c]] m Hm; simpl; auto.
  - apply Z.ltb_lt in Hm. rewrite Hm. reflexivity.
  - assert (m <=? 0 = true) as -> by (apply Z.leb_le; lia). reflexivity.
Qed.
Lemma bw_op_neg : forall c r, bw_spec c = Some r -> forall p o n, n < 0 -> r_op Z r p o n = 0.
Proof.
  intros [|[|c]] r E p o n Hn; try discriminate; injection E as <-; simpl;
    apply Z.ltb_lt in Hn; rewrite Hn; reflexivity.
Qed.
Lemma bw_local : forall c r, bw_spec c = Some r -> local Z r.
Proof.
  intros [|[|c]] r E; try discriminate; injection E as <-; intros p p' o o' n Hp Ho; simpl.
  - destruct (n <? 0); auto. f_equal. apply Hp; simpl; auto. unfold shift; simpl. lia.
  - destruct (n <? 0); auto. f_equal; apply Hp; simpl; auto; unfold shift; simpl; lia.
Qed.
Lemma bw_genuine : forall c r, bw_spec c = Some r -> genuine Z bw_T c r.
Proof.
  intros [|[|c]] r E; try discriminate; injection E as <-; intros n Hn; simpl; unfold kid; simpl.
  - assert (n <? 0 = false) as -> by (apply Z.ltb_ge; auto).
    destruct (n =? 0) eqn:E0.
    + apply Z.eqb_eq in E0. subst n. reflexivity.
    + apply Z.eqb_neq in E0. assert (n <=? 0 = false) as -> by (apply Z.leb_gt; lia). reflexivity.
  - assert (n <? 0 = false) as -> by (apply Z.ltb_ge; auto).
    destruct (n <=? 0) eqn:E0.
    + apply Z.leb_le in E0. assert (n = 0) as -> by lia. reflexivity.
    + apply Z.leb_gt in E0. assert (n - 1 <? 0 = false) as -> by (apply Z.ltb_ge; lia).
      replace n with (Z.succ (n - 1)) at 3 by lia. rewrite Z.pow_succ_r by lia. lia.
Qed.
Lemma bw_pumps : forall c, (c < 2)%nat -> pumps bw_keys c.
Proof.
  assert (forall v, 0 <= v -> derivable bw_keys 0 v /\ derivable bw_keys 1 v) as H.
  { intros v Hv. pattern v. apply natlike_ind; auto.
    - split; apply der_zero; lia.
    - intros x Hx [A B].
      assert (derivable bw_keys 1 (Z.succ x)) as B'.
      { apply (der_rule bw_keys (mkkey 1 [(0%nat, 1); (0%nat, 1)])); [simpl; auto|].
        intros c s [E|[E|[]]]; injection E as <- <-; replace (Z.succ x - 1) with x by lia; auto. }
      split; auto.
      apply (der_rule bw_keys (mkkey 0 [(1%nat, 0)])); [simpl; auto|].
      intros c s [E|[]]; injection E as <- <-. replace (Z.succ x - 0) with (Z.succ x) by lia. auto. }
  intros c Hc v. destruct (Z_lt_le_dec v 0); [apply der_zero; lia|].
  destruct c as [|[|c]]; [apply H|apply H|lia]; auto.
Qed.

(* covers C01_spec_correct *)
Example C01_spec_correct_nonvacuous :
  exists f0, forall f, (f0 <= f)%nat -> eval Z 0 bw_spec f 0 5 = 32.
Proof.
  apply (C01_spec_correct Z 0 bw_spec bw_T bw_keys bw_keys_spec bw_T_neg bw_op_neg bw_local
           bw_genuine 0%nat (bw_pumps 0%nat ltac:(auto)) 5). lia.
Qed.
(* ... and the evaluator really reaches that value (the existential is not met by the default
   branch): *)
Example C01_spec_correct_value : eval Z 0 bw_spec 20 0 5 = 32 /\ eval Z 0 bw_spec 2 0 5 <> 32.
Proof. split; [vm_compute; reflexivity|vm_compute; discriminate]. Qed.

(* covers C01_unique_solution: U := bw_T itself is a solution (non-trivially so: it satisfies the
   rule equations by bw_genuine), and a second solution is forced to agree *)
Example C01_unique_solution_nonvacuous :
  forall U : nat -> Z -> Z,
  (forall c m, m < 0 -> U c m = 0) ->
  (forall c r n, bw_spec c = Some r -> 0 <= n ->
     r_op Z r (fun i m => U (kid Z r i) m) (U c) n = U c n) ->
  U 1%nat 4 = 16.
Proof.
  intros U Un Us.
  apply (C01_unique_solution Z 0 bw_spec bw_T U bw_keys bw_keys_spec bw_T_neg bw_local bw_genuine
           Un Us 1%nat (bw_pumps 1%nat ltac:(auto)) 4). lia.
Qed.
Example C01_unique_solution_hyps_satisfiable :
  (forall c m, m < 0 -> bw_T c m = 0) /\
  (forall c r n, bw_spec c = Some r -> 0 <= n ->
     r_op Z r (fun i m => bw_T (kid Z r i) m) (bw_T c) n = bw_T c n).
Proof. split; [exact bw_T_neg|]. intros c r n E Hn. apply (bw_genuine c r E n Hn). Qed.

(* covers C01_choice_independent: the second specification is the existing one-rule example's
   shape transplanted to the same universe — class 0 = epsilon + a.0 + b.0 as ONE rule with a
   repeated child; class 1 keeps its rule.  Both are genuine for the same T. *)
Definition bw_r0' : srule Z :=
  mkrule Z [(0%nat, 1); (0%nat, 1)]
    (fun p _ n => if n <? 0 then 0 else (if n =? 0 then 1 else 0) + p 0%nat (n - 1) + p 1%nat (n - 1)).
Definition bw_spec' (c : nat) : option (srule Z) :=
  match c with 0%nat => Some bw_r0' | 1%nat => Some bw_r1 | _ => None end.
Definition bw_keys' : list fkey := [mkkey 0 [(0%nat, 1); (0%nat, 1)]; mkkey 1 [(0%nat, 1); (0%nat, 1)]].
Lemma bw_keys_spec' : forall k, In k bw_keys' ->
  exists r, bw_spec' (parent k) = Some r /\ incl (r_kids Z r) (kids k).
Proof. intros k [<-|[<-|[]]]; eexists; (split; [reflexivity|apply incl_refl]). Qed.
Lemma bw_op_neg' : forall c r, bw_spec' c = Some r -> forall p o n, n < 0 -> r_op Z r p o n = 0.
Proof.
  intros [|[|c]] r E p o n Hn; try discriminate; injection E as <-; simpl;
    apply Z.ltb_lt in Hn; rewrite Hn; reflexivity.
Qed.
Lemma bw_local' : forall c r, bw_spec' c = Some r -> local Z r.
Proof.
  intros [|[|c]] r E; try discriminate; [|apply (bw_local 1%nat); exact E].
  injection E as <-; intros p p' o o' n Hp Ho; simpl.
  destruct (n <? 0); auto. f_equal; [f_equal|]; apply Hp; simpl; auto; unfold shift; simpl; lia.
Qed.
Lemma bw_genuine' : forall c r, bw_spec' c = Some r -> genuine Z bw_T c r.
Proof.
  intros [|[|c]] r E; try discriminate; [|apply (bw_genuine 1%nat); exact E].
  injection E as <-; intros n Hn; simpl; unfold kid; simpl.
  assert (n <? 0 = false) as -> by (apply Z.ltb_ge; auto).
  destruct (n =? 0) eqn:E0.
  - apply Z.eqb_eq in E0. subst n. reflexivity.
  - apply Z.eqb_neq in E0. assert (n - 1 <? 0 = false) as -> by (apply Z.ltb_ge; lia).
    replace n with (Z.succ (n - 1)) at 3 by lia. rewrite Z.pow_succ_r by lia. lia.
Qed.
Lemma bw_pumps' : pumps bw_keys' 0.
Proof.
  assert (forall v, 0 <= v -> derivable bw_keys' 0 v) as H.
  { intros v Hv. pattern v. apply natlike_ind; auto.
    - apply der_zero; lia.
    - intros x Hx A. apply (der_rule bw_keys' (mkkey 0 [(0%nat, 1); (0%nat, 1)])); [simpl; auto|].
      intros c s [E|[E|[]]]; injection E as <- <-; replace (Z.succ x - 1) with x by lia; auto. }
  intros v. destruct (Z_lt_le_dec v 0); [apply der_zero; lia|auto].
Qed.
Example C01_choice_independent_nonvacuous :
  exists f0, forall f, (f0 <= f)%nat -> eval Z 0 bw_spec f 0 6 = eval Z 0 bw_spec' f 0 6.
Proof.
  apply (C01_choice_independent Z 0 bw_spec bw_spec' bw_T bw_keys bw_keys' bw_keys_spec bw_keys_spec'
           bw_T_neg bw_op_neg bw_op_neg' bw_local bw_local' bw_genuine bw_genuine'
           0%nat (bw_pumps 0%nat ltac:(auto)) bw_pumps' 6). lia.
Qed.

(* covers C01_forest_pipeline_correct and C01_forest_pipeline_unique (table-method run, extractor
   and the `_find_rule` hypothesis all on the two-rule universe) *)
Lemma bw_found : forall k, In k bw_ks ->
  exists r, bw_spec (parent (bk_key k)) = Some r /\
            drops (empty_class bw_T 0) (r_kids Z r) (kids (bk_key k)).
Proof. intros k [<-|[<-|[]]]; eexists; (split; [reflexivity|apply drops_refl]). Qed.
Lemma bw_buckets : forall k, In k bw_ks -> (bk_bucket k < 4)%nat.
Proof. intros k [<-|[<-|[]]]; simpl; auto with arith. Qed.
Example bw_run_extract :
  exists st, run pick0 50 init (add_ops bw_ks) = Some st /\ pumping_answer st 0 = true /\
             extract 50 0 bw_ks = Ok bw_ks.
Proof. eexists. split; [vm_compute; reflexivity|]. split; vm_compute; reflexivity. Qed.
Example C01_forest_pipeline_correct_nonvacuous :
  exists f0, forall f, (f0 <= f)%nat -> eval Z 0 bw_spec f 0 5 = 32.
Proof.
  destruct bw_run_extract as (st & Hr & Ha & He).
  apply (C01_forest_pipeline_correct Z 0 bw_T bw_spec pick0 50 50 0%nat bw_ks bw_ks st Hr Ha
           bw_buckets He bw_found bw_T_neg bw_op_neg bw_local bw_genuine 5). lia.
Qed.
Example C01_forest_pipeline_unique_nonvacuous :
  forall U : nat -> Z -> Z,
  (forall c m, m < 0 -> U c m = 0) ->
  (forall c r n, bw_spec c = Some r -> 0 <= n ->
     r_op Z r (fun i m => U (kid Z r i) m) (U c) n = U c n) ->
  U 0%nat 3 = 8.
Proof.
  intros U Un Us. destruct bw_run_extract as (st & Hr & Ha & He).
  apply (C01_forest_pipeline_unique Z 0 bw_T U bw_spec pick0 50 50 0%nat bw_ks bw_ks st Hr Ha
           bw_buckets He bw_found bw_T_neg bw_local bw_genuine Un Us 3). lia.
Qed.

(* TOTAL form: termination of the table method (C03_terminates) and totality of the extractor
   (C11_total) remove the two "the run returned" hypotheses, and C11's positional-determinacy
   theorem gives one rule per class.  For EVERY list of inserted forest keys: if the (total) run of
   the table method reports the start class as pumping, the extractor returns a rule set with
   pairwise distinct parents, and any specification giving each extracted key a genuine, local rule
   with that key evaluates to the true counts of the start class. *)
From CSS Require Import Forest.TerminationDefs.
Theorem C01_forest_pipeline_total :
  forall (terms : Type) (dflt : terms) (T : nat -> Z -> terms)
         (pick : list nat -> nat) (fuelx root : nat) (ks : list bkey),
  (forall k, In k ks -> (bk_bucket k < 4)%nat) ->
  pumping_answer (run_total pick (add_ops ks)) root = true ->
  (forall c m, m < 0 -> T c m = dflt) ->
  exists res, extract fuelx root ks = Ok res /\
    (forall i j, (i < length res)%nat -> (j < length res)%nat ->
       parent (bk_key (nth i res (mkb dummy 0))) = parent (bk_key (nth j res (mkb dummy 0))) -> i = j) /\
    forall spec : nat -> option (srule terms),
      (forall k, In k res ->
         exists r, spec (parent (bk_key k)) = Some r /\
               drops (empty_class T dflt) (r_kids terms r) (kids (bk_key k))) ->
      (forall c r, spec c = Some r -> forall p o n, n < 0 -> r_op terms r p o n = dflt) ->
      (forall c r, spec c = Some r -> local terms r) ->
      (forall c r, spec c = Some r -> genuine terms T c r) ->
      forall n, 0 <= n ->
      exists f0, forall f, (f0 <= f)%nat -> eval terms dflt spec f root n = T root n.
Proof.
  intros terms dflt T pick fuelx root ks.
  exact (forest_pipeline_total terms dflt T pick fuelx root ks).
Qed.

Example C01_forest_pipeline_total_nonvacuous :
  (forall k, In k ex_ks -> (bk_bucket k < 4)%nat) /\
  pumping_answer (run_total pick0 (add_ops ex_ks)) 0 = true /\
  extract 0 0 ex_ks = Ok ex_ks.
Proof.
  split; [intros k [<-|[]]; simpl; auto with arith|].
  split; vm_compute; reflexivity.
Qed.

(* covers C01_forest_pipeline_total, applied: the extractor's answer is determined, and the inner
   universally quantified specification is instantiated with bw_spec *)
Example C01_forest_pipeline_total_applied :
  exists f0, forall f, (f0 <= f)%nat -> eval Z 0 bw_spec f 0 5 = 32.
Proof.
  destruct (C01_forest_pipeline_total Z 0 bw_T pick0 50 0%nat bw_ks bw_buckets
              ltac:(vm_compute; reflexivity) bw_T_neg) as (res & He & _ & H).
  assert (res = bw_ks) as -> by (vm_compute in He; injection He as <-; reflexivity).
  apply (H bw_spec bw_found bw_op_neg bw_local bw_genuine 5). lia.
Qed.

Print Assumptions C01_forest_pipeline_correct.
Print Assumptions C01_forest_pipeline_unique.
Print Assumptions C01_forest_pipeline_total.

(* ------------------------------------------------------------------------
   The dropped children are irrelevant (Spec/EvalDrop.v).  `drop_form r0 r sel`: r is r0 with some
   children dropped and r's operator IS r0's operator fed with the table `zero` at the dropped
   positions (the contract on the operator of an equivalence form; for the library's union
   constructor it is discharged below, C01_equivalence_form_contract).  If the dropped children are
   empty classes, genuineness and locality pass from the ORIGINAL rule to the rule handed out. *)
Theorem C01_drop_form_genuine :
  forall (terms : Type) (zero : terms) (T : nat -> Z -> terms) c r0 r sel,
  drop_form terms zero r0 r sel -> dropped_empty terms zero T r0 sel ->
  local terms r0 -> genuine terms T c r0 -> genuine terms T c r.
Proof. exact drop_form_genuine. Qed.

Theorem C01_drop_form_local :
  forall (terms : Type) (zero : terms) r0 r sel,
  drop_form terms zero r0 r sel -> local terms r0 -> local terms r.
Proof. exact drop_form_local. Qed.

(* the pipeline with genuine / local assumed of the ORIGINAL rules (one per extracted key, with exactly
   the key's children) only; the specification holds drop forms of them *)
Theorem C01_forest_pipeline_total_original :
  forall (terms : Type) (dflt : terms) (T : nat -> Z -> terms)
         (pick : list nat -> nat) (fuelx root : nat) (ks : list bkey),
  (forall k, In k ks -> (bk_bucket k < 4)%nat) ->
  pumping_answer (run_total pick (add_ops ks)) root = true ->
  (forall c m, m < 0 -> T c m = dflt) ->
  exists res, extract fuelx root ks = Ok res /\
    forall (spec : nat -> option (srule terms)) (orig : bkey -> srule terms) (sel : bkey -> nat -> option nat),
      (forall c r, spec c = Some r -> exists k, In k res /\ parent (bk_key k) = c) ->
      (forall k, In k res ->
         r_kids terms (orig k) = kids (bk_key k) /\
         (forall p o n, n < 0 -> r_op terms (orig k) p o n = dflt) /\
         local terms (orig k) /\ genuine terms T (parent (bk_key k)) (orig k) /\
         exists r, spec (parent (bk_key k)) = Some r /\
                   drops (empty_class T dflt) (r_kids terms r) (kids (bk_key k)) /\
                   drop_form terms dflt (orig k) r (sel k) /\ dropped_empty terms dflt T (orig k) (sel k)) ->
      forall n, 0 <= n ->
      exists f0, forall f, (f0 <= f)%nat -> eval terms dflt spec f root n = T root n.
Proof.
  intros terms dflt T pick fuelx root ks.
  exact (forest_pipeline_total_original terms dflt T pick fuelx root ks).
Qed.

(* non-vacuity WITH a dropped child: class 0 = class 1 + class 2 where class 2 is empty, class 1 = a*
   (T = 1 at every size), class 2 has the child-less empty rule.  The extractor returns the three keys
   [0 -> (1,0),(2,0)], [1 -> (1,1)], [2 -> ()]; the specification holds for class 0 the EQUIVALENCE FORM
   with the single child (1,0) - kids k = r_kids r is false, drops holds - and evaluates to the true
   counts.  dk_orig 0 is the original two-child union. *)
Definition dk_r0 : srule Z := mkrule Z [(1%nat, 0)] (fun p _ n => if n <? 0 then 0 else p 0%nat n).
Definition dk_r0orig : srule Z :=
  mkrule Z [(1%nat, 0); (2%nat, 0)] (fun p _ n => if n <? 0 then 0 else p 0%nat n + p 1%nat n).
Definition dk_r1 : srule Z :=
  mkrule Z [(1%nat, 1)] (fun p _ n => if n <? 0 then 0 else if n =? 0 then 1 else p 0%nat (n - 1)).
Definition dk_r2 : srule Z := mkrule Z [] (fun _ _ _ => 0).
Definition dk_spec (c : nat) : option (srule Z) :=
  match c with 0%nat => Some dk_r0 | 1%nat => Some dk_r1 | 2%nat => Some dk_r2 | _ => None end.
Definition dk_T (c : nat) (n : Z) : Z :=
  match c with 0%nat | 1%nat => if n <? 0 then 0 else 1 | _ => 0 end.
Definition dk_k0 := mkb (mkkey 0 [(1%nat, 0); (2%nat, 0)]) 2.
Definition dk_k1 := mkb (mkkey 1 [(1%nat, 1)]) 1.
Definition dk_k2 := mkb (mkkey 2 []) 3.
Definition dk_ks : list bkey := [dk_k0; dk_k1; dk_k2].
Definition dk_res : list bkey := [dk_k1; dk_k0; dk_k2].

Lemma dk_empty2 : empty_class dk_T 0 2%nat.
Proof. intros m. reflexivity. Qed.
Lemma dk_found : forall k, In k dk_res ->
  exists r, dk_spec (parent (bk_key k)) = Some r /\
            drops (empty_class dk_T 0) (r_kids Z r) (kids (bk_key k)).
Proof.
  intros k [<-|[<-|[<-|[]]]]; eexists; (split; [reflexivity|]); simpl.
  - apply drops_refl.
  - apply drops_keep. apply drops_drop; [exact dk_empty2|constructor].
  - constructor.
Qed.
(* the literal form of the first version is FALSE here *)
Example dk_literal_Hfound_false :
  ~ (forall k, In k dk_res -> exists r, dk_spec (parent (bk_key k)) = Some r /\ kids (bk_key k) = r_kids Z r).
Proof. intros H. destruct (H dk_k0 (or_intror (or_introl eq_refl))) as (r & Hr & E). injection Hr as <-. discriminate E. Qed.
Lemma dk_T_neg : forall c m, m < 0 -> dk_T c m = 0.
Proof. intros [|[|c]] m Hm; simpl; auto; apply Z.ltb_lt in Hm; rewrite Hm; reflexivity. Qed.
Lemma dk_op_neg : forall c r, dk_spec c = Some r -> forall p o n, n < 0 -> r_op Z r p o n = 0.
Proof.
  intros [|[|[|c]]] r E p o n Hn; try discriminate; injection E as <-; simpl; auto;
    apply Z.ltb_lt in Hn; rewrite Hn; reflexivity.
Qed.
Lemma dk_r1_local : local Z dk_r1.
Proof.
  intros p p' o o' n Hp Ho. simpl. destruct (n <? 0) eqn:E1; auto. destruct (n =? 0) eqn:E2; auto.
  apply Hp; simpl; auto. unfold shift; simpl. apply Z.le_refl.
Qed.
Lemma dk_r1_genuine : genuine Z dk_T 1 dk_r1.
Proof.
  intros n Hn. simpl. unfold kid; simpl.
  assert (n <? 0 = false) as -> by (apply Z.ltb_ge; auto).
  destruct (n =? 0) eqn:E2; auto.
  assert (n - 1 <? 0 = false) as ->; auto. apply Z.ltb_ge. apply Z.eqb_neq in E2. lia.
Qed.
Lemma dk_r0orig_local : local Z dk_r0orig.
Proof.
  intros p p' o o' n Hp Ho. simpl. destruct (n <? 0); auto.
  rewrite (Hp 0%nat n), (Hp 1%nat n); auto; simpl; try lia; unfold shift; simpl; lia.
Qed.
Lemma dk_r0orig_genuine : genuine Z dk_T 0 dk_r0orig.
Proof. intros n Hn. simpl. unfold kid; simpl. destruct (n <? 0); reflexivity. Qed.
Lemma dk_r2_local : local Z dk_r2. Proof. intros p p' o o' n _ _. reflexivity. Qed.
Lemma dk_r2_genuine : genuine Z dk_T 2 dk_r2. Proof. intros n _. reflexivity. Qed.

Definition dk_orig (k : bkey) : srule Z :=
  match parent (bk_key k) with 0%nat => dk_r0orig | 1%nat => dk_r1 | _ => dk_r2 end.
Definition dk_sel (k : bkey) (j : nat) : option nat :=
  match parent (bk_key k), j with 0%nat, 1%nat => None | _, _ => Some j end.

Lemma dk_buckets : forall k, In k dk_ks -> (bk_bucket k < 4)%nat.
Proof. intros k [<-|[<-|[<-|[]]]]; simpl; auto with arith. Qed.

(* the weakened pipeline theorem applies where the first version did not *)
Example C01_forest_pipeline_total_dropped_child :
  exists f0, forall f, (f0 <= f)%nat -> eval Z 0 dk_spec f 0 5 = 1.
Proof.
  destruct (C01_forest_pipeline_total Z 0 dk_T pick0 50 0%nat dk_ks dk_buckets
              ltac:(vm_compute; reflexivity) dk_T_neg) as (res & He & _ & H).
  assert (res = dk_res) as -> by (vm_compute in He; injection He as <-; reflexivity).
  apply (H dk_spec dk_found dk_op_neg); [| |lia].
  - intros [|[|[|c]]] r E; try discriminate E; injection E as <-.
    + apply (C01_drop_form_local Z 0 dk_r0orig dk_r0 (dk_sel dk_k0)); [|exact dk_r0orig_local].
      split; [intros [|[|j]] i Hj Es; simpl in Hj; try lia; [injection Es as <-; simpl; split; [lia|reflexivity]|discriminate Es]
             |intros p o n; simpl; unfold ext_prov; simpl; destruct (n <? 0); lia].
    + exact dk_r1_local.
    + exact dk_r2_local.
  - intros [|[|[|c]]] r E; try discriminate E; injection E as <-.
    + apply (C01_drop_form_genuine Z 0 dk_T 0%nat dk_r0orig dk_r0 (dk_sel dk_k0));
        [|intros [|[|j]] Hj Es; simpl in Hj; try lia; [discriminate Es|exact dk_empty2]|exact dk_r0orig_local|exact dk_r0orig_genuine].
      split; [intros [|[|j]] i Hj Es; simpl in Hj; try lia; [injection Es as <-; simpl; split; [lia|reflexivity]|discriminate Es]
             |intros p o n; simpl; unfold ext_prov; simpl; destruct (n <? 0); lia].
    + exact dk_r1_genuine.
    + exact dk_r2_genuine.
Qed.

Print Assumptions C01_drop_form_genuine.
Print Assumptions C01_drop_form_local.
Print Assumptions C01_forest_pipeline_total_original.
Print Assumptions C01_forest_pipeline_total_dropped_child.


(* ========================================================================
   C09 / C10 -> C01: the adapter.

   Spec/Adapter.v           srule_of d : the srule of a rule DESCRIPTOR as run_c01 receives it (constructor
                            form, extra_parameters dictionaries, minimum sizes / is_atom, declared shifts,
                            verified tables); operator = the C09 model's get_terms of that constructor
                            (the very `*_step` functions run_c01 dispatches to) over sub-term providers.
   Spec/AdapterLocal.v      C10 -> `local`:   the C09 term model reads only what the C10 reads model lists
                            (bridge between the two transcriptions), C10_reads_respect_declared_shifts
                            bounds that by the regenerated shift functions, deps_shape says the declared
                            shifts are at most those.
   Spec/AdapterSound.v      C09 -> `genuine`: under the per-form contract about the true tables (rule_contract:
                            the hypotheses of C09_union / C09_product / C09_complement / C09_quotient_params /
                            C09_quotient_parameter_free / C09_equivalence* / C09_path stated for T) the
                            operator maps good tables to a good table and raises nothing.
   Spec/RoundsProofs.v      the extracted bottom-up evaluator computes `eval (spec_of ds)` and the true tables.
   Spec/RoundsStuck.v       what status "stuck" means.

   Covered constructor forms: 0 union, 1 product, 2 Complement, 3 Quotient WITH and WITHOUT parameters,
   4 equivalence of a union, 5 equivalence of a reverse union, 6 equivalence path, 7 verified.
   Not covered (stay hypotheses): a Quotient whose parent has no parameter while a child has one; a
   Complement/Quotient one of whose siblings is itself counted by a Complement (vpos/kpos flags: the raw
   table of such a class contains entries of negative value and the model's entry-wise assertion could
   fire); any other constructor. *)
From CSS Require Import Base.Sx Count.Terms Count.Constructors Count.ConstructorsRun Count.TermsPolyOrder Count.ReadsModel
  Spec.TermsCanon Spec.Adapter Spec.AdapterLocal Spec.AdapterSound Spec.AdapterGenuine Spec.RoundsProofs
  Spec.RoundsStuck Spec.AdapterExample Spec.CountRun Spec.PipelineConstructors.

(* two tables that mean the same have the same canonical form (what enc_table prints, what the harness
   compares): the link between C09's `teq` and C01's Leibniz equality *)
Theorem C01_canonical_form : forall a b : Count.Terms.terms, teq a b -> tnorm a = tnorm b.
Proof. exact tnorm_unique. Qed.

(* ---- C10 -> local ---- *)
(* bridge: for the plain forms 0..3 two provider families that agree on every (provider, size) listed
   by C10's reads model for that rule give the same result of C09's term model (errors included) *)
Theorem C01_term_model_reads_what_the_reads_model_lists : forall d p p' o o' n,
  0 <= c_form d <= 3 -> (2 <= c_form d -> (c_idx d < length (c_kids d))%nat) ->
  reads_agree (c_form d) (kid_descs (c_kids d)) (Z.of_nat (c_idx d)) n p p' o o' ->
  stepF_with d (kp_of d p) (p 0%nat) (p 0%nat) o n = stepF_with d (kp_of d p') (p' 0%nat) (p' 0%nat) o' n.
Proof. exact stepF_reads. Qed.

(* hypothesis `local` of C01_spec_correct, for the rule of ANY descriptor of forms 0..7 whose declared
   dependencies are its children in order with shifts at most the regenerated ones *)
Theorem C01_srule_of_local : forall d, deps_shape d -> local Count.Terms.terms (srule_of d).
Proof. exact srule_of_local. Qed.

(* ---- C09 -> genuine ---- *)
(* up to the representation of tables: fed with good providers (tables that MEAN the true ones) and good
   own terms, the operator returns a good table; with the true tables themselves this is the equation of
   `genuine` up to teq *)
Theorem C01_srule_of_genuine_up_to_representation :
  forall T npar vpos kpos, T_ok T npar -> forall Hz c d (G : nat -> Z -> Count.Terms.terms) o n,
  deps_shape d -> rule_contract T npar vpos kpos Hz c d ->
  goodp T npar vpos kpos G -> (forall m, good T npar vpos kpos c m (o m)) -> 0 <= n -> (c_form d = 7 -> n <= Hz) ->
  good T npar vpos kpos c n (r_op Count.Terms.terms (srule_of d) (fun i => G (kid_of d i)) o n).
Proof. exact srule_of_genuine_rel. Qed.

(* the step functions themselves (what run_c01 dispatches to), providers by label: no exception, good result *)
Theorem C01_constructor_step_sound :
  forall T npar vpos kpos, T_ok T npar -> forall Hz c d (G : nat -> Z -> Count.Terms.terms) own n,
  rule_contract T npar vpos kpos Hz c d -> goodp T npar vpos kpos G ->
  (forall m, good T npar vpos kpos c m (own m)) -> 0 <= n -> (c_form d = 7 -> n <= Hz) ->
  exists r, stepF_with d (map G (c_ok d)) (G (c_op d)) (G (c_last d)) own n = Ok r /\ good T npar vpos kpos c n r.
Proof. exact stepF_sound. Qed.

(* hypotheses `local` and `genuine` LITERALLY, for the rule with canonical-form operator *)
Theorem C01_srule_ofN_local : forall d, deps_shape d -> local Count.Terms.terms (srule_ofN d).
Proof. exact srule_ofN_local. Qed.

Theorem C01_srule_ofN_genuine :
  forall T npar vpos kpos, T_ok T npar -> (forall l m, canon (T l m)) -> forall c d,
  deps_shape d -> (forall Hz, rule_contract T npar vpos kpos Hz c d) -> genuine Count.Terms.terms T c (srule_ofN d).
Proof. exact srule_ofN_genuine. Qed.

(* C01_spec_correct for specifications made of the library's constructors: `local` and `genuine` are gone *)
Theorem C01_spec_correct_constructors :
  forall T npar vpos kpos, T_ok T npar -> (forall l m, canon (T l m)) -> forall (ds : list cdesc) (keys : list fkey),
  (forall c d, nth_error ds c = Some d -> deps_shape d) ->
  (forall c d, nth_error ds c = Some d -> forall Hz, rule_contract T npar vpos kpos Hz c d) ->
  (forall k, In k keys -> exists d, nth_error ds (parent k) = Some d /\ incl (c_deps d) (kids k)) ->
  forall c, pumps keys c -> forall n, 0 <= n ->
  exists f0, forall f, (f0 <= f)%nat -> eval Count.Terms.terms [] (spec_ofN ds) f c n = T c n.
Proof. exact spec_ofN_correct_sub. Qed.

(* THE FOREST PIPELINE FOR THE LIBRARY'S CONSTRUCTORS: no abstract genuine / local hypothesis is left.
   For every list `ks` of inserted forest keys (any order, any set.pop() resolution) on which the total
   table-method model reports the start class as pumping, the extractor model returns `res` (one key per
   class), and every descriptor list `ds` - the thing run_c01 evaluates - whose descriptors satisfy
   deps_shape (decidable) and the per-form contract about the true tables, and which holds for each
   extracted key a descriptor whose DECLARED dependencies are the key's children minus empty classes
   (what rules() hands out), evaluates (Spec/Eval.v eval of spec_ofN ds) to the true table of the start
   class at every size.  = C03_total_sound_complete + C11_total / _productive / _one_rule_per_class +
   C10 (local) + C09 (genuine) + C01. *)
Theorem C01_forest_pipeline_constructors :
  forall T npar vpos kpos, T_ok T npar -> (forall l m, canon (T l m)) ->
  forall (pick : list nat -> nat) (fuelx root : nat) (ks : list bkey),
  (forall k, In k ks -> (bk_bucket k < 4)%nat) ->
  pumping_answer (run_total pick (add_ops ks)) root = true ->
  exists res, extract fuelx root ks = Extractor.Ok res /\
    (forall i j, (i < length res)%nat -> (j < length res)%nat ->
       parent (bk_key (nth i res (mkb dummy 0))) = parent (bk_key (nth j res (mkb dummy 0))) -> i = j) /\
    forall ds : list cdesc,
      (forall c d, nth_error ds c = Some d -> deps_shape d) ->
      (forall c d, nth_error ds c = Some d -> forall Hz, rule_contract T npar vpos kpos Hz c d) ->
      (forall k, In k res ->
         exists d, nth_error ds (parent (bk_key k)) = Some d /\
                   drops (empty_class T []) (c_deps d) (kids (bk_key k))) ->
      forall n, 0 <= n ->
      exists f0, forall f, (f0 <= f)%nat -> eval Count.Terms.terms [] (spec_ofN ds) f root n = T root n.
Proof. exact forest_pipeline_constructors. Qed.

(* the contract "the equivalence form computes what the original rule computes when the other children are
   empty", DISCHARGED for the union constructor (C09_equivalence = equiv_union_genuine): if the original
   union rule's descriptor d (form 0, all its children) satisfies its contract and every child other than
   the first non-empty one is an empty class (true table [] at every size), then the descriptor of
   rule.to_equivalence_rule() - same names, children and labels, form 4, ONE declared dependency -
   satisfies the form-4 contract, has the right shape, and its declared dependency is d's minus the empty
   children (the `drops` hypothesis of the pipeline theorem). *)
Theorem C01_equivalence_form_contract :
  forall T npar vpos kpos Hz c d ci s,
  c_form d = 0 ->
  rule_contract T npar vpos kpos Hz c d ->
  first_nonempty (c_kids d) = Some ci -> (ci < length (c_ok d))%nat ->
  (forall j, j <> ci -> (j < length (c_ok d))%nat -> empty_class T [] (nth j (c_ok d) O)) ->
  rule_contract T npar vpos kpos Hz c (equiv_desc d ci s).
Proof. exact equiv_contract_from_union. Qed.

Theorem C01_equivalence_form_shape : forall d ci s,
  first_nonempty (c_kids d) = Some ci -> length (c_ok d) = length (c_kids d) -> s <= 0 ->
  deps_shape (equiv_desc d ci s).
Proof. exact equiv_deps_shape. Qed.

Theorem C01_equivalence_form_drops : forall T d ci s,
  dep_labels d = c_ok d -> (ci < length (c_ok d))%nat -> nth ci (dep_shifts d) 0 = s ->
  (forall j, j <> ci -> (j < length (c_ok d))%nat -> empty_class T (@nil Count.Terms.entry) (nth j (c_ok d) O)) ->
  drops (empty_class T []) (c_deps (equiv_desc d ci s)) (c_deps d).
Proof. exact equiv_desc_drops. Qed.

(* ---- the extracted evaluator ---- *)
(* refinement: every level the bottom-up evaluator computes (any fuel) is eval of srule_of, as raw tables *)
Theorem C01_rounds_is_eval : forall (DS : list cdesc),
  (forall c d, nth_error DS c = Some d -> deps_shape d) ->
  forall fuel N k errs,
  let st := fst (rounds fuel DS N (repeat [] k) errs) in
  forall c n, 0 <= n < zlen (tabs_of st c) ->
  exists f0, forall f, (f0 <= f)%nat ->
    eval Count.Terms.terms [] (spec_of DS) f c n = nth (Z.to_nat n) (tabs_of st c) [].
Proof. exact rounds_is_eval. Qed.

(* correctness: every level it computes is the true table (canonical form) *)
Theorem C01_rounds_correct : forall (DS : list cdesc) N T npar vpos kpos,
  T_ok T npar ->
  (forall c d, nth_error DS c = Some d -> deps_shape d) ->
  (forall c d, nth_error DS c = Some d -> rule_contract T npar vpos kpos N c d) ->
  forall fuel k errs, (forall l m, canon (T l m)) ->
  let st := fst (rounds fuel DS N (repeat [] k) errs) in
  forall c n, 0 <= n < zlen (tabs_of st c) -> tnorm (nth (Z.to_nat n) (tabs_of st c) []) = T c n.
Proof. exact rounds_correct. Qed.

(* the wire-level statement about run_c01 itself: status (0 0) => the printed levels 0..N are the true tables *)
Theorem C01_run_correct : forall (inp : sx) T npar vpos kpos,
  T_ok T npar -> (forall l m, canon (T l m)) ->
  (forall c d, nth_error (map dec_cdesc (sx_list (sx_nth inp 2))) c = Some d -> deps_shape d) ->
  (forall c d, nth_error (map dec_cdesc (sx_list (sx_nth inp 2))) c = Some d ->
     rule_contract T npar vpos kpos (sx_Z (sx_nth inp 1)) c d) ->
  0 <= sx_Z (sx_nth inp 0) ->
  forall c, sx_nth (sx_nth (run_c01 inp) 1) c = L [I 0; I 0] ->
  sx_nth (sx_nth (run_c01 inp) 0) c =
  L (map (fun n => enc_table (T c (Z.of_nat n))) (seq 0 (Z.to_nat (sx_Z (sx_nth inp 0) + 1)))).
Proof. exact run_c01_correct. Qed.

(* the fuel run_c01 uses reaches a fixed point of the rounds *)
Theorem C01_run_fuel_suffices : forall (DS : list cdesc) N k, 0 <= N ->
  let s := rounds (S (k * Z.to_nat (N + 2))) DS N (repeat [] k) (repeat 0 k) in
  round DS N s = s.
Proof. exact rounds_reach_fixpoint. Qed.

(* status "stuck" (PARTIAL: no class raised, all declared shifts >= 0): not productive *)
Theorem C01_stuck_not_productive_partial : forall (DS : list cdesc) N, 0 <= N ->
  let s := rounds (S (length DS * Z.to_nat (N + 2))) DS N (repeat [] (length DS)) (repeat 0 (length DS)) in
  (forall c, nth c (snd s) 0 = 0) ->
  (forall c d l sh, nth_error DS c = Some d -> In (l, sh) (c_deps d) -> 0 <= sh) ->
  forall (keys : list fkey) c,
  (forall q, In q keys -> exists d, nth_error DS (parent q) = Some d /\ kids q = c_deps d) ->
  zlen (tabs_of (fst s) c) <= N -> ~ pumps keys c.
Proof. exact stuck_not_productive_partial. Qed.

(* and conversely (same partiality): a class that pumps w.r.t. the declared shifts is reported complete —
   C10's closing sentence "whatever the fixed-point analysis accepts as productive can be evaluated without
   a class ever depending on a term that is not yet available", for the evaluator that is actually run *)
Theorem C01_productive_is_complete_partial : forall (DS : list cdesc) N, 0 <= N ->
  let s := rounds (S (length DS * Z.to_nat (N + 2))) DS N (repeat [] (length DS)) (repeat 0 (length DS)) in
  (forall c, nth c (snd s) 0 = 0) ->
  (forall c d l sh, nth_error DS c = Some d -> In (l, sh) (c_deps d) -> 0 <= sh) ->
  forall (keys : list fkey) c,
  (forall q, In q keys -> exists d, nth_error DS (parent q) = Some d /\ kids q = c_deps d) ->
  pumps keys c -> N < zlen (tabs_of (fst s) c).
Proof. exact productive_complete_partial. Qed.

(* ---- non-vacuity: Spec/AdapterExample.v, a seven-class specification with a statistic (union, product,
   Complement, Quotient with a parameter and negative declared shifts, three verified classes) all of whose
   hypotheses are proved ---- *)
Example C01_run_correct_applied : forall c,
  sx_nth (sx_nth (run_c01 ex_inp) 1) c = L [I 0; I 0] ->
  sx_nth (sx_nth (run_c01 ex_inp) 0) c = L (map (fun n => enc_table (ex_T c (Z.of_nat n))) (seq 0 3)).
Proof. exact ex_run_c01_correct. Qed.

Example C01_run_values :
  sx_nth (run_c01 ex_inp) 1 = L (repeat (L [I 0; I 0]) 7) /\
  sx_nth (sx_nth (run_c01 ex_inp) 0) 0 =
    L [L [L [of_Zs [0]; I 1]]; L [L [of_Zs [1]; I 1]]; L [L [of_Zs [1]; I 1]]] /\
  sx_nth (sx_nth (run_c01 ex_inp) 0) 2 = L [L []; L [L [of_Zs [1]; I 1]]; L [L [of_Zs [1]; I 1]]] /\
  sx_nth (sx_nth (run_c01 ex_inp) 0) 5 = L [L [L [of_Zs [0]; I 1]]; L []; L []] /\
  sx_nth (sx_nth (run_c01 ex_inp) 0) 6 =
    L [L [L [of_Zs [0]; I 1]]; L [L [of_Zs [0]; I 1]]; L [L [of_Zs [0]; I 1]]].
Proof. exact ex_run_values. Qed.

Example C01_srule_of_local_applied : forall c r, spec_of ex_ds c = Some r -> local Count.Terms.terms r.
Proof. exact ex_all_local. Qed.

Example C01_rounds_is_eval_applied :
  let st := fst (rounds 36 ex_ds 3 (repeat [] 7) (repeat 0 7)) in
  forall c n, 0 <= n < zlen (tabs_of st c) ->
  exists f0, forall f, (f0 <= f)%nat ->
    eval Count.Terms.terms [] (spec_of ex_ds) f c n = nth (Z.to_nat n) (tabs_of st c) [].
Proof. exact ex_rounds_is_eval. Qed.

Example C01_stuck_applied :
  run_c01 (L [I 2; I 2; L [enc_cdesc ex_loop]]) = L [L [L []]; L [L [I 1; I 0]]] /\
  ~ pumps [mkkey 0 [(0%nat, 0)]] 0.
Proof. split; [exact ex_stuck_status|exact ex_stuck_not_productive]. Qed.

Example C01_deps_shape_near_miss :
  ~ deps_shape (mkC 1 0 [0] [kX; kY] 2 [3; 4]%nat [(3%nat, 0); (4%nat, 2)] [] [] 0).
Proof. exact ex_shape_near_miss. Qed.

Print Assumptions C01_canonical_form.
Print Assumptions C01_term_model_reads_what_the_reads_model_lists.
Print Assumptions C01_srule_of_local.
Print Assumptions C01_srule_of_genuine_up_to_representation.
Print Assumptions C01_constructor_step_sound.
Print Assumptions C01_srule_ofN_local.
Print Assumptions C01_srule_ofN_genuine.
Print Assumptions C01_spec_correct_constructors.
Print Assumptions C01_forest_pipeline_constructors.
Print Assumptions C01_equivalence_form_contract.
Print Assumptions C01_equivalence_form_shape.
Print Assumptions C01_equivalence_form_drops.
Print Assumptions C01_rounds_is_eval.
Print Assumptions C01_rounds_correct.
Print Assumptions C01_run_correct.
Print Assumptions C01_run_fuel_suffices.
Print Assumptions C01_stuck_not_productive_partial.
Print Assumptions C01_productive_is_complete_partial.
Print Assumptions C01_run_correct_applied.

(* ================================================================ decidable hypotheses, evaluated per case
   (Spec/Deciders.v, Spec/CountRunDec.v).  The check extracts run_c01d = run_c01 + the verdicts of the
   deciders on the descriptor list of the case (C01_run_extends), so every compared case tells whether
   C01_run_correct is claimed for it:
     deps_shape             : decided EXACTLY by deps_shapeb (iff: a verdict 0 means deps_shape is false)
                              (C01_deps_shape_decided)
     rule_contract          : = decidable part (contract_shapeb: dictionaries, arities, index ranges, minimum sizes,
                              flags, shape of verified tables) + semantic part (contract_sem: the TRUE tables satisfy
                              the constructor identities / Vanish / hprod <> 0 / a verified table means the true one)
                              (C01_rule_contract_from_parts, C01_rule_contract_semantic_part)
     C01_run_correct_decided: the wire-level theorem with both replaced by "every printed verdict bit is 1";
                              what stays a hypothesis is contract_sem, T_ok and canonical true tables. *)
From CSS Require Import Spec.Deciders Spec.CountRunDec.

Theorem C01_deps_shape_decided : forall d, deps_shapeb d = true <-> deps_shape d.
Proof. exact deps_shapeb_iff. Qed.

Theorem C01_rule_contract_from_parts : forall npar vpos kpos Hz T c d,
  contract_shapeb npar vpos kpos Hz c d = true -> contract_sem Hz T c d -> rule_contract T npar vpos kpos Hz c d.
Proof. exact rule_contract_of_parts. Qed.

Theorem C01_rule_contract_semantic_part : forall npar vpos kpos Hz T c d,
  rule_contract T npar vpos kpos Hz c d -> contract_sem Hz T c d.
Proof. exact rule_contract_sem. Qed.

Theorem C01_run_extends : forall inp,
  sx_nth (run_c01d inp) 0 = sx_nth (run_c01 inp) 0 /\ sx_nth (run_c01d inp) 1 = sx_nth (run_c01 inp) 1 /\
  sx_nth (run_c01d inp) 2 = L (deps_bits inp) /\ sx_nth (run_c01d inp) 3 = L (shape_bits inp).
Proof. exact run_c01d_extends. Qed.

Theorem C01_run_correct_decided : forall (inp : sx) (T : nat -> Z -> Count.Terms.terms),
  T_ok T (npar_of inp) -> (forall l m, canon (T l m)) ->
  (forall b, In b (sx_list (sx_nth (run_c01d inp) 2)) -> b = I 1) ->
  (forall b, In b (sx_list (sx_nth (run_c01d inp) 3)) -> b = I 1) ->
  (forall c d, nth_error (map dec_cdesc (sx_list (sx_nth inp 2))) c = Some d ->
     contract_sem (sx_Z (sx_nth inp 1)) T c d) ->
  0 <= sx_Z (sx_nth inp 0) ->
  forall c, sx_nth (sx_nth (run_c01d inp) 1) c = L [I 0; I 0] ->
  sx_nth (sx_nth (run_c01d inp) 0) c =
  L (map (fun n => enc_table (T c (Z.of_nat n))) (seq 0 (Z.to_nat (sx_Z (sx_nth inp 0) + 1)))).
Proof. exact run_c01d_correct. Qed.

(* non-vacuity: on the seven-class example (with its statistic: npar = 1 everywhere) every verdict bit is 1, and
   the near miss of C01_deps_shape_near_miss gets the verdict 0 *)
Example C01_verdicts_on_example :
  let inp := L [I 2; I 3; L (map enc_cdesc ex_ds); of_nats [1; 1; 1; 1; 1; 1; 1]%nat] in
  sx_nth (run_c01d inp) 2 = L (repeat (I 1) 7) /\ sx_nth (run_c01d inp) 3 = L (repeat (I 1) 7) /\
  deps_shapeb (mkC 1 0 [0] [kX; kY] 2 [3; 4]%nat [(3%nat, 0); (4%nat, 2)] [] [] 0) = false.
Proof. vm_compute. auto. Qed.

Print Assumptions C01_deps_shape_decided.
Print Assumptions C01_rule_contract_from_parts.
Print Assumptions C01_rule_contract_semantic_part.
Print Assumptions C01_run_extends.
Print Assumptions C01_run_correct_decided.
