(* C01 — a specification returned by the searcher enumerates the root class
   correctly.  Statements only (proofs: Spec/Eval.v).

   A specification is a partial map  class label -> rule, a rule being its
   children (with the shifts it declares) and its term operator
       r_op : (children's term providers) -> (own earlier terms) -> n -> terms.
   `eval fuel c n` is Rule.get_terms/_ensure_level through the children's
   get_terms, with explicit fuel.  T is the TRUE enumeration of every class.

   Hypotheses, each discharged elsewhere:
     genuine  (C09)  fed with the true tables of its children a rule returns the
                     true table of its parent — the strategy contract
     local    (C10)  a rule reads child i only at sizes <= n - shift_i and its own
                     terms only below n
     closed, one rule per class (C02)  `spec` is a function and every child has a rule
     productive (C02/C03/C11)  every class pumps w.r.t. the forest keys
                     (parent, children, declared shifts) of the specification.
   Conclusion: evaluation terminates (enough fuel exists) and returns the true
   counts for every class, size and parameter value; and the specification has
   no other solution. *)
From Coq Require Import ZArith List.
From CSS Require Import Forest.Spec Spec.Eval.
Import ListNotations.
Open Scope Z_scope.

Theorem C01_spec_correct :
  forall (terms : Type) (dflt : terms) (spec : nat -> option (srule terms))
         (T : nat -> Z -> terms) (keys : list fkey),
  (forall k, In k keys -> exists r, spec (parent k) = Some r /\ kids k = r_kids terms r) ->
  (forall c m, m < 0 -> T c m = dflt) ->
  (forall r p o n, n < 0 -> r_op terms r p o n = dflt) ->
  (forall c r, spec c = Some r -> local terms r) ->
  (forall c r, spec c = Some r -> genuine terms T c r) ->
  forall c, pumps keys c ->
  forall n, 0 <= n ->
  exists f0, forall f, (f0 <= f)%nat -> eval terms dflt spec f c n = T c n.
Proof.
  intros terms dflt spec T keys Hk Tn On Hl Hg c P n Hn.
  apply (eval_correct terms dflt spec T Tn On Hl Hg).
  apply (pumps_ev terms spec keys Hk c P n Hn).
Qed.

Theorem C01_unique_solution :
  forall (terms : Type) (dflt : terms) (spec : nat -> option (srule terms))
         (T U : nat -> Z -> terms) (keys : list fkey),
  (forall k, In k keys -> exists r, spec (parent k) = Some r /\ kids k = r_kids terms r) ->
  (forall c m, m < 0 -> T c m = dflt) ->
  (forall c r, spec c = Some r -> local terms r) ->
  (forall c r, spec c = Some r -> genuine terms T c r) ->
  (forall c m, m < 0 -> U c m = dflt) ->
  (forall c r n, spec c = Some r -> 0 <= n ->
     r_op terms r (fun i m => U (kid terms r i) m) (U c) n = U c n) ->
  forall c, pumps keys c -> forall n, 0 <= n -> U c n = T c n.
Proof.
  intros terms dflt spec T U keys Hk Tn Hl Hg Un Us c P n Hn.
  apply (unique_solution terms dflt spec T Tn Hl Hg U Un Us).
  apply (pumps_ev terms spec keys Hk c P n Hn).
Qed.

(* two specifications for the same classes that both satisfy the hypotheses
   (e.g. found by different rule databases, proof-tree choices or time
   slicings) count identically: both equal T *)
Theorem C01_choice_independent :
  forall (terms : Type) (dflt : terms) (spec1 spec2 : nat -> option (srule terms))
         (T : nat -> Z -> terms) (keys1 keys2 : list fkey),
  (forall k, In k keys1 -> exists r, spec1 (parent k) = Some r /\ kids k = r_kids terms r) ->
  (forall k, In k keys2 -> exists r, spec2 (parent k) = Some r /\ kids k = r_kids terms r) ->
  (forall c m, m < 0 -> T c m = dflt) ->
  (forall r p o n, n < 0 -> r_op terms r p o n = dflt) ->
  (forall c r, spec1 c = Some r -> local terms r) -> (forall c r, spec2 c = Some r -> local terms r) ->
  (forall c r, spec1 c = Some r -> genuine terms T c r) ->
  (forall c r, spec2 c = Some r -> genuine terms T c r) ->
  forall c, pumps keys1 c -> pumps keys2 c -> forall n, 0 <= n ->
  exists f0, forall f, (f0 <= f)%nat ->
    eval terms dflt spec1 f c n = eval terms dflt spec2 f c n.
Proof.
  intros terms dflt spec1 spec2 T keys1 keys2 Hk1 Hk2 Tn On Hl1 Hl2 Hg1 Hg2 c P1 P2 n Hn.
  destruct (C01_spec_correct terms dflt spec1 T keys1 Hk1 Tn On Hl1 Hg1 c P1 n Hn) as [f1 H1].
  destruct (C01_spec_correct terms dflt spec2 T keys2 Hk2 Tn On Hl2 Hg2 c P2 n Hn) as [f2 H2].
  exists (Nat.max f1 f2). intros f Hf. rewrite H1, H2; auto;
    [apply (Nat.le_trans _ (Nat.max f1 f2)); auto; apply Nat.le_max_r
    |apply (Nat.le_trans _ (Nat.max f1 f2)); auto; apply Nat.le_max_l].
Qed.

Print Assumptions C01_spec_correct.
Print Assumptions C01_unique_solution.
Print Assumptions C01_choice_independent.
