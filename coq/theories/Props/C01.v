(* C01 — a specification returned by the searcher enumerates the root class
   correctly.  Statements only (proofs: Spec/Eval.v).

   A specification is a partial map  class label -> rule, a rule being its
   children (with the shifts it declares) and its term operator
       r_op : (children's term providers) -> (own earlier terms) -> n -> terms.
   `eval fuel c n` is Rule.get_terms/_ensure_level through the children's
   get_terms, with explicit fuel.  T is the TRUE enumeration of every class.

   Hypotheses, each discharged elsewhere:
     genuine  (C09)  fed with the true tables of its children a rule returns the
                     true table of its parent — the strategy contract
     local    (C10)  a rule reads child i only at sizes <= n - shift_i and its own
                     terms only below n
     closed, one rule per class (C02)  `spec` is a function and every child has a rule
     productive (C02/C03/C11)  every class pumps w.r.t. the forest keys
                     (parent, children, declared shifts) of the specification.
   Conclusion: evaluation terminates (enough fuel exists) and returns the true
   counts for every class, size and parameter value; and the specification has
   no other solution. *)
From Coq Require Import ZArith List.
From CSS Require Import Forest.Spec Spec.Eval.
Import ListNotations.
Open Scope Z_scope.

Theorem C01_spec_correct :
  forall (terms : Type) (dflt : terms) (spec : nat -> option (srule terms))
         (T : nat -> Z -> terms) (keys : list fkey),
  (forall k, In k keys -> exists r, spec (parent k) = Some r /\ kids k = r_kids terms r) ->
  (forall c m, m < 0 -> T c m = dflt) ->
  (forall c r, spec c = Some r -> forall p o n, n < 0 -> r_op terms r p o n = dflt) ->
  (forall c r, spec c = Some r -> local terms r) ->
  (forall c r, spec c = Some r -> genuine terms T c r) ->
  forall c, pumps keys c ->
  forall n, 0 <= n ->
  exists f0, forall f, (f0 <= f)%nat -> eval terms dflt spec f c n = T c n.
Proof.
  intros terms dflt spec T keys Hk Tn On Hl Hg c P n Hn.
  apply (eval_correct terms dflt spec T Tn On Hl Hg).
  apply (pumps_ev terms spec keys Hk c P n Hn).
Qed.

Theorem C01_unique_solution :
  forall (terms : Type) (dflt : terms) (spec : nat -> option (srule terms))
         (T U : nat -> Z -> terms) (keys : list fkey),
  (forall k, In k keys -> exists r, spec (parent k) = Some r /\ kids k = r_kids terms r) ->
  (forall c m, m < 0 -> T c m = dflt) ->
  (forall c r, spec c = Some r -> local terms r) ->
  (forall c r, spec c = Some r -> genuine terms T c r) ->
  (forall c m, m < 0 -> U c m = dflt) ->
  (forall c r n, spec c = Some r -> 0 <= n ->
     r_op terms r (fun i m => U (kid terms r i) m) (U c) n = U c n) ->
  forall c, pumps keys c -> forall n, 0 <= n -> U c n = T c n.
Proof.
  intros terms dflt spec T U keys Hk Tn Hl Hg Un Us c P n Hn.
  apply (unique_solution terms dflt spec T Tn Hl Hg U Un Us).
  apply (pumps_ev terms spec keys Hk c P n Hn).
Qed.

(* two specifications for the same classes that both satisfy the hypotheses
   (e.g. found by different rule databases, proof-tree choices or time
   slicings) count identically: both equal T *)
Theorem C01_choice_independent :
  forall (terms : Type) (dflt : terms) (spec1 spec2 : nat -> option (srule terms))
         (T : nat -> Z -> terms) (keys1 keys2 : list fkey),
  (forall k, In k keys1 -> exists r, spec1 (parent k) = Some r /\ kids k = r_kids terms r) ->
  (forall k, In k keys2 -> exists r, spec2 (parent k) = Some r /\ kids k = r_kids terms r) ->
  (forall c m, m < 0 -> T c m = dflt) ->
  (forall c r, spec1 c = Some r -> forall p o n, n < 0 -> r_op terms r p o n = dflt) ->
  (forall c r, spec2 c = Some r -> forall p o n, n < 0 -> r_op terms r p o n = dflt) ->
  (forall c r, spec1 c = Some r -> local terms r) -> (forall c r, spec2 c = Some r -> local terms r) ->
  (forall c r, spec1 c = Some r -> genuine terms T c r) ->
  (forall c r, spec2 c = Some r -> genuine terms T c r) ->
  forall c, pumps keys1 c -> pumps keys2 c -> forall n, 0 <= n ->
  exists f0, forall f, (f0 <= f)%nat ->
    eval terms dflt spec1 f c n = eval terms dflt spec2 f c n.
Proof.
  intros terms dflt spec1 spec2 T keys1 keys2 Hk1 Hk2 Tn On1 On2 Hl1 Hl2 Hg1 Hg2 c P1 P2 n Hn.
  destruct (C01_spec_correct terms dflt spec1 T keys1 Hk1 Tn On1 Hl1 Hg1 c P1 n Hn) as [f1 H1].
  destruct (C01_spec_correct terms dflt spec2 T keys2 Hk2 Tn On2 Hl2 Hg2 c P2 n Hn) as [f2 H2].
  exists (Nat.max f1 f2). intros f Hf. rewrite H1, H2; auto;
    [apply (Nat.le_trans _ (Nat.max f1 f2)); auto; apply Nat.le_max_r
    |apply (Nat.le_trans _ (Nat.max f1 f2)); auto; apply Nat.le_max_l].
Qed.

Print Assumptions C01_spec_correct.
Print Assumptions C01_unique_solution.
Print Assumptions C01_choice_independent.

(* ------------------------------------------------------------------------
   The forest pipeline end to end (Spec/Pipeline.v): no productivity
   hypothesis is left.  If the table-method model, run on the inserted forest
   keys `ks` (any order, any `set.pop()` resolution `pick`), reports the start
   class as pumping, and the extractor model returns `res`, and every
   extracted key was turned back into a rule with that key, then — for genuine
   (C09) and local (C10) rules — the recursive evaluation returns the true
   counts of the start class at every size, and the specification has no
   other solution there.  C03 (`sound_complete`) and C11
   (`extract_productive`) discharge what C01_spec_correct assumes. *)
From CSS Require Import Forest.Model Forest.Run Forest.Theorems Forest.Extractor Forest.ExtractorRun
  Forest.ExtractorTheorems Spec.Pipeline.

Theorem C01_forest_pipeline_correct :
  forall (terms : Type) (dflt : terms) (T : nat -> Z -> terms) (spec : nat -> option (srule terms))
         (pick : list nat -> nat) (fuel fuelx root : nat) (ks res : list bkey) (st : tm),
  run pick fuel init (add_ops ks) = Some st ->
  pumping_answer st root = true ->
  (forall k, In k ks -> (bk_bucket k < 4)%nat) ->
  extract fuelx root ks = Ok res ->
  (forall k, In k res ->
     exists r, spec (parent (bk_key k)) = Some r /\ kids (bk_key k) = r_kids terms r) ->
  (forall c m, m < 0 -> T c m = dflt) ->
  (forall c r, spec c = Some r -> forall p o n, n < 0 -> r_op terms r p o n = dflt) ->
  (forall c r, spec c = Some r -> local terms r) ->
  (forall c r, spec c = Some r -> genuine terms T c r) ->
  forall n, 0 <= n ->
  exists f0, forall f, (f0 <= f)%nat -> eval terms dflt spec f root n = T root n.
Proof.
  intros terms dflt T spec pick fuel fuelx root ks res st.
  exact (forest_pipeline_correct terms dflt T spec pick fuel fuelx root ks res st).
Qed.

Theorem C01_forest_pipeline_unique :
  forall (terms : Type) (dflt : terms) (T U : nat -> Z -> terms) (spec : nat -> option (srule terms))
         (pick : list nat -> nat) (fuel fuelx root : nat) (ks res : list bkey) (st : tm),
  run pick fuel init (add_ops ks) = Some st ->
  pumping_answer st root = true ->
  (forall k, In k ks -> (bk_bucket k < 4)%nat) ->
  extract fuelx root ks = Ok res ->
  (forall k, In k res ->
     exists r, spec (parent (bk_key k)) = Some r /\ kids (bk_key k) = r_kids terms r) ->
  (forall c m, m < 0 -> T c m = dflt) ->
  (forall c r, spec c = Some r -> local terms r) ->
  (forall c r, spec c = Some r -> genuine terms T c r) ->
  (forall c m, m < 0 -> U c m = dflt) ->
  (forall c r n, spec c = Some r -> 0 <= n ->
     r_op terms r (fun i m => U (kid terms r i) m) (U c) n = U c n) ->
  forall n, 0 <= n -> U root n = T root n.
Proof.
  intros terms dflt T U spec pick fuel fuelx root ks res st H1 H2 H3 H4 H5 H6 H7 H8 H9 H10.
  exact (forest_pipeline_unique terms dflt T spec pick fuel fuelx root ks res st
           H1 H2 H3 H4 H5 H6 H7 H8 U H9 H10).
Qed.

(* non-vacuity: words over a one-letter alphabet, W = epsilon + a W written as the
   single rule  0 -> (0 shifted by 1)  whose operator puts the empty word in by hand;
   T 0 n = 1.  The table method reports class 0 as pumping, the extractor keeps
   the rule, and all hypotheses of the pipeline theorem hold. *)
Definition ex_rule : srule Z :=
  mkrule Z [(0%nat, 1)] (fun p _ n => if n <? 0 then 0 else if n =? 0 then 1 else p 0%nat (n - 1)).
Definition ex_spec (c : nat) : option (srule Z) := match c with O => Some ex_rule | _ => None end.
Definition ex_T (c : nat) (n : Z) : Z := match c with O => if n <? 0 then 0 else 1 | _ => 0 end.
Definition ex_ks : list bkey := [mkb (mkkey 0 [(0%nat, 1)]) 1].

Example C01_forest_pipeline_nonvacuous :
  exists st res,
    run pick0 50 init (add_ops ex_ks) = Some st /\ pumping_answer st 0 = true /\
    (forall k, In k ex_ks -> (bk_bucket k < 4)%nat) /\
    extract 50 0 ex_ks = Ok res /\ res <> [] /\
    (forall k, In k res -> exists r, ex_spec (parent (bk_key k)) = Some r /\
                                     kids (bk_key k) = r_kids Z r) /\
    (forall c m, m < 0 -> ex_T c m = 0) /\
    (forall c r, ex_spec c = Some r -> forall p o n, n < 0 -> r_op Z r p o n = 0) /\
    (forall c r, ex_spec c = Some r -> local Z r) /\
    (forall c r, ex_spec c = Some r -> genuine Z ex_T c r).
Proof.
  eexists. exists ex_ks. split; [vm_compute; reflexivity|].
  split; [vm_compute; reflexivity|].
  split; [intros k [<-|[]]; simpl; auto with arith|].
  split; [vm_compute; reflexivity|].
  split; [discriminate|].
  split; [intros k [<-|[]]; exists ex_rule; split; reflexivity|].
  split; [intros [|c] m Hm; simpl; auto; apply Z.ltb_lt in Hm; rewrite Hm; reflexivity|].
  split; [intros [|c] r E p o n Hn; [|discriminate]; injection E as <-; simpl; apply Z.ltb_lt in Hn; rewrite Hn; reflexivity|].
  split.
  - intros [|c] r E; [|discriminate]. injection E as <-.
    intros p p' o o' n Hp Ho. simpl.
    destruct (n <? 0) eqn:E1; auto. destruct (n =? 0) eqn:E2; auto.
    apply Hp; simpl; auto. unfold shift; simpl. apply Z.le_refl.
  - intros [|c] r E; [|discriminate]. injection E as <-.
    intros n Hn. simpl. unfold kid; simpl.
    assert (n <? 0 = false) as -> by (apply Z.ltb_ge; auto).
    destruct (n =? 0) eqn:E2; auto.
    assert (n - 1 <? 0 = false) as ->; auto.
    apply Z.ltb_ge. apply Z.eqb_neq in E2. apply Z.lt_le_pred. apply Z.le_neq; auto.
Qed.

(* TOTAL form: termination of the table method (C03_terminates) and totality of the extractor
   (C11_total) remove the two "the run returned" hypotheses, and C11's positional-determinacy
   theorem gives one rule per class.  For EVERY list of inserted forest keys: if the (total) run of
   the table method reports the start class as pumping, the extractor returns a rule set with
   pairwise distinct parents, and any specification giving each extracted key a genuine, local rule
   with that key evaluates to the true counts of the start class. *)
From CSS Require Import Forest.TerminationDefs.
Theorem C01_forest_pipeline_total :
  forall (terms : Type) (dflt : terms) (T : nat -> Z -> terms)
         (pick : list nat -> nat) (fuelx root : nat) (ks : list bkey),
  (forall k, In k ks -> (bk_bucket k < 4)%nat) ->
  pumping_answer (run_total pick (add_ops ks)) root = true ->
  (forall c m, m < 0 -> T c m = dflt) ->
  exists res, extract fuelx root ks = Ok res /\
    (forall i j, (i < length res)%nat -> (j < length res)%nat ->
       parent (bk_key (nth i res (mkb dummy 0))) = parent (bk_key (nth j res (mkb dummy 0))) -> i = j) /\
    forall spec : nat -> option (srule terms),
      (forall k, In k res ->
         exists r, spec (parent (bk_key k)) = Some r /\ kids (bk_key k) = r_kids terms r) ->
      (forall c r, spec c = Some r -> forall p o n, n < 0 -> r_op terms r p o n = dflt) ->
      (forall c r, spec c = Some r -> local terms r) ->
      (forall c r, spec c = Some r -> genuine terms T c r) ->
      forall n, 0 <= n ->
      exists f0, forall f, (f0 <= f)%nat -> eval terms dflt spec f root n = T root n.
Proof.
  intros terms dflt T pick fuelx root ks.
  exact (forest_pipeline_total terms dflt T pick fuelx root ks).
Qed.

Example C01_forest_pipeline_total_nonvacuous :
  (forall k, In k ex_ks -> (bk_bucket k < 4)%nat) /\
  pumping_answer (run_total pick0 (add_ops ex_ks)) 0 = true /\
  extract 0 0 ex_ks = Ok ex_ks.
Proof.
  split; [intros k [<-|[]]; simpl; auto with arith|].
  split; vm_compute; reflexivity.
Qed.

Print Assumptions C01_forest_pipeline_correct.
Print Assumptions C01_forest_pipeline_unique.
Print Assumptions C01_forest_pipeline_total.
