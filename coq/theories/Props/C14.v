(* C14 — the default rule database (RuleDB) and the memory-saving one
   (RuleDBForgetStrategy) are observationally identical.

   Model: RuleDB/Model.v.  ONE database (RuleDBBase.add / _clean_labels / contains /
   __iter__) generic in the implementation of its two stores; DictStore = RuleDB's
   dicts, RecStore = RecomputingDict (a set of flattened keys; __getitem__ replays
   EmptyStrategy and the pack on the classes of the key).  The pack and the classes
   are a strategy table T (Searcher/Model.v), the class database is the C15 model.

   A history h is ANY list of: add(start, ends, rule) - with any labels and any rule,
   also ones no search would produce -, a direct assignment or deletion in one of the
   two stores, and an arbitrary change of the class database by the rest of the program
   (HEnv).  dict_run / rec_run apply it to the two databases; quantifying over all h
   gives the state after EVERY event.  b_eq is the sequence of calls made on the shared
   equivalence database (set_verified, add_two_way_edge, add_one_way_edge): is_verified
   and equivdb[...] are functions of it, in both databases the same function (base-class
   code); b_stop the set_stop_yielding calls; b_stat the exception status.

   lbl d c = Some l : class c carries label l in class database d;  empv T d c : what
   classdb.is_empty(c) answers in state d;  pres T d d' : d' extends d and the classes d
   knew keep their is_empty answers;  key_of_rule T d r : the key under which
   RuleDBBase.add files rule r in state d;  reproduces T d sid k : strategy sid applied
   to the class labelled (fst k) gives a rule that is filed under k again. *)
From Coq Require Import ZArith List Bool Lia.
From CSS Require Import Base.PyList ClassDB.Model ClassDB.Proofs Searcher.Model Searcher.Inv Searcher.Proofs
  RuleDB.Model RuleDB.StoreProofs RuleDB.CdbFacts RuleDB.GetProofs RuleDB.AddProofs RuleDB.Bridge.
Import ListNotations.
Open Scope Z_scope.

Notation lbl := (label_of Z.eqb (fun c : Z => c)).
Notation WFd := (@WF Z).

(* 1. Same stored rules in both stores, same calls on the equivalence database / queue,
   same class database, same exception status, hence the same answers to every
   membership query and the same has_specification - after every event of every history.
   The memory-saving store is a SET: has_specification is shown for every order (and
   multiplicity) in which its keys may be iterated. *)
Theorem C14_same_keys_same_answers : forall (T : table) (d0 : cdbT) (h : list hop),
  let A := dict_run T (dict_init d0) h in
  let B := rec_run T (rec_init d0) h in
  r_keys (b_r rstore_t B) = d_keys (b_r dstore A) /\
  r_keys (b_e rstore_t B) = d_keys (b_e dstore A) /\
  b_cdb rstore_t B = b_cdb dstore A /\ b_eq rstore_t B = b_eq dstore A /\
  b_stop rstore_t B = b_stop dstore A /\ b_stat rstore_t B = b_stat dstore A /\
  (forall k, r_mem k (b_r rstore_t B) = d_mem k (b_r dstore A)) /\
  (forall k, r_mem k (b_e rstore_t B) = d_mem k (b_e dstore A)) /\
  (forall start ends, rec_contains B start ends = dict_contains A start ends) /\
  (forall rep root iterative ksr kse,
     (forall k, In k ksr <-> In k (r_keys (b_r rstore_t B))) ->
     (forall k, In k kse <-> In k (r_keys (b_e rstore_t B))) ->
     db_has_spec rep ksr kse root iterative =
     db_has_spec rep (d_keys (b_r dstore A)) (d_keys (b_e dstore A)) root iterative).
Proof.
  intros T d0 h A B.
  pose proof (run_sim T h _ _ (simdb_init d0)) as S. fold A B in S.
  pose proof S as (Hc & Hr & He & Hq & Hs & Ht).
  repeat match goal with |- _ /\ _ => split end; auto using sim_keys, sim_mem.
  - intros start ends. apply (rec_contains_sim A B start ends S).
  - intros rep root it ksr kse H1 H2. unfold db_has_spec. apply has_spec_set_invariant.
    intros k. rewrite !in_app_iff, H1, H2, (sim_keys _ _ Hr), (sim_keys _ _ He). tauto.
Qed.

(* ... and has_specification marks the same set of labels verified in both (the keys of
   the pruned dictionary).  NOT covered by a theorem: that the equivalence database ends
   in the same observable state when those set_verified calls arrive in another order
   (dict iteration order differs between the two databases) - this is C06's component;
   the harness compares is_verified after has_specification() on the real databases. *)
Theorem C14_has_specification_marks_same_labels : forall (T : table) (d0 : cdbT) (h : list hop) rep root iterative,
  let A := dict_run T (dict_init d0) h in
  let B := rec_run T (rec_init d0) h in
  exists pa pb,
    Tree.Model.pruned_dict rep (d_keys (b_r dstore A) ++ d_keys (b_e dstore A)) root iterative = Some pa /\
    Tree.Model.pruned_dict rep (r_keys (b_r rstore_t B) ++ r_keys (b_e rstore_t B)) root iterative = Some pb /\
    forall l, Tree.Model.has_key pa l = Tree.Model.has_key pb l.
Proof.
  intros T d0 h rep root it A B.
  pose proof (run_sim T h _ _ (simdb_init d0)) as (_ & Hr & He & _). fold A B in Hr, He.
  rewrite (sim_keys _ _ Hr), (sim_keys _ _ He).
  apply pruned_keys_set_invariant. tauto.
Qed.

(* 2. contains(start, ends) is true exactly when (start, sorted(ends)) is a stored key -
   in both databases, for every pair, after every history *)
Theorem C14_contains : forall (T : table) (d0 : cdbT) (h : list hop) start ends,
  let A := dict_run T (dict_init d0) h in
  let B := rec_run T (rec_init d0) h in
  (dict_contains A start ends = true <->
   In (start, isort ends) (d_keys (b_r dstore A) ++ d_keys (b_e dstore A))) /\
  (rec_contains B start ends = true <->
   In (start, isort ends) (r_keys (b_r rstore_t B) ++ r_keys (b_e rstore_t B))).
Proof.
  intros T d0 h start ends A B.
  pose proof (run_sim T h _ _ (simdb_init d0)) as S. fold A B in S.
  split; [apply dict_contains_spec|].
  rewrite (rec_contains_sim A B start ends S). destruct S as (_ & Hr & He & _).
  rewrite (sim_keys _ _ Hr), (sim_keys _ _ He). apply dict_contains_spec.
Qed.

(* 3a. whatever RecomputingDict.__getitem__ hands back reproduces the key: re-applied to the
   class labelled (fst k) it gives a rule filed under k again (in the state d' the lookup left);
   it comes from a strategy of the pack (or the empty strategy) applied to a class of the key, the
   equivalence store only hands back two-way rules, and the rule's parent is the class labelled fst k.
   Any well-formed class database, any store, any key whose labels the database knows. *)
Theorem C14_recompute_reproduces : forall (T : table) pack only_equiv s d k d' sid p,
  WFd d -> labels_known d k ->
  rec_getitem T pack only_equiv s d k = (d', GOk sid p) ->
  reproduces T d' sid k = true /\ r_mem k s = true /\
  (exists r, is_cand T d pack k r /\ r_sid r = sid /\ r_parent r = p /\
             (only_equiv = true -> r_two_way T r = true)) /\
  lbl d' p = Some (fst k).
Proof. intros; eapply recompute_reproduces; eauto. Qed.

(* 3b. it DOES hand a strategy back for a stored key whenever some strategy of the pack (or the
   empty strategy), applied to a class carrying one of the key's labels, produces a rule that is
   filed under the key (two-way for the equivalence store) *)
Theorem C14_recompute_succeeds : forall (T : table) pack only_equiv s d k r,
  WFd d -> labels_known d k -> r_mem k s = true ->
  is_cand T d pack k r -> key_of_rule T d r = Some k -> (only_equiv = true -> r_two_way T r = true) ->
  exists d' sid p, rec_getitem T pack only_equiv s d k = (d', GOk sid p).
Proof. intros; eapply recompute_succeeds; eauto. Qed.

(* 3c. exactly when it fails: KeyError iff the key is not stored; RuntimeError ("could not
   recompute") only if NO strategy of the pack produces, on a class of the key, a rule filed
   under the key; never any other exception (8ca838d: unseen children are skipped, not looked up) *)
Theorem C14_recompute_outcomes : forall (T : table) pack only_equiv s d k d' g,
  WFd d -> labels_known d k ->
  rec_getitem T pack only_equiv s d k = (d', g) ->
  match g with
  | GOk _ _ => r_mem k s = true
  | GKeyError => r_mem k s = false
  | GFail => r_mem k s = true /\
             forall r, is_cand T d pack k r ->
                       ~ (key_of_rule T d r = Some k /\ (only_equiv = true -> r_two_way T r = true))
  | GErr _ => False
  end.
Proof. intros; eapply recompute_outcomes; eauto. Qed.

(* a lookup in the memory-saving database may change the class database (it can fill the emptiness
   cache and give a NEW label to a foreign parent), but only like this: the database grows, and every
   class it knew keeps its label and its is_empty answer.  A lookup in a dict changes nothing. *)
Theorem C14_lookup_side_effects : forall (T : table) pack only_equiv s d k d' g,
  WFd d -> labels_known d k ->
  rec_getitem T pack only_equiv s d k = (d', g) ->
  WFd d' /\ extends d d' /\ (forall c l, lbl d c = Some l -> lbl d' c = Some l /\ empv T d' c = empv T d c).
Proof. intros; eapply recompute_side_effects; eauto. Qed.

(* 3d. RuleDB: add called as the searcher calls it (start = label of the rule's parent, ends = labels
   of its children: C04_recorded_from_table) succeeds, files the rule under the key its own strategy
   reproduces, and rule_to_strategy[key] / eqv_rule_to_strategy[key] is that strategy *)
Theorem C14_dict_add_reproduces : forall (T : table) a start ends r cs,
  add_pre T (b_cdb dstore a) start ends r cs -> kind_ok T r ->
  let a1 := dict_add T a start ends r in
  let k := stored_key T (b_cdb dstore a) start ends r cs in
  b_stat dstore a1 = 0 /\ pres T (b_cdb dstore a) (b_cdb dstore a1) /\
  key_of_rule T (b_cdb dstore a1) r = Some k /\
  d_get k (if in_eqv (snd k) (r_two_way T r) then b_e dstore a1 else b_r dstore a1) = Some (r_sid r) /\
  reproduces T (b_cdb dstore a1) (r_sid r) k = true.
Proof. intros; eapply dict_add_spec; eauto. Qed.

(* 3e. RuleDBForgetStrategy: the same add stores the key, and a lookup right after it - or in ANY later
   state that kept labels and is_empty answers, from any store still holding the key - hands back a
   strategy that reproduces it, provided a strategy q of the pack (or the empty strategy) produces the
   rule on the rule's OWN parent class.  (Not covered: a rule a factory produced for another class, see
   C14_every_stored_rule_handed_back_refuted.) *)
Theorem C14_stored_rule_is_handed_back : forall (T : table) b start ends r cs pack q,
  add_pre T (b_cdb rstore_t b) start ends r cs ->
  In q (-1 :: pack) -> In r (cands T q (r_parent r)) ->
  let b1 := rec_add T b start ends r in
  let k := stored_key T (b_cdb rstore_t b) start ends r cs in
  let oe := in_eqv (snd k) (r_two_way T r) in
  let s := if oe then b_e rstore_t b1 else b_r rstore_t b1 in
  b_stat rstore_t b1 = 0 /\ r_mem k s = true /\
  forall d2 s2, pres T (b_cdb rstore_t b1) d2 -> r_mem k s2 = true ->
    exists d3 sid p, rec_getitem T pack oe s2 d2 k = (d3, GOk sid p) /\ reproduces T d3 sid k = true.
Proof. intros; eapply rec_add_spec; eauto. Qed.

(* 3f. the repair proposed for the open finding (findings/forget_foreign_parent.patch.diff: after the labels
   of the key, replay the pack on every other label; model: rec_getitem_x extra): 3a holds for every `extra`,
   and a stored rule is handed back whenever a strategy of the pack produces it on ANY replayed class c0 -
   with extra = all other labels: on any class the searcher has labelled, which is what C04 guarantees for
   every rule a search records.  rec_getitem = rec_getitem_x [] is the code as it is. *)
Theorem C14_repair_reproduces : forall (T : table) extra pack only_equiv s d k d' sid p,
  WFd d -> labs_known d (key_labels k extra) ->
  rec_getitem_x T extra pack only_equiv s d k = (d', GOk sid p) ->
  reproduces T d' sid k = true /\ r_mem k s = true /\
  (exists r, is_cand_in T (key_labels k extra) d pack r /\ r_sid r = sid /\ r_parent r = p /\
             (only_equiv = true -> r_two_way T r = true)) /\
  lbl d' p = Some (fst k).
Proof. intros; eapply recompute_x_reproduces; eauto. Qed.

Theorem C14_repair_hands_back : forall (T : table) b start ends r cs pack q c0 l0,
  add_pre T (b_cdb rstore_t b) start ends r cs ->
  In q (-1 :: pack) -> lbl (b_cdb rstore_t b) c0 = Some l0 -> In r (cands T q c0) ->
  let b1 := rec_add T b start ends r in
  let k := stored_key T (b_cdb rstore_t b) start ends r cs in
  let oe := in_eqv (snd k) (r_two_way T r) in
  let s := if oe then b_e rstore_t b1 else b_r rstore_t b1 in
  b_stat rstore_t b1 = 0 /\ r_mem k s = true /\
  forall extra d2 s2, pres T (b_cdb rstore_t b1) d2 -> r_mem k s2 = true ->
    labs_known d2 extra -> In l0 (key_labels k extra) ->
    exists d3 sid p, rec_getitem_x T extra pack oe s2 d2 k = (d3, GOk sid p) /\ reproduces T d3 sid k = true.
Proof. intros; eapply rec_add_spec_x; eauto. Qed.

(* when `pres` holds between two states of a search: whenever both emptiness caches are truthful ... *)
Theorem C14_truthful_caches_keep_answers : forall (T : table) d d',
  WFd d -> WFd d' -> extends d d' ->
  EmptyOK (fun k : Z => k) (oracle T) d -> EmptyOK (fun k : Z => k) (oracle T) d' -> pres T d d'.
Proof. intros; eapply pres_of_truthful; eauto. Qed.

(* ... which is the case for any two states of a search (searcher model of C04: any table honouring
   the two strategy contracts, any packets, any is_verified answers, any fuel, every database mode) *)
Section Search.
Variable T : table.
Variable mode : Z.
Variables (F : nat) (do_level expand_verified : bool) (answers : list bool) (start : Z).
Hypothesis pe_contract : forall sid c e, (* in-section *)
  entry_of T sid c = Some e -> pe_of T sid = false -> forall k, In k (e_children e) -> oracle T k = false.
Hypothesis sym_contract : forall sid c r c0 rest, (* in-section *)
  In sid (t_sym T) -> In r (rules_from_strategy T sid c) -> rule_children T r = Some (c0 :: rest) ->
  oracle T c0 = oracle T c.
Notation final ps := (run_search T mode F do_level expand_verified answers start ps).

Theorem C14_search_states_keep_answers : forall ps more,
  pres T (cdb (final ps)) (cdb (final (ps ++ more))).
Proof.
  intros ps more.
  destruct (run_search_inv T mode True (fun _ => pe_contract) (fun _ => sym_contract) F do_level expand_verified answers start ps)
    as (W & E & _).
  destruct (run_search_app T mode True (fun _ => pe_contract) (fun _ => sym_contract) F do_level expand_verified answers start ps more)
    as ((W' & E' & _) & X & _).
  apply pres_of_truthful; auto.
Qed.
End Search.

(* The searcher model of C04 uses the DictStore database: one ruledb.add of Searcher/Model.v (base_add, key
   lists rstore / estore) and dict_add do the same to the class database and to the two key sets; when the class
   database raises, both leave the stores alone.  Hence the histories a search produces are histories of theorem 1,
   and C04_recorded_from_table provides add_pre for them. *)
Theorem C14_searcher_model_uses_dict_store : forall (T : table) s a start ends r cs,
  running s = true -> rule_children T r = Some cs ->
  b_cdb dstore a = cdb s -> d_keys (b_r dstore a) = rstore s -> d_keys (b_e dstore a) = estore s ->
  let s' := base_add T s start ends r in
  let a' := dict_add T a start ends r in
  if running s' then
    b_stat dstore a' = 0 /\ b_cdb dstore a' = cdb s' /\
    d_keys (b_r dstore a') = rstore s' /\ d_keys (b_e dstore a') = estore s'
  else
    b_stat dstore a' <> 0 /\ b_r dstore a' = b_r dstore a /\ b_e dstore a' = b_e dstore a /\
    rstore s' = rstore s /\ estore s' = estore s.
Proof. intros; eapply base_add_is_dict_add; eauto. Qed.

(* The unconditional statement "every stored rule of a non-empty class can be looked up in the
   memory-saving database" is FALSE of the faithful model: a factory applied to class 0 yields the
   ready rule  S(1) -> (2,)  (a rule with a foreign parent; the searcher records it under the label
   of class 1: C04).  The dict hands strategy 0 back and it reproduces the key; RecomputingDict
   replays the pack on classes 1 and 2 only and raises RuntimeError.  Replayed on the real code:
   findings/forget_foreign_parent.py (open known finding). *)
Definition fp_table : table :=
  mkT [0; 0; 0]
      [ mkS 0 false true false true [(1, mkE [2] true true [0])] [];           (* 0: plain strategy, hidden *)
        mkS 1 false true true true [] [(0, [mkI 0 (Some 1) false])] ]            (* 1: factory *)
      [] [].
Definition fp_cdb : cdbT := mk [0; 1; 2] [(0, 0); (1, 1); (2, 2)] [None; None; None] 0.

Theorem C14_every_stored_rule_handed_back_refuted :
  exists (T : table) (pack : list Z) (d : cdbT) start ends r cs,
    add_pre T d start ends r cs /\ kind_ok T r /\ oracle T (r_parent r) = false /\
    (exists c0 l0, lbl d c0 = Some l0 /\ In r (cands T 1 c0)) /\
    let k := stored_key T d start ends r cs in
    let A := dict_add T (dict_init d) start ends r in
    let B := rec_add T (rec_init d) start ends r in
    d_get k (b_e dstore A) = Some (r_sid r) /\ reproduces T (b_cdb dstore A) (r_sid r) k = true /\
    r_mem k (b_e rstore_t B) = true /\
    snd (rec_getitem T pack true (b_e rstore_t B) (b_cdb rstore_t B) k) = GFail /\
    snd (rec_getitem_x T [0] pack true (b_e rstore_t B) (b_cdb rstore_t B) k) = GOk 0 1.
Proof.
  exists fp_table, [1], fp_cdb, 1, [2], (mkR 0 1 RPlain), [2].
  split; [|split; [|split; [|split]]].
  - unfold add_pre. split; [|split; [reflexivity|split; [reflexivity|repeat constructor]]].
    unfold WF; simpl. split; [reflexivity|split; [reflexivity|]].
    repeat constructor; simpl; intuition discriminate.
  - intros H; discriminate.
  - reflexivity.
  - exists 0, 0. split; [reflexivity|]. vm_compute. left; reflexivity.
  - vm_compute. repeat split; reflexivity.
Qed.

(* non-vacuity: a history in which a two-way rule supersedes a stored one-way key, an empty child of a
   possibly_empty rule is dropped, a verification rule is stored, and both databases are asked *)
Definition nv_table : table :=
  mkT [0; 0; 1; 0]
      [ mkS 2 false false false false [(3, mkE [] false false [])] [];                               (* 0: verification *)
        mkS 0 false true true true [(0, mkE [1; 2] false true [0; 0]); (1, mkE [3; 3] false false [0; 0])] [];  (* 1: possibly_empty *)
        mkS 0 false true false true [(1, mkE [0] true true [0])] [] ]                                (* 2: two-way *)
      [0] [].
Definition nv_cdb : cdbT := mk [0; 1; 2; 3] [(0, 0); (1, 1); (2, 2); (3, 3)] [None; None; None; None] 0.
Definition nv_hist : list hop :=
  [ HAdd 0 [1; 2] (mkR 1 0 RPlain);      (* 0 -> (1, empty 2): stored one-way as (0, (1,)) *)
    HAdd 1 [3; 3] (mkR 1 1 RPlain);      (* 1 -> (3, 3) *)
    HAdd 3 [] (mkR 0 3 RVer);            (* 3 verified *)
    HAdd 1 [0] (mkR 2 1 RPlain) ].       (* 1 <-> 0 two-way: supersedes (0, (1,)) *)

Example C14_nonvacuous :
  let A := dict_run nv_table (dict_init nv_cdb) nv_hist in
  let B := rec_run nv_table (rec_init nv_cdb) nv_hist in
  d_keys (b_r dstore A) = [(1, [3; 3]); (3, [])] /\ d_keys (b_e dstore A) = [(1, [0])] /\
  r_keys (b_r rstore_t B) = [(1, [3; 3]); (3, [])] /\ b_stop dstore A = [2] /\
  rev (b_eq dstore A) = [EqEdge false 0 1; EqVerified 3; EqEdge true 1 0] /\
  rec_contains B 1 [3; 3] = true /\ rec_contains B 0 [1] = false /\
  snd (rec_getitem nv_table [1; 0; 2] false (b_r rstore_t B) (b_cdb rstore_t B) (1, [3; 3])) = GOk 1 1 /\
  snd (rec_getitem nv_table [1; 0; 2] true (b_e rstore_t B) (b_cdb rstore_t B) (1, [0])) = GOk 2 1 /\
  snd (rec_getitem nv_table [1; 0; 2] false (b_r rstore_t B) (b_cdb rstore_t B) (0, [1])) = GKeyError /\
  db_has_spec (fun l => if l =? 1 then 0 else l) (d_keys (b_r dstore A)) (d_keys (b_e dstore A)) 0 false = Some true.
Proof. vm_compute. repeat split; reflexivity. Qed.

Example C14_nonvacuous_add_pre :
  add_pre nv_table nv_cdb 0 [1; 2] (mkR 1 0 RPlain) [1; 2] /\ kind_ok nv_table (mkR 1 0 RPlain) /\
  In 1 (-1 :: [1; 0; 2]) /\ In (mkR 1 0 RPlain) (cands nv_table 1 0).
Proof.
  split; [|split; [intros H; discriminate|split; [right; left; reflexivity|vm_compute; left; reflexivity]]].
  unfold add_pre. split; [|split; [reflexivity|split; [reflexivity|repeat constructor]]].
  unfold WF; simpl. split; [reflexivity|split; [reflexivity|]].
  repeat constructor; simpl; intuition discriminate.
Qed.

Print Assumptions C14_same_keys_same_answers.
Print Assumptions C14_has_specification_marks_same_labels.
Print Assumptions C14_contains.
Print Assumptions C14_recompute_reproduces.
Print Assumptions C14_recompute_succeeds.
Print Assumptions C14_recompute_outcomes.
Print Assumptions C14_lookup_side_effects.
Print Assumptions C14_dict_add_reproduces.
Print Assumptions C14_stored_rule_is_handed_back.
Print Assumptions C14_repair_reproduces.
Print Assumptions C14_repair_hands_back.
Print Assumptions C14_truthful_caches_keep_answers.
Print Assumptions C14_search_states_keep_answers.
Print Assumptions C14_searcher_model_uses_dict_store.
Print Assumptions C14_every_stored_rule_handed_back_refuted.
