(* C14 — the default rule database (RuleDB) and the memory-saving one
   (RuleDBForgetStrategy) are observationally identical.

   Model: RuleDB/Model.v.  ONE database (RuleDBBase.add / _clean_labels / contains /
   __iter__) generic in the implementation of its two stores; DictStore = RuleDB's
   dicts, RecStore = RecomputingDict (a set of flattened keys; __getitem__ replays
   EmptyStrategy and the pack on the classes of the key and THEN - since fix 59cdf67 - on
   every other labelled class: rec_getitem_x T (other_labels d k) = rec_getitem_all, THE
   CODE AS IT IS and the function the harness runs; rec_getitem = rec_getitem_x T [] is the
   code BEFORE that fix).  The theorems about the code as it is carry the suffix _x
   (section 3x below); the theorems 3a-3c, 3e and the search composition without suffix
   are kept and are about the code before 59cdf67.  The pack and the classes
   are a strategy table T (Searcher/Model.v), the class database is the C15 model.

   A history h is ANY list of: add(start, ends, rule) - with any labels and any rule,
   also ones no search would produce -, a direct assignment or deletion in one of the
   two stores, and an arbitrary change of the class database by the rest of the program
   (HEnv).  dict_run / rec_run apply it to the two databases; quantifying over all h
   gives the state after EVERY event.  b_eq is the sequence of calls made on the shared
   equivalence database (set_verified, add_two_way_edge, add_one_way_edge): is_verified
   and equivdb[...] are functions of it, in both databases the same function (base-class
   code); b_stop the set_stop_yielding calls; b_stat the exception status.

   lbl d c = Some l : class c carries label l in class database d;  empv T d c : what
   classdb.is_empty(c) answers in state d;  pres T d d' : d' extends d and the classes d
   knew keep their is_empty answers;  key_of_rule T d r : the key under which
   RuleDBBase.add files rule r in state d;  reproduces T d sid k : strategy sid applied
   to the class labelled (fst k) gives a rule that is filed under k again. *)
From Coq Require Import ZArith List Bool Lia.
From CSS Require Import Base.PyList ClassDB.Model ClassDB.Proofs Searcher.Model Searcher.Inv Searcher.Contracts
  Searcher.ProofsCore Searcher.Proofs
  RuleDB.Model RuleDB.StoreProofs RuleDB.CdbFacts RuleDB.GetProofs RuleDB.GetAll RuleDB.AddProofs RuleDB.Bridge
  RuleDB.AddHist RuleDB.SearchHist.
From CSS Require Searcher.Deciders.
From CSS Require Equiv.Model Equiv.Neutral Equiv.Inv Props.C06 RuleDB.Run RuleDB.VerifiedOrder Tree.Basics.
Import ListNotations.
Open Scope Z_scope.

Notation lbl := (label_of Z.eqb (fun c : Z => c)).
Notation WFd := (@WF Z).

(* 1. Same stored rules in both stores, same calls on the equivalence database / queue,
   same class database, same exception status, hence the same answers to every
   membership query and the same has_specification - after every event of every history.
   The memory-saving store is a SET: has_specification is shown for every order (and
   multiplicity) in which its keys may be iterated. *)
Theorem C14_same_keys_same_answers : forall (T : table) (d0 : cdbT) (h : list hop),
  let A := dict_run T (dict_init d0) h in
  let B := rec_run T (rec_init d0) h in
  r_keys (b_r rstore_t B) = d_keys (b_r dstore A) /\
  r_keys (b_e rstore_t B) = d_keys (b_e dstore A) /\
  b_cdb rstore_t B = b_cdb dstore A /\ b_eq rstore_t B = b_eq dstore A /\
  b_stop rstore_t B = b_stop dstore A /\ b_stat rstore_t B = b_stat dstore A /\
  (forall k, r_mem k (b_r rstore_t B) = d_mem k (b_r dstore A)) /\
  (forall k, r_mem k (b_e rstore_t B) = d_mem k (b_e dstore A)) /\
  (forall start ends, rec_contains B start ends = dict_contains A start ends) /\
  (forall rep root iterative ksr kse,
     (forall k, In k ksr <-> In k (r_keys (b_r rstore_t B))) ->
     (forall k, In k kse <-> In k (r_keys (b_e rstore_t B))) ->
     db_has_spec rep ksr kse root iterative =
     db_has_spec rep (d_keys (b_r dstore A)) (d_keys (b_e dstore A)) root iterative).
Proof.
  intros T d0 h A B.
  pose proof (run_sim T h _ _ (simdb_init d0)) as S. fold A B in S.
  pose proof S as (Hc & Hr & He & Hq & Hs & Ht).
  repeat match goal with |- _ /\ _ => split end; auto using sim_keys, sim_mem.
  - intros start ends. apply (rec_contains_sim A B start ends S).
  - intros rep root it ksr kse H1 H2. unfold db_has_spec. apply has_spec_set_invariant.
    intros k. rewrite !in_app_iff, H1, H2, (sim_keys _ _ Hr), (sim_keys _ _ He). tauto.
Qed.

(* ... and has_specification marks the same set of labels verified in both (the keys of
   the pruned dictionary) - again for every order and multiplicity (ksr, kse) in which the
   memory-saving SET may be iterated.  (Audit: the earlier form compared the pruned dictionaries of
   r_keys B and d_keys A only; these two LISTS are equal by theorem 1, so that form said no more
   than "pruned_dict is defined".)  NOT covered by a theorem: that the equivalence database ends
   in the same observable state when those set_verified calls arrive in another order
   (dict iteration order differs between the two databases) - this is C06's component;
   the harness compares is_verified after has_specification() on the real databases. *)
Theorem C14_has_specification_marks_same_labels :
  forall (T : table) (d0 : cdbT) (h : list hop) rep root iterative ksr kse,
  let A := dict_run T (dict_init d0) h in
  let B := rec_run T (rec_init d0) h in
  (forall k, In k ksr <-> In k (r_keys (b_r rstore_t B))) ->
  (forall k, In k kse <-> In k (r_keys (b_e rstore_t B))) ->
  exists pa pb,
    Tree.Model.pruned_dict rep (d_keys (b_r dstore A) ++ d_keys (b_e dstore A)) root iterative = Some pa /\
    Tree.Model.pruned_dict rep (ksr ++ kse) root iterative = Some pb /\
    forall l, Tree.Model.has_key pa l = Tree.Model.has_key pb l.
Proof.
  intros T d0 h rep root it ksr kse A B H1 H2.
  pose proof (run_sim T h _ _ (simdb_init d0)) as (_ & Hr & He & _). fold A B in Hr, He.
  apply pruned_keys_set_invariant.
  intros k. rewrite !in_app_iff, H1, H2, (sim_keys _ _ Hr), (sim_keys _ _ He). tauto.
Qed.

(* 1c. THE FREE `rep` OF THEOREMS 1 / 1b INSTANTIATED WITH THE REAL EQUIVALENCE CLASSES (C06).  Both databases own an
   EquivalenceDB of the same base-class code; the calls `add` makes on it are the same list in both (theorem 1,
   b_eq), so whatever the rest of the program adds to them in the same way (mk_ops: any function of the calls of
   add - e.g.  fun calls => eq_ops calls ++ [Connect]  = "connect_cycles() after them", what
   rules_up_to_equivalence does) the two equivalence databases are in the SAME state s of the C06 model
   (Equiv/Model.v; total: C06_exec_total_ex), and equivdb[l] is C06's representative function  repf s
   (C06_representative_function: what every lookup returns, equal exactly for labels of the same class).  Hence
   "same has_specification / same labels marked" is about the real equivalence classes, for every order and
   multiplicity in which the memory-saving SET is iterated; and is_verified(l) is the same function of that state in
   both (true iff some label of l's class was passed to set_verified: C06_verified). *)
Theorem C14_same_has_specification_real_classes :
  forall (order : list Z -> list Z),
  (forall l x, In x (order l) <-> In x l) -> (forall l, (length (order l) <= length l)%nat) ->
  forall (T : table) (d0 : cdbT) (h : list hop) (mk_ops : list eqcall -> list Equiv.Model.op),
  let A := dict_run T (dict_init d0) h in
  let B := rec_run T (rec_init d0) h in
  exists s rs,
    Equiv.Model.exec order Equiv.Model.init (mk_ops (b_eq dstore A)) = Some (s, rs) /\
    Equiv.Model.exec order Equiv.Model.init (mk_ops (b_eq rstore_t B)) = Some (s, rs) /\
    (* repf s is what equivdb[x] returns, and it identifies exactly the labels of one class *)
    (forall x s1 r, Equiv.Model.find s x = Some (s1, r) -> r = Equiv.Neutral.repf s x) /\
    (forall a b, Equiv.Neutral.repf s a = Equiv.Neutral.repf s b <-> Equiv.UF.same s a b) /\
    (* same has_specification *)
    (forall root iterative ksr kse,
       (forall k, In k ksr <-> In k (r_keys (b_r rstore_t B))) ->
       (forall k, In k kse <-> In k (r_keys (b_e rstore_t B))) ->
       db_has_spec (Equiv.Neutral.repf s) ksr kse root iterative =
       db_has_spec (Equiv.Neutral.repf s) (d_keys (b_r dstore A)) (d_keys (b_e dstore A)) root iterative) /\
    (* has_specification marks the same labels *)
    (forall root iterative ksr kse,
       (forall k, In k ksr <-> In k (r_keys (b_r rstore_t B))) ->
       (forall k, In k kse <-> In k (r_keys (b_e rstore_t B))) ->
       exists pa pb,
         Tree.Model.pruned_dict (Equiv.Neutral.repf s) (d_keys (b_r dstore A) ++ d_keys (b_e dstore A)) root iterative = Some pa /\
         Tree.Model.pruned_dict (Equiv.Neutral.repf s) (ksr ++ kse) root iterative = Some pb /\
         forall l, Tree.Model.has_key pa l = Tree.Model.has_key pb l) /\
    (* is_verified: one function of the common state *)
    (forall l s' v, Equiv.Model.is_verified s l = Some (s', v) ->
       (v = true <-> exists b, Equiv.Hist.marked (mk_ops (b_eq dstore A)) b /\ Equiv.UF.same s l b)).
Proof.
  intros order oIn olen T d0 h mk_ops A B.
  destruct (C14_same_keys_same_answers T d0 h) as (_ & _ & _ & Heq & _ & _ & _ & _ & _ & Hhs).
  fold A B in Heq, Hhs.
  destruct (Props.C06.C06_exec_total_ex order olen (mk_ops (b_eq dstore A))) as (s & rs & E).
  exists s, rs. split; [exact E|]. split; [rewrite Heq; exact E|].
  destruct (Props.C06.C06_representative_function order olen _ s rs E) as (_ & R2 & R3 & _).
  split; [intros x s1 r F; exact (proj1 (R2 x s1 r F))|]. split; [exact R3|]. split; [|split].
  - intros root it ksr kse H1 H2. apply Hhs; auto.
  - intros root it ksr kse H1 H2.
    exact (C14_has_specification_marks_same_labels T d0 h (Equiv.Neutral.repf s) root it ksr kse H1 H2).
  - intros l s' v Q. exact (Props.C06.C06_verified order oIn _ s rs l s' v E Q).
Qed.

(* 1d. ... and has_specification() LEAVES the two equivalence databases in states that answer is_verified alike for
   every label, although `for k in pruned_dict: equivdb.set_verified(k)` hands them the keys in different orders
   (a dict built from dicts vs from a set): s = the common state when the pruning starts (after mk_ops of add's
   calls, e.g. eq_ops calls ++ [Connect]); pa / pb = the two pruned dictionaries (same key set, theorem 1b); marking
   keys pa resp. keys pb - any order, any multiplicity - gives the same is_verified answers (RuleDB/VerifiedOrder.v
   marking_order_irrelevant: C06_set_verified_keeps_partition + C06_verified). *)
Theorem C14_has_specification_leaves_same_is_verified :
  forall (order : list Z -> list Z),
  (forall l x, In x (order l) <-> In x l) -> (forall l, (length (order l) <= length l)%nat) ->
  forall (T : table) (d0 : cdbT) (h : list hop) (mk_ops : list eqcall -> list Equiv.Model.op) root iterative ksr kse,
  let A := dict_run T (dict_init d0) h in
  let B := rec_run T (rec_init d0) h in
  (forall k, In k ksr <-> In k (r_keys (b_r rstore_t B))) ->
  (forall k, In k kse <-> In k (r_keys (b_e rstore_t B))) ->
  exists s rs pa pb,
    Equiv.Model.exec order Equiv.Model.init (mk_ops (b_eq dstore A)) = Some (s, rs) /\
    Tree.Model.pruned_dict (Equiv.Neutral.repf s) (d_keys (b_r dstore A) ++ d_keys (b_e dstore A)) root iterative = Some pa /\
    Tree.Model.pruned_dict (Equiv.Neutral.repf s) (ksr ++ kse) root iterative = Some pb /\
    forall sA rsA sB rsB,
      Equiv.Model.exec order Equiv.Model.init
        (mk_ops (b_eq dstore A) ++ map Equiv.Model.SetVerified (Tree.Model.keys pa)) = Some (sA, rsA) ->
      Equiv.Model.exec order Equiv.Model.init
        (mk_ops (b_eq rstore_t B) ++ map Equiv.Model.SetVerified (Tree.Model.keys pb)) = Some (sB, rsB) ->
      forall l sA' vA sB' vB,
        Equiv.Model.is_verified sA l = Some (sA', vA) -> Equiv.Model.is_verified sB l = Some (sB', vB) -> vA = vB.
Proof.
  intros order oIn olen T d0 h mk_ops root it ksr kse A B H1 H2.
  destruct (C14_same_has_specification_real_classes order oIn olen T d0 h mk_ops) as (s & rs & E1 & _ & _ & _ & _ & Hm & _).
  fold A B in E1, Hm. destruct (Hm root it ksr kse H1 H2) as (pa & pb & Pa & Pb & Hk).
  exists s, rs, pa, pb. split; [exact E1|]. split; [exact Pa|]. split; [exact Pb|].
  intros sA rsA sB rsB EA EB l sA' vA sB' vB QA QB.
  destruct (C14_same_keys_same_answers T d0 h) as (_ & _ & _ & Heq & _). fold A B in Heq. rewrite Heq in EB.
  apply (RuleDB.VerifiedOrder.marking_order_irrelevant order oIn _ _ _ sA rsA sB rsB l sA' vA sB' vB) with (2 := EA) (3 := EB); auto.
  intros k. rewrite <- !Tree.Basics.has_key_keys, Hk. tauto.
Qed.

(* 2. contains(start, ends) is true exactly when (start, sorted(ends)) is a stored key -
   in both databases, for every pair, after every history *)
Theorem C14_contains : forall (T : table) (d0 : cdbT) (h : list hop) start ends,
  let A := dict_run T (dict_init d0) h in
  let B := rec_run T (rec_init d0) h in
  (dict_contains A start ends = true <->
   In (start, isort ends) (d_keys (b_r dstore A) ++ d_keys (b_e dstore A))) /\
  (rec_contains B start ends = true <->
   In (start, isort ends) (r_keys (b_r rstore_t B) ++ r_keys (b_e rstore_t B))).
Proof.
  intros T d0 h start ends A B.
  pose proof (run_sim T h _ _ (simdb_init d0)) as S. fold A B in S.
  split; [apply dict_contains_spec|].
  rewrite (rec_contains_sim A B start ends S). destruct S as (_ & Hr & He & _).
  rewrite (sim_keys _ _ Hr), (sim_keys _ _ He). apply dict_contains_spec.
Qed.

(* [3a-3c, side effects, 3e: THE CODE BEFORE FIX 59cdf67 (rec_getitem = only the classes of the key are replayed).
   The same statements for the code as it is: section 3x, C14_recompute_reproduces_x etc.]
   3a. whatever RecomputingDict.__getitem__ hands back reproduces the key: re-applied to the
   class labelled (fst k) it gives a rule filed under k again (in the state d' the lookup left);
   it comes from a strategy of the pack (or the empty strategy) applied to a class of the key, the
   equivalence store only hands back two-way rules, and the rule's parent is the class labelled fst k.
   Any well-formed class database, any store, any key whose labels the database knows. *)
Theorem C14_recompute_reproduces : forall (T : table) pack only_equiv s d k d' sid p,
  WFd d -> labels_known d k ->
  rec_getitem T pack only_equiv s d k = (d', GOk sid p) ->
  reproduces T d' sid k = true /\ r_mem k s = true /\
  (exists r, is_cand T d pack k r /\ r_sid r = sid /\ r_parent r = p /\
             (only_equiv = true -> r_two_way T r = true)) /\
  lbl d' p = Some (fst k).
Proof. intros; eapply recompute_reproduces; eauto. Qed.

(* 3b. it DOES hand a strategy back for a stored key whenever some strategy of the pack (or the
   empty strategy), applied to a class carrying one of the key's labels, produces a rule that is
   filed under the key (two-way for the equivalence store) *)
Theorem C14_recompute_succeeds : forall (T : table) pack only_equiv s d k r,
  WFd d -> labels_known d k -> r_mem k s = true ->
  is_cand T d pack k r -> key_of_rule T d r = Some k -> (only_equiv = true -> r_two_way T r = true) ->
  exists d' sid p, rec_getitem T pack only_equiv s d k = (d', GOk sid p).
Proof. intros; eapply recompute_succeeds; eauto. Qed.

(* 3c. exactly when it fails: KeyError iff the key is not stored; RuntimeError ("could not
   recompute") only if NO strategy of the pack produces, on a class of the key, a rule filed
   under the key; never any other exception (8ca838d: unseen children are skipped, not looked up) *)
Theorem C14_recompute_outcomes : forall (T : table) pack only_equiv s d k d' g,
  WFd d -> labels_known d k ->
  rec_getitem T pack only_equiv s d k = (d', g) ->
  match g with
  | GOk _ _ => r_mem k s = true
  | GKeyError => r_mem k s = false
  | GFail => r_mem k s = true /\
             forall r, is_cand T d pack k r ->
                       ~ (key_of_rule T d r = Some k /\ (only_equiv = true -> r_two_way T r = true))
  | GErr _ => False
  end.
Proof. intros; eapply recompute_outcomes; eauto. Qed.

(* a lookup in the memory-saving database may change the class database (it can fill the emptiness
   cache and give a NEW label to a foreign parent), but only like this: the database grows, and every
   class it knew keeps its label and its is_empty answer.  A lookup in a dict changes nothing. *)
Theorem C14_lookup_side_effects : forall (T : table) pack only_equiv s d k d' g,
  WFd d -> labels_known d k ->
  rec_getitem T pack only_equiv s d k = (d', g) ->
  WFd d' /\ extends d d' /\ (forall c l, lbl d c = Some l -> lbl d' c = Some l /\ empv T d' c = empv T d c).
Proof. intros; eapply recompute_side_effects; eauto. Qed.

(* 3d. RuleDB: add called as the searcher calls it (add_pre: start = label of the rule's parent, ends = labels
   of ALL its children, in the class database at call time - for search-produced calls: C04_adds_made_under_add_pre)
   succeeds, files the rule under the key its own strategy
   reproduces, and rule_to_strategy[key] / eqv_rule_to_strategy[key] is that strategy *)
Theorem C14_dict_add_reproduces : forall (T : table) a start ends r cs,
  add_pre T (b_cdb dstore a) start ends r cs -> kind_ok T r ->
  let a1 := dict_add T a start ends r in
  let k := stored_key T (b_cdb dstore a) start ends r cs in
  b_stat dstore a1 = 0 /\ pres T (b_cdb dstore a) (b_cdb dstore a1) /\
  key_of_rule T (b_cdb dstore a1) r = Some k /\
  d_get k (if in_eqv (snd k) (r_two_way T r) then b_e dstore a1 else b_r dstore a1) = Some (r_sid r) /\
  reproduces T (b_cdb dstore a1) (r_sid r) k = true.
Proof. intros; eapply dict_add_spec; eauto. Qed.

(* 3e [CODE BEFORE 59cdf67; as it is: C14_stored_rule_is_handed_back_x]. RuleDBForgetStrategy: the same add stores the key, and a lookup right after it - or in ANY later
   state that kept labels and is_empty answers, from any store still holding the key - hands back a
   strategy that reproduces it, provided a strategy q of the pack (or the empty strategy) produces the
   rule on the rule's OWN parent class.  (Not covered: a rule a factory produced for another class, see
   C14_every_stored_rule_handed_back_refuted.) *)
Theorem C14_stored_rule_is_handed_back : forall (T : table) b start ends r cs pack q,
  add_pre T (b_cdb rstore_t b) start ends r cs ->
  In q (-1 :: pack) -> In r (cands T q (r_parent r)) ->
  let b1 := rec_add T b start ends r in
  let k := stored_key T (b_cdb rstore_t b) start ends r cs in
  let oe := in_eqv (snd k) (r_two_way T r) in
  let s := if oe then b_e rstore_t b1 else b_r rstore_t b1 in
  b_stat rstore_t b1 = 0 /\ r_mem k s = true /\
  forall d2 s2, pres T (b_cdb rstore_t b1) d2 -> r_mem k s2 = true ->
    exists d3 sid p, rec_getitem T pack oe s2 d2 k = (d3, GOk sid p) /\ reproduces T d3 sid k = true.
Proof. intros; eapply rec_add_spec; eauto. Qed.

(* 3f. for EVERY list `extra` of labels replayed after the labels of the key (fix 59cdf67, in /repo: extra = all
   other labels, see 3x; extra = [] is the code before the fix): 3a holds, and a stored rule is handed back
   whenever a strategy of the pack produces it on ANY replayed class c0. *)
Theorem C14_repair_reproduces : forall (T : table) extra pack only_equiv s d k d' sid p,
  WFd d -> labs_known d (key_labels k extra) ->
  rec_getitem_x T extra pack only_equiv s d k = (d', GOk sid p) ->
  reproduces T d' sid k = true /\ r_mem k s = true /\
  (exists r, is_cand_in T (key_labels k extra) d pack r /\ r_sid r = sid /\ r_parent r = p /\
             (only_equiv = true -> r_two_way T r = true)) /\
  lbl d' p = Some (fst k).
Proof. intros; eapply recompute_x_reproduces; eauto. Qed.

Theorem C14_repair_hands_back : forall (T : table) b start ends r cs pack q c0 l0,
  add_pre T (b_cdb rstore_t b) start ends r cs ->
  In q (-1 :: pack) -> lbl (b_cdb rstore_t b) c0 = Some l0 -> In r (cands T q c0) ->
  let b1 := rec_add T b start ends r in
  let k := stored_key T (b_cdb rstore_t b) start ends r cs in
  let oe := in_eqv (snd k) (r_two_way T r) in
  let s := if oe then b_e rstore_t b1 else b_r rstore_t b1 in
  b_stat rstore_t b1 = 0 /\ r_mem k s = true /\
  forall extra d2 s2, pres T (b_cdb rstore_t b1) d2 -> r_mem k s2 = true ->
    labs_known d2 extra -> In l0 (key_labels k extra) ->
    exists d3 sid p, rec_getitem_x T extra pack oe s2 d2 k = (d3, GOk sid p) /\ reproduces T d3 sid k = true.
Proof. intros; eapply rec_add_spec_x; eauto. Qed.

(* when `pres` holds between two states of a search: whenever both emptiness caches are truthful ... *)
Theorem C14_truthful_caches_keep_answers : forall (T : table) d d',
  WFd d -> WFd d' -> extends d d' ->
  EmptyOK (fun k : Z => k) (oracle T) d -> EmptyOK (fun k : Z => k) (oracle T) d' -> pres T d d'.
Proof. intros; eapply pres_of_truthful; eauto. Qed.

(* ... which is the case for any two packet-boundary states of a search (searcher model of C04: any table
   honouring the two strategy contracts of Searcher/Contracts.v - restated: the former pair was contradictory
   whenever a symmetry has an entry on an empty class, see C04_old_contracts_exclude_each_other -, any packets of
   strategies of `pack`, any is_verified answers, any fuel, every database mode).  States INSIDE a packet:
   C14_search_stored_rules_handed_back below. *)
Section Search.
Variable T : table.
Variable mode : Z.
Variables (F : nat) (do_level expand_verified : bool) (answers : list bool) (start : Z).
Variable pack : list Z.
Hypothesis Hpe : pe_contract T pack. (* in-section *)
Hypothesis Hsym : sym_contract T. (* in-section *)
Notation final ps := (run_search T mode F do_level expand_verified answers start ps).

Theorem C14_search_states_keep_answers : forall ps more, packets_in pack (ps ++ more) ->
  pres T (cdb (final ps)) (cdb (final (ps ++ more))).
Proof.
  intros ps more Hps.
  assert (packets_in pack ps) as Hp1 by (apply (proj1 (Forall_app _ ps more) Hps)).
  destruct (run_search_inv0 T mode True pack (fun _ => Hpe) (fun _ => Hsym) F do_level expand_verified answers start ps (fun _ => Hp1))
    as (W & E & _).
  destruct (run_search_app0 T mode True pack (fun _ => Hpe) (fun _ => Hsym) F do_level expand_verified answers start ps more (fun _ => Hps))
    as ((W' & E' & _) & X & _).
  apply pres_of_truthful; auto.
Qed.
End Search.

(* [CODE BEFORE 59cdf67 (rec_getitem, own-parent rules only); the code as it is: C14_search_stored_rules_handed_back_x]
   COMPOSITION C04 -> C14 (RuleDB/SearchHist.v, C04_search_gives_add_hist): the hypotheses add_pre / pres of
   C14_stored_rule_is_handed_back hold for the histories SEARCHES produce.  For every run of the searcher model on a
   pruning database (any table honouring the contracts, start class, packets of pack strategies, answers, fuel -
   also a run that died), for every ruledb.add(start, ends, rule (sid, parent)) event in its trace - also one made
   in the middle of the last packet - : the call was made under add_pre in the class database d of that moment,
   and in the state the run is in NOW (class database cdb s) RuleDBForgetStrategy hands back, for the key k under
   which that call filed the rule, a strategy that reproduces k - from ANY store s2 still holding k (the key may
   have been deleted as a superseded one-way key) - provided a strategy q of the memory-saving database's pack
   `fpack` (or the empty strategy) produces the rule on the rule's OWN parent class (the open finding: a factory
   rule with a foreign parent is not covered, C14_every_stored_rule_handed_back_refuted).
   Not discharged: sym_unary (symmetry rules are unary: their record carries one label) and twoway_faithful for
   the table's rule objects (no factory item names a verification strategy: SearchHist.items_plain_faithful). *)
Theorem C14_search_stored_rules_handed_back : forall (T : table) (pack fpack : list Z),
  sym_unary T -> (forall sid0 c0 r, In r (rules_from_strategy T sid0 c0) -> twoway_faithful T r) ->
  pe_contract T pack -> sym_contract T ->
  forall F dl ev ans start ps, packets_in pack ps ->
  let s := run_search T 0 F dl ev ans start ps in
  forall start_label ends sid parent, In (EvAdd start_label ends sid parent) (trace s) ->
  exists d r cs, r_sid r = sid /\ r_parent r = parent /\ add_pre T d start_label ends r cs /\
    let k := stored_key T d start_label ends r cs in
    let oe := in_eqv (snd k) (r_two_way T r) in
    forall q, In q (-1 :: fpack) -> In r (cands T q parent) ->
    forall s2, r_mem k s2 = true ->
    exists d3 sid' p, rec_getitem T fpack oe s2 (cdb s) k = (d3, GOk sid' p) /\ reproduces T d3 sid' k = true.
Proof.
  intros T pack fpack Hu Hf Hp Hs F dl ev ans start ps Hps s sl ends sid parent Hin.
  destruct (search_gives_add_hist T 0 pack Hu Hf Hp Hs F dl ev ans start ps Hps eq_refl)
    as (a & l & A & B & _ & _ & D & _).
  assert (In (EvAdd sl ends sid parent) (adds_of (trace s))) as Hin' by (apply adds_of_In; split; [exact Hin|eauto]).
  fold s in D. rewrite D in Hin'. apply in_map_iff in Hin' as (x & Hx & Hxl).
  pose proof (add_hist_l_steps T l a A) as Hall. rewrite Forall_forall in Hall.
  destruct (Hall x Hxl) as (P1 & P2 & P3). unfold add_ev in Hx. injection Hx as <- <- <- <-.
  exists (h_d x), (h_r x), (h_cs x). split; [reflexivity|]. split; [reflexivity|]. split; [exact P1|].
  intros k oe q Hq Hc s2 Hm.
  destruct (rec_add_spec T (rec_init (h_d x)) (h_start x) (h_ends x) (h_r x) (h_cs x) fpack q P1 Hq Hc) as (_ & _ & Hgo).
  apply (Hgo (cdb s) s2); [|exact Hm].
  pose proof (run_sim T [HAdd (h_start x) (h_ends x) (h_r x)] _ _ (simdb_init (h_d x))) as (Hc' & _).
  cbn [dict_run rec_run gen_run fold_left gen_step] in Hc'. fold (dict_add T) in Hc'. fold (rec_add T) in Hc'.
  rewrite <- Hc'. fold s in B. rewrite <- B. exact P3.
Qed.

(* THE SAME with every table hypothesis and packets_in replaced by ONE boolean the extracted run_c14 evaluates on the
   table of every table-universe search it is compared on, with the packets the real queue handed out
   (Searcher/Deciders.v search_hyps_b = pe_contractb && sym_contractb && sym_unaryb && items_plainb && packets_inb;
   printed as the first bit of the element run_c14 appends to its output and compared with the harness's Python
   predicates on every such case).  A case where it is false is a case this theorem says nothing about. *)
Theorem C14_search_stored_rules_handed_back_decided : forall (T : table) (pack fpack : list Z),
  forall F dl ev ans start ps, Searcher.Deciders.search_hyps_b T pack ps = true ->
  let s := run_search T 0 F dl ev ans start ps in
  forall start_label ends sid parent, In (EvAdd start_label ends sid parent) (trace s) ->
  exists d r cs, r_sid r = sid /\ r_parent r = parent /\ add_pre T d start_label ends r cs /\
    let k := stored_key T d start_label ends r cs in
    let oe := in_eqv (snd k) (r_two_way T r) in
    forall q, In q (-1 :: fpack) -> In r (cands T q parent) ->
    forall s2, r_mem k s2 = true ->
    exists d3 sid' p, rec_getitem T fpack oe s2 (cdb s) k = (d3, GOk sid' p) /\ reproduces T d3 sid' k = true.
Proof.
  intros T pack fpack F dl ev ans start ps H.
  destruct (Searcher.Deciders.search_hyps_sound T pack ps H) as (A & B & C & D & E).
  exact (C14_search_stored_rules_handed_back T pack fpack A B C D F dl ev ans start ps E).
Qed.

(* =====================================================================================================
   3x. THE CODE AS IT IS (RecomputingDict.__getitem__ since fix 59cdf67): after the labels of the key, the pack is
   replayed on EVERY other label of the class database:  rec_getitem_x T (other_labels d k)  (= rec_getitem_all;
   this is what run_c14 evaluates with fallback = 1, the value the harness sends).  The replayed labels are ALL
   labels (C14_all_labels_replayed), so the candidates are the rules any strategy of the pack - or the empty
   strategy - produces on ANY labelled class:  is_cand_all T d pack r. *)
Theorem C14_all_labels_replayed : forall (d : cdbT) k l, labels_known d k ->
  (In l (key_labels k (other_labels d k)) <-> 0 <= l < nlabels d).
Proof. intros; apply key_labels_all; auto. Qed.

(* 3a_x. whatever it hands back reproduces the key (in the state d' the lookup left), comes from a strategy of the
   pack (or the empty strategy) applied to SOME labelled class, is two-way for the equivalence store, and the rule's
   parent is the class labelled fst k.  Any well-formed class database, store, key with known labels. *)
Theorem C14_recompute_reproduces_x : forall (T : table) pack only_equiv s d k d' sid p,
  WFd d -> labels_known d k ->
  rec_getitem_x T (other_labels d k) pack only_equiv s d k = (d', GOk sid p) ->
  reproduces T d' sid k = true /\ r_mem k s = true /\
  (exists r, is_cand_all T d pack r /\ r_sid r = sid /\ r_parent r = p /\
             (only_equiv = true -> r_two_way T r = true)) /\
  lbl d' p = Some (fst k).
Proof. intros T pack oe s d k d' sid p W Hk H. exact (recompute_all_reproduces T pack oe s d k d' sid p W Hk H). Qed.

(* 3b_x. it DOES hand a strategy back for a stored key whenever some strategy of the pack (or the empty strategy),
   applied to ANY labelled class, produces a rule that is filed under the key (two-way for the equivalence store) *)
Theorem C14_recompute_succeeds_x : forall (T : table) pack only_equiv s d k r,
  WFd d -> labels_known d k -> r_mem k s = true ->
  is_cand_all T d pack r -> key_of_rule T d r = Some k -> (only_equiv = true -> r_two_way T r = true) ->
  exists d' sid p, rec_getitem_x T (other_labels d k) pack only_equiv s d k = (d', GOk sid p).
Proof. intros T pack oe s d k r W Hk Hm Hc Hkr Htw. exact (recompute_all_succeeds T pack oe s d k r W Hk Hm Hc Hkr Htw). Qed.

(* 3c_x. exactly when it fails: KeyError iff the key is not stored (first conjunct: for ANY key, also one with
   labels the class database has never seen, and then nothing is touched); RuntimeError ("could not recompute") only
   if NO strategy of the pack (nor the empty strategy) produces, on ANY labelled class, a rule filed under the key;
   never any other exception *)
Theorem C14_recompute_outcomes_x : forall (T : table) pack only_equiv s d k,
  (r_mem k s = false -> rec_getitem_x T (other_labels d k) pack only_equiv s d k = (d, GKeyError)) /\
  (r_mem k s = true -> snd (rec_getitem_x T (other_labels d k) pack only_equiv s d k) <> GKeyError) /\
  (WFd d -> labels_known d k -> forall d' g,
   rec_getitem_x T (other_labels d k) pack only_equiv s d k = (d', g) ->
   match g with
   | GOk _ _ => r_mem k s = true
   | GKeyError => r_mem k s = false
   | GFail => r_mem k s = true /\
              forall r, is_cand_all T d pack r ->
                        ~ (key_of_rule T d r = Some k /\ (only_equiv = true -> r_two_way T r = true))
   | GErr _ => False
   end).
Proof.
  intros T pack oe s d k. split; [|split].
  - exact (proj1 (recompute_all_keyerror T pack oe s d k)).
  - exact (proj2 (recompute_all_keyerror T pack oe s d k)).
  - intros W Hk d' g H. exact (recompute_all_outcomes T pack oe s d k d' g W Hk H).
Qed.

(* side effects of a lookup (now on ANY labelled class: more is_empty cache fills, new labels for foreign parents):
   the class database only grows, and every class it knew keeps its label and its is_empty answer *)
Theorem C14_lookup_side_effects_x : forall (T : table) pack only_equiv s d k d' g,
  WFd d -> labels_known d k ->
  rec_getitem_x T (other_labels d k) pack only_equiv s d k = (d', g) ->
  WFd d' /\ extends d d' /\ (forall c l, lbl d c = Some l -> lbl d' c = Some l /\ empv T d' c = empv T d c).
Proof. intros T pack oe s d k d' g W Hk H. exact (recompute_all_side_effects T pack oe s d k d' g W Hk H). Qed.

(* the fix is conservative: whatever the lookup before 59cdf67 handed back (or whichever class-database exception
   ended it), the lookup with further labels replayed afterwards gives as well and leaves the same class database;
   only its RuntimeError can turn into something else *)
Theorem C14_fix_keeps_old_answers : forall (T : table) extra pack only_equiv s d k d' g,
  rec_getitem T pack only_equiv s d k = (d', g) -> g <> GFail ->
  rec_getitem_x T extra pack only_equiv s d k = (d', g).
Proof. intros; eapply rec_getitem_prefix; eauto. Qed.

(* 3e_x. RuleDBForgetStrategy.add under add_pre stores the key, and a lookup right after it - or in ANY later state
   that kept labels and is_empty answers, from any store still holding the key - hands back a strategy that
   reproduces it, provided a strategy q of the pack (or the empty strategy) produces the rule on SOME class c0 that
   carried a label when the rule was added.  NO restriction to the rule's own parent class: a rule a factory
   produced for another class is covered (the point of fix 59cdf67). *)
Theorem C14_stored_rule_is_handed_back_x : forall (T : table) b start ends r cs pack q c0 l0,
  add_pre T (b_cdb rstore_t b) start ends r cs ->
  In q (-1 :: pack) -> lbl (b_cdb rstore_t b) c0 = Some l0 -> In r (cands T q c0) ->
  let b1 := rec_add T b start ends r in
  let k := stored_key T (b_cdb rstore_t b) start ends r cs in
  let oe := in_eqv (snd k) (r_two_way T r) in
  let s := if oe then b_e rstore_t b1 else b_r rstore_t b1 in
  b_stat rstore_t b1 = 0 /\ r_mem k s = true /\
  forall d2 s2, pres T (b_cdb rstore_t b1) d2 -> r_mem k s2 = true ->
    exists d3 sid p, rec_getitem_x T (other_labels d2 k) pack oe s2 d2 k = (d3, GOk sid p) /\
                     reproduces T d3 sid k = true.
Proof. intros T b start ends r cs pack q c0 l0 H1 H2 H3 H4. exact (rec_add_spec_all T b start ends r cs pack q c0 l0 H1 H2 H3 H4). Qed.

(* COMPOSITION C04 -> C14 FOR THE CODE AS IT IS (RuleDB/SearchHist.v search_gives_add_hist_prov = C04_search_gives_add_hist
   plus the PROVENANCE of every step, carried by the invariant of the searcher model: Searcher/ProofsCore.v prov,
   Searcher/Proofs.v used).  For every run of the searcher model on a pruning database (any table honouring the
   contracts, start class, packets of pack strategies, is_verified answers, fuel - also a run that died), for EVERY
   ruledb.add(start, ends, rule (sid, parent)) event of its trace - also one made in the middle of the last packet,
   also a factory rule with a FOREIGN parent - : the call was made under add_pre in the class database d of that
   moment, and in the state the run is in NOW (class database cdb s) RuleDBForgetStrategy, replaying its pack `fpack`,
   hands back for the key k under which that call filed the rule a strategy that reproduces k - from ANY store s2
   still holding k (the key may have been deleted as a superseded one-way key).  No own-parent hypothesis, no
   hypothesis on where the rule came from: only that `fpack` (StrategyPack.__iter__) contains the strategies the
   searcher applies itself - those the queue hands out (pack), the verification strategies, the symmetries.
   Not discharged: sym_unary, twoway_faithful (decidable: Searcher/Deciders.v, see the _decided form). *)
Theorem C14_search_stored_rules_handed_back_x : forall (T : table) (pack fpack : list Z),
  sym_unary T -> (forall sid0 c0 r, In r (rules_from_strategy T sid0 c0) -> twoway_faithful T r) ->
  pe_contract T pack -> sym_contract T ->
  incl pack fpack -> incl (t_ver T) fpack -> incl (t_sym T) fpack ->
  forall F dl ev ans start ps, packets_in pack ps ->
  let s := run_search T 0 F dl ev ans start ps in
  forall start_label ends sid parent, In (EvAdd start_label ends sid parent) (trace s) ->
  exists d r cs, r_sid r = sid /\ r_parent r = parent /\ add_pre T d start_label ends r cs /\
    let k := stored_key T d start_label ends r cs in
    let oe := in_eqv (snd k) (r_two_way T r) in
    forall s2, r_mem k s2 = true ->
    exists d3 sid' p, rec_getitem_x T (other_labels (cdb s) k) fpack oe s2 (cdb s) k = (d3, GOk sid' p) /\
                      reproduces T d3 sid' k = true.
Proof.
  intros T pack fpack Hu Hf Hp Hs I1 I2 I3 F dl ev ans start ps Hps s sl ends sid parent Hin.
  destruct (search_gives_add_hist_prov T 0 pack Hu Hf Hp Hs F dl ev ans start ps Hps eq_refl)
    as (a & l & A & B & _ & _ & D & _ & _ & Hpv).
  assert (In (EvAdd sl ends sid parent) (adds_of (trace s))) as Hin' by (apply adds_of_In; split; [exact Hin|eauto]).
  fold s in D. rewrite D in Hin'. apply in_map_iff in Hin' as (x & Hx & Hxl).
  pose proof (add_hist_l_steps T l a A) as Hall. rewrite Forall_forall in Hall.
  destruct (Hall x Hxl) as (P1 & P2 & P3). rewrite Forall_forall in Hpv.
  destruct (Hpv x Hxl) as (q & c0 & l0 & Hq & Hl0 & Hc). unfold add_ev in Hx. injection Hx as <- <- <- <-.
  exists (h_d x), (h_r x), (h_cs x). split; [reflexivity|]. split; [reflexivity|]. split; [exact P1|].
  intros k oe s2 Hm.
  assert (In q (-1 :: fpack)) as Hq'.
  { destruct Hq as [->|[Hq|[Hq|Hq]]]; [left; reflexivity|right; auto..]. }
  destruct (rec_add_spec_all T (rec_init (h_d x)) (h_start x) (h_ends x) (h_r x) (h_cs x) fpack q c0 l0 P1 Hq' Hl0 Hc)
    as (_ & _ & Hgo).
  apply (Hgo (cdb s) s2); [|exact Hm].
  pose proof (run_sim T [HAdd (h_start x) (h_ends x) (h_r x)] _ _ (simdb_init (h_d x))) as (Hc' & _).
  cbn [dict_run rec_run gen_run fold_left gen_step] in Hc'. fold (dict_add T) in Hc'. fold (rec_add T) in Hc'.
  rewrite <- Hc'. fold s in B. rewrite <- B. exact P3.
Qed.

(* ... in particular for the keys the run's own stores hold NOW (the searcher model keeps the key lists of the
   default database; by C14_same_keys_same_answers the memory-saving database holds the same keys): every key of
   rstore s / estore s that an add event filed is looked up successfully in a store s2 holding exactly those keys *)
Theorem C14_search_own_stores_handed_back_x : forall (T : table) (pack fpack : list Z),
  sym_unary T -> (forall sid0 c0 r, In r (rules_from_strategy T sid0 c0) -> twoway_faithful T r) ->
  pe_contract T pack -> sym_contract T ->
  incl pack fpack -> incl (t_ver T) fpack -> incl (t_sym T) fpack ->
  forall F dl ev ans start ps, packets_in pack ps ->
  let s := run_search T 0 F dl ev ans start ps in
  forall start_label ends sid parent, In (EvAdd start_label ends sid parent) (trace s) ->
  exists d r cs, r_sid r = sid /\ r_parent r = parent /\ add_pre T d start_label ends r cs /\
    let k := stored_key T d start_label ends r cs in
    let oe := in_eqv (snd k) (r_two_way T r) in
    In k (if oe then estore s else rstore s) ->
    exists d3 sid' p,
      rec_getitem_x T (other_labels (cdb s) k) fpack oe (map flatten (if oe then estore s else rstore s)) (cdb s) k
        = (d3, GOk sid' p) /\ reproduces T d3 sid' k = true.
Proof.
  intros T pack fpack Hu Hf Hp Hs I1 I2 I3 F dl ev ans start ps Hps s sl ends sid parent Hin.
  destruct (C14_search_stored_rules_handed_back_x T pack fpack Hu Hf Hp Hs I1 I2 I3 F dl ev ans start ps Hps sl ends sid parent Hin)
    as (d & r & cs & A & B & C & D).
  exists d, r, cs. split; [exact A|]. split; [exact B|]. split; [exact C|].
  intros k oe Hk. apply D. apply r_mem_flat. apply in_map. exact Hk.
Qed.

(* THE SAME with every hypothesis replaced by TWO booleans the extracted run_c14 evaluates on the table of every
   table-universe search it is compared on (and on the tabulation of every word search), with the packets the real
   queue handed out and the pack order the memory-saving database replays: search_hyps_b (Searcher/Deciders.v, first
   bit of the element run_c14 appends) and fpack_coversb (RuleDB/Model.v, the element after it) *)
Theorem C14_search_stored_rules_handed_back_x_decided : forall (T : table) (pack fpack : list Z),
  forall F dl ev ans start ps, Searcher.Deciders.search_hyps_b T pack ps = true -> fpack_coversb T pack fpack = true ->
  let s := run_search T 0 F dl ev ans start ps in
  forall start_label ends sid parent, In (EvAdd start_label ends sid parent) (trace s) ->
  exists d r cs, r_sid r = sid /\ r_parent r = parent /\ add_pre T d start_label ends r cs /\
    let k := stored_key T d start_label ends r cs in
    let oe := in_eqv (snd k) (r_two_way T r) in
    forall s2, r_mem k s2 = true ->
    exists d3 sid' p, rec_getitem_x T (other_labels (cdb s) k) fpack oe s2 (cdb s) k = (d3, GOk sid' p) /\
                      reproduces T d3 sid' k = true.
Proof.
  intros T pack fpack F dl ev ans start ps H Hc.
  destruct (Searcher.Deciders.search_hyps_sound T pack ps H) as (A & B & C & D & E).
  destruct (proj1 (fpack_coversb_spec T pack fpack) Hc) as (I1 & I2 & I3).
  exact (C14_search_stored_rules_handed_back_x T pack fpack A B C D I1 I2 I3 F dl ev ans start ps E).
Qed.

(* The searcher model of C04 uses the DictStore database: one ruledb.add of Searcher/Model.v (base_add, key
   lists rstore / estore) and dict_add do the same to the class database and to the two key sets; when the class
   database raises, both leave the stores alone.  This is the ONE-STEP lemma; it is iterated over the whole run of
   the searcher model in RuleDB/SearchHist.v (C04_search_gives_add_hist: every run produces an add_hist history, each
   ruledb.add made under add_pre at call time), which C14_search_stored_rules_handed_back above uses. *)
Theorem C14_searcher_model_uses_dict_store : forall (T : table) s a start ends r cs,
  running s = true -> rule_children T r = Some cs ->
  b_cdb dstore a = cdb s -> d_keys (b_r dstore a) = rstore s -> d_keys (b_e dstore a) = estore s ->
  let s' := base_add T s start ends r in
  let a' := dict_add T a start ends r in
  if running s' then
    b_stat dstore a' = 0 /\ b_cdb dstore a' = cdb s' /\
    d_keys (b_r dstore a') = rstore s' /\ d_keys (b_e dstore a') = estore s'
  else
    b_stat dstore a' <> 0 /\ b_r dstore a' = b_r dstore a /\ b_e dstore a' = b_e dstore a /\
    rstore s' = rstore s /\ estore s' = estore s.
Proof. intros; eapply base_add_is_dict_add; eauto. Qed.

(* [HISTORIC: witness of the code BEFORE fix 59cdf67; its last conjunct shows what the code does now.]
   The unconditional statement "every stored rule of a non-empty class can be looked up in the
   memory-saving database" WAS FALSE of the faithful model of the code before 59cdf67: a factory applied to class 0 yields the
   ready rule  S(1) -> (2,)  (a rule with a foreign parent; the searcher records it under the label
   of class 1: C04).  The dict hands strategy 0 back and it reproduces the key; RecomputingDict
   replayed the pack on classes 1 and 2 only and raised RuntimeError.  Replayed on the real code of that time:
   findings/forget_foreign_parent.py (known finding, FIXED by 59cdf67). *)
Definition fp_table : table :=
  mkT [0; 0; 0]
      [ mkS 0 false true false true [(1, mkE [2] true true [0])] [];           (* 0: plain strategy, hidden *)
        mkS 1 false true true true [] [(0, [mkI 0 (Some 1) false])] ]            (* 1: factory *)
      [] [].
Definition fp_cdb : cdbT := mk [0; 1; 2] [(0, 0); (1, 1); (2, 2)] [None; None; None] 0.

Theorem C14_every_stored_rule_handed_back_refuted :
  exists (T : table) (pack : list Z) (d : cdbT) start ends r cs,
    add_pre T d start ends r cs /\ kind_ok T r /\ oracle T (r_parent r) = false /\
    (exists c0 l0, lbl d c0 = Some l0 /\ In r (cands T 1 c0)) /\
    let k := stored_key T d start ends r cs in
    let A := dict_add T (dict_init d) start ends r in
    let B := rec_add T (rec_init d) start ends r in
    d_get k (b_e dstore A) = Some (r_sid r) /\ reproduces T (b_cdb dstore A) (r_sid r) k = true /\
    r_mem k (b_e rstore_t B) = true /\
    snd (rec_getitem T pack true (b_e rstore_t B) (b_cdb rstore_t B) k) = GFail /\
    snd (rec_getitem_x T [0] pack true (b_e rstore_t B) (b_cdb rstore_t B) k) = GOk 0 1.
Proof.
  exists fp_table, [1], fp_cdb, 1, [2], (mkR 0 1 RPlain), [2].
  split; [|split; [|split; [|split]]].
  - unfold add_pre. split; [|split; [reflexivity|split; [reflexivity|repeat constructor]]].
    unfold WF; simpl. split; [reflexivity|split; [reflexivity|]].
    repeat constructor; simpl; intuition discriminate.
  - intros H; discriminate.
  - reflexivity.
  - exists 0, 0. split; [reflexivity|]. vm_compute. left; reflexivity.
  - vm_compute. repeat split; reflexivity.
Qed.

(* non-vacuity: a history in which a two-way rule supersedes a stored one-way key, an empty child of a
   possibly_empty rule is dropped, a verification rule is stored, and both databases are asked *)
Definition nv_table : table :=
  mkT [0; 0; 1; 0]
      [ mkS 2 false false false false [(3, mkE [] false false [])] [];                               (* 0: verification *)
        mkS 0 false true true true [(0, mkE [1; 2] false true [0; 0]); (1, mkE [3; 3] false false [0; 0])] [];  (* 1: possibly_empty *)
        mkS 0 false true false true [(1, mkE [0] true true [0])] [] ]                                (* 2: two-way *)
      [0] [].
Definition nv_cdb : cdbT := mk [0; 1; 2; 3] [(0, 0); (1, 1); (2, 2); (3, 3)] [None; None; None; None] 0.
Definition nv_hist : list hop :=
  [ HAdd 0 [1; 2] (mkR 1 0 RPlain);      (* 0 -> (1, empty 2): stored one-way as (0, (1,)) *)
    HAdd 1 [3; 3] (mkR 1 1 RPlain);      (* 1 -> (3, 3) *)
    HAdd 3 [] (mkR 0 3 RVer);            (* 3 verified *)
    HAdd 1 [0] (mkR 2 1 RPlain) ].       (* 1 <-> 0 two-way: supersedes (0, (1,)) *)

Example C14_nonvacuous :
  let A := dict_run nv_table (dict_init nv_cdb) nv_hist in
  let B := rec_run nv_table (rec_init nv_cdb) nv_hist in
  d_keys (b_r dstore A) = [(1, [3; 3]); (3, [])] /\ d_keys (b_e dstore A) = [(1, [0])] /\
  r_keys (b_r rstore_t B) = [(1, [3; 3]); (3, [])] /\ b_stop dstore A = [2] /\
  rev (b_eq dstore A) = [EqEdge false 0 1; EqVerified 3; EqEdge true 1 0] /\
  rec_contains B 1 [3; 3] = true /\ rec_contains B 0 [1] = false /\
  snd (rec_getitem nv_table [1; 0; 2] false (b_r rstore_t B) (b_cdb rstore_t B) (1, [3; 3])) = GOk 1 1 /\
  snd (rec_getitem nv_table [1; 0; 2] true (b_e rstore_t B) (b_cdb rstore_t B) (1, [0])) = GOk 2 1 /\
  snd (rec_getitem nv_table [1; 0; 2] false (b_r rstore_t B) (b_cdb rstore_t B) (0, [1])) = GKeyError /\
  db_has_spec (fun l => if l =? 1 then 0 else l) (d_keys (b_r dstore A)) (d_keys (b_e dstore A)) 0 false = Some true.
Proof. vm_compute. repeat split; reflexivity. Qed.

Example C14_nonvacuous_add_pre :
  add_pre nv_table nv_cdb 0 [1; 2] (mkR 1 0 RPlain) [1; 2] /\ kind_ok nv_table (mkR 1 0 RPlain) /\
  In 1 (-1 :: [1; 0; 2]) /\ In (mkR 1 0 RPlain) (cands nv_table 1 0).
Proof.
  split; [|split; [intros H; discriminate|split; [right; left; reflexivity|vm_compute; left; reflexivity]]].
  unfold add_pre. split; [|split; [reflexivity|split; [reflexivity|repeat constructor]]].
  unfold WF; simpl. split; [reflexivity|split; [reflexivity|]].
  repeat constructor; simpl; intuition discriminate.
Qed.

(* ------------------------------------------------------------------------
   NON-VACUITY (audit): every theorem of this file APPLIED to concrete instances: the table nv_table
   (3 strategies: verification, possibly_empty, two-way) with the 4-step history nv_hist, and the
   foreign-parent table fp_table of the open finding. *)
Definition nvA := dict_run nv_table (dict_init nv_cdb) nv_hist.
Definition nvB := rec_run nv_table (rec_init nv_cdb) nv_hist.
Definition nv_pack : list Z := [1; 0; 2].
(* the class database after 1 event and at the end of the history (computed) *)
Definition nvd1 : cdbT := mk [0; 1; 2; 3] [(0, 0); (1, 1); (2, 2); (3, 3)] [None; Some false; Some true; None] 2.
Definition nvd : cdbT := mk [0; 1; 2; 3] [(0, 0); (1, 1); (2, 2); (3, 3)] [None; Some false; Some true; Some false] 3.
Example nvd1_is : b_cdb rstore_t (rec_run nv_table (rec_init nv_cdb) (firstn 1 nv_hist)) = nvd1.
Proof. vm_compute; reflexivity. Qed.
Example nvd_is : b_cdb rstore_t nvB = nvd /\ b_cdb dstore nvA = nvd.
Proof. split; vm_compute; reflexivity. Qed.

Ltac wf_concrete :=
  unfold WF; simpl; split; [reflexivity|split; [reflexivity|]];
  repeat constructor; simpl; intuition discriminate.
Lemma WF_nv_cdb : WFd nv_cdb. Proof. wf_concrete. Qed.
Lemma WF_nvd1 : WFd nvd1. Proof. wf_concrete. Qed.
Lemma WF_nvd : WFd nvd. Proof. wf_concrete. Qed.
Lemma WF_fp_cdb : WFd fp_cdb. Proof. wf_concrete. Qed.
Ltac known_concrete :=
  intros l Hl; simpl in Hl;
  repeat (destruct Hl as [<-|Hl]; [split; [apply Z.leb_le|apply Z.ltb_lt]; vm_compute; reflexivity|]);
  destruct Hl.
Ltac emptyok_concrete :=
  intros i k b H1 H2;
  do 5 (try (destruct i as [|i]; [simpl in H1, H2; try discriminate;
                                  injection H1 as <-; injection H2 as <-; reflexivity|]));
  destruct i; discriminate.
Lemma EOK_nvd1 : EmptyOK (fun k : Z => k) (oracle nv_table) nvd1. Proof. emptyok_concrete. Qed.
Lemma EOK_nvd : EmptyOK (fun k : Z => k) (oracle nv_table) nvd. Proof. emptyok_concrete. Qed.

(* covers C14_same_keys_same_answers: the memory-saving store iterated in ANOTHER order and with a
   duplicate gives the same has_specification answer as the dict store; and the two stores hold the
   same (non-empty) key lists *)
Example C14_same_keys_same_answers_nonvacuous :
  let rep := fun l => if l =? 1 then 0 else l in
  db_has_spec rep [(3, []); (1, [3; 3]); (3, [])] [(1, [0])] 0 false =
  db_has_spec rep (d_keys (b_r dstore nvA)) (d_keys (b_e dstore nvA)) 0 false /\
  r_keys (b_r rstore_t nvB) = d_keys (b_r dstore nvA) /\ d_keys (b_r dstore nvA) = [(1, [3; 3]); (3, [])] /\
  rec_contains nvB 1 [3; 3] = dict_contains nvA 1 [3; 3].
Proof.
  destruct (C14_same_keys_same_answers nv_table nv_cdb nv_hist) as (H1 & _ & _ & _ & _ & _ & _ & _ & H9 & H10).
  intros rep. split; [|split; [exact H1|split; [vm_compute; reflexivity|apply H9]]].
  apply H10; intros k; vm_compute; tauto.
Qed.

(* covers C14_contains: a stored pair (asked with unsorted ends) and a superseded one *)
Example C14_contains_nonvacuous :
  In (1, isort [3; 3]) (r_keys (b_r rstore_t nvB) ++ r_keys (b_e rstore_t nvB)) /\
  In (3, isort []) (d_keys (b_r dstore nvA) ++ d_keys (b_e dstore nvA)) /\
  ~ In (0, isort [1]) (r_keys (b_r rstore_t nvB) ++ r_keys (b_e rstore_t nvB)).
Proof.
  split; [|split].
  - apply (proj2 (C14_contains nv_table nv_cdb nv_hist 1 [3; 3])). vm_compute; reflexivity.
  - apply (proj1 (C14_contains nv_table nv_cdb nv_hist 3 [])). vm_compute; reflexivity.
  - intros H. apply (proj2 (C14_contains nv_table nv_cdb nv_hist 0 [1])) in H. vm_compute in H. discriminate.
Qed.

(* covers C14_recompute_reproduces: the equivalence store, asked for the two-way key (1, (0,)), hands
   back strategy 2 on class 1 *)
Lemma nv_known_10 : labels_known nvd (1, [0]). Proof. known_concrete. Qed.
Lemma nv_known_133 : labels_known nvd (1, [3; 3]). Proof. known_concrete. Qed.
Example C14_recompute_reproduces_nonvacuous :
  let d' := fst (rec_getitem nv_table nv_pack true (b_e rstore_t nvB) nvd (1, [0])) in
  reproduces nv_table d' 2 (1, [0]) = true /\ r_mem (1, [0]) (b_e rstore_t nvB) = true /\
  (exists r, is_cand nv_table nvd nv_pack (1, [0]) r /\ r_sid r = 2 /\ r_parent r = 1 /\
             (true = true -> r_two_way nv_table r = true)) /\
  lbl d' 1 = Some (fst (1, [0])).
Proof.
  apply (C14_recompute_reproduces nv_table nv_pack true (b_e rstore_t nvB) nvd (1, [0]) _ 2 1 WF_nvd nv_known_10).
  vm_compute; reflexivity.
Qed.

(* covers C14_recompute_succeeds: same key, the candidate is the rule of strategy 2 on class 1 *)
Example C14_recompute_succeeds_nonvacuous :
  exists d' sid p, rec_getitem nv_table nv_pack true (b_e rstore_t nvB) nvd (1, [0]) = (d', GOk sid p).
Proof.
  apply (C14_recompute_succeeds nv_table nv_pack true (b_e rstore_t nvB) nvd (1, [0]) (mkR 2 1 RPlain)
           WF_nvd nv_known_10).
  - vm_compute; reflexivity.
  - exists 1, 1, 2. split; [left; reflexivity|]. split; [reflexivity|]. split; [vm_compute; auto|].
    vm_compute. left; reflexivity.
  - vm_compute; reflexivity.
  - intros _. vm_compute; reflexivity.
Qed.
(* ... for the plain store and a possibly_empty rule with a repeated child *)
Example C14_recompute_succeeds_nonvacuous_plain :
  exists d' sid p, rec_getitem nv_table nv_pack false (b_r rstore_t nvB) nvd (1, [3; 3]) = (d', GOk sid p).
Proof.
  apply (C14_recompute_succeeds nv_table nv_pack false (b_r rstore_t nvB) nvd (1, [3; 3]) (mkR 1 1 RPlain)
           WF_nvd nv_known_133).
  - vm_compute; reflexivity.
  - exists 1, 1, 1. split; [left; reflexivity|]. split; [reflexivity|]. split; [vm_compute; auto|].
    vm_compute. left; reflexivity.
  - vm_compute; reflexivity.
  - discriminate.
Qed.

(* covers C14_recompute_outcomes, all three possible outcomes: GOk (stored key), GKeyError (the
   superseded key (0, (1,))), GFail (the foreign-parent key of the open finding) *)
Lemma nv_known_01 : labels_known nvd (0, [1]). Proof. known_concrete. Qed.
Definition fpB := rec_add fp_table (rec_init fp_cdb) 1 [2] (mkR 0 1 RPlain).
Lemma fp_known_12 : labels_known fp_cdb (1, [2]). Proof. known_concrete. Qed.
Example C14_recompute_outcomes_nonvacuous :
  r_mem (1, [3; 3]) (b_r rstore_t nvB) = true /\
  r_mem (0, [1]) (b_r rstore_t nvB) = false /\
  (r_mem (1, [2]) (b_e rstore_t fpB) = true /\
   forall r, is_cand fp_table fp_cdb [1] (1, [2]) r ->
             ~ (key_of_rule fp_table fp_cdb r = Some (1, [2]) /\ (true = true -> r_two_way fp_table r = true))).
Proof.
  split; [|split].
  - apply (C14_recompute_outcomes nv_table nv_pack false (b_r rstore_t nvB) nvd (1, [3; 3]) nvd (GOk 1 1)
             WF_nvd nv_known_133). vm_compute; reflexivity.
  - apply (C14_recompute_outcomes nv_table nv_pack false (b_r rstore_t nvB) nvd (0, [1]) nvd GKeyError
             WF_nvd nv_known_01). vm_compute; reflexivity.
  - apply (C14_recompute_outcomes fp_table [1] true (b_e rstore_t fpB) fp_cdb (1, [2]) fp_cdb GFail
             WF_fp_cdb fp_known_12). vm_compute; reflexivity.
Qed.

(* covers C14_lookup_side_effects: a lookup that DOES change the class database (it fills the
   emptiness cache of class 3): the database only grows and the known classes keep label and answer *)
Lemma nv_known_133' : labels_known nv_cdb (1, [3; 3]). Proof. known_concrete. Qed.
Example C14_lookup_side_effects_nonvacuous :
  let d' := fst (rec_getitem nv_table nv_pack false [[1; 3; 3]] nv_cdb (1, [3; 3])) in
  d' <> nv_cdb /\
  WFd d' /\ extends nv_cdb d' /\
  (forall c l, lbl nv_cdb c = Some l -> lbl d' c = Some l /\ empv nv_table d' c = empv nv_table nv_cdb c).
Proof.
  intros d'. split; [vm_compute; discriminate|].
  apply (C14_lookup_side_effects nv_table nv_pack false [[1; 3; 3]] nv_cdb (1, [3; 3]) d' (GOk 1 1)
           WF_nv_cdb nv_known_133').
  vm_compute; reflexivity.
Qed.

(* covers C14_dict_add_reproduces: RuleDB.add of  S1(0) -> (1, 2)  (class 2 empty, dropped): key (0, (1,)) *)
Example C14_dict_add_reproduces_nonvacuous :
  let a1 := dict_add nv_table (dict_init nv_cdb) 0 [1; 2] (mkR 1 0 RPlain) in
  let k := stored_key nv_table nv_cdb 0 [1; 2] (mkR 1 0 RPlain) [1; 2] in
  b_stat dstore a1 = 0 /\ pres nv_table nv_cdb (b_cdb dstore a1) /\
  key_of_rule nv_table (b_cdb dstore a1) (mkR 1 0 RPlain) = Some k /\
  d_get k (if in_eqv (snd k) (r_two_way nv_table (mkR 1 0 RPlain)) then b_e dstore a1 else b_r dstore a1)
    = Some 1 /\
  reproduces nv_table (b_cdb dstore a1) 1 k = true.
Proof.
  exact (C14_dict_add_reproduces nv_table (dict_init nv_cdb) 0 [1; 2] (mkR 1 0 RPlain) [1; 2]
           (proj1 C14_nonvacuous_add_pre) (proj1 (proj2 C14_nonvacuous_add_pre))).
Qed.
Example C14_dict_add_reproduces_key :
  stored_key nv_table nv_cdb 0 [1; 2] (mkR 1 0 RPlain) [1; 2] = (0, [1]).
Proof. vm_compute; reflexivity. Qed.

(* covers C14_truthful_caches_keep_answers: the class database after 1 and after 4 events of nv_hist
   (two resp. three cached answers, all truthful) *)
Example C14_truthful_caches_keep_answers_nonvacuous : pres nv_table nvd1 nvd.
Proof.
  apply (C14_truthful_caches_keep_answers nv_table nvd1 nvd WF_nvd1 WF_nvd).
  - exists []. reflexivity.
  - exact EOK_nvd1.
  - exact EOK_nvd.
Qed.

(* covers C14_stored_rule_is_handed_back: RuleDBForgetStrategy.add of the same rule, then a lookup
   THREE events later (class database nvd, a store that holds two more keys) *)
Example C14_stored_rule_is_handed_back_nonvacuous :
  exists d3 sid p,
    rec_getitem nv_table nv_pack false [[1; 3; 3]; [0; 1]; [3]] nvd (0, [1]) = (d3, GOk sid p) /\
    reproduces nv_table d3 sid (0, [1]) = true.
Proof.
  destruct (C14_stored_rule_is_handed_back nv_table (rec_init nv_cdb) 0 [1; 2] (mkR 1 0 RPlain) [1; 2] nv_pack 1
              (proj1 C14_nonvacuous_add_pre)) as (_ & _ & H).
  - right; left; reflexivity.
  - vm_compute. left; reflexivity.
  - change (stored_key nv_table (b_cdb rstore_t (rec_init nv_cdb)) 0 [1; 2] (mkR 1 0 RPlain) [1; 2])
      with (stored_key nv_table nv_cdb 0 [1; 2] (mkR 1 0 RPlain) [1; 2]) in H.
    rewrite C14_dict_add_reproduces_key in H.
    apply (H nvd [[1; 3; 3]; [0; 1]; [3]]).
    + replace (b_cdb rstore_t (rec_add nv_table (rec_init nv_cdb) 0 [1; 2] (mkR 1 0 RPlain))) with nvd1
        by (vm_compute; reflexivity).
      exact C14_truthful_caches_keep_answers_nonvacuous.
    + vm_compute; reflexivity.
Qed.
Example C14_stored_rule_is_handed_back_value :
  snd (rec_getitem nv_table nv_pack false [[1; 3; 3]; [0; 1]; [3]] nvd (0, [1])) = GOk 1 0.
Proof. vm_compute; reflexivity. Qed.

(* covers C14_repair_reproduces: the repaired lookup on the foreign-parent instance (extra label 0) *)
Example C14_repair_reproduces_nonvacuous :
  let d' := fst (rec_getitem_x fp_table [0] [1] true (b_e rstore_t fpB) fp_cdb (1, [2])) in
  reproduces fp_table d' 0 (1, [2]) = true /\ r_mem (1, [2]) (b_e rstore_t fpB) = true /\
  (exists r, is_cand_in fp_table (key_labels (1, [2]) [0]) fp_cdb [1] r /\ r_sid r = 0 /\ r_parent r = 1 /\
             (true = true -> r_two_way fp_table r = true)) /\
  lbl d' 1 = Some (fst (1, [2])).
Proof.
  apply (C14_repair_reproduces fp_table [0] [1] true (b_e rstore_t fpB) fp_cdb (1, [2]) _ 0 1 WF_fp_cdb).
  - known_concrete.
  - vm_compute; reflexivity.
Qed.

(* covers C14_repair_hands_back: the same instance through add *)
Lemma fp_add_pre : add_pre fp_table fp_cdb 1 [2] (mkR 0 1 RPlain) [2].
Proof. split; [exact WF_fp_cdb|split; [reflexivity|split; [reflexivity|repeat constructor]]]. Qed.
Example C14_repair_hands_back_nonvacuous :
  exists d3 sid p,
    rec_getitem_x fp_table [0] [1] true (b_e rstore_t fpB) fp_cdb (1, [2]) = (d3, GOk sid p) /\
    reproduces fp_table d3 sid (1, [2]) = true.
Proof.
  destruct (C14_repair_hands_back fp_table (rec_init fp_cdb) 1 [2] (mkR 0 1 RPlain) [2] [1] 1 0 0 fp_add_pre)
    as (_ & _ & H).
  - right; left; reflexivity.
  - reflexivity.
  - vm_compute. left; reflexivity.
  - apply (H [0] fp_cdb (b_e rstore_t fpB)).
    + apply pres_refl. exact WF_fp_cdb.
    + vm_compute; reflexivity.
    + known_concrete.
    + vm_compute. auto.
Qed.

(* covers C14_searcher_model_uses_dict_store: the searcher state and the DictStore database both hold
   the one-way key (0, (1,)); ruledb.add of the two-way rule  S2(1) <-> (0,)  deletes it and stores
   (1, (0,)) as an equivalence - in both *)
Definition nv_s : st := mkSt nvd [] [] [] [] [] [(0, [1]); (1, [3; 3])] [] [] [] Running.
Definition nv_a : dbst dstore := mkDB dstore nvd [((0, [1]), 1); ((1, [3; 3]), 1)] [] [] [] 0.
Example C14_searcher_model_uses_dict_store_nonvacuous :
  let s' := base_add nv_table nv_s 1 [0] (mkR 2 1 RPlain) in
  let a' := dict_add nv_table nv_a 1 [0] (mkR 2 1 RPlain) in
  b_stat dstore a' = 0 /\ b_cdb dstore a' = cdb s' /\
  d_keys (b_r dstore a') = rstore s' /\ d_keys (b_e dstore a') = estore s' /\
  rstore s' = [(1, [3; 3])] /\ estore s' = [(1, [0])].
Proof.
  intros s' a'.
  pose proof (C14_searcher_model_uses_dict_store nv_table nv_s nv_a 1 [0] (mkR 2 1 RPlain) [0]
                eq_refl eq_refl eq_refl eq_refl eq_refl) as H.
  cbv zeta in H. fold s' a' in H.
  replace (running s') with true in H by (vm_compute; reflexivity).
  destruct H as (H1 & H2 & H3 & H4).
  split; [exact H1|split; [exact H2|split; [exact H3|split; [exact H4|split; vm_compute; reflexivity]]]].
Qed.

(* covers C14_has_specification_marks_same_labels: the set store iterated in another order, with a
   duplicate; the pruned dictionaries are non-trivial (labels 0, 1, 3 are kept, label 2 is not) *)
Example C14_has_specification_marks_same_labels_nonvacuous :
  let rep := fun l => if l =? 1 then 0 else l in
  exists pa pb,
    Tree.Model.pruned_dict rep (d_keys (b_r dstore nvA) ++ d_keys (b_e dstore nvA)) 0 false = Some pa /\
    Tree.Model.pruned_dict rep ([(3, []); (1, [3; 3]); (3, [])] ++ [(1, [0])]) 0 false = Some pb /\
    forall l, Tree.Model.has_key pa l = Tree.Model.has_key pb l.
Proof.
  intros rep.
  apply (C14_has_specification_marks_same_labels nv_table nv_cdb nv_hist rep 0 false
           [(3, []); (1, [3; 3]); (3, [])] [(1, [0])]); intros k; vm_compute; tauto.
Qed.
Example C14_has_specification_marks_same_labels_value :
  let rep := fun l => if l =? 1 then 0 else l in
  match Tree.Model.pruned_dict rep ([(3, []); (1, [3; 3]); (3, [])] ++ [(1, [0])]) 0 false with
  | Some pb => map (Tree.Model.has_key pb) [0; 2; 3] = [true; false; true]
  | None => False
  end.
Proof. vm_compute. reflexivity. Qed.

(* covers C14_search_states_keep_answers: a search (the table of C04's non-vacuity example: verification,
   possibly_empty, factory with a foreign-parent rule, hidden strategy, symmetry; class 2 empty) honouring
   both contracts, its class database after one packet (4 classes) and after two (5 classes) *)
Definition se_table : table :=
  mkT [0; 0; 1; 0; 0]
      [ mkS 2 false false false false [(3, mkE [] false false [])] [];
        mkS 0 false true true true [(0, mkE [1; 2] false true [0; 1]); (1, mkE [1] true true [0])] [];
        mkS 1 false true true true [] [(0, [mkI 1 None false; mkI 3 (Some 1) false; mkI 3 (Some 4) true])];
        mkS 0 false true false true [(1, mkE [3] true true [1])] [];
        mkS 3 false false false false [(0, mkE [4] true true [0])] [] ]
      [0] [4].
Definition se_pack : list Z := [1; 2].
Lemma se_pe_contract : pe_contract se_table se_pack.
Proof. apply (proj1 (proj1 (contractsb_spec se_table se_pack) eq_refl)). Qed.
Lemma se_sym_contract : sym_contract se_table.
Proof. apply (proj2 (proj1 (contractsb_spec se_table se_pack) eq_refl)). Qed.
Lemma se_sym_unary : sym_unary se_table.
Proof. apply (proj1 (sym_unaryb_spec se_table)). reflexivity. Qed.
Lemma se_faithful : forall sid0 c0 r, In r (rules_from_strategy se_table sid0 c0) -> twoway_faithful se_table r.
Proof. apply items_plain_faithful. reflexivity. Qed.
Lemma se_packets : packets_in se_pack ([mkP 0 [1] false] ++ [mkP 0 [2] false]).
Proof. apply (proj1 (packets_inb_spec se_pack _)). reflexivity. Qed.
Definition se_ans : list bool := [false; false; false; false; false; false; false; false].
Example C14_search_states_keep_answers_nonvacuous :
  pres se_table (cdb (run_search se_table 0 20 false true se_ans 0 [mkP 0 [1] false]))
                (cdb (run_search se_table 0 20 false true se_ans 0 ([mkP 0 [1] false] ++ [mkP 0 [2] false]))).
Proof.
  apply (C14_search_states_keep_answers se_table 0 20 false true se_ans 0 se_pack se_pe_contract se_sym_contract).
  exact se_packets.
Qed.
Example C14_search_states_keep_answers_states :
  classes (cdb (run_search se_table 0 20 false true se_ans 0 [mkP 0 [1] false])) = [0; 4; 1; 2] /\
  empties (cdb (run_search se_table 0 20 false true se_ans 0 [mkP 0 [1] false])) =
    [Some false; Some false; Some false; Some true] /\
  classes (cdb (run_search se_table 0 20 false true se_ans 0 [mkP 0 [1] false; mkP 0 [2] false])) = [0; 4; 1; 2; 3].
Proof. repeat split; vm_compute; reflexivity. Qed.

(* covers C14_search_stored_rules_handed_back: the add  S1(0) -> (1, 2)  of the first packet (class 2 empty, strategy 1
   possibly_empty: filed under (0, (2,))), looked up in the state after BOTH packets with the pack [1; 2; 3] of the
   memory-saving database: handed back and reproducing *)
Example C14_search_stored_rules_handed_back_nonvacuous :
  let s := run_search se_table 0 20 false true se_ans 0 ([mkP 0 [1] false] ++ [mkP 0 [2] false]) in
  exists d r cs, r_sid r = 1 /\ r_parent r = 0 /\ add_pre se_table d 0 [2; 3] r cs /\
    let k := stored_key se_table d 0 [2; 3] r cs in
    let oe := in_eqv (snd k) (r_two_way se_table r) in
    forall q, In q (-1 :: [1; 2; 3]) -> In r (cands se_table q 0) ->
    forall s2, r_mem k s2 = true ->
    exists d3 sid' p, rec_getitem se_table [1; 2; 3] oe s2 (cdb s) k = (d3, GOk sid' p) /\ reproduces se_table d3 sid' k = true.
Proof.
  apply (C14_search_stored_rules_handed_back se_table se_pack [1; 2; 3] se_sym_unary se_faithful se_pe_contract se_sym_contract
           20%nat false true se_ans 0 _ se_packets 0 [2; 3] 1 0).
  vm_compute; repeat (first [left; reflexivity | right]).
Qed.

(* ------------------------------------------------------------------------
   THE CODE AS IT IS (section 3x) applied: the foreign-parent table fp_table (a factory applied to class 0 yields
   the ready rule S0(1) -> (2,); the memory-saving database replays pack [1] = the factory only; the key (1, (2,))
   does not contain label 0) and the search on se_table. *)
Lemma fp_other : other_labels fp_cdb (1, [2]) = [0]. Proof. vm_compute; reflexivity. Qed.

(* covers C14_all_labels_replayed *)
Example C14_all_labels_replayed_nonvacuous : In 0 (key_labels (1, [2]) (other_labels fp_cdb (1, [2]))) /\
  ~ In 3 (key_labels (1, [2]) (other_labels fp_cdb (1, [2]))).
Proof.
  split.
  - apply (proj2 (C14_all_labels_replayed fp_cdb (1, [2]) 0 fp_known_12)). unfold nlabels, zlen; simpl; lia.
  - intros H. apply (proj1 (C14_all_labels_replayed fp_cdb (1, [2]) 3 fp_known_12)) in H. unfold nlabels, zlen in H; simpl in H; lia.
Qed.

(* covers C14_recompute_reproduces_x: the foreign-parent key IS handed back by the code as it is: strategy 0, found
   by the factory 1 on class 0 (label 0 is not in the key) *)
Example C14_recompute_reproduces_x_nonvacuous :
  let d' := fst (rec_getitem_x fp_table (other_labels fp_cdb (1, [2])) [1] true (b_e rstore_t fpB) fp_cdb (1, [2])) in
  reproduces fp_table d' 0 (1, [2]) = true /\ r_mem (1, [2]) (b_e rstore_t fpB) = true /\
  (exists r, is_cand_all fp_table fp_cdb [1] r /\ r_sid r = 0 /\ r_parent r = 1 /\
             (true = true -> r_two_way fp_table r = true)) /\
  lbl d' 1 = Some (fst (1, [2])).
Proof.
  apply (C14_recompute_reproduces_x fp_table [1] true (b_e rstore_t fpB) fp_cdb (1, [2]) _ 0 1 WF_fp_cdb fp_known_12).
  vm_compute; reflexivity.
Qed.

(* covers C14_recompute_succeeds_x: the candidate is the factory's ready rule, produced on class 0 *)
Example C14_recompute_succeeds_x_nonvacuous :
  exists d' sid p, rec_getitem_x fp_table (other_labels fp_cdb (1, [2])) [1] true (b_e rstore_t fpB) fp_cdb (1, [2])
                   = (d', GOk sid p).
Proof.
  apply (C14_recompute_succeeds_x fp_table [1] true (b_e rstore_t fpB) fp_cdb (1, [2]) (mkR 0 1 RPlain)
           WF_fp_cdb fp_known_12).
  - vm_compute; reflexivity.
  - exists 0, 0, 1. split; [reflexivity|]. split; [right; left; reflexivity|]. vm_compute. left; reflexivity.
  - vm_compute; reflexivity.
  - intros _. vm_compute; reflexivity.
Qed.

(* covers C14_recompute_outcomes_x, every outcome: KeyError for a key that is not stored - also one with labels the
   class database never saw -; not KeyError for a stored one; GOk for the foreign-parent key; RuntimeError when the
   memory-saving database is given the EMPTY pack (then no strategy produces the rule on any labelled class) *)
Lemma fp_known_97 : r_mem (9, [7]) (b_e rstore_t fpB) = false. Proof. vm_compute; reflexivity. Qed.
Example C14_recompute_outcomes_x_nonvacuous :
  rec_getitem_x fp_table (other_labels fp_cdb (9, [7])) [1] true (b_e rstore_t fpB) fp_cdb (9, [7]) = (fp_cdb, GKeyError) /\
  snd (rec_getitem_x fp_table (other_labels fp_cdb (1, [2])) [1] true (b_e rstore_t fpB) fp_cdb (1, [2])) <> GKeyError /\
  r_mem (1, [2]) (b_e rstore_t fpB) = true /\
  (r_mem (1, [2]) (b_e rstore_t fpB) = true /\
   forall r, is_cand_all fp_table fp_cdb [] r ->
             ~ (key_of_rule fp_table fp_cdb r = Some (1, [2]) /\ (true = true -> r_two_way fp_table r = true))).
Proof.
  split; [|split; [|split]].
  - apply (proj1 (C14_recompute_outcomes_x fp_table [1] true (b_e rstore_t fpB) fp_cdb (9, [7]))). exact fp_known_97.
  - apply (proj1 (proj2 (C14_recompute_outcomes_x fp_table [1] true (b_e rstore_t fpB) fp_cdb (1, [2])))).
    vm_compute; reflexivity.
  - apply (proj2 (proj2 (C14_recompute_outcomes_x fp_table [1] true (b_e rstore_t fpB) fp_cdb (1, [2]))) WF_fp_cdb fp_known_12
             fp_cdb (GOk 0 1)). vm_compute; reflexivity.
  - apply (proj2 (proj2 (C14_recompute_outcomes_x fp_table [] true (b_e rstore_t fpB) fp_cdb (1, [2]))) WF_fp_cdb fp_known_12
             fp_cdb GFail). vm_compute; reflexivity.
Qed.

(* covers C14_lookup_side_effects_x: a lookup of the code as it is that changes the class database *)
Example C14_lookup_side_effects_x_nonvacuous :
  let d' := fst (rec_getitem_x nv_table (other_labels nv_cdb (1, [3; 3])) nv_pack false [[1; 3; 3]] nv_cdb (1, [3; 3])) in
  d' <> nv_cdb /\
  WFd d' /\ extends nv_cdb d' /\
  (forall c l, lbl nv_cdb c = Some l -> lbl d' c = Some l /\ empv nv_table d' c = empv nv_table nv_cdb c).
Proof.
  intros d'. split; [vm_compute; discriminate|].
  apply (C14_lookup_side_effects_x nv_table nv_pack false [[1; 3; 3]] nv_cdb (1, [3; 3]) d' (GOk 1 1)
           WF_nv_cdb nv_known_133').
  vm_compute; reflexivity.
Qed.

(* covers C14_fix_keeps_old_answers: what the old lookup handed back for (1, (3, 3)) the present one hands back *)
Example C14_fix_keeps_old_answers_nonvacuous :
  snd (rec_getitem_x nv_table (other_labels nvd (1, [3; 3])) nv_pack false (b_r rstore_t nvB) nvd (1, [3; 3])) = GOk 1 1.
Proof.
  rewrite (C14_fix_keeps_old_answers nv_table (other_labels nvd (1, [3; 3])) nv_pack false (b_r rstore_t nvB) nvd (1, [3; 3])
             nvd (GOk 1 1)); [reflexivity|vm_compute; reflexivity|discriminate].
Qed.

(* covers C14_stored_rule_is_handed_back_x on the FOREIGN-PARENT table: RuleDBForgetStrategy.add of the factory's
   rule S0(1) -> (2,), produced on class 0 (label 0, not a label of the key), then the lookup of the code as it is *)
Example C14_stored_rule_is_handed_back_x_nonvacuous :
  exists d3 sid p,
    rec_getitem_x fp_table (other_labels fp_cdb (1, [2])) [1] true (b_e rstore_t fpB) fp_cdb (1, [2]) = (d3, GOk sid p) /\
    reproduces fp_table d3 sid (1, [2]) = true.
Proof.
  destruct (C14_stored_rule_is_handed_back_x fp_table (rec_init fp_cdb) 1 [2] (mkR 0 1 RPlain) [2] [1] 1 0 0 fp_add_pre)
    as (_ & _ & H).
  - right; left; reflexivity.
  - reflexivity.
  - vm_compute. left; reflexivity.
  - apply (H fp_cdb (b_e rstore_t fpB)).
    + apply pres_refl. exact WF_fp_cdb.
    + vm_compute; reflexivity.
Qed.
Example C14_foreign_parent_before_and_after_the_fix :
  snd (rec_getitem fp_table [1] true (b_e rstore_t fpB) fp_cdb (1, [2])) = GFail /\
  snd (rec_getitem_x fp_table (other_labels fp_cdb (1, [2])) [1] true (b_e rstore_t fpB) fp_cdb (1, [2])) = GOk 0 1.
Proof. split; vm_compute; reflexivity. Qed.

(* covers C14_search_stored_rules_handed_back_x (and _own_stores_, _decided) on a FOREIGN-PARENT rule a search stored:
   in the second packet the factory 2, applied to class 0, yields the ready rule S3(1) <-> (3,) of the hidden strategy
   3 for class 1; the searcher records it as ruledb.add(2, (4,), rule (3, 1)).  The memory-saving database replays
   se_fpack = the strategies the searcher applies (verification 0, pack 1 2, symmetry 4) - NOT the hidden strategy 3 -
   and hands the rule back in the state after both packets, from the store the run itself holds *)
Definition se_fpack : list Z := [0; 1; 2; 4].
Definition se_run := run_search se_table 0 20 false true se_ans 0 ([mkP 0 [1] false] ++ [mkP 0 [2] false]).
Example se_run_adds : adds_of (trace se_run) =
  [EvAdd 2 [4] 3 1; EvAdd 4 [] 0 3; EvAdd 0 [2; 3] 1 0; EvAdd 0 [2; 3] 1 0; EvAdd 0 [1] 4 0] /\
  estore se_run = [(0, [1]); (2, [4])].
Proof. split; vm_compute; reflexivity. Qed.
Lemma se_covers : fpack_coversb se_table se_pack se_fpack = true. Proof. vm_compute; reflexivity. Qed.
Example C14_search_stored_rules_handed_back_x_nonvacuous :
  exists d r cs, r_sid r = 3 /\ r_parent r = 1 /\ add_pre se_table d 2 [4] r cs /\
    let k := stored_key se_table d 2 [4] r cs in
    let oe := in_eqv (snd k) (r_two_way se_table r) in
    forall s2, r_mem k s2 = true ->
    exists d3 sid' p, rec_getitem_x se_table (other_labels (cdb se_run) k) se_fpack oe s2 (cdb se_run) k = (d3, GOk sid' p) /\
                      reproduces se_table d3 sid' k = true.
Proof.
  destruct (proj1 (fpack_coversb_spec se_table se_pack se_fpack) se_covers) as (I1 & I2 & I3).
  apply (C14_search_stored_rules_handed_back_x se_table se_pack se_fpack se_sym_unary se_faithful se_pe_contract se_sym_contract
           I1 I2 I3 20%nat false true se_ans 0 _ se_packets 2 [4] 3 1).
  vm_compute; repeat (first [left; reflexivity | right]).
Qed.
Example C14_search_stored_rules_handed_back_x_decided_nonvacuous :
  Searcher.Deciders.search_hyps_b se_table se_pack ([mkP 0 [1] false] ++ [mkP 0 [2] false]) = true /\
  fpack_coversb se_table se_pack se_fpack = true.
Proof. split; vm_compute; reflexivity. Qed.
(* ... the value: the key is (2, (4,)), held by the run's own equivalence store; the code as it is hands strategy 3
   back, the code before the fix raised RuntimeError *)
Example C14_search_stored_rules_handed_back_x_value :
  snd (rec_getitem_x se_table (other_labels (cdb se_run) (2, [4])) se_fpack true (map flatten (estore se_run)) (cdb se_run) (2, [4]))
    = GOk 3 1 /\
  snd (rec_getitem se_table se_fpack true (map flatten (estore se_run)) (cdb se_run) (2, [4])) = GFail.
Proof. split; vm_compute; reflexivity. Qed.
Example C14_search_own_stores_handed_back_x_nonvacuous :
  exists d r cs, r_sid r = 3 /\ r_parent r = 1 /\ add_pre se_table d 2 [4] r cs /\
    let k := stored_key se_table d 2 [4] r cs in
    let oe := in_eqv (snd k) (r_two_way se_table r) in
    In k (if oe then estore se_run else rstore se_run) ->
    exists d3 sid' p,
      rec_getitem_x se_table (other_labels (cdb se_run) k) se_fpack oe
        (map flatten (if oe then estore se_run else rstore se_run)) (cdb se_run) k = (d3, GOk sid' p) /\
      reproduces se_table d3 sid' k = true.
Proof.
  destruct (proj1 (fpack_coversb_spec se_table se_pack se_fpack) se_covers) as (I1 & I2 & I3).
  apply (C14_search_own_stores_handed_back_x se_table se_pack se_fpack se_sym_unary se_faithful se_pe_contract se_sym_contract
           I1 I2 I3 20%nat false true se_ans 0 _ se_packets 2 [4] 3 1).
  vm_compute; repeat (first [left; reflexivity | right]).
Qed.

(* covers C14_same_has_specification_real_classes: the history nv_hist; the equivalence databases receive the calls of
   add and then connect_cycles(); the representative function of the common state maps label 1 to 0 (the two-way
   rule 1 <-> 0), label 3 is verified, has_specification is True *)
Definition nv_mk_ops (calls : list eqcall) : list Equiv.Model.op := RuleDB.Run.eq_ops calls ++ [Equiv.Model.Connect].
Example C14_same_has_specification_real_classes_nonvacuous :
  exists s rs,
    Equiv.Model.exec Equiv.Model.isort Equiv.Model.init (nv_mk_ops (b_eq dstore nvA)) = Some (s, rs) /\
    Equiv.Model.exec Equiv.Model.isort Equiv.Model.init (nv_mk_ops (b_eq rstore_t nvB)) = Some (s, rs) /\
    db_has_spec (Equiv.Neutral.repf s) [(3, []); (1, [3; 3]); (3, [])] [(1, [0])] 0 false =
    db_has_spec (Equiv.Neutral.repf s) (d_keys (b_r dstore nvA)) (d_keys (b_e dstore nvA)) 0 false.
Proof.
  destruct (C14_same_has_specification_real_classes Equiv.Model.isort Equiv.Hist.isort_In Equiv.Total.isort_len
              nv_table nv_cdb nv_hist nv_mk_ops) as (s & rs & E1 & E2 & _ & _ & H & _).
  exists s, rs. split; [exact E1|]. split; [exact E2|]. apply H; intros k; vm_compute; tauto.
Qed.
Example C14_same_has_specification_real_classes_value :
  match Equiv.Model.exec Equiv.Model.isort Equiv.Model.init (nv_mk_ops (b_eq dstore nvA)) with
  | Some (s, _) =>
      map (Equiv.Neutral.repf s) [0; 1; 2; 3] = [1; 1; 2; 3] /\
      db_has_spec (Equiv.Neutral.repf s) (d_keys (b_r dstore nvA)) (d_keys (b_e dstore nvA)) 0 false = Some true /\
      RuleDB.Run.enc_verified (Some s) 4 = Base.Sx.of_Zs [0; 0; 0; 1]
  | None => False
  end.
Proof. vm_compute. repeat split; reflexivity. Qed.

(* covers C14_has_specification_leaves_same_is_verified: nv_hist, connect_cycles() after the calls of add; the set
   store iterated in another order with a duplicate; the pruned dictionaries are marked in THEIR key orders and the
   two final states answer is_verified alike (labels 0 1 3 verified, 2 not: see _value) *)
Example C14_has_specification_leaves_same_is_verified_nonvacuous :
  exists s rs pa pb,
    Equiv.Model.exec Equiv.Model.isort Equiv.Model.init (nv_mk_ops (b_eq dstore nvA)) = Some (s, rs) /\
    Tree.Model.pruned_dict (Equiv.Neutral.repf s) (d_keys (b_r dstore nvA) ++ d_keys (b_e dstore nvA)) 0 false = Some pa /\
    Tree.Model.pruned_dict (Equiv.Neutral.repf s) ([(3, []); (1, [3; 3]); (3, [])] ++ [(1, [0])]) 0 false = Some pb /\
    forall sA rsA sB rsB,
      Equiv.Model.exec Equiv.Model.isort Equiv.Model.init
        (nv_mk_ops (b_eq dstore nvA) ++ map Equiv.Model.SetVerified (Tree.Model.keys pa)) = Some (sA, rsA) ->
      Equiv.Model.exec Equiv.Model.isort Equiv.Model.init
        (nv_mk_ops (b_eq rstore_t nvB) ++ map Equiv.Model.SetVerified (Tree.Model.keys pb)) = Some (sB, rsB) ->
      forall l sA' vA sB' vB,
        Equiv.Model.is_verified sA l = Some (sA', vA) -> Equiv.Model.is_verified sB l = Some (sB', vB) -> vA = vB.
Proof.
  apply (C14_has_specification_leaves_same_is_verified Equiv.Model.isort Equiv.Hist.isort_In Equiv.Total.isort_len
           nv_table nv_cdb nv_hist nv_mk_ops 0 false [(3, []); (1, [3; 3]); (3, [])] [(1, [0])]);
    intros k; vm_compute; tauto.
Qed.
Example C14_has_specification_leaves_same_is_verified_value :
  match Equiv.Model.exec Equiv.Model.isort Equiv.Model.init (nv_mk_ops (b_eq dstore nvA)) with
  | Some (s, _) =>
      match Tree.Model.pruned_dict (Equiv.Neutral.repf s) (d_keys (b_r dstore nvA) ++ d_keys (b_e dstore nvA)) 0 false,
            Tree.Model.pruned_dict (Equiv.Neutral.repf s) ([(3, []); (1, [3; 3]); (3, [])] ++ [(1, [0])]) 0 false with
      | Some pa, Some pb =>
          Tree.Model.keys pa = [1; 3] /\ Tree.Model.keys pb = [3; 1] /\
          match Equiv.Model.exec Equiv.Model.isort Equiv.Model.init
                  (nv_mk_ops (b_eq dstore nvA) ++ map Equiv.Model.SetVerified (Tree.Model.keys pb)) with
          | Some (sB, _) => RuleDB.Run.enc_verified (Some sB) 4 = Base.Sx.of_Zs [1; 1; 0; 1]
          | None => False
          end
      | _, _ => False
      end
  | None => False
  end.
Proof. vm_compute. repeat split; reflexivity. Qed.

Print Assumptions C14_same_keys_same_answers.
Print Assumptions C14_has_specification_marks_same_labels.
Print Assumptions C14_contains.
Print Assumptions C14_recompute_reproduces.
Print Assumptions C14_recompute_succeeds.
Print Assumptions C14_recompute_outcomes.
Print Assumptions C14_lookup_side_effects.
Print Assumptions C14_dict_add_reproduces.
Print Assumptions C14_stored_rule_is_handed_back.
Print Assumptions C14_repair_reproduces.
Print Assumptions C14_repair_hands_back.
Print Assumptions C14_truthful_caches_keep_answers.
Print Assumptions C14_search_states_keep_answers.
Print Assumptions C14_search_stored_rules_handed_back.
Print Assumptions C14_search_stored_rules_handed_back_decided.
Print Assumptions C14_searcher_model_uses_dict_store.
Print Assumptions C14_every_stored_rule_handed_back_refuted.
Print Assumptions C14_same_has_specification_real_classes.
Print Assumptions C14_has_specification_leaves_same_is_verified.
Print Assumptions C14_all_labels_replayed.
Print Assumptions C14_recompute_reproduces_x.
Print Assumptions C14_recompute_succeeds_x.
Print Assumptions C14_recompute_outcomes_x.
Print Assumptions C14_lookup_side_effects_x.
Print Assumptions C14_fix_keeps_old_answers.
Print Assumptions C14_stored_rule_is_handed_back_x.
Print Assumptions C14_search_stored_rules_handed_back_x.
Print Assumptions C14_search_own_stores_handed_back_x.
Print Assumptions C14_search_stored_rules_handed_back_x_decided.
