(* C03 — forest productivity detection equals the least fixed point, in any
   insert order.  Statements only; proofs are in Forest/*.v.

   `run pick fuel init ops = Some st` : the model of TableMethod went through the
   history `ops` (insertions of forest keys — any arity, repeated children,
   shifts of either sign — interleaved with is_pumping queries) without
   running out of fuel, with ANY resolution `pick` of the arbitrary `set.pop()`
   choices.  TERMINATION IS PROVED (second half of this file): the run returns
   for every fuel >= fuel_bound ops (an explicit computable bound), more fuel
   never changes the answer, and `run_total pick ops` is the state it returns;
   the C03_total_* theorems restate the main theorems with no fuel hypothesis.
   `keys_of ops` is the list of inserted keys; `derivable/pumps/terms` (Spec.v)
   are the inductive least-fixed-point reading of "terms computable".
   Because the statements hold for every history, they hold after every
   insertion (every prefix is a history). *)
From Coq Require Import ZArith List Bool Permutation.
From CSS Require Import Base.Sx Forest.Spec Forest.Model Forest.Invariant Forest.Correct Forest.Theorems
  Forest.GenBridge Forest.TerminationDefs Forest.TerminationGap Forest.Termination Forest.TerminationRun Forest.Run.
From CSS Require Gen.ForestCanGiveTerms Gen.ForestComputeShift Gen.ForestPreimageGap.
From CSS Require Gen.ForestIncreaseValueHold Gen.ForestCorrectGapNewGap Gen.ForestCorrectGapRelease.
From CSS Require Import Forest.GenBridgeGap.
Import ListNotations.
Open Scope Z_scope.

(* reported pumping <-> pumps in the least fixed point; reported number of
   terms n <-> exactly n terms are derivable (unknown labels: 0 terms) *)
Theorem C03_sound_complete : forall pick fuel ops st,
  run pick fuel init ops = Some st ->
  forall c, (pumping_answer st c = true <-> pumps (keys_of ops) c) /\
            (forall n, getf (fn st) c = Some n <-> terms (keys_of ops) c n).
Proof. exact sound_complete. Qed.

(* the answer depends only on the SET of inserted rules: not on order, grouping,
   multiplicity, interleaved queries, fuel or the set.pop() choices *)
Theorem C03_order_independent : forall pick fuel pick' fuel' ops ops' st st',
  run pick fuel init ops = Some st -> run pick' fuel' init ops' = Some st' ->
  (forall r, In r (keys_of ops) <-> In r (keys_of ops')) ->
  forall c, getf (fn st) c = getf (fn st') c.
Proof. exact order_independent. Qed.

Theorem C03_permutation_independent : forall pick fuel pick' fuel' ops ops' st st',
  run pick fuel init ops = Some st -> run pick' fuel' init ops' = Some st' ->
  Permutation (keys_of ops) (keys_of ops') ->
  forall c, getf (fn st) c = getf (fn st') c.
Proof.
  intros pick fuel pick' fuel' ops ops' st st' H H' P.
  apply (order_independent _ _ _ _ _ _ _ _ H H').
  intros r; split; apply Permutation_in; auto using Permutation_sym.
Qed.

(* it only grows when rules are added: pumping classes stay pumping, finite
   values do not decrease *)
Theorem C03_monotone : forall pick fuel pick' fuel' ops ops' st st',
  run pick fuel init ops = Some st -> run pick' fuel' init ops' = Some st' ->
  incl (keys_of ops) (keys_of ops') ->
  forall c, match getf (fn st) c, getf (fn st') c with
            | None, None => True
            | None, Some _ => False
            | Some n, Some m => n <= m
            | Some _, None => True
            end.
Proof. exact monotone. Qed.

(* the pumping sub-universe handed to the extractor is exactly the set of
   inserted keys all of whose classes pump *)
Theorem C03_pumping_subuniverse : forall pick fuel ops st,
  run pick fuel init ops = Some st ->
  forall i, In i (pumping_subuniverse st) <->
    (i < length (keys_of ops))%nat /\
    let r := nth i (keys_of ops) dummy in
    pumps (keys_of ops) (parent r) /\ forall c s, In (c, s) (kids r) -> pumps (keys_of ops) c.
Proof. exact subuniverse_spec. Qed.

(* the dictionary TableMethod.function exposes is the table restricted to non-zero entries *)
Theorem C03_function_dict : forall st c v,
  In (c, v) (function_dict st) <->
  (c < length (fn st))%nat /\ getf (fn st) c = v /\ v <> Some 0.
Proof. exact function_dict_spec. Qed.

(* what makes _set_infinite sound, stated on its own (Spec.gap_lemma) *)
Theorem C03_gap_lemma : forall R (f : nat -> option Z) (dom : nat -> Prop) k g,
  1 <= g -> 0 <= k ->
  (forall r c s, In r R -> In (c, s) (kids r) -> dom c) ->
  (forall r c s, In r R -> In (c, s) (kids r) -> - g <= s <= g) ->
  (forall c n, f c = Some n -> derivable R c n) ->
  (forall c, f c = None -> pumps R c) ->
  (forall c n, dom c -> f c = Some n -> n < k \/ k + g <= n) ->
  (forall c n, f c = Some n -> 0 <= n) ->
  (forall r n, In r R -> f (parent r) = Some n -> n < k ->
     exists c s m, In (c, s) (kids r) /\ f c = Some m /\ m + s <= n) ->
  forall c n, f c = Some n -> k + g <= n -> pumps R c.
Proof. exact gap_lemma. Qed.

(* The model's arithmetic IS the source's arithmetic.  can_give_terms,
   compute_shift and ForestPreimageGap.preimage_gap are re-translated from
   TableMethod._can_give_terms, TableMethod._compute_shift and
   Function.preimage_gap on every run (Gen/Forest*.v).  The firing test every
   theorem above is about equals _can_give_terms applied to the shifts
   _compute_shift derives from the current table (for a rule with a finite
   parent: rules of an infinite parent are never examined), and the gap search
   equals Function.preimage_gap on the histogram of the finite values. *)
Theorem C03_firing_test_is_source : forall f r p,
  getf f (parent r) = Some p ->
  can_fire f r =
  ForestCanGiveTerms.can_give_terms
    (ForestComputeShift.compute_shift (getf f (parent r))
       (map (fun cs => getf f (fst cs)) (kids r)) (map snd (kids r))).
Proof. exact can_fire_is_source. Qed.

Theorem C03_gap_search_is_source : forall f g,
  Model.preimage_gap f g = ForestPreimageGap.preimage_gap (hist f) g.
Proof. exact preimage_gap_is_source. Qed.

(* ================= TERMINATION (total correctness) =================
   Model.process (TableMethod._process_queue) recurses on explicit fuel and
   returns None when it runs out.  The fuel is never the reason for failure. *)

(* every history (any keys, any queries), every resolution of set.pop():
   the run returns as soon as the fuel reaches the explicit bound
     fuel_bound ops = (3R+1) * n * ((n+1)*g + 2) + 3,
   R = #inserted keys, n = 1 + largest label, g = max(1, largest |shift|) *)
Theorem C03_terminates : forall pick ops fuel,
  (fuel_bound ops <= fuel)%nat -> exists st, run pick fuel init ops = Some st.
Proof. exact run_terminates. Qed.

Theorem C03_fuel_bound_explicit : forall ops,
  Z.of_nat (fuel_bound ops) =
  (3 * Z.of_nat (length (keys_of ops)) + 1) *
    ((max_label ops + 1) * ((max_label ops + 1 + 1) * max_shift ops + 2)) + 3.
Proof. exact fuel_bound_explicit. Qed.

(* more fuel gives the same answer (from any state) *)
Theorem C03_fuel_monotone : forall pick fuel fuel' ops st st',
  run pick fuel st ops = Some st' -> (fuel <= fuel')%nat -> run pick fuel' st ops = Some st'.
Proof. intros pick fuel fuel' ops st st'. exact (run_fuel_mono pick fuel fuel' ops st st'). Qed.

(* hence the model is a total function of (pick, history): run_total *)
Theorem C03_run_total : forall pick ops fuel,
  (fuel_bound ops <= fuel)%nat -> run pick fuel init ops = Some (run_total pick ops).
Proof. intros pick ops fuel. exact (run_enough_fuel pick fuel ops). Qed.

Theorem C03_fuel_irrelevant : forall pick fuel ops st,
  run pick fuel init ops = Some st -> st = run_total pick ops.
Proof. exact run_some_is_total. Qed.

(* the measure: every iteration of the `while` loop of _process_queue (pstep)
   preserves the loop invariant TInv (= the run invariant Inv of the partial
   correctness proof + held has no duplicates + the cached gap starts at most
   at #labels * gap_size + 1) and strictly decreases
     mu st = (3|rules|+1) * SUM_{finite v in table} (1 + max 0 (B - v)) + 2|queue| + |held|,
     B = (#labels + 1) * gap_size + 1 *)
Theorem C03_loop_is_pstep : forall pick fuel st,
  process pick (S fuel) st =
  match pstep pick st with None => Some st | Some st' => process pick fuel st' end.
Proof. exact process_unfold. Qed.

Theorem C03_iteration_decreases : forall pick st st',
  TInv st -> pstep pick st = Some st' -> TInv st' /\ Same st st' /\ 0 <= mu st' < mu st.
Proof.
  exact pstep_decreases_nonneg.
Qed.

(* one _process_queue call terminates from every state satisfying the loop invariant *)
Theorem C03_process_terminates : forall pick fuel st,
  TInv st -> mu st < Z.of_nat fuel -> exists st', process pick fuel st = Some st'.
Proof. exact process_terminates. Qed.

(* why values stay bounded — pigeonhole: the first window of g consecutive
   values with empty pre-image starts at most at (#table entries) * g *)
Theorem C03_gap_start_bounded : forall f g, 1 <= g ->
  Model.preimage_gap f g <= Z.of_nat (length f) * g.
Proof. exact preimage_gap_le. Qed.

(* the main theorems with NO fuel hypothesis *)
Theorem C03_total_sound_complete : forall pick ops c,
  (pumping_answer (run_total pick ops) c = true <-> pumps (keys_of ops) c) /\
  (forall n, getf (fn (run_total pick ops)) c = Some n <-> terms (keys_of ops) c n).
Proof. exact total_sound_complete. Qed.

Theorem C03_total_order_independent : forall pick pick' ops ops',
  (forall r, In r (keys_of ops) <-> In r (keys_of ops')) ->
  forall c, getf (fn (run_total pick ops)) c = getf (fn (run_total pick' ops')) c.
Proof. exact total_order_independent. Qed.

Theorem C03_total_monotone : forall pick pick' ops ops',
  incl (keys_of ops) (keys_of ops') ->
  forall c, match getf (fn (run_total pick ops)) c, getf (fn (run_total pick' ops')) c with
            | None, None => True
            | None, Some _ => False
            | Some n, Some m => n <= m
            | Some _, None => True
            end.
Proof. exact total_monotone. Qed.

Theorem C03_total_pumping_subuniverse : forall pick ops i,
  In i (pumping_subuniverse (run_total pick ops)) <->
    (i < length (keys_of ops))%nat /\
    let r := nth i (keys_of ops) dummy in
    pumps (keys_of ops) (parent r) /\ forall c s, In (c, s) (kids r) -> pumps (keys_of ops) c.
Proof. exact total_subuniverse_spec. Qed.

(* the extracted model run by the harness (Forest/Run.v) uses fuel_bound: it
   can never answer "out of fuel" (-1), so agreement with the implementation
   is never an artefact of the fuel *)
Theorem C03_harness_never_out_of_fuel : forall ops,
  ~ In (L [I (-1)]) (run_obs (fuel_for ops) init ops).
Proof. exact run_obs_never_out_of_fuel. Qed.

(* non-vacuity: a history with a negative shift, a class that pumps only
   after a gap move, a finite non-zero class and an unknown label *)
Example C03_nonvacuous :
  let ops := [AddKey (mkkey 0 [(1%nat, 1)]); AddKey (mkkey 1 [(1%nat, 2); (2%nat, -1)]);
              IsPumping 7; AddKey (mkkey 2 [(3%nat, 3)]); AddKey (mkkey 4 [(0%nat, 0); (4%nat, 1)]);
              AddKey (mkkey 2 [])] in
  exists st, run (fun _ => O) 200 init ops = Some st /\
             map (getf (fn st)) [0; 1; 2; 3; 4; 7]%nat = [None; None; None; Some 0; None; Some 0].
Proof. eexists. split; vm_compute; reflexivity. Qed.

Example C03_nonvacuous_finite :
  let ops := [AddKey (mkkey 0 [(1%nat, 2)]); AddKey (mkkey 1 [(2%nat, 1)]); AddKey (mkkey 3 [(3%nat, 1)])] in
  exists st, run (fun _ => O) 200 init ops = Some st /\
             map (getf (fn st)) [0; 1; 2; 3]%nat = [Some 3; Some 1; Some 0; None].
Proof. eexists. split; vm_compute; reflexivity. Qed.

Example C03_total_nonvacuous :
  let ops := [AddKey (mkkey 0 [(1%nat, 1)]); AddKey (mkkey 1 [(1%nat, 2); (2%nat, -1)]);
              IsPumping 7; AddKey (mkkey 2 [(3%nat, 3)]); AddKey (mkkey 4 [(0%nat, 0); (4%nat, 1)]);
              AddKey (mkkey 2 [])] in
  Z.of_nat (fuel_bound ops) = 3715 /\
  map (getf (fn (run_total (fun _ => O) ops))) [0; 1; 2; 3; 4; 7]%nat = [None; None; None; Some 0; None; Some 0].
Proof. split; vm_compute; reflexivity. Qed.

(* ------------------------------------------------------------------------
   NON-VACUITY (audit): every theorem of this file with a premise is APPLIED to a concrete
   instance, so that Coq checks that what is discharged below are the theorem's own premises.
   Main history c3_ops: five keys over the labels 0..4 (a negative shift, a repeated parent, an
   empty right-hand side) and an interleaved query of the unknown label 7.  Second history
   c3_fin: three keys with FINITE non-zero answers (3, 1, 0 terms) and one pumping class. *)
Require Import Lia.
Definition c3_ops : list op :=
  [AddKey (mkkey 0 [(1%nat, 1)]); AddKey (mkkey 1 [(1%nat, 2); (2%nat, -1)]);
   IsPumping 7; AddKey (mkkey 2 [(3%nat, 3)]); AddKey (mkkey 4 [(0%nat, 0); (4%nat, 1)]);
   AddKey (mkkey 2 [])].
(* the same keys in the opposite order, the first key inserted a second time at the end *)
Definition c3_ops' : list op := rev c3_ops ++ [AddKey (mkkey 0 [(1%nat, 1)])].
Definition c3_fin : list op :=
  [AddKey (mkkey 0 [(1%nat, 2)]); AddKey (mkkey 1 [(2%nat, 1)]); AddKey (mkkey 3 [(3%nat, 1)])].
Definition c3_fin' : list op := AddKey (mkkey 2 [(4%nat, 5)]) :: c3_fin.
(* another resolution of set.pop() *)
Definition pickL (l : list nat) : nat := length l.

Definition c3_st : tm := Eval vm_compute in run_total pick0 c3_ops.
Definition c3_st' : tm := Eval vm_compute in run_total pickL c3_ops'.
Definition c3_fst : tm := Eval vm_compute in run_total pick0 c3_fin.
Definition c3_fst' : tm := Eval vm_compute in run_total pickL c3_fin'.
Lemma c3_run : run pick0 200 init c3_ops = Some c3_st.       Proof. vm_compute. reflexivity. Qed.
Lemma c3_run' : run pickL 300 init c3_ops' = Some c3_st'.    Proof. vm_compute. reflexivity. Qed.
Lemma c3_frun : run pick0 200 init c3_fin = Some c3_fst.     Proof. vm_compute. reflexivity. Qed.
Lemma c3_frun' : run pickL 300 init c3_fin' = Some c3_fst'.  Proof. vm_compute. reflexivity. Qed.
Example c3_values :
  map (getf (fn c3_st)) [0; 1; 2; 3; 4; 7]%nat = [None; None; None; Some 0; None; Some 0] /\
  map (getf (fn c3_fst)) [0; 1; 2; 3; 4]%nat = [Some 3; Some 1; Some 0; None; Some 0] /\
  map (getf (fn c3_fst')) [0; 1; 2; 3; 4]%nat = [Some 8; Some 6; Some 5; None; Some 0].
Proof. repeat split. Qed.

(* covers C03_sound_complete: both branches of both equivalences, read off the computed table *)
Example C03_sound_complete_nonvacuous :
  pumps (keys_of c3_ops) 1 /\ ~ pumps (keys_of c3_ops) 3 /\
  terms (keys_of c3_fin) 0 3 /\ ~ terms (keys_of c3_fin) 1 2.
Proof.
  split; [apply (C03_sound_complete pick0 200 c3_ops c3_st c3_run 1%nat); reflexivity|].
  split; [intros P; apply (C03_sound_complete pick0 200 c3_ops c3_st c3_run 3%nat) in P; discriminate|].
  split; [apply (C03_sound_complete pick0 200 c3_fin c3_fst c3_frun 0%nat); reflexivity|].
  intros P. apply (C03_sound_complete pick0 200 c3_fin c3_fst c3_frun 1%nat) in P. discriminate.
Qed.

Lemma c3_same_set : forall r, In r (keys_of c3_ops) <-> In r (keys_of c3_ops').
Proof. intros r. simpl. tauto. Qed.
Lemma c3_perm : Permutation (keys_of c3_ops) (keys_of (rev c3_ops)).
Proof. change (keys_of (rev c3_ops)) with (rev (keys_of c3_ops)). apply Permutation_rev. Qed.
Lemma c3_incl : incl (keys_of c3_fin) (keys_of c3_fin').
Proof. intros r H. simpl in *. tauto. Qed.

(* covers C03_order_independent: other order, other multiplicity, other fuel, other set.pop() *)
Example C03_order_independent_nonvacuous : forall c, getf (fn c3_st) c = getf (fn c3_st') c.
Proof. exact (C03_order_independent pick0 200 pickL 300 c3_ops c3_ops' c3_st c3_st' c3_run c3_run' c3_same_set). Qed.
(* the internal states differ (the rule lists are in different orders): the conclusion is about
   the answers only *)
Example c3_states_differ : rules c3_st <> rules c3_st'.
Proof. discriminate. Qed.

(* covers C03_permutation_independent *)
Example C03_permutation_independent_nonvacuous :
  exists st', run pickL 300 init (rev c3_ops) = Some st' /\ forall c, getf (fn c3_st) c = getf (fn st') c.
Proof.
  eexists. split; [vm_compute; reflexivity|].
  refine (C03_permutation_independent pick0 200 pickL 300 c3_ops (rev c3_ops) c3_st _ c3_run _ c3_perm).
  vm_compute. reflexivity.
Qed.

(* covers C03_monotone: one key added; the finite answers 3, 1, 0 grow to 8, 6, 5 *)
Example C03_monotone_nonvacuous :
  forall c, match getf (fn c3_fst) c, getf (fn c3_fst') c with
            | None, None => True | None, Some _ => False
            | Some n, Some m => n <= m | Some _, None => True end.
Proof. exact (C03_monotone pick0 200 pickL 300 c3_fin c3_fin' c3_fst c3_fst' c3_frun c3_frun' c3_incl). Qed.
(* the conclusion discriminates: the other way round it is false at class 0 (8 > 3) *)
Example C03_monotone_near_miss :
  ~ (forall c, match getf (fn c3_fst') c, getf (fn c3_fst) c with
               | None, None => True | None, Some _ => False
               | Some n, Some m => n <= m | Some _, None => True end).
Proof. intros H. specialize (H 0%nat). vm_compute in H. apply H. reflexivity. Qed.

(* covers C03_pumping_subuniverse: key 0 is in (all its classes pump), key 2 = (2 -> 3 shift 3)
   is out (class 3 has no term) *)
Example C03_pumping_subuniverse_nonvacuous :
  pumping_subuniverse c3_st = [0; 1; 3; 4]%nat /\
  (pumps (keys_of c3_ops) 0 /\ forall c s, In (c, s) [(1%nat, 1)] -> pumps (keys_of c3_ops) c) /\
  ~ (pumps (keys_of c3_ops) 2 /\ forall c s, In (c, s) [(3%nat, 3)] -> pumps (keys_of c3_ops) c).
Proof.
  split; [reflexivity|]. split.
  - apply (C03_pumping_subuniverse pick0 200 c3_ops c3_st c3_run 0%nat). simpl. auto.
  - intros H.
    assert (In 2%nat (pumping_subuniverse c3_st)) as Hin.
    { apply (C03_pumping_subuniverse pick0 200 c3_ops c3_st c3_run 2%nat). split; [simpl; lia|exact H]. }
    simpl in Hin. intuition discriminate.
Qed.

(* C03_function_dict has no premise; it discriminates: classes with 0 terms are left out *)
Example C03_function_dict_nonvacuous :
  function_dict c3_fst = [(0%nat, Some 3); (1%nat, Some 1); (3%nat, None)] /\
  In (1%nat, Some 1) (function_dict c3_fst) /\ ~ In (2%nat, Some 0) (function_dict c3_fst).
Proof.
  split; [reflexivity|]. split.
  - apply C03_function_dict. split; [simpl; lia|]. split; [reflexivity|discriminate].
  - intros H. apply C03_function_dict in H. destruct H as (_ & _ & H). apply H. reflexivity.
Qed.

(* covers C03_gap_lemma.  Rules 0 -> (0 shift 1)(3 shift -2), 1 -> (2 shift 1), 3 -> (3 shift 2);
   table 0:4 1:1 2:0 3:infinite, gap size g = 2, gap [2,3] (k = 2): no value inside the gap, class 1
   (below the gap) cannot move, class 0 sits at k + g.  The lemma concludes that class 0 pumps. *)
Definition gl_R : list fkey :=
  [mkkey 0 [(0%nat, 1); (3%nat, -2)]; mkkey 1 [(2%nat, 1)]; mkkey 3 [(3%nat, 2)]].
Definition gl_f (c : nat) : option Z :=
  match c with 0%nat => Some 4 | 1%nat => Some 1 | 3%nat => None | _ => Some 0 end.
Definition gl_dom (c : nat) : Prop := (c <= 3)%nat.
Lemma gl_pumps3 : pumps gl_R 3.
Proof.
  assert (forall v, 0 <= v -> derivable gl_R 3 v) as H.
  { intros v Hv. pattern v. apply natlike_ind; auto.
    - apply der_zero; lia.
    - intros x Hx D. apply (der_rule gl_R (mkkey 3 [(3%nat, 2)])); [simpl; auto|].
      intros c s [E|[]]; injection E as <- <-. apply (derivable_mono gl_R 3%nat x D). lia. }
  intros v. destruct (Z_lt_le_dec v 0); [apply der_zero; lia|auto].
Qed.
Lemma gl_step0 : forall v, derivable gl_R 0 (v - 1) -> derivable gl_R 0 v.
Proof.
  intros v D. apply (der_rule gl_R (mkkey 0 [(0%nat, 1); (3%nat, -2)])); [simpl; auto|].
  intros c s [E|[E|[]]]; injection E as <- <-; [exact D|apply gl_pumps3].
Qed.
Lemma gl_rules_dom : forall r c s, In r gl_R -> In (c, s) (kids r) -> gl_dom c.
Proof.
  unfold gl_dom. intros r c s [<-|[<-|[<-|[]]]] H; simpl in H;
    repeat (destruct H as [H|H]; [injection H as <- <-; lia|]); destruct H.
Qed.
Lemma gl_shifts : forall r c s, In r gl_R -> In (c, s) (kids r) -> - 2 <= s <= 2.
Proof.
  intros r c s [<-|[<-|[<-|[]]]] H; simpl in H;
    repeat (destruct H as [H|H]; [injection H as <- <-; lia|]); destruct H.
Qed.
Lemma gl_sound_fin : forall c n, gl_f c = Some n -> derivable gl_R c n.
Proof.
  intros [|[|[|[|c]]]] n H; simpl in H; try discriminate; injection H as <-; try (apply der_zero; lia).
  - do 4 (apply gl_step0; simpl). apply der_zero. lia.
  - apply (der_rule gl_R (mkkey 1 [(2%nat, 1)])); [simpl; auto|].
    intros c s [E|[]]; injection E as <- <-. apply der_zero. lia.
Qed.
Lemma gl_sound_inf : forall c, gl_f c = None -> pumps gl_R c.
Proof. intros [|[|[|[|c]]]] H; simpl in H; try discriminate. exact gl_pumps3. Qed.
Lemma gl_gap_empty : forall c n, gl_dom c -> gl_f c = Some n -> n < 2 \/ 2 + 2 <= n.
Proof. intros [|[|[|[|c]]]] n _ H; simpl in H; try discriminate; injection H as <-; lia. Qed.
Lemma gl_nonneg : forall c n, gl_f c = Some n -> 0 <= n.
Proof. intros [|[|[|[|c]]]] n H; simpl in H; try discriminate; injection H as <-; lia. Qed.
Lemma gl_low_stable : forall r n, In r gl_R -> gl_f (parent r) = Some n -> n < 2 ->
  exists c s m, In (c, s) (kids r) /\ gl_f c = Some m /\ m + s <= n.
Proof.
  intros r n [<-|[<-|[<-|[]]]] H Hn; simpl in H; try discriminate; injection H as <-; try lia.
  exists 2%nat, 1, 0. simpl. split; [auto|]. split; [reflexivity|lia].
Qed.
Example C03_gap_lemma_nonvacuous : pumps gl_R 0.
Proof.
  apply (C03_gap_lemma gl_R gl_f gl_dom 2 2 ltac:(lia) ltac:(lia) gl_rules_dom gl_shifts gl_sound_fin
           gl_sound_inf gl_gap_empty gl_nonneg gl_low_stable 0%nat 4 eq_refl). lia.
Qed.
(* the conclusion is not true of every class with a finite entry: class 1 (value 1, below the
   gap) does not pump — the premise k + g <= n is what separates the two *)
Example C03_gap_lemma_near_miss : ~ pumps gl_R 1.
Proof.
  intros P. specialize (P 2). inversion P as [|r v Hr Hk E]; [lia|].
  destruct Hr as [<-|[<-|[<-|[]]]]; try discriminate.
  specialize (Hk 2%nat 1 (or_introl eq_refl)).
  apply (derivable_no_rule gl_R 2%nat (2 - 1)) in Hk; [lia|].
  intros r' [<-|[<-|[<-|[]]]]; discriminate.
Qed.

(* covers C03_firing_test_is_source: finite parent (2 terms), an infinite child and a finite child;
   the rule fires with shift 2 on the finite child and does not with shift 1 *)
Definition ft_f : vals := [Some 2; None; Some 0; Some 1].
Example C03_firing_test_is_source_nonvacuous :
  ForestCanGiveTerms.can_give_terms
    (ForestComputeShift.compute_shift (getf ft_f 0) [getf ft_f 1; getf ft_f 3] [-3; 2]) = true /\
  ForestCanGiveTerms.can_give_terms
    (ForestComputeShift.compute_shift (getf ft_f 0) [getf ft_f 1; getf ft_f 3] [-3; 1]) = false.
Proof.
  split.
  - transitivity (can_fire ft_f (mkkey 0 [(1%nat, -3); (3%nat, 2)])); [|reflexivity].
    symmetry. exact (C03_firing_test_is_source ft_f (mkkey 0 [(1%nat, -3); (3%nat, 2)]) 2 eq_refl).
  - transitivity (can_fire ft_f (mkkey 0 [(1%nat, -3); (3%nat, 1)])); [|reflexivity].
    symmetry. exact (C03_firing_test_is_source ft_f (mkkey 0 [(1%nat, -3); (3%nat, 1)]) 2 eq_refl).
Qed.

(* C03_gap_search_is_source has no premise; the common value depends on the table and on g *)
Example C03_gap_search_is_source_nonvacuous :
  let f := [Some 0; Some 1; Some 3; None; Some 1] in
  map (ForestPreimageGap.preimage_gap (hist f)) [1; 2; 3] = [2; 4; 4] /\
  map (Model.preimage_gap f) [1; 2; 3] = [2; 4; 4].
Proof. split; reflexivity. Qed.

(* covers C03_terminates, C03_run_total, C03_fuel_irrelevant, C03_fuel_monotone *)
Example C03_terminates_nonvacuous : exists st, run pickL (S (fuel_bound c3_ops')) init c3_ops' = Some st.
Proof. apply (C03_terminates pickL c3_ops' (S (fuel_bound c3_ops'))). apply Nat.le_succ_diag_r. Qed.
(* ... and below the bound the run can really fail: the existential is not met by a default *)
Example C03_terminates_value :
  fuel_bound c3_ops = 3715%nat /\ run pick0 3715 init c3_ops = Some c3_st /\ run pick0 5 init c3_ops = None.
Proof. repeat split; vm_compute; reflexivity. Qed.
Example C03_run_total_nonvacuous : run pickL (S (fuel_bound c3_ops')) init c3_ops' = Some (run_total pickL c3_ops').
Proof. apply (C03_run_total pickL c3_ops' (S (fuel_bound c3_ops'))). apply Nat.le_succ_diag_r. Qed.
Example C03_fuel_irrelevant_nonvacuous : c3_st' = run_total pickL c3_ops'.
Proof. exact (C03_fuel_irrelevant pickL 300 c3_ops' c3_st' c3_run'). Qed.
(* from a NON-initial state: the state after the first three operations, the last three run on it *)
Definition c3_mid : tm := Eval vm_compute in run_total pick0 (firstn 3 c3_ops).
Lemma c3_mid_run : run pick0 40 c3_mid (skipn 3 c3_ops) = Some c3_st.
Proof. vm_compute. reflexivity. Qed.
Example C03_fuel_monotone_nonvacuous : run pick0 4000 c3_mid (skipn 3 c3_ops) = Some c3_st.
Proof.
  apply (C03_fuel_monotone pick0 40 4000 (skipn 3 c3_ops) c3_mid c3_st c3_mid_run).
  apply Nat.leb_le. reflexivity.
Qed.
Example C03_fuel_monotone_near_miss : run pick0 10 c3_mid (skipn 3 c3_ops) = None.
Proof. vm_compute. reflexivity. Qed.

(* covers C03_iteration_decreases and C03_process_terminates.  The state is the one add_rule_key
   hands to _process_queue when the key 2 -> () is inserted after the first five operations: a
   reachable, non-final state (non-empty queue); its loop invariant is PROVED, not assumed. *)
Definition c3_before : tm := Eval vm_compute in run_total pick0 (firstn 5 c3_ops).
Definition c3_pre : tm := Eval vm_compute in pre_process c3_before (mkkey 2 []).
Definition c3_s1 : tm := Eval vm_compute in match pstep pick0 c3_pre with Some s => s | None => init end.
Definition c3_s2 : tm := Eval vm_compute in match pstep pick0 c3_s1 with Some s => s | None => init end.
Lemma c3_pre_TInv : TInv c3_pre.
Proof.
  assert (run pick0 200 init (firstn 5 c3_ops) = Some c3_before) as Hr by (vm_compute; reflexivity).
  destruct (run_init_rules _ _ _ _ Hr) as [F _].
  assert (GapBound c3_before) as HB by (unfold GapBound; vm_compute; discriminate).
  destruct (pre_process_inv c3_before (mkkey 2 []) F) as [I3 _].
  destruct (pre_process_fields c3_before (mkkey 2 []) F HB) as (_ & _ & Eh & _ & HB3).
  change (pre_process c3_before (mkkey 2 [])) with c3_pre in *.
  split; [exact I3|]. split; [rewrite Eh; constructor|exact HB3].
Qed.
Lemma c3_step1 : pstep pick0 c3_pre = Some c3_s1.  Proof. vm_compute. reflexivity. Qed.
Lemma c3_step2 : pstep pick0 c3_s1 = Some c3_s2.   Proof. vm_compute. reflexivity. Qed.
Example C03_iteration_decreases_nonvacuous :
  TInv c3_s2 /\ Same c3_pre c3_s1 /\ Same c3_s1 c3_s2 /\ 0 <= mu c3_s2 < mu c3_s1 /\ mu c3_s1 < mu c3_pre.
Proof.
  destruct (C03_iteration_decreases pick0 c3_pre c3_s1 c3_pre_TInv c3_step1) as (T1 & S1 & M1).
  destruct (C03_iteration_decreases pick0 c3_s1 c3_s2 T1 c3_step2) as (T2 & S2 & M2).
  split; [exact T2|]. split; [exact S1|]. split; [exact S2|]. split; [exact M2|apply M1].
Qed.
Example C03_iteration_decreases_values :
  queue c3_pre = [4%nat] /\ queue c3_s1 = [1%nat; 4%nat] /\ queue c3_s2 = [4%nat; 0%nat] /\
  (mu c3_pre, mu c3_s1, mu c3_s2) = (3538, 3524, 3508) /\
  getf (fn c3_pre) 2 = Some 3 /\ getf (fn c3_s1) 2 = Some 4 /\ getf (fn c3_s2) 1 = Some 3.
Proof. repeat split. Qed.
Example C03_process_terminates_nonvacuous : exists st', process pick0 4000 c3_pre = Some st'.
Proof. apply (C03_process_terminates pick0 4000 c3_pre c3_pre_TInv). vm_compute. reflexivity. Qed.
Example C03_process_terminates_value :
  process pick0 4000 c3_pre = Some c3_st /\ process pick0 3 c3_pre = None.
Proof. split; vm_compute; reflexivity. Qed.

(* covers C03_gap_start_bounded (g = 2, five entries: bound 10, value 4) *)
Example C03_gap_start_bounded_nonvacuous :
  Model.preimage_gap [Some 0; Some 1; Some 3; None; Some 1] 2 <= 5 * 2.
Proof. apply (C03_gap_start_bounded [Some 0; Some 1; Some 3; None; Some 1] 2). lia. Qed.

(* covers the total forms *)
Example C03_total_sound_complete_nonvacuous :
  pumps (keys_of c3_ops') 4 /\ ~ pumps (keys_of c3_ops') 3 /\ terms (keys_of c3_fin') 1 6.
Proof.
  split; [apply (C03_total_sound_complete pickL c3_ops' 4%nat); vm_compute; reflexivity|].
  split; [intros P; apply (C03_total_sound_complete pickL c3_ops' 3%nat) in P; vm_compute in P; discriminate|].
  apply (C03_total_sound_complete pickL c3_fin' 1%nat). vm_compute. reflexivity.
Qed.
Example C03_total_order_independent_nonvacuous :
  forall c, getf (fn (run_total pick0 c3_ops)) c = getf (fn (run_total pickL c3_ops')) c.
Proof. exact (C03_total_order_independent pick0 pickL c3_ops c3_ops' c3_same_set). Qed.
Example C03_total_monotone_nonvacuous :
  forall c, match getf (fn (run_total pick0 c3_fin)) c, getf (fn (run_total pickL c3_fin')) c with
            | None, None => True | None, Some _ => False
            | Some n, Some m => n <= m | Some _, None => True end.
Proof. exact (C03_total_monotone pick0 pickL c3_fin c3_fin' c3_incl). Qed.
Example C03_total_pumping_subuniverse_nonvacuous :
  pumps (keys_of c3_ops) 4 /\ forall c s, In (c, s) [(0%nat, 0); (4%nat, 1)] -> pumps (keys_of c3_ops) c.
Proof.
  assert (In 3%nat (pumping_subuniverse (run_total pick0 c3_ops))) as H by (vm_compute; auto).
  exact (proj2 (proj1 (C03_total_pumping_subuniverse pick0 c3_ops 3%nat) H)).
Qed.
(* C03_fuel_bound_explicit and C03_loop_is_pstep have no premise; their instances on the history
   (5 keys, largest label 7, largest shift 3) and on the reachable state c3_pre (both branches of
   the loop: an iteration, and the exit from a final state) *)
Example C03_fuel_bound_explicit_nonvacuous :
  Z.of_nat (fuel_bound c3_ops) = (3 * 5 + 1) * ((7 + 1) * ((7 + 1 + 1) * 3 + 2)) + 3.
Proof. exact (C03_fuel_bound_explicit c3_ops). Qed.
Example C03_loop_is_pstep_nonvacuous :
  process pick0 8 c3_pre = process pick0 7 c3_s1 /\ process pick0 1 c3_st = Some c3_st.
Proof.
  split.
  - rewrite (C03_loop_is_pstep pick0 7 c3_pre), c3_step1. reflexivity.
  - rewrite (C03_loop_is_pstep pick0 0 c3_st). reflexivity.
Qed.
(* C03_harness_never_out_of_fuel has no premise; what the harness observes on c3_fin: *)
Example C03_harness_never_out_of_fuel_nonvacuous :
  ~ In (L [I (-1)]) (run_obs (fuel_for c3_fin) init c3_fin).
Proof. exact (C03_harness_never_out_of_fuel c3_fin). Qed.
Example C03_harness_obs_value :
  length (run_obs (fuel_for c3_fin) init c3_fin) = 3%nat /\ run_obs 1 init c3_fin = [L [I (-1)]].
Proof. split; vm_compute; reflexivity. Qed.

(* ================= the gap bookkeeping is the source's (translator) =================
   _increase_value parks a rule exactly when the source's test
   `current_value > self._current_gap[1]` holds, and _correct_gap computes the
   gap interval and releases the parked rules by the source's expressions
   (Gen/ForestIncreaseValueHold.v, Gen/ForestCorrectGapNewGap.v,
   Gen/ForestCorrectGapRelease.v, re-translated from rule_db/forest.py each run). *)
Theorem C03_hold_test_is_source : forall st c i,
  increase_value st c i =
  match getf (fn st) c with
  | None => st
  | Some v =>
      if ForestIncreaseValueHold.increase_value_hold v (snd (cgap st))
      then mktm (rules st) (fn st) (gsize st) (cgap st) (queue st) (add_held (held st) i)
      else
        let f' := upd (fn st) c (Some (v + 1)) in
        let st1 := mktm (rules st) f' (gsize st) (cgap st) (queue st) (held st) in
        let st2 := if fst (cgap st) =? Model.preimage_gap f' (gsize st) then st1 else correct_gap st1 in
        mktm (rules st2) (fn st2) (gsize st2) (cgap st2) (queue st2 ++ requeue st2 f' c) (held st2)
  end.
Proof. exact increase_value_is_source. Qed.

Theorem C03_correct_gap_is_source : forall st,
  correct_gap st =
  let ng := ForestCorrectGapNewGap.correct_gap_new_gap (Model.preimage_gap (fn st) (gsize st)) (gsize st) in
  let new := (Gen.Prelude.py_get 0 ng 0, Gen.Prelude.py_get 0 ng 1) in
  if ForestCorrectGapRelease.correct_gap_release ng (snd (cgap st))
  then mktm (rules st) (fn st) (gsize st) new (queue st ++ held st) []
  else mktm (rules st) (fn st) (gsize st) new (queue st) (held st).
Proof. exact correct_gap_is_source. Qed.


(* ======================= LAYER S and LAYER B =======================
   Layer A (Forest/Model.v, all theorems above) decides firing from the value table and
   re-queues "the rules mentioning c that can fire, once each, in index order".  The CODE
   fires from the CACHED _shifts rows (updated by -1/+1/None), re-queues through
   _rules_pumping_class/_rules_using_class (once per registered (rule, child) pair, tested on
   half-updated rows), maintains _preimage_count incrementally, grows the value table only by
   the lookups it really makes, and iterates a Python set.  Layer B (Forest/ModelB.v)
   transcribes exactly that.  Layer S (Forest/SchedDefs.v) is layer A with the three choices
   left open (any admissible re-queue list, any release order of the held set, any
   admissible growth of the table).

   GENERALISED (Forest/Sched*.v): every layer-A theorem is re-proved for EVERY schedule of
   layer S (theorems C03_S_...); layer A is one schedule (C03_A_is_S).
   REFINEMENT (Forest/RefineB*.v): each iteration of layer B's loop, viewed through absB
   (forget the cache and the indices), is an iteration of layer S, and the invariant BInv
   — cached rows = _compute_shift of the CURRENT table for every live rule; the two
   indices = exactly the live (rule, child) pairs, no duplicates; _preimage_count =
   histogram; no `assert` failed — is preserved (C03_B_lockstep, C03_B_refines_S).
   Hence B's observable answers equal A's after every operation (C03_B_refines_A,
   C03_B_harness_obs_equal) and all C03 theorems hold for layer B (theorems C03_B_...).
   `perm_ok ord` : ord (the iteration order of the held set) returns a permutation. *)
From CSS Require Import Forest.ModelB Forest.SchedDefs Forest.SchedInvariant Forest.SchedCorrect
  Forest.SchedTermination Forest.RefineBInv Forest.RefineBSteps Forest.RefineB Forest.RefineBRun.

(* ---- layer S: every schedule ---- *)
Theorem C03_A_is_S : forall pick fuel ops st st',
  run pick fuel st ops = Some st' -> sruns st ops st'.
Proof. exact A_run_is_S. Qed.

Theorem C03_S_sound_complete : forall ops st, sruns init ops st ->
  forall c, (pumping_answer st c = true <-> pumps (keys_of ops) c) /\
            (forall n, getf (fn st) c = Some n <-> terms (keys_of ops) c n).
Proof. exact S_sound_complete. Qed.

Theorem C03_S_order_independent : forall ops ops' st st',
  sruns init ops st -> sruns init ops' st' ->
  (forall r, In r (keys_of ops) <-> In r (keys_of ops')) ->
  forall c, getf (fn st) c = getf (fn st') c.
Proof. exact S_order_independent. Qed.

Theorem C03_S_monotone : forall ops ops' st st',
  sruns init ops st -> sruns init ops' st' -> incl (keys_of ops) (keys_of ops') ->
  forall c, match getf (fn st) c, getf (fn st') c with
            | None, None => True | None, Some _ => False
            | Some n, Some m => n <= m | Some _, None => True end.
Proof. exact S_monotone. Qed.

Theorem C03_S_pumping_subuniverse : forall ops st, sruns init ops st ->
  forall i, In i (pumping_subuniverse st) <->
    (i < length (keys_of ops))%nat /\
    let r := nth i (keys_of ops) dummy in
    pumps (keys_of ops) (parent r) /\ forall c s, In (c, s) (kids r) -> pumps (keys_of ops) c.
Proof. exact S_subuniverse_spec. Qed.

(* termination for every schedule: an iteration preserves TInvS and strictly decreases
   mu_s = (2*slots(rules) + |rules| + 1) * pot + 2|queue| + |held|, slots = SUM_r (1 + arity r);
   no chain of iterations is longer than mu_s *)
Theorem C03_S_iteration_decreases : forall st st',
  TInvS st -> sstep st st' -> TInvS st' /\ SameS st st' /\ mu_s st' < mu_s st.
Proof. exact sstep_decreases. Qed.

Theorem C03_S_chain_bounded : forall n st st',
  TInvS st -> schain n st st' -> Z.of_nat n <= mu_s st.
Proof. exact S_chain_bounded. Qed.

(* ---- layer B: lock-step refinement ---- *)
Theorem C03_B_lockstep : forall pick ord b b', perm_ok ord -> BInv b -> InvS (absB b) [] ->
  pstepB pick ord b = Some b' -> sstep (absB b) (absB b') /\ BInv b'.
Proof. exact pstepB_sim. Qed.

Theorem C03_B_loop_is_pstepB : forall pick ord fuel b,
  processB pick ord (S fuel) b =
  match pstepB pick ord b with None => Some b | Some b' => processB pick ord fuel b' end.
Proof. exact processB_unfold. Qed.

(* every history: layer B is a run of layer S and the layer-B invariant holds at the end
   (hence after every operation: every prefix is a history) *)
Theorem C03_B_refines_S : forall pick ord fuel ops b, perm_ok ord ->
  runB pick ord fuel initB ops = Some b -> sruns init ops (absB b) /\ BInv b.
Proof. exact B_refines_S. Qed.

(* what BInv says about the cache: the CACHED row the code fires from is what
   _compute_shift (re-translated from forest.py) returns on the CURRENT value table *)
Theorem C03_B_cached_shifts_current : forall pick ord fuel ops b i, perm_ok ord ->
  runB pick ord fuel initB ops = Some b ->
  (i < length (b_rules b))%nat -> getf (fB b) (parent (ruleB b i)) <> None ->
  nth i (b_shifts b) [] =
  ForestComputeShift.compute_shift (getf (fB b) (parent (ruleB b i)))
    (map (fun cs => getf (fB b) (fst cs)) (kids (ruleB b i))) (map snd (kids (ruleB b i))).
Proof.
  intros pick ord fuel ops b i Hord H Hi Hl.
  exact (bi_rows b (proj2 (B_refines_S pick ord fuel ops b Hord H)) i Hi Hl).
Qed.

(* no `assert` of forest.py (current_shift is not None; current_value > gap end; queue empty) fails *)
Theorem C03_B_never_asserts : forall pick ord fuel ops b, perm_ok ord ->
  runB pick ord fuel initB ops = Some b -> b_fail b = false.
Proof. exact runB_never_asserts. Qed.

(* C03_B_refines_A: same history => the same observable answers (function, pumping_subuniverse,
   is_pumping, and the value of every class), whatever set.pop() does in either run, whatever the
   iteration order of the held set, whatever the fuels *)
Theorem C03_B_refines_A : forall pick ord fuel pick' fuel' ops b st, perm_ok ord ->
  runB pick ord fuel initB ops = Some b -> run pick' fuel' init ops = Some st ->
  b_rules b = rules st /\
  (forall c, getf (fB b) c = getf (fn st) c) /\
  function_dictB b = function_dict st /\
  pumping_subuniverseB b = pumping_subuniverse st /\
  (forall c, pumping_answerB b c = pumping_answer st c).
Proof. exact B_refines_A. Qed.

(* ---- the C03 theorems for layer B ---- *)
Theorem C03_B_sound_complete : forall pick ord fuel ops b, perm_ok ord ->
  runB pick ord fuel initB ops = Some b ->
  forall c, (pumping_answerB b c = true <-> pumps (keys_of ops) c) /\
            (forall n, getf (fB b) c = Some n <-> terms (keys_of ops) c n).
Proof. exact B_sound_complete. Qed.

Theorem C03_B_order_independent : forall pick ord fuel pick' ord' fuel' ops ops' b b',
  perm_ok ord -> perm_ok ord' ->
  runB pick ord fuel initB ops = Some b -> runB pick' ord' fuel' initB ops' = Some b' ->
  (forall r, In r (keys_of ops) <-> In r (keys_of ops')) ->
  forall c, getf (fB b) c = getf (fB b') c.
Proof. exact B_order_independent. Qed.

Theorem C03_B_monotone : forall pick ord fuel pick' ord' fuel' ops ops' b b',
  perm_ok ord -> perm_ok ord' ->
  runB pick ord fuel initB ops = Some b -> runB pick' ord' fuel' initB ops' = Some b' ->
  incl (keys_of ops) (keys_of ops') ->
  forall c, match getf (fB b) c, getf (fB b') c with
            | None, None => True | None, Some _ => False
            | Some n, Some m => n <= m | Some _, None => True end.
Proof. exact B_monotone. Qed.

Theorem C03_B_pumping_subuniverse : forall pick ord fuel ops b, perm_ok ord ->
  runB pick ord fuel initB ops = Some b ->
  forall i, In i (pumping_subuniverseB b) <->
    (i < length (keys_of ops))%nat /\
    let r := nth i (keys_of ops) dummy in
    pumps (keys_of ops) (parent r) /\ forall c s, In (c, s) (kids r) -> pumps (keys_of ops) c.
Proof. exact B_subuniverse_spec. Qed.

(* TERMINATION of layer B, with the explicit bound
     fuel_boundS ops = (2*slots + R + 1) * n * ((n+1)*g + 2) + 3,   slots = SUM_keys (1 + arity)
   (layer A's bound with the weight 3R+1 replaced: the code re-queues a rule once per
   registered (rule, child) pair).  fuel_bound <= fuel_boundS, equal when all arities are 0. *)
Theorem C03_B_terminates : forall pick ord ops fuel, perm_ok ord ->
  (fuel_boundS ops <= fuel)%nat -> exists b, runB pick ord fuel initB ops = Some b.
Proof. exact runB_terminates. Qed.

Theorem C03_B_process_terminates : forall pick ord, perm_ok ord -> forall fuel b,
  BInv b -> TInvS (absB b) -> mu_s (absB b) < Z.of_nat fuel ->
  exists b', processB pick ord fuel b = Some b'.
Proof. exact processB_terminates. Qed.

Theorem C03_B_fuel_boundS_explicit : forall ops,
  Z.of_nat (fuel_boundS ops) =
  (2 * slots (keys_of ops) + Z.of_nat (length (keys_of ops)) + 1) *
    ((max_label ops + 1) * ((max_label ops + 1 + 1) * max_shift ops + 2)) + 3.
Proof. exact fuel_boundS_explicit. Qed.

Theorem C03_fuel_bound_le_S : forall ops, (fuel_bound ops <= fuel_boundS ops)%nat.
Proof. exact fuel_bound_le_S. Qed.

(* "layer B terminates within layer A's fuel_bound" is FALSE: one key 0 -> (0 shift 5) x 10.
   Layer A needs at most 51 iterations; the code's queue receives 11 entries per increase *)
Definition c3_rep10 : list op := [AddKey (mkkey 0 (repeat (0%nat, 5) 10))].
Theorem C03_B_same_fuel_bound_refuted :
  fuel_bound c3_rep10 = 51%nat /\ runB pick0 ord_id 51 initB c3_rep10 = None /\
  (exists st, run pick0 51 init c3_rep10 = Some st) /\
  (exists b, runB pick0 ord_id 58 initB c3_rep10 = Some b) /\ fuel_boundS c3_rep10 = 291%nat.
Proof. repeat split; try (eexists; vm_compute; reflexivity); vm_compute; reflexivity. Qed.

Theorem C03_B_run_total : forall pick ord ops, perm_ok ord ->
  runB pick ord (fuel_boundS ops) initB ops = Some (runB_total pick ord ops).
Proof. exact runB_total_spec. Qed.

Theorem C03_B_fuel_irrelevant : forall pick ord fuel ops b, perm_ok ord ->
  runB pick ord fuel initB ops = Some b -> b = runB_total pick ord ops.
Proof. exact runB_some_is_total. Qed.

Theorem C03_B_refines_A_total : forall pick ord pick' ops, perm_ok ord ->
  let b := runB_total pick ord ops in let st := run_total pick' ops in
  b_rules b = rules st /\
  (forall c, getf (fB b) c = getf (fn st) c) /\
  function_dictB b = function_dict st /\
  pumping_subuniverseB b = pumping_subuniverse st /\
  (forall c, pumping_answerB b c = pumping_answer st c).
Proof. exact B_refines_A_total. Qed.

(* what the harness runs: the observable answers of the extracted layer-B model, one per
   operation, ARE those of the extracted layer-A model (whatever internals are supplied for the
   informational comparison); in particular never (-1) out of fuel, never (-2) assertion *)
Theorem C03_B_harness_obs_equal : forall ops ints,
  fst (run_obsB (fuel_forB ops) initB ops ints) = run_obs (fuel_for ops) init ops.
Proof. exact run_obsB_is_run_obs. Qed.

Theorem C03_B_harness_never_out_of_fuel : forall ops ints,
  ~ In (L [I (-1)]) (fst (run_obsB (fuel_forB ops) initB ops ints)) /\
  ~ In (L [I (-2)]) (fst (run_obsB (fuel_forB ops) initB ops ints)).
Proof. intros ops ints. split; [apply run_obsB_never_out_of_fuel|apply run_obsB_never_asserts]. Qed.

(* ---- non-vacuity of the layer-S / layer-B theorems (every premise discharged on instances) ---- *)
(* a history where the code's bookkeeping is busy: repeated children, a rule that is its own
   child, negative shifts, a class that becomes infinite while rules using it are registered *)
Definition c3_rep : list op :=
  [AddKey (mkkey 1 [(2%nat, 1)]); AddKey (mkkey 0 [(0%nat, 1); (0%nat, 2); (1%nat, 0)]);
   IsPumping 5; AddKey (mkkey 3 [(0%nat, -1); (1%nat, -2)]); AddKey (mkkey 2 [(2%nat, 1); (2%nat, 1)])].
Definition ord_rev (l : list nat) : list nat := rev l.
Lemma perm_ok_rev : perm_ok ord_rev.
Proof. intros l. apply Permutation_sym, Permutation_rev. Qed.
Definition c3_b : tmB := Eval vm_compute in runB_total pick0 ord_id c3_rep.
Definition c3_b' : tmB := Eval vm_compute in runB_total pickL ord_rev c3_ops'.
Definition c3_bo : tmB := Eval vm_compute in runB_total pick0 ord_id c3_ops.
Lemma c3_brun : runB pick0 ord_id 400 initB c3_rep = Some c3_b.    Proof. vm_compute. reflexivity. Qed.
Lemma c3_brun' : runB pickL ord_rev 400 initB c3_ops' = Some c3_b'. Proof. vm_compute. reflexivity. Qed.
Lemma c3_bruno : runB pick0 ord_id 400 initB c3_ops = Some c3_bo.  Proof. vm_compute. reflexivity. Qed.
Lemma c3_arun_rep : exists st, run pickL 400 init c3_rep = Some st. Proof. eexists. vm_compute. reflexivity. Qed.

(* the internals of layer B at the end of c3_rep: every class of a key pumps, the cached rows are
   stale (never read again), the indices are emptied, the counts maintained *)
Example c3_b_internals :
  map (getf (fB c3_b)) [0; 1; 2; 3; 5]%nat = [None; None; None; None; Some 0] /\
  fpc (b_fn c3_b) = [2; 0; 0; 0; 0; 0] /\ finf (b_fn c3_b) = 4 /\ b_fail c3_b = false /\
  b_pumping c3_b = [[]; []; []; []] /\ b_using c3_b = [[]; []; []; []] /\
  b_shifts c3_b = [[Some 1]; [Some 1; Some 2; None]; [None; None]; [Some 1; Some 1]].
Proof. repeat split. Qed.
(* ... and in the middle of a history, where rules are live: after the first key of c3_fin
   (0 -> (1 shift 2)), class 0 has 2 terms, the cached row of rule 0 is [0 + 2 - 2] = [0],
   rule 0 is registered under its parent 0 and under its child 1 *)
Definition c3_bmid : tmB := Eval vm_compute in runB_total pick0 ord_id (firstn 1 c3_fin).
Example c3_bmid_internals :
  b_shifts c3_bmid = [[Some 0]] /\ b_pumping c3_bmid = [[0%nat]] /\
  b_using c3_bmid = [[]; [(0%nat, 0%nat)]] /\ map (getf (fB c3_bmid)) [0; 1]%nat = [Some 2; Some 0] /\
  fpc (b_fn c3_bmid) = [1; 0; 1].
Proof. repeat split. Qed.

Example C03_A_is_S_nonvacuous : sruns init c3_ops c3_st.
Proof. exact (C03_A_is_S pick0 200 c3_ops init c3_st c3_run). Qed.
Example C03_S_sound_complete_nonvacuous : pumps (keys_of c3_ops) 1 /\ terms (keys_of c3_rep) 5 0.
Proof.
  split.
  - apply (C03_S_sound_complete c3_ops c3_st C03_A_is_S_nonvacuous 1%nat). reflexivity.
  - apply (C03_S_sound_complete c3_rep (absB c3_b) (proj1 (C03_B_refines_S pick0 ord_id 400 c3_rep c3_b perm_ok_id c3_brun)) 5%nat).
    reflexivity.
Qed.
(* two different schedules of layer S (layer A with pick0, layer B with pickL and reversed set
   order, other insertion order and multiplicity) agree *)
Example C03_S_order_independent_nonvacuous : forall c, getf (fn c3_st) c = getf (fB c3_b') c.
Proof.
  exact (C03_S_order_independent c3_ops c3_ops' c3_st (absB c3_b') C03_A_is_S_nonvacuous
           (proj1 (C03_B_refines_S pickL ord_rev 400 c3_ops' c3_b' perm_ok_rev c3_brun')) c3_same_set).
Qed.
Example C03_S_monotone_nonvacuous :
  forall c, match getf (fn c3_fst) c, getf (fn c3_fst') c with
            | None, None => True | None, Some _ => False
            | Some n, Some m => n <= m | Some _, None => True end.
Proof.
  exact (C03_S_monotone c3_fin c3_fin' c3_fst c3_fst' (C03_A_is_S pick0 200 c3_fin init c3_fst c3_frun)
           (C03_A_is_S pickL 300 c3_fin' init c3_fst' c3_frun') c3_incl).
Qed.
Example C03_S_pumping_subuniverse_nonvacuous : In 0%nat (pumping_subuniverse c3_st) ->
  pumps (keys_of c3_ops) 0 /\ forall c s, In (c, s) [(1%nat, 1)] -> pumps (keys_of c3_ops) c.
Proof. intros H. exact (proj2 (proj1 (C03_S_pumping_subuniverse c3_ops c3_st C03_A_is_S_nonvacuous 0%nat) H)). Qed.

(* covers C03_B_lockstep, C03_S_iteration_decreases, C03_S_chain_bounded, C03_B_process_terminates on
   the state add_rule_key hands to the loop when the last key (2 -> (2 shift 1)(2 shift 1)) of
   c3_rep is inserted: reachable, non-final, live rules with repeated children registered in both
   indices; its invariants are PROVED, not assumed *)
Definition c3_last : fkey := mkkey 2 [(2%nat, 1); (2%nat, 1)].
Definition c3_bbefore : tmB := Eval vm_compute in runB_total pick0 ord_id (firstn 4 c3_rep).
Definition c3_bpre : tmB := Eval vm_compute in pre_processB ord_id c3_bbefore c3_last.
Definition c3_bs1 : tmB := Eval vm_compute in match pstepB pick0 ord_id c3_bpre with Some s => s | None => initB end.
Lemma c3_bpre_inv : BInv c3_bpre /\ TInvS (absB c3_bpre).
Proof.
  assert (runB pick0 ord_id 400 initB (firstn 4 c3_rep) = Some c3_bbefore) as Hr by (vm_compute; reflexivity).
  destruct (C03_B_refines_S pick0 ord_id 400 _ _ perm_ok_id Hr) as [R I].
  destruct (sruns_init_rules _ _ R) as [F _].
  assert (GapBound (absB c3_bbefore)) as HB by (unfold GapBound; vm_compute; discriminate).
  destruct (pre_processB_sim ord_id c3_bbefore c3_last I) as (Ea & Hext & I3).
  destruct (pre_process_s_inv (absB c3_bbefore) c3_last _ (ord_id (b_held c3_bbefore)) F Hext (perm_ok_id _)) as [V3 _].
  destruct (pre_process_s_fields (absB c3_bbefore) c3_last _ (ord_id (b_held c3_bbefore)) F HB Hext (perm_ok_id _)) as (_ & _ & Eh & _ & HB3).
  rewrite <- Ea in V3, Eh, HB3. change (pre_processB ord_id c3_bbefore c3_last) with c3_bpre in *.
  split; [exact I3|]. split; [exact V3|]. split; [rewrite Eh; constructor|exact HB3].
Qed.
Lemma c3_bstep1 : pstepB pick0 ord_id c3_bpre = Some c3_bs1.  Proof. vm_compute. reflexivity. Qed.
Example C03_B_lockstep_nonvacuous :
  sstep (absB c3_bpre) (absB c3_bs1) /\ BInv c3_bs1 /\ mu_s (absB c3_bs1) < mu_s (absB c3_bpre).
Proof.
  destruct c3_bpre_inv as [I T].
  destruct (C03_B_lockstep pick0 ord_id c3_bpre c3_bs1 perm_ok_id I (proj1 T) c3_bstep1) as [S I1].
  split; [exact S|]. split; [exact I1|].
  exact (proj2 (proj2 (C03_S_iteration_decreases _ _ T S))).
Qed.
(* one iteration: rule 3 fires, class 2 goes from 0 to 1; the cached row of rule 0 = 1 -> (2 shift 1)
   is bumped from [0] to [1] through _rules_using_class[2] = [(0,0); (3,0); (3,1)], the row of rule 3
   itself is decremented through _rules_pumping_class[2] and incremented twice; rules 0 and 3 are
   re-queued in the order of the code *)
Example C03_B_lockstep_values :
  b_queue c3_bpre = [3%nat] /\ getf (fB c3_bpre) 2 = Some 0 /\ getf (fB c3_bs1) 2 = Some 1 /\
  dl_get (b_using c3_bpre) 2 = [(0%nat, 0%nat); (3%nat, 0%nat); (3%nat, 1%nat)] /\
  dl_get (b_pumping c3_bpre) 2 = [3%nat] /\
  nth 0 (b_shifts c3_bpre) [] = [Some 0] /\ nth 0 (b_shifts c3_bs1) [] = [Some 1] /\
  nth 3 (b_shifts c3_bs1) [] = [Some 1; Some 1] /\ b_queue c3_bs1 = [0%nat; 3%nat] /\
  fpc (b_fn c3_bpre) = [4; 2] /\ fpc (b_fn c3_bs1) = [3; 3] /\
  (mu_s (absB c3_bpre), mu_s (absB c3_bs1)) = (2728, 2701).
Proof. repeat split. Qed.
Example C03_S_chain_bounded_nonvacuous : (1 <= mu_s (absB c3_bpre)).
Proof.
  apply (C03_S_chain_bounded 1 (absB c3_bpre) (absB c3_bs1) (proj2 c3_bpre_inv)).
  eapply sc_S; [exact (proj1 C03_B_lockstep_nonvacuous)|apply sc_0].
Qed.
Example C03_B_process_terminates_nonvacuous : exists b', processB pick0 ord_id 5000 c3_bpre = Some b'.
Proof.
  destruct c3_bpre_inv as [I T].
  apply (C03_B_process_terminates pick0 ord_id perm_ok_id 5000 c3_bpre I T). vm_compute. reflexivity.
Qed.
Example C03_B_loop_is_pstepB_nonvacuous :
  processB pick0 ord_id 8 c3_bpre = processB pick0 ord_id 7 c3_bs1.
Proof. rewrite (C03_B_loop_is_pstepB pick0 ord_id 7 c3_bpre), c3_bstep1. reflexivity. Qed.

Example C03_B_refines_S_nonvacuous : sruns init c3_rep (absB c3_b) /\ BInv c3_b.
Proof. exact (C03_B_refines_S pick0 ord_id 400 c3_rep c3_b perm_ok_id c3_brun). Qed.
(* a live rule in the middle of a history: the cached row [Some 0] is _compute_shift of the table *)
Example C03_B_cached_shifts_current_nonvacuous :
  nth 0 (b_shifts c3_bmid) [] =
  ForestComputeShift.compute_shift (Some 2) [Some 0] [2].
Proof.
  assert (runB pick0 ord_id 400 initB (firstn 1 c3_fin) = Some c3_bmid) as Hr by (vm_compute; reflexivity).
  exact (C03_B_cached_shifts_current pick0 ord_id 400 _ c3_bmid 0%nat perm_ok_id Hr
           ltac:(vm_compute; reflexivity) ltac:(vm_compute; discriminate)).
Qed.
Example C03_B_never_asserts_nonvacuous : b_fail c3_b' = false.
Proof. exact (C03_B_never_asserts pickL ord_rev 400 c3_ops' c3_b' perm_ok_rev c3_brun'). Qed.
(* B (pickL, reversed set order) against A (pick0), same history *)
Example C03_B_refines_A_nonvacuous :
  function_dictB c3_bo = function_dict c3_st /\ pumping_subuniverseB c3_bo = [0; 1; 3; 4]%nat /\
  (forall c, pumping_answerB c3_bo c = pumping_answer c3_st c).
Proof.
  destruct (C03_B_refines_A pick0 ord_id 400 pick0 200 c3_ops c3_bo c3_st perm_ok_id c3_bruno c3_run)
    as (_ & _ & A & B & D).
  split; [exact A|]. split; [rewrite B; reflexivity|exact D].
Qed.
(* the internal states differ: layer A has no cache, and its value table is longer (the code does
   not look up the children of a rule whose parent is already infinite): the conclusion is about the
   answers only *)
Definition c3_lazy : list op := [AddKey (mkkey 0 []); AddKey (mkkey 0 [(3%nat, 0)])].
Example c3_tables_differ :
  fval (b_fn (runB_total pick0 ord_id c3_lazy)) = [None] /\
  fn (run_total pick0 c3_lazy) = [None; Some 0; Some 0; Some 0] /\
  function_dictB (runB_total pick0 ord_id c3_lazy) = function_dict (run_total pick0 c3_lazy).
Proof. repeat split. Qed.
Example C03_B_sound_complete_nonvacuous :
  pumps (keys_of c3_rep) 3 /\ ~ pumps (keys_of c3_rep) 5 /\ terms (keys_of c3_rep) 5 0.
Proof.
  split; [apply (C03_B_sound_complete pick0 ord_id 400 c3_rep c3_b perm_ok_id c3_brun 3%nat); reflexivity|].
  split; [intros P; apply (C03_B_sound_complete pick0 ord_id 400 c3_rep c3_b perm_ok_id c3_brun 5%nat) in P; discriminate|].
  apply (C03_B_sound_complete pick0 ord_id 400 c3_rep c3_b perm_ok_id c3_brun 5%nat). reflexivity.
Qed.
Example C03_B_order_independent_nonvacuous : forall c, getf (fB c3_bo) c = getf (fB c3_b') c.
Proof.
  exact (C03_B_order_independent pick0 ord_id 400 pickL ord_rev 400 c3_ops c3_ops' c3_bo c3_b'
           perm_ok_id perm_ok_rev c3_bruno c3_brun' c3_same_set).
Qed.
Definition c3_bf : tmB := Eval vm_compute in runB_total pick0 ord_id c3_fin.
Definition c3_bf' : tmB := Eval vm_compute in runB_total pickL ord_rev c3_fin'.
Example C03_B_monotone_nonvacuous :
  forall c, match getf (fB c3_bf) c, getf (fB c3_bf') c with
            | None, None => True | None, Some _ => False
            | Some n, Some m => n <= m | Some _, None => True end.
Proof.
  refine (C03_B_monotone pick0 ord_id 400 pickL ord_rev 400 c3_fin c3_fin' c3_bf c3_bf'
            perm_ok_id perm_ok_rev _ _ c3_incl); vm_compute; reflexivity.
Qed.
Example C03_B_monotone_values :
  map (getf (fB c3_bf)) [0; 1; 2]%nat = [Some 3; Some 1; Some 0] /\
  map (getf (fB c3_bf')) [0; 1; 2]%nat = [Some 8; Some 6; Some 5].
Proof. split; reflexivity. Qed.
Example C03_B_pumping_subuniverse_nonvacuous :
  pumping_subuniverseB c3_b = [0; 1; 2; 3]%nat /\
  (pumps (keys_of c3_rep) 3 /\ forall c s, In (c, s) [(0%nat, -1); (1%nat, -2)] -> pumps (keys_of c3_rep) c).
Proof.
  split; [reflexivity|].
  apply (C03_B_pumping_subuniverse pick0 ord_id 400 c3_rep c3_b perm_ok_id c3_brun 2%nat). simpl. auto.
Qed.
Example C03_B_terminates_nonvacuous : exists b, runB pickL ord_rev (S (fuel_boundS c3_rep)) initB c3_rep = Some b.
Proof. apply (C03_B_terminates pickL ord_rev c3_rep _ perm_ok_rev). apply Nat.le_succ_diag_r. Qed.
Example C03_B_terminates_value : fuel_boundS c3_rep = 2787%nat /\ fuel_bound c3_rep = 1251%nat /\
  runB pick0 ord_id 5 initB c3_rep = None.
Proof. repeat split; vm_compute; reflexivity. Qed.
Example C03_B_fuel_boundS_explicit_nonvacuous :
  Z.of_nat (fuel_boundS c3_rep) = (2 * 12 + 4 + 1) * ((5 + 1) * ((5 + 1 + 1) * 2 + 2)) + 3.
Proof. exact (C03_B_fuel_boundS_explicit c3_rep). Qed.
Example C03_fuel_bound_le_S_nonvacuous : (1251 <= 2787)%nat.
Proof. exact (C03_fuel_bound_le_S c3_rep). Qed.
Example C03_B_run_total_nonvacuous : runB pickL ord_rev (fuel_boundS c3_ops') initB c3_ops' = Some c3_b'.
Proof. exact (C03_B_run_total pickL ord_rev c3_ops' perm_ok_rev). Qed.
Example C03_B_fuel_irrelevant_nonvacuous : c3_b = runB_total pick0 ord_id c3_rep.
Proof. exact (C03_B_fuel_irrelevant pick0 ord_id 400 c3_rep c3_b perm_ok_id c3_brun). Qed.
Example C03_B_refines_A_total_nonvacuous :
  function_dictB (runB_total pickL ord_rev c3_rep) = function_dict (run_total pick0 c3_rep).
Proof. exact (proj1 (proj2 (proj2 (C03_B_refines_A_total pickL ord_rev pick0 c3_rep perm_ok_rev)))). Qed.
Example C03_B_harness_obs_equal_nonvacuous :
  fst (run_obsB (fuel_forB c3_rep) initB c3_rep []) = run_obs (fuel_for c3_rep) init c3_rep /\
  length (run_obs (fuel_for c3_rep) init c3_rep) = 5%nat.
Proof. split; [exact (C03_B_harness_obs_equal c3_rep [])|vm_compute; reflexivity]. Qed.
Example C03_B_harness_never_out_of_fuel_nonvacuous :
  ~ In (L [I (-1)]) (fst (run_obsB (fuel_forB c3_rep) initB c3_rep [])) /\
  fst (run_obsB 1 initB c3_rep []) = [L [I (-1)]].
Proof. split; [exact (proj1 (C03_B_harness_never_out_of_fuel c3_rep []))|vm_compute; reflexivity]. Qed.

Print Assumptions C03_sound_complete.
Print Assumptions C03_order_independent.
Print Assumptions C03_permutation_independent.
Print Assumptions C03_monotone.
Print Assumptions C03_pumping_subuniverse.
Print Assumptions C03_function_dict.
Print Assumptions C03_gap_lemma.
Print Assumptions C03_firing_test_is_source.
Print Assumptions C03_gap_search_is_source.
Print Assumptions C03_terminates.
Print Assumptions C03_fuel_bound_explicit.
Print Assumptions C03_fuel_monotone.
Print Assumptions C03_run_total.
Print Assumptions C03_fuel_irrelevant.
Print Assumptions C03_loop_is_pstep.
Print Assumptions C03_iteration_decreases.
Print Assumptions C03_process_terminates.
Print Assumptions C03_gap_start_bounded.
Print Assumptions C03_total_sound_complete.
Print Assumptions C03_total_order_independent.
Print Assumptions C03_total_monotone.
Print Assumptions C03_total_pumping_subuniverse.
Print Assumptions C03_harness_never_out_of_fuel.
Print Assumptions C03_hold_test_is_source.
Print Assumptions C03_correct_gap_is_source.
Print Assumptions C03_A_is_S.
Print Assumptions C03_S_sound_complete.
Print Assumptions C03_S_order_independent.
Print Assumptions C03_S_monotone.
Print Assumptions C03_S_pumping_subuniverse.
Print Assumptions C03_S_iteration_decreases.
Print Assumptions C03_S_chain_bounded.
Print Assumptions C03_B_lockstep.
Print Assumptions C03_B_loop_is_pstepB.
Print Assumptions C03_B_refines_S.
Print Assumptions C03_B_cached_shifts_current.
Print Assumptions C03_B_never_asserts.
Print Assumptions C03_B_refines_A.
Print Assumptions C03_B_sound_complete.
Print Assumptions C03_B_order_independent.
Print Assumptions C03_B_monotone.
Print Assumptions C03_B_pumping_subuniverse.
Print Assumptions C03_B_terminates.
Print Assumptions C03_B_process_terminates.
Print Assumptions C03_B_fuel_boundS_explicit.
Print Assumptions C03_fuel_bound_le_S.
Print Assumptions C03_B_same_fuel_bound_refuted.
Print Assumptions C03_B_run_total.
Print Assumptions C03_B_fuel_irrelevant.
Print Assumptions C03_B_refines_A_total.
Print Assumptions C03_B_harness_obs_equal.
Print Assumptions C03_B_harness_never_out_of_fuel.
