(* C03 — forest productivity detection equals the least fixed point, in any
   insert order.  Statements only; proofs are in Forest/*.v.

   `run pick fuel init ops = Some st` : the model of TableMethod went through the
   history `ops` (insertions of forest keys — any arity, repeated children,
   shifts of either sign — interleaved with is_pumping queries) without
   running out of fuel, with ANY resolution `pick` of the arbitrary `set.pop()`
   choices.  TERMINATION IS PROVED (second half of this file): the run returns
   for every fuel >= fuel_bound ops (an explicit computable bound), more fuel
   never changes the answer, and `run_total pick ops` is the state it returns;
   the C03_total_* theorems restate the main theorems with no fuel hypothesis.
   `keys_of ops` is the list of inserted keys; `derivable/pumps/terms` (Spec.v)
   are the inductive least-fixed-point reading of "terms computable".
   Because the statements hold for every history, they hold after every
   insertion (every prefix is a history). *)
From Coq Require Import ZArith List Bool Permutation.
From CSS Require Import Base.Sx Forest.Spec Forest.Model Forest.Invariant Forest.Correct Forest.Theorems
  Forest.GenBridge Forest.TerminationDefs Forest.TerminationGap Forest.Termination Forest.TerminationRun Forest.Run.
From CSS Require Gen.ForestCanGiveTerms Gen.ForestComputeShift Gen.ForestPreimageGap.
From CSS Require Gen.ForestIncreaseValueHold Gen.ForestCorrectGapNewGap Gen.ForestCorrectGapRelease.
From CSS Require Import Forest.GenBridgeGap.
Import ListNotations.
Open Scope Z_scope.

(* reported pumping <-> pumps in the least fixed point; reported number of
   terms n <-> exactly n terms are derivable (unknown labels: 0 terms) *)
Theorem C03_sound_complete : forall pick fuel ops st,
  run pick fuel init ops = Some st ->
  forall c, (pumping_answer st c = true <-> pumps (keys_of ops) c) /\
            (forall n, getf (fn st) c = Some n <-> terms (keys_of ops) c n).
Proof. exact sound_complete. Qed.

(* the answer depends only on the SET of inserted rules: not on order, grouping,
   multiplicity, interleaved queries, fuel or the set.pop() choices *)
Theorem C03_order_independent : forall pick fuel pick' fuel' ops ops' st st',
  run pick fuel init ops = Some st -> run pick' fuel' init ops' = Some st' ->
  (forall r, In r (keys_of ops) <-> In r (keys_of ops')) ->
  forall c, getf (fn st) c = getf (fn st') c.
Proof. exact order_independent. Qed.

Theorem C03_permutation_independent : forall pick fuel pick' fuel' ops ops' st st',
  run pick fuel init ops = Some st -> run pick' fuel' init ops' = Some st' ->
  Permutation (keys_of ops) (keys_of ops') ->
  forall c, getf (fn st) c = getf (fn st') c.
Proof.
  intros pick fuel pick' fuel' ops ops' st st' H H' P.
  apply (order_independent _ _ _ _ _ _ _ _ H H').
  intros r; split; apply Permutation_in; auto using Permutation_sym.
Qed.

(* it only grows when rules are added: pumping classes stay pumping, finite
   values do not decrease *)
Theorem C03_monotone : forall pick fuel pick' fuel' ops ops' st st',
  run pick fuel init ops = Some st -> run pick' fuel' init ops' = Some st' ->
  incl (keys_of ops) (keys_of ops') ->
  forall c, match getf (fn st) c, getf (fn st') c with
            | None, None => True
            | None, Some _ => False
            | Some n, Some m => n <= m
            | Some _, None => True
            end.
Proof. exact monotone. Qed.

(* the pumping sub-universe handed to the extractor is exactly the set of
   inserted keys all of whose classes pump *)
Theorem C03_pumping_subuniverse : forall pick fuel ops st,
  run pick fuel init ops = Some st ->
  forall i, In i (pumping_subuniverse st) <->
    (i < length (keys_of ops))%nat /\
    let r := nth i (keys_of ops) dummy in
    pumps (keys_of ops) (parent r) /\ forall c s, In (c, s) (kids r) -> pumps (keys_of ops) c.
Proof. exact subuniverse_spec. Qed.

(* the dictionary TableMethod.function exposes is the table restricted to non-zero entries *)
Theorem C03_function_dict : forall st c v,
  In (c, v) (function_dict st) <->
  (c < length (fn st))%nat /\ getf (fn st) c = v /\ v <> Some 0.
Proof. exact function_dict_spec. Qed.

(* what makes _set_infinite sound, stated on its own (Spec.gap_lemma) *)
Theorem C03_gap_lemma : forall R (f : nat -> option Z) (dom : nat -> Prop) k g,
  1 <= g -> 0 <= k ->
  (forall r c s, In r R -> In (c, s) (kids r) -> dom c) ->
  (forall r c s, In r R -> In (c, s) (kids r) -> - g <= s <= g) ->
  (forall c n, f c = Some n -> derivable R c n) ->
  (forall c, f c = None -> pumps R c) ->
  (forall c n, dom c -> f c = Some n -> n < k \/ k + g <= n) ->
  (forall c n, f c = Some n -> 0 <= n) ->
  (forall r n, In r R -> f (parent r) = Some n -> n < k ->
     exists c s m, In (c, s) (kids r) /\ f c = Some m /\ m + s <= n) ->
  forall c n, f c = Some n -> k + g <= n -> pumps R c.
Proof. exact gap_lemma. Qed.

(* The model's arithmetic IS the source's arithmetic.  can_give_terms,
   compute_shift and ForestPreimageGap.preimage_gap are re-translated from
   TableMethod._can_give_terms, TableMethod._compute_shift and
   Function.preimage_gap on every run (Gen/Forest*.v).  The firing test every
   theorem above is about equals _can_give_terms applied to the shifts
   _compute_shift derives from the current table (for a rule with a finite
   parent: rules of an infinite parent are never examined), and the gap search
   equals Function.preimage_gap on the histogram of the finite values. *)
Theorem C03_firing_test_is_source : forall f r p,
  getf f (parent r) = Some p ->
  can_fire f r =
  ForestCanGiveTerms.can_give_terms
    (ForestComputeShift.compute_shift (getf f (parent r))
       (map (fun cs => getf f (fst cs)) (kids r)) (map snd (kids r))).
Proof. exact can_fire_is_source. Qed.

Theorem C03_gap_search_is_source : forall f g,
  Model.preimage_gap f g = ForestPreimageGap.preimage_gap (hist f) g.
Proof. exact preimage_gap_is_source. Qed.

(* ================= TERMINATION (total correctness) =================
   Model.process (TableMethod._process_queue) recurses on explicit fuel and
   returns None when it runs out.  The fuel is never the reason for failure. *)

(* every history (any keys, any queries), every resolution of set.pop():
   the run returns as soon as the fuel reaches the explicit bound
     fuel_bound ops = (3R+1) * n * ((n+1)*g + 2) + 3,
   R = #inserted keys, n = 1 + largest label, g = max(1, largest |shift|) *)
Theorem C03_terminates : forall pick ops fuel,
  (fuel_bound ops <= fuel)%nat -> exists st, run pick fuel init ops = Some st.
Proof. exact run_terminates. Qed.

Theorem C03_fuel_bound_explicit : forall ops,
  Z.of_nat (fuel_bound ops) =
  (3 * Z.of_nat (length (keys_of ops)) + 1) *
    ((max_label ops + 1) * ((max_label ops + 1 + 1) * max_shift ops + 2)) + 3.
Proof. exact fuel_bound_explicit. Qed.

(* more fuel gives the same answer (from any state) *)
Theorem C03_fuel_monotone : forall pick fuel fuel' ops st st',
  run pick fuel st ops = Some st' -> (fuel <= fuel')%nat -> run pick fuel' st ops = Some st'.
Proof. intros pick fuel fuel' ops st st'. exact (run_fuel_mono pick fuel fuel' ops st st'). Qed.

(* hence the model is a total function of (pick, history): run_total *)
Theorem C03_run_total : forall pick ops fuel,
  (fuel_bound ops <= fuel)%nat -> run pick fuel init ops = Some (run_total pick ops).
Proof. intros pick ops fuel. exact (run_enough_fuel pick fuel ops). Qed.

Theorem C03_fuel_irrelevant : forall pick fuel ops st,
  run pick fuel init ops = Some st -> st = run_total pick ops.
Proof. exact run_some_is_total. Qed.

(* the measure: every iteration of the `while` loop of _process_queue (pstep)
   preserves the loop invariant TInv (= the run invariant Inv of the partial
   correctness proof + held has no duplicates + the cached gap starts at most
   at #labels * gap_size + 1) and strictly decreases
     mu st = (3|rules|+1) * SUM_{finite v in table} (1 + max 0 (B - v)) + 2|queue| + |held|,
     B = (#labels + 1) * gap_size + 1 *)
Theorem C03_loop_is_pstep : forall pick fuel st,
  process pick (S fuel) st =
  match pstep pick st with None => Some st | Some st' => process pick fuel st' end.
Proof. exact process_unfold. Qed.

Theorem C03_iteration_decreases : forall pick st st',
  TInv st -> pstep pick st = Some st' -> TInv st' /\ Same st st' /\ 0 <= mu st' < mu st.
Proof.
  exact pstep_decreases_nonneg.
Qed.

(* one _process_queue call terminates from every state satisfying the loop invariant *)
Theorem C03_process_terminates : forall pick fuel st,
  TInv st -> mu st < Z.of_nat fuel -> exists st', process pick fuel st = Some st'.
Proof. exact process_terminates. Qed.

(* why values stay bounded — pigeonhole: the first window of g consecutive
   values with empty pre-image starts at most at (#table entries) * g *)
Theorem C03_gap_start_bounded : forall f g, 1 <= g ->
  Model.preimage_gap f g <= Z.of_nat (length f) * g.
Proof. exact preimage_gap_le. Qed.

(* the main theorems with NO fuel hypothesis *)
Theorem C03_total_sound_complete : forall pick ops c,
  (pumping_answer (run_total pick ops) c = true <-> pumps (keys_of ops) c) /\
  (forall n, getf (fn (run_total pick ops)) c = Some n <-> terms (keys_of ops) c n).
Proof. exact total_sound_complete. Qed.

Theorem C03_total_order_independent : forall pick pick' ops ops',
  (forall r, In r (keys_of ops) <-> In r (keys_of ops')) ->
  forall c, getf (fn (run_total pick ops)) c = getf (fn (run_total pick' ops')) c.
Proof. exact total_order_independent. Qed.

Theorem C03_total_monotone : forall pick pick' ops ops',
  incl (keys_of ops) (keys_of ops') ->
  forall c, match getf (fn (run_total pick ops)) c, getf (fn (run_total pick' ops')) c with
            | None, None => True
            | None, Some _ => False
            | Some n, Some m => n <= m
            | Some _, None => True
            end.
Proof. exact total_monotone. Qed.

Theorem C03_total_pumping_subuniverse : forall pick ops i,
  In i (pumping_subuniverse (run_total pick ops)) <->
    (i < length (keys_of ops))%nat /\
    let r := nth i (keys_of ops) dummy in
    pumps (keys_of ops) (parent r) /\ forall c s, In (c, s) (kids r) -> pumps (keys_of ops) c.
Proof. exact total_subuniverse_spec. Qed.

(* the extracted model run by the harness (Forest/Run.v) uses fuel_bound: it
   can never answer "out of fuel" (-1), so agreement with the implementation
   is never an artefact of the fuel *)
Theorem C03_harness_never_out_of_fuel : forall ops,
  ~ In (L [I (-1)]) (run_obs (fuel_for ops) init ops).
Proof. exact run_obs_never_out_of_fuel. Qed.

(* non-vacuity: a history with a negative shift, a class that pumps only
   after a gap move, a finite non-zero class and an unknown label *)
Example C03_nonvacuous :
  let ops := [AddKey (mkkey 0 [(1%nat, 1)]); AddKey (mkkey 1 [(1%nat, 2); (2%nat, -1)]);
              IsPumping 7; AddKey (mkkey 2 [(3%nat, 3)]); AddKey (mkkey 4 [(0%nat, 0); (4%nat, 1)]);
              AddKey (mkkey 2 [])] in
  exists st, run (fun _ => O) 200 init ops = Some st /\
             map (getf (fn st)) [0; 1; 2; 3; 4; 7]%nat = [None; None; None; Some 0; None; Some 0].
Proof. eexists. split; vm_compute; reflexivity. Qed.

Example C03_nonvacuous_finite :
  let ops := [AddKey (mkkey 0 [(1%nat, 2)]); AddKey (mkkey 1 [(2%nat, 1)]); AddKey (mkkey 3 [(3%nat, 1)])] in
  exists st, run (fun _ => O) 200 init ops = Some st /\
             map (getf (fn st)) [0; 1; 2; 3]%nat = [Some 3; Some 1; Some 0; None].
Proof. eexists. split; vm_compute; reflexivity. Qed.

Example C03_total_nonvacuous :
  let ops := [AddKey (mkkey 0 [(1%nat, 1)]); AddKey (mkkey 1 [(1%nat, 2); (2%nat, -1)]);
              IsPumping 7; AddKey (mkkey 2 [(3%nat, 3)]); AddKey (mkkey 4 [(0%nat, 0); (4%nat, 1)]);
              AddKey (mkkey 2 [])] in
  Z.of_nat (fuel_bound ops) = 3715 /\
  map (getf (fn (run_total (fun _ => O) ops))) [0; 1; 2; 3; 4; 7]%nat = [None; None; None; Some 0; None; Some 0].
Proof. split; vm_compute; reflexivity. Qed.

(* ------------------------------------------------------------------------
   NON-VACUITY (audit): every theorem of this file with a premise is APPLIED to a concrete
   instance, so that Coq checks that what is discharged below are the theorem's own premises.
   Main history c3_ops: five keys over the labels 0..4 (a negative shift, a repeated parent, an
   empty right-hand side) and an interleaved query of the unknown label 7.  Second history
   c3_fin: three keys with FINITE non-zero answers (3, 1, 0 terms) and one pumping class. *)
Require Import Lia.
Definition c3_ops : list op :=
  [AddKey (mkkey 0 [(1%nat, 1)]); AddKey (mkkey 1 [(1%nat, 2); (2%nat, -1)]);
   IsPumping 7; AddKey (mkkey 2 [(3%nat, 3)]); AddKey (mkkey 4 [(0%nat, 0); (4%nat, 1)]);
   AddKey (mkkey 2 [])].
(* the same keys in the opposite order, the first key inserted a second time at the end *)
Definition c3_ops' : list op := rev c3_ops ++ [AddKey (mkkey 0 [(1%nat, 1)])].
Definition c3_fin : list op :=
  [AddKey (mkkey 0 [(1%nat, 2)]); AddKey (mkkey 1 [(2%nat, 1)]); AddKey (mkkey 3 [(3%nat, 1)])].
Definition c3_fin' : list op := AddKey (mkkey 2 [(4%nat, 5)]) :: c3_fin.
(* another resolution of set.pop() *)
Definition pickL (l : list nat) : nat := length l.

Definition c3_st : tm := Eval vm_compute in run_total pick0 c3_ops.
Definition c3_st' : tm := Eval vm_compute in run_total pickL c3_ops'.
Definition c3_fst : tm := Eval vm_compute in run_total pick0 c3_fin.
Definition c3_fst' : tm := Eval vm_compute in run_total pickL c3_fin'.
Lemma c3_run : run pick0 200 init c3_ops = Some c3_st.       Proof. vm_compute. reflexivity. Qed.
Lemma c3_run' : run pickL 300 init c3_ops' = Some c3_st'.    Proof. vm_compute. reflexivity. Qed.
Lemma c3_frun : run pick0 200 init c3_fin = Some c3_fst.     Proof. vm_compute. reflexivity. Qed.
Lemma c3_frun' : run pickL 300 init c3_fin' = Some c3_fst'.  Proof. vm_compute. reflexivity. Qed.
Example c3_values :
  map (getf (fn c3_st)) [0; 1; 2; 3; 4; 7]%nat = [None; None; None; Some 0; None; Some 0] /\
  map (getf (fn c3_fst)) [0; 1; 2; 3; 4]%nat = [Some 3; Some 1; Some 0; None; Some 0] /\
  map (getf (fn c3_fst')) [0; 1; 2; 3; 4]%nat = [Some 8; Some 6; Some 5; None; Some 0].
Proof. repeat split. Qed.

(* covers C03_sound_complete: both branches of both equivalences, read off the computed table *)
Example C03_sound_complete_nonvacuous :
  pumps (keys_of c3_ops) 1 /\ ~ pumps (keys_of c3_ops) 3 /\
  terms (keys_of c3_fin) 0 3 /\ ~ terms (keys_of c3_fin) 1 2.
Proof.
  split; [apply (C03_sound_complete pick0 200 c3_ops c3_st c3_run 1%nat); reflexivity|].
  split; [intros P; apply (C03_sound_complete pick0 200 c3_ops c3_st c3_run 3%nat) in P; discriminate|].
  split; [apply (C03_sound_complete pick0 200 c3_fin c3_fst c3_frun 0%nat); reflexivity|].
  intros P. apply (C03_sound_complete pick0 200 c3_fin c3_fst c3_frun 1%nat) in P. discriminate.
Qed.

Lemma c3_same_set : forall r, In r (keys_of c3_ops) <-> In r (keys_of c3_ops').
Proof. intros r. simpl. tauto. Qed.
Lemma c3_perm : Permutation (keys_of c3_ops) (keys_of (rev c3_ops)).
Proof. change (keys_of (rev c3_ops)) with (rev (keys_of c3_ops)). apply Permutation_rev. Qed.
Lemma c3_incl : incl (keys_of c3_fin) (keys_of c3_fin').
Proof. intros r H. simpl in *. tauto. Qed.

(* covers C03_order_independent: other order, other multiplicity, other fuel, other set.pop() *)
Example C03_order_independent_nonvacuous : forall c, getf (fn c3_st) c = getf (fn c3_st') c.
Proof. exact (C03_order_independent pick0 200 pickL 300 c3_ops c3_ops' c3_st c3_st' c3_run c3_run' c3_same_set). Qed.
(* the internal states differ (the rule lists are in different orders): the conclusion is about
   the answers only *)
Example c3_states_differ : rules c3_st <> rules c3_st'.
Proof. discriminate. Qed.

(* covers C03_permutation_independent *)
Example C03_permutation_independent_nonvacuous :
  exists st', run pickL 300 init (rev c3_ops) = Some st' /\ forall c, getf (fn c3_st) c = getf (fn st') c.
Proof.
  eexists. split; [vm_compute; reflexivity|].
  refine (C03_permutation_independent pick0 200 pickL 300 c3_ops (rev c3_ops) c3_st _ c3_run _ c3_perm).
  vm_compute. reflexivity.
Qed.

(* covers C03_monotone: one key added; the finite answers 3, 1, 0 grow to 8, 6, 5 *)
Example C03_monotone_nonvacuous :
  forall c, match getf (fn c3_fst) c, getf (fn c3_fst') c with
            | None, None => True | None, Some _ => False
            | Some n, Some m => n <= m | Some _, None => True end.
Proof. exact (C03_monotone pick0 200 pickL 300 c3_fin c3_fin' c3_fst c3_fst' c3_frun c3_frun' c3_incl). Qed.
(* the conclusion discriminates: the other way round it is false at class 0 (8 > 3) *)
Example C03_monotone_near_miss :
  ~ (forall c, match getf (fn c3_fst') c, getf (fn c3_fst) c with
               | None, None => True | None, Some _ => False
               | Some n, Some m => n <= m | Some _, None => True end).
Proof. intros H. specialize (H 0%nat). vm_compute in H. apply H. reflexivity. Qed.

(* covers C03_pumping_subuniverse: key 0 is in (all its classes pump), key 2 = (2 -> 3 shift 3)
   is out (class 3 has no term) *)
Example C03_pumping_subuniverse_nonvacuous :
  pumping_subuniverse c3_st = [0; 1; 3; 4]%nat /\
  (pumps (keys_of c3_ops) 0 /\ forall c s, In (c, s) [(1%nat, 1)] -> pumps (keys_of c3_ops) c) /\
  ~ (pumps (keys_of c3_ops) 2 /\ forall c s, In (c, s) [(3%nat, 3)] -> pumps (keys_of c3_ops) c).
Proof.
  split; [reflexivity|]. split.
  - apply (C03_pumping_subuniverse pick0 200 c3_ops c3_st c3_run 0%nat). simpl. auto.
  - intros H.
    assert (In 2%nat (pumping_subuniverse c3_st)) as Hin.
    { apply (C03_pumping_subuniverse pick0 200 c3_ops c3_st c3_run 2%nat). split; [simpl; lia|exact H]. }
    simpl in Hin. intuition discriminate.
Qed.

(* C03_function_dict has no premise; it discriminates: classes with 0 terms are left out *)
Example C03_function_dict_nonvacuous :
  function_dict c3_fst = [(0%nat, Some 3); (1%nat, Some 1); (3%nat, None)] /\
  In (1%nat, Some 1) (function_dict c3_fst) /\ ~ In (2%nat, Some 0) (function_dict c3_fst).
Proof.
  split; [reflexivity|]. split.
  - apply C03_function_dict. split; [simpl; lia|]. split; [reflexivity|discriminate].
  - intros H. apply C03_function_dict in H. destruct H as (_ & _ & H). apply H. reflexivity.
Qed.

(* covers C03_gap_lemma.  Rules 0 -> (0 shift 1)(3 shift -2), 1 -> (2 shift 1), 3 -> (3 shift 2);
   table 0:4 1:1 2:0 3:infinite, gap size g = 2, gap [2,3] (k = 2): no value inside the gap, class 1
   (below the gap) cannot move, class 0 sits at k + g.  The lemma concludes that class 0 pumps. *)
Definition gl_R : list fkey :=
  [mkkey 0 [(0%nat, 1); (3%nat, -2)]; mkkey 1 [(2%nat, 1)]; mkkey 3 [(3%nat, 2)]].
Definition gl_f (c : nat) : option Z :=
  match c with 0%nat => Some 4 | 1%nat => Some 1 | 3%nat => None | _ => Some 0 end.
Definition gl_dom (c : nat) : Prop := (c <= 3)%nat.
Lemma gl_pumps3 : pumps gl_R 3.
Proof.
  assert (forall v, 0 <= v -> derivable gl_R 3 v) as H.
  { intros v Hv. pattern v. apply natlike_ind; auto.
    - apply der_zero; lia.
    - intros x Hx D. apply (der_rule gl_R (mkkey 3 [(3%nat, 2)])); [simpl; auto|].
      intros c s [E|[]]; injection E as <- <-. apply (derivable_mono gl_R 3%nat x D). lia. }
  intros v. destruct (Z_lt_le_dec v 0); [apply der_zero; lia|auto].
Qed.
Lemma gl_step0 : forall v, derivable gl_R 0 (v - 1) -> derivable gl_R 0 v.
Proof.
  intros v D. apply (der_rule gl_R (mkkey 0 [(0%nat, 1); (3%nat, -2)])); [simpl; auto|].
  intros c s [E|[E|[]]]; injection E as <- <-; [exact D|apply gl_pumps3].
Qed.
Lemma gl_rules_dom : forall r c s, In r gl_R -> In (c, s) (kids r) -> gl_dom c.
Proof.
  unfold gl_dom. intros r c s [<-|[<-|[<-|[]]]] H; simpl in H;
    repeat (destruct H as [H|H]; [injection H as <- <-; lia|]); destruct H.
Qed.
Lemma gl_shifts : forall r c s, In r gl_R -> In (c, s) (kids r) -> - 2 <= s <= 2.
Proof.
  intros r c s [<-|[<-|[<-|[]]]] H; simpl in H;
    repeat (destruct H as [H|H]; [injection H as <- <-; lia|]); destruct H.
Qed.
Lemma gl_sound_fin : forall c n, gl_f c = Some n -> derivable gl_R c n.
Proof.
  intros [|[|[|[|c]]]] n H; simpl in H; try discriminate; injection H as <-; try (apply der_zero; lia).
  - do 4 (apply gl_step0; simpl). apply der_zero. lia.
  - apply (der_rule gl_R (mkkey 1 [(2%nat, 1)])); [simpl; auto|].
    intros c s [E|[]]; injection E as <- <-. apply der_zero. lia.
Qed.
Lemma gl_sound_inf : forall c, gl_f c = None -> pumps gl_R c.
Proof. intros [|[|[|[|c]]]] H; simpl in H; try discriminate. exact gl_pumps3. Qed.
Lemma gl_gap_empty : forall c n, gl_dom c -> gl_f c = Some n -> n < 2 \/ 2 + 2 <= n.
Proof. intros [|[|[|[|c]]]] n _ H; simpl in H; try discriminate; injection H as <-; lia. Qed.
Lemma gl_nonneg : forall c n, gl_f c = Some n -> 0 <= n.
Proof. intros [|[|[|[|c]]]] n H; simpl in H; try discriminate; injection H as <-; lia. Qed.
Lemma gl_low_stable : forall r n, In r gl_R -> gl_f (parent r) = Some n -> n < 2 ->
  exists c s m, In (c, s) (kids r) /\ gl_f c = Some m /\ m + s <= n.
Proof.
  intros r n [<-|[<-|[<-|[]]]] H Hn; simpl in H; try discriminate; injection H as <-; try lia.
  exists 2%nat, 1, 0. simpl. split; [auto|]. split; [reflexivity|lia].
Qed.
Example C03_gap_lemma_nonvacuous : pumps gl_R 0.
Proof.
  apply (C03_gap_lemma gl_R gl_f gl_dom 2 2 ltac:(lia) ltac:(lia) gl_rules_dom gl_shifts gl_sound_fin
           gl_sound_inf gl_gap_empty gl_nonneg gl_low_stable 0%nat 4 eq_refl). lia.
Qed.
(* the conclusion is not true of every class with a finite entry: class 1 (value 1, below the
   gap) does not pump — the premise k + g <= n is what separates the two *)
Example C03_gap_lemma_near_miss : ~ pumps gl_R 1.
Proof.
  intros P. specialize (P 2). inversion P as [|r v Hr Hk E]; [lia|].
  destruct Hr as [<-|[<-|[<-|[]]]]; try discriminate.
  specialize (Hk 2%nat 1 (or_introl eq_refl)).
  apply (derivable_no_rule gl_R 2%nat (2 - 1)) in Hk; [lia|].
  intros r' [<-|[<-|[<-|[]]]]; discriminate.
Qed.

(* covers C03_firing_test_is_source: finite parent (2 terms), an infinite child and a finite child;
   the rule fires with shift 2 on the finite child and does not with shift 1 *)
Definition ft_f : vals := [Some 2; None; Some 0; Some 1].
Example C03_firing_test_is_source_nonvacuous :
  ForestCanGiveTerms.can_give_terms
    (ForestComputeShift.compute_shift (getf ft_f 0) [getf ft_f 1; getf ft_f 3] [-3; 2]) = true /\
  ForestCanGiveTerms.can_give_terms
    (ForestComputeShift.compute_shift (getf ft_f 0) [getf ft_f 1; getf ft_f 3] [-3; 1]) = false.
Proof.
  split.
  - transitivity (can_fire ft_f (mkkey 0 [(1%nat, -3); (3%nat, 2)])); [|reflexivity].
    symmetry. exact (C03_firing_test_is_source ft_f (mkkey 0 [(1%nat, -3); (3%nat, 2)]) 2 eq_refl).
  - transitivity (can_fire ft_f (mkkey 0 [(1%nat, -3); (3%nat, 1)])); [|reflexivity].
    symmetry. exact (C03_firing_test_is_source ft_f (mkkey 0 [(1%nat, -3); (3%nat, 1)]) 2 eq_refl).
Qed.

(* C03_gap_search_is_source has no premise; the common value depends on the table and on g *)
Example C03_gap_search_is_source_nonvacuous :
  let f := [Some 0; Some 1; Some 3; None; Some 1] in
  map (ForestPreimageGap.preimage_gap (hist f)) [1; 2; 3] = [2; 4; 4] /\
  map (Model.preimage_gap f) [1; 2; 3] = [2; 4; 4].
Proof. split; reflexivity. Qed.

(* covers C03_terminates, C03_run_total, C03_fuel_irrelevant, C03_fuel_monotone *)
Example C03_terminates_nonvacuous : exists st, run pickL (S (fuel_bound c3_ops')) init c3_ops' = Some st.
Proof. apply (C03_terminates pickL c3_ops' (S (fuel_bound c3_ops'))). apply Nat.le_succ_diag_r. Qed.
(* ... and below the bound the run can really fail: the existential is not met by a default *)
Example C03_terminates_value :
  fuel_bound c3_ops = 3715%nat /\ run pick0 3715 init c3_ops = Some c3_st /\ run pick0 5 init c3_ops = None.
Proof. repeat split; vm_compute; reflexivity. Qed.
Example C03_run_total_nonvacuous : run pickL (S (fuel_bound c3_ops')) init c3_ops' = Some (run_total pickL c3_ops').
Proof. apply (C03_run_total pickL c3_ops' (S (fuel_bound c3_ops'))). apply Nat.le_succ_diag_r. Qed.
Example C03_fuel_irrelevant_nonvacuous : c3_st' = run_total pickL c3_ops'.
Proof. exact (C03_fuel_irrelevant pickL 300 c3_ops' c3_st' c3_run'). Qed.
(* from a NON-initial state: the state after the first three operations, the last three run on it *)
Definition c3_mid : tm := Eval vm_compute in run_total pick0 (firstn 3 c3_ops).
Lemma c3_mid_run : run pick0 40 c3_mid (skipn 3 c3_ops) = Some c3_st.
Proof. vm_compute. reflexivity. Qed.
Example C03_fuel_monotone_nonvacuous : run pick0 4000 c3_mid (skipn 3 c3_ops) = Some c3_st.
Proof.
  apply (C03_fuel_monotone pick0 40 4000 (skipn 3 c3_ops) c3_mid c3_st c3_mid_run).
  apply Nat.leb_le. reflexivity.
Qed.
Example C03_fuel_monotone_near_miss : run pick0 10 c3_mid (skipn 3 c3_ops) = None.
Proof. vm_compute. reflexivity. Qed.

(* covers C03_iteration_decreases and C03_process_terminates.  The state is the one add_rule_key
   hands to _process_queue when the key 2 -> () is inserted after the first five operations: a
   reachable, non-final state (non-empty queue); its loop invariant is PROVED, not assumed. *)
Definition c3_before : tm := Eval vm_compute in run_total pick0 (firstn 5 c3_ops).
Definition c3_pre : tm := Eval vm_compute in pre_process c3_before (mkkey 2 []).
Definition c3_s1 : tm := Eval vm_compute in match pstep pick0 c3_pre with Some s => s | None => init end.
Definition c3_s2 : tm := Eval vm_compute in match pstep pick0 c3_s1 with Some s => s | None => init end.
Lemma c3_pre_TInv : TInv c3_pre.
Proof.
  assert (run pick0 200 init (firstn 5 c3_ops) = Some c3_before) as Hr by (vm_compute; reflexivity).
  destruct (run_init_rules _ _ _ _ Hr) as [F _].
  assert (GapBound c3_before) as HB by (unfold GapBound; vm_compute; discriminate).
  destruct (pre_process_inv c3_before (mkkey 2 []) F) as [I3 _].
  destruct (pre_process_fields c3_before (mkkey 2 []) F HB) as (_ & _ & Eh & _ & HB3).
  change (pre_process c3_before (mkkey 2 [])) with c3_pre in *.
  split; [exact I3|]. split; [rewrite Eh; constructor|exact HB3].
Qed.
Lemma c3_step1 : pstep pick0 c3_pre = Some c3_s1.  Proof. vm_compute. reflexivity. Qed.
Lemma c3_step2 : pstep pick0 c3_s1 = Some c3_s2.   Proof. vm_compute. reflexivity. Qed.
Example C03_iteration_decreases_nonvacuous :
  TInv c3_s2 /\ Same c3_pre c3_s1 /\ Same c3_s1 c3_s2 /\ 0 <= mu c3_s2 < mu c3_s1 /\ mu c3_s1 < mu c3_pre.
Proof.
  destruct (C03_iteration_decreases pick0 c3_pre c3_s1 c3_pre_TInv c3_step1) as (T1 & S1 & M1).
  destruct (C03_iteration_decreases pick0 c3_s1 c3_s2 T1 c3_step2) as (T2 & S2 & M2).
  split; [exact T2|]. split; [exact S1|]. split; [exact S2|]. split; [exact M2|apply M1].
Qed.
Example C03_iteration_decreases_values :
  queue c3_pre = [4%nat] /\ queue c3_s1 = [1%nat; 4%nat] /\ queue c3_s2 = [4%nat; 0%nat] /\
  (mu c3_pre, mu c3_s1, mu c3_s2) = (3538, 3524, 3508) /\
  getf (fn c3_pre) 2 = Some 3 /\ getf (fn c3_s1) 2 = Some 4 /\ getf (fn c3_s2) 1 = Some 3.
Proof. repeat split. Qed.
Example C03_process_terminates_nonvacuous : exists st', process pick0 4000 c3_pre = Some st'.
Proof. apply (C03_process_terminates pick0 4000 c3_pre c3_pre_TInv). vm_compute. reflexivity. Qed.
Example C03_process_terminates_value :
  process pick0 4000 c3_pre = Some c3_st /\ process pick0 3 c3_pre = None.
Proof. split; vm_compute; reflexivity. Qed.

(* covers C03_gap_start_bounded (g = 2, five entries: bound 10, value 4) *)
Example C03_gap_start_bounded_nonvacuous :
  Model.preimage_gap [Some 0; Some 1; Some 3; None; Some 1] 2 <= 5 * 2.
Proof. apply (C03_gap_start_bounded [Some 0; Some 1; Some 3; None; Some 1] 2). lia. Qed.

(* covers the total forms *)
Example C03_total_sound_complete_nonvacuous :
  pumps (keys_of c3_ops') 4 /\ ~ pumps (keys_of c3_ops') 3 /\ terms (keys_of c3_fin') 1 6.
Proof.
  split; [apply (C03_total_sound_complete pickL c3_ops' 4%nat); vm_compute; reflexivity|].
  split; [intros P; apply (C03_total_sound_complete pickL c3_ops' 3%nat) in P; vm_compute in P; discriminate|].
  apply (C03_total_sound_complete pickL c3_fin' 1%nat). vm_compute. reflexivity.
Qed.
Example C03_total_order_independent_nonvacuous :
  forall c, getf (fn (run_total pick0 c3_ops)) c = getf (fn (run_total pickL c3_ops')) c.
Proof. exact (C03_total_order_independent pick0 pickL c3_ops c3_ops' c3_same_set). Qed.
Example C03_total_monotone_nonvacuous :
  forall c, match getf (fn (run_total pick0 c3_fin)) c, getf (fn (run_total pickL c3_fin')) c with
            | None, None => True | None, Some _ => False
            | Some n, Some m => n <= m | Some _, None => True end.
Proof. exact (C03_total_monotone pick0 pickL c3_fin c3_fin' c3_incl). Qed.
Example C03_total_pumping_subuniverse_nonvacuous :
  pumps (keys_of c3_ops) 4 /\ forall c s, In (c, s) [(0%nat, 0); (4%nat, 1)] -> pumps (keys_of c3_ops) c.
Proof.
  assert (In 3%nat (pumping_subuniverse (run_total pick0 c3_ops))) as H by (vm_compute; auto).
  exact (proj2 (proj1 (C03_total_pumping_subuniverse pick0 c3_ops 3%nat) H)).
Qed.
(* C03_fuel_bound_explicit and C03_loop_is_pstep have no premise; their instances on the history
   (5 keys, largest label 7, largest shift 3) and on the reachable state c3_pre (both branches of
   the loop: an iteration, and the exit from a final state) *)
Example C03_fuel_bound_explicit_nonvacuous :
  Z.of_nat (fuel_bound c3_ops) = (3 * 5 + 1) * ((7 + 1) * ((7 + 1 + 1) * 3 + 2)) + 3.
Proof. exact (C03_fuel_bound_explicit c3_ops). Qed.
Example C03_loop_is_pstep_nonvacuous :
  process pick0 8 c3_pre = process pick0 7 c3_s1 /\ process pick0 1 c3_st = Some c3_st.
Proof.
  split.
  - rewrite (C03_loop_is_pstep pick0 7 c3_pre), c3_step1. reflexivity.
  - rewrite (C03_loop_is_pstep pick0 0 c3_st). reflexivity.
Qed.
(* C03_harness_never_out_of_fuel has no premise; what the harness observes on c3_fin: *)
Example C03_harness_never_out_of_fuel_nonvacuous :
  ~ In (L [I (-1)]) (run_obs (fuel_for c3_fin) init c3_fin).
Proof. exact (C03_harness_never_out_of_fuel c3_fin). Qed.
Example C03_harness_obs_value :
  length (run_obs (fuel_for c3_fin) init c3_fin) = 3%nat /\ run_obs 1 init c3_fin = [L [I (-1)]].
Proof. split; vm_compute; reflexivity. Qed.

(* ================= the gap bookkeeping is the source's (translator) =================
   _increase_value parks a rule exactly when the source's test
   `current_value > self._current_gap[1]` holds, and _correct_gap computes the
   gap interval and releases the parked rules by the source's expressions
   (Gen/ForestIncreaseValueHold.v, Gen/ForestCorrectGapNewGap.v,
   Gen/ForestCorrectGapRelease.v, re-translated from rule_db/forest.py each run). *)
Theorem C03_hold_test_is_source : forall st c i,
  increase_value st c i =
  match getf (fn st) c with
  | None => st
  | Some v =>
      if ForestIncreaseValueHold.increase_value_hold v (snd (cgap st))
      then mktm (rules st) (fn st) (gsize st) (cgap st) (queue st) (add_held (held st) i)
      else
        let f' := upd (fn st) c (Some (v + 1)) in
        let st1 := mktm (rules st) f' (gsize st) (cgap st) (queue st) (held st) in
        let st2 := if fst (cgap st) =? Model.preimage_gap f' (gsize st) then st1 else correct_gap st1 in
        mktm (rules st2) (fn st2) (gsize st2) (cgap st2) (queue st2 ++ requeue st2 f' c) (held st2)
  end.
Proof. exact increase_value_is_source. Qed.

Theorem C03_correct_gap_is_source : forall st,
  correct_gap st =
  let ng := ForestCorrectGapNewGap.correct_gap_new_gap (Model.preimage_gap (fn st) (gsize st)) (gsize st) in
  let new := (Gen.Prelude.py_get 0 ng 0, Gen.Prelude.py_get 0 ng 1) in
  if ForestCorrectGapRelease.correct_gap_release ng (snd (cgap st))
  then mktm (rules st) (fn st) (gsize st) new (queue st ++ held st) []
  else mktm (rules st) (fn st) (gsize st) new (queue st) (held st).
Proof. exact correct_gap_is_source. Qed.

Print Assumptions C03_sound_complete.
Print Assumptions C03_order_independent.
Print Assumptions C03_permutation_independent.
Print Assumptions C03_monotone.
Print Assumptions C03_pumping_subuniverse.
Print Assumptions C03_function_dict.
Print Assumptions C03_gap_lemma.
Print Assumptions C03_firing_test_is_source.
Print Assumptions C03_gap_search_is_source.
Print Assumptions C03_terminates.
Print Assumptions C03_fuel_bound_explicit.
Print Assumptions C03_fuel_monotone.
Print Assumptions C03_run_total.
Print Assumptions C03_fuel_irrelevant.
Print Assumptions C03_loop_is_pstep.
Print Assumptions C03_iteration_decreases.
Print Assumptions C03_process_terminates.
Print Assumptions C03_gap_start_bounded.
Print Assumptions C03_total_sound_complete.
Print Assumptions C03_total_order_independent.
Print Assumptions C03_total_monotone.
Print Assumptions C03_total_pumping_subuniverse.
Print Assumptions C03_harness_never_out_of_fuel.
Print Assumptions C03_hold_test_is_source.
Print Assumptions C03_correct_gap_is_source.
