(* C03 — forest productivity detection equals the least fixed point, in any
   insert order.  Statements only; proofs are in Forest/*.v.

   `run pick fuel init ops = Some st` : the model of TableMethod went through the
   history `ops` (insertions of forest keys — any arity, repeated children,
   shifts of either sign — interleaved with is_pumping queries) without
   running out of fuel, with ANY resolution `pick` of the arbitrary `set.pop()`
   choices.  TERMINATION IS PROVED (second half of this file): the run returns
   for every fuel >= fuel_bound ops (an explicit computable bound), more fuel
   never changes the answer, and `run_total pick ops` is the state it returns;
   the C03_total_* theorems restate the main theorems with no fuel hypothesis.
   `keys_of ops` is the list of inserted keys; `derivable/pumps/terms` (Spec.v)
   are the inductive least-fixed-point reading of "terms computable".
   Because the statements hold for every history, they hold after every
   insertion (every prefix is a history). *)
From Coq Require Import ZArith List Bool Permutation.
From CSS Require Import Base.Sx Forest.Spec Forest.Model Forest.Invariant Forest.Correct Forest.Theorems
  Forest.GenBridge Forest.TerminationDefs Forest.TerminationGap Forest.Termination Forest.TerminationRun Forest.Run.
From CSS Require Gen.ForestCanGiveTerms Gen.ForestComputeShift Gen.ForestPreimageGap.
Import ListNotations.
Open Scope Z_scope.

(* reported pumping <-> pumps in the least fixed point; reported number of
   terms n <-> exactly n terms are derivable (unknown labels: 0 terms) *)
Theorem C03_sound_complete : forall pick fuel ops st,
  run pick fuel init ops = Some st ->
  forall c, (pumping_answer st c = true <-> pumps (keys_of ops) c) /\
            (forall n, getf (fn st) c = Some n <-> terms (keys_of ops) c n).
Proof. exact sound_complete. Qed.

(* the answer depends only on the SET of inserted rules: not on order, grouping,
   multiplicity, interleaved queries, fuel or the set.pop() choices *)
Theorem C03_order_independent : forall pick fuel pick' fuel' ops ops' st st',
  run pick fuel init ops = Some st -> run pick' fuel' init ops' = Some st' ->
  (forall r, In r (keys_of ops) <-> In r (keys_of ops')) ->
  forall c, getf (fn st) c = getf (fn st') c.
Proof. exact order_independent. Qed.

Theorem C03_permutation_independent : forall pick fuel pick' fuel' ops ops' st st',
  run pick fuel init ops = Some st -> run pick' fuel' init ops' = Some st' ->
  Permutation (keys_of ops) (keys_of ops') ->
  forall c, getf (fn st) c = getf (fn st') c.
Proof.
  intros pick fuel pick' fuel' ops ops' st st' H H' P.
  apply (order_independent _ _ _ _ _ _ _ _ H H').
  intros r; split; apply Permutation_in; auto using Permutation_sym.
Qed.

(* it only grows when rules are added: pumping classes stay pumping, finite
   values do not decrease *)
Theorem C03_monotone : forall pick fuel pick' fuel' ops ops' st st',
  run pick fuel init ops = Some st -> run pick' fuel' init ops' = Some st' ->
  incl (keys_of ops) (keys_of ops') ->
  forall c, match getf (fn st) c, getf (fn st') c with
            | None, None => True
            | None, Some _ => False
            | Some n, Some m => n <= m
            | Some _, None => True
            end.
Proof. exact monotone. Qed.

(* the pumping sub-universe handed to the extractor is exactly the set of
   inserted keys all of whose classes pump *)
Theorem C03_pumping_subuniverse : forall pick fuel ops st,
  run pick fuel init ops = Some st ->
  forall i, In i (pumping_subuniverse st) <->
    (i < length (keys_of ops))%nat /\
    let r := nth i (keys_of ops) dummy in
    pumps (keys_of ops) (parent r) /\ forall c s, In (c, s) (kids r) -> pumps (keys_of ops) c.
Proof. exact subuniverse_spec. Qed.

(* the dictionary TableMethod.function exposes is the table restricted to non-zero entries *)
Theorem C03_function_dict : forall st c v,
  In (c, v) (function_dict st) <->
  (c < length (fn st))%nat /\ getf (fn st) c = v /\ v <> Some 0.
Proof. exact function_dict_spec. Qed.

(* what makes _set_infinite sound, stated on its own (Spec.gap_lemma) *)
Theorem C03_gap_lemma : forall R (f : nat -> option Z) (dom : nat -> Prop) k g,
  1 <= g -> 0 <= k ->
  (forall r c s, In r R -> In (c, s) (kids r) -> dom c) ->
  (forall r c s, In r R -> In (c, s) (kids r) -> - g <= s <= g) ->
  (forall c n, f c = Some n -> derivable R c n) ->
  (forall c, f c = None -> pumps R c) ->
  (forall c n, dom c -> f c = Some n -> n < k \/ k + g <= n) ->
  (forall c n, f c = Some n -> 0 <= n) ->
  (forall r n, In r R -> f (parent r) = Some n -> n < k ->
     exists c s m, In (c, s) (kids r) /\ f c = Some m /\ m + s <= n) ->
  forall c n, f c = Some n -> k + g <= n -> pumps R c.
Proof. exact gap_lemma. Qed.

(* The model's arithmetic IS the source's arithmetic.  can_give_terms,
   compute_shift and ForestPreimageGap.preimage_gap are re-translated from
   TableMethod._can_give_terms, TableMethod._compute_shift and
   Function.preimage_gap on every run (Gen/Forest*.v).  The firing test every
   theorem above is about equals _can_give_terms applied to the shifts
   _compute_shift derives from the current table (for a rule with a finite
   parent: rules of an infinite parent are never examined), and the gap search
   equals Function.preimage_gap on the histogram of the finite values. *)
Theorem C03_firing_test_is_source : forall f r p,
  getf f (parent r) = Some p ->
  can_fire f r =
  ForestCanGiveTerms.can_give_terms
    (ForestComputeShift.compute_shift (getf f (parent r))
       (map (fun cs => getf f (fst cs)) (kids r)) (map snd (kids r))).
Proof. exact can_fire_is_source. Qed.

Theorem C03_gap_search_is_source : forall f g,
  Model.preimage_gap f g = ForestPreimageGap.preimage_gap (hist f) g.
Proof. exact preimage_gap_is_source. Qed.

(* ================= TERMINATION (total correctness) =================
   Model.process (TableMethod._process_queue) recurses on explicit fuel and
   returns None when it runs out.  The fuel is never the reason for failure. *)

(* every history (any keys, any queries), every resolution of set.pop():
   the run returns as soon as the fuel reaches the explicit bound
     fuel_bound ops = (3R+1) * n * ((n+1)*g + 2) + 3,
   R = #inserted keys, n = 1 + largest label, g = max(1, largest |shift|) *)
Theorem C03_terminates : forall pick ops fuel,
  (fuel_bound ops <= fuel)%nat -> exists st, run pick fuel init ops = Some st.
Proof. exact run_terminates. Qed.

Theorem C03_fuel_bound_explicit : forall ops,
  Z.of_nat (fuel_bound ops) =
  (3 * Z.of_nat (length (keys_of ops)) + 1) *
    ((max_label ops + 1) * ((max_label ops + 1 + 1) * max_shift ops + 2)) + 3.
Proof. exact fuel_bound_explicit. Qed.

(* more fuel gives the same answer (from any state) *)
Theorem C03_fuel_monotone : forall pick fuel fuel' ops st st',
  run pick fuel st ops = Some st' -> (fuel <= fuel')%nat -> run pick fuel' st ops = Some st'.
Proof. intros pick fuel fuel' ops st st'. exact (run_fuel_mono pick fuel fuel' ops st st'). Qed.

(* hence the model is a total function of (pick, history): run_total *)
Theorem C03_run_total : forall pick ops fuel,
  (fuel_bound ops <= fuel)%nat -> run pick fuel init ops = Some (run_total pick ops).
Proof. intros pick ops fuel. exact (run_enough_fuel pick fuel ops). Qed.

Theorem C03_fuel_irrelevant : forall pick fuel ops st,
  run pick fuel init ops = Some st -> st = run_total pick ops.
Proof. exact run_some_is_total. Qed.

(* the measure: every iteration of the `while` loop of _process_queue (pstep)
   preserves the loop invariant TInv (= the run invariant Inv of the partial
   correctness proof + held has no duplicates + the cached gap starts at most
   at #labels * gap_size + 1) and strictly decreases
     mu st = (3|rules|+1) * SUM_{finite v in table} (1 + max 0 (B - v)) + 2|queue| + |held|,
     B = (#labels + 1) * gap_size + 1 *)
Theorem C03_loop_is_pstep : forall pick fuel st,
  process pick (S fuel) st =
  match pstep pick st with None => Some st | Some st' => process pick fuel st' end.
Proof. exact process_unfold. Qed.

Theorem C03_iteration_decreases : forall pick st st',
  TInv st -> pstep pick st = Some st' -> TInv st' /\ Same st st' /\ 0 <= mu st' < mu st.
Proof.
  exact pstep_decreases_nonneg.
Qed.

(* one _process_queue call terminates from every state satisfying the loop invariant *)
Theorem C03_process_terminates : forall pick fuel st,
  TInv st -> mu st < Z.of_nat fuel -> exists st', process pick fuel st = Some st'.
Proof. exact process_terminates. Qed.

(* why values stay bounded — pigeonhole: the first window of g consecutive
   values with empty pre-image starts at most at (#table entries) * g *)
Theorem C03_gap_start_bounded : forall f g, 1 <= g ->
  Model.preimage_gap f g <= Z.of_nat (length f) * g.
Proof. exact preimage_gap_le. Qed.

(* the main theorems with NO fuel hypothesis *)
Theorem C03_total_sound_complete : forall pick ops c,
  (pumping_answer (run_total pick ops) c = true <-> pumps (keys_of ops) c) /\
  (forall n, getf (fn (run_total pick ops)) c = Some n <-> terms (keys_of ops) c n).
Proof. exact total_sound_complete. Qed.

Theorem C03_total_order_independent : forall pick pick' ops ops',
  (forall r, In r (keys_of ops) <-> In r (keys_of ops')) ->
  forall c, getf (fn (run_total pick ops)) c = getf (fn (run_total pick' ops')) c.
Proof. exact total_order_independent. Qed.

Theorem C03_total_monotone : forall pick pick' ops ops',
  incl (keys_of ops) (keys_of ops') ->
  forall c, match getf (fn (run_total pick ops)) c, getf (fn (run_total pick' ops')) c with
            | None, None => True
            | None, Some _ => False
            | Some n, Some m => n <= m
            | Some _, None => True
            end.
Proof. exact total_monotone. Qed.

Theorem C03_total_pumping_subuniverse : forall pick ops i,
  In i (pumping_subuniverse (run_total pick ops)) <->
    (i < length (keys_of ops))%nat /\
    let r := nth i (keys_of ops) dummy in
    pumps (keys_of ops) (parent r) /\ forall c s, In (c, s) (kids r) -> pumps (keys_of ops) c.
Proof. exact total_subuniverse_spec. Qed.

(* the extracted model run by the harness (Forest/Run.v) uses fuel_bound: it
   can never answer "out of fuel" (-1), so agreement with the implementation
   is never an artefact of the fuel *)
Theorem C03_harness_never_out_of_fuel : forall ops,
  ~ In (L [I (-1)]) (run_obs (fuel_for ops) init ops).
Proof. exact run_obs_never_out_of_fuel. Qed.

(* non-vacuity: a history with a negative shift, a class that pumps only
   after a gap move, a finite non-zero class and an unknown label *)
Example C03_nonvacuous :
  let ops := [AddKey (mkkey 0 [(1%nat, 1)]); AddKey (mkkey 1 [(1%nat, 2); (2%nat, -1)]);
              IsPumping 7; AddKey (mkkey 2 [(3%nat, 3)]); AddKey (mkkey 4 [(0%nat, 0); (4%nat, 1)]);
              AddKey (mkkey 2 [])] in
  exists st, run (fun _ => O) 200 init ops = Some st /\
             map (getf (fn st)) [0; 1; 2; 3; 4; 7]%nat = [None; None; None; Some 0; None; Some 0].
Proof. eexists. split; vm_compute; reflexivity. Qed.

Example C03_nonvacuous_finite :
  let ops := [AddKey (mkkey 0 [(1%nat, 2)]); AddKey (mkkey 1 [(2%nat, 1)]); AddKey (mkkey 3 [(3%nat, 1)])] in
  exists st, run (fun _ => O) 200 init ops = Some st /\
             map (getf (fn st)) [0; 1; 2; 3]%nat = [Some 3; Some 1; Some 0; None].
Proof. eexists. split; vm_compute; reflexivity. Qed.

Example C03_total_nonvacuous :
  let ops := [AddKey (mkkey 0 [(1%nat, 1)]); AddKey (mkkey 1 [(1%nat, 2); (2%nat, -1)]);
              IsPumping 7; AddKey (mkkey 2 [(3%nat, 3)]); AddKey (mkkey 4 [(0%nat, 0); (4%nat, 1)]);
              AddKey (mkkey 2 [])] in
  Z.of_nat (fuel_bound ops) = 3715 /\
  map (getf (fn (run_total (fun _ => O) ops))) [0; 1; 2; 3; 4; 7]%nat = [None; None; None; Some 0; None; Some 0].
Proof. split; vm_compute; reflexivity. Qed.

Print Assumptions C03_sound_complete.
Print Assumptions C03_order_independent.
Print Assumptions C03_permutation_independent.
Print Assumptions C03_monotone.
Print Assumptions C03_pumping_subuniverse.
Print Assumptions C03_function_dict.
Print Assumptions C03_gap_lemma.
Print Assumptions C03_firing_test_is_source.
Print Assumptions C03_gap_search_is_source.
Print Assumptions C03_terminates.
Print Assumptions C03_fuel_bound_explicit.
Print Assumptions C03_fuel_monotone.
Print Assumptions C03_run_total.
Print Assumptions C03_fuel_irrelevant.
Print Assumptions C03_loop_is_pstep.
Print Assumptions C03_iteration_decreases.
Print Assumptions C03_process_terminates.
Print Assumptions C03_gap_start_bounded.
Print Assumptions C03_total_sound_complete.
Print Assumptions C03_total_order_independent.
Print Assumptions C03_total_monotone.
Print Assumptions C03_total_pumping_subuniverse.
Print Assumptions C03_harness_never_out_of_fuel.
