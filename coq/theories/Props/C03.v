(* C03 — forest productivity detection equals the least fixed point, in any
   insert order.  Statements only; proofs are in Forest/*.v.

   `run pick fuel init ops = Some st` : the model of TableMethod went through the
   history `ops` (insertions of forest keys — any arity, repeated children,
   shifts of either sign — interleaved with is_pumping queries) without
   running out of fuel (termination is NOT proved: partial correctness), with
   ANY resolution `pick` of the arbitrary `set.pop()` choices.
   `keys_of ops` is the list of inserted keys; `derivable/pumps/terms` (Spec.v)
   are the inductive least-fixed-point reading of "terms computable".
   Because the statements hold for every history, they hold after every
   insertion (every prefix is a history). *)
From Coq Require Import ZArith List Bool Permutation.
From CSS Require Import Forest.Spec Forest.Model Forest.Correct Forest.Theorems Forest.GenBridge.
From CSS Require Gen.ForestCanGiveTerms Gen.ForestComputeShift Gen.ForestPreimageGap.
Import ListNotations.
Open Scope Z_scope.

(* reported pumping <-> pumps in the least fixed point; reported number of
   terms n <-> exactly n terms are derivable (unknown labels: 0 terms) *)
Theorem C03_sound_complete : forall pick fuel ops st,
  run pick fuel init ops = Some st ->
  forall c, (pumping_answer st c = true <-> pumps (keys_of ops) c) /\
            (forall n, getf (fn st) c = Some n <-> terms (keys_of ops) c n).
Proof. exact sound_complete. Qed.

(* the answer depends only on the SET of inserted rules: not on order, grouping,
   multiplicity, interleaved queries, fuel or the set.pop() choices *)
Theorem C03_order_independent : forall pick fuel pick' fuel' ops ops' st st',
  run pick fuel init ops = Some st -> run pick' fuel' init ops' = Some st' ->
  (forall r, In r (keys_of ops) <-> In r (keys_of ops')) ->
  forall c, getf (fn st) c = getf (fn st') c.
Proof. exact order_independent. Qed.

Theorem C03_permutation_independent : forall pick fuel pick' fuel' ops ops' st st',
  run pick fuel init ops = Some st -> run pick' fuel' init ops' = Some st' ->
  Permutation (keys_of ops) (keys_of ops') ->
  forall c, getf (fn st) c = getf (fn st') c.
Proof.
  intros pick fuel pick' fuel' ops ops' st st' H H' P.
  apply (order_independent _ _ _ _ _ _ _ _ H H').
  intros r; split; apply Permutation_in; auto using Permutation_sym.
Qed.

(* it only grows when rules are added: pumping classes stay pumping, finite
   values do not decrease *)
Theorem C03_monotone : forall pick fuel pick' fuel' ops ops' st st',
  run pick fuel init ops = Some st -> run pick' fuel' init ops' = Some st' ->
  incl (keys_of ops) (keys_of ops') ->
  forall c, match getf (fn st) c, getf (fn st') c with
            | None, None => True
            | None, Some _ => False
            | Some n, Some m => n <= m
            | Some _, None => True
            end.
Proof. exact monotone. Qed.

(* the pumping sub-universe handed to the extractor is exactly the set of
   inserted keys all of whose classes pump *)
Theorem C03_pumping_subuniverse : forall pick fuel ops st,
  run pick fuel init ops = Some st ->
  forall i, In i (pumping_subuniverse st) <->
    (i < length (keys_of ops))%nat /\
    let r := nth i (keys_of ops) dummy in
    pumps (keys_of ops) (parent r) /\ forall c s, In (c, s) (kids r) -> pumps (keys_of ops) c.
Proof. exact subuniverse_spec. Qed.

(* the dictionary TableMethod.function exposes is the table restricted to non-zero entries *)
Theorem C03_function_dict : forall st c v,
  In (c, v) (function_dict st) <->
  (c < length (fn st))%nat /\ getf (fn st) c = v /\ v <> Some 0.
Proof. exact function_dict_spec. Qed.

(* what makes _set_infinite sound, stated on its own (Spec.gap_lemma) *)
Theorem C03_gap_lemma : forall R (f : nat -> option Z) (dom : nat -> Prop) k g,
  1 <= g -> 0 <= k ->
  (forall r c s, In r R -> In (c, s) (kids r) -> dom c) ->
  (forall r c s, In r R -> In (c, s) (kids r) -> - g <= s <= g) ->
  (forall c n, f c = Some n -> derivable R c n) ->
  (forall c, f c = None -> pumps R c) ->
  (forall c n, dom c -> f c = Some n -> n < k \/ k + g <= n) ->
  (forall c n, f c = Some n -> 0 <= n) ->
  (forall r n, In r R -> f (parent r) = Some n -> n < k ->
     exists c s m, In (c, s) (kids r) /\ f c = Some m /\ m + s <= n) ->
  forall c n, f c = Some n -> k + g <= n -> pumps R c.
Proof. exact gap_lemma. Qed.

(* The model's arithmetic IS the source's arithmetic.  can_give_terms,
   compute_shift and ForestPreimageGap.preimage_gap are re-translated from
   TableMethod._can_give_terms, TableMethod._compute_shift and
   Function.preimage_gap on every run (Gen/Forest*.v).  The firing test every
   theorem above is about equals _can_give_terms applied to the shifts
   _compute_shift derives from the current table (for a rule with a finite
   parent: rules of an infinite parent are never examined), and the gap search
   equals Function.preimage_gap on the histogram of the finite values. *)
Theorem C03_firing_test_is_source : forall f r p,
  getf f (parent r) = Some p ->
  can_fire f r =
  ForestCanGiveTerms.can_give_terms
    (ForestComputeShift.compute_shift (getf f (parent r))
       (map (fun cs => getf f (fst cs)) (kids r)) (map snd (kids r))).
Proof. exact can_fire_is_source. Qed.

Theorem C03_gap_search_is_source : forall f g,
  Model.preimage_gap f g = ForestPreimageGap.preimage_gap (hist f) g.
Proof. exact preimage_gap_is_source. Qed.

(* non-vacuity: a history with a negative shift, a class that pumps only
   after a gap move, a finite non-zero class and an unknown label *)
Example C03_nonvacuous :
  let ops := [AddKey (mkkey 0 [(1%nat, 1)]); AddKey (mkkey 1 [(1%nat, 2); (2%nat, -1)]);
              IsPumping 7; AddKey (mkkey 2 [(3%nat, 3)]); AddKey (mkkey 4 [(0%nat, 0); (4%nat, 1)]);
              AddKey (mkkey 2 [])] in
  exists st, run (fun _ => O) 200 init ops = Some st /\
             map (getf (fn st)) [0; 1; 2; 3; 4; 7]%nat = [None; None; None; Some 0; None; Some 0].
Proof. eexists. split; vm_compute; reflexivity. Qed.

Example C03_nonvacuous_finite :
  let ops := [AddKey (mkkey 0 [(1%nat, 2)]); AddKey (mkkey 1 [(2%nat, 1)]); AddKey (mkkey 3 [(3%nat, 1)])] in
  exists st, run (fun _ => O) 200 init ops = Some st /\
             map (getf (fn st)) [0; 1; 2; 3]%nat = [Some 3; Some 1; Some 0; None].
Proof. eexists. split; vm_compute; reflexivity. Qed.

Print Assumptions C03_sound_complete.
Print Assumptions C03_order_independent.
Print Assumptions C03_permutation_independent.
Print Assumptions C03_monotone.
Print Assumptions C03_pumping_subuniverse.
Print Assumptions C03_function_dict.
Print Assumptions C03_gap_lemma.
Print Assumptions C03_firing_test_is_source.
Print Assumptions C03_gap_search_is_source.
