(* sx interface of the two-database model (RuleDB/Model.v).
   input  = [ [root; iterative; fallback (; verified)]; empty bits; strats; pack order; classes by label; steps ]
     strats as in Searcher/Run.v (dec_strat); pack order = strategy ids in the order of
     StrategyPack.__iter__ (initial, ver, inferral, symmetries, expansion sets)
     step   = [ nlab; cached emptiness by label (-1 unknown / 0 / 1), BEFORE the call;
                [start; ends; sid; parent; kind (0 plain, 1 verification, 2 empty)];
                full (0/1); contains queries [[start; ends] ...]; repsA; repsB; reset (0/1) ]
     reset = 1: both databases are emptied before this call (a logged rule sequence fed again, in
     another order, to fresh databases)
     reps   = equivdb[label] by label after connect_cycles ([] = has_specification not asked)
     COMPATIBLE EXTENSION (is_verified in the compared output): when the 4th header flag `verified` is 1, a step may
     carry two more fields  envA; envB = the calls the REST of the program (the searcher's own has_specification())
     made on the equivalence database of the default / the memory-saving database since the previous add, oldest
     first: [5; label] set_verified, [7] connect_cycles (the environment's move, like the class database of the
     step); the model keeps the two equivalence databases as states of the C06 model (Equiv/Model.v), applies
     envA / envB and then the calls THIS add makes (b_eq), and each output entry gets one more element after the
     cached emptiness:  [ is_verified(l) for every label l of the class database after the add, default database;
     the same, memory-saving database ]  (2 in place of a list = the C06 model ran out of fuel: never).  The
     is_verified calls themselves are made on a copy (the harness restores the real database as well).
     fallback = 1: RecomputingDict.__getitem__ replays the pack on the classes of the key and then on every other
     label (the code as it is since fix 59cdf67, rec_getitem_all; what the harness sends); 0: on the classes of
     the key only (the code before that fix, rec_getitem)
   Both databases start empty and receive every add, each time on the class database
   of the step (what the searcher did to it in between is the environment's move).
   output = one entry per step:
            [ status; keys of rule_to_strategy (dict); of eqv_rule_to_strategy (dict);
              the same two for the memory-saving database; equivdb calls of this add;
              set_stop_yielding calls of this add; cached emptiness after the add;
              then, when full = 1:
              per key of rule_to_strategy: [key; dict strategy id; reproduces; recompute code; reproduces]
              per key of eqv_rule_to_strategy: the same, `reproduces` also demanding a two-way rule;
              contains answers [[dict; memory-saving] ...];
              has_specification [dict; memory-saving] (2 = not asked / undefined) ]
            keys are flattened and sorted; recompute code: 0 strategy handed back,
            1 KeyError, 2 RuntimeError (could not recompute), 10+e exception e of the class database;
            every lookup starts from the class database as the add left it *)
From Coq Require Import ZArith List Bool.
From CSS Require Import Base.Sx Base.PyList ClassDB.Model Searcher.Model Searcher.Run RuleDB.Model.
From CSS Require Searcher.DecidersRun.
From CSS Require Equiv.Model.
Import ListNotations.
Open Scope Z_scope.

Fixpoint lex_leb (a b : list Z) : bool :=
  match a, b with
  | [], _ => true
  | _ :: _, [] => false
  | x :: a', y :: b' => if x <? y then true else if y <? x then false else lex_leb a' b'
  end.
Fixpoint lex_insert (x : list Z) (l : list (list Z)) : list (list Z) :=
  match l with
  | [] => [x]
  | y :: t => if lex_leb x y then x :: l else y :: lex_insert x t
  end.
Definition lex_sort (l : list (list Z)) : list (list Z) := fold_right lex_insert [] l.

Definition sorted_keys (ks : list key) : list key := map unflatten (lex_sort (map flatten ks)).
Definition enc_keys (ks : list key) : sx := L (map (fun k => of_Zs (flatten k)) (sorted_keys ks)).

Fixpoint zip_from (n : Z) (l : list Z) : list (Z * Z) :=
  match l with
  | [] => []
  | c :: t => (c, n) :: zip_from (n + 1) t
  end.

Definition dec_empty (z : Z) : option bool := if z <? 0 then None else Some (negb (z =? 0)).
Definition mk_cdb (classes : list Z) (nlab : nat) (em : list Z) : cdbT :=
  let cs := firstn nlab classes in
  mk cs (zip_from 0 cs) (map dec_empty em) 0.

Definition dec_rule (s : sx) : Z * list Z * rule :=
  let k := sx_Z (sx_nth s 4) in
  (sx_Z (sx_nth s 0), sx_Zs (sx_nth s 1),
   mkR (sx_Z (sx_nth s 2)) (sx_Z (sx_nth s 3)) (if k =? 0 then RPlain else if k =? 1 then RVer else REmpty)).

Definition dec_query (s : sx) : Z * list Z := (sx_Z (sx_nth s 0), sx_Zs (sx_nth s 1)).

Definition enc_eqcall (c : eqcall) : sx :=
  match c with
  | EqVerified l => L [I 5; I l]
  | EqEdge tw a b => L [I 6; of_bool tw; I a; I b]
  end.

Definition enc_gres (g : gres) : Z :=
  match g with
  | GOk _ _ => 0
  | GKeyError => 1
  | GFail => 2
  | GErr e => 10 + err_z e
  end.

Definition enc_optb (o : option bool) : sx :=
  match o with Some b => of_bool b | None => I 2 end.

Definition rep_of (reps : list Z) (l : Z) : Z :=
  if l <? 0 then l else nth (Z.to_nat l) reps l.

(* ---- the equivalence database (C06 model) fed with the calls of add and of the environment ---- *)
Definition op_of_eqcall (c : eqcall) : Equiv.Model.op :=
  match c with
  | EqVerified l => Equiv.Model.SetVerified l
  | EqEdge true a b => Equiv.Model.TwoWay a b
  | EqEdge false a b => Equiv.Model.OneWay a b
  end.
(* the calls made on the equivalence database so far, oldest first, as operations of the C06 model *)
Definition eq_ops (calls_newest_first : list eqcall) : list Equiv.Model.op := map op_of_eqcall (rev calls_newest_first).
Definition dec_env (s : sx) : list Equiv.Model.op :=
  map (fun c => let a := sx_Zs c in
                if nth 0 a 0 =? 5 then Equiv.Model.SetVerified (nth 1 a 0) else Equiv.Model.Connect) (sx_list s).
Definition eq_apply (e : option Equiv.Model.db) (ops : list Equiv.Model.op) : option Equiv.Model.db :=
  match e with
  | None => None
  | Some s => Equiv.Model.run_state Equiv.Model.isort s ops
  end.
(* [ruledb.is_verified(l) for l in range(n)], each call on the state the previous one left *)
Fixpoint verified_from (s : Equiv.Model.db) (l : Z) (n : nat) : option (list Z) :=
  match n with
  | O => Some []
  | S m => match Equiv.Model.is_verified s l with
           | None => None
           | Some (s1, v) => match verified_from s1 (l + 1) m with
                             | None => None
                             | Some r => Some ((if v then 1 else 0) :: r)
                             end
           end
  end.
Definition enc_verified (e : option Equiv.Model.db) (n : nat) : sx :=
  match e with
  | None => I 2
  | Some s => match verified_from s 0 n with Some r => of_Zs r | None => I 2 end
  end.

Section Run.
Variable T : table.
Variable pack : list Z.
Variable classes : list Z.
Variables (root : Z) (iterative fallback withver : bool).

(* other_labels (range(len(classdb)) minus the labels of the key): RuleDB/Model.v *)

(* the rule re-applied is two-way (asked for what the equivalence store hands back) *)
Definition two_way_again (d : cdbT) (sid : Z) (k : key) : bool :=
  match snd (c_get_class d (fst k)) with
  | RClass p => r_two_way T (rule_of T sid p)
  | _ => false
  end.
Definition repro (only_equiv : bool) (d : cdbT) (sid : Z) (k : key) : bool :=
  reproduces T d sid k && (negb only_equiv || two_way_again d sid k).

Definition lookups (only_equiv : bool) (ds : dstore) (rs : rstore_t) (d : cdbT) : sx :=
  L (map (fun k =>
       let dv := d_get k ds in
       let '(d', g) := rec_getitem_x T (if fallback then other_labels d k else []) pack only_equiv rs d k in
       L [ of_Zs (flatten k);
           I (match dv with Some v => v | None => -2 end);
           of_bool (match dv with Some v => repro only_equiv d v k | None => false end);
           I (enc_gres g);
           of_bool (match g with GOk sid _ => repro only_equiv d' sid k | _ => false end) ])
     (sorted_keys (d_keys ds))).

Definition run_step (st : dbst dstore * dbst rstore_t * (option Equiv.Model.db * option Equiv.Model.db) * list sx) (s : sx)
  : dbst dstore * dbst rstore_t * (option Equiv.Model.db * option Equiv.Model.db) * list sx :=
  let '(a, b, (ea, eb), acc) := st in
  let d := mk_cdb classes (sx_nat (sx_nth s 0)) (sx_Zs (sx_nth s 1)) in
  let '(start, ends, r) := dec_rule (sx_nth s 2) in
  let reset := sx_bool (sx_nth s 7) in
  let a0 := if reset then dict_init d else gen_step T dstore d_set d_mem d_del a (HEnv d) in
  let b0 := if reset then rec_init d else gen_step T rstore_t r_set r_mem r_del b (HEnv d) in
  let a1 := dict_add T a0 start ends r in
  let b1 := rec_add T b0 start ends r in
  let neq := (length (b_eq dstore a1) - length (b_eq dstore a0))%nat in
  let neqb := (length (b_eq rstore_t b1) - length (b_eq rstore_t b0))%nat in
  let ea0 := if reset then Some Equiv.Model.init else ea in
  let eb0 := if reset then Some Equiv.Model.init else eb in
  let ea1 := if withver then eq_apply ea0 (dec_env (sx_nth s 8) ++ eq_ops (firstn neq (b_eq dstore a1))) else ea0 in
  let eb1 := if withver then eq_apply eb0 (dec_env (sx_nth s 9) ++ eq_ops (firstn neqb (b_eq rstore_t b1))) else eb0 in
  let nl := length (ClassDB.Model.classes (b_cdb dstore a1)) in
  let ver := if withver then [L [enc_verified ea1 nl; enc_verified eb1 nl]] else [] in
  let nst := (length (b_stop dstore a1) - length (b_stop dstore a0))%nat in
  let base :=
    [ I (b_stat dstore a1);
      enc_keys (d_keys (b_r dstore a1)); enc_keys (d_keys (b_e dstore a1));
      enc_keys (r_keys (b_r rstore_t b1)); enc_keys (r_keys (b_e rstore_t b1));
      L (map enc_eqcall (rev (firstn neq (b_eq dstore a1))));
      of_Zs (rev (firstn nst (b_stop dstore a1)));
      L (map enc_empty (empties (b_cdb dstore a1))) ] in
  let full :=
    if sx_bool (sx_nth s 3) then
      let qs := map dec_query (sx_list (sx_nth s 4)) in
      let hs (reps : list Z) (kr ke : list key) :=
        match reps with
        | [] => I 2
        | _ => enc_optb (db_has_spec (rep_of reps) kr ke root iterative)
        end in
      [ lookups false (b_r dstore a1) (b_r rstore_t b1) (b_cdb rstore_t b1);
        lookups true (b_e dstore a1) (b_e rstore_t b1) (b_cdb rstore_t b1);
        L (map (fun q => L [ of_bool (dict_contains a1 (fst q) (snd q));
                             of_bool (rec_contains b1 (fst q) (snd q)) ]) qs);
        L [ hs (sx_Zs (sx_nth s 5)) (d_keys (b_r dstore a1)) (d_keys (b_e dstore a1));
            hs (sx_Zs (sx_nth s 6)) (r_keys (b_r rstore_t b1)) (r_keys (b_e rstore_t b1)) ] ]
    else [] in
  (a1, b1, (ea1, eb1), L (base ++ ver ++ full) :: acc).

End Run.

Definition run_c14 (inp : sx) : sx :=
  let h := sx_Zs (sx_nth inp 0) in
  let T := mkT (sx_Zs (sx_nth inp 1)) (map dec_strat (sx_list (sx_nth inp 2))) [] [] in
  let pack := sx_Zs (sx_nth inp 3) in
  let classes := sx_Zs (sx_nth inp 4) in
  let d0 := mk_cdb classes 0 [] in
  let '(_, _, _, acc) :=
    fold_left (run_step T pack classes (nth 0 h 0) (negb (nth 1 h 0 =? 0)) (negb (nth 2 h 0 =? 0)) (negb (nth 3 h 0 =? 0)))
              (sx_list (sx_nth inp 5)) (dict_init d0, rec_init d0, (Some Equiv.Model.init, Some Equiv.Model.init), []) in
  (* compatible extension: a 7th input field ( ver-sids sym-sids queue-pack packets ) (Searcher/DecidersRun.v) makes
     the run append ONE more element to its output: the verdict of the deciders of Searcher/Deciders.v (the table
     hypotheses of C14_search_stored_rules_handed_back) on the table this run received; without it nothing is added *)
  (* ... and, when the header flag `verified` is set as well, one more element after it: fpack_coversb (the pack
     hypothesis of C14_search_stored_rules_handed_back_x_decided) for the pack order this run replays *)
  let h6 := sx_nth inp 6 in
  match sx_list h6 with
  | [] => L (rev acc)
  | _ => L (rev acc ++ [Searcher.DecidersRun.run_hyps (t_empty T) (t_strats T) [] h6] ++
            (if nth 3 h 0 =? 0 then []
             else [of_bool (fpack_coversb (mkT (t_empty T) (t_strats T) (sx_Zs (sx_nth h6 0)) (sx_Zs (sx_nth h6 1)))
                                          (sx_Zs (sx_nth h6 2)) pack)]))
  end.
