(* Composition C04 -> C14 / C02: every run of the searcher model (Searcher/Model.v, pruning databases)
   builds its rule stores by an add_hist history (RuleDB/AddHist.v):

     search_gives_add_hist   for every table honouring the contracts of Searcher/Contracts.v (+ sym_unary, and
                             twoway_faithful for the rule objects of the table), every start class, packets of
                             pack strategies, is_verified answers, fuel, driver:  the state of the run is
                             simulated by a RuleDB state  a  with  add_hist_l T l a  where the steps l are - one by
                             one, in order - the ruledb.add events of the trace, each made under add_pre in the
                             class database AT THE TIME OF THE CALL; the class database, the key sets of the two
                             stores and the calls on the equivalence database of  a  are those of the run.

   It is the invariant Searcher.Proofs.run_search_inv instantiated with the ghost predicate Ghist below. *)
From Coq Require Import ZArith List Bool Lia.
From CSS Require Import Base.PyList ClassDB.Model ClassDB.Proofs Searcher.Model Searcher.Inv Searcher.Contracts
  Searcher.ProofsCore Searcher.Proofs
  RuleDB.Model RuleDB.StoreProofs RuleDB.CdbFacts RuleDB.GetProofs RuleDB.AddProofs RuleDB.Bridge RuleDB.AddHist.
Import ListNotations.
Open Scope Z_scope.

Notation lbl := (label_of Z.eqb (fun c : Z => c)).
Notation WFd := (@WF Z).

(* one ruledb.add call: the class database it was made in, its arguments, the children of the rule *)
Record hstep := mkH { h_d : cdbT; h_start : Z; h_ends : list Z; h_r : rule; h_cs : list Z }.
Definition add_ev (x : hstep) : event := EvAdd (h_start x) (h_ends x) (r_sid (h_r x)) (r_parent (h_r x)).

(* add_hist with the list of its add steps, newest first *)
Inductive add_hist_l (T : table) : list hstep -> dbst dstore -> Prop :=
| hl_init : forall d, WFd d -> add_hist_l T [] (dict_init d)
| hl_add : forall l a x, add_hist_l T l a -> h_d x = b_cdb dstore a ->
    add_pre T (b_cdb dstore a) (h_start x) (h_ends x) (h_r x) (h_cs x) -> kind_ok T (h_r x) -> twoway_faithful T (h_r x) ->
    add_hist_l T (x :: l) (dict_add T a (h_start x) (h_ends x) (h_r x))
| hl_env : forall l a d', add_hist_l T l a -> pres T (b_cdb dstore a) d' ->
    add_hist_l T l (mkDB dstore d' (b_r dstore a) (b_e dstore a) (b_eq dstore a) (b_stop dstore a) 0).

Lemma add_hist_l_hist T l a : add_hist_l T l a -> add_hist T a.
Proof.
  induction 1 as [d W|l a x H IH Hd Hpre Hk Hf|l a d' H IH P].
  - apply ah_init; auto.
  - eapply ah_add; eauto.
  - apply ah_env; auto.
Qed.

Lemma add_hist_l_WF T l a : add_hist_l T l a -> WFd (b_cdb dstore a).
Proof.
  induction 1 as [d W|l a x H IH Hd Hpre Hk Hf|l a d' H IH P]; auto.
  - destruct (dict_add_spec T a _ _ _ _ Hpre Hk) as (_ & (W & _) & _). exact W.
  - destruct P as (W & _). exact W.
Qed.

(* the class database RuleDBBase.add leaves depends on the class database it starts from only *)
Lemma dict_add_cdb T (a : dbst dstore) start ends r :
  b_cdb dstore (dict_add T a start ends r) = b_cdb dstore (dict_add T (dict_init (b_cdb dstore a)) start ends r).
Proof.
  unfold dict_add, gen_add. cbn [b_cdb dict_init]. destruct (rule_children T r) as [cs|]; [|reflexivity].
  destruct (clean T (b_cdb dstore a) (r_pe T r) (combine cs ends)) as [[[d1 kept] stop] [e|]]; [reflexivity|].
  destruct (gen_store dstore d_set d_mem d_del start (isort kept) (r_sid r) (r_two_way T r) (b_r dstore a) (b_e dstore a)).
  match goal with |- context [gen_store ?a1 ?a2 ?a3 ?a4 ?a5 ?a6 ?a7 ?a8 ?a9 ?a10] => destruct (gen_store a1 a2 a3 a4 a5 a6 a7 a8 a9 a10) end.
  reflexivity.
Qed.

(* every step was made under add_pre in its own class database, and the class database of the state reached
   still gives the labels and the is_empty answers of the database the step LEFT *)
Lemma add_hist_l_steps T l a : add_hist_l T l a ->
  Forall (fun x => add_pre T (h_d x) (h_start x) (h_ends x) (h_r x) (h_cs x) /\ kind_ok T (h_r x) /\
                   pres T (b_cdb dstore (dict_add T (dict_init (h_d x)) (h_start x) (h_ends x) (h_r x))) (b_cdb dstore a)) l.
Proof.
  pose proof (dict_add_cdb T) as Hcdb.
  induction 1 as [d W|l a x H IH Hd Hpre Hk Hf|l a d' H IH P].
  - constructor.
  - pose proof (add_hist_l_WF T l a H) as W.
    destruct (dict_add_spec T a _ _ _ _ Hpre Hk) as (_ & P & _). cbv zeta in P.
    constructor.
    + rewrite Hd. split; [exact Hpre|]. split; [exact Hk|]. rewrite <- Hcdb. apply pres_refl. destruct P; auto.
    + eapply Forall_impl; [|exact IH]. intros y (A & B & D). split; auto. split; auto.
      refine (pres_trans T _ _ _ _ D P).
      destruct (dict_add_spec T (dict_init (h_d y)) _ _ _ _ A B) as (_ & (W1 & _) & _). exact W1.
  - eapply Forall_impl; [|exact IH]. intros y (A & B & D). split; auto. split; auto.
    cbn [b_cdb]. refine (pres_trans T _ _ _ _ D P).
    destruct (dict_add_spec T (dict_init (h_d y)) _ _ _ _ A B) as (_ & (W1 & _) & _). exact W1.
Qed.

(* ------------------------------------------------------------ reading the trace *)
(* the ruledb.add events, newest first *)
Fixpoint adds_of (tr : list event) : list event :=
  match tr with
  | [] => []
  | EvAdd a b c d :: t => EvAdd a b c d :: adds_of t
  | _ :: t => adds_of t
  end.
(* the calls on the equivalence database, newest first *)
Fixpoint eqs_of (tr : list event) : list eqcall :=
  match tr with
  | [] => []
  | EvVerified l :: t => EqVerified l :: eqs_of t
  | EvEdge tw a b :: t => EqEdge tw a b :: eqs_of t
  | _ :: t => eqs_of t
  end.

Lemma adds_of_app a b : adds_of (a ++ b) = adds_of a ++ adds_of b.
Proof. induction a as [|e t IH]; simpl; auto. destruct e; simpl; rewrite ?IH; auto. Qed.
Lemma eqs_of_app a b : eqs_of (a ++ b) = eqs_of a ++ eqs_of b.
Proof. induction a as [|e t IH]; simpl; auto. destruct e; simpl; rewrite ?IH; auto. Qed.
Lemma adds_of_In e tr : In e (adds_of tr) <-> In e tr /\ exists a b c d, e = EvAdd a b c d.
Proof.
  induction tr as [|x t IH]; simpl; [split; [intros []|intros ([] & _)]|].
  destruct x; simpl; rewrite ?IH; split;
    try (intros (A & B); split; auto; fail);
    try (intros ([A|A] & a0 & b0 & c0 & d0 & E); [subst; discriminate|split; eauto]; fail).
  - intros [<-|(A & B)]; [split; eauto 10|split; auto].
  - intros ([A|A] & B); auto.
Qed.

Section SearchHist.
Variable T : table.
Variable mode : Z.
Variable pack : list Z.

Notation orc := (oracle T).
Notation EOK := (EmptyOK (fun k : Z => k) orc).

(* the ghost predicate: (class database, keys of rule_to_strategy, keys of eqv_rule_to_strategy, trace) of a
   state of the searcher model ARE those of a RuleDB reached by an add_hist history whose steps are the trace's
   ruledb.add events (pruning databases only: RuleDBForest keeps no such stores) *)
(* PROVENANCE of a step (what RecomputingDict.__getitem__ needs since 59cdf67 to find the rule again): the rule
   object was produced by the empty strategy (q = -1), or by a strategy q the searcher APPLIES - one the queue hands
   out (a strategy of `pack`), a verification strategy or a symmetry - on a class c0 that carried a label l0 in the
   class database at the time of the call; c0 need not be the rule's parent (factory rules with a foreign parent) *)
Definition applied_sid (q : Z) : Prop := q = -1 \/ In q pack \/ In q (t_ver T) \/ In q (t_sym T).
Definition step_prov (x : hstep) : Prop :=
  exists q c0 l0, applied_sid q /\ lbl (h_d x) c0 = Some l0 /\ In (h_r x) (cands T q c0).

Definition Ghist (d : cdbT) (rs es : list key) (tr : list event) : Prop :=
  (mode =? 0) = true ->
  exists a l, add_hist_l T l a /\ b_cdb dstore a = d /\ d_keys (b_r dstore a) = rs /\ d_keys (b_e dstore a) = es /\
              adds_of tr = map add_ev l /\ eqs_of tr = b_eq dstore a /\ Forall step_prov l.

Lemma Ghist_frame : True -> forall d d' r e tr,
  WFd d -> WFd d' -> extends d d' -> EOK d -> EOK d' -> Ghist d r e tr -> Ghist d' r e tr.
Proof.
  intros _ d d' r e tr W W' X E E' H Hm. destruct (H Hm) as (a & l & Ha & Hd & Hr & He & Hadds & Heqs & Hpv).
  exists (mkDB dstore d' (b_r dstore a) (b_e dstore a) (b_eq dstore a) (b_stop dstore a) 0), l.
  cbn [b_cdb b_r b_e b_eq]. csplit; auto.
  apply hl_env; auto. rewrite Hd. apply pres_of_truthful; auto.
Qed.

Lemma Ghist_skip : True -> forall ev d r e tr, neutral ev = true -> Ghist d r e tr -> Ghist d r e (ev :: tr).
Proof.
  intros _ ev d r e tr Hn H Hm. destruct (H Hm) as (a & l & Ha & Hd & Hr & He & Hadds & Heqs & Hpv).
  exists a, l. csplit; auto; destruct ev; simpl in *; auto; discriminate.
Qed.

Lemma Ghist_forest : True -> (mode =? 0) = false -> forall start ends sid parent d r e tr,
  Ghist d r e tr -> Ghist d r e (EvAdd start ends sid parent :: tr).
Proof. intros _ Hm start ends sid parent d r e tr _ Hm'. congruence. Qed.

Lemma Ghist_init : True -> Ghist init [] [] [].
Proof.
  intros _ _. exists (dict_init init), []. csplit; auto. apply hl_init. apply WF_init.
Qed.

(* ------------------------------------------------- the trace of RuleDBBase.add *)
Lemma cdb_op_trace s o : trace (fst (cdb_op T s o)) = trace s /\ running (fst (cdb_op T s o)) = running s.
Proof.
  unfold cdb_op. destruct (running s) eqn:R; [|auto].
  destruct (step Z.eqb (fun c : Z => c) (fun k : Z => k) orc (cdb s) o) as [d r]. simpl. split; auto.
Qed.

Lemma fail_adds c s : adds_of (trace (fail c s)) = adds_of (trace s) /\ eqs_of (trace (fail c s)) = eqs_of (trace s).
Proof. unfold fail. destruct (running s); auto. Qed.

Lemma is_empty_cl_trace s c lab : trace (fst (is_empty_cl T s c lab)) = trace s.
Proof.
  unfold is_empty_cl. pose proof (cdb_op_trace s (OpIsEmpty c lab)) as (Ht & _).
  destruct (cdb_op T s (OpIsEmpty c lab)) as [s' r]. simpl in Ht.
  destruct r; simpl; auto. unfold fail. destruct (running s'); simpl; auto.
Qed.

Lemma emit_neutral_adds e s : neutral e = true ->
  adds_of (trace (emit e s)) = adds_of (trace s) /\ eqs_of (trace (emit e s)) = eqs_of (trace s).
Proof. intros Hn. unfold emit. destruct (running s); auto. destruct e; simpl in *; auto; discriminate. Qed.

Lemma clean_labels_trace pe : forall kids s,
  adds_of (trace (fst (clean_labels T s pe kids))) = adds_of (trace s) /\
  eqs_of (trace (fst (clean_labels T s pe kids))) = eqs_of (trace s).
Proof.
  induction kids as [|[c l] t IH]; intros s; simpl; auto.
  destruct pe.
  - pose proof (is_empty_cl_trace s c (Some l)) as Ht.
    destruct (is_empty_cl T s c (Some l)) as [s1 b]. simpl in Ht. destruct b.
    + destruct (IH (emit (EvQStop l) s1)) as (A & B). destruct (emit_neutral_adds (EvQStop l) s1 eq_refl) as (A1 & B1).
      rewrite A, B, A1, B1, Ht. auto.
    + specialize (IH s1). destruct (clean_labels T s1 true t) as [s2 rest]. simpl in *. rewrite Ht in IH. exact IH.
  - specialize (IH s). destruct (clean_labels T s false t) as [s2 rest]. simpl in *. exact IH.
Qed.

Lemma emits_trace es : forall s, running s = true ->
  running (emits es s) = true /\ trace (emits es s) = rev es ++ trace s.
Proof.
  unfold emits. induction es as [|e t IH]; intros s R; simpl; auto.
  assert (running (emit e s) = true) as R1 by (unfold emit; rewrite R; exact R).
  destruct (IH _ R1) as (A & B). split; auto. rewrite B. unfold emit. rewrite R. simpl. rewrite <- app_assoc. reflexivity.
Qed.

Lemma with_stores_trace s r e : trace (with_stores s r e) = trace s.
Proof. unfold with_stores. destruct (running s); reflexivity. Qed.

(* a dead state stays as it is *)
Lemma dead_clean_labels pe : forall kids s, running s = false -> fst (clean_labels T s pe kids) = s.
Proof.
  induction kids as [|[c l] t IH]; intros s R; simpl; auto.
  destruct pe.
  - unfold is_empty_cl, cdb_op. rewrite R. simpl.
    specialize (IH s R). destruct (clean_labels T s true t) as [s2 rest]. simpl in *. exact IH.
  - specialize (IH s R). destruct (clean_labels T s false t) as [s2 rest]. simpl in *. exact IH.
Qed.
Lemma dead_emits es : forall s, running s = false -> emits es s = s.
Proof.
  unfold emits. induction es as [|e t IH]; intros s R; simpl; auto.
  assert (emit e s = s) as -> by (unfold emit; rewrite R; reflexivity). auto.
Qed.
Lemma dead_base_add s start ends r : running s = false -> base_add T s start ends r = s.
Proof.
  intros R. unfold base_add. pose proof (dead_clean_labels (r_pe T r) (combine (kids_of T r) ends) s R) as H.
  destruct (clean_labels T s (r_pe T r) (combine (kids_of T r) ends)) as [s1 cl]. simpl in H. subst s1.
  destruct (isort cl) as [|e [|e2 t]]; [|destruct (r_two_way T r)|]; cbv zeta;
    rewrite !dead_emits by exact R; unfold with_stores; rewrite R; reflexivity.
Qed.

(* the ruledb.add events and the equivalence-database calls in the trace of RuleDBBase.add *)
Lemma base_add_trace s start ends r : running s = true ->
  let s1 := fst (clean_labels T s (r_pe T r) (combine (kids_of T r) ends)) in
  let cl := snd (clean_labels T s (r_pe T r) (combine (kids_of T r) ends)) in
  running s1 = true ->
  adds_of (trace (base_add T s start ends r)) = adds_of (trace s) /\
  eqs_of (trace (base_add T s start ends r)) =
    rev (gen_eqcalls start (isort cl) (is_ver r) (r_two_way T r)) ++ eqs_of (trace s).
Proof.
  intros R s1 cl R1. unfold base_add.
  destruct (clean_labels_trace (r_pe T r) (combine (kids_of T r) ends) s) as (HA & HE).
  fold s1 in HA, HE. unfold s1, cl in *. clear s1 cl.
  destruct (clean_labels T s (r_pe T r) (combine (kids_of T r) ends)) as [s1 cl]. cbn [fst snd] in *.
  assert (forall es rs es', (forall e, In e es -> match e with EvAdd _ _ _ _ => False | _ => True end) ->
            adds_of (trace (with_stores (emits es s1) rs es')) = adds_of (trace s) /\
            eqs_of (trace (with_stores (emits es s1) rs es')) = eqs_of (rev es) ++ eqs_of (trace s)) as Hfin.
  { intros es rs es' Hno. rewrite with_stores_trace. destruct (emits_trace es s1 R1) as (_ & ->).
    rewrite adds_of_app, eqs_of_app, HA, HE. split; auto.
    assert (adds_of (rev es) = []) as ->; auto.
    assert (forall l, (forall e, In e l -> match e with EvAdd _ _ _ _ => False | _ => True end) -> adds_of l = []) as Hn.
    { induction l as [|e t IH]; simpl; auto. intros H. destruct e; try (apply IH; intros x Hx; apply H; right; auto).
      exfalso. apply (H _ (or_introl eq_refl)). }
    apply Hn. intros e He. apply Hno. apply in_rev. exact He. }
  unfold gen_eqcalls.
  destruct (isort cl) as [|e [|e2 t]] eqn:Es.
  - destruct (Hfin ((if is_ver r then [EvVerified start] else []) ++ [EvStore false start [] (r_sid r) (r_parent r)])
                (store_set (start, []) (rstore (emits ((if is_ver r then [EvVerified start] else []) ++ [EvStore false start [] (r_sid r) (r_parent r)]) s1)))
                (estore (emits ((if is_ver r then [EvVerified start] else []) ++ [EvStore false start [] (r_sid r) (r_parent r)]) s1))) as (A & B).
    { intros x Hx. apply in_app_or in Hx as [Hx|Hx]; [destruct (is_ver r); [destruct Hx as [<-|[]]|destruct Hx]|destruct Hx as [<-|[]]]; exact Logic.I. }
    split; [exact A|]. rewrite B. f_equal. destruct (is_ver r); reflexivity.
  - destruct (r_two_way T r).
    + cbv zeta.
      match goal with |- context [with_stores (emits ?es s1) ?rs ?es'] => destruct (Hfin es rs es') as (A & B) end.
      { intros x Hx. apply in_app_or in Hx as [Hx|Hx]; [destruct (is_ver r); [destruct Hx as [<-|[]]|destruct Hx]; exact Logic.I|].
        simpl in Hx. destruct Hx as [<-|[<-|Hx]]; try exact Logic.I.
        apply in_app_or in Hx as [Hx|Hx];
          match type of Hx with In _ (if ?b then _ else _) => destruct b end; try destruct Hx as [<-|[]]; try destruct Hx; exact Logic.I. }
      split; [exact A|]. rewrite B. f_equal.
      destruct (is_ver r); repeat match goal with |- context [if ?b then _ else _] => destruct b end; reflexivity.
    + match goal with |- context [with_stores (emits ?es s1) ?rs ?es'] => destruct (Hfin es rs es') as (A & B) end.
      { intros x Hx. apply in_app_or in Hx as [Hx|Hx]; [destruct (is_ver r); [destruct Hx as [<-|[]]|destruct Hx]; exact Logic.I|].
        simpl in Hx. destruct Hx as [<-|[<-|[]]]; exact Logic.I. }
      split; [exact A|]. rewrite B. f_equal. destruct (is_ver r); reflexivity.
  - match goal with |- context [with_stores (emits ?es s1) ?rs ?es'] => destruct (Hfin es rs es') as (A & B) end.
    { intros x Hx. apply in_app_or in Hx as [Hx|Hx]; [destruct (is_ver r); [destruct Hx as [<-|[]]|destruct Hx]|destruct Hx as [<-|[]]]; exact Logic.I. }
    split; [exact A|]. rewrite B. f_equal. destruct (is_ver r); reflexivity.
Qed.

(* ------------------------------------------------------------- the one step of the ghost predicate *)
Hypothesis Hunary : sym_unary T. (* in-section *)
(* in Python the rule object IS strategy(comb_class); in the table model a factory item may name a verification
   strategy, in which case the model's rule object (RPlain) and its re-application (RVer) differ: excluded here *)
Hypothesis Hfaith : forall sid0 c0 r, In r (rules_from_strategy T sid0 c0) -> twoway_faithful T r. (* in-section *)

Lemma labelled_add_pre U d sym start ends r : WFd d -> rule_good T r -> ProofsCore.labelled T U d sym start ends r ->
  exists cs, add_pre T d start ends r cs /\ kind_ok T r /\ twoway_faithful T r.
Proof.
  intros W G ((A & cs & B & D & E) & P). exists cs.
  assert (length ends = length cs) as Hlen.
  { destruct sym; [|exact E]. destruct E as (E1 & E2 & (sid0 & c0 & r' & Y1 & Y2 & Y3 & Y4)).
    destruct G as [(Hk & Hs & _)|(Hk & _)].
    - destruct (kids_sp_empty T r Hk Hs) as (B' & _). congruence.
    - assert (rule_children T r' = Some cs) as Hc'.
      { pose proof (rule_kind_of_strategy T sid0 c0 r' Y2) as Hk'. unfold rule_children in *. rewrite Y3, Y4.
        destruct (r_kind r'); try congruence; destruct (r_kind r); try congruence; exact B. }
      rewrite (Hunary sid0 c0 r' cs Y1 Y2 Hc'). exact E1. }
  split; [|split].
  - split; [exact W|]. split; [exact B|]. split; [exact A|]. rewrite Hlen, firstn_all in D. exact D.
  - intros Hk. destruct G as [(_ & Hs & Ho)|(Hk' & _)]; [auto|congruence].
  - destruct G as [(Hk & _)|(_ & (sid0 & c0 & Hin) & _)].
    + intros Htw. unfold r_two_way in Htw. rewrite Hk in Htw. discriminate.
    + apply (Hfaith sid0 c0 r Hin).
Qed.

(* the provenance the invariant carries (ProofsCore.prov with Proofs.used) is the provenance of the step *)
Lemma labelled_step_prov (C : Prop) d sym start ends r cs : C -> rule_good T r ->
  ProofsCore.labelled T (used T C pack) d sym start ends r -> step_prov (mkH d start ends r cs).
Proof.
  intros HC G ((A & _) & P). unfold step_prov. cbn [h_d h_r].
  destruct P as [P|(sid0 & c0 & l0 & P1 & P2 & P3)].
  - destruct G as [(_ & Hs & Ho)|(Hk & _)]; [|contradiction].
    exists (-1), (r_parent r), start. split; [left; reflexivity|]. split; [exact A|].
    destruct r as [sid p kd]. cbn [r_sid r_parent r_kind] in *. subst sid kd.
    unfold cands. cbn [Z.eqb]. rewrite Ho. left; reflexivity.
  - exists sid0, c0, l0. split; [|split; [exact P2|]].
    + right. destruct (P3 HC) as [[H|H]|H]; auto.
    + unfold cands. destruct (sid0 =? -1) eqn:E; [|exact P1].
      apply Z.eqb_eq in E. subst sid0. unfold rules_from_strategy in P1. rewrite (strat_of_minus1 T) in P1. destruct P1.
Qed.

Lemma Ghist_base (C : Prop) (GP : cdbT -> list key -> list key -> list event -> Prop) : C ->
  (mode =? 0) = true -> forall s sym start ends r,
  Inv T C GP s -> rule_good T r -> (running s = true -> ProofsCore.labelled T (used T C pack) (cdb s) sym start ends r) ->
  Gs Ghist s -> Gs Ghist (base_add T (emit (EvAdd start ends (r_sid r) (r_parent r)) s) start ends r).
Proof.
  intros HCC Hm s sym start ends r I G Hl Hg. unfold Gs in *.
  destruct (running s) eqn:R.
  2:{ assert (emit (EvAdd start ends (r_sid r) (r_parent r)) s = s) as -> by (unfold emit; rewrite R; reflexivity).
      rewrite (dead_base_add s start ends r R). exact Hg. }
  intros _. destruct (Hg Hm) as (a & l & Ha & Hd & Hr & He & Hadds & Heqs & Hpv).
  destruct I as (W & _).
  destruct (labelled_add_pre _ (cdb s) sym start ends r W G (Hl eq_refl)) as (cs & Hpre & Hk & Hf).
  pose proof (labelled_step_prov C (cdb s) sym start ends r cs HCC G (Hl eq_refl)) as Hsp.
  set (s0 := emit (EvAdd start ends (r_sid r) (r_parent r)) s).
  assert (running s0 = true /\ cdb s0 = cdb s /\ rstore s0 = rstore s /\ estore s0 = estore s /\
          trace s0 = EvAdd start ends (r_sid r) (r_parent r) :: trace s) as (R0 & Hc0 & Hr0 & He0 & Ht0).
  { unfold s0, emit. rewrite R. unfold running in *. simpl. auto. }
  set (x := mkH (cdb s) start ends r cs).
  assert (add_pre T (b_cdb dstore a) start ends r cs) as Hpre' by (rewrite Hd; exact Hpre).
  pose proof (hl_add T l a x Ha (eq_sym Hd) Hpre' Hk Hf) as Ha'. cbn [h_start h_ends h_r x] in Ha'.
  destruct (dict_add_spec T a start ends r cs Hpre' Hk) as (Hstat & _).
  destruct Hpre as (_ & Hc & _).
  pose proof (base_add_is_dict_add T s0 a start ends r cs R0 Hc) as HB. cbv zeta in HB.
  rewrite Hd, Hc0, Hr, Hr0, He, He0 in HB. specialize (HB eq_refl eq_refl eq_refl).
  destruct (running (base_add T s0 start ends r)) eqn:R'.
  2:{ destruct HB as (HB & _). cbv zeta in Hstat. congruence. }
  destruct HB as (_ & HB1 & HB2 & HB3).
  exists (dict_add T a start ends r), (x :: l). split; [exact Ha'|]. split; [exact HB1|]. split; [exact HB2|]. split; [exact HB3|].
  (* the trace *)
  pose proof (clean_labels_bridge T (r_pe T r) (combine (kids_of T r) ends) s0 R0) as HC.
  pose proof (base_add_trace s0 start ends r R0) as HT. cbv zeta in HT.
  destruct (clean_labels T s0 (r_pe T r) (combine (kids_of T r) ends)) as [s1 cl] eqn:Ecl. cbn [fst snd] in HT.
  assert (kids_of T r = cs) as Ek by (unfold kids_of; rewrite Hc; reflexivity).
  unfold dict_add, gen_add. rewrite Hc. rewrite Ek, Hc0, <- Hd in HC.
  destruct (clean T (b_cdb dstore a) (r_pe T r) (combine cs ends)) as [[[d1 kept] stop] e].
  destruct HC as (_ & _ & HC). destruct e as [e|].
  { exfalso. unfold base_add in R'. rewrite Ecl in R'.
    assert (forall es rs es', running (with_stores (emits es s1) rs es') = false) as Hdead.
    { intros es rs es'. rewrite (dead_emits es s1 HC). unfold with_stores. rewrite HC. exact HC. }
    destruct (isort cl) as [|e0 [|e1 t]]; [|destruct (r_two_way T r)|]; cbv zeta in R'; rewrite Hdead in R'; discriminate. }
  destruct HC as (R1 & _ & ->). destruct (HT R1) as (HA & HE).
  destruct (gen_store dstore d_set d_mem d_del start (isort kept) (r_sid r) (r_two_way T r) (b_r dstore a) (b_e dstore a)) as [r' e'].
  cbn [b_eq]. split; [|split].
  - rewrite HA, Ht0. simpl. rewrite Hadds. reflexivity.
  - rewrite HE, Ht0. simpl. rewrite Heqs. reflexivity.
  - constructor; [exact Hsp|exact Hpv].
Qed.

(* ------------------------------------------------------------------- the theorem *)
Hypothesis Hpe : pe_contract T pack. (* in-section *)
Hypothesis Hsym : sym_contract T. (* in-section *)

Theorem search_hist_inv F dl ev ans start ps : packets_in pack ps ->
  Inv T True Ghist (run_search T mode F dl ev ans start ps).
Proof.
  intros Hps.
  apply (run_search_inv T mode True pack Ghist Ghist_frame Ghist_skip Ghist_forest
           (fun _ Hm => Ghist_base True Ghist Logic.I Hm) Ghist_init (fun _ => Hpe) (fun _ => Hsym)).
  intros _. exact Hps.
Qed.

(* ... with the provenance of every step (step_prov): used by C14_search_stored_rules_handed_back_x *)
Theorem search_gives_add_hist_prov F dl ev ans start ps : packets_in pack ps -> (mode =? 0) = true ->
  let s := run_search T mode F dl ev ans start ps in
  exists a l, add_hist_l T l a /\ b_cdb dstore a = cdb s /\
              d_keys (b_r dstore a) = rstore s /\ d_keys (b_e dstore a) = estore s /\
              adds_of (trace s) = map add_ev l /\ eqs_of (trace s) = b_eq dstore a /\
              EOK (cdb s) /\ Forall step_prov l.
Proof.
  intros Hps Hm s. destruct (search_hist_inv F dl ev ans start ps Hps) as (_ & E & _ & Hg).
  destruct (Hg Logic.I Hm) as (a & l & H). exists a, l. destruct H as (A & B & D & E1 & E2 & E3 & E4). csplit; auto.
Qed.

Theorem search_gives_add_hist F dl ev ans start ps : packets_in pack ps -> (mode =? 0) = true ->
  let s := run_search T mode F dl ev ans start ps in
  exists a l, add_hist_l T l a /\ b_cdb dstore a = cdb s /\
              d_keys (b_r dstore a) = rstore s /\ d_keys (b_e dstore a) = estore s /\
              adds_of (trace s) = map add_ev l /\ eqs_of (trace s) = b_eq dstore a /\
              EOK (cdb s).
Proof.
  intros Hps Hm s. destruct (search_gives_add_hist_prov F dl ev ans start ps Hps Hm) as (a & l & H).
  exists a, l. destruct H as (A & B & D & E1 & E2 & E3 & E4 & _). csplit; auto.
Qed.

End SearchHist.

(* ---------------------------------------------------------------------------------------------
   twoway_faithful for all rule objects of a table, from a decidable condition: no factory item names a
   verification strategy (then every rule object the model works with IS strategy(class): rule_of) *)
Lemma strat_of_In T sid x : strat_of T sid = Some x -> In x (t_strats T).
Proof. unfold strat_of. destruct (sid <? 0); [discriminate|]. apply nth_error_In. Qed.

Lemma items_plain_faithful T : items_plainb T = true ->
  forall sid0 c0 r, In r (rules_from_strategy T sid0 c0) -> twoway_faithful T r.
Proof.
  intros H sid0 c0 r. unfold rules_from_strategy. destruct (strat_of T sid0) as [x|] eqn:Es; [|intros []].
  destruct (s_kind x =? 1) eqn:Ek.
  - destruct (assoc c0 (s_items x)) as [its|] eqn:Ea; [|intros []]. rewrite in_flat_map. intros (it & Hit & Hin).
    apply twoway_faithful_not_ver_strategy. intros y Hy.
    unfold items_plainb in H. rewrite forallb_forall in H. specialize (H x (strat_of_In T sid0 x Es)).
    rewrite forallb_forall in H. specialize (H (c0, its) (assoc_in _ _ _ Ea)). cbn [snd] in H.
    rewrite forallb_forall in H. specialize (H it Hit).
    assert (r_sid r = i_sid it) as Hs.
    { unfold rules_of_item in Hin. destruct (i_on it); [destruct (i_lazy it)|];
        try (destruct (applies T (i_sid it) _) in Hin); simpl in Hin; try contradiction; destruct Hin as [<-|[]]; reflexivity. }
    rewrite Hs in Hy. rewrite Hy in H. apply negb_true_iff in H. exact H.
  - destruct (applies T sid0 c0); [|intros []]. intros [<-|[]]. apply rule_of_fixed_twoway_faithful.
    cbn [r_sid r_parent]. unfold rule_of.
    assert ((sid0 =? -1) = false) as ->.
    { apply Z.eqb_neq. intros ->. discriminate. }
    rewrite Es. reflexivity.
Qed.
