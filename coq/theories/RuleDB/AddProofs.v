(* RuleDBBase.add files a rule under the key its own strategy reproduces; right after the
   insertion (and in every later state that kept the is_empty answers) both databases hand a
   strategy back for that key.  Truthful emptiness caches keep the answers (link to C04). *)
From Coq Require Import ZArith List Bool Lia.
From CSS Require Import Base.PyList ClassDB.Model ClassDB.Proofs Searcher.Model Searcher.Inv
  RuleDB.Model RuleDB.StoreProofs RuleDB.CdbFacts RuleDB.GetProofs.
Import ListNotations.
Open Scope Z_scope.

Lemma insert_In x y l : In y (insert x l) <-> y = x \/ In y l.
Proof.
  induction l as [|z t IH]; simpl; [intuition|].
  destruct (x <=? z); simpl; [intuition|]. rewrite IH. intuition.
Qed.

Lemma isort_In l x : In x (isort l) <-> In x l.
Proof.
  induction l as [|y t IH]; simpl; [tauto|]. unfold isort in *. simpl. rewrite insert_In, IH. intuition.
Qed.

Lemma d_get_set_same k v s : d_get k (d_set k v s) = Some v.
Proof.
  induction s as [|[k' v'] t IH]; simpl.
  - assert (keqb k k = true) as -> by (apply keqb_spec; auto). reflexivity.
  - destruct (keqb k k') eqn:E; simpl; rewrite E; auto.
Qed.

Lemma r_mem_set_same k v s : r_mem k (r_set k v s) = true.
Proof.
  unfold r_set. destruct (r_mem k s) eqn:E; auto. apply r_mem_flat. apply in_or_app. right. left. reflexivity.
Qed.

(* the store in which add files a rule: the equivalence store iff one child is left and the rule is two-way *)
Definition in_eqv (ends' : list Z) (tw : bool) : bool :=
  match ends' with [_] => tw | _ => false end.

Lemma dict_store_spec start ends' sid tw r e :
  let '(r', e') := gen_store dstore d_set d_mem d_del start ends' sid tw r e in
  d_get (start, ends') (if in_eqv ends' tw then e' else r') = Some sid.
Proof.
  unfold gen_store, in_eqv. destruct ends' as [|e0 [|e1 t]]; try apply d_get_set_same.
  destruct tw; apply d_get_set_same.
Qed.

Lemma rec_store_spec start ends' sid tw r e :
  let '(r', e') := gen_store rstore_t r_set r_mem r_del start ends' sid tw r e in
  r_mem (start, ends') (if in_eqv ends' tw then e' else r') = true.
Proof.
  unfold gen_store, in_eqv. destruct ends' as [|e0 [|e1 t]]; try apply r_mem_set_same.
  destruct tw; apply r_mem_set_same.
Qed.

Section Add.
Variable T : table.

Notation orc := (oracle T).
Notation WFd := (@WF Z).
Notation lbl := (label_of Z.eqb (fun c : Z => c)).
Notation pres := (pres T).
Notation empv := (empv T).

(* the hypotheses under which the searcher calls ruledb.add (for every call of every run of the searcher model:
   RuleDB/SearchHist.v, C04_adds_made_under_add_pre): the rule has children, start is the label of its parent,
   ends are the labels of ALL its children, in the class database d at the time of the call *)
Definition add_pre (d : cdbT) (start : Z) (ends : list Z) (r : rule) (cs : list Z) : Prop :=
  WFd d /\ rule_children T r = Some cs /\ lbl d (r_parent r) = Some start /\
  Forall2 (fun c l => lbl d c = Some l) cs ends.

Definition stored_key (d : cdbT) (start : Z) (ends : list Z) (r : rule) (cs : list Z) : key :=
  (start, isort (kept_labels T d (r_pe T r) (combine cs ends))).

Theorem dict_add_spec a start ends r cs : add_pre (b_cdb dstore a) start ends r cs -> kind_ok T r ->
  let a1 := dict_add T a start ends r in
  let k := stored_key (b_cdb dstore a) start ends r cs in
  b_stat dstore a1 = 0 /\ pres (b_cdb dstore a) (b_cdb dstore a1) /\
  key_of_rule T (b_cdb dstore a1) r = Some k /\
  d_get k (if in_eqv (snd k) (r_two_way T r) then b_e dstore a1 else b_r dstore a1) = Some (r_sid r) /\
  reproduces T (b_cdb dstore a1) (r_sid r) k = true.
Proof.
  intros (W & Hc & Hp & Hf) Hk. cbv zeta.
  destruct (add_key_is_key_of_rule T (b_cdb dstore a) r start ends cs W Hc Hp Hf) as (d' & stop & Hcl & P & Hkr).
  unfold dict_add, gen_add. rewrite Hc, Hcl.
  pose proof (dict_store_spec start (isort (kept_labels T (b_cdb dstore a) (r_pe T r) (combine cs ends)))
                (r_sid r) (r_two_way T r) (b_r dstore a) (b_e dstore a)) as Hs.
  destruct (gen_store dstore d_set d_mem d_del start _ (r_sid r) (r_two_way T r) (b_r dstore a) (b_e dstore a)) as [r' e'].
  cbn [b_stat b_cdb b_r b_e]. unfold stored_key. cbn [snd].
  split; [reflexivity|]. split; [exact P|]. split; [exact Hkr|]. split.
  - destruct (in_eqv _ _); exact Hs.
  - assert (WFd d') as W' by (destruct P; auto).
    apply (good_reproduces T d' false _ r W' Hk). split; [exact Hkr|discriminate].
Qed.

Lemma labels_known_stored d start ends r cs : add_pre d start ends r cs ->
  forall d', pres d d' -> labels_known d' (stored_key d start ends r cs).
Proof.
  intros (W & Hc & Hp & Hf) d' P l Hl. destruct P as (W' & X & _).
  assert (forall c l0, lbl d c = Some l0 -> 0 <= l0 < nlabels d') as Hr.
  { intros c l0 H0. pose proof (lbl_mono d d' c l0 W W' X H0) as H1.
    destruct (label_of_range Z.eqb Zeqb_spec (fun c : Z => c) d' c l0 W' H1) as [Hx _]. exact Hx. }
  unfold stored_key in Hl. cbn [fst snd] in Hl. destruct Hl as [<-|Hl]; [eapply Hr; eauto|].
  apply (proj1 (isort_In _ _)) in Hl. clear Hp Hc.
  induction Hf as [|c l0 cs ends H0 _ IH]; simpl in Hl; [contradiction|].
  destruct (negb (r_pe T r && empv d c)); [destruct Hl as [<-|Hl]; [eapply Hr; eauto|]|]; auto.
Qed.

(* the same insertion into the memory-saving database: the key is stored, and a lookup right after it
   - or in any later state that kept the labels and the is_empty answers - hands back a strategy that
   reproduces the key, provided some strategy q of the pack produces the rule on a class c0 whose label is
   among the replayed ones (the labels of the key, then `extra`) *)
Theorem rec_add_spec_x b start ends r cs pack q c0 l0 : add_pre (b_cdb rstore_t b) start ends r cs ->
  In q (-1 :: pack) -> lbl (b_cdb rstore_t b) c0 = Some l0 -> In r (cands T q c0) ->
  let b1 := rec_add T b start ends r in
  let k := stored_key (b_cdb rstore_t b) start ends r cs in
  let oe := in_eqv (snd k) (r_two_way T r) in
  let s := if oe then b_e rstore_t b1 else b_r rstore_t b1 in
  b_stat rstore_t b1 = 0 /\ r_mem k s = true /\
  forall extra d2 s2, pres (b_cdb rstore_t b1) d2 -> r_mem k s2 = true ->
    labs_known d2 extra -> In l0 (key_labels k extra) ->
    exists d3 sid p, rec_getitem_x T extra pack oe s2 d2 k = (d3, GOk sid p) /\ reproduces T d3 sid k = true.
Proof.
  intros Hpre Hq Hl0 Hr. pose proof Hpre as (W & Hc & Hp & Hf). cbv zeta.
  destruct (add_key_is_key_of_rule T (b_cdb rstore_t b) r start ends cs W Hc Hp Hf) as (d' & stop & Hcl & P & Hkr).
  unfold rec_add, gen_add. rewrite Hc, Hcl.
  pose proof (rec_store_spec start (isort (kept_labels T (b_cdb rstore_t b) (r_pe T r) (combine cs ends)))
                (r_sid r) (r_two_way T r) (b_r rstore_t b) (b_e rstore_t b)) as Hs.
  destruct (gen_store rstore_t r_set r_mem r_del start _ (r_sid r) (r_two_way T r) (b_r rstore_t b) (b_e rstore_t b)) as [r' e'].
  cbn [b_stat b_cdb b_r b_e]. unfold stored_key. cbn [snd].
  split; [reflexivity|]. split; [destruct (in_eqv _ _); exact Hs|].
  intros extra d2 s2 P2 Hm Hex Hin.
  assert (WFd d') as W' by (destruct P; auto).
  assert (pres (b_cdb rstore_t b) d2) as P02 by (apply (pres_trans T _ d' d2 W P P2)).
  assert (WFd d2) as W2 by (destruct P2; auto).
  set (k := (start, isort (kept_labels T (b_cdb rstore_t b) (r_pe T r) (combine cs ends)))) in *.
  assert (labels_known d2 k) as Hlk by (apply (labels_known_stored _ start ends r cs Hpre d2 P02)).
  assert (labs_known d2 (key_labels k extra)) as Hlk2.
  { intros l Hl. unfold key_labels in Hl. apply in_app_or in Hl as [Hl|Hl]; [apply Hlk; exact Hl|apply Hex; exact Hl]. }
  assert (key_of_rule T d2 r = Some k) as Hk2 by (apply (key_of_rule_pres T d' d2 r k W' P2 Hkr)).
  assert (is_cand_in T (key_labels k extra) d2 pack r) as Hcand.
  { exists l0, c0, q. split; [exact Hin|]. split; [|auto].
    destruct P02 as (_ & X & _). apply (lbl_mono _ d2 _ _ W W2 X Hl0). }
  assert (in_eqv (snd k) (r_two_way T r) = true -> r_two_way T r = true) as Htw.
  { unfold in_eqv. destruct (snd k) as [|x [|y t]]; auto; discriminate. }
  destruct (recompute_x_succeeds T extra pack _ s2 d2 k r W2 Hlk2 Hm Hcand Hk2 Htw) as (d3 & sid & p & Hg).
  exists d3, sid, p. split; [exact Hg|].
  destruct (recompute_x_reproduces T extra pack _ s2 d2 k d3 sid p W2 Hlk2 Hg) as (Hrep & _). exact Hrep.
Qed.

(* the code BEFORE fix 59cdf67: the rule must be produced on its OWN parent class (the code as it is: rec_add_spec_all, RuleDB/GetAll.v) *)
Theorem rec_add_spec b start ends r cs pack q : add_pre (b_cdb rstore_t b) start ends r cs ->
  In q (-1 :: pack) -> In r (cands T q (r_parent r)) ->
  let b1 := rec_add T b start ends r in
  let k := stored_key (b_cdb rstore_t b) start ends r cs in
  let oe := in_eqv (snd k) (r_two_way T r) in
  let s := if oe then b_e rstore_t b1 else b_r rstore_t b1 in
  b_stat rstore_t b1 = 0 /\ r_mem k s = true /\
  forall d2 s2, pres (b_cdb rstore_t b1) d2 -> r_mem k s2 = true ->
    exists d3 sid p, rec_getitem T pack oe s2 d2 k = (d3, GOk sid p) /\ reproduces T d3 sid k = true.
Proof.
  intros Hpre Hq Hr. pose proof Hpre as (_ & _ & Hp & _).
  destruct (rec_add_spec_x b start ends r cs pack q (r_parent r) start Hpre Hq Hp Hr) as (A & B & C).
  cbv zeta. split; [exact A|]. split; [exact B|]. intros d2 s2 P2 Hm.
  apply (C [] d2 s2 P2 Hm); [intros l []|]. left. reflexivity.
Qed.

(* ---- truthful caches keep the answers (C04_empty_cache_truthful gives EmptyOK for every state of a search
   on a table honouring the contracts) ---- *)
Lemma empv_truthful d c l : WFd d -> EmptyOK (fun k : Z => k) orc d -> lbl d c = Some l -> empv d c = orc c.
Proof.
  intros W E H. rewrite (empv_spec T d c l W H). unfold cache.
  destruct (nth_error (empties d) (Z.to_nat l)) as [[b|]|] eqn:En; auto.
  destruct (label_of_range Z.eqb Zeqb_spec (fun c : Z => c) d c l W H) as [_ Hn].
  exact (E _ _ _ Hn En).
Qed.

Theorem pres_of_truthful d d' : WFd d -> WFd d' -> extends d d' ->
  EmptyOK (fun k : Z => k) orc d -> EmptyOK (fun k : Z => k) orc d' -> pres d d'.
Proof.
  intros W W' X E E'. split; [exact W'|]. split; [exact X|].
  intros c Hc. destruct (lbl d c) as [l|] eqn:H; [|congruence].
  rewrite (empv_truthful d c l W E H). apply (empv_truthful d' c l W' E'). apply (lbl_mono d d' c l W W' X H).
Qed.

End Add.
