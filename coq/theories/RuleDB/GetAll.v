(* RecomputingDict.__getitem__ AS IT IS since fix 59cdf67: rec_getitem_all = rec_getitem_x with
   extra = other_labels d k (every label of the class database that is not a label of the key).

     - the replayed labels are exactly ALL labels of the class database (key_labels_all), hence the
       candidates are the rules ANY strategy of the pack (or the empty strategy) produces on ANY
       labelled class (is_cand_all);
     - the specifications of RuleDB/GetProofs.v (the recompute_x lemmas) instantiated: the recompute_all lemmas;
     - insertion followed by lookup (rec_add_spec_all): no "own parent" restriction;
     - the fix is conservative: whatever the lookup before the fix handed back (or whichever class
       database exception it raised) the lookup after the fix hands back / raises, with the same side
       effects (try_cands_prefix, rec_getitem_prefix). *)
From Coq Require Import ZArith List Bool Lia.
From CSS Require Import Base.PyList ClassDB.Model ClassDB.Proofs Searcher.Model Searcher.Inv Searcher.Contracts
  RuleDB.Model RuleDB.StoreProofs RuleDB.CdbFacts RuleDB.GetProofs RuleDB.AddProofs.
Import ListNotations.
Open Scope Z_scope.

Section GetAll.
Variable T : table.

Notation WFd := (@WF Z).
Notation lbl := (label_of Z.eqb (fun c : Z => c)).
Notation pres := (pres T).
Notation empv := (empv T).

Lemma other_labels_In d k l : In l (other_labels d k) <-> 0 <= l < nlabels d /\ ~ In l (fst k :: snd k).
Proof.
  unfold other_labels. rewrite filter_In, in_map_iff, negb_true_iff. unfold nlabels, zlen. split.
  - intros ((i & <- & Hi) & Hm). apply in_seq in Hi. split; [lia|].
    intros Hin. apply (proj2 (mem_In _ _)) in Hin. congruence.
  - intros (Hr & Hn). split.
    + exists (Z.to_nat l). split; [apply Z2Nat.id; lia|]. apply in_seq. lia.
    + destruct (mem l (fst k :: snd k)) eqn:E; auto. apply mem_In in E. contradiction.
Qed.

Lemma other_labels_known d k : labs_known d (other_labels d k).
Proof. intros l Hl. apply other_labels_In in Hl. tauto. Qed.

(* the labels replayed by the code as it is: ALL labels of the class database *)
Lemma key_labels_all d k l : labels_known d k ->
  (In l (key_labels k (other_labels d k)) <-> 0 <= l < nlabels d).
Proof.
  intros Hk. unfold key_labels. rewrite in_app_iff, other_labels_In. split.
  - intros [H|(H & _)]; auto.
  - intros H. destruct (in_dec Z.eq_dec l (fst k :: snd k)); auto.
Qed.

Lemma labs_known_all d k : labels_known d k -> labs_known d (key_labels k (other_labels d k)).
Proof. intros Hk l Hl. apply (key_labels_all d k l Hk). exact Hl. Qed.

(* the candidates of the code as it is: the rules the strategies of the pack (preceded by the empty
   strategy) produce on ANY class that carries a label *)
Definition is_cand_all (d : cdbT) (pack : list Z) (r : rule) : Prop :=
  exists c l q, lbl d c = Some l /\ In q (-1 :: pack) /\ In r (cands T q c).

Lemma is_cand_all_spec d pack k r : WFd d -> labels_known d k ->
  (is_cand_in T (key_labels k (other_labels d k)) d pack r <-> is_cand_all d pack r).
Proof.
  intros W Hk. split.
  - intros (l & c & q & _ & Hl & Hq & Hr). exists c, l, q. auto.
  - intros (c & l & q & Hl & Hq & Hr). exists l, c, q. split; [|auto].
    apply (key_labels_all d k l Hk).
    destruct (label_of_range Z.eqb Zeqb_spec (fun c : Z => c) d c l W Hl) as [Hx _]. exact Hx.
Qed.

Lemma is_cand_all_of_key d pack k r : is_cand T d pack k r -> is_cand_all d pack r.
Proof. intros (l & c & q & _ & Hl & Hq & Hr). exists c, l, q. auto. Qed.

(* 3a *)
Theorem recompute_all_reproduces pack oe s d k d' sid p : WFd d -> labels_known d k ->
  rec_getitem_all T pack oe s d k = (d', GOk sid p) ->
  reproduces T d' sid k = true /\ r_mem k s = true /\
  (exists r, is_cand_all d pack r /\ r_sid r = sid /\ r_parent r = p /\ (oe = true -> r_two_way T r = true)) /\
  lbl d' p = Some (fst k).
Proof.
  intros W Hk H.
  destruct (recompute_x_reproduces T _ pack oe s d k d' sid p W (labs_known_all d k Hk) H) as (A & B & (r & C1 & C2) & D).
  split; [exact A|]. split; [exact B|]. split; [|exact D].
  exists r. split; [apply (is_cand_all_spec d pack k r W Hk); exact C1|exact C2].
Qed.

(* 3b *)
Theorem recompute_all_succeeds pack oe s d k r : WFd d -> labels_known d k ->
  r_mem k s = true -> is_cand_all d pack r -> key_of_rule T d r = Some k -> (oe = true -> r_two_way T r = true) ->
  exists d' sid p, rec_getitem_all T pack oe s d k = (d', GOk sid p).
Proof.
  intros W Hk Hm Hc Hkr Htw.
  apply (recompute_x_succeeds T _ pack oe s d k r W (labs_known_all d k Hk) Hm); auto.
  apply (is_cand_all_spec d pack k r W Hk). exact Hc.
Qed.

(* 3c *)
Theorem recompute_all_outcomes pack oe s d k d' g : WFd d -> labels_known d k ->
  rec_getitem_all T pack oe s d k = (d', g) ->
  match g with
  | GOk _ _ => r_mem k s = true
  | GKeyError => r_mem k s = false
  | GFail => r_mem k s = true /\
             forall r, is_cand_all d pack r -> ~ (key_of_rule T d r = Some k /\ (oe = true -> r_two_way T r = true))
  | GErr _ => False
  end.
Proof.
  intros W Hk H. pose proof (recompute_x_outcomes T _ pack oe s d k d' g W (labs_known_all d k Hk) H) as X.
  destruct g as [sid p| | |e]; auto. destruct X as (A & B). split; [exact A|].
  intros r Hr. apply B. apply (is_cand_all_spec d pack k r W Hk). exact Hr.
Qed.

(* a key that is not stored: KeyError whatever its labels are (the membership test comes first) and nothing
   is touched; a stored key never gives KeyError *)
Theorem recompute_all_keyerror pack oe s d k :
  (r_mem k s = false -> rec_getitem_all T pack oe s d k = (d, GKeyError)) /\
  (r_mem k s = true -> snd (rec_getitem_all T pack oe s d k) <> GKeyError).
Proof.
  unfold rec_getitem_all, rec_getitem_x. split; intros H; rewrite H; [reflexivity|].
  generalize (cand_list T d pack (key_labels k (other_labels d k))). intros l. revert d.
  induction l as [|[r|e] t IH]; intros d; cbn [try_cands snd]; try discriminate.
  destruct (check T d oe k r) as [d1 [[|]|e]]; cbn [snd]; try discriminate. apply IH.
Qed.

Theorem recompute_all_side_effects pack oe s d k d' g : WFd d -> labels_known d k ->
  rec_getitem_all T pack oe s d k = (d', g) ->
  WFd d' /\ extends d d' /\ (forall c l, lbl d c = Some l -> lbl d' c = Some l /\ empv d' c = empv d c).
Proof. intros W Hk H. apply (recompute_x_side_effects T _ pack oe s d k d' g W (labs_known_all d k Hk) H). Qed.

(* insertion, then lookup - in the state add left or in ANY later state that kept labels and is_empty answers,
   from any store still holding the key: the strategy handed back reproduces the key, provided some strategy q
   of the pack (or the empty strategy) produces the rule on SOME class c0 that carried a label when the rule was
   added.  No restriction to the rule's own parent class. *)
Theorem rec_add_spec_all b start ends r cs pack q c0 l0 : add_pre T (b_cdb rstore_t b) start ends r cs ->
  In q (-1 :: pack) -> lbl (b_cdb rstore_t b) c0 = Some l0 -> In r (cands T q c0) ->
  let b1 := rec_add T b start ends r in
  let k := stored_key T (b_cdb rstore_t b) start ends r cs in
  let oe := in_eqv (snd k) (r_two_way T r) in
  let s := if oe then b_e rstore_t b1 else b_r rstore_t b1 in
  b_stat rstore_t b1 = 0 /\ r_mem k s = true /\
  forall d2 s2, pres (b_cdb rstore_t b1) d2 -> r_mem k s2 = true ->
    exists d3 sid p, rec_getitem_all T pack oe s2 d2 k = (d3, GOk sid p) /\ reproduces T d3 sid k = true.
Proof.
  intros Hpre Hq Hl0 Hr.
  destruct (rec_add_spec_x T b start ends r cs pack q c0 l0 Hpre Hq Hl0 Hr) as (A & B & C).
  cbv zeta. split; [exact A|]. split; [exact B|]. intros d2 s2 P2 Hm.
  pose proof Hpre as (W & Hc & Hp & Hf).
  assert (pres (b_cdb rstore_t b) d2) as P02.
  { destruct (add_key_is_key_of_rule T (b_cdb rstore_t b) r start ends cs W Hc Hp Hf) as (d' & stop & Hcl & P & _).
    refine (pres_trans T _ _ d2 W _ P2). unfold rec_add, gen_add. rewrite Hc, Hcl.
    destruct (gen_store rstore_t r_set r_mem r_del start _ (r_sid r) (r_two_way T r) (b_r rstore_t b) (b_e rstore_t b)).
    exact P. }
  pose proof (labels_known_stored T _ start ends r cs Hpre d2 P02) as Hlk.
  unfold rec_getitem_all. apply (C _ d2 s2 P2 Hm).
  - apply other_labels_known.
  - apply (key_labels_all d2 _ l0 Hlk).
    destruct P02 as (W2 & X & _).
    pose proof (lbl_mono _ d2 c0 l0 W W2 X Hl0) as H2.
    destruct (label_of_range Z.eqb Zeqb_spec (fun c : Z => c) d2 c0 l0 W2 H2) as [Hx _]. exact Hx.
Qed.

(* ---- the fix is conservative ---- *)
Lemma cand_list_app d pack l1 l2 : cand_list T d pack (l1 ++ l2) = cand_list T d pack l1 ++ cand_list T d pack l2.
Proof. unfold cand_list. apply flat_map_app. Qed.

Lemma try_cands_prefix oe k : forall l1 l2 d,
  match try_cands T d oe k l1 with
  | (d1, GFail) => try_cands T d oe k (l1 ++ l2) = try_cands T d1 oe k l2
  | (d1, g) => try_cands T d oe k (l1 ++ l2) = (d1, g)
  end.
Proof.
  induction l1 as [|[r|e] t IH]; intros l2 d; cbn [try_cands app]; auto.
  destruct (check T d oe k r) as [d1 [[|]|e]]; auto. apply IH.
Qed.

(* whatever the lookup BEFORE 59cdf67 handed back - or whichever exception of the class database ended it - the
   lookup with any further labels replayed afterwards (in particular the code as it is) gives as well, leaving
   the class database in the same state; only a RuntimeError of the old code can turn into something else *)
Theorem rec_getitem_prefix extra pack oe s d k d' g :
  rec_getitem T pack oe s d k = (d', g) -> g <> GFail ->
  rec_getitem_x T extra pack oe s d k = (d', g).
Proof.
  unfold rec_getitem, rec_getitem_x. destruct (r_mem k s); auto.
  unfold key_labels. rewrite app_nil_r, cand_list_app. intros H Hg.
  pose proof (try_cands_prefix oe k (cand_list T d pack (fst k :: snd k)) (cand_list T d pack extra) d) as X.
  rewrite H in X. destruct g; auto. contradiction.
Qed.

End GetAll.

Lemma fpack_coversb_spec T pack fpack : fpack_coversb T pack fpack = true <->
  incl pack fpack /\ incl (t_ver T) fpack /\ incl (t_sym T) fpack.
Proof.
  unfold fpack_coversb. rewrite forallb_forall. split.
  - intros H. repeat split; intros q Hq; apply mem_In; apply H; rewrite !in_app_iff; auto.
  - intros (A & B & C) q Hq. apply mem_In. rewrite !in_app_iff in Hq. destruct Hq as [Hq|[Hq|Hq]]; auto.
Qed.
