(* The rule stores of the searcher model of C04 (Searcher/Model.v: base_add, rstore, estore)
   ARE the key sets of the DictStore database of RuleDB/Model.v: one call of RuleDBBase.add
   in the searcher model and in the two-database model do the same to the class database and
   to the two key sets.  One step only: RuleDB/SearchHist.v iterates it over the whole run of the
   searcher model (every run produces an add_hist history, each call made under add_pre). *)
From Coq Require Import ZArith List Bool Lia.
From CSS Require Import Base.PyList ClassDB.Model Searcher.Model RuleDB.Model RuleDB.StoreProofs.
Import ListNotations.
Open Scope Z_scope.

Lemma keyeq_keqb a b : keyeq a b = keqb a b.
Proof.
  destruct a as [a1 a2], b as [b1 b2]. unfold keyeq, keqb. simpl. f_equal.
  destruct (list_eq_dec Z.eq_dec a2 b2) as [->|H]; symmetry.
  - apply leqb_refl.
  - destruct (leqb a2 b2) eqn:E; auto. apply leqb_spec in E. contradiction.
Qed.

Lemma existsb_keyeq k ds : existsb (keyeq k) (d_keys ds) = d_mem k ds.
Proof.
  unfold d_mem, d_keys. induction ds as [|kv t IH]; simpl; auto. rewrite keyeq_keqb, IH. reflexivity.
Qed.

Lemma d_keys_set k v ds : d_keys (d_set k v ds) = store_set k (d_keys ds).
Proof.
  unfold store_set. rewrite existsb_keyeq.
  induction ds as [|[k' v'] t IH]; simpl; auto.
  unfold d_mem in *. simpl. destruct (keqb k k') eqn:E; simpl; auto.
  rewrite IH. destruct (existsb _ t); reflexivity.
Qed.

Lemma d_keys_del k ds : d_keys (d_del k ds) = store_pop k (d_keys ds).
Proof.
  unfold d_del, store_pop, d_keys. induction ds as [|[k' v'] t IH]; simpl; auto.
  rewrite keyeq_keqb. destruct (keqb k k'); simpl; rewrite IH; reflexivity.
Qed.

Lemma store_pop_absent k d : existsb (keyeq k) d = false -> store_pop k d = d.
Proof.
  unfold store_pop. induction d as [|x t IH]; simpl; auto.
  destruct (keyeq k x); simpl; [discriminate|]. intros H. rewrite IH; auto.
Qed.

Lemma d_keys_del_if k ds : d_keys (del_if dstore d_mem d_del k ds) = store_pop k (d_keys ds).
Proof.
  unfold del_if. destruct (d_mem k ds) eqn:E.
  - apply d_keys_del.
  - symmetry. apply store_pop_absent. rewrite existsb_keyeq. exact E.
Qed.

Section Bridge.
Variable T : table.

Lemma emit_fields e s : cdb (emit e s) = cdb s /\ rstore (emit e s) = rstore s /\ estore (emit e s) = estore s /\
  running (emit e s) = running s.
Proof. unfold emit. destruct (running s) eqn:E; [unfold running in *; simpl; auto|auto]. Qed.

Lemma emits_fields es : forall s, cdb (emits es s) = cdb s /\ rstore (emits es s) = rstore s /\
  estore (emits es s) = estore s /\ running (emits es s) = running s.
Proof.
  unfold emits. induction es as [|e t IH]; intros s; simpl; auto.
  destruct (IH (emit e s)) as (A & B & C & D). destruct (emit_fields e s) as (A' & B' & C' & D').
  repeat split; congruence.
Qed.

(* _clean_labels in the two models *)
Lemma clean_labels_bridge pe : forall kids s,
  running s = true ->
  let '(s1, cl) := clean_labels T s pe kids in
  let '(d1, kept, stop, e) := clean T (cdb s) pe kids in
  rstore s1 = rstore s /\ estore s1 = estore s /\
  match e with
  | None => running s1 = true /\ cdb s1 = d1 /\ cl = kept
  | Some _ => running s1 = false
  end.
Proof.
  induction kids as [|[c l] t IH]; intros s R; simpl.
  - auto.
  - destruct pe.
    + unfold is_empty_cl, cdb_op, c_is_empty. rewrite R.
      destruct (step Z.eqb (fun c0 : Z => c0) (fun k : Z => k) (oracle T) (cdb s) (OpIsEmpty c (Some l))) as [d r] eqn:Es.
      simpl in Es. rewrite Es.
      assert (running (with_cdb s d) = true) as R1 by (unfold running, with_cdb in *; simpl; exact R).
      destruct r as [x|x|[|]|  |x].
      * (* RLabel: not produced by is_empty; both sides treat it as an error/false *)
        specialize (IH (with_cdb s d) R1).
        destruct (clean_labels T (with_cdb s d) true t) as [s2 rest]. simpl.
        destruct (clean T d true t) as [[[d2 kept] stop] e]. simpl in *.
        exfalso. unfold is_empty in Es.
        destruct (dict_get Z.eqb (dict (cdb s)) c); simpl in Es;
        destruct (py_nth (empties (cdb s)) l) as [[b|]|]; try discriminate;
        destruct (set_empty _ _ _ _ _) as [s3 r3]; destruct r3; discriminate.
      * exfalso. unfold is_empty in Es.
        destruct (py_nth (empties (cdb s)) l) as [[b|]|]; try discriminate;
        destruct (set_empty _ _ _ _ _) as [s3 r3]; destruct r3; discriminate.
      * (* empty: dropped *)
        assert (running (emit (EvQStop l) (with_cdb s d)) = true) as R2
          by (destruct (emit_fields (EvQStop l) (with_cdb s d)) as (_ & _ & _ & ->); exact R1).
        specialize (IH (emit (EvQStop l) (with_cdb s d)) R2).
        destruct (emit_fields (EvQStop l) (with_cdb s d)) as (Ec & Er & Ee & _).
        rewrite Ec in IH. simpl in IH.
        destruct (clean_labels T (emit (EvQStop l) (with_cdb s d)) true t) as [s2 rest].
        destruct (clean T d true t) as [[[d2 kept] stop] e].
        destruct IH as (A & B & C). rewrite Er in A. rewrite Ee in B. simpl in A, B. auto.
      * specialize (IH (with_cdb s d) R1). simpl in IH.
        destruct (clean_labels T (with_cdb s d) true t) as [s2 rest].
        destruct (clean T d true t) as [[[d2 kept] stop] e].
        destruct IH as (A & B & C). simpl in A, B. split; auto. split; auto.
        destruct e; auto. destruct C as (C1 & C2 & C3). subst. auto.
      * exfalso. unfold is_empty in Es.
        destruct (py_nth (empties (cdb s)) l) as [[b|]|]; try discriminate;
        destruct (set_empty _ _ _ _ _) as [s3 r3]; destruct r3; discriminate.
      * (* exception of the class database *)
        assert (running (fail (err_code x) (with_cdb s d)) = false) as R2.
        { unfold fail. rewrite R1. reflexivity. }
        assert (forall kids s0, running s0 = false -> running (fst (clean_labels T s0 true kids)) = false /\
                  rstore (fst (clean_labels T s0 true kids)) = rstore s0 /\ estore (fst (clean_labels T s0 true kids)) = estore s0) as Hdead.
        { clear. induction kids as [|[c l] t IH]; intros s0 R0; simpl; auto.
          unfold is_empty_cl, cdb_op. rewrite R0. simpl.
          destruct (clean_labels T s0 true t) as [s2 rest] eqn:E2. simpl.
          specialize (IH s0 R0). rewrite E2 in IH. exact IH. }
        destruct (Hdead t _ R2) as (H1 & H2 & H3).
        destruct (clean_labels T (fail (err_code x) (with_cdb s d)) true t) as [s2 rest]. simpl in *.
        unfold fail in H2, H3. rewrite R1 in H2, H3. simpl in H2, H3. auto.
    + specialize (IH s R).
      destruct (clean_labels T s false t) as [s2 rest].
      destruct (clean T (cdb s) false t) as [[[d2 kept] stop] e].
      destruct IH as (A & B & C). split; auto. split; auto.
      destruct e; auto. destruct C as (C1 & C2 & C3). subst. auto.
Qed.

(* RuleDBBase.add in the two models *)
Theorem base_add_is_dict_add s a start ends r cs :
  running s = true -> rule_children T r = Some cs ->
  b_cdb dstore a = cdb s -> d_keys (b_r dstore a) = rstore s -> d_keys (b_e dstore a) = estore s ->
  let s' := base_add T s start ends r in
  let a' := dict_add T a start ends r in
  if running s' then
    b_stat dstore a' = 0 /\ b_cdb dstore a' = cdb s' /\
    d_keys (b_r dstore a') = rstore s' /\ d_keys (b_e dstore a') = estore s'
  else
    b_stat dstore a' <> 0 /\ b_r dstore a' = b_r dstore a /\ b_e dstore a' = b_e dstore a /\
    rstore s' = rstore s /\ estore s' = estore s.
Proof.
  intros R Hc Hd Hr He. cbv zeta. unfold base_add, dict_add, gen_add, kids_of. rewrite Hc, Hd.
  pose proof (clean_labels_bridge (r_pe T r) (combine cs ends) s R) as HB.
  destruct (clean_labels T s (r_pe T r) (combine cs ends)) as [s1 cl].
  destruct (clean T (cdb s) (r_pe T r) (combine cs ends)) as [[[d1 kept] stop] e].
  destruct HB as (Hr1 & He1 & HB).
  assert (forall es rs es', running s1 = false ->
            running (with_stores (emits es s1) rs es') = false /\
            rstore (with_stores (emits es s1) rs es') = rstore s1 /\
            estore (with_stores (emits es s1) rs es') = estore s1) as Hdead.
  { intros es rs es' R1. destruct (emits_fields es s1) as (_ & B & C & D).
    unfold with_stores. rewrite D, R1. rewrite D, R1. auto. }
  assert (forall es rs es', running s1 = true ->
            running (with_stores (emits es s1) rs es') = true /\
            cdb (with_stores (emits es s1) rs es') = cdb s1 /\
            rstore (with_stores (emits es s1) rs es') = rs /\
            estore (with_stores (emits es s1) rs es') = es') as Hlive.
  { intros es rs es' R1. destruct (emits_fields es s1) as (A & B & C & D).
    unfold with_stores. rewrite D, R1. split; [|simpl; auto].
    unfold running; simpl. fold (running (emits es s1)). rewrite D. exact R1. }
  destruct e as [x|].
  - (* the class database raised *)
    destruct (isort cl) as [|e0 [|e1 tl]];
      [|destruct (r_two_way T r)|];
      match goal with |- context [with_stores (emits ?es s1) ?rs ?es'] =>
        destruct (Hdead es rs es' HB) as (D1 & D2 & D3) end;
      cbv zeta; rewrite D1; cbn [b_stat b_r b_e]; repeat split; try congruence;
      destruct x; discriminate.
  - destruct HB as (R1 & Hc1 & ->).
    destruct (isort kept) as [|e0 [|e1 tl]] eqn:Ek; cbn [gen_store].
    + match goal with |- context [with_stores (emits ?es s1) ?rs ?es'] =>
        destruct (Hlive es rs es' R1) as (L1 & L2 & L3 & L4) end.
      rewrite L1. cbn [b_stat b_cdb b_r b_e]. rewrite L2, L3, L4.
      destruct (emits_fields ((if is_ver r then [EvVerified start] else []) ++ [EvStore false start [] (r_sid r) (r_parent r)]) s1) as (_ & B & C & _).
      rewrite B, C, d_keys_set. repeat split; congruence.
    + destruct (r_two_way T r).
      * cbv zeta.
        match goal with |- context [with_stores (emits ?es s1) ?rs ?es'] =>
          destruct (Hlive es rs es' R1) as (L1 & L2 & L3 & L4);
          destruct (emits_fields es s1) as (_ & B & C & _) end.
        rewrite L1. cbn [b_stat b_cdb b_r b_e]. rewrite L2, L3, L4, B, C.
        rewrite !d_keys_del_if, d_keys_set. repeat split; congruence.
      * match goal with |- context [with_stores (emits ?es s1) ?rs ?es'] =>
          destruct (Hlive es rs es' R1) as (L1 & L2 & L3 & L4);
          destruct (emits_fields es s1) as (_ & B & C & _) end.
        rewrite L1. cbn [b_stat b_cdb b_r b_e]. rewrite L2, L3, L4, B, C, d_keys_set. repeat split; congruence.
    + match goal with |- context [with_stores (emits ?es s1) ?rs ?es'] =>
        destruct (Hlive es rs es' R1) as (L1 & L2 & L3 & L4);
        destruct (emits_fields es s1) as (_ & B & C & _) end.
      rewrite L1. cbn [b_stat b_cdb b_r b_e]. rewrite L2, L3, L4, B, C, d_keys_set. repeat split; congruence.
Qed.

End Bridge.
