(* The order in which has_specification() hands the keys of the pruned dictionary to
   equivdb.set_verified is irrelevant for every later is_verified answer.

   RuleDBBase.pruned_dict ends with  `for k in pruned: self.equivdb.set_verified(k)`; the default database
   iterates a dict built from dicts, the memory-saving one a dict built from a SET of keys: the same set of
   labels (C14_has_specification_marks_same_labels) arrives in another order.  Over the C06 model of the
   equivalence database (Equiv/Model.v): after any history `ops`, marking the labels ls1 resp. ls2 (same
   members, any order and multiplicity) leaves two states that answer is_verified alike for every label -
   set_verified never changes the partition (C06_set_verified_keeps_partition) and a label is verified iff
   some label of its class was marked (C06_verified). *)
From Coq Require Import ZArith List Bool.
From CSS Require Import Equiv.Model Equiv.UF Equiv.Hist Equiv.Complete.
From CSS Require Props.C06.
Import ListNotations.
Open Scope Z_scope.

Section VerifiedOrder.
Variable order : list Z -> list Z.
Hypothesis order_In : forall l x, In x (order l) <-> In x l.

Lemma exec_marks_same : forall ls s s' rs,
  exec order s (map SetVerified ls) = Some (s', rs) -> forall x y, same s' x y <-> same s x y.
Proof.
  induction ls as [|a t IH]; intros s s' rs H x y.
  - simpl in H. injection H as <- _. tauto.
  - cbn [map exec step] in H. destruct (set_verified s a) as [s1|] eqn:E; [|discriminate]. cbn in H.
    destruct (exec order s1 (map SetVerified t)) as [[s2 rs2]|] eqn:E2; [|discriminate]. cbn in H.
    injection H as <- _. rewrite (IH s1 s2 rs2 E2 x y).
    apply (proj1 (proj2 (Props.C06.C06_set_verified_keeps_partition s a s1 E))).
Qed.

Lemma marked_app ops ls b : marked (ops ++ map SetVerified ls) b <-> marked ops b \/ In b ls.
Proof.
  unfold marked. rewrite in_app_iff, in_map_iff. split.
  - intros [H|(x & [= <-] & Hx)]; auto.
  - intros [H|H]; auto. right. exists b. auto.
Qed.

Theorem marking_order_irrelevant : forall ops ls1 ls2 s1 rs1 s2 rs2 a s1' v1 s2' v2,
  (forall l, In l ls1 <-> In l ls2) ->
  exec order init (ops ++ map SetVerified ls1) = Some (s1, rs1) ->
  exec order init (ops ++ map SetVerified ls2) = Some (s2, rs2) ->
  is_verified s1 a = Some (s1', v1) -> is_verified s2 a = Some (s2', v2) -> v1 = v2.
Proof.
  intros ops ls1 ls2 s1 rs1 s2 rs2 a s1' v1 s2' v2 Hm E1 E2 Q1 Q2.
  pose proof (Props.C06.C06_verified order order_In _ s1 rs1 a s1' v1 E1 Q1) as V1.
  pose proof (Props.C06.C06_verified order order_In _ s2 rs2 a s2' v2 E2 Q2) as V2.
  destruct (exec_app order _ _ _ _ _ E1) as (s0 & r0 & r1 & A1 & B1).
  destruct (exec_app order _ _ _ _ _ E2) as (s0' & r0' & r2 & A2 & B2).
  rewrite A1 in A2. injection A2 as <- <-.
  assert (v1 = true <-> v2 = true) as H.
  { rewrite V1, V2. split; intros (b & Hb & Hs); exists b; rewrite marked_app in *.
    - split; [rewrite <- Hm; exact Hb|]. apply (exec_marks_same _ _ _ _ B2). apply (exec_marks_same _ _ _ _ B1). exact Hs.
    - split; [rewrite Hm; exact Hb|]. apply (exec_marks_same _ _ _ _ B1). apply (exec_marks_same _ _ _ _ B2). exact Hs. }
  destruct v1, v2; auto; destruct H as [H1 H2]; [symmetry; apply H1|apply H2]; reflexivity.
Qed.

End VerifiedOrder.
