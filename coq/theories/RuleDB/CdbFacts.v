(* Facts about the class database (C15 model at cls = key = Z) that the replay of
   RecomputingDict.__getitem__ relies on: what get_label / is_empty / `in` do to
   labels and to the answers of is_empty. *)
From Coq Require Import ZArith List Bool Lia.
From CSS Require Import Base.PyList ClassDB.Model ClassDB.Proofs Searcher.Model Searcher.Inv RuleDB.Model.
Import ListNotations.
Open Scope Z_scope.

Section Facts.
Variable T : table.

Notation orc := (oracle T).
Notation WFd := (@WF Z).
Notation lbl := (label_of Z.eqb (fun c : Z => c)).
Notation c_is_empty := (c_is_empty T).

Lemma label_opt_lbl d c : label_opt d c = lbl d c.
Proof. reflexivity. Qed.

(* ---- `c in classdb` ---- *)
Lemma labelled_spec d c : WFd d -> labelled d c = match lbl d c with Some _ => true | None => false end.
Proof.
  intros W. unfold labelled, c_contains.
  rewrite (contains_class Z.eqb Zeqb_spec (fun c : Z => c) d c W). reflexivity.
Qed.

Lemma labelled_true d c : WFd d -> labelled d c = true -> exists l, lbl d c = Some l.
Proof. intros W. rewrite labelled_spec by auto. destruct (lbl d c); eauto; discriminate. Qed.

(* ---- get_label(class) ---- *)
Lemma c_get_label_spec d c : WFd d ->
  exists d' l, c_get_label d c = (d', inl l) /\ WFd d' /\ extends d d' /\ lbl d' c = Some l /\
    ((lbl d c = Some l /\ d' = d) \/
     (lbl d c = None /\ l = nlabels d /\ classes d' = classes d ++ [c] /\ empties d' = empties d ++ [None])).
Proof.
  intros W. unfold c_get_label.
  destruct (get_label_class Z.eqb Zeqb_spec (fun c : Z => c) d c W)
    as (d' & l & Hg & W' & X & Hl & _ & Hc).
  exists d', l. split; [exact Hg|]. split; [exact W'|]. split; [exact X|]. split; [exact Hl|exact Hc].
Qed.

Lemma c_get_label_known d c l : WFd d -> lbl d c = Some l -> c_get_label d c = (d, inl l).
Proof.
  intros W H. destruct (c_get_label_spec d c W) as (d' & l' & Hg & _ & _ & _ & [[H1 ->]|[H1 _]]).
  - rewrite H in H1. injection H1 as <-. exact Hg.
  - rewrite H in H1. discriminate.
Qed.

(* ---- the answer of classdb.is_empty(c) ---- *)
Definition cache (d : cdbT) (l : Z) : option (option bool) := nth_error (empties d) (Z.to_nat l).

Lemma cache_some d c l : WFd d -> lbl d c = Some l -> exists e, cache d l = Some e.
Proof.
  intros W H. destruct (label_of_range Z.eqb Zeqb_spec (fun c : Z => c) d c l W H) as [[H0 H1] _].
  unfold cache. destruct (nth_error (empties d) (Z.to_nat l)) eqn:E; eauto.
  apply nth_error_None in E. destruct W as (_ & Hl & _). unfold nlabels, zlen in H1. lia.
Qed.

Lemma c_is_empty_spec d c l : WFd d -> lbl d c = Some l ->
  c_is_empty d c None =
  match cache d l with
  | Some (Some b) => (d, RBool b)
  | _ => (mk (classes d) (dict d) (set_nth (empties d) (Z.to_nat l) (Some (orc c))) (S (ncalls d)), RBool (orc c))
  end.
Proof.
  intros W H. pose proof (label_of_range Z.eqb Zeqb_spec (fun c : Z => c) d c l W H) as [[H0 H1] _].
  destruct (cache_some d c l W H) as (e & He). rewrite He. unfold Model.c_is_empty, is_empty.
  unfold label_of in H. rewrite H.
  pose proof W as (_ & Hlen & _).
  rewrite py_nth_nonneg by lia. unfold nlabels, zlen in *.
  destruct (l <? Z.of_nat (length (empties d))) eqn:E; [|lia].
  unfold cache in He. rewrite He. destruct e as [b|]; auto.
  set (s1 := mk (classes d) (dict d) (empties d) (S (ncalls d))).
  assert (WFd s1) as W1 by (destruct W as (A & B & C); unfold WF; simpl; auto).
  rewrite (set_empty_int_spec Z.eqb (fun c : Z => c) s1 l (orc c) W1)
    by (unfold nlabels, zlen; simpl; lia).
  reflexivity.
Qed.

(* what is_empty(c) answers in state d *)
Lemma empv_spec d c l : WFd d -> lbl d c = Some l ->
  empv T d c = match cache d l with Some (Some b) => b | _ => orc c end.
Proof.
  intros W H. unfold empv. rewrite (c_is_empty_spec d c l W H).
  destruct (cache d l) as [[b|]|]; reflexivity.
Qed.

(* the state only grew, and the classes it knew give the same is_empty answers *)
Definition pres (d d' : cdbT) : Prop :=
  WFd d' /\ extends d d' /\ forall c, lbl d c <> None -> empv T d' c = empv T d c.

Lemma lbl_mono d d' c l : WFd d -> WFd d' -> extends d d' -> lbl d c = Some l -> lbl d' c = Some l.
Proof. intros W W' X H. exact (label_of_extends Z.eqb Zeqb_spec (fun c : Z => c) d d' c l W W' X H). Qed.

Lemma pres_refl d : WFd d -> pres d d.
Proof. intros W. unfold pres. split; [exact W|]. split; [apply extends_refl|]. auto. Qed.

Lemma pres_trans a b c : WFd a -> pres a b -> pres b c -> pres a c.
Proof.
  intros Wa (Wb & X1 & E1) (Wc & X2 & E2). unfold pres. split; [exact Wc|]. split.
  - eapply extends_trans; eauto.
  - intros x Hx. rewrite E2, E1; auto.
    destruct (lbl a x) as [l|] eqn:E; [|congruence]. rewrite (lbl_mono a b x l Wa Wb X1 E). discriminate.
Qed.

Lemma set_nth_nth_error {A} (l : list A) n m v :
  nth_error (set_nth l n v) m = if Nat.eqb n m then (if Nat.ltb n (length l) then Some v else None) else nth_error l m.
Proof.
  destruct (Nat.eqb n m) eqn:E.
  - apply Nat.eqb_eq in E. subst m. destruct (Nat.ltb n (length l)) eqn:E2.
    + apply Nat.ltb_lt in E2. apply nth_error_set_nth_same; auto.
    + apply Nat.ltb_ge in E2. apply nth_error_None. rewrite set_nth_length. lia.
  - apply Nat.eqb_neq in E. apply nth_error_set_nth_other; auto.
Qed.

(* is_empty on a labelled class: same labels, same answers afterwards *)
Lemma c_is_empty_pres d c l : WFd d -> lbl d c = Some l ->
  exists d', c_is_empty d c None = (d', RBool (empv T d c)) /\ pres d d' /\
             classes d' = classes d /\ dict d' = dict d.
Proof.
  intros W H. rewrite (c_is_empty_spec d c l W H), (empv_spec d c l W H).
  pose proof (label_of_range Z.eqb Zeqb_spec (fun c : Z => c) d c l W H) as [[H0 H1] Hn].
  destruct (cache d l) as [[b|]|] eqn:Ec.
  - exists d. split; [reflexivity|]. split; [apply pres_refl; exact W|]. split; reflexivity.
  - set (d' := mk (classes d) (dict d) (set_nth (empties d) (Z.to_nat l) (Some (orc c))) (S (ncalls d))).
    assert (WFd d') as W'.
    { destruct W as (A & B & C). unfold WF, d'; simpl. split; [exact A|]. split; [|exact C]. rewrite set_nth_length; auto. }
    exists d'. split; [reflexivity|]. split; [|split; reflexivity]. split; [exact W'|]. split.
    + exists []. simpl. rewrite app_nil_r. reflexivity.
    + intros x Hx. destruct (lbl d x) as [lx|] eqn:Ex; [|congruence].
      assert (lbl d' x = Some lx) as Ex' by exact Ex.
      rewrite (empv_spec d' x lx W' Ex'), (empv_spec d x lx W Ex). unfold cache, d'; simpl.
      rewrite set_nth_nth_error. destruct (Nat.eqb (Z.to_nat l) (Z.to_nat lx)) eqn:E.
      * apply Nat.eqb_eq in E.
        pose proof (label_of_range Z.eqb Zeqb_spec (fun c : Z => c) d x lx W Ex) as [[Hx0 Hx1] _].
        assert (l = lx) by lia. subst lx.
        assert (x = c) by (eapply (label_injective Z.eqb Zeqb_spec (fun c : Z => c) (fun k : Z => k) id_inv); eauto).
        subst x. unfold cache in Ec. rewrite Ec.
        destruct (Nat.ltb (Z.to_nat l) (length (empties d))); reflexivity.
      * reflexivity.
  - destruct (cache_some d c l W H) as (e & He). congruence.
Qed.

(* get_label(class): the classes known before give the same answers *)
Lemma c_get_label_pres d c : WFd d ->
  exists d' l, c_get_label d c = (d', inl l) /\ pres d d' /\ lbl d' c = Some l /\
               (lbl d c <> None -> d' = d).
Proof.
  intros W. destruct (c_get_label_spec d c W) as (d' & l & Hg & W' & X & Hl & Hc).
  exists d', l. split; [exact Hg|]. split; [|split; [exact Hl|]].
  - split; [exact W'|]. split; [exact X|].
    intros x Hx. destruct Hc as [[_ ->]|(Hn & -> & Hcl & Hem)]; auto.
    destruct (lbl d x) as [lx|] eqn:Ex; [|congruence].
    pose proof (lbl_mono d d' x lx W W' X Ex) as Ex'.
    rewrite (empv_spec d' x lx W' Ex'), (empv_spec d x lx W Ex). unfold cache. rewrite Hem.
    pose proof (label_of_range Z.eqb Zeqb_spec (fun c : Z => c) d x lx W Ex) as [[Hx0 Hx1] _].
    rewrite nth_error_app1; auto. destruct W as (_ & Hlen & _). unfold nlabels, zlen in Hx1. lia.
  - intros Hn. destruct Hc as [[_ ->]|(Hn' & _)]; congruence.
Qed.

(* get_class(label) of a labelled class *)
Lemma c_get_class_lbl d c l : WFd d -> lbl d c = Some l -> c_get_class d l = (d, RClass c).
Proof.
  intros W H. unfold c_get_class.
  exact (get_class_of_label Z.eqb Zeqb_spec (fun c : Z => c) (fun k : Z => k) id_inv d c l W H).
Qed.

Lemma c_get_class_known d l : WFd d -> 0 <= l < nlabels d ->
  exists c, c_get_class d l = (d, RClass c) /\ lbl d c = Some l.
Proof.
  intros W Hl. destruct (label_dense Z.eqb Zeqb_spec d l W Hl) as (k & Hk & Hd).
  exists k. split; auto. apply c_get_class_lbl; auto.
Qed.

End Facts.
