(* Histories of ruledb.add calls as the searcher makes them, on the default RuleDB (DictStore):
   add_hist T a  -  the database state a was reached from an empty RuleDB by calls
   ruledb.add(start, ends, rule) each made under add_pre (start is the label of the rule's parent and ends
   are the labels of ALL its children in the class database AT THE TIME OF THE CALL), interleaved with arbitrary
   growth of the class database that keeps labels and is_empty answers (pres).
   (Moved here unchanged from Spec/FindRuleProofs.v; RuleDB/SearchHist.v proves that every run of the searcher
   model produces such a history.) *)
From Coq Require Import ZArith List Bool Lia.
From CSS Require Import Base.PyList ClassDB.Model ClassDB.Proofs Searcher.Model Searcher.Inv
  RuleDB.Model RuleDB.StoreProofs RuleDB.CdbFacts RuleDB.GetProofs RuleDB.AddProofs.
Import ListNotations.
Open Scope Z_scope.

(* re-applying the strategy of a two-way rule to the rule's parent gives a two-way rule again (in Python the rule
   object IS strategy(comb_class); in the table model a rule carries its own kind, see the head of the file) *)
Definition twoway_faithful (T : table) (r : rule) : Prop :=
  r_two_way T r = true -> r_two_way T (rule_of T (r_sid r) (r_parent r)) = true.

Lemma rule_of_fixed_twoway_faithful T r : rule_of T (r_sid r) (r_parent r) = r -> twoway_faithful T r.
Proof. intros H. unfold twoway_faithful. rewrite H. auto. Qed.

(* it holds for every rule object of a strategy that is not a verification strategy *)
Lemma twoway_faithful_not_ver_strategy T r :
  (forall x, strat_of T (r_sid r) = Some x -> (s_kind x =? 2) = false) -> twoway_faithful T r.
Proof.
  intros Hk. unfold twoway_faithful. intros Htw. unfold r_two_way in Htw.
  destruct (r_kind r) eqn:Ek; try discriminate.
  unfold entry_of in Htw. destruct (strat_of T (r_sid r)) as [x|] eqn:Es; [|discriminate].
  unfold rule_of. destruct (r_sid r =? -1) eqn:E1.
  - apply Z.eqb_eq in E1. rewrite E1 in Es. discriminate.
  - rewrite Es, (Hk x eq_refl). unfold r_two_way, entry_of. cbn [r_kind r_sid r_parent]. rewrite Es. exact Htw.
Qed.

(* histories of ruledb.add calls as the searcher makes them (C04_recorded_from_table gives add_pre), interleaved
   with arbitrary growth of the class database that keeps labels and is_empty answers *)
Inductive add_hist (T : table) : dbst dstore -> Prop :=
| ah_init : forall d, @WF Z d -> add_hist T (dict_init d)
| ah_add : forall a start ends r cs, add_hist T a -> add_pre T (b_cdb dstore a) start ends r cs -> kind_ok T r ->
    twoway_faithful T r ->
    add_hist T (dict_add T a start ends r)
| ah_env : forall a d', add_hist T a -> pres T (b_cdb dstore a) d' ->
    add_hist T (mkDB dstore d' (b_r dstore a) (b_e dstore a) (b_eq dstore a) (b_stop dstore a) 0).

