(* RecomputingDict.__getitem__ : what it hands back reproduces the key; it hands
   something back whenever some strategy of the pack produces the rule on a class
   of the key; it raises RuntimeError only if none does; it never raises anything
   else; it leaves labels and is_empty answers of known classes alone.
   RuleDB: the stored strategy reproduces the key as well. *)
From Coq Require Import ZArith List Bool Lia.
From CSS Require Import Base.PyList ClassDB.Model ClassDB.Proofs Searcher.Model Searcher.Inv
  RuleDB.Model RuleDB.StoreProofs RuleDB.CdbFacts.
Import ListNotations.
Open Scope Z_scope.

Section Get.
Variable T : table.

Notation orc := (oracle T).
Notation WFd := (@WF Z).
Notation lbl := (label_of Z.eqb (fun c : Z => c)).
Notation pres := (pres T).
Notation empv := (empv T).

Definition kept_of (d : cdbT) (pe : bool) (cs : list Z) : list Z :=
  filter (fun c => negb (pe && empv d c)) cs.

Definition all_labelled (d : cdbT) (cs : list Z) : Prop := forall c, In c cs -> lbl d c <> None.

Lemma all_labelled_forallb d cs : WFd d -> (forallb (labelled d) cs = true <-> all_labelled d cs).
Proof.
  intros W. rewrite forallb_forall. unfold all_labelled. split; intros H c Hc; specialize (H c Hc).
  - rewrite (labelled_spec d c W) in H. destruct (lbl d c); congruence.
  - rewrite (labelled_spec d c W). destruct (lbl d c); congruence.
Qed.

Lemma all_labelled_pres d d' cs : WFd d -> pres d d' -> all_labelled d cs -> all_labelled d' cs.
Proof.
  intros W (W' & X & _) H c Hc. specialize (H c Hc). destruct (lbl d c) as [l|] eqn:E; [|congruence].
  rewrite (lbl_mono d d' c l W W' X E). discriminate.
Qed.

Lemma kept_of_pres d d' pe cs : pres d d' -> all_labelled d cs -> kept_of d' pe cs = kept_of d pe cs.
Proof.
  intros (_ & _ & E) H. unfold kept_of. apply filter_ext_in. intros c Hc. rewrite (E c (H c Hc)). reflexivity.
Qed.

(* ---- labels_opt ---- *)
Lemma labels_opt_dict d d' cs : dict d' = dict d -> labels_opt d' cs = labels_opt d cs.
Proof. intros H. induction cs as [|c t IH]; simpl; auto. unfold label_opt. rewrite H, IH. reflexivity. Qed.

Lemma labels_opt_pres d d' cs ls : WFd d -> pres d d' -> labels_opt d cs = Some ls -> labels_opt d' cs = Some ls.
Proof.
  intros W (W' & X & _). revert ls. induction cs as [|c t IH]; simpl; intros ls H; auto.
  destruct (label_opt d c) as [l|] eqn:E; [|discriminate].
  destruct (labels_opt d t) as [lt|] eqn:Et; [|discriminate].
  rewrite label_opt_lbl in E. rewrite label_opt_lbl, (lbl_mono d d' c l W W' X E), (IH lt eq_refl). exact H.
Qed.

Lemma labels_opt_some d cs : all_labelled d cs -> exists ls, labels_opt d cs = Some ls.
Proof.
  induction cs as [|c t IH]; intros H; simpl; eauto.
  destruct (lbl d c) as [l|] eqn:E; [|exfalso; apply (H c); simpl; auto].
  destruct IH as (lt & Ht); [intros x Hx; apply H; simpl; auto|].
  rewrite label_opt_lbl, E, Ht. eauto.
Qed.

Lemma labels_opt_all d cs ls : labels_opt d cs = Some ls -> all_labelled d cs.
Proof.
  revert ls. induction cs as [|c t IH]; simpl; intros ls H x Hx; [contradiction|].
  destruct (label_opt d c) as [l|] eqn:E; [|discriminate].
  destruct (labels_opt d t) as [lt|] eqn:Et; [|discriminate].
  destruct Hx as [<-|Hx]; [rewrite <- label_opt_lbl, E; discriminate|eapply IH; eauto].
Qed.

(* map(get_label, classes) on labelled classes: no side effect *)
Lemma labels_spec : forall cs d ls, WFd d -> labels_opt d cs = Some ls -> labels d cs = (d, ls, None).
Proof.
  induction cs as [|c t IH]; simpl; intros d ls W H; [injection H as <-; reflexivity|].
  destruct (label_opt d c) as [l|] eqn:E; [|discriminate].
  destruct (labels_opt d t) as [lt|] eqn:Et; [|discriminate]. injection H as <-.
  rewrite label_opt_lbl in E. rewrite (c_get_label_known d c l W E), (IH d lt W Et). reflexivity.
Qed.

(* the generator of non-empty children, on labelled classes *)
Lemma nonempty_spec pe : forall cs d, WFd d -> all_labelled d cs ->
  exists d', nonempty T d pe cs = (d', kept_of d pe cs, None) /\ pres d d' /\ dict d' = dict d.
Proof.
  induction cs as [|c t IH]; intros d W H.
  - exists d. simpl. split; [reflexivity|]. split; [apply pres_refl; exact W|reflexivity].
  - assert (all_labelled d t) as Ht by (intros x Hx; apply H; simpl; auto).
    destruct pe.
    + destruct (lbl d c) as [l|] eqn:E; [|exfalso; apply (H c); simpl; auto].
      destruct (c_is_empty_pres T d c l W E) as (d1 & H1 & P1 & Hc1 & Hd1).
      assert (WFd d1) as W1 by (destruct P1; auto).
      assert (all_labelled d1 t) as Ht1 by (apply (all_labelled_pres d d1 t W P1 Ht)).
      destruct (IH d1 W1 Ht1) as (d2 & H2 & P2 & Hd2).
      exists d2. cbn [nonempty]. rewrite H1.
      assert (kept_of d true (c :: t) = if empv d c then kept_of d true t else c :: kept_of d true t) as ->
        by (unfold kept_of; cbn [filter andb]; destruct (empv d c); reflexivity).
      rewrite <- (kept_of_pres d d1 true t P1 Ht).
      destruct (empv d c); rewrite H2;
        (split; [reflexivity|split; [apply (pres_trans T d d1 d2 W P1 P2)|congruence]]).
    + destruct (IH d W Ht) as (d2 & H2 & P2 & Hd2). exists d2. cbn [nonempty]. rewrite H2.
      split; [|split; auto]. unfold kept_of. cbn [filter andb negb]. reflexivity.
Qed.

(* ---- one candidate ---- *)
Definition good (d : cdbT) (oe : bool) (k : key) (r : rule) : Prop :=
  key_of_rule T d r = Some k /\ (oe = true -> r_two_way T r = true).

Lemma key_of_rule_pres d d' r k : WFd d -> pres d d' -> key_of_rule T d r = Some k -> key_of_rule T d' r = Some k.
Proof.
  intros W P. pose proof P as (W' & X & _). unfold key_of_rule.
  destruct (rule_children T r) as [cs|]; [|discriminate].
  destruct (label_opt d (r_parent r)) as [sl|] eqn:Ep; [|discriminate].
  destruct (labels_opt d (filter (fun c => negb (r_pe T r && empv d c)) cs)) as [ls|] eqn:El; [|discriminate].
  destruct (forallb (labelled d) cs) eqn:Ef; [|discriminate]. intros [= <-].
  apply (all_labelled_forallb d cs W) in Ef.
  rewrite label_opt_lbl in Ep. rewrite label_opt_lbl, (lbl_mono d d' _ _ W W' X Ep).
  change (filter (fun c => negb (r_pe T r && empv d' c)) cs) with (kept_of d' (r_pe T r) cs).
  rewrite (kept_of_pres d d' _ cs P Ef). unfold kept_of. rewrite (labels_opt_pres d d' _ ls W P El).
  assert (forallb (labelled d') cs = true) as ->; [|reflexivity].
  apply (all_labelled_forallb d' cs W'). apply (all_labelled_pres d d' cs W P Ef).
Qed.

Lemma good_pres d d' oe k r : WFd d -> pres d d' -> good d oe k r -> good d' oe k r.
Proof. intros W P (A & B). split; auto. eapply key_of_rule_pres; eauto. Qed.

Lemma check_spec d oe k r : WFd d ->
  exists d' b, check T d oe k r = (d', inl b) /\ pres d d' /\ (b = true <-> good d' oe k r).
Proof.
  intros W. unfold check, good, key_of_rule.
  destruct (rule_children T r) as [cs|] eqn:Ec.
  2:{ exists d, false. split; [reflexivity|]. split; [apply pres_refl; exact W|]. split; [discriminate|intros [[=] _]]. }
  destruct (forallb (labelled d) cs) eqn:Ef.
  2:{ exists d, false. split; [reflexivity|]. split; [apply pres_refl; exact W|]. split; [discriminate|].
      intros [H _]. destruct (label_opt d (r_parent r)); [|discriminate].
      rewrite Ef in H. destruct (labels_opt d _); discriminate. }
  apply (all_labelled_forallb d cs W) in Ef.
  destruct (c_get_label_pres T d (r_parent r) W) as (d1 & sl & H1 & P1 & L1 & _). rewrite H1.
  assert (WFd d1) as W1 by (destruct P1; auto).
  assert (all_labelled d1 cs) as Ef1 by (apply (all_labelled_pres d d1 cs W P1 Ef)).
  destruct (nonempty_spec (r_pe T r) cs d1 W1 Ef1) as (d2 & H2 & P2 & D2). rewrite H2.
  assert (WFd d2) as W2 by (destruct P2; auto).
  assert (all_labelled d2 cs) as Ef2 by (apply (all_labelled_pres d1 d2 cs W1 P2 Ef1)).
  assert (all_labelled d2 (kept_of d1 (r_pe T r) cs)) as Ek.
  { intros c Hc. apply Ef2. unfold kept_of in Hc. apply filter_In in Hc. tauto. }
  destruct (labels_opt_some d2 _ Ek) as (ls & Hls). rewrite (labels_spec _ d2 ls W2 Hls).
  assert (pres d d2) as P by (apply (pres_trans T d d1 d2 W P1 P2)).
  exists d2, (if keqb (sl, isort ls) k then negb (oe && negb (r_two_way T r)) else false).
  split; [destruct (keqb (sl, isort ls) k); reflexivity|]. split; [exact P|].
  assert (label_opt d2 (r_parent r) = Some sl) as ->.
  { unfold label_opt. rewrite D2. exact L1. }
  change (filter (fun c => negb (r_pe T r && empv d2 c)) cs) with (kept_of d2 (r_pe T r) cs).
  rewrite (kept_of_pres d1 d2 _ cs P2 Ef1), Hls.
  assert (forallb (labelled d2) cs = true) as -> by (apply (all_labelled_forallb d2 cs W2); exact Ef2).
  destruct (keqb (sl, isort ls) k) eqn:Ek2.
  - apply keqb_spec in Ek2. subst k. split.
    + intros Hb. split; auto. intros ->. destruct (r_two_way T r); auto; discriminate.
    + intros [_ Hb]. destruct oe; auto. rewrite (Hb eq_refl). reflexivity.
  - split; [discriminate|]. intros [[= Hk] _]. rewrite <- Hk in Ek2.
    assert (keqb (sl, isort ls) (sl, isort ls) = true) by (apply keqb_spec; auto). congruence.
Qed.

(* ---- the loop ---- *)
Definition no_err (l : list (rule + err)) : Prop := forall e, ~ In (inr e) l.

Lemma try_cands_spec oe k : forall l d, WFd d -> no_err l ->
  exists d' g, try_cands T d oe k l = (d', g) /\ pres d d' /\
    match g with
    | GOk sid p => exists r, In (inl r) l /\ r_sid r = sid /\ r_parent r = p /\ good d' oe k r
    | GFail => forall r, In (inl r) l -> ~ good d oe k r
    | _ => False
    end.
Proof.
  induction l as [|[r|e] t IH]; intros d W Hn.
  - exists d, GFail. split; [reflexivity|]. split; [apply pres_refl; exact W|]. intros r [].
  - destruct (check_spec d oe k r W) as (d1 & b & Hc & P1 & Hb).
    assert (WFd d1) as W1 by (destruct P1; auto).
    cbn [try_cands]. rewrite Hc. destruct b.
    + exists d1, (GOk (r_sid r) (r_parent r)). split; [reflexivity|]. split; [exact P1|].
      exists r. split; [left; reflexivity|]. split; [reflexivity|]. split; [reflexivity|]. apply Hb; reflexivity.
    + assert (no_err t) as Hn' by (intros e He; apply (Hn e); right; exact He).
      destruct (IH d1 W1 Hn') as (d2 & g & Ht & P2 & Hg).
      exists d2, g. split; [exact Ht|]. split; [apply (pres_trans T d d1 d2 W P1 P2)|].
      destruct g as [sid p| | |e]; auto.
      * destruct Hg as (r' & Hin & Hs & Hp & Hgood). exists r'. split; [right; exact Hin|auto].
      * intros r' [Heq|Hin] Hgood.
        -- injection Heq as <-. assert (false = true) by (apply Hb; apply (good_pres d d1 oe k r W P1 Hgood)). discriminate.
        -- apply (Hg r' Hin). apply (good_pres d d1 oe k r' W P1 Hgood).
  - exfalso. apply (Hn e). left; reflexivity.
Qed.

(* the candidates: the rules the strategies of the pack (preceded by the empty strategy)
   produce on the classes carrying the labels of the key *)
Definition is_cand_in (labs : list Z) (d : cdbT) (pack : list Z) (r : rule) : Prop :=
  exists l c q, In l labs /\ lbl d c = Some l /\ In q (-1 :: pack) /\ In r (cands T q c).
Definition is_cand (d : cdbT) (pack : list Z) (k : key) (r : rule) : Prop := is_cand_in (fst k :: snd k) d pack r.

Definition labs_known (d : cdbT) (labs : list Z) : Prop := forall l, In l labs -> 0 <= l < nlabels d.
Definition labels_known (d : cdbT) (k : key) : Prop := labs_known d (fst k :: snd k).

Lemma cand_list_spec d pack k : WFd d -> labs_known d k ->
  no_err (cand_list T d pack k) /\ forall r, In (inl r) (cand_list T d pack k) <-> is_cand_in k d pack r.
Proof.
  intros W Hk. unfold cand_list. split.
  - intros e He. apply in_flat_map in He as (l & Hl & He).
    destruct (c_get_class_known d l W (Hk l Hl)) as (c & Hc & _). rewrite Hc in He. cbn [snd] in He.
    apply in_map_iff in He as (x & Hx & _). discriminate.
  - intros r. rewrite in_flat_map. split.
    + intros (l & Hl & Hr). destruct (c_get_class_known d l W (Hk l Hl)) as (c & Hc & Hlc). rewrite Hc in Hr. cbn [snd] in Hr.
      apply in_map_iff in Hr as (x & [= ->] & Hx). apply in_flat_map in Hx as (q & Hq & Hx).
      exists l, c, q. auto.
    + intros (l & c & q & Hl & Hlc & Hq & Hr). exists l. split; auto.
      rewrite (c_get_class_lbl d c l W Hlc). cbn [snd]. apply in_map. apply in_flat_map. exists q. auto.
Qed.

Theorem rec_getitem_x_spec extra pack oe s d k : WFd d -> labs_known d (key_labels k extra) ->
  exists d' g, rec_getitem_x T extra pack oe s d k = (d', g) /\ pres d d' /\
    match g with
    | GKeyError => r_mem k s = false /\ d' = d
    | GOk sid p => r_mem k s = true /\ exists r, is_cand_in (key_labels k extra) d pack r /\ r_sid r = sid /\ r_parent r = p /\ good d' oe k r
    | GFail => r_mem k s = true /\ forall r, is_cand_in (key_labels k extra) d pack r -> ~ good d oe k r
    | GErr _ => False
    end.
Proof.
  intros W Hk. unfold rec_getitem_x. destruct (r_mem k s) eqn:Em.
  - destruct (cand_list_spec d pack _ W Hk) as (Hn & Hc).
    destruct (try_cands_spec oe k _ d W Hn) as (d' & g & Ht & P & Hg).
    exists d', g. split; [exact Ht|]. split; [exact P|].
    destruct g as [sid p| | |e]; auto.
    + destruct Hg as (r & Hin & Hs & Hp & Hgood). split; auto. exists r. split; [apply Hc; exact Hin|auto].
    + contradiction.
    + split; auto. intros r Hr. apply Hg. apply Hc. exact Hr.
  - exists d, GKeyError. split; [reflexivity|]. split; [apply pres_refl; exact W|auto].
Qed.

Lemma key_labels_nil k : key_labels k [] = fst k :: snd k.
Proof. unfold key_labels. apply app_nil_r. Qed.

Theorem rec_getitem_spec pack oe s d k : WFd d -> labels_known d k ->
  exists d' g, rec_getitem T pack oe s d k = (d', g) /\ pres d d' /\
    match g with
    | GKeyError => r_mem k s = false /\ d' = d
    | GOk sid p => r_mem k s = true /\ exists r, is_cand d pack k r /\ r_sid r = sid /\ r_parent r = p /\ good d' oe k r
    | GFail => r_mem k s = true /\ forall r, is_cand d pack k r -> ~ good d oe k r
    | GErr _ => False
    end.
Proof.
  intros W Hk. unfold rec_getitem, is_cand. rewrite <- (key_labels_nil k).
  apply rec_getitem_x_spec; auto. rewrite key_labels_nil. exact Hk.
Qed.

(* ---- the strategy handed back, re-applied ---- *)
Definition kind_ok (r : rule) : Prop :=
  r_kind r = REmpty -> r_sid r = -1 /\ orc (r_parent r) = true.

Lemma cands_kind_ok q c r : In r (cands T q c) -> kind_ok r.
Proof.
  unfold cands. destruct (q =? -1) eqn:E.
  - destruct (orc c) eqn:Eo; [|intros []]. intros [<-|[]]. intros _. simpl. auto.
  - intros H Hk. exfalso. revert H Hk. unfold rules_from_strategy.
    destruct (strat_of T q) as [x|]; [|intros []].
    destruct (s_kind x =? 1).
    + intros H. apply in_flat_map in H as (it & _ & H). unfold rules_of_item in H.
      destruct (i_on it) as [p|].
      * destruct (i_lazy it); [destruct H as [<-|[]]; discriminate|].
        destruct (applies T (i_sid it) p); [destruct H as [<-|[]]; discriminate|destruct H].
      * destruct (applies T (i_sid it) c); [destruct H as [<-|[]]; discriminate|destruct H].
    + destruct (applies T q c); [|intros []]. intros [<-|[]]. simpl. destruct (s_kind x =? 2); discriminate.
Qed.

Lemma strat_of_minus1 : strat_of T (-1) = None.
Proof. reflexivity. Qed.

Lemma key_of_rule_rule_of d r k : kind_ok r -> key_of_rule T d r = Some k ->
  key_of_rule T d (rule_of T (r_sid r) (r_parent r)) = Some k /\
  ((r_sid r =? -1) && negb (orc (r_parent r))) = false.
Proof.
  intros Hk H. destruct r as [sid p kd]. simpl in *. unfold kind_ok in Hk; simpl in Hk.
  destruct kd.
  - (* RPlain *) assert (sid <> -1) as Hs.
    { intros ->. unfold key_of_rule, rule_children, entry_of in H. simpl in H. discriminate. }
    unfold rule_of. destruct (sid =? -1) eqn:E; [apply Z.eqb_eq in E; contradiction|]. split; [|reflexivity].
    destruct (strat_of T sid) as [x|]; auto. destruct (s_kind x =? 2); auto.
  - (* RVer *) assert (sid <> -1) as Hs.
    { intros ->. unfold key_of_rule, rule_children, entry_of in H. simpl in H. discriminate. }
    unfold rule_of. destruct (sid =? -1) eqn:E; [apply Z.eqb_eq in E; contradiction|]. split; [|reflexivity].
    destruct (strat_of T sid) as [x|]; auto. destruct (s_kind x =? 2); auto.
  - destruct (Hk eq_refl) as (-> & Ho). unfold rule_of. simpl. rewrite Ho. auto.
Qed.

Lemma good_reproduces d oe k r : WFd d -> kind_ok r -> good d oe k r -> reproduces T d (r_sid r) k = true.
Proof.
  intros W Hk (H & _). pose proof H as H0. unfold key_of_rule in H0.
  destruct (rule_children T r) as [cs|]; [|discriminate].
  destruct (label_opt d (r_parent r)) as [sl|] eqn:Ep; [|discriminate].
  destruct (labels_opt d _) as [ls|]; [|discriminate].
  destruct (forallb (labelled d) cs); [|discriminate]. injection H0 as <-.
  unfold reproduces. cbn [fst]. rewrite label_opt_lbl in Ep. rewrite (c_get_class_lbl d _ _ W Ep). cbn [snd].
  destruct (key_of_rule_rule_of d r _ Hk H) as (-> & ->). apply keqb_spec. reflexivity.
Qed.

Lemma is_cand_in_kind_ok labs d pack r : is_cand_in labs d pack r -> kind_ok r.
Proof. intros (l & c & q & _ & _ & _ & H). eapply cands_kind_ok; eauto. Qed.
Lemma is_cand_kind_ok d pack k r : is_cand d pack k r -> kind_ok r.
Proof. apply is_cand_in_kind_ok. Qed.

(* 3a. what is handed back reproduces the key *)
Theorem recompute_x_reproduces extra pack oe s d k d' sid p : WFd d -> labs_known d (key_labels k extra) ->
  rec_getitem_x T extra pack oe s d k = (d', GOk sid p) ->
  reproduces T d' sid k = true /\ r_mem k s = true /\
  (exists r, is_cand_in (key_labels k extra) d pack r /\ r_sid r = sid /\ r_parent r = p /\ (oe = true -> r_two_way T r = true)) /\
  lbl d' p = Some (fst k).
Proof.
  intros W Hk H. destruct (rec_getitem_x_spec extra pack oe s d k W Hk) as (d2 & g & Hg & P & Hs).
  rewrite H in Hg. injection Hg as <- <-. destruct Hs as (Hm & r & Hc & <- & <- & Hgood).
  assert (WFd d') as W' by (destruct P; auto).
  split; [eapply good_reproduces; eauto; eapply is_cand_in_kind_ok; eauto|]. split; [exact Hm|].
  split; [exists r; destruct Hgood; auto|].
  destruct Hgood as (Hkr & _). unfold key_of_rule in Hkr.
  destruct (rule_children T r); [|discriminate].
  destruct (label_opt d' (r_parent r)) as [sl|] eqn:E; [|discriminate].
  destruct (labels_opt d' _); [|discriminate]. destruct (forallb _ _); [|discriminate].
  injection Hkr as <-. exact E.
Qed.

(* 3b. it hands a strategy back whenever some strategy of the pack produces the rule on a replayed class *)
Theorem recompute_x_succeeds extra pack oe s d k r : WFd d -> labs_known d (key_labels k extra) ->
  r_mem k s = true -> is_cand_in (key_labels k extra) d pack r -> key_of_rule T d r = Some k ->
  (oe = true -> r_two_way T r = true) ->
  exists d' sid p, rec_getitem_x T extra pack oe s d k = (d', GOk sid p).
Proof.
  intros W Hk Hm Hc Hkr Htw. destruct (rec_getitem_x_spec extra pack oe s d k W Hk) as (d2 & g & Hg & P & Hs).
  destruct g as [sid p| | |e].
  - eauto.
  - destruct Hs; congruence.
  - destruct Hs as (_ & Hf). exfalso. apply (Hf r Hc). split; auto.
  - contradiction.
Qed.

(* 3c. ... and raises RuntimeError only if none does; KeyError exactly for keys it does not hold; nothing else *)
Theorem recompute_x_outcomes extra pack oe s d k d' g : WFd d -> labs_known d (key_labels k extra) ->
  rec_getitem_x T extra pack oe s d k = (d', g) ->
  match g with
  | GOk _ _ => r_mem k s = true
  | GKeyError => r_mem k s = false
  | GFail => r_mem k s = true /\
             forall r, is_cand_in (key_labels k extra) d pack r ->
                       ~ (key_of_rule T d r = Some k /\ (oe = true -> r_two_way T r = true))
  | GErr _ => False
  end.
Proof.
  intros W Hk H. destruct (rec_getitem_x_spec extra pack oe s d k W Hk) as (d2 & g2 & Hg & P & Hs).
  rewrite H in Hg. injection Hg as <- <-. destruct g as [sid p| | |e]; try tauto.
Qed.

(* side effects of a lookup on the class database: it only grows, and the classes it knew
   keep their labels and their is_empty answers *)
Theorem recompute_x_side_effects extra pack oe s d k d' g : WFd d -> labs_known d (key_labels k extra) ->
  rec_getitem_x T extra pack oe s d k = (d', g) ->
  WFd d' /\ extends d d' /\ (forall c l, lbl d c = Some l -> lbl d' c = Some l /\ empv d' c = empv d c).
Proof.
  intros W Hk H. destruct (rec_getitem_x_spec extra pack oe s d k W Hk) as (d2 & g2 & Hg & P & _).
  rewrite H in Hg. injection Hg as <- <-. destruct P as (W' & X & E).
  split; [exact W'|]. split; [exact X|]. intros c l Hl. split; [apply (lbl_mono d d' c l W W' X Hl)|].
  apply E. rewrite Hl. discriminate.
Qed.

(* the code BEFORE fix 59cdf67: nothing but the labels of the key is replayed (the code as it is: RuleDB/GetAll.v) *)
Lemma labs_known_nil d k : labels_known d k -> labs_known d (key_labels k []).
Proof. unfold labels_known. rewrite key_labels_nil. auto. Qed.

Theorem recompute_reproduces pack oe s d k d' sid p : WFd d -> labels_known d k ->
  rec_getitem T pack oe s d k = (d', GOk sid p) ->
  reproduces T d' sid k = true /\ r_mem k s = true /\
  (exists r, is_cand d pack k r /\ r_sid r = sid /\ r_parent r = p /\ (oe = true -> r_two_way T r = true)) /\
  lbl d' p = Some (fst k).
Proof.
  intros W Hk H. unfold is_cand. rewrite <- (key_labels_nil k).
  apply (recompute_x_reproduces [] pack oe s d k d' sid p W (labs_known_nil d k Hk) H).
Qed.

Theorem recompute_succeeds pack oe s d k r : WFd d -> labels_known d k ->
  r_mem k s = true -> is_cand d pack k r -> key_of_rule T d r = Some k -> (oe = true -> r_two_way T r = true) ->
  exists d' sid p, rec_getitem T pack oe s d k = (d', GOk sid p).
Proof.
  intros W Hk Hm Hc Hkr Htw. unfold is_cand in Hc. rewrite <- (key_labels_nil k) in Hc.
  apply (recompute_x_succeeds [] pack oe s d k r W (labs_known_nil d k Hk) Hm Hc Hkr Htw).
Qed.

Theorem recompute_outcomes pack oe s d k d' g : WFd d -> labels_known d k ->
  rec_getitem T pack oe s d k = (d', g) ->
  match g with
  | GOk _ _ => r_mem k s = true
  | GKeyError => r_mem k s = false
  | GFail => r_mem k s = true /\
             forall r, is_cand d pack k r -> ~ (key_of_rule T d r = Some k /\ (oe = true -> r_two_way T r = true))
  | GErr _ => False
  end.
Proof.
  intros W Hk H. unfold is_cand. rewrite <- (key_labels_nil k).
  apply (recompute_x_outcomes [] pack oe s d k d' g W (labs_known_nil d k Hk) H).
Qed.

Theorem recompute_side_effects pack oe s d k d' g : WFd d -> labels_known d k ->
  rec_getitem T pack oe s d k = (d', g) ->
  WFd d' /\ extends d d' /\ (forall c l, lbl d c = Some l -> lbl d' c = Some l /\ empv d' c = empv d c).
Proof.
  intros W Hk H. apply (recompute_x_side_effects [] pack oe s d k d' g W (labs_known_nil d k Hk) H).
Qed.

(* ---- RuleDBBase.add files the rule under the key its strategy reproduces ---- *)
Lemma c_is_empty_label d c l : lbl d c = Some l -> c_is_empty T d c (Some l) = c_is_empty T d c None.
Proof. intros H. unfold c_is_empty, is_empty. unfold label_of in H. rewrite H. reflexivity. Qed.

Fixpoint kept_labels (d : cdbT) (pe : bool) (kids : list (Z * Z)) : list Z :=
  match kids with
  | [] => []
  | (c, l) :: t => if negb (pe && empv d c) then l :: kept_labels d pe t else kept_labels d pe t
  end.

Definition kids_labelled (d : cdbT) (kids : list (Z * Z)) : Prop :=
  forall c l, In (c, l) kids -> lbl d c = Some l.

Lemma kept_labels_pres d d' pe kids : pres d d' -> kids_labelled d kids -> kept_labels d' pe kids = kept_labels d pe kids.
Proof.
  intros (_ & _ & E). induction kids as [|[c l] t IH]; intros H; simpl; auto.
  rewrite (E c) by (rewrite (H c l) by (simpl; auto); discriminate).
  rewrite IH by (intros x y Hxy; apply H; simpl; auto). reflexivity.
Qed.

Lemma kids_labelled_pres d d' kids : WFd d -> pres d d' -> kids_labelled d kids -> kids_labelled d' kids.
Proof. intros W (W' & X & _) H c l Hin. apply (lbl_mono d d' c l W W' X (H c l Hin)). Qed.

Lemma clean_spec pe : forall kids d, WFd d -> kids_labelled d kids ->
  exists d' stop, clean T d pe kids = (d', kept_labels d pe kids, stop, None) /\ pres d d' /\ dict d' = dict d.
Proof.
  induction kids as [|[c l] t IH]; intros d W H.
  - exists d, []. simpl. split; [reflexivity|]. split; [apply pres_refl; exact W|reflexivity].
  - assert (kids_labelled d t) as Ht by (intros x y Hxy; apply H; simpl; auto).
    assert (lbl d c = Some l) as Hl by (apply H; simpl; auto).
    destruct pe.
    + destruct (c_is_empty_pres T d c l W Hl) as (d1 & H1 & P1 & _ & Hd1).
      assert (WFd d1) as W1 by (destruct P1; auto).
      assert (kids_labelled d1 t) as Ht1 by (apply (kids_labelled_pres d d1 t W P1 Ht)).
      destruct (IH d1 W1 Ht1) as (d2 & stop & H2 & P2 & Hd2).
      cbn [clean]. rewrite (c_is_empty_label d c l Hl), H1, H2. rewrite (kept_labels_pres d d1 true t P1 Ht).
      cbn [kept_labels andb]. destruct (empv d c); cbn [negb].
      * exists d2, (l :: stop). split; [reflexivity|]. split; [apply (pres_trans T d d1 d2 W P1 P2)|congruence].
      * exists d2, stop. split; [reflexivity|]. split; [apply (pres_trans T d d1 d2 W P1 P2)|congruence].
    + destruct (IH d W Ht) as (d2 & stop & H2 & P2 & Hd2). cbn [clean]. rewrite H2.
      exists d2, stop. split; [reflexivity|]. split; auto.
Qed.

Lemma kept_labels_labels_opt d pe : forall cs ends, Forall2 (fun c l => lbl d c = Some l) cs ends ->
  labels_opt d (kept_of d pe cs) = Some (kept_labels d pe (combine cs ends)).
Proof.
  induction 1 as [|c l cs ends Hl _ IH]; simpl; auto.
  unfold kept_of in *. cbn [filter]. destruct (negb (pe && empv d c)); auto.
  cbn [labels_opt]. rewrite label_opt_lbl, Hl, IH. reflexivity.
Qed.

Lemma Forall2_kids d cs ends : Forall2 (fun c l => lbl d c = Some l) cs ends -> kids_labelled d (combine cs ends).
Proof.
  induction 1 as [|c l cs ends Hl _ IH]; intros x y; simpl; [intros []|].
  intros [[= <- <-]|Hin]; auto.
Qed.

(* the key add computes for a rule whose parent and children carry the labels it is given *)
Theorem add_key_is_key_of_rule d r start ends cs : WFd d ->
  rule_children T r = Some cs -> lbl d (r_parent r) = Some start ->
  Forall2 (fun c l => lbl d c = Some l) cs ends ->
  exists d' stop, clean T d (r_pe T r) (combine cs ends) = (d', kept_labels d (r_pe T r) (combine cs ends), stop, None) /\
    pres d d' /\
    key_of_rule T d' r = Some (start, isort (kept_labels d (r_pe T r) (combine cs ends))).
Proof.
  intros W Hc Hp Hf. pose proof (Forall2_kids d cs ends Hf) as Hk.
  destruct (clean_spec (r_pe T r) _ d W Hk) as (d' & stop & Hcl & P & Hd).
  exists d', stop. split; [exact Hcl|]. split; [exact P|].
  assert (key_of_rule T d r = Some (start, isort (kept_labels d (r_pe T r) (combine cs ends)))) as H.
  { unfold key_of_rule. rewrite Hc, label_opt_lbl, Hp.
    change (filter (fun c => negb (r_pe T r && empv d c)) cs) with (kept_of d (r_pe T r) cs).
    rewrite (kept_labels_labels_opt d (r_pe T r) cs ends Hf).
    assert (forallb (labelled d) cs = true) as ->; [|reflexivity].
    apply (all_labelled_forallb d cs W). intros c Hin.
    destruct (Forall2_In_l Hf Hin) as (l & _ & Hl)
      || (clear - Hf Hin; induction Hf as [|x y xs ys Hxy _ IH]; [destruct Hin|destruct Hin as [<-|Hin]; [rewrite Hxy; discriminate|auto]]). }
  eapply key_of_rule_pres; eauto.
Qed.

End Get.
