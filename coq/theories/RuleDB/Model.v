(* Executable model of the two pruning rule databases
     comb_spec_searcher/rule_db/base.py    RuleDBBase.add / _clean_labels / contains / __iter__, RuleDB
     comb_spec_searcher/rule_db/forget.py  RecomputingDict, RuleDBForgetStrategy
   as ONE database parameterised by the implementation of its two rule stores
   (rule_to_strategy, eqv_rule_to_strategy):

     DictStore     a Python dict  key -> strategy            (RuleDB)
     RecStore      RecomputingDict: a set of FLATTENED keys; the strategy is
                   recomputed by replaying the pack on the classes of the key
                   (RuleDBForgetStrategy)

   The strategy pack and the classes are the finite strategy table of
   Searcher/Model.v (classes are integers; a strategy reads everything from the
   table); the class database is the C15 model ClassDB/Model.v (cls = key = Z,
   compress = id).  The equivalence database is a SHARED component of the base
   class: the model records the calls `add` makes on it (b_eq); is_verified and
   equivdb[...] are functions of that call sequence, whatever they are.

   Python is modelled as it is: dict keeps insertion order and `d[k] = v` on an
   existing key keeps its position; a set has no duplicates (its iteration order
   is NOT modelled: the list order stands for "some order", theorems speak about
   membership); `sorted`; generator expressions are evaluated completely before
   the next statement; `all(...)` short-circuits (ClassDB.__contains__ has no
   side effect, so that is invisible); an exception stops the call, side effects
   on the class database made before it remain.  No proofs in this file. *)
From Coq Require Import ZArith List Bool.
From CSS Require Import Base.PyList ClassDB.Model Searcher.Model.
From CSS Require Tree.Model.
Import ListNotations.
Open Scope Z_scope.

Definition key := (Z * list Z)%type.
Definition cdbT := @db Z.

Fixpoint leqb (a b : list Z) : bool :=
  match a, b with
  | [], [] => true
  | x :: a', y :: b' => (x =? y) && leqb a' b'
  | _, _ => false
  end.
Definition keqb (a b : key) : bool := (fst a =? fst b) && leqb (snd a) (snd b).

(* ------------------------------------------------------------ DictStore *)
Definition dstore := list (key * Z).          (* insertion ordered; value = strategy id *)
Definition d_mem (k : key) (s : dstore) : bool := existsb (fun kv => keqb k (fst kv)) s.
(* d[k] = v *)
Fixpoint d_set (k : key) (v : Z) (s : dstore) : dstore :=
  match s with
  | [] => [(k, v)]
  | (k', v') :: t => if keqb k k' then (k', v) :: t else (k', v') :: d_set k v t
  end.
(* del d[k]  (only reached when k is present) *)
Definition d_del (k : key) (s : dstore) : dstore := filter (fun kv => negb (keqb k (fst kv))) s.
Definition d_keys (s : dstore) : list key := map fst s.
(* d[k]; None = KeyError *)
Fixpoint d_get (k : key) (s : dstore) : option Z :=
  match s with
  | [] => None
  | (k', v) :: t => if keqb k k' then Some v else d_get k t
  end.

(* ------------------------------------------------------------- RecStore *)
(* RecomputingDict.rules : Set[Tuple[int, ...]] *)
Definition rstore_t := list (list Z).
(* _flatten:  (tuple_[0],) + tuple_[1] *)
Definition flatten (k : key) : list Z := fst k :: snd k.
(* _unflatten: (tuple_[0], tuple_[1:]);  the empty tuple (IndexError) is never stored *)
Definition unflatten (t : list Z) : key := (hd 0 t, tl t).
(* __contains__ *)
Definition r_mem (k : key) (s : rstore_t) : bool := existsb (leqb (flatten k)) s.
(* __setitem__: self.rules.add(self._flatten(key)); the value is forgotten *)
Definition r_set (k : key) (v : Z) (s : rstore_t) : rstore_t := if r_mem k s then s else s ++ [flatten k].
(* __delitem__: self.rules.remove(self._flatten(key))  (only reached when present) *)
Definition r_del (k : key) (s : rstore_t) : rstore_t := filter (fun t => negb (leqb (flatten k) t)) s.
(* __iter__ *)
Definition r_keys (s : rstore_t) : list key := map unflatten s.

(* ------------------------------------------- the database, store-generic *)
(* calls RuleDBBase.add makes on the shared equivalence database *)
Inductive eqcall :=
| EqVerified (l : Z)                      (* equivdb.set_verified(start) *)
| EqEdge (two_way : bool) (a b : Z).      (* add_two_way_edge / add_one_way_edge *)

(* status: 0 fine; 1 KeyError, 2 IndexError, 3 TypeError, 4 ValueError (class database),
   8 the rule has no children (StrategyDoesNotApply) *)
Definition err_z (e : err) : Z :=
  match e with KeyError => 1 | IndexError => 2 | TypeError => 3 | ValueError => 4 end.

(* `label for label in range(len(self.classdb.label_to_info)) if label not in possible_labels`
   (forget.py since 59cdf67): every other label of the class database, in increasing order *)
Definition other_labels (d : cdbT) (k : key) : list Z :=
  filter (fun l => negb (mem l (fst k :: snd k))) (map Z.of_nat (seq 0 (length (ClassDB.Model.classes d)))).

Section DB.
Variable T : table.

Notation oracleT := (oracle T).
Definition c_is_empty (d : cdbT) (c : Z) (lab : option Z) : cdbT * res :=
  is_empty Z.eqb (fun c : Z => c) oracleT d c lab.
Definition c_get_label (d : cdbT) (c : Z) : cdbT * (Z + err) :=
  get_label Z.eqb (fun c : Z => c) d (KC c).
Definition c_contains (d : cdbT) (c : Z) : res :=
  contains Z.eqb (fun c : Z => c) d (KC c).
Definition c_get_class (d : cdbT) (l : Z) : cdbT * res :=
  get_class Z.eqb (fun c : Z => c) (fun k : Z => k) d (KI l).

(* _clean_labels before sorting: (database, kept labels, labels handed to
   classqueue.set_stop_yielding, exception) *)
Fixpoint clean (d : cdbT) (pe : bool) (kids : list (Z * Z)) : cdbT * list Z * list Z * option err :=
  match kids with
  | [] => (d, [], [], None)
  | (c, l) :: t =>
      if pe then
        let '(d1, r) := c_is_empty d c (Some l) in
        match r with
        | RBool true => let '(d2, kept, stop, e) := clean d1 pe t in (d2, kept, l :: stop, e)
        | RBool false => let '(d2, kept, stop, e) := clean d1 pe t in (d2, l :: kept, stop, e)
        | RErr e => (d1, [], [], Some e)
        | _ => (d1, [], [], Some TypeError)
        end
      else let '(d2, kept, stop, e) := clean d pe t in (d2, l :: kept, stop, e)
  end.

Section Generic.
Variable S : Type.
Variable set_ : key -> Z -> S -> S.
Variable mem_ : key -> S -> bool.
Variable del_ : key -> S -> S.

Record dbst := mkDB {
  b_cdb : cdbT;            (* searcher.classdb *)
  b_r : S;                 (* rule_to_strategy *)
  b_e : S;                 (* eqv_rule_to_strategy *)
  b_eq : list eqcall;      (* calls on equivdb, newest first *)
  b_stop : list Z;         (* classqueue.set_stop_yielding calls of _clean_labels, newest first *)
  b_stat : Z               (* 0, or the code of the exception that ended the last call *)
}.

(* `if key in d: del d[key]` *)
Definition del_if (k : key) (s : S) : S := if mem_ k s then del_ k s else s.

(* the store part of RuleDBBase.add, on the cleaned and sorted ends *)
Definition gen_store (start : Z) (ends' : list Z) (sid : Z) (two_way : bool) (r e : S) : S * S :=
  match ends' with
  | [e0] =>
      if two_way then
        (del_if (e0, [start]) (del_if (start, ends') r), set_ (start, ends') sid e)
      else (set_ (start, ends') sid r, e)
  | _ => (set_ (start, ends') sid r, e)
  end.

Definition gen_eqcalls (start : Z) (ends' : list Z) (ver two_way : bool) : list eqcall :=
  (if ver then [EqVerified start] else []) ++
  match ends' with
  | [e0] => [EqEdge two_way start e0]
  | _ => []
  end.

(* RuleDBBase.add(start, ends, rule) *)
Definition gen_add (s : dbst) (start : Z) (ends : list Z) (r : rule) : dbst :=
  match rule_children T r with
  | None => mkDB (b_cdb s) (b_r s) (b_e s) (b_eq s) (b_stop s) 8
  | Some cs =>
      let '(d1, kept, stop, e) := clean (b_cdb s) (r_pe T r) (combine cs ends) in
      match e with
      | Some x => mkDB d1 (b_r s) (b_e s) (b_eq s) (rev stop ++ b_stop s) (err_z x)
      | None =>
          let ends' := isort kept in
          (* `if ends == [start]: return` compares a tuple with a list: never true *)
          let tw := r_two_way T r in
          let '(r', e') := gen_store start ends' (r_sid r) tw (b_r s) (b_e s) in
          mkDB d1 r' e' (rev (gen_eqcalls start ends' (is_ver r) tw) ++ b_eq s) (rev stop ++ b_stop s) 0
      end
  end.

(* RuleDBBase.contains(start, ends) *)
Definition gen_contains (s : dbst) (start : Z) (ends : list Z) : bool :=
  let k := (start, isort ends) in mem_ k (b_r s) || mem_ k (b_e s).

(* a history of public mutations: add, a direct store assignment / deletion, and
   anything the rest of the program does to the class database in between *)
Inductive hop :=
| HAdd (start : Z) (ends : list Z) (r : rule)
| HSet (eqv : bool) (k : key) (sid : Z)          (* store[k] = strategy *)
| HDel (eqv : bool) (k : key)                    (* del store[k]; KeyError (code 1) when absent *)
| HEnv (d : cdbT).                               (* the class database becomes d *)

Definition gen_step (s : dbst) (o : hop) : dbst :=
  match o with
  | HAdd start ends r => gen_add s start ends r
  | HSet false k v => mkDB (b_cdb s) (set_ k v (b_r s)) (b_e s) (b_eq s) (b_stop s) 0
  | HSet true k v => mkDB (b_cdb s) (b_r s) (set_ k v (b_e s)) (b_eq s) (b_stop s) 0
  | HDel false k => if mem_ k (b_r s) then mkDB (b_cdb s) (del_ k (b_r s)) (b_e s) (b_eq s) (b_stop s) 0
                    else mkDB (b_cdb s) (b_r s) (b_e s) (b_eq s) (b_stop s) 1
  | HDel true k => if mem_ k (b_e s) then mkDB (b_cdb s) (b_r s) (del_ k (b_e s)) (b_eq s) (b_stop s) 0
                   else mkDB (b_cdb s) (b_r s) (b_e s) (b_eq s) (b_stop s) 1
  | HEnv d => mkDB d (b_r s) (b_e s) (b_eq s) (b_stop s) 0
  end.

Definition gen_run (s : dbst) (h : list hop) : dbst := fold_left gen_step h s.
End Generic.

(* ---------------------------------------- RecomputingDict.__getitem__ *)
(* outcome: the strategy (id, and the class its rule belongs to), KeyError(key),
   RuntimeError("Could not recompute ..."), or an exception of the class database *)
Inductive gres := GOk (sid parent : Z) | GKeyError | GFail | GErr (e : err).

(* the rule objects `strat` produces on comb_class inside __getitem__:
   EmptyStrategy()(c) asks the class itself; a strategy that does not apply
   (StrategyDoesNotApply) gives nothing; a factory gives the rules of the
   strategies it yields plus its ready rules (a lazily built one whatever the
   table says: its children raise later) *)
Definition cands (q c : Z) : list rule :=
  if q =? -1 then (if oracleT c then [mkR (-1) c REmpty] else [])
  else rules_from_strategy T q c.

(* tuple(c for c in rule.children if not (rule.possibly_empty and classdb.is_empty(c))) *)
Fixpoint nonempty (d : cdbT) (pe : bool) (cs : list Z) : cdbT * list Z * option err :=
  match cs with
  | [] => (d, [], None)
  | c :: t =>
      if pe then
        let '(d1, r) := c_is_empty d c None in
        match r with
        | RBool true => nonempty d1 pe t
        | RBool false => let '(d2, rest, e) := nonempty d1 pe t in (d2, c :: rest, e)
        | RErr e => (d1, [], Some e)
        | _ => (d1, [], Some TypeError)
        end
      else let '(d2, rest, e) := nonempty d pe t in (d2, c :: rest, e)
  end.

(* map(self.classdb.get_label, classes) *)
Fixpoint labels (d : cdbT) (cs : list Z) : cdbT * list Z * option err :=
  match cs with
  | [] => (d, [], None)
  | c :: t =>
      let '(d1, r) := c_get_label d c in
      match r with
      | inl l => let '(d2, rest, e) := labels d1 t in (d2, l :: rest, e)
      | inr e => (d1, [], Some e)
      end
  end.

Definition labelled (d : cdbT) (c : Z) : bool :=
  match c_contains d c with RBool b => b | _ => false end.

(* body of `for x in strats_or_rules` for one rule object:
   inl true = `return rule.strategy`, inl false = next candidate *)
Definition check (d : cdbT) (only_equiv : bool) (k : key) (r : rule) : cdbT * (bool + err) :=
  match rule_children T r with
  | None => (d, inl false)                        (* except StrategyDoesNotApply: pass *)
  | Some cs =>
      if forallb (labelled d) cs then
        let '(d1, sl) := c_get_label d (r_parent r) in     (* may give a NEW label to a foreign parent *)
        match sl with
        | inr e => (d1, inr e)
        | inl start_label =>
            let '(d2, ne, e2) := nonempty d1 (r_pe T r) cs in
            match e2 with
            | Some e => (d2, inr e)
            | None =>
                let '(d3, ls, e3) := labels d2 ne in
                match e3 with
                | Some e => (d3, inr e)
                | None =>
                    if keqb (start_label, isort ls) k
                    then (d3, inl (negb (only_equiv && negb (r_two_way T r))))
                    else (d3, inl false)
                end
            end
        end
      else (d, inl false)             (* the searcher never saw one of the children *)
  end.

(* the loop over itertools.product(possible_labels, strats), flattened: one entry per
   rule object, or the KeyError of classdb.get_class(label) for an unknown label.
   comb_class_list only grows, so reading the classes of the labels up front is
   what the loop sees.  `extra` = labels replayed after the labels of the key: since fix
   59cdf67 ALL other labels of the class database (other_labels below: the code as it is,
   rec_getitem_all); none in the code before that fix (rec_getitem) *)
Definition key_labels (k : key) (extra : list Z) : list Z := (fst k :: snd k) ++ extra.
Definition cand_list (d : cdbT) (pack : list Z) (labs : list Z) : list (rule + err) :=
  flat_map (fun l =>
    match snd (c_get_class d l) with
    | RClass c => map inl (flat_map (fun q => cands q c) (-1 :: pack))
    | RErr e => [inr e]
    | _ => [inr TypeError]
    end) labs.

Fixpoint try_cands (d : cdbT) (only_equiv : bool) (k : key) (l : list (rule + err)) : cdbT * gres :=
  match l with
  | [] => (d, GFail)
  | inr e :: _ => (d, GErr e)
  | inl r :: t =>
      let '(d1, o) := check d only_equiv k r in
      match o with
      | inl true => (d1, GOk (r_sid r) (r_parent r))
      | inl false => try_cands d1 only_equiv k t
      | inr e => (d1, GErr e)
      end
  end.

Definition rec_getitem_x (extra : list Z) (pack : list Z) (only_equiv : bool) (s : rstore_t) (d : cdbT) (k : key) : cdbT * gres :=
  if r_mem k s then try_cands d only_equiv k (cand_list d pack (key_labels k extra)) else (d, GKeyError).
(* the code BEFORE fix 59cdf67 (only the classes of the key are replayed) *)
Definition rec_getitem := rec_getitem_x [].

(* THE CODE AS IT IS (since 59cdf67): after the classes of the key, every other labelled class is replayed *)
Definition rec_getitem_all (pack : list Z) (only_equiv : bool) (s : rstore_t) (d : cdbT) (k : key) : cdbT * gres :=
  rec_getitem_x (other_labels d k) pack only_equiv s d k.

(* ------------------------------- re-applying a strategy to the parent class *)
(* what classdb.is_empty(c) answers in state d for a labelled class *)
Definition empv (d : cdbT) (c : Z) : bool :=
  match c_is_empty d c None with (_, RBool b) => b | _ => false end.
Definition label_opt (d : cdbT) (c : Z) : option Z := dict_get Z.eqb (dict d) c.
Fixpoint labels_opt (d : cdbT) (cs : list Z) : option (list Z) :=
  match cs with
  | [] => Some []
  | c :: t => match label_opt d c, labels_opt d t with
              | Some l, Some ls => Some (l :: ls)
              | _, _ => None
              end
  end.
(* the key under which RuleDBBase would file the rule in state d *)
Definition key_of_rule (d : cdbT) (r : rule) : option key :=
  match rule_children T r, label_opt d (r_parent r) with
  | Some cs, Some sl =>
      match labels_opt d (filter (fun c => negb (r_pe T r && empv d c)) cs) with
      | Some ls => if forallb (labelled d) cs then Some (sl, isort ls) else None
      | None => None
      end
  | _, _ => None
  end.
(* strategy(comb_class): the rule object of strategy sid on class p *)
Definition rule_of (sid p : Z) : rule :=
  if sid =? -1 then mkR (-1) p REmpty
  else mkR sid p (match strat_of T sid with
                  | Some x => if s_kind x =? 2 then RVer else RPlain
                  | None => RPlain
                  end).
(* the strategy handed back for key k, re-applied to the class labelled fst k,
   gives a rule that is filed under k again *)
Definition reproduces (d : cdbT) (sid : Z) (k : key) : bool :=
  match snd (c_get_class d (fst k)) with
  | RClass p =>
      if (sid =? -1) && negb (oracleT p) then false      (* EmptyStrategy()(p) raises for a non-empty class *)
      else match key_of_rule d (rule_of sid p) with
           | Some k' => keqb k' k
           | None => false
           end
  | _ => false
  end.

End DB.

(* the two databases *)
Definition dict_add T := gen_add T dstore d_set d_mem d_del.
Definition rec_add T := gen_add T rstore_t r_set r_mem r_del.
Definition dict_run T := gen_run T dstore d_set d_mem d_del.
Definition rec_run T := gen_run T rstore_t r_set r_mem r_del.
Definition dict_contains := gen_contains dstore d_mem.
Definition rec_contains := gen_contains rstore_t r_mem.
Definition dict_init (d : cdbT) : dbst dstore := mkDB dstore d [] [] [] [] 0.
Definition rec_init (d : cdbT) : dbst rstore_t := mkDB rstore_t d [] [] [] [] 0.

(* RuleDBBase.has_specification as a function of the stored keys: Tree/Model.v
   (rules_up_to_equivalence, prune / iterative_prune); rep = equivdb[...] after
   connect_cycles, a function of the calls the equivalence database received *)
Definition db_has_spec (rep : Z -> Z) (keys_r keys_e : list key) (root : Z) (iterative : bool) : option bool :=
  Tree.Model.has_specification rep (keys_r ++ keys_e) root iterative.

(* decider of the pack hypothesis of C14_search_stored_rules_handed_back_x: the pack the memory-saving database
   replays (StrategyPack.__iter__) contains every strategy the searcher applies itself - the strategies the queue
   hands out (`pack` of Searcher/Contracts.v), the verification strategies and the symmetries *)
Definition fpack_coversb (T : table) (pack fpack : list Z) : bool :=
  forallb (fun q => mem q fpack) (pack ++ t_ver T ++ t_sym T).
