(* The two stores hold the same keys along every history; contains; has_specification
   depends on the SET of stored keys only. *)
From Coq Require Import ZArith List Bool Lia.
From CSS Require Import Base.PyList ClassDB.Model Searcher.Model RuleDB.Model.
From CSS Require Tree.Model Tree.Basics Tree.PruneProofs Tree.IterProofs Tree.SpecProofs.
Import ListNotations.
Open Scope Z_scope.

Ltac csplit := repeat match goal with |- _ /\ _ => split end.

(* ------------------------------------------------------------ equalities *)
Lemma leqb_spec a : forall b, leqb a b = true <-> a = b.
Proof.
  induction a as [|x a IH]; intros [|y b]; simpl; try (split; [discriminate|congruence]); [tauto|].
  rewrite andb_true_iff, Z.eqb_eq, IH. split; [intros [-> ->]; auto|intros [= -> ->]; auto].
Qed.

Lemma leqb_refl a : leqb a a = true.
Proof. apply leqb_spec; auto. Qed.

Lemma keqb_spec a b : keqb a b = true <-> a = b.
Proof.
  destruct a as [a1 a2], b as [b1 b2]. unfold keqb; simpl.
  rewrite andb_true_iff, Z.eqb_eq, leqb_spec. split; [intros [-> ->]; auto|intros [= -> ->]; auto].
Qed.

Lemma keqb_flatten a b : keqb a b = leqb (flatten a) (flatten b).
Proof. reflexivity. Qed.

Lemma unflatten_flatten k : unflatten (flatten k) = k.
Proof. destruct k; reflexivity. Qed.

Lemma flatten_inj a b : flatten a = flatten b -> a = b.
Proof. intros H. rewrite <- (unflatten_flatten a), <- (unflatten_flatten b), H. reflexivity. Qed.

(* ------------------------------------------------------- store lemmas *)
Lemma d_mem_spec k s : d_mem k s = true <-> In k (d_keys s).
Proof.
  unfold d_mem, d_keys. rewrite existsb_exists. split.
  - intros (kv & Hin & Hk). apply keqb_spec in Hk. subst. apply in_map; auto.
  - intros Hin. apply in_map_iff in Hin as (kv & <- & Hin). exists kv. split; auto. apply keqb_spec; auto.
Qed.

Lemma r_mem_flat k s : r_mem k s = true <-> In (flatten k) s.
Proof.
  unfold r_mem. rewrite existsb_exists. split.
  - intros (t & Hin & Ht). apply leqb_spec in Ht. subst; auto.
  - intros Hin. exists (flatten k). split; auto. apply leqb_refl.
Qed.

(* the simulation: the memory-saving store holds exactly the flattened keys of the dict, in the same order *)
Definition sim (ds : dstore) (rs : rstore_t) : Prop := rs = map (fun kv => flatten (fst kv)) ds.
Arguments sim : simpl never.

Lemma sim_keys ds rs : sim ds rs -> r_keys rs = d_keys ds.
Proof.
  intros ->. unfold r_keys, d_keys. rewrite map_map. apply map_ext. intros kv. apply unflatten_flatten.
Qed.

Lemma sim_mem ds rs k : sim ds rs -> r_mem k rs = d_mem k ds.
Proof.
  intros ->. unfold r_mem, d_mem. induction ds as [|kv t IH]; cbn [existsb map]; auto. rewrite IH. reflexivity.
Qed.

Lemma d_set_map k v ds :
  map (fun kv => flatten (fst kv)) (d_set k v ds) =
  if d_mem k ds then map (fun kv => flatten (fst kv)) ds else map (fun kv => flatten (fst kv)) ds ++ [flatten k].
Proof.
  induction ds as [|[k' v'] t IH]; simpl; auto.
  unfold d_mem in *; simpl. destruct (keqb k k') eqn:E; simpl; auto.
  rewrite IH. destruct (existsb _ t); reflexivity.
Qed.

Lemma sim_set ds rs k v : sim ds rs -> sim (d_set k v ds) (r_set k v rs).
Proof.
  intros H. unfold sim. rewrite d_set_map. unfold r_set. rewrite (sim_mem _ _ k H).
  unfold sim in H. subst rs. destruct (d_mem k ds); reflexivity.
Qed.

Lemma sim_del ds rs k : sim ds rs -> sim (d_del k ds) (r_del k rs).
Proof.
  intros ->. unfold sim, d_del, r_del. induction ds as [|[k' v'] t IH]; cbn [filter map fst]; auto.
  rewrite keqb_flatten. destruct (leqb (flatten k) (flatten k')); cbn [negb map fst]; rewrite IH; reflexivity.
Qed.

Lemma sim_nil : sim [] [].
Proof. reflexivity. Qed.

(* ------------------------------------------------- the generic database *)
Section Sim.
Variable T : table.

Definition simdb (a : dbst dstore) (b : dbst rstore_t) : Prop :=
  b_cdb dstore a = b_cdb rstore_t b /\ sim (b_r dstore a) (b_r rstore_t b) /\ sim (b_e dstore a) (b_e rstore_t b) /\
  b_eq dstore a = b_eq rstore_t b /\ b_stop dstore a = b_stop rstore_t b /\ b_stat dstore a = b_stat rstore_t b.

Lemma sim_del_if ds rs k : sim ds rs ->
  sim (del_if dstore d_mem d_del k ds) (del_if rstore_t r_mem r_del k rs).
Proof.
  intros H. unfold del_if. rewrite (sim_mem _ _ k H). destruct (d_mem k ds); auto. apply sim_del; auto.
Qed.

Lemma gen_store_sim start ends' sid tw r e r' e' :
  sim r r' -> sim e e' ->
  sim (fst (gen_store dstore d_set d_mem d_del start ends' sid tw r e))
      (fst (gen_store rstore_t r_set r_mem r_del start ends' sid tw r' e')) /\
  sim (snd (gen_store dstore d_set d_mem d_del start ends' sid tw r e))
      (snd (gen_store rstore_t r_set r_mem r_del start ends' sid tw r' e')).
Proof.
  intros Hr He. unfold gen_store. destruct ends' as [|e0 [|e1 t]]; cbn [fst snd];
    try (split; [apply sim_set; exact Hr|exact He]).
  destruct tw; cbn [fst snd]; split.
  - apply sim_del_if. apply sim_del_if. exact Hr.
  - apply sim_set. exact He.
  - apply sim_set. exact Hr.
  - exact He.
Qed.

Lemma gen_add_sim a b start ends r : simdb a b ->
  simdb (dict_add T a start ends r) (rec_add T b start ends r).
Proof.
  intros (Hc & Hr & He & Hq & Hs & Ht). unfold dict_add, rec_add, gen_add.
  destruct (rule_children T r) as [cs|]; [|unfold simdb; simpl; csplit; auto].
  rewrite <- Hc. destruct (clean T (b_cdb dstore a) (r_pe T r) (combine cs ends)) as [[[d1 kept] stop] [x|]].
  - unfold simdb; simpl. csplit; auto. rewrite Hs; auto.
  - pose proof (gen_store_sim start (isort kept) (r_sid r) (r_two_way T r) _ _ _ _ Hr He) as (H1 & H2).
    destruct (gen_store dstore d_set d_mem d_del start (isort kept) (r_sid r) (r_two_way T r) (b_r dstore a) (b_e dstore a)) as [r1 e1].
    destruct (gen_store rstore_t r_set r_mem r_del start (isort kept) (r_sid r) (r_two_way T r) (b_r rstore_t b) (b_e rstore_t b)) as [r2 e2].
    unfold simdb; simpl in *. csplit; auto; congruence.
Qed.

Lemma gen_step_sim a b o : simdb a b ->
  simdb (gen_step T dstore d_set d_mem d_del a o) (gen_step T rstore_t r_set r_mem r_del b o).
Proof.
  intros H. destruct o as [start ends r|eqv k v|eqv k|d]; simpl.
  - apply gen_add_sim; auto.
  - destruct H as (Hc & Hr & He & Hq & Hs & Ht).
    destruct eqv; unfold simdb; simpl; csplit; auto using sim_set.
  - destruct H as (Hc & Hr & He & Hq & Hs & Ht).
    destruct eqv; [rewrite (sim_mem _ _ k He); destruct (d_mem k (b_e dstore a))
                  |rewrite (sim_mem _ _ k Hr); destruct (d_mem k (b_r dstore a))];
      unfold simdb; simpl; csplit; auto using sim_del.
  - destruct H as (Hc & Hr & He & Hq & Hs & Ht). unfold simdb; simpl; csplit; auto.
Qed.

Theorem run_sim h : forall a b, simdb a b -> simdb (dict_run T a h) (rec_run T b h).
Proof.
  unfold dict_run, rec_run, gen_run. induction h as [|o t IH]; intros a b H; simpl; auto.
  apply IH. apply gen_step_sim; auto.
Qed.

Lemma simdb_init d : simdb (dict_init d) (rec_init d).
Proof. unfold simdb; simpl; csplit; auto using sim_nil. Qed.

(* contains *)
Lemma dict_contains_spec a start ends :
  dict_contains a start ends = true <->
  In (start, isort ends) (d_keys (b_r dstore a) ++ d_keys (b_e dstore a)).
Proof.
  unfold dict_contains, gen_contains. rewrite orb_true_iff, !d_mem_spec, in_app_iff. tauto.
Qed.

Lemma rec_contains_sim a b start ends : simdb a b ->
  rec_contains b start ends = dict_contains a start ends.
Proof.
  intros (_ & Hr & He & _). unfold rec_contains, dict_contains, gen_contains.
  rewrite (sim_mem _ _ _ Hr), (sim_mem _ _ _ He). reflexivity.
Qed.

End Sim.

(* ----------------- has_specification is a function of the SET of stored keys *)
Section HasSpec.
Import Tree.Model Tree.Basics Tree.PruneProofs Tree.IterProofs Tree.SpecProofs.
Variable rep : Z -> Z.

Definition same_rules (d1 d2 : rdict) : Prop := forall k r, In r (rules_of d1 k) <-> In r (rules_of d2 k).

Lemma gfp_same d1 d2 k : same_rules d1 d2 -> gfp d1 k -> gfp d2 k.
Proof.
  intros H (S & HS & Hk). exists S. split; auto.
  intros x Hx. destruct (HS x Hx) as (r & Hr & Hc). exists r. split; auto. apply H; auto.
Qed.

Lemma iver_same d1 d2 root x : same_rules d1 d2 -> iver d1 root x -> iver d2 root x.
Proof.
  intros H. induction 1 as [x Hx|k r Hr Hc IH].
  - apply iver_root; auto.
  - apply iver_rule with (r := r); auto. apply H; auto.
Qed.

Lemma ikey_same d1 d2 root k : same_rules d1 d2 -> ikey d1 root k -> ikey d2 root k.
Proof.
  intros H (r & Hr & Hc). exists r. split; [apply H; auto|]. intros x Hx. eapply iver_same; eauto.
Qed.

Lemma quotient_same ks1 ks2 : (forall k, In k ks1 <-> In k ks2) ->
  same_rules (rules_up_to_equivalence rep ks1) (rules_up_to_equivalence rep ks2).
Proof.
  intros H k r. rewrite !quotient_rules. split; intros (s & e & Hin & Hk); exists s, e; split; auto; apply H; auto.
Qed.

Lemma same_rules_sym d1 d2 : same_rules d1 d2 -> same_rules d2 d1.
Proof. intros H k r. symmetry. apply H. Qed.

Theorem has_spec_set_invariant ks1 ks2 root iterative :
  (forall k, In k ks1 <-> In k ks2) ->
  has_specification rep ks1 root iterative = has_specification rep ks2 root iterative.
Proof.
  intros H. pose proof (quotient_same _ _ H) as Hq. pose proof (same_rules_sym _ _ Hq) as Hq'.
  destruct iterative.
  - destruct (has_spec_iterative rep ks1 root) as (b1 & -> & H1).
    destruct (has_spec_iterative rep ks2 root) as (b2 & -> & H2). f_equal.
    destruct b1, b2; auto.
    + assert (false = true) by (apply H2; eapply ikey_same; [exact Hq|]; apply H1; auto). congruence.
    + assert (false = true) by (apply H1; eapply ikey_same; [exact Hq'|]; apply H2; auto). congruence.
  - destruct (has_spec_recursive rep ks1 root) as (b1 & -> & H1).
    destruct (has_spec_recursive rep ks2 root) as (b2 & -> & H2). f_equal.
    destruct b1, b2; auto.
    + assert (false = true) by (apply H2; eapply gfp_same; [exact Hq|]; apply H1; auto). congruence.
    + assert (false = true) by (apply H1; eapply gfp_same; [exact Hq'|]; apply H2; auto). congruence.
Qed.

(* the labels has_specification marks verified (the keys of the pruned dictionary) are the same set *)
Theorem pruned_keys_set_invariant ks1 ks2 root iterative :
  (forall k, In k ks1 <-> In k ks2) ->
  exists p1 p2 : rdict, (pruned_dict rep ks1 root iterative = Some p1) /\
                        (pruned_dict rep ks2 root iterative = Some p2) /\
                        (forall k, has_key p1 k = has_key p2 k).
Proof.
  intros H. pose proof (quotient_same _ _ H) as Hq. pose proof (same_rules_sym _ _ Hq) as Hq'.
  unfold pruned_dict. destruct iterative.
  - destruct (iterative_prune_is_lfp (rules_up_to_equivalence rep ks1) (Some (rep root))) as (n1 & -> & _ & K1).
    destruct (iterative_prune_is_lfp (rules_up_to_equivalence rep ks2) (Some (rep root))) as (n2 & -> & _ & K2).
    exists n1, n2. split; auto. split; auto. intros k.
    destruct (has_key n1 k) eqn:E1, (has_key n2 k) eqn:E2; auto.
    + assert (has_key n2 k = true) by (apply K2; eapply ikey_same; [exact Hq|]; apply K1; auto). congruence.
    + assert (has_key n1 k = true) by (apply K1; eapply ikey_same; [exact Hq'|]; apply K2; auto). congruence.
  - destruct (prune_is_gfp _ (quotient_nonempty rep ks1)) as (n1 & -> & K1 & _).
    destruct (prune_is_gfp _ (quotient_nonempty rep ks2)) as (n2 & -> & K2 & _).
    exists n1, n2. split; auto. split; auto. intros k.
    destruct (has_key n1 k) eqn:E1, (has_key n2 k) eqn:E2; auto.
    + assert (has_key n2 k = true) by (apply K2; eapply gfp_same; [exact Hq|]; apply K1; auto). congruence.
    + assert (has_key n1 k = true) by (apply K1; eapply gfp_same; [exact Hq'|]; apply K2; auto). congruence.
Qed.

(* and it is always defined (never out of fuel) *)
Lemma has_spec_defined ks root iterative : exists b, has_specification rep ks root iterative = Some b.
Proof.
  destruct iterative.
  - destruct (has_spec_iterative rep ks root) as (b & H & _); eauto.
  - destruct (has_spec_recursive rep ks root) as (b & H & _); eauto.
Qed.
End HasSpec.
