(* From the constructor model's output (C02: Spec/Grouping.v dict = rules_dict of the finished
   CombinatorialSpecification) to the descriptor list the counting model evaluates (C01: Spec/CountRun.v
   cdesc, run_c01 / rounds / Spec/Adapter.v spec_of).

   A Grouping.dict knows of a rule only (class, children, is_equivalence, declared shifts, identity tag, members of
   a path): WHICH constructor a rule has (form, names, dictionaries, minimum sizes, verified table) is side
   information, given here by  info : tag -> cdesc  (the constructor description of the ORIGINAL rule with that
   tag; its c_deps is ignored) and  sinfo : tag -> step_desc  (the step of an equivalence path).

     desc_of info sinfo g     the descriptor of one entry: constructor description from the tag, DECLARED
                              dependencies = the forest key of the entry (Spec/GroupingProdKeys.v gkey: zip(children,
                              shifts); a path: (last class, sum of the members' shifts)); a lazily added empty rule
                              (tag -1): verified with the empty table
     descs_of info sinfo d    the descriptor list: index = class number, 0 .. largest class of d; a number that is not
                              a class of d (hidden inside a path, or not a class at all) gets the descriptor of an
                              empty verified class, with no dependency
   KEY LEMMAS (descs_declare_R1, descs_only_R1): the forest keys DECLARED by the descriptors of the classes of d
   (class, c_deps) are exactly R1 d - the key list on which C02's proved productivity verdict is computed. *)
From Coq Require Import ZArith List Bool Lia.
From CSS Require Import Base.Sx Count.Terms Count.Constructors Count.ConstructorsRun Spec.CountRun.
From CSS Require Import Forest.Spec Spec.Grouping Spec.GroupingFacts Spec.GroupingProdKeys.
Import ListNotations.
Open Scope Z_scope.

Definition with_deps (d : cdesc) (deps : list (nat * Z)) : cdesc :=
  mkC (c_form d) (c_idx d) (c_pnames d) (c_kids d) (c_op d) (c_ok d) deps (c_table d) (c_steps d) (c_last d).

Definition empty_desc : cdesc := mkC 7 0 [] [] 0 [] [] [] [] 0.

Definition desc_of (info : Z -> cdesc) (sinfo : Z -> step_desc) (g : grule) : cdesc :=
  match g with
  | GB r => with_deps (if b_tag r =? -1 then empty_desc else info (b_tag r)) (Forest.Spec.kids (gkey g))
  | GP r0 rs => mkC 6 0 [] [] 0 [] (Forest.Spec.kids (gkey g)) [] (map (fun r => sinfo (b_tag r)) (r0 :: rs))
                    (hd O (b_ch (last rs r0)))
  end.

Definition max_cls (d : dict) : nat := fold_right (fun kv m => Nat.max (fst kv) m) O d.

Definition descs_of (info : Z -> cdesc) (sinfo : Z -> step_desc) (d : dict) : list cdesc :=
  map (fun c => match dget c d with Some g => desc_of info sinfo g | None => empty_desc end)
      (seq 0 (S (max_cls d))).

(* the forest keys a descriptor list declares for the classes in `cs` *)
Definition declared_keys (ds : list cdesc) (cs : list nat) : list fkey :=
  map (fun c => mkkey c (c_deps (nth c ds empty_desc))) cs.
