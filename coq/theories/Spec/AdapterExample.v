(* APPLIED non-vacuity of the C09/C10 -> C01 chain: a seven-class specification with a tracked
   statistic, all of whose hypotheses (T_ok, canonical tables, deps_shape, rule_contract) are PROVED,
   fed to run_c01_correct / rounds_is_eval / srule_of_local; then the tables the model really
   computes are evaluated.

   Words over {a, b}, statistic = number of a's (one parameter per class, under different names):
     0  R = Z + P          union (form 0)      parent statistic 5; children rename it to 30 / 0
     1  Z = {epsilon}      verified (form 7)   statistic named 30
     2  P = X x Y          product (form 1)    statistic 0 = statistic 10 of X + statistic 20 of Y
     3  X = {a}            verified atom, size 1, statistic named 10
     4  Y = {eps, b, bb}   verified, sizes 0..2, statistic named 20
     5  Z' = R - P         Complement (form 2): the reverse of  R = Z' + P  w.r.t. child 0
     6  Y' = P / X         Quotient WITH a parameter (form 3): the reverse of  P = X x Y'  w.r.t. child 1;
                           it declares the negative shifts (-1, -1): level n reads P and X at n + 1
   True tables: the verified classes by their tables; P and R by the constructor identity
   (canonical form of the full convolution / of the re-keyed union) — so genuineness holds for
   EVERY size, not for a computed prefix. *)
From Coq Require Import ZArith List Bool Lia.
From CSS Require Import Forest.Spec Spec.Eval.
From CSS Require Import Base.Sx Gen.Prelude Gen.Compositions Count.CompositionsSpec Count.Terms Count.Constructors
  Count.ConstructorsRun Count.ConstructorsUnionProduct Count.ConstructorsComplement Count.ConstructorsQuotient
  Count.ConstructorsDict Count.TermsPolyOrder Count.ConstructorsConv Count.ConstructorsSteps Count.ReadsModel
  Spec.TermsCanon Spec.Adapter Spec.AdapterLocal Spec.AdapterSound Spec.RoundsProofs Spec.RoundsStuck Spec.CountRun.
Import ListNotations.
Open Scope Z_scope.

(* ---------------------------------------------------------------- the descriptors *)
Definition kZ := mkKid [30] [(5, 30)] 0 false false.
Definition kP := mkKid [0] [(5, 0)] 1 false false.
Definition kX := mkKid [10] [(0, 10)] 1 true false.
Definition kY := mkKid [20] [(0, 20)] 0 false false.
Definition tZ : list terms := [[([0], 1)]].
Definition tX : list terms := [[]; [([1], 1)]].
Definition tY : list terms := [[([0], 1)]; [([0], 1)]; [([0], 1)]].

Definition ex_d0 := mkC 0 0 [5] [kZ; kP] 0 [1; 2]%nat [(1%nat, 0); (2%nat, 0)] [] [] 0.
Definition ex_d1 := mkC 7 0 [] [] 0 [] [] tZ [] 0.
Definition ex_d2 := mkC 1 0 [0] [kX; kY] 2 [3; 4]%nat [(3%nat, 0); (4%nat, 1)] [] [] 0.
Definition ex_d3 := mkC 7 0 [] [] 0 [] [] tX [] 0.
Definition ex_d4 := mkC 7 0 [] [] 0 [] [] tY [] 0.
Definition ex_d5 := mkC 2 0 [5] [kZ; kP] 0 [5; 2]%nat [(0%nat, 0); (2%nat, 0)] [] [] 0.
Definition ex_d6 := mkC 3 1 [0] [kX; kY] 2 [3; 6]%nat [(2%nat, -1); (3%nat, -1)] [] [] 0.
Definition ex_ds := [ex_d0; ex_d1; ex_d2; ex_d3; ex_d4; ex_d5; ex_d6].

(* the same, as the harness sends it *)
Definition enc_kid (k : kid) : sx :=
  L [of_Zs (k_names k); L (map (fun e : Z * Z => L [I (fst e); I (snd e)]) (k_dict k)); I (k_min k);
     of_bool (k_atom k); of_bool (k_empty k)].
Definition enc_tab (t : terms) : sx := L (map (fun e : entry => L [of_Zs (fst e); I (snd e)]) t).
Definition enc_cdesc (d : cdesc) : sx :=
  L [I (c_form d); of_nat (c_idx d); of_Zs (c_pnames d); L (map enc_kid (c_kids d)); of_nat (c_op d);
     of_nats (c_ok d); L (map (fun p : nat * Z => L [of_nat (fst p); I (snd p)]) (c_deps d));
     L (map enc_tab (c_table d)); L []; of_nat (c_last d)].
(* levels 0..2 are reported, 0..3 computed (the Quotient reads one level ahead) *)
Definition ex_inp : sx := L [I 2; I 3; L (map enc_cdesc ex_ds)].

Lemma ex_inp_decodes :
  sx_Z (sx_nth ex_inp 0) = 2 /\ sx_Z (sx_nth ex_inp 1) = 3 /\ map dec_cdesc (sx_list (sx_nth ex_inp 2)) = ex_ds.
Proof. vm_compute. auto. Qed.

(* ---------------------------------------------------------------- the true tables *)
Definition semZ := kid_sem [5] kZ.
Definition semP := kid_sem [5] kP.
Definition semX := kid_sem [0] kX.
Definition semY := kid_sem [0] kY.

Definition TZ (m : Z) : terms := tab_at tZ m.
Definition TX (m : Z) : terms := tab_at tX m.
Definition TY (m : Z) : terms := tab_at tY m.
Definition TP (m : Z) : terms :=
  if m <? 0 then [] else tnorm (product_table [semX; semY] (zeros 2) (nones 2) [TX; TY] m).
Definition TR (m : Z) : terms :=
  if m <? 0 then [] else tnorm (union_table [semZ; semP] [TZ m; TP m]).

Definition ex_T (l : nat) : Z -> terms :=
  match l with
  | 0 => TR | 1 => TZ | 2 => TP | 3 => TX | 4 => TY | 5 => TZ | 6 => TY | _ => fun _ => []
  end%nat.
Definition ex_npar (l : nat) : nat := if (l <=? 6)%nat then 1%nat else 0%nat.
(* the raw tables of the Complement class 5 have entries of negative value; those of the Quotient class 6
   have keys nobody has shown to be tuples of naturals *)
Definition ex_pos (l : nat) : bool := negb (l =? 5)%nat.
Definition ex_kpos (l : nat) : bool := negb (l =? 5)%nat && negb (l =? 6)%nat.

(* ---------------------------------------------------------------- the true tables are tables of counts *)
Definition table_ok (t : terms) : Prop := klen 1 t /\ nonneg t /\ knonneg t /\ canon t.

Lemma table_ok_nil : table_ok [].
Proof. repeat split; try (intros ? ? []). Qed.

Lemma tab_at_all (P : terms -> Prop) (Ls : list terms) : P [] -> Forall P Ls -> forall m, P (tab_at Ls m).
Proof.
  intros H0 H m. unfold tab_at. destruct (m <? 0); [exact H0|].
  destruct (nth_in_or_default (Z.to_nat m) Ls []) as [Hin|E]; [|rewrite E; exact H0].
  rewrite Forall_forall in H. apply H. exact Hin.
Qed.

Ltac entries := let k := fresh "k" in let v := fresh "v" in let H := fresh "H" in
  intros k v H; simpl in H; repeat (destruct H as [H|H]; [inversion H; subst; clear H|]); try contradiction.

Lemma one_entry_ok x : 0 <= x -> table_ok [([x], 1)].
Proof.
  intros Hx. split; [entries; reflexivity|]. split; [entries; lia|]. split; [entries; repeat constructor; exact Hx|].
  split; [simpl; split; [intros ? ? []|exact Logic.I]|entries; lia].
Qed.

Lemma TZ_ok m : table_ok (TZ m).
Proof. unfold TZ. apply tab_at_all; [apply table_ok_nil|]. repeat constructor; try (apply one_entry_ok; lia). Qed.
Lemma TX_ok m : table_ok (TX m).
Proof. unfold TX. apply tab_at_all; [apply table_ok_nil|]. repeat constructor; try (apply one_entry_ok; lia); apply table_ok_nil. Qed.
Lemma TY_ok m : table_ok (TY m).
Proof. unfold TY. apply tab_at_all; [apply table_ok_nil|]. repeat constructor; try (apply one_entry_ok; lia). Qed.

Lemma sem_props pn k key : Forall (fun y => 0 <= y) key ->
  length (kid_sem pn k key) = length pn /\ Forall (fun y => 0 <= y) (kid_sem pn k key).
Proof. intros H. split; [apply kid_sem_length|apply Count.ConstructorsStepsQuotient.kid_sem_nonneg; exact H]. Qed.

Lemma tnorm_ok t : klen 1 t -> nonneg t -> knonneg t -> table_ok (tnorm t).
Proof.
  intros H1 H2 H3. split; [apply tnorm_klen; exact H1|]. split; [apply tnorm_nonneg; intros p; apply tget_nonneg; exact H2|].
  split; [apply tnorm_knonneg; exact H3|apply tnorm_canon].
Qed.

Lemma TP_ok m : table_ok (TP m).
Proof.
  unfold TP. destruct (m <? 0); [apply table_ok_nil|].
  assert (K : forall k v, In (k, v) (product_table [semX; semY] (zeros 2) (nones 2) [TX; TY] m) ->
              length k = 1%nat /\ Forall (fun y => 0 <= y) k).
  { apply (product_table_keys (fun k => length k = 1%nat /\ Forall (fun y => 0 <= y) k)); [reflexivity|reflexivity|].
    intros sizes k v Ls Hctab.
    apply (ctab_keys_gen (fun k => length k = 1%nat /\ Forall (fun y => 0 <= y) k) [semX; semY]
             (tabs_at [TX; TY] sizes) k v); [| | | |exact Hctab].
    - intros a b [La Na] [Lb Nb]. split; [rewrite Count.TermsPoly.zip_add_length; lia|apply zip_add_nonneg; assumption].
    - rewrite Count.ConstructorsQuotientParams.tabs_at_length; [reflexivity|exact Ls].
    - rewrite Count.ConstructorsQuotientParams.tabs_at_length; [simpl; lia|exact Ls].
    - apply Forall2_fs_tabs_at; [|exact Ls]. constructor; [|constructor; [|constructor]].
      + intros s k0 v0 Hin. apply (sem_props [0] kX). destruct (TX_ok s) as (_ & _ & H & _). apply (H k0 v0 Hin).
      + intros s k0 v0 Hin. apply (sem_props [0] kY). destruct (TY_ok s) as (_ & _ & H & _). apply (H k0 v0 Hin). }
  apply tnorm_ok.
  - intros k v Hin. apply (K k v Hin).
  - apply product_table_nonneg. constructor; [intros s; apply TX_ok|constructor; [intros s; apply TY_ok|constructor]].
  - intros k v Hin. apply (K k v Hin).
Qed.

Lemma TR_ok m : table_ok (TR m).
Proof.
  unfold TR. destruct (m <? 0); [apply table_ok_nil|].
  assert (K : forall k v, In (k, v) (union_table [semZ; semP] [TZ m; TP m]) ->
              length k = 1%nat /\ Forall (fun y => 0 <= y) k).
  { apply (union_table_keys (fun k => length k = 1%nat /\ Forall (fun y => 0 <= y) k)).
    constructor; [|constructor; [|constructor]].
    - intros k0 v0 Hin. apply (sem_props [5] kZ). destruct (TZ_ok m) as (_ & _ & H & _). apply (H k0 v0 Hin).
    - intros k0 v0 Hin. apply (sem_props [5] kP). destruct (TP_ok m) as (_ & _ & H & _). apply (H k0 v0 Hin). }
  apply tnorm_ok.
  - intros k v Hin. apply (K k v Hin).
  - apply nonneg_union_table. constructor; [apply TZ_ok|constructor; [apply TP_ok|constructor]].
  - intros k v Hin. apply (K k v Hin).
Qed.

Lemma ex_T_table l m : (l <= 6)%nat -> table_ok (ex_T l m).
Proof.
  intros H. destruct l as [|[|[|[|[|[|[|l]]]]]]]; simpl; try lia;
    [apply TR_ok|apply TZ_ok|apply TP_ok|apply TX_ok|apply TY_ok|apply TZ_ok|apply TY_ok].
Qed.

Lemma ex_T_ok : T_ok ex_T ex_npar.
Proof.
  split.
  - intros l m Hm. destruct l as [|[|[|[|[|[|[|l]]]]]]]; simpl; try reflexivity;
      unfold TR, TZ, TP, TX, TY, tab_at; replace (m <? 0) with true by lia; reflexivity.
  - intros l m. destruct (Nat.le_gt_cases l 6) as [H|H].
    + destruct (ex_T_table l m H) as (H1 & H2 & H3 & _). unfold ex_npar.
      replace (l <=? 6)%nat with true by (symmetry; apply Nat.leb_le; exact H). auto.
    + do 7 (destruct l as [|l]; [lia|]). simpl. repeat split; intros ? ? [].
Qed.

Lemma ex_T_canon l m : canon (ex_T l m).
Proof.
  destruct (Nat.le_gt_cases l 6) as [H|H]; [apply (ex_T_table l m H)|].
  do 7 (destruct l as [|l]; [lia|]). simpl. apply canon_nil.
Qed.

(* ---------------------------------------------------------------- shapes and contracts *)
Lemma ex_case (P : nat -> cdesc -> Prop) :
  P 0%nat ex_d0 -> P 1%nat ex_d1 -> P 2%nat ex_d2 -> P 3%nat ex_d3 -> P 4%nat ex_d4 -> P 5%nat ex_d5 ->
  P 6%nat ex_d6 ->
  forall c d, nth_error ex_ds c = Some d -> P c d.
Proof.
  intros H0 H1 H2 H3 H4 H5 H6 c d H.
  do 7 (destruct c as [|c]; [inversion H; subst; assumption|]). destruct c; discriminate.
Qed.

Lemma ex_shapes : forall c d, nth_error ex_ds c = Some d -> deps_shape d.
Proof.
  apply (ex_case (fun _ d => deps_shape d)); unfold deps_shape; simpl; auto.
  - repeat split; repeat constructor; vm_compute; discriminate.
  - repeat split; repeat constructor; vm_compute; discriminate.
  - repeat split; try lia; repeat constructor; vm_compute; discriminate.
  - repeat split; try lia; repeat constructor; vm_compute; discriminate.
Qed.

Ltac nodup := repeat constructor; simpl; intuition discriminate.

Lemma wf_kZ : kid_wf [5] kZ. Proof. unfold kid_wf, wf_dict. simpl. repeat split; try nodup. intros a b [E|[]]. inversion E. auto. Qed.
Lemma wf_kP : kid_wf [5] kP. Proof. unfold kid_wf, wf_dict. simpl. repeat split; try nodup. intros a b [E|[]]. inversion E. auto. Qed.
Lemma wf_kX : kid_wf [0] kX. Proof. unfold kid_wf, wf_dict. simpl. repeat split; try nodup. intros a b [E|[]]. inversion E. auto. Qed.
Lemma wf_kY : kid_wf [0] kY. Proof. unfold kid_wf, wf_dict. simpl. repeat split; try nodup. intros a b [E|[]]. inversion E. auto. Qed.

Lemma ex_union_genuine n : 0 <= n ->
  union_genuine (map (kid_sem [5]) [kZ; kP]) [TZ n; TP n] (TR n).
Proof.
  intros Hn. unfold union_genuine, TR. replace (n <? 0) with false by lia. apply tnorm_teq.
Qed.

Lemma ex_verified_good (l : nat) (tab : list terms) n :
  (l <= 6)%nat -> ex_T l n = tab_at tab n -> good ex_T ex_npar ex_pos ex_kpos l n (tab_at tab n).
Proof.
  intros Hl E. rewrite <- E. apply good_T. apply ex_T_ok.
Qed.

Lemma ex_vanish : Vanish [TX; TY] [1; 0] [Some 1; None].
Proof.
  constructor; [|constructor; [|constructor]].
  - intros m Hm. unfold TX, tab_at. destruct (m <? 0) eqn:E0; [intros ? ? []|].
    apply Z.ltb_ge in E0.
    destruct (Z.to_nat m) as [|[|q]] eqn:E1; [intros ? ? []| |destruct q; intros ? ? []].
    exfalso. assert (m = 1) by lia. subst m. destruct Hm as [Hm|Hm]; [lia|apply Hm; simpl; lia].
  - intros m Hm. unfold TY, tab_at. destruct (m <? 0) eqn:E0; [intros ? ? []|].
    exfalso. destruct Hm as [Hm|Hm]; [lia|apply Hm; exact Logic.I].
Qed.

Lemma ex_product_genuine n : 0 <= n ->
  product_genuine (map (kid_sem [0]) [kX; kY]) [TX; TY] (TP n) n.
Proof. intros Hn. unfold product_genuine, TP. replace (n <? 0) with false by lia. apply tnorm_teq. Qed.

Lemma ex_contracts : forall c d, nth_error ex_ds c = Some d -> rule_contract ex_T ex_npar ex_pos ex_kpos 3 c d.
Proof.
  apply (ex_case (fun c d => rule_contract ex_T ex_npar ex_pos ex_kpos 3 c d)); unfold rule_contract; simpl.
  - (* R = Z + P *)
    split; [reflexivity|]. split; [constructor; [apply wf_kZ|constructor; [apply wf_kP|constructor]]|].
    split; [repeat constructor|]. split; [intros n Hn; apply (ex_union_genuine n Hn)|].
    split; intros _; repeat constructor.
  - intros n Hn. apply (ex_verified_good 1 tZ n); [lia|reflexivity].
  - (* P = X x Y *)
    split; [reflexivity|]. split; [lia|]. split; [constructor; [apply wf_kX|constructor; [apply wf_kY|constructor]]|].
    split; [repeat constructor|]. split; [repeat constructor; lia|].
    split; [apply ex_vanish|].
    split; [intros n Hn; apply (ex_product_genuine n Hn)|split; intros _; repeat constructor].
  - intros n Hn. apply (ex_verified_good 3 tX n); [lia|reflexivity].
  - intros n Hn. apply (ex_verified_good 4 tY n); [lia|reflexivity].
  - (* Z' = R - P *)
    split; [lia|]. split; [reflexivity|]. split; [reflexivity|]. split; [nodup|].
    split; [constructor; [apply wf_kZ|constructor; [apply wf_kP|constructor]]|]. split; [repeat constructor|].
    split.
    { unfold flip_ok. split; [apply wf_kZ|]. simpl. split; [nodup|]. split.
      - intros a b [E|[]]. inversion E. auto.
      - intros cv [<-|[]]. auto. }
    split; [intros n Hn; apply (ex_union_genuine n Hn)|].
    split; [|split; reflexivity].
    intros j Hj Hlt. destruct j as [|[|j]]; simpl in *; try lia. reflexivity.
  - (* Y' = P / X *)
    split; [lia|]. split; [lia|]. split; [reflexivity|]. split; [reflexivity|]. split; [repeat constructor|].
    split.
    { left. split; [lia|]. split; [constructor; [apply wf_kX|constructor; [apply wf_kY|constructor]]|]. split.
      - intros a b [E|[]]. inversion E. left. reflexivity.
      - intros cv [<-|[]]. left. reflexivity. }
    split; [repeat constructor; lia|]. split; [apply ex_vanish|].
    split; [intros m Hm; apply (ex_product_genuine m Hm)|].
    split; [vm_compute; discriminate|].
    split; [|split; reflexivity].
    intros j Hj Hlt. destruct j as [|[|j]]; simpl in *; try lia. split; reflexivity.
Qed.

(* ---------------------------------------------------------------- the theorems, applied *)
(* C10 -> C01: every rule of the example is local w.r.t. the shifts it declares *)
Example ex_all_local : forall c r, spec_of ex_ds c = Some r -> local terms r.
Proof. apply spec_of_local. exact ex_shapes. Qed.

(* the evaluator computes eval of srule_of (refinement), on every level it computes *)
Example ex_rounds_is_eval :
  let st := fst (rounds 36 ex_ds 3 (repeat [] 7) (repeat 0 7)) in
  forall c n, 0 <= n < zlen (tabs_of st c) ->
  exists f0, forall f, (f0 <= f)%nat -> eval terms [] (spec_of ex_ds) f c n = nth (Z.to_nat n) (tabs_of st c) [].
Proof. apply (rounds_is_eval ex_ds ex_shapes 36 3 7 (repeat 0 7)). Qed.

(* the extracted function on the wire input: a class reported complete carries the true tables *)
Example ex_run_c01_correct : forall c,
  sx_nth (sx_nth (run_c01 ex_inp) 1) c = L [I 0; I 0] ->
  sx_nth (sx_nth (run_c01 ex_inp) 0) c = L (map (fun n => enc_table (ex_T c (Z.of_nat n))) (seq 0 3)).
Proof.
  destruct ex_inp_decodes as (E0 & E1 & E2).
  apply (run_c01_correct ex_inp ex_T ex_npar ex_pos ex_kpos ex_T_ok ex_T_canon).
  - rewrite E2. exact ex_shapes.
  - rewrite E1, E2. exact ex_contracts.
  - rewrite E0. lia.
Qed.

(* and what it really computes: every class is complete, and e.g. R has, at size 2, one word with one a
   (a.b) — tables by size 0..3 of R, of P and of the complement class Z' *)
(* and what it really computes: every class is complete; tables by size 0..2 of R (at size 2: one word
   with one a, namely a.b), of P, of the Complement class Z' and of the Quotient class Y' *)
Example ex_run_values :
  sx_nth (run_c01 ex_inp) 1 = L (repeat (L [I 0; I 0]) 7) /\
  sx_nth (sx_nth (run_c01 ex_inp) 0) 0 =
    L [L [L [of_Zs [0]; I 1]]; L [L [of_Zs [1]; I 1]]; L [L [of_Zs [1]; I 1]]] /\
  sx_nth (sx_nth (run_c01 ex_inp) 0) 2 = L [L []; L [L [of_Zs [1]; I 1]]; L [L [of_Zs [1]; I 1]]] /\
  sx_nth (sx_nth (run_c01 ex_inp) 0) 5 = L [L [L [of_Zs [0]; I 1]]; L []; L []] /\
  sx_nth (sx_nth (run_c01 ex_inp) 0) 6 =
    L [L [L [of_Zs [0]; I 1]]; L [L [of_Zs [0]; I 1]]; L [L [of_Zs [0]; I 1]]].
Proof. vm_compute. repeat split; reflexivity. Qed.

(* hence, by the theorem, these ARE the true tables: e.g. the true table of R at size 2 *)
Example ex_true_value : ex_T 0 2 = [([1], 1)] /\ ex_T 5 0 = [([0], 1)] /\ ex_T 5 1 = [].
Proof. vm_compute. auto. Qed.

(* near miss: declaring shift 2 instead of 1 for Y in the product breaks deps_shape (the evaluator
   would read a level that `ready` has not waited for) *)
Example ex_shape_near_miss :
  ~ deps_shape (mkC 1 0 [0] [kX; kY] 2 [3; 4]%nat [(3%nat, 0); (4%nat, 2)] [] [] 0).
Proof.
  unfold deps_shape. simpl. intros (_ & _ & H). inversion H as [|? ? ? ? _ H2]; subst.
  inversion H2 as [|? ? ? ? H3 _]; subst. vm_compute in H3. apply H3. reflexivity.
Qed.

(* ---------------------------------------------------------------- status "stuck" *)
(* a class that is the union of itself (declared shift 0): the evaluator never computes a level, reports
   it stuck, and the theorem says it does not pump *)
Definition ex_loop := mkC 0 0 [] [mkKid [] [] 0 false false] 0 [0%nat] [(0%nat, 0)] [] [] 0.

Example ex_stuck_status :
  run_c01 (L [I 2; I 2; L [enc_cdesc ex_loop]]) = L [L [L []]; L [L [I 1; I 0]]].
Proof. vm_compute. reflexivity. Qed.

Example ex_stuck_not_productive : ~ pumps [mkkey 0 [(0%nat, 0)]] 0.
Proof.
  apply (stuck_not_productive_partial [ex_loop] 2 ltac:(lia)).
  - intros c. vm_compute. destruct c as [|[|c]]; reflexivity.
  - intros c d l sh Hd Hin. destruct c as [|c]; [|destruct c; discriminate]. inversion Hd; subst d.
    simpl in Hin. destruct Hin as [E|[]]. inversion E. lia.
  - intros q [<-|[]]. exists ex_loop. split; reflexivity.
  - vm_compute. discriminate.
Qed.
