(* Facts about the dictionaries and the small functions of Spec/Grouping.v used by the proofs. *)
From Coq Require Import ZArith List Bool Lia.
From CSS Require Json.Model Json.Proofs.
From CSS Require Import Spec.Grouping Spec.GroupingWf.
Import ListNotations.

Ltac csplit := repeat match goal with |- _ /\ _ => split end.

Lemma nat_eqb_spec : forall a b : nat, Nat.eqb a b = true <-> a = b.
Proof. intros; apply Nat.eqb_eq. Qed.

Lemma dget_cons k k' (g : grule) d :
  dget k ((k', g) :: d) = if Nat.eqb k k' then Some g else dget k d.
Proof. reflexivity. Qed.

Lemma dget_dset_same k v d : dget k (dset k v d) = Some v.
Proof. apply (Json.Proofs.dget_dset_same Nat.eqb nat_eqb_spec). Qed.

Lemma dget_dset_other k k' v d : k' <> k -> dget k' (dset k v d) = dget k' d.
Proof.
  intros H. apply (Json.Proofs.dget_dset_other Nat.eqb nat_eqb_spec).
  apply Nat.eqb_neq. exact H.
Qed.

Lemma dget_dset k k' v d : dget k' (dset k v d) = if Nat.eqb k' k then Some v else dget k' d.
Proof.
  destruct (Nat.eqb k' k) eqn:E.
  - apply Nat.eqb_eq in E. subst. apply dget_dset_same.
  - apply Nat.eqb_neq in E. apply dget_dset_other; auto.
Qed.

Lemma dget_app_some k v (d1 d2 : dict) : dget k d1 = Some v -> dget k (d1 ++ d2) = Some v.
Proof. apply (Json.Proofs.dget_app_some Nat.eqb). Qed.

Lemma dget_app_none k (d1 d2 : dict) : dget k d1 = None -> dget k (d1 ++ d2) = dget k d2.
Proof. apply (Json.Proofs.dget_app_none Nat.eqb). Qed.

Lemma dget_nil k : dget k [] = None.
Proof. reflexivity. Qed.

Lemma dget_In k g (d : dict) : dget k d = Some g -> In (k, g) d.
Proof.
  induction d as [|[k' g'] d IH]; [discriminate|].
  rewrite dget_cons. destruct (Nat.eqb k k') eqn:E.
  - apply Nat.eqb_eq in E. subst. intros [= ->]. left; reflexivity.
  - intros H. right. apply IH. exact H.
Qed.

Lemma dget_None k (d : dict) : dget k d = None <-> ~ In k (map fst d).
Proof.
  induction d as [|[k' g'] d IH]; [rewrite dget_nil; simpl; tauto|].
  rewrite dget_cons. cbn [map fst In]. destruct (Nat.eqb k k') eqn:E.
  - apply Nat.eqb_eq in E. subst. split; [discriminate|]. intros H. exfalso; apply H; auto.
  - apply Nat.eqb_neq in E. rewrite IH. split; intros H; [intros [A|A]; [congruence|tauto]|tauto].
Qed.

Lemma In_dget k g (d : dict) : NoDup (map fst d) -> In (k, g) d -> dget k d = Some g.
Proof.
  induction d as [|[k' g'] d IH]; [simpl; tauto|]. cbn [map fst In].
  intros Hn [H|H]; inversion Hn as [|? ? Hnotin Hn']; subst; rewrite dget_cons.
  - injection H as -> ->. rewrite Nat.eqb_refl. reflexivity.
  - destruct (Nat.eqb k k') eqn:E.
    + apply Nat.eqb_eq in E. subst. exfalso. apply Hnotin. apply in_map_iff. exists (k', g). auto.
    + apply IH; auto.
Qed.

Lemma dmem_dget k (d : dict) : dmem k d = true <-> exists g, dget k d = Some g.
Proof.
  unfold dmem, Json.Model.dmem. change (Json.Model.dget Nat.eqb k d) with (dget k d).
  destruct (dget k d); split; intros H; eauto; try discriminate. destruct H; discriminate.
Qed.

Lemma dmem_false k (d : dict) : dmem k d = false <-> dget k d = None.
Proof.
  unfold dmem, Json.Model.dmem. change (Json.Model.dget Nat.eqb k d) with (dget k d).
  destruct (dget k d); split; intros H; auto; discriminate.
Qed.

Lemma dset_keys k v (d : dict) :
  map fst (dset k v d) = if dmem k d then map fst d else map fst d ++ [k].
Proof.
  induction d as [|[k' g'] d IH]; simpl; auto.
  unfold dset, dmem, Json.Model.dmem in *. simpl.
  destruct (Nat.eqb k k') eqn:E; simpl; auto.
  rewrite IH. destruct (Json.Model.dget Nat.eqb k d); reflexivity.
Qed.

Lemma dset_In k v (d : dict) x : In x (dset k v d) -> x = (k, v) \/ In x d.
Proof.
  induction d as [|[k' g'] d IH]; simpl.
  - intros [H|[]]; auto.
  - unfold dset in *. simpl. destruct (Nat.eqb k k') eqn:E; simpl.
    + apply Nat.eqb_eq in E. subst. intros [H|H]; auto.
    + intros [H|H]; auto. destruct (IH H); auto.
Qed.

Lemma NoDup_snoc {A} (l : list A) x : NoDup l -> ~ In x l -> NoDup (l ++ [x]).
Proof.
  induction l as [|y l IH]; simpl; intros Hn Hx.
  - constructor; auto.
  - inversion Hn; subst. constructor.
    + intros Hin. apply in_app_or in Hin as [Hin|[->|[]]]; auto.
    + apply IH; auto.
Qed.

Lemma dset_NoDup k v (d : dict) : NoDup (map fst d) -> NoDup (map fst (dset k v d)).
Proof.
  intros H. rewrite dset_keys. destruct (dmem k d) eqn:E; auto.
  apply dmem_false in E. apply dget_None in E.
  apply NoDup_snoc; auto.
Qed.
