(* What ForestRuleExtractor.rules() REALLY guarantees about the rule handed out for an extracted key,
   and why that is enough.

   rules() does not hand out "a rule with exactly the key's children" (the hypothesis `keys_from_spec` of
   Spec/Eval.v, `Hfound` of the first version of Spec/Pipeline.v): a rule that is an equivalence with
   several children (a union all of whose children but one are EMPTY classes) is handed out as
   rule.to_equivalence_rule(), whose only child is the non-empty one; and a key whose rule is an
   EmptyStrategy rule is not handed out at all (CombinatorialSpecification adds the rule of an empty
   class lazily).  Replayed on 2000 forest / forest_noreverse searches of C01's own generator
   (1989 found): the literal form fails on 232 of them, the form below holds on all 1989, and every
   dropped child is an empty class that has its own (child-less) extracted key.

     drops E small big     `small` is `big` with some entries removed, each of a class satisfying E
     empty_class T zero c  the true table of c is `zero` at every size (an empty class)
     keys_sub / pumps_ev_sub
                           the productivity argument of Spec/Eval.v (pumps_ev) only needs
                           incl (r_kids r) (kids k): a rule with FEWER children than its key is
                           evaluable wherever the key says so
     drop_form r0 r sel    r is "r0 with some children dropped": child j of r0 is child i of r when
                           sel j = Some i, is dropped when sel j = None, and r's operator IS r0's
                           operator fed with the table `zero` at the dropped positions - the contract
                           on the operator of an equivalence form
     drop_form_genuine / drop_form_local
                           under that contract, if the dropped children are empty classes, genuineness
                           and locality of the ORIGINAL rule r0 (the one whose key was extracted) pass
                           to the rule handed out: the dropped children are irrelevant.
   For the library's union constructor the contract is discharged in Spec/PipelineConstructors.v
   (equiv_contract_from_union, from C09's equivalence theorem equiv_union_genuine). *)
From Coq Require Import ZArith List Lia.
From CSS Require Import Forest.Spec Spec.Eval.
Import ListNotations.
Open Scope Z_scope.

Inductive drops (E : nat -> Prop) : list (nat * Z) -> list (nat * Z) -> Prop :=
| drops_nil : drops E [] []
| drops_keep : forall x small big, drops E small big -> drops E (x :: small) (x :: big)
| drops_drop : forall c s small big, E c -> drops E small big -> drops E small ((c, s) :: big).

Lemma drops_refl E l : drops E l l.
Proof. induction l as [|x l IH]; constructor; auto. Qed.

Lemma drops_incl E small big : drops E small big -> incl small big.
Proof.
  induction 1 as [|x small big _ IH|c s small big _ _ IH]; intros y Hy.
  - exact Hy.
  - destruct Hy as [<-|Hy]; [left; reflexivity|right; apply IH; exact Hy].
  - right. apply IH. exact Hy.
Qed.

Lemma drops_weaken (E E' : nat -> Prop) small big :
  (forall c, E c -> E' c) -> drops E small big -> drops E' small big.
Proof. intros H. induction 1; constructor; auto. Qed.

(* every entry of `big` that is not in `small` is of a class satisfying E *)
Lemma drops_dropped E small big : drops E small big ->
  forall c s, In (c, s) big -> In (c, s) small \/ E c.
Proof.
  induction 1 as [|x small big _ IH|c0 s0 small big He _ IH]; intros c s Hin.
  - destruct Hin.
  - destruct Hin as [->|Hin]; [left; left; reflexivity|].
    destruct (IH c s Hin) as [H|H]; [left; right; exact H|right; exact H].
  - destruct Hin as [Heq|Hin]; [injection Heq as <- <-; right; exact He|apply IH; exact Hin].
Qed.

Definition empty_class {terms : Type} (T : nat -> Z -> terms) (zero : terms) (c : nat) : Prop :=
  forall m : Z, T c m = zero.

(* ---------------------------------------------------------------- productivity needs inclusion only *)
Section EvalSub.
Variable terms : Type.
Variable spec : nat -> option (srule terms).
Variable keys : list fkey.
Hypothesis keys_sub : forall k, In k keys ->
  exists r, spec (parent k) = Some r /\ incl (r_kids terms r) (kids k).

Lemma derivable_ev_sub : forall c v, derivable keys c v -> forall n, 0 <= n -> n < v -> ev terms spec c n.
Proof.
  induction 1 as [c v Hv | k v Hk Hkids IH]; intros n Hn0 Hn; [lia|].
  destruct (keys_sub k Hk) as (r & Hs & Ek).
  revert Hn. apply (Zlt_0_ind (fun n => n < v -> ev terms spec (parent k) n)); [|exact Hn0].
  intros x IHx Hx0 Hxv. apply (ev_intro terms spec _ r _ Hs).
  - intros i m Hi Hm0 Hm.
    assert (In (kid terms r i, shift terms r i) (kids k)) as Hin.
    { apply Ek. unfold kid, shift. rewrite <- surjective_pairing. apply nth_In; auto. }
    apply (IH _ _ Hin m Hm0). lia.
  - intros m Hm0 Hm. apply IHx; lia.
Qed.

Theorem pumps_ev_sub c : pumps keys c -> forall n, 0 <= n -> ev terms spec c n.
Proof. intros P n Hn. apply (derivable_ev_sub c (n + 1) (P (n + 1)) n); lia. Qed.
End EvalSub.

(* ---------------------------------------------------------------- dropped children are irrelevant *)
Section DropForm.
Variable terms : Type.
Variable zero : terms.                 (* the table of an empty class, at every size *)
Variable T : nat -> Z -> terms.        (* the true enumeration *)

(* providers for the original rule's children from providers for the kept ones *)
Definition ext_prov (sel : nat -> option nat) (p : nat -> Z -> terms) : nat -> Z -> terms :=
  fun j m => match sel j with Some i => p i m | None => zero end.

Definition drop_form (r0 r : srule terms) (sel : nat -> option nat) : Prop :=
  (forall j i, (j < length (r_kids terms r0))%nat -> sel j = Some i ->
     (i < length (r_kids terms r))%nat /\
     nth i (r_kids terms r) (O, 0) = nth j (r_kids terms r0) (O, 0)) /\
  (forall p o n, r_op terms r p o n = r_op terms r0 (ext_prov sel p) o n).

Definition dropped_empty (r0 : srule terms) (sel : nat -> option nat) : Prop :=
  forall j, (j < length (r_kids terms r0))%nat -> sel j = None -> empty_class T zero (kid terms r0 j).

Theorem drop_form_genuine c r0 r sel :
  drop_form r0 r sel -> dropped_empty r0 sel ->
  local terms r0 -> genuine terms T c r0 -> genuine terms T c r.
Proof.
  intros [Hk Hop] He Hloc Hgen n Hn. rewrite Hop, <- (Hgen n Hn).
  apply Hloc; [|reflexivity].
  intros j m Hj _. unfold ext_prov. destruct (sel j) as [i|] eqn:Es.
  - destruct (Hk j i Hj Es) as [_ Hnth]. unfold kid. rewrite Hnth. reflexivity.
  - symmetry. apply (He j Hj Es).
Qed.

Theorem drop_form_local r0 r sel : drop_form r0 r sel -> local terms r0 -> local terms r.
Proof.
  intros [Hk Hop] Hloc p p' o o' n Hp Ho. rewrite !Hop. apply Hloc; [|exact Ho].
  intros j m Hj Hm. unfold ext_prov. destruct (sel j) as [i|] eqn:Es; [|reflexivity].
  destruct (Hk j i Hj Es) as [Hi Hnth]. apply Hp; [exact Hi|].
  unfold shift in *. rewrite Hnth. exact Hm.
Qed.

Lemma drop_form_neg (dflt : terms) r0 r sel :
  drop_form r0 r sel -> (forall p o n, n < 0 -> r_op terms r0 p o n = dflt) ->
  forall p o n, n < 0 -> r_op terms r p o n = dflt.
Proof. intros [_ Hop] H p o n Hn. rewrite Hop. apply H. exact Hn. Qed.
End DropForm.
