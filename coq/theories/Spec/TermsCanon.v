(* Canonical term tables.  Count/Terms.v compares tables up to their meaning (teq: same
   Counter  p |-> tget t p); the harness compares the CANONICAL form `tnorm` (what enc_table
   prints: keys increasing, each once, no zero value).  This file closes the gap between the two:
   the canonical form is a function of the meaning.

     canon_unique    two canonical tables that mean the same are the same list
     tnorm_unique    teq a b -> tnorm a = tnorm b
     tnorm_id        canon t -> tnorm t = t

   plus two teq-invariance facts used when raw tables stand in for true ones: tsum_teq, and a
   table of non-negative entries that means 0 everywhere has only zero entries.
   Built on Count/TermsPolyOrder.v (ssorted, canon, tnorm_canon, tnorm_teq, canon_in_iff, ltb_asym). *)
From Coq Require Import ZArith List Bool Lia.
From CSS Require Import Gen.Prelude Count.Terms Count.Constructors Count.TermsPoly Count.TermsPolyOrder.
Import ListNotations.
Open Scope Z_scope.

Lemma canon_tl e t : canon (e :: t) -> canon t.
Proof. intros [Hs Hz]. split; [exact (ssorted_tl e t Hs)|]. intros k v Hin. apply (Hz k v). right. exact Hin. Qed.

Lemma tget_tl_ssorted k v t p : ssorted ((k, v) :: t) -> tget t p = tget ((k, v) :: t) p - (if params_eqb k p then v else 0).
Proof. intros _. simpl. lia. Qed.

Theorem canon_unique : forall a b, canon a -> canon b -> teq a b -> a = b.
Proof.
  induction a as [|[k v] a IH]; intros b Ha Hb Hab.
  - symmetry. apply canon_zero_nil; [exact Hb|]. intros p. rewrite <- (Hab p). reflexivity.
  - destruct b as [|[k' v'] b].
    + apply canon_zero_nil; [exact Ha|]. intros p. rewrite (Hab p). reflexivity.
    + assert (Hv : v <> 0) by (destruct Ha as [_ Hz]; apply (Hz k v); left; reflexivity).
      assert (Hv' : v' <> 0) by (destruct Hb as [_ Hz]; apply (Hz k' v'); left; reflexivity).
      assert (Hin : In (k, v) ((k', v') :: b)).
      { apply (canon_in_iff _ k v Hb Hv). rewrite <- (Hab k).
        apply (canon_in_iff _ k v Ha Hv). left. reflexivity. }
      assert (Hin' : In (k', v') ((k, v) :: a)).
      { apply (canon_in_iff _ k' v' Ha Hv'). rewrite (Hab k').
        apply (canon_in_iff _ k' v' Hb Hv'). left. reflexivity. }
      assert (E : (k, v) = (k', v')).
      { destruct Hin as [E|Hin]; [symmetry; exact E|]. destruct Hin' as [E|Hin']; [exact E|]. exfalso.
        destruct Ha as [[Ha1 _] _]. destruct Hb as [[Hb1 _] _]. simpl in Ha1, Hb1.
        apply (ltb_asym k k'); [apply (Ha1 k' v' Hin')|apply (Hb1 k v Hin)]. }
      inversion E; subst k' v'. f_equal.
      apply IH; [exact (canon_tl _ _ Ha)|exact (canon_tl _ _ Hb)|].
      intros p. pose proof (Hab p) as H. simpl in H. lia.
Qed.

Theorem tnorm_unique a b : teq a b -> tnorm a = tnorm b.
Proof.
  intros H. apply canon_unique; [apply tnorm_canon|apply tnorm_canon|].
  eapply teq_trans; [apply tnorm_teq|]. eapply teq_trans; [exact H|]. apply teq_sym. apply tnorm_teq.
Qed.

Theorem tnorm_id t : canon t -> tnorm t = t.
Proof. intros H. apply canon_unique; [apply tnorm_canon|exact H|apply tnorm_teq]. Qed.

Lemma canon_nil : canon [].
Proof. split; [exact I|]. intros k v []. Qed.

Lemma tsum_teq a b : teq a b -> tsum a = tsum b.
Proof.
  intros H. rewrite !tsum_zsum.
  transitivity (zsum (fun e : entry => snd e * 1) a); [apply zsum_ext; intros; lia|].
  rewrite (zsum_lin_teq (fun _ => 1) a b H). apply zsum_ext; intros; lia.
Qed.

(* non-negative entries that sum to 0 under every key are all 0 *)
Lemma nonneg_pzero_allzero t : nonneg t -> (forall p, tget t p = 0) -> allzero t.
Proof.
  induction t as [|[k v] t IH]; intros Hnn Hz k0 v0 Hin; [contradiction|].
  assert (Hnt : nonneg t) by (intros k' v' H; apply (Hnn k' v'); right; exact H).
  assert (Hv : 0 <= v) by (apply (Hnn k v); left; reflexivity).
  assert (Hvz : v = 0).
  { pose proof (Hz k) as H. simpl in H. rewrite params_eqb_refl in H.
    pose proof (tget_nonneg t k Hnt). lia. }
  destruct Hin as [E|Hin]; [inversion E; subst; reflexivity|].
  apply (IH Hnt) with (k := k0); [|exact Hin].
  intros p. pose proof (Hz p) as H. simpl in H. rewrite Hvz in H. destruct (params_eqb k p); lia.
Qed.

Lemma teq_allzero a b : teq a b -> nonneg a -> allzero b -> allzero a.
Proof.
  intros H Hn Hb. apply nonneg_pzero_allzero; [exact Hn|]. intros p. rewrite (H p). apply tget_allzero. exact Hb.
Qed.
