(* What the status "stuck" of run_c01 means (status 1: the class is not complete up to N and no
   constructor raised).

   1. rounds_reach_fixpoint: the fuel run_c01 gives the evaluator, S (k * (Nc + 2)) rounds, is enough:
      the final state is a fixed point of a round (every round that changes the state adds a level or
      records an error; there are at most k * (Nc + 1) levels and k errors).
   2. fixpoint_not_ready: at a fixed point a class that is neither complete up to Nc nor in error is
      NOT READY: one of its declared dependencies (l, s) lacks level n - s.
   3. stuck_not_evaluable_partial: if no class raised and every declared shift is >= 0, a class that
      is not complete up to Nc has no evaluation derivation (Spec.Eval.ev) for its first missing level,
      hence (pumps_ev) is NOT productive w.r.t. the declared shifts: "stuck" = "the forest's fixed-point
      analysis would not certify this class", the converse of C10's closing sentence.
      PARTIAL: specifications with a negative declared shift (every reverse product rule) and runs in
      which some class raised are not covered — there a class can also be stuck because a level it
      needs lies above the cap Nc, or behind a class in error. *)
From Coq Require Import ZArith List Bool Lia.
From CSS Require Import Forest.Spec Spec.Eval.
From CSS Require Import Base.Sx Gen.Prelude Count.Terms Count.Constructors Count.ConstructorsRun
  Spec.Adapter Spec.AdapterLocal Spec.RoundsProofs Spec.CountRun.
Import ListNotations.
Open Scope Z_scope.

Definition state := (list (list terms) * list Z)%type.

(* what round_from does for one class *)
Definition class_step (d : cdesc) (c : nat) (N : Z) (s : state) : state :=
  let '(st, errs) := s in
  let own := tabs_of st c in
  let n := zlen own in
  if (n <=? N) && Z.eqb (nth c errs 0) 0 && ready d st n then
    match step_of d st (fun m => tab_at own m) n with
    | Ok t => (set_nth st c (own ++ [t]), errs)
    | Err e => (st, set_nth errs c (if e =? 0 then 99 else e))
    end
  else (st, errs).

Lemma round_from_cons d rest c N st errs :
  round_from (d :: rest) c N st errs =
  round_from rest (S c) N (fst (class_step d c N (st, errs))) (snd (class_step d c N (st, errs))).
Proof.
  simpl round_from. unfold class_step.
  destruct ((zlen (tabs_of st c) <=? N) && (nth c errs 0 =? 0) && ready d st (zlen (tabs_of st c))); [|reflexivity].
  destruct (step_of d st _ _); reflexivity.
Qed.

(* ---------------------------------------------------------------- the measure *)
Fixpoint total_len (st : list (list terms)) : nat :=
  match st with [] => 0 | x :: r => length x + total_len r end%nat.
Fixpoint nonzero (errs : list Z) : nat :=
  match errs with [] => 0%nat | e :: r => ((if Z.eqb e 0 then 0 else 1) + nonzero r)%nat end.
Definition mu (s : state) : nat := (total_len (fst s) + nonzero (snd s))%nat.

Lemma total_len_set_nth : forall (st : list (list terms)) c v, (c < length st)%nat ->
  (total_len (set_nth st c v) + length (nth c st []) = total_len st + length v)%nat.
Proof.
  induction st as [|x st IH]; intros c v H; simpl in H; [lia|].
  destruct c as [|c]; simpl; [lia|]. specialize (IH c v ltac:(lia)). lia.
Qed.

Lemma set_nth_overflow {A} : forall (l : list A) c v, (length l <= c)%nat -> set_nth l c v = l.
Proof.
  induction l as [|x l IH]; intros c v H; [destruct c; reflexivity|].
  destruct c as [|c]; simpl in H; [lia|]. simpl. rewrite IH by lia. reflexivity.
Qed.

Lemma nonzero_set_nth : forall (errs : list Z) c v, (c < length errs)%nat -> nth c errs 0 = 0 -> v <> 0 ->
  nonzero (set_nth errs c v) = S (nonzero errs).
Proof.
  induction errs as [|x errs IH]; intros c v H H0 Hv; simpl in H; [lia|].
  destruct c as [|c]; simpl in *.
  - subst x. simpl. destruct (v =? 0) eqn:E; [apply Z.eqb_eq in E; contradiction|reflexivity].
  - rewrite IH by (try lia; assumption). lia.
Qed.

(* one class: nothing changes, or the measure grows by one *)
Lemma class_step_mu d c N s : class_step d c N s = s \/ mu (class_step d c N s) = S (mu s).
Proof.
  destruct s as [st errs]. unfold class_step.
  destruct ((zlen (tabs_of st c) <=? N) && (nth c errs 0 =? 0) && ready d st (zlen (tabs_of st c))) eqn:E; [|left; reflexivity].
  apply andb_true_iff in E. destruct E as [E _]. apply andb_true_iff in E. destruct E as [_ E]. apply Z.eqb_eq in E.
  destruct (step_of d st _ _) as [t|e].
  - destruct (Nat.lt_ge_cases c (length st)) as [H|H].
    + right. unfold mu. simpl fst. simpl snd.
      pose proof (total_len_set_nth st c (tabs_of st c ++ [t]) H) as L. rewrite app_length in L. simpl in L.
      unfold tabs_of in *. lia.
    + left. rewrite set_nth_overflow by exact H. reflexivity.
  - destruct (Nat.lt_ge_cases c (length errs)) as [H|H].
    + right. unfold mu. simpl fst. simpl snd. rewrite nonzero_set_nth; [lia|exact H|exact E|].
      destruct (e =? 0) eqn:E0; [discriminate|apply Z.eqb_neq in E0; exact E0].
    + left. rewrite set_nth_overflow by exact H. reflexivity.
Qed.

Definition round (DS : list cdesc) (N : Z) (s : state) : state := round_from DS 0 N (fst s) (snd s).

(* a round: the measure does not decrease; if it is unchanged, every class step was the identity *)
Lemma round_from_mu N : forall ds c s,
  (mu s <= mu (round_from ds c N (fst s) (snd s)))%nat /\
  (mu (round_from ds c N (fst s) (snd s)) = mu s ->
   round_from ds c N (fst s) (snd s) = s /\
   forall i d, nth_error ds i = Some d -> class_step d (c + i) N s = s).
Proof.
  induction ds as [|d rest IH]; intros c s.
  - destruct s as [st errs]. simpl. split; [lia|]. intros _. split; [reflexivity|]. intros i d0 H. destruct i; discriminate.
  - destruct s as [st errs]. simpl fst. simpl snd. rewrite round_from_cons.
    set (s1 := class_step d c N (st, errs)).
    destruct (IH (S c) s1) as [Hle Heq].
    destruct (class_step_mu d c N (st, errs)) as [Hid|Hinc]; [fold s1 in Hid|fold s1 in Hinc].
    + rewrite Hid in *. simpl fst in *. simpl snd in *. split; [exact Hle|].
      intros Hm. destruct (Heq Hm) as [E1 E2]. split; [exact E1|].
      intros [|i] d0 H0; simpl in H0.
      * inversion H0; subst d0. rewrite Nat.add_0_r. exact Hid.
      * replace (c + S i)%nat with (S c + i)%nat by lia. apply E2. exact H0.
    + split; [lia|]. intros Hm. lia.
Qed.

Lemma rounds_fix DS N s : round DS N s = s -> forall fuel, rounds fuel DS N (fst s) (snd s) = s.
Proof.
  intros H fuel. induction fuel as [|f IH]; [destruct s; reflexivity|].
  simpl rounds. unfold round in H.
  destruct (round_from DS 0 N (fst s) (snd s)) as [st' errs'] eqn:E. subst s. simpl in IH. exact IH.
Qed.

Lemma rounds_progress DS N : forall fuel s,
  let s' := rounds fuel DS N (fst s) (snd s) in
  round DS N s' = s' \/ (mu s + fuel <= mu s')%nat.
Proof.
  induction fuel as [|f IH]; intros s; cbv zeta.
  - right. destruct s. simpl. lia.
  - simpl rounds. destruct (round_from DS 0 N (fst s) (snd s)) as [st1 errs1] eqn:E.
    destruct (round_from_mu N DS 0%nat s) as [Hle Heq]. rewrite E in Hle, Heq.
    destruct (Nat.eq_dec (mu (st1, errs1)) (mu s)) as [Hm|Hm].
    + destruct (Heq Hm) as [E1 _]. left. subst s. simpl fst in E. simpl snd in E.
      assert (Hfix : round DS N (st1, errs1) = (st1, errs1)) by (unfold round; exact E).
      pose proof (rounds_fix DS N (st1, errs1) Hfix f) as Hr. simpl fst in Hr. simpl snd in Hr.
      rewrite Hr. exact Hfix.
    + specialize (IH (st1, errs1)). cbv zeta in IH. simpl fst in IH. simpl snd in IH.
      destruct IH as [IH|IH]; [left; exact IH|right; lia].
Qed.

(* ---------------------------------------------------------------- the bound on the measure *)
Lemma total_len_bound B : forall (st : list (list terms)),
  (forall c, (length (tabs_of st c) <= B)%nat) -> (total_len st <= length st * B)%nat.
Proof.
  induction st as [|x st IH]; intros H; simpl; [lia|].
  pose proof (H 0%nat) as H0. unfold tabs_of in H0. simpl in H0.
  assert (Hr : forall c, (length (tabs_of st c) <= B)%nat) by (intros c; apply (H (S c))).
  specialize (IH Hr). lia.
Qed.

Lemma nonzero_bound : forall errs, (nonzero errs <= length errs)%nat.
Proof. induction errs as [|e errs IH]; simpl; [lia|]. destruct (e =? 0); lia. Qed.

Lemma round_from_errs_length N : forall ds c st errs, length (snd (round_from ds c N st errs)) = length errs.
Proof.
  induction ds as [|d rest IH]; intros c st errs; [reflexivity|]. rewrite round_from_cons. rewrite IH.
  unfold class_step. destruct (_ && _ && _); [|reflexivity]. destruct (step_of d st _ _); [reflexivity|].
  simpl. apply set_nth_length.
Qed.

Lemma rounds_errs_length DS N : forall fuel st errs, length (snd (rounds fuel DS N st errs)) = length errs.
Proof.
  induction fuel as [|f IH]; intros st errs; [reflexivity|]. simpl rounds.
  destruct (round_from DS 0 N st errs) as [st' errs'] eqn:E. rewrite IH.
  change errs' with (snd (st', errs')). rewrite <- E. apply round_from_errs_length.
Qed.

Definition bounded_state (k : nat) (N : Z) (st : list (list terms)) : Prop :=
  length st = k /\ forall c, zlen (tabs_of st c) <= N + 1.

Lemma rounds_bounded DS N k fuel errs : 0 <= N + 1 -> bounded_state k N (fst (rounds fuel DS N (repeat [] k) errs)).
Proof.
  intros HN. apply (rounds_inv DS N (bounded_state k N)).
  - intros st c d t [Hl Hb] Hd Hn Hr Hs. split; [rewrite set_nth_length; exact Hl|].
    intros l. rewrite tabs_of_set_nth. destruct ((l =? c)%nat && (c <? length st)%nat); [|apply Hb].
    unfold zlen in *. rewrite app_length. simpl. lia.
  - split; [apply repeat_length|]. intros c. rewrite tabs_of_repeat. unfold zlen. simpl. lia.
Qed.

Theorem rounds_reach_fixpoint DS N k : 0 <= N ->
  let s := rounds (S (k * Z.to_nat (N + 2))) DS N (repeat [] k) (repeat 0 k) in
  round DS N s = s.
Proof.
  intros HN s.
  destruct (rounds_progress DS N (S (k * Z.to_nat (N + 2))) (repeat [] k, repeat 0 k)) as [H|H]; [exact H|].
  simpl fst in H. simpl snd in H. fold s in H. exfalso.
  destruct (rounds_bounded DS N k (S (k * Z.to_nat (N + 2))) (repeat 0 k) ltac:(lia)) as [Hl Hb]. fold s in Hl, Hb.
  assert (B1 : (total_len (fst s) <= k * Z.to_nat (N + 1))%nat).
  { rewrite <- Hl. apply total_len_bound. intros c. specialize (Hb c). unfold zlen in Hb. lia. }
  assert (B2 : (nonzero (snd s) <= k)%nat).
  { pose proof (nonzero_bound (snd s)) as Hn. unfold s in Hn at 2. rewrite rounds_errs_length, repeat_length in Hn. exact Hn. }
  unfold mu in H at 2. replace (Z.to_nat (N + 2)) with (S (Z.to_nat (N + 1))) in H by lia. nia.
Qed.

(* ---------------------------------------------------------------- at a fixed point nobody is ready *)
Lemma fixpoint_not_ready DS N (s : state) c d :
  round DS N s = s -> nth_error DS c = Some d -> (c < length (fst s))%nat -> (c < length (snd s))%nat ->
  zlen (tabs_of (fst s) c) <= N -> nth c (snd s) 0 = 0 -> ready d (fst s) (zlen (tabs_of (fst s) c)) = false.
Proof.
  intros Hfix Hd Hc1 Hc2 Hn He.
  destruct (round_from_mu N DS 0%nat s) as [_ Heq]. unfold round in Hfix.
  destruct (Heq ltac:(rewrite Hfix; reflexivity)) as [_ Hall].
  specialize (Hall c d Hd). simpl in Hall. destruct s as [st errs]. simpl in *. unfold class_step in Hall.
  destruct (ready d st (zlen (tabs_of st c))) eqn:Er; [|reflexivity]. exfalso.
  replace (zlen (tabs_of st c) <=? N) with true in Hall by (symmetry; apply Z.leb_le; exact Hn).
  rewrite He in Hall. simpl in Hall.
  destruct (step_of d st _ _) as [t|e].
  - inversion Hall as [E]. assert (L : length (tabs_of (set_nth st c (tabs_of st c ++ [t])) c) = length (tabs_of st c)) by (rewrite E; reflexivity).
    rewrite tabs_of_set_nth in L. rewrite Nat.eqb_refl in L. replace (c <? length st)%nat with true in L by (symmetry; apply Nat.ltb_lt; exact Hc1).
    simpl in L. rewrite app_length in L. simpl in L. lia.
  - inversion Hall as [E]. assert (L : nth c (set_nth errs c (if e =? 0 then 99 else e)) 0 = 0) by (rewrite E; exact He).
    clear -L Hc2. revert c Hc2 L. induction errs as [|x errs IH]; intros c Hc L; simpl in Hc; [lia|].
    destruct c as [|c]; simpl in L.
    + destruct (e =? 0) eqn:E0; [discriminate|apply Z.eqb_neq in E0; contradiction].
    + apply (IH c); [lia|exact L].
Qed.

(* ---------------------------------------------------------------- stuck = not evaluable (partial) *)
Section Stuck.
Variable DS : list cdesc.
Variable N : Z.
Hypothesis HN : 0 <= N.
Let k := length DS.
Let s := rounds (S (k * Z.to_nat (N + 2))) DS N (repeat [] k) (repeat 0 k).
Hypothesis no_error : forall c, nth c (snd s) 0 = 0.
Hypothesis shifts_nonneg : forall c d l sh, nth_error DS c = Some d -> In (l, sh) (c_deps d) -> 0 <= sh.

Lemma ready_false d st n : ready d st n = false -> exists l sh, In (l, sh) (c_deps d) /\ zlen (tabs_of st l) <= n - sh.
Proof.
  unfold ready. intros H.
  assert (G : forall deps, forallb (fun ds : nat * Z => let '(l, s0) := ds in n - s0 <? zlen (tabs_of st l)) deps = false ->
              exists l sh, In (l, sh) deps /\ zlen (tabs_of st l) <= n - sh).
  { induction deps as [|[l sh] deps IH]; simpl; [discriminate|]. intros Hf.
    destruct (n - sh <? zlen (tabs_of st l)) eqn:E; simpl in Hf.
    - destruct (IH Hf) as (l' & sh' & Hin & Hle). exists l', sh'. split; [right; exact Hin|exact Hle].
    - apply Z.ltb_ge in E. exists l, sh. split; [left; reflexivity|exact E]. }
  apply G. exact H.
Qed.

Lemma evaluable_is_computed : forall c n, ev terms (spec_of DS) c n -> 0 <= n <= N -> n < zlen (tabs_of (fst s) c).
Proof.
  induction 1 as [c r n Hs Hk IHk Ho IHo]. intros Hn.
  destruct (Z_lt_le_dec n (zlen (tabs_of (fst s) c))) as [Hlt|Hge]; [exact Hlt|]. exfalso.
  assert (Hown : zlen (tabs_of (fst s) c) = n).
  { destruct (Z.eq_dec (zlen (tabs_of (fst s) c)) n) as [E|E]; [exact E|].
    assert (0 <= zlen (tabs_of (fst s) c) < n) by (unfold zlen in *; lia).
    specialize (IHo (zlen (tabs_of (fst s) c)) ltac:(lia) ltac:(lia) ltac:(lia)). lia. }
  unfold spec_of in Hs. destruct (nth_error DS c) as [d|] eqn:Hd; simpl in Hs; [|discriminate]. inversion Hs; subst r.
  assert (Hck : (c < k)%nat) by (apply nth_error_Some; rewrite Hd; discriminate).
  destruct (rounds_bounded DS N k (S (k * Z.to_nat (N + 2))) (repeat 0 k) ltac:(lia)) as [Hl _]. fold s in Hl.
  assert (Hfix : round DS N s = s) by (apply rounds_reach_fixpoint; exact HN).
  pose proof (fixpoint_not_ready DS N s c d Hfix Hd ltac:(lia)
                ltac:(unfold s; rewrite rounds_errs_length, repeat_length; exact Hck) ltac:(lia) (no_error c)) as Hnr.
  rewrite Hown in Hnr. destruct (ready_false d (fst s) n Hnr) as (l & sh & Hin & Hle).
  pose proof (shifts_nonneg c d l sh Hd Hin) as Hsh.
  destruct (In_nth _ _ (O, 0) Hin) as (i & Hi & Ei).
  assert (Ek : Spec.Eval.kid terms (srule_of d) i = l) by (unfold Spec.Eval.kid; simpl r_kids; rewrite Ei; reflexivity).
  assert (Es : shift terms (srule_of d) i = sh) by (unfold shift; simpl r_kids; rewrite Ei; reflexivity).
  assert (H0 : 0 <= n - sh) by (unfold zlen in Hle; lia).
  specialize (IHk i (n - sh) Hi H0 ltac:(rewrite Es; lia) ltac:(lia)). rewrite Ek in IHk. lia.
Qed.

(* a class that is not complete up to N is not evaluable at its first missing level, so not productive *)
Theorem stuck_not_evaluable_partial c :
  zlen (tabs_of (fst s) c) <= N -> ~ ev terms (spec_of DS) c (zlen (tabs_of (fst s) c)).
Proof.
  intros Hle Hev. pose proof (evaluable_is_computed c _ Hev ltac:(unfold zlen in *; lia)). lia.
Qed.

Theorem stuck_not_productive_partial (keys : list fkey) c :
  (forall q, In q keys -> exists d, nth_error DS (parent q) = Some d /\ kids q = c_deps d) ->
  zlen (tabs_of (fst s) c) <= N -> ~ pumps keys c.
Proof.
  intros Hk Hle P. apply (stuck_not_evaluable_partial c Hle).
  apply (pumps_ev terms (spec_of DS) keys); [|exact P|unfold zlen; lia].
  intros q Hin. destruct (Hk q Hin) as (d & Hd & Ek). exists (srule_of d). split; [|exact Ek].
  unfold spec_of. rewrite Hd. reflexivity.
Qed.
(* conversely: a productive class is reported complete (same partiality) *)
Theorem productive_complete_partial (keys : list fkey) c :
  (forall q, In q keys -> exists d, nth_error DS (parent q) = Some d /\ kids q = c_deps d) ->
  pumps keys c -> N < zlen (tabs_of (fst s) c).
Proof.
  intros Hk P. apply evaluable_is_computed; [|lia].
  apply (pumps_ev terms (spec_of DS) keys); [|exact P|exact HN].
  intros q Hin. destruct (Hk q Hin) as (d & Hd & Ek). exists (srule_of d). split; [|exact Ek].
  unfold spec_of. rewrite Hd. reflexivity.
Qed.
End Stuck.
