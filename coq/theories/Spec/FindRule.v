(* Executable model of SpecificationRuleExtractor._find_rule / rules()
   (specification_extrator.py) over the strategy table of Searcher/Model.v and
   the rule stores of RuleDB/Model.v.

   _find_rule(parent, children) turns an entry of the extractor's dictionary
   (labels) back into a rule object:
     1. rule_to_strategy[(parent, children)]  ->  strategy(get_class(parent)), AS IT IS
     2. (one child) eqv_rule_to_strategy[(parent, children)]  ->  the rule, or its
        equivalence form when it has several children
     3. (one child c) eqv_rule_to_strategy[(c, (parent,))]  ->  the same, reversed
     otherwise ValueError("Unable to retrieve rule ...").
   The two stores are arguments (get_r, get_e : a lookup may change the class
   database - RecomputingDict labels foreign parents and fills the emptiness
   cache -, so the class database is threaded through).  They are instantiated
   with the dict of RuleDB (d_get) and with RecomputingDict.__getitem__
   (rec_getitem) in dict_lookup / rec_lookup below.

   A rule object handed back is a `form` over a table rule r = (strategy id,
   parent class, kind):
     FPlain r        strategy(comb_class) as it is (Rule or VerificationRule)
     FEquiv r        r.to_equivalence_rule()            EquivalenceRule(r)
     FRev r          r.to_reverse_rule(0), r unary      ReverseRule(r, 0)
     FEquivRev r i   EquivalenceRule(r).to_reverse_rule(0) = EquivalenceRule(ReverseRule(r, i))
   cap sid = strategy.can_be_equivalent() (and the constructors' can_be_equivalent(),
   which is only False for constructors with duplicated parameter values: no
   statistics in the universes of this check).  Emptiness inside the rule
   objects is the classes' own is_empty() (oracle T), not the class database's
   cache.  `convert` = the repair proposed in findings/ (rules() turns an
   unconverted equivalence rule with several children into its equivalence form,
   as ForestRuleExtractor.rules does); false = the code as it is.
   No proofs in this file. *)
From Coq Require Import ZArith List Bool.
From CSS Require Import Base.PyList ClassDB.Model Searcher.Model RuleDB.Model.
Import ListNotations.
Open Scope Z_scope.

Inductive form :=
| FPlain (r : rule)
| FEquiv (r : rule)
| FRev (r : rule)
| FEquivRev (r : rule) (idx : nat).

Inductive ferr :=
| EMissing            (* ValueError: Unable to retrieve rule *)
| ERecompute          (* RuntimeError of RecomputingDict.__getitem__ *)
| ECdb (e : err)      (* an exception of the class database *)
| ENotApply           (* StrategyDoesNotApply: the strategy handed back does not apply to the class *)
| EAssertRule         (* assert isinstance(rule, Rule) *)
| EAssertEquiv        (* to_equivalence_rule / EquivalenceRule.__init__: assert rule.is_equivalence() *)
| EAssertReversible.  (* to_reverse_rule / ReverseRule.__init__: assert rule.is_reversible() *)

Definition lookup := cdbT -> key -> cdbT * gres.

Section FindRule.
Variable T : table.
Variable cap : Z -> bool.
Variable get_r get_e : lookup.

Notation orc := (oracle T).

(* strategy(comb_class); None = StrategyDoesNotApply *)
Definition apply_strategy (sid p : Z) : option rule :=
  let r := rule_of T sid p in
  if sid =? -1 then (if orc p then Some r else None)
  else match rule_children T r with Some _ => Some r | None => None end.

(* position of the first non-empty child *)
Fixpoint first_nonempty (cs : list Z) : option nat :=
  match cs with
  | [] => None
  | c :: t => if orc c then option_map S (first_nonempty t) else Some O
  end.
Definition count_nonempty_o (cs : list Z) : nat := length (filter (fun c => negb (orc c)) cs).

(* Rule.is_equivalence() of strategy(comb_class) *)
Definition plain_is_equivalence (r : rule) : bool :=
  negb (is_ver r) && cap (r_sid r) && Nat.eqb (count_nonempty_o (kids_of T r)) 1.

(* comb_class and children of a form *)
Definition form_parent (f : form) : Z :=
  match f with
  | FPlain r | FEquiv r => r_parent r
  | FRev r => nth 0 (kids_of T r) 0
  | FEquivRev r i => nth i (kids_of T r) 0
  end.
Definition form_children (f : form) : list Z :=
  match f with
  | FPlain r => kids_of T r
  | FEquiv r => match first_nonempty (kids_of T r) with
                | Some i => [nth i (kids_of T r) 0]
                | None => []
                end
  | FRev r | FEquivRev r _ => [r_parent r]
  end.
Definition form_rule (f : form) : rule :=
  match f with FPlain r | FEquiv r | FRev r | FEquivRev r _ => r end.
(* rule.is_equivalence() of the object handed back *)
Definition form_is_equivalence (f : form) : bool :=
  match f with
  | FPlain r => plain_is_equivalence r
  | FEquiv _ | FEquivRev _ _ => true
  | FRev r => cap (r_sid r) && negb (orc (r_parent r))
  end.

(* rule if len(rule.children) == 1 else rule.to_equivalence_rule() *)
Definition unary_or_equiv (r : rule) : form + ferr :=
  match kids_of T r with
  | [_] => inl (FPlain r)
  | _ => if plain_is_equivalence r then inl (FEquiv r) else inr EAssertEquiv
  end.

(* x.to_reverse_rule(0) for x = unary_or_equiv r *)
Definition reverse0 (r : rule) : form + ferr :=
  match kids_of T r with
  | [_] => if r_reversible T r then inl (FRev r) else inr EAssertReversible
  | cs =>
      if plain_is_equivalence r then
        match first_nonempty cs with
        | Some i =>
            if r_reversible T r then
              (* ReverseRule(r, i).to_equivalence_rule(): the reversed rule's children are
                 (parent, *others); the others are empty *)
              if cap (r_sid r) && negb (orc (r_parent r)) then inl (FEquivRev r i) else inr EAssertEquiv
            else inr EAssertReversible
        | None => inr EAssertEquiv
        end
      else inr EAssertEquiv
  end.

(* strategy(self.classdb.get_class(label)) *)
Definition call (d : cdbT) (sid label : Z) : (rule + ferr) :=
  match snd (c_get_class d label) with
  | RClass p => match apply_strategy sid p with Some r => inl r | None => inr ENotApply end
  | RErr e => inr (ECdb e)
  | _ => inr (ECdb TypeError)
  end.

(* what `except KeyError` sees *)
Inductive outcome := OStrategy (sid : Z) | OKeyError | OFail (e : ferr).
Definition outcome_of (g : gres) : outcome :=
  match g with
  | GOk sid _ => OStrategy sid
  | GKeyError => OKeyError
  | GErr KeyError => OKeyError
  | GFail => OFail ERecompute
  | GErr e => OFail (ECdb e)
  end.

Definition find_rule (d : cdbT) (parent : Z) (children : list Z) : cdbT * (form + ferr) :=
  let '(d1, g1) := get_r d (parent, children) in
  match outcome_of g1 with
  | OStrategy sid =>
      (d1, match call d1 sid parent with inl r => inl (FPlain r) | inr e => inr e end)
  | OFail e => (d1, inr e)
  | OKeyError =>
      match children with
      | [c] =>
          let '(d2, g2) := get_e d1 (parent, [c]) in
          match outcome_of g2 with
          | OStrategy sid =>
              (d2, match call d2 sid parent with
                   | inl r => if is_ver r then inr EAssertRule else unary_or_equiv r
                   | inr e => inr e
                   end)
          | OFail e => (d2, inr e)
          | OKeyError =>
              let '(d3, g3) := get_e d2 (c, [parent]) in
              match outcome_of g3 with
              | OStrategy sid =>
                  (d3, match call d3 sid c with
                       | inl r => if is_ver r then inr EAssertRule else reverse0 r
                       | inr e => inr e
                       end)
              | OFail e => (d3, inr e)
              | OKeyError => (d3, inr EMissing)
              end
          end
      | _ => (d1, inr EMissing)
      end
  end.

(* the repair proposed for the open finding: an unconverted equivalence rule with several
   children is handed out in its equivalence form *)
Definition converted (convert : bool) (f : form) : form :=
  match f with
  | FPlain r =>
      if convert && plain_is_equivalence r && negb (Nat.eqb (length (kids_of T r)) 1) then FEquiv r else f
  | _ => f
  end.

(* rules(): for parent, children in self.rules_dict.items(): yield self._find_rule(parent, children);
   the first exception ends the generator *)
Fixpoint rules (convert : bool) (d : cdbT) (entries : list key) : cdbT * list form * option ferr :=
  match entries with
  | [] => (d, [], None)
  | (p, cs) :: t =>
      let '(d1, o) := find_rule d p cs in
      match o with
      | inr e => (d1, [], Some e)
      | inl f => let '(d2, fs, e) := rules convert d1 t in (d2, converted convert f :: fs, e)
      end
  end.

End FindRule.

(* the two stores *)
Definition dict_lookup (s : dstore) : lookup :=
  fun d k => (d, match d_get k s with Some sid => GOk sid 0 | None => GKeyError end).
Definition rec_lookup (T : table) (pack : list Z) (only_equiv : bool) (s : rstore_t) : lookup :=
  fun d k => rec_getitem T pack only_equiv s d k.
