(* The forest pipeline for specifications made of the LIBRARY'S constructors: C03 + C11 + C10 + C09 + C01
   with NO abstract genuine / local hypothesis left.

     spec_ofN_correct_sub            Spec/AdapterGenuine.v spec_ofN_correct with the keys/specification tie
                                     weakened to inclusion (what Spec/EvalDrop.v shows to be enough)
     forest_pipeline_constructors    for every list of inserted forest keys on which the (total) table-method
                                     model reports the start class as pumping, the extractor returns `res`
                                     with one key per class, and EVERY descriptor list `ds` (what run_c01
                                     evaluates) that satisfies deps_shape + the per-form contract about the
                                     true tables and holds, for each extracted key, a descriptor whose declared
                                     dependencies are the key's children minus empty classes, evaluates to the
                                     true table of the start class.
     equiv_desc / equiv_contract_from_union / equiv_deps_shape
                                     the contract "the equivalence form computes what the original rule computes
                                     when its other children are empty" discharged for the union constructor:
                                     if the ORIGINAL union rule (form 0, all children) satisfies its contract
                                     and every child but the first non-empty one has an all-zero true table,
                                     the descriptor of rule.to_equivalence_rule() (form 4, one dependency)
                                     satisfies ITS contract - by C09_equivalence (equiv_union_genuine). *)
From Coq Require Import ZArith List Bool Lia.
From CSS Require Import Forest.Spec Forest.Model Forest.Theorems Forest.Extractor Forest.ExtractorRun
  Forest.ExtractorTheorems Forest.TerminationDefs Spec.Eval Spec.EvalDrop Spec.Pipeline.
From CSS Require Import Base.Sx Gen.Prelude Count.Terms Count.Constructors Count.ConstructorsRun
  Count.ConstructorsUnionProduct Count.ConstructorsDerived Count.TermsPolyOrder Count.ConstructorsDict Count.ConstructorsSteps
  Spec.TermsCanon Spec.Adapter Spec.AdapterLocal Spec.AdapterSound Spec.AdapterGenuine Spec.CountRun.
Import ListNotations.
Open Scope Z_scope.

Section Constructors.
Variable T : nat -> Z -> terms.
Variable npar : nat -> nat.
Variables vpos kpos : nat -> bool.
Hypothesis HT : T_ok T npar.
Hypothesis Hcanon : forall l m, canon (T l m).

Lemma spec_ofN_inv (ds : list cdesc) c r :
  spec_ofN ds c = Some r -> exists d, nth_error ds c = Some d /\ r = srule_ofN d.
Proof.
  intros H. unfold spec_ofN in H. destruct (nth_error ds c) as [d|]; simpl in H; [|discriminate].
  exists d. split; [reflexivity|congruence].
Qed.

Theorem spec_ofN_correct_sub (ds : list cdesc) (keys : list fkey) :
  (forall c d, nth_error ds c = Some d -> deps_shape d) ->
  (forall c d, nth_error ds c = Some d -> forall Hz, rule_contract T npar vpos kpos Hz c d) ->
  (forall k, In k keys -> exists d, nth_error ds (parent k) = Some d /\ incl (c_deps d) (kids k)) ->
  forall c, pumps keys c -> forall n, 0 <= n ->
  exists f0, forall f, (f0 <= f)%nat -> eval terms [] (spec_ofN ds) f c n = T c n.
Proof.
  intros Hs HC Hk c P n Hn.
  apply (eval_correct terms [] (spec_ofN ds) T).
  - destruct HT as [Hneg _]. exact Hneg.
  - intros c0 r H p o m Hm. destruct (spec_ofN_inv ds c0 r H) as (d & _ & ->). apply srule_ofN_neg. exact Hm.
  - intros c0 r H. destruct (spec_ofN_inv ds c0 r H) as (d & Hd & ->). apply srule_ofN_local. apply (Hs c0 d Hd).
  - intros c0 r H. destruct (spec_ofN_inv ds c0 r H) as (d & Hd & ->).
    apply (srule_ofN_genuine T npar vpos kpos HT Hcanon); [apply (Hs c0 d Hd)|apply (HC c0 d Hd)].
  - apply (pumps_ev_sub terms (spec_ofN ds) keys); [|exact P|exact Hn].
    intros k Hin. destruct (Hk k Hin) as (d & Hd & Ek). exists (srule_ofN d). split; [|exact Ek].
    unfold spec_ofN. rewrite Hd. reflexivity.
Qed.

Theorem forest_pipeline_constructors (pick : list nat -> nat) (fuelx root : nat) (ks : list bkey) :
  (forall k, In k ks -> (bk_bucket k < 4)%nat) ->
  pumping_answer (run_total pick (add_ops ks)) root = true ->
  exists res, extract fuelx root ks = Extractor.Ok res /\
    (forall i j, (i < length res)%nat -> (j < length res)%nat ->
       parent (bk_key (nth i res (mkb dummy 0))) = parent (bk_key (nth j res (mkb dummy 0))) -> i = j) /\
    forall ds : list cdesc,
      (forall c d, nth_error ds c = Some d -> deps_shape d) ->
      (forall c d, nth_error ds c = Some d -> forall Hz, rule_contract T npar vpos kpos Hz c d) ->
      (forall k, In k res ->
         exists d, nth_error ds (parent (bk_key k)) = Some d /\
                   drops (empty_class T []) (c_deps d) (kids (bk_key k))) ->
      forall n, 0 <= n ->
      exists f0, forall f, (f0 <= f)%nat -> eval terms [] (spec_ofN ds) f root n = T root n.
Proof.
  intros Hb Hans.
  assert (forall c m, m < 0 -> T c m = []) as Tneg by (destruct HT as [Hneg _]; exact Hneg).
  destruct (forest_pipeline_total terms [] T pick fuelx root ks Hb Hans Tneg) as (res & Hres & Hdist & Hpipe).
  exists res. split; [exact Hres|]. split; [exact Hdist|].
  intros ds Hs HC Hk n Hn. apply (Hpipe (spec_ofN ds)); [| | | |exact Hn].
  - intros k Hin. destruct (Hk k Hin) as (d & Hd & Hdr). exists (srule_ofN d). split; [|exact Hdr].
    unfold spec_ofN. rewrite Hd. reflexivity.
  - intros c0 r H p o m Hm. destruct (spec_ofN_inv ds c0 r H) as (d & _ & ->). apply srule_ofN_neg. exact Hm.
  - intros c0 r H. destruct (spec_ofN_inv ds c0 r H) as (d & Hd & ->). apply srule_ofN_local. apply (Hs c0 d Hd).
  - intros c0 r H. destruct (spec_ofN_inv ds c0 r H) as (d & Hd & ->).
    apply (srule_ofN_genuine T npar vpos kpos HT Hcanon); [apply (Hs c0 d Hd)|apply (HC c0 d Hd)].
Qed.

(* ---------------------------------------------------------------- the equivalence form of a union rule *)
(* the descriptor harness/props/c01.py describe() writes for rule.to_equivalence_rule(): the ORIGINAL rule's
   names, children and labels, form 4, and ONE declared dependency - the first non-empty child *)
Definition equiv_desc (d : cdesc) (ci : nat) (s : Z) : cdesc :=
  mkC 4 (c_idx d) (c_pnames d) (c_kids d) (c_op d) (c_ok d) [(nth ci (c_ok d) O, s)]
      (c_table d) (c_steps d) (c_last d).

Lemma Forall2_nth {A B} (P : A -> B -> Prop) (la : list A) (lb : list B) da db :
  Forall2 P la lb -> forall i, (i < length la)%nat -> P (nth i la da) (nth i lb db).
Proof.
  induction 1 as [|a b la lb Hab _ IH]; intros i Hi; simpl in Hi; [lia|].
  destruct i as [|i]; simpl; [exact Hab|apply IH; lia].
Qed.

Lemma Forall2_length' {A B} (P : A -> B -> Prop) la lb : Forall2 P la lb -> length la = length lb.
Proof. induction 1; simpl; auto. Qed.

(* an all-zero canonical table is the empty table: for the true tables "empty class" (EvalDrop.empty_class
   with zero table []) and "all counts are 0" coincide *)
Theorem equiv_contract_from_union Hz c d ci s :
  c_form d = 0 ->
  rule_contract T npar vpos kpos Hz c d ->
  first_nonempty (c_kids d) = Some ci -> (ci < length (c_ok d))%nat ->
  (forall j, j <> ci -> (j < length (c_ok d))%nat -> empty_class T [] (nth j (c_ok d) O)) ->
  rule_contract T npar vpos kpos Hz c (equiv_desc d ci s).
Proof.
  intros Hf HC Hfn Hci Hemp. unfold rule_contract in *. rewrite Hf in HC. cbn [equiv_desc c_form c_pnames c_kids c_ok c_idx c_op].
  destruct HC as (Hnp & Hwf & Hlabs & Hgen & Hflags).
  pose proof (Forall2_length' _ _ _ Hlabs) as Hlen.
  exists ci. split; [exact Hfn|]. split; [exact Hci|]. split; [exact Hnp|].
  split; [rewrite Forall_forall in Hwf; apply Hwf; apply nth_In; lia|].
  split; [symmetry; symmetry; apply (Forall2_nth _ _ _ default_kid O Hlabs ci); lia|].
  split.
  - intros n Hn.
    pose proof (equiv_union_genuine ci (map (kid_sem (c_pnames d)) (c_kids d))
                  (map (fun l => T l n) (c_ok d)) (T c n)) as H.
    rewrite !map_length in H.
    assert (nth ci (map (kid_sem (c_pnames d)) (c_kids d)) (fun k => k) = kid_sem (c_pnames d) (nth ci (c_kids d) default_kid)) as E1.
    { rewrite (nth_indep _ (fun k => k) (kid_sem (c_pnames d) default_kid)) by (rewrite map_length; lia).
      apply map_nth. }
    assert (nth ci (map (fun l => T l n) (c_ok d)) [] = T (nth ci (c_ok d) O) n) as E2.
    { rewrite (nth_indep _ [] (T O n)) by (rewrite map_length; lia).
      apply (map_nth (fun l => T l n)). }
    rewrite <- E1. replace (T (nth ci (c_ok d) O) n) with (nth ci (map (fun l => T l n) (c_ok d)) []) by exact E2.
    apply H; [exact Hci|exact Hlen| |apply Hgen; exact Hn].
    intros j Hj Hlt.
    rewrite (nth_indep _ [] (T O n)) by (rewrite map_length; lia).
    rewrite (map_nth (fun l => T l n)). rewrite (Hemp j Hj Hlt n). intros k v [].
  - destruct Hflags as [Hv Hk]. split; intros Hc; constructor; try constructor.
    + specialize (Hv Hc). rewrite Forall_forall in Hv. apply Hv. apply nth_In. exact Hci.
    + specialize (Hk Hc). rewrite Forall_forall in Hk. apply Hk. apply nth_In. exact Hci.
Qed.

Lemma equiv_deps_shape d ci s :
  first_nonempty (c_kids d) = Some ci -> length (c_ok d) = length (c_kids d) -> s <= 0 ->
  deps_shape (equiv_desc d ci s).
Proof.
  intros Hfn Hlen Hs. unfold deps_shape. cbn [equiv_desc c_form c_kids c_ok c_deps].
  exists ci. split; [exact Hfn|]. split; [exact Hlen|]. exists s. split; [reflexivity|exact Hs].
Qed.

(* the declared dependency of the equivalence form is the original rule's dependencies minus the empty
   children, when the original declares (child j, shift s_j) in order *)
Lemma equiv_desc_drops d ci s :
  dep_labels d = c_ok d -> (ci < length (c_ok d))%nat ->
  nth ci (dep_shifts d) 0 = s ->
  (forall j, j <> ci -> (j < length (c_ok d))%nat -> empty_class T [] (nth j (c_ok d) O)) ->
  drops (empty_class T []) (c_deps (equiv_desc d ci s)) (c_deps d).
Proof.
  cbn [equiv_desc c_deps]. unfold dep_labels, dep_shifts. intros Hl. rewrite <- Hl. rewrite map_length.
  generalize (c_deps d). clear Hl d. intros l. revert ci.
  induction l as [|[c0 s0] l IH]; intros ci Hci Hs Hemp; simpl in Hci; [lia|].
  destruct ci as [|ci].
  - simpl in Hs. subst s0. simpl. apply drops_keep.
    assert (forall l', (forall j, (j < length l')%nat -> empty_class T [] (nth j (map fst l') O)) -> drops (empty_class T []) [] l') as Hall.
    { induction l' as [|[c1 s1] l' IH']; intros H; [constructor|].
      apply drops_drop; [apply (H O); simpl; lia|]. apply IH'. intros j Hj. apply (H (S j)). simpl. lia. }
    apply Hall. intros j Hj. apply (Hemp (S j)); [discriminate|simpl; lia].
  - simpl in Hs |- *. apply drops_drop; [apply (Hemp O); [discriminate|simpl; lia]|].
    apply IH; [lia|exact Hs|]. intros j Hj Hlt. apply (Hemp (S j)); [lia|simpl; lia].
Qed.

End Constructors.
