(* Meaning of the verdicts of Spec/GroupingPumps.v (C03) and their combination with the grouping theorem
   (Spec/GroupingProdObj.v object_keys_pump_iff). *)
From Coq Require Import ZArith List Bool Lia.
From CSS Require Import Forest.Spec Forest.Model Forest.Theorems Forest.TerminationDefs Forest.TerminationRun
  Spec.Grouping Spec.GroupingWf Spec.GroupingFacts Spec.GroupingProofs Spec.GroupingProdKeys Spec.GroupingProdLink Spec.GroupingProdObj Spec.GroupingPumps.
Import ListNotations.

Lemma keys_of_addkeys ks : Forest.Model.keys_of (map AddKey ks) = ks.
Proof. induction ks as [|k ks IH]; simpl; [reflexivity|rewrite IH; reflexivity]. Qed.

(* the decision procedure is correct: C03_total_sound_complete on a fresh table *)
Theorem pumpsb_spec ks c : pumpsb ks c = true <-> pumps ks c.
Proof.
  unfold pumpsb, tm_of.
  destruct (total_sound_complete pick_first (map AddKey ks) c) as [A _].
  unfold pumping_answer in A. rewrite keys_of_addkeys in A. exact A.
Qed.

Lemma pumpsb_false ks c : pumpsb ks c = false <-> ~ pumps ks c.
Proof.
  split.
  - intros H P. apply pumpsb_spec in P. congruence.
  - intros H. destruct (pumpsb ks c) eqn:E; [exfalso; apply H, pumpsb_spec, E|reflexivity].
Qed.

Lemma verdicts_root ks root : fst (verdicts ks root) = pumpsb ks root.
Proof. reflexivity. Qed.

Lemma verdicts_classes ks root :
  snd (verdicts ks root) = map (fun k => (parent k, pumpsb ks (parent k))) ks.
Proof. reflexivity. Qed.

Theorem all_pumpb_spec ks : all_pumpb ks = true <-> forall k, In k ks -> pumps ks (parent k).
Proof.
  unfold all_pumpb. rewrite verdicts_classes, forallb_forall. split.
  - intros H k Hk. apply pumpsb_spec. apply (H (parent k, pumpsb ks (parent k))).
    apply in_map_iff. exists k. split; [reflexivity|exact Hk].
  - intros H pb Hin. apply in_map_iff in Hin. destruct Hin as (k & <- & Hk). cbn [snd].
    apply pumpsb_spec. apply H. exact Hk.
Qed.

(* ---------------------------------------------------------------- with the grouping theorem *)
Section Obj.
Variable is_empty : nat -> bool.
Variable root : nat.
Variable rules : list grule.
Let d0 := ungroup (rules_dict rules).

(* the four bits run_spec prints + ONE of the two verdicts give both productivity statements *)
Theorem object_root_pumps s :
  wf_inputb is_empty root d0 = true ->
  shifts_okb d0 = true ->
  spec_init is_empty root rules true = XOk s ->
  same_dictb is_empty root rules true (sp_rules s) = true ->
  (pumpsb (R1 (sp_rules s)) root = true \/ pumpsb (R0 d0 (sp_rules s)) root = true) ->
  pumps (R1 (sp_rules s)) root /\ pumps (R0 d0 (sp_rules s)) root.
Proof.
  intros Hw Hs Hi Hsame Hv.
  destruct (object_keys_pump_iff is_empty root rules s Hw Hs Hi Hsame) as (_ & _ & Hroot & _).
  fold d0 in Hroot.
  destruct Hv as [Hv|Hv]; apply pumpsb_spec in Hv.
  - split; [exact Hv|apply Hroot; exact Hv].
  - split; [apply Hroot; exact Hv|exact Hv].
Qed.

(* the two verdicts the model prints cannot differ when the premises of the grouping theorem hold *)
Theorem object_verdicts_agree s :
  wf_inputb is_empty root d0 = true ->
  shifts_okb d0 = true ->
  spec_init is_empty root rules true = XOk s ->
  same_dictb is_empty root rules true (sp_rules s) = true ->
  pumpsb (R1 (sp_rules s)) root = pumpsb (R0 d0 (sp_rules s)) root /\
  forall c g, In (c, g) (sp_rules s) -> pumpsb (R1 (sp_rules s)) c = pumpsb (R0 d0 (sp_rules s)) c.
Proof.
  intros Hw Hs Hi Hsame.
  destruct (object_keys_pump_iff is_empty root rules s Hw Hs Hi Hsame) as (_ & Hcls & Hroot & _).
  fold d0 in Hroot, Hcls.
  assert (forall c, (pumps (R1 (sp_rules s)) c <-> pumps (R0 d0 (sp_rules s)) c) ->
                    pumpsb (R1 (sp_rules s)) c = pumpsb (R0 d0 (sp_rules s)) c) as Hb.
  { intros c Hc. destruct (pumpsb (R1 (sp_rules s)) c) eqn:E1; destruct (pumpsb (R0 d0 (sp_rules s)) c) eqn:E2; auto.
    - apply pumpsb_spec in E1. apply Hc in E1. apply pumpsb_spec in E1. congruence.
    - apply pumpsb_spec in E2. apply Hc in E2. apply pumpsb_spec in E2. congruence. }
  split; [apply Hb; exact Hroot|]. intros c g Hin. apply Hb. apply (Hcls c g Hin).
Qed.

(* every entry of the object's rules_dict sits under the class of its key *)
Lemma object_entry_parent s :
  wf_inputb is_empty root d0 = true ->
  shifts_okb d0 = true ->
  spec_init is_empty root rules true = XOk s ->
  same_dictb is_empty root rules true (sp_rules s) = true ->
  forall c g, In (c, g) (sp_rules s) -> parent (gkey g) = c.
Proof.
  intros Hw Hs Hi Hsame c g Hin.
  destruct (object_keys_pump_iff is_empty root rules s Hw Hs Hi Hsame) as (G & _).
  fold d0 in G. apply wf_inputb_sound in Hw. destruct Hw as (_ & (_ & Hkeyed) & _).
  destruct G as (Hnd & _ & _ & _ & _ & _ & H7 & _).
  destruct (H7 c g (In_dget _ _ _ Hnd Hin)) as (_ & [(r0 & rs & -> & Hd & _)|[(r & -> & _ & Hd)|(_ & -> & _)]]).
  - exact (Hkeyed c (GB r0) (dget_In _ _ _ Hd)).
  - exact (Hkeyed c (GB r) (dget_In _ _ _ Hd)).
  - reflexivity.
Qed.

(* the all-classes verdict on R1: every class with a rule in the object pumps w.r.t. R1 AND w.r.t. R0 *)
Theorem object_all_classes_pump s :
  wf_inputb is_empty root d0 = true ->
  shifts_okb d0 = true ->
  spec_init is_empty root rules true = XOk s ->
  same_dictb is_empty root rules true (sp_rules s) = true ->
  all_pumpb (R1 (sp_rules s)) = true ->
  forall c g, In (c, g) (sp_rules s) ->
    pumps (R1 (sp_rules s)) c /\ pumps (R0 d0 (sp_rules s)) c.
Proof.
  intros Hw Hs Hi Hsame Hall c g Hin.
  pose proof (object_entry_parent s Hw Hs Hi Hsame c g Hin) as Hp.
  destruct (object_keys_pump_iff is_empty root rules s Hw Hs Hi Hsame) as (_ & Hcls & _ & _).
  fold d0 in Hcls.
  assert (pumps (R1 (sp_rules s)) c) as P.
  { rewrite <- Hp. apply (proj1 (all_pumpb_spec _) Hall). unfold R1, keys_of.
    apply in_map_iff. exists (c, g). split; [reflexivity|exact Hin]. }
  split; [exact P|apply (Hcls c g Hin); exact P].
Qed.
End Obj.

(* ---------------------------------------------------------------- what run_spec prints in fields 9..11 *)
From CSS Require Import Base.Sx Spec.GroupingRun.

Theorem run_spec_verdicts (a : sx) s :
  let root := sx_nat (sx_nth a 0) in
  let ge := sx_bool (sx_nth a 1) in
  let is_empty := fun c => mem c (sx_nats (sx_nth a 2)) in
  let rules := map dec_grule (sx_list (sx_nth a 3)) in
  let d0 := ungroup (rules_dict rules) in
  sx_list a <> [] ->
  spec_init is_empty root rules ge = XOk s ->
  sx_nth (run_spec a) 6 = L (map enc_fkey (R1 (sp_rules s))) /\
  sx_nth (run_spec a) 7 = L (map enc_fkey (R0 d0 (sp_rules s))) /\
  sx_nth (run_spec a) 9 = L [of_bool (pumpsb (R1 (sp_rules s)) root); of_bool (pumpsb (R0 d0 (sp_rules s)) root)] /\
  sx_nth (run_spec a) 10 =
    L (map (fun k => L [of_nat (parent k); of_bool (pumpsb (R1 (sp_rules s)) (parent k))]) (R1 (sp_rules s))) /\
  sx_nth (run_spec a) 11 =
    L (map (fun k => L [of_nat (parent k); of_bool (pumpsb (R0 d0 (sp_rules s)) (parent k))]) (R0 d0 (sp_rules s))).
Proof.
  intros root ge is_empty rules d0 Hne Hi. unfold run_spec.
  destruct (sx_list a) as [|x l] eqn:El; [contradiction|].
  fold root ge rules. fold is_empty. rewrite Hi.
  repeat split; try reflexivity.
  - cbn [sx_nth sx_list nth]. rewrite verdicts_classes, map_map. reflexivity.
  - cbn [sx_nth sx_list nth]. rewrite verdicts_classes, map_map. reflexivity.
Qed.
