(* Composition C04 -> C02: SpecificationRuleExtractor._find_rule is total on the default RuleDB a SEARCH built.
   C02_find_rule_total (Spec/FindRuleProofs.v dict_find_rule_total) assumes an abstract history add_hist T a, a
   truthful emptiness cache and "the strategies in the equivalence store can be equivalences"; here all three are
   discharged for the state of ANY run of the searcher model on a pruning database (RuleDB/SearchHist.v
   search_gives_add_hist), the last one from a condition on the TABLE (a strategy with a two-way entry can be an
   equivalence). *)
From Coq Require Import ZArith List Bool Lia.
From CSS Require Import Base.PyList ClassDB.Model ClassDB.Proofs Searcher.Model Searcher.Inv Searcher.Contracts
  RuleDB.Model RuleDB.StoreProofs RuleDB.CdbFacts RuleDB.GetProofs RuleDB.AddProofs RuleDB.AddHist RuleDB.SearchHist
  Spec.FindRule Spec.FindRuleProofs.
Import ListNotations.
Open Scope Z_scope.

Lemma d_keys_get k (s : dstore) : In k (d_keys s) -> exists v, d_get k s = Some v.
Proof.
  unfold d_keys. induction s as [|[k' v'] t IH]; simpl; [intros []|].
  destruct (keqb k k') eqn:E; [eauto|]. intros [->|H]; [|auto].
  assert (keqb k k = true) as E' by (apply keqb_spec; reflexivity). congruence.
Qed.

Lemma eqs_of_edge tw x y tr : In (EvEdge tw x y) tr -> In (EqEdge tw x y) (eqs_of tr).
Proof.
  induction tr as [|e t IH]; simpl; [intros []|].
  intros [->|H]; [left; reflexivity|]. destruct e; simpl; auto.
Qed.

Theorem search_find_rule_total : forall (T : table) (cap : Z -> bool) (pack : list Z),
  sym_unary T -> (forall sid0 c0 r, In r (rules_from_strategy T sid0 c0) -> twoway_faithful T r) ->
  pe_contract T pack -> sym_contract T ->
  (forall sid c e, entry_of T sid c = Some e -> e_two_way e = true -> cap sid = true) ->
  (forall sid c e, entry_of T sid c = Some e -> e_two_way e = true -> e_reversible e = true) ->
  forall F dl ev ans start ps, packets_in pack ps ->
  let s := run_search T 0 F dl ev ans start ps in
  let d := cdb s in
  exists a, add_hist T a /\ b_cdb dstore a = d /\ d_keys (b_r dstore a) = rstore s /\ d_keys (b_e dstore a) = estore s /\
  let fr := find_rule T cap (dict_lookup (b_r dstore a)) (dict_lookup (b_e dstore a)) d in
  (forall p cs, In (p, cs) (rstore s) ->
     exists f, fr p cs = (d, inl f) /\ form_key T d f = Some (p, cs)) /\
  (forall tw x y, In (EvEdge tw x y) (trace s) ->
     ((forall C, label_of Z.eqb (fun c : Z => c) d C = Some y -> oracle T C = false) ->
      exists f, fr x [y] = (d, inl f) /\ form_key T d f = Some (x, [y])) /\
     (tw = true -> (forall C, label_of Z.eqb (fun c : Z => c) d C = Some x -> oracle T C = false) ->
      exists f', fr y [x] = (d, inl f') /\ form_key T d f' = Some (y, [x]))) /\
  (forall p cs, In (p, cs) (estore s) ->
     exists c, cs = [c] /\
     ((forall C, label_of Z.eqb (fun c : Z => c) d C = Some c -> oracle T C = false) ->
      exists f, fr p [c] = (d, inl f) /\ form_key T d f = Some (p, [c])) /\
     ((forall C, label_of Z.eqb (fun c : Z => c) d C = Some p -> oracle T C = false) ->
      exists f', fr c [p] = (d, inl f') /\ form_key T d f' = Some (c, [p]))).
Proof.
  intros T cap pack Hu Hf Hp Hs Hcap Hrev F dl ev ans start ps Hps s d.
  destruct (search_gives_add_hist T 0 pack Hu Hf Hp Hs F dl ev ans start ps Hps eq_refl)
    as (a & l & A & B & Dr & De & _ & Deq & E).
  fold s in B, Dr, De, Deq, E. fold d in B, E.
  pose proof (add_hist_l_hist T l a A) as Ha.
  pose proof (add_hist_inv T a Ha) as (W & _ & Heq & _).
  exists a. split; [exact Ha|]. split; [exact B|]. split; [exact Dr|]. split; [exact De|].
  assert (forall c l0, label_of Z.eqb (fun c : Z => c) (b_cdb dstore a) c = Some l0 -> empv T (b_cdb dstore a) c = oracle T c) as Htruth.
  { intros c l0 H. apply (empv_truthful T (b_cdb dstore a) c l0 W); [rewrite B; exact E|exact H]. }
  assert (forall k sid, d_get k (b_e dstore a) = Some sid -> cap sid = true) as Hcap'.
  { intros k sid H. destruct (Heq k sid H) as (P & e0 & _ & _ & Htw).
    unfold r_two_way in Htw. rewrite rule_of_sid, rule_of_parent in Htw.
    destruct (r_kind (rule_of T sid P)); try discriminate.
    destruct (entry_of T sid P) as [e|] eqn:Ee; [|discriminate]. apply (Hcap sid P e Ee Htw). }
  destruct (dict_find_rule_total T cap a Ha Htruth Hcap' Hrev) as (R1 & R2 & R3). rewrite B in R1, R2, R3.
  cbv zeta. split; [|split].
  - intros p cs Hin. rewrite <- Dr in Hin. destruct (d_keys_get _ _ Hin) as (sid & Hg). apply (R1 p cs sid Hg).
  - intros tw x y Hin. apply (R2 tw x y). rewrite <- Deq. apply eqs_of_edge. exact Hin.
  - intros p cs Hin. rewrite <- De in Hin. destruct (d_keys_get _ _ Hin) as (sid & Hg). apply (R3 p cs sid Hg).
Qed.
