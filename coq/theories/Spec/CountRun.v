(* C01: evaluating a whole specification with the constructor models of C09.

   A specification is sent as one descriptor per class (label = index):
     (form idx pnames kids origparent origkids deps table steps last)
       form 0 union rule, 1 product rule, 2 reverse of a union w.r.t. idx (Complement),
            3 reverse of a product (Quotient), 4 equivalence rule of a union,
            5 equivalence rule of the reverse of a union, 6 equivalence path, 7 verified
            (table = its terms by size, e.g. an atom), 8 no rule (a class that never
            gets terms: reported as missing)
       pnames/kids describe the ORIGINAL decomposition rule (as in C09), origparent and
       origkids are the labels of its parent and children in this specification
       deps = ((label shift) ...) the children of the specification's rule with the
              shifts it DECLARES (rule.shifts())
       steps/last: for an equivalence path, its steps and the label of its last class.
   Evaluation is bottom-up and driven by the declared shifts only: level n of a
   class is computed as soon as every child has its levels up to n - shift (and
   the class its own levels below n) — the order in which the table method of
   C03 certifies the terms to be computable.  By C10 (reads <= n - shift) the
   constructor then reads only levels that exist; by C01_unique_solution the
   result is the one the recursive evaluation of the code computes.
   output: ((level tables ...) ...) per class, as far as N, and a status per class
           (0 complete, 1 stuck = the declared shifts never made a level available,
            2 the constructor raised the given error). *)
From Coq Require Import ZArith List Bool.
From CSS Require Import Base.Sx Gen.Prelude Count.Terms Count.Constructors Count.ConstructorsRun.
Import ListNotations.
Open Scope Z_scope.

Record cdesc := mkC {
  c_form : Z; c_idx : nat; c_pnames : list Z; c_kids : list kid;
  c_op : nat; c_ok : list nat;            (* labels of the original rule's parent / children *)
  c_deps : list (nat * Z);
  c_table : list terms;
  c_steps : list step_desc; c_last : nat
}.

Definition dec_cdesc (s : sx) : cdesc :=
  mkC (sx_Z (sx_nth s 0)) (sx_nat (sx_nth s 1)) (sx_Zs (sx_nth s 2)) (dec_kids (sx_nth s 3))
      (sx_nat (sx_nth s 4)) (sx_nats (sx_nth s 5))
      (map (fun p => (sx_nat (sx_nth p 0), sx_Z (sx_nth p 1))) (sx_list (sx_nth s 6)))
      (dec_tables (sx_nth s 7))
      (map dec_step (sx_list (sx_nth s 8))) (sx_nat (sx_nth s 9)).

Definition tabs_of (st : list (list terms)) (l : nat) : list terms := nth l st [].

(* the step function of class c given the levels computed so far *)
Definition step_of (d : cdesc) (st : list (list terms)) : (Z -> terms) -> Z -> res terms :=
  let ktabs := map (tabs_of st) (c_ok d) in
  let ptabs := tabs_of st (c_op d) in
  match c_form d with
  | 0 => union_step (c_pnames d) (c_kids d) ktabs
  | 1 => product_step (c_pnames d) (c_kids d) ktabs
  | 2 => complement_step (c_pnames d) (c_kids d) (c_idx d) ptabs ktabs
  | 3 => quotient_step (c_pnames d) (c_kids d) (c_idx d) ptabs ktabs
  | 4 => equiv_union_step (c_pnames d) (c_kids d) ktabs
  | 5 => equiv_complement_step (c_pnames d) (c_kids d) (c_idx d) ptabs
  | 6 => path_step (c_steps d) (tabs_of st (c_last d))
  | 7 => fun _ n => Ok (tab_at (c_table d) n)
  | _ => fun _ _ => Err 9
  end.

Definition zlen {A} (l : list A) : Z := Z.of_nat (length l).

(* are the levels the declared shifts promise available? *)
Definition ready (d : cdesc) (st : list (list terms)) (n : Z) : bool :=
  forallb (fun ds => let '(l, s) := ds in (n - s <? zlen (tabs_of st l))) (c_deps d).

Fixpoint set_nth {A} (l : list A) (n : nat) (v : A) : list A :=
  match l, n with
  | [], _ => []
  | _ :: t, O => v :: t
  | h :: t, S n' => h :: set_nth t n' v
  end.

(* one round: every class that can, gets its next level *)
Fixpoint round_from (ds : list cdesc) (c : nat) (N : Z) (st : list (list terms)) (errs : list Z)
  : list (list terms) * list Z :=
  match ds with
  | [] => (st, errs)
  | d :: rest =>
      let own := tabs_of st c in
      let n := zlen own in
      if (n <=? N) && Z.eqb (nth c errs 0) 0 && ready d st n then
        match step_of d st (fun m => tab_at own m) n with
        | Ok t => round_from rest (S c) N (set_nth st c (own ++ [t])) errs
        | Err e => round_from rest (S c) N st (set_nth errs c (if e =? 0 then 99 else e))
        end
      else round_from rest (S c) N st errs
  end.

Fixpoint rounds (fuel : nat) (ds : list cdesc) (N : Z) (st : list (list terms)) (errs : list Z)
  : list (list terms) * list Z :=
  match fuel with
  | O => (st, errs)
  | S f => let '(st', errs') := round_from ds O N st errs in rounds f ds N st' errs'
  end.

Definition run_c01 (inp : sx) : sx :=
  let N := sx_Z (sx_nth inp 0) in          (* levels reported *)
  let Nc := sx_Z (sx_nth inp 1) in         (* levels computed: rules with negative shifts read beyond N *)
  let ds := map dec_cdesc (sx_list (sx_nth inp 2)) in
  let k := length ds in
  let '(st, errs) := rounds (S (k * Z.to_nat (Nc + 2))) ds Nc (repeat [] k) (repeat 0 k) in
  L [ L (map (fun lv => L (map enc_table (firstn (Z.to_nat (N + 1)) lv))) st);
      L (map (fun p => let '(lv, e) := p in
                       if N <? zlen lv then L [I 0; I 0]
                       else if negb (e =? 0) then L [I 2; I e]
                       else L [I 1; I 0])
             (combine st errs)) ].
