(* C01: run_c01 + the verdicts of the deciders of Spec/Deciders.v on the very descriptor list of the case.

   input  = run_c01's input [N; Nc; descriptors] with ONE more field (compatible: absent = no statistics anywhere):
              [npar of class 0; npar of class 1; ...]   the number of extra_parameters of every class
   output = run_c01's two fields (run_c01d_extends) followed by
              [deps_shapeb d ...]                              one bit per descriptor
              [contract_shapeb npar vpos kpos Nc c d ...]      one bit per class, for the flag candidate flags_of
              [vpos bits] [kpos bits]                          the candidate itself (informational)
   run_c01d_correct: when every printed bit of the two verdict fields is 1, the hypotheses deps_shape and the
   decidable part of rule_contract of C01_run_correct hold for THIS input, so that only the semantic part
   (contract_sem: the true tables satisfy the constructors' identities — what the oracle checks against brute
   force) is left as a hypothesis. *)
From Coq Require Import ZArith List Bool Lia.
From CSS Require Import Spec.Eval Spec.CountRun.
From CSS Require Import Base.Sx Gen.Prelude Count.Terms Count.Constructors Count.ConstructorsRun Count.TermsPolyOrder
  Spec.TermsCanon Spec.Adapter Spec.AdapterLocal Spec.AdapterSound Spec.RoundsProofs Spec.Deciders.
Import ListNotations.
Open Scope Z_scope.

Definition npar_of (inp : sx) : nat -> nat := fun c => nth c (sx_nats (sx_nth inp 3)) O.
Definition vpos_of (inp : sx) : nat -> bool :=
  flag_at (fst (flags_of (sx_Z (sx_nth inp 1)) (map dec_cdesc (sx_list (sx_nth inp 2))))).
Definition kpos_of (inp : sx) : nat -> bool :=
  flag_at (snd (flags_of (sx_Z (sx_nth inp 1)) (map dec_cdesc (sx_list (sx_nth inp 2))))).

Definition deps_bits (inp : sx) : list sx :=
  map (fun d => of_bool (deps_shapeb d)) (map dec_cdesc (sx_list (sx_nth inp 2))).

Definition shape_bits (inp : sx) : list sx :=
  let ds := map dec_cdesc (sx_list (sx_nth inp 2)) in
  map (fun cd : nat * cdesc =>
         of_bool (contract_shapeb (npar_of inp) (vpos_of inp) (kpos_of inp) (sx_Z (sx_nth inp 1)) (fst cd) (snd cd)))
      (combine (seq 0 (length ds)) ds).

Definition run_c01d (inp : sx) : sx :=
  let ds := map dec_cdesc (sx_list (sx_nth inp 2)) in
  let fl := flags_of (sx_Z (sx_nth inp 1)) ds in
  L (sx_list (run_c01 inp) ++
     [ L (deps_bits inp); L (shape_bits inp);
       L (map of_bool (fst fl)); L (map of_bool (snd fl)) ]).

(* compatible extension: the first two fields are run_c01's *)
Theorem run_c01d_extends inp :
  sx_nth (run_c01d inp) 0 = sx_nth (run_c01 inp) 0 /\ sx_nth (run_c01d inp) 1 = sx_nth (run_c01 inp) 1 /\
  sx_nth (run_c01d inp) 2 = L (deps_bits inp) /\ sx_nth (run_c01d inp) 3 = L (shape_bits inp).
Proof.
  unfold run_c01d. rewrite (run_c01_unfold inp). cbv zeta. unfold sx_nth. cbn [sx_list app nth]. auto.
Qed.

Lemma bits_all_one {A} (f : A -> bool) (l : list A) :
  (forall b, In b (map (fun x => of_bool (f x)) l) -> b = I 1) -> forallb f l = true.
Proof.
  intros H. apply forallb_forall. intros x Hx.
  specialize (H (of_bool (f x)) (in_map (fun x => of_bool (f x)) l x Hx)).
  destruct (f x); [reflexivity|discriminate H].
Qed.

(* the wire-level statement with the decidable hypotheses replaced by the printed verdicts *)
Theorem run_c01d_correct (inp : sx) (T : nat -> Z -> terms) :
  let ds := map dec_cdesc (sx_list (sx_nth inp 2)) in
  T_ok T (npar_of inp) -> (forall l m, canon (T l m)) ->
  (forall b, In b (sx_list (sx_nth (run_c01d inp) 2)) -> b = I 1) ->
  (forall b, In b (sx_list (sx_nth (run_c01d inp) 3)) -> b = I 1) ->
  (forall c d, nth_error ds c = Some d -> contract_sem (sx_Z (sx_nth inp 1)) T c d) ->
  0 <= sx_Z (sx_nth inp 0) ->
  forall c, sx_nth (sx_nth (run_c01d inp) 1) c = L [I 0; I 0] ->
  sx_nth (sx_nth (run_c01d inp) 0) c =
  L (map (fun n => enc_table (T c (Z.of_nat n))) (seq 0 (Z.to_nat (sx_Z (sx_nth inp 0) + 1)))).
Proof.
  intros ds HT Hcanon Hd Hs Hsem HN c.
  destruct (run_c01d_extends inp) as (E0 & E1 & E2 & E3). rewrite E0, E1. rewrite E2 in Hd. rewrite E3 in Hs.
  cbn [sx_list] in Hd, Hs.
  apply (run_c01_correct inp T (npar_of inp) (vpos_of inp) (kpos_of inp) HT Hcanon).
  - apply all_deps_shapeb_sound. unfold all_deps_shapeb. apply bits_all_one. exact Hd.
  - apply (all_contract_shapeb_sound (npar_of inp) (vpos_of inp) (kpos_of inp) (sx_Z (sx_nth inp 1)) T); [|exact Hsem].
    unfold all_contract_shapeb. apply (bits_all_one _ _ Hs).
  - exact HN.
Qed.
