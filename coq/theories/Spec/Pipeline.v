(* The forest pipeline end to end: C03 + C11 + C10 + C09 + C01 chained.

   RuleDBForest inserts the forest keys `ks` of the rules the searcher found into the
   table method (C03's model `run`).  When the table method reports that the start
   class pumps, ForestRuleExtractor (C11's model `extract`) minimises the pumping
   sub-universe to the keys `res`, `_find_rule` turns every key back into a rule with
   that key, and CombinatorialSpecification evaluates those rules recursively (C01's
   model `eval`).

   The theorem below has NO productivity hypothesis left: "the start class pumps w.r.t.
   the extracted rules" is discharged by C03 (the table method's answer means pumping
   in the least fixed point) and C11 (minimisation keeps the start class pumping).
   What remains are the two per-rule contracts (genuine: C09, local: C10) and the fact
   that each extracted key has a rule with that key (the `_find_rule` contract, checked
   on every real search by the C11 correspondence). *)
From Coq Require Import ZArith List Bool Lia.
From CSS Require Import Forest.Spec Forest.Model Forest.Theorems Forest.Extractor
  Forest.ExtractorRun Forest.ExtractorTheorems Spec.Eval.
Import ListNotations.
Open Scope Z_scope.

Section Pipeline.
Variable terms : Type.
Variable dflt : terms.
Variable T : nat -> Z -> terms.                       (* the true enumeration *)
Variable spec : nat -> option (srule terms).          (* the returned specification *)

Variables (pick : list nat -> nat) (fuel fuelx : nat) (root : nat).
Variables (ks res : list bkey) (st : tm).

(* the table method ran on the inserted keys and reports the start class as pumping *)
Hypothesis Hrun : run pick fuel init (add_ops ks) = Some st.
Hypothesis Hanswer : pumping_answer st root = true.
(* the extractor ran on the same keys *)
Hypothesis Hbuckets : forall k, In k ks -> (bk_bucket k < 4)%nat.
Hypothesis Hextract : extract fuelx root ks = Ok res.
(* every extracted key was turned back into a rule with that key *)
Hypothesis Hfound : forall k, In k res ->
  exists r, spec (parent (bk_key k)) = Some r /\ kids (bk_key k) = r_kids terms r.
(* contracts *)
Hypothesis T_neg : forall c m, m < 0 -> T c m = dflt.
Hypothesis op_neg : forall r p o n, n < 0 -> r_op terms r p o n = dflt.
Hypothesis all_local : forall c r, spec c = Some r -> local terms r.
Hypothesis all_genuine : forall c r, spec c = Some r -> genuine terms T c r.

Lemma root_pumps_in_universe : Pk root ks.
Proof.
  unfold Pk. rewrite <- keys_of_add_ops.
  apply (proj1 (sound_complete pick fuel (add_ops ks) st Hrun root)). exact Hanswer.
Qed.

Lemma root_pumps_in_extracted : pumps (map bk_key res) root.
Proof.
  apply (extract_productive fuelx root ks res Hbuckets Hextract). exact root_pumps_in_universe.
Qed.

Lemma keys_have_rules : forall k, In k (map bk_key res) ->
  exists r, spec (parent k) = Some r /\ kids k = r_kids terms r.
Proof.
  intros k Hk. apply in_map_iff in Hk. destruct Hk as (b & <- & Hb). apply Hfound; auto.
Qed.

Theorem forest_pipeline_correct : forall n, 0 <= n ->
  exists f0, forall f, (f0 <= f)%nat -> eval terms dflt spec f root n = T root n.
Proof.
  intros n Hn.
  apply (eval_correct terms dflt spec T T_neg op_neg all_local all_genuine).
  apply (pumps_ev terms spec (map bk_key res) keys_have_rules root root_pumps_in_extracted n Hn).
Qed.

(* and the specification has no other solution at the start class *)
Theorem forest_pipeline_unique (U : nat -> Z -> terms) :
  (forall c m, m < 0 -> U c m = dflt) ->
  (forall c r n, spec c = Some r -> 0 <= n ->
     r_op terms r (fun i m => U (kid terms r i) m) (U c) n = U c n) ->
  forall n, 0 <= n -> U root n = T root n.
Proof.
  intros Un Us n Hn.
  apply (unique_solution terms dflt spec T T_neg all_local all_genuine U Un Us).
  apply (pumps_ev terms spec (map bk_key res) keys_have_rules root root_pumps_in_extracted n Hn).
Qed.

End Pipeline.
