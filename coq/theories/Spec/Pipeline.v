(* The forest pipeline end to end: C03 + C11 + C10 + C09 + C01 chained.

   RuleDBForest inserts the forest keys `ks` of the rules the searcher found into the
   table method (C03's model `run`).  When the table method reports that the start
   class pumps, ForestRuleExtractor (C11's model `extract`) minimises the pumping
   sub-universe to the keys `res`, `_find_rule` turns every key back into a rule with
   that key, and CombinatorialSpecification evaluates those rules recursively (C01's
   model `eval`).

   The theorem below has NO productivity hypothesis left: "the start class pumps w.r.t.
   the extracted rules" is discharged by C03 (the table method's answer means pumping
   in the least fixed point) and C11 (minimisation keeps the start class pumping).
   What remains are the two per-rule hypotheses genuine and local (for rules of the library's
   constructors both are theorems: Spec/AdapterLocal.v srule_of_local, Spec/AdapterGenuine.v
   srule_ofN_genuine, under the per-form contract about the true tables; the pipeline theorem with
   NO genuine/local hypothesis left for such specifications is Spec/PipelineConstructors.v
   forest_pipeline_constructors) and Hfound, in the form rules() really guarantees (Spec/EvalDrop.v):
   every extracted key k has a rule r in the specification whose declared children-with-shifts are
   the key's children MINUS children that are empty classes (`drops`): rules() hands out the
   equivalence form rule.to_equivalence_rule() of a union whose other children are empty, and leaves
   the rule of an empty class to be added lazily.  (The first version asked for kids k = r_kids r,
   which is false on 11.7 % of the forest searches of C01's generator - replayed; the form below holds
   on all of them.)  Only incl (r_kids r) (kids k) is used by the proof; that the dropped children do
   not matter for the VALUE the rule computes is the contract drop_form of Spec/EvalDrop.v
   (forest_pipeline_total_original below: genuine and local are assumed of the ORIGINAL rules, the ones
   whose keys were extracted, only).  The object handed to the user is built with group_equiv=True:
   its keys R1 are related to the ungrouped ones by C02_grouping_preserves_productivity /
   C02_object_root_pumps_decided. *)
From Coq Require Import ZArith List Bool Lia.
From CSS Require Import Forest.Spec Forest.Model Forest.Theorems Forest.Extractor
  Forest.ExtractorRun Forest.ExtractorTheorems Spec.Eval Spec.EvalDrop.
Import ListNotations.
Open Scope Z_scope.

Section Pipeline.
Variable terms : Type.
Variable dflt : terms.
Variable T : nat -> Z -> terms.                       (* the true enumeration *)
Variable spec : nat -> option (srule terms).          (* the returned specification *)

Variables (pick : list nat -> nat) (fuel fuelx : nat) (root : nat).
Variables (ks res : list bkey) (st : tm).

(* the table method ran on the inserted keys and reports the start class as pumping *)
Hypothesis Hrun : run pick fuel init (add_ops ks) = Some st.
Hypothesis Hanswer : pumping_answer st root = true.
(* the extractor ran on the same keys *)
Hypothesis Hbuckets : forall k, In k ks -> (bk_bucket k < 4)%nat.
Hypothesis Hextract : extract fuelx root ks = Ok res.
(* every extracted key was turned back into a rule whose children are the key's children minus
   children that are empty classes (what rules() guarantees; Spec/EvalDrop.v) *)
Hypothesis Hfound : forall k, In k res ->
  exists r, spec (parent (bk_key k)) = Some r /\
            drops (empty_class T dflt) (r_kids terms r) (kids (bk_key k)).
(* contracts *)
Hypothesis T_neg : forall c m, m < 0 -> T c m = dflt.
Hypothesis op_neg : forall c r, spec c = Some r -> forall p o n, n < 0 -> r_op terms r p o n = dflt.
Hypothesis all_local : forall c r, spec c = Some r -> local terms r.
Hypothesis all_genuine : forall c r, spec c = Some r -> genuine terms T c r.

Lemma root_pumps_in_universe : Pk root ks.
Proof.
  unfold Pk. rewrite <- keys_of_add_ops.
  apply (proj1 (sound_complete pick fuel (add_ops ks) st Hrun root)). exact Hanswer.
Qed.

Lemma root_pumps_in_extracted : pumps (map bk_key res) root.
Proof.
  apply (extract_productive fuelx root ks res Hbuckets Hextract). exact root_pumps_in_universe.
Qed.

Lemma keys_have_rules : forall k, In k (map bk_key res) ->
  exists r, spec (parent k) = Some r /\ incl (r_kids terms r) (kids k).
Proof.
  intros k Hk. apply in_map_iff in Hk. destruct Hk as (b & <- & Hb).
  destruct (Hfound b Hb) as (r & Hr & Hd). exists r. split; [exact Hr|].
  exact (drops_incl _ _ _ Hd).
Qed.

Theorem forest_pipeline_correct : forall n, 0 <= n ->
  exists f0, forall f, (f0 <= f)%nat -> eval terms dflt spec f root n = T root n.
Proof.
  intros n Hn.
  apply (eval_correct terms dflt spec T T_neg op_neg all_local all_genuine).
  apply (pumps_ev_sub terms spec (map bk_key res) keys_have_rules root root_pumps_in_extracted n Hn).
Qed.

(* and the specification has no other solution at the start class *)
Theorem forest_pipeline_unique (U : nat -> Z -> terms) :
  (forall c m, m < 0 -> U c m = dflt) ->
  (forall c r n, spec c = Some r -> 0 <= n ->
     r_op terms r (fun i m => U (kid terms r i) m) (U c) n = U c n) ->
  forall n, 0 <= n -> U root n = T root n.
Proof.
  intros Un Us n Hn.
  apply (unique_solution terms dflt spec T T_neg all_local all_genuine U Un Us).
  apply (pumps_ev_sub terms spec (map bk_key res) keys_have_rules root root_pumps_in_extracted n Hn).
Qed.

End Pipeline.

(* With termination of the table method (C03) and totality of the extractor (C11) the two
   "the run returned" hypotheses disappear: for EVERY list of inserted keys, if the total run of
   the table method reports the start class as pumping, the extractor DOES return a rule set, it
   has one rule per class, and any specification that gives each extracted key a genuine, local
   rule with that key evaluates to the true counts of the start class. *)
From CSS Require Import Forest.TerminationDefs Forest.TerminationRun Forest.ExtractorTermination
  Forest.Positional Forest.PositionalExtractor Forest.PositionalTotal.

Section PipelineTotal.
Variable terms : Type.
Variable dflt : terms.
Variable T : nat -> Z -> terms.
Variables (pick : list nat -> nat) (fuelx : nat) (root : nat) (ks : list bkey).
Hypothesis Hbuckets : forall k, In k ks -> (bk_bucket k < 4)%nat.
Hypothesis Hanswer : pumping_answer (run_total pick (add_ops ks)) root = true.
Hypothesis T_neg : forall c m, m < 0 -> T c m = dflt.

Theorem forest_pipeline_total :
  exists res, extract fuelx root ks = Ok res /\
    (forall i j, (i < length res)%nat -> (j < length res)%nat ->
       parent (bk_key (nth i res (mkb dummy 0))) = parent (bk_key (nth j res (mkb dummy 0))) -> i = j) /\
    forall spec : nat -> option (srule terms),
      (forall k, In k res ->
         exists r, spec (parent (bk_key k)) = Some r /\
                   drops (empty_class T dflt) (r_kids terms r) (kids (bk_key k))) ->
      (forall c r, spec c = Some r -> forall p o n, n < 0 -> r_op terms r p o n = dflt) ->
      (forall c r, spec c = Some r -> local terms r) ->
      (forall c r, spec c = Some r -> genuine terms T c r) ->
      forall n, 0 <= n ->
      exists f0, forall f, (f0 <= f)%nat -> eval terms dflt spec f root n = T root n.
Proof.
  assert (Pk root ks) as HP.
  { unfold Pk. rewrite <- keys_of_add_ops.
    apply (proj1 (total_sound_complete pick (add_ops ks) root)). exact Hanswer. }
  destruct (extract_total fuelx root ks Hbuckets HP) as [res Hres].
  exists res. split; [exact Hres|]. split.
  - exact (extract_one_rule_per_class_total fuelx root ks res Hbuckets Hres HP).
  - intros spec Hfound Hop Hloc Hgen n Hn.
    exact (forest_pipeline_correct terms dflt T spec pick (fuel_bound (add_ops ks)) fuelx root ks res
             (run_total pick (add_ops ks)) (run_total_spec pick (add_ops ks)) Hanswer Hbuckets Hres
             Hfound T_neg Hop Hloc Hgen n Hn).
Qed.

(* The same with genuine / local / default-at-negative-sizes assumed of the ORIGINAL rules only - for
   every extracted key k the rule `orig k` with exactly the key's children - while the specification
   holds, for k, a drop form of `orig k` (Spec/EvalDrop.v: the operator of the rule handed out is the
   original operator fed with the table of an empty class at the dropped positions, and the dropped
   children are empty classes).  The dropped children are thus shown irrelevant. *)
Theorem forest_pipeline_total_original :
  exists res, extract fuelx root ks = Ok res /\
    forall (spec : nat -> option (srule terms)) (orig : bkey -> srule terms) (sel : bkey -> nat -> option nat),
      (forall c r, spec c = Some r -> exists k, In k res /\ parent (bk_key k) = c) ->
      (forall k, In k res ->
         r_kids terms (orig k) = kids (bk_key k) /\
         (forall p o n, n < 0 -> r_op terms (orig k) p o n = dflt) /\
         local terms (orig k) /\ genuine terms T (parent (bk_key k)) (orig k) /\
         exists r, spec (parent (bk_key k)) = Some r /\
                   drops (empty_class T dflt) (r_kids terms r) (kids (bk_key k)) /\
                   drop_form terms dflt (orig k) r (sel k) /\ dropped_empty terms dflt T (orig k) (sel k)) ->
      forall n, 0 <= n ->
      exists f0, forall f, (f0 <= f)%nat -> eval terms dflt spec f root n = T root n.
Proof.
  destruct forest_pipeline_total as (res & Hres & Hdist & Hpipe).
  exists res. split; [exact Hres|]. intros spec orig sel Hdom Hk n Hn.
  (* the rule the specification holds for a class is THE drop form of the original rule of the one key
     with that parent *)
  assert (forall c r, spec c = Some r -> exists k, In k res /\ parent (bk_key k) = c /\
            drop_form terms dflt (orig k) r (sel k) /\ dropped_empty terms dflt T (orig k) (sel k)) as Hinv.
  { intros c r Hs. destruct (Hdom c r Hs) as (k & Hin & Hp). exists k. split; [exact Hin|]. split; [exact Hp|].
    destruct (Hk k Hin) as (_ & _ & _ & _ & r' & Hs' & _ & Hdf & Hde).
    rewrite Hp in Hs'. rewrite Hs in Hs'. injection Hs' as <-. split; assumption. }
  apply (Hpipe spec); [| | | |exact Hn].
  - intros k Hin. destruct (Hk k Hin) as (_ & _ & _ & _ & r & Hs & Hd & _). exists r. split; assumption.
  - intros c r Hs. destruct (Hinv c r Hs) as (k & Hin & _ & Hdf & _).
    destruct (Hk k Hin) as (_ & Hneg & _). exact (drop_form_neg terms dflt dflt _ _ _ Hdf Hneg).
  - intros c r Hs. destruct (Hinv c r Hs) as (k & Hin & _ & Hdf & _).
    destruct (Hk k Hin) as (_ & _ & Hloc & _). exact (drop_form_local terms dflt _ _ _ Hdf Hloc).
  - intros c r Hs. destruct (Hinv c r Hs) as (k & Hin & Hp & Hdf & Hde).
    destruct (Hk k Hin) as (_ & _ & Hloc & Hgen & _). rewrite <- Hp.
    exact (drop_form_genuine terms dflt T _ _ _ _ Hdf Hde Hloc Hgen).
Qed.
End PipelineTotal.
