(* Executable model of CombinatorialSpecification.__init__ (specification.py):
     rules_dict = {rule.comb_class: rule for rule in rules}
     _group_equiv_in_path  (with _ungroup_equiv_path, the explicit stack, `visited`,
                            `not_hidden_classes`, `path_rules`, the asserts, and the
                            asserts of EquivalencePathRule.__init__ it reaches)
     _is_valid_spec, get_rule (lazy empty rules), _set_subrules, _enforce_labels.

   Classes are natural numbers (labels given by the harness).  A rule is what the
   constructor looks at: its class, its children, is_equivalence(), the declared
   shifts (only used by the productivity statement) and a tag standing for the
   identity of the Python object.  An EquivalencePathRule is the non-empty list
   of its member rules (two levels: paths of paths are not modelled; the library
   never builds them).  `is_empty` is the classes' own is_empty().

   Python as it is: a dict keeps insertion order and `d[k] = v` on an existing
   key keeps its position (dset, shared with the C18 model Json/Model.v, whose
   get_rule / set_subrules are the same code over a richer rule type);
   `list.pop()` takes the LAST element and `extend` appends, so the stack is
   kept with its top (= Python's last element) at the head; sets are lists used
   through membership only; the while loop runs on explicit fuel (XFuel = the
   loop did not finish: with enough fuel this is Python's non-termination).
   No proofs in this file. *)
From Coq Require Import ZArith List Bool.
From CSS Require Json.Model.
Import ListNotations.

Record brule := mkB {
  b_cls : nat;            (* rule.comb_class *)
  b_ch : list nat;        (* rule.children *)
  b_eqv : bool;           (* rule.is_equivalence() *)
  b_sh : list Z;          (* rule.shifts() *)
  b_tag : Z               (* identity of the rule object; -1 = lazily added empty rule *)
}.

(* a rule handed to / kept by the constructor *)
Inductive grule :=
| GB (r : brule)                          (* any rule that is not an EquivalencePathRule *)
| GP (r0 : brule) (rs : list brule).      (* EquivalencePathRule(rules = r0 :: rs) *)

Definition members (g : grule) : list brule :=
  match g with GB _ => [] | GP r0 rs => r0 :: rs end.
(* EquivalencePathRule: comb_class = rules[0].comb_class, children = rules[-1].children *)
Definition g_cls (g : grule) : nat :=
  match g with GB r => b_cls r | GP r0 _ => b_cls r0 end.
Definition g_ch (g : grule) : list nat :=
  match g with GB r => b_ch r | GP r0 rs => b_ch (last rs r0) end.
Definition g_eqv (g : grule) : bool :=
  match g with GB r => b_eqv r | GP _ _ => true end.
Definition is_path (g : grule) : bool := match g with GB _ => false | GP _ _ => true end.

Inductive xerr :=
| XAssertChain     (* assert not path_rules or path_rules[-1].children[0] == rule.comb_class *)
| XAssertPathEqv   (* EquivalencePathRule.__init__: assert all(rule.is_equivalence() ...) *)
| XAssertPathUnary (* EquivalencePathRule.__init__: assert all(len(rule.children) == 1 ...) *)
| XAssertEmpty     (* get_rule: assert comb_class.is_empty() *)
| XAssertValid     (* assert self._is_valid_spec() *)
| XKey             (* KeyError: self.rules_dict[class_to_process] in _enforce_labels *)
| XIndex.          (* IndexError: children[0] of a rule without children *)
Inductive xres (A : Type) : Type :=
| XOk (a : A)
| XErr (e : xerr)
| XFuel.
Arguments XOk {A} a.
Arguments XErr {A} e.
Arguments XFuel {A}.

Definition xbind {A B} (x : xres A) (f : A -> xres B) : xres B :=
  match x with XOk a => f a | XErr e => XErr e | XFuel => XFuel end.
Notation "x <-- a ;; b" := (xbind a (fun x => b)) (at level 61, a at next level, right associativity).

Definition dict := list (nat * grule).
Definition dget (k : nat) (d : dict) : option grule := Json.Model.dget Nat.eqb k d.
Definition dset (k : nat) (v : grule) (d : dict) : dict := Json.Model.dset Nat.eqb k v d.
Definition dmem (k : nat) (d : dict) : bool := Json.Model.dmem Nat.eqb k d.
Definition mem (x : nat) (l : list nat) : bool := existsb (Nat.eqb x) l.

(* rules_dict = {rule.comb_class: rule for rule in rules} *)
Definition rules_dict (rules : list grule) : dict :=
  fold_left (fun d g => dset (g_cls g) g d) rules [].

(* d.update(other) *)
Definition dupdate (d other : dict) : dict :=
  fold_left (fun a kv => dset (fst kv) (snd kv) a) other d.

Section Spec.
Variable is_empty : nat -> bool.          (* comb_class.is_empty() *)

Definition empty_rule (c : nat) : grule := GB (mkB c [] false [] (-1)).

(* get_rule: (rules_dict afterwards, the rule) *)
Definition get_rule (d : dict) (c : nat) : xres (dict * grule) :=
  match dget c d with
  | Some g => XOk (d, g)
  | None =>
      if is_empty c then XOk (d ++ [(c, empty_rule c)], empty_rule c)
      else XErr XAssertEmpty
  end.

(* _ungroup_equiv_path *)
Definition ungroup (d : dict) : dict :=
  let new_rules :=
    fold_left (fun acc kv => fold_left (fun a r => dset (b_cls r) (GB r) a) (members (snd kv)) acc) d [] in
  dupdate d new_rules.

(* not_hidden_classes *)
Definition not_hidden (root : nat) (d : dict) : list nat :=
  root :: flat_map (fun kv => if g_eqv (snd kv) then [] else g_cls (snd kv) :: g_ch (snd kv)) d.

(* EquivalencePathRule(path_rules) *)
Definition mk_path (rs : list brule) : xres grule :=
  if negb (forallb b_eqv rs) then XErr XAssertPathEqv
  else if negb (forallb (fun r => Nat.eqb (length (b_ch r)) 1) rs) then XErr XAssertPathUnary
  else match rs with
       | [] => XErr XIndex
       | r0 :: t => XOk (GP r0 t)
       end.

Record lstate := mkL {
  l_stack : list nat;          (* comb_class_stack, top first *)
  l_visited : list nat;
  l_path : list brule;         (* path_rules, LAST appended first *)
  l_eqv : dict;                (* eqv_path_rules *)
  l_dict : dict                (* self.rules_dict (get_rule may add empty rules) *)
}.

(* path_rules[-1].children[0] *)
Definition path_end (p : list brule) : xres (option nat) :=
  match p with
  | [] => XOk None
  | r :: _ => match b_ch r with c0 :: _ => XOk (Some c0) | [] => XErr XIndex end
  end.

(* `if path_rules and path_rules[-1].children[0] in not_hidden_classes:` ... *)
Definition close_path (nh : list nat) (s : lstate) : xres lstate :=
  e <-- path_end (l_path s) ;;
  match e with
  | Some c0 =>
      if mem c0 nh then
        p <-- mk_path (rev (l_path s)) ;;
        XOk (mkL (l_stack s) (l_visited s) [] (dset (g_cls p) p (l_eqv s)) (l_dict s))
      else XOk s
  | None => XOk s
  end.

(* one turn of `while comb_class_stack:`; None = the stack was empty *)
Definition loop_step (nh : list nat) (s : lstate) : xres (option lstate) :=
  match l_stack s with
  | [] => XOk None
  | _ :: _ =>
      s1 <-- close_path nh s ;;
      match l_stack s1 with
      | [] => XOk None      (* unreachable: close_path leaves the stack alone *)
      | c :: rest =>
          if mem c nh && mem c (l_visited s1) then
            XOk (Some (mkL rest (l_visited s1) (l_path s1) (l_eqv s1) (l_dict s1)))
          else
            dr <-- get_rule (l_dict s1) c ;;
            let '(d', g) := dr in
            let stack' := rev (g_ch g) ++ rest in        (* extend: the last child is popped first *)
            let vis' := c :: l_visited s1 in
            match g with
            | GB r =>
                if b_eqv r then
                  e <-- path_end (l_path s1) ;;
                  if match e with Some c0 => Nat.eqb c0 (b_cls r) | None => true end
                  then XOk (Some (mkL stack' vis' (r :: l_path s1) (l_eqv s1) d'))
                  else XErr XAssertChain
                else XOk (Some (mkL stack' vis' (l_path s1) (l_eqv s1) d'))
            | GP _ _ => XOk (Some (mkL stack' vis' (l_path s1) (l_eqv s1) d'))
            end
      end
  end.

Fixpoint loop (fuel : nat) (nh : list nat) (s : lstate) : xres lstate :=
  match fuel with
  | O => XFuel
  | S f =>
      o <-- loop_step nh s ;;
      match o with
      | None => XOk s
      | Some s' => loop f nh s'
      end
  end.

(* all classes named by the rules of d: rule.comb_class and rule.children *)
Definition comb_classes (d : dict) : list nat :=
  flat_map (fun kv => g_cls (snd kv) :: g_ch (snd kv)) d.

(* _is_valid_spec *)
Definition is_valid_spec (root : nat) (d : dict) : bool :=
  mem root (comb_classes d) && forallb (fun c => dmem c d || is_empty c) (comb_classes d).

(* the part of _group_equiv_in_path after _ungroup_equiv_path *)
Definition group_core (fuel : nat) (root : nat) (d : dict) : xres dict :=
  let nh := not_hidden root d in
  s <-- loop fuel nh (mkL [root] [] [] [] d) ;;
  let kept := filter (fun kv => mem (fst kv) nh) (l_dict s) in
  let d' := dupdate kept (l_eqv s) in
  if is_valid_spec root d' then XOk d' else XErr XAssertValid.

Definition group_equiv_in_path (fuel : nat) (root : nat) (d : dict) : xres dict :=
  group_core fuel root (ungroup d).

(* _set_subrules: for rule in list(self): rule.set_subrecs(self.get_rule) *)
Fixpoint get_rules (d : dict) (cs : list nat) : xres dict :=
  match cs with
  | [] => XOk d
  | c :: t => dr <-- get_rule d c ;; get_rules (fst dr) t
  end.
Fixpoint set_subrules_from (rs : list grule) (d : dict) : xres dict :=
  match rs with
  | [] => XOk d
  | g :: t => d' <-- get_rules d (g_ch g) ;; set_subrules_from t d'
  end.
Definition set_subrules (d : dict) : xres dict := set_subrules_from (map snd d) d.

(* _enforce_labels: the classes in the order in which get_label first sees them *)
Fixpoint enforce (fuel : nat) (d : dict) (todo done labels : list nat) : xres (list nat) :=
  match fuel with
  | O => XFuel
  | S f =>
      match todo with
      | [] => XOk labels
      | c :: rest =>
          let labels' := if mem c labels then labels else labels ++ [c] in
          let done' := c :: done in
          match dget c d with
          | None => XErr XKey
          | Some g =>
              (* todo.extend([child for child in children[::-1] if child not in done]) *)
              enforce f d (filter (fun x => negb (mem x done')) (g_ch g) ++ rest) done' labels'
          end
      end
  end.
Definition enforce_fuel (d : dict) : nat := S (S (length (comb_classes d))).
Definition enforce_labels (root : nat) (d : dict) : xres (list nat) :=
  enforce (enforce_fuel d) d [root] [] [].

(* fuel that suffices for the grouping loop whenever it terminates at all
   (Spec/GroupingProofs.v: loop_fuel_enough) *)
Definition group_fuel (root : nat) (d : dict) : nat :=
  let cc := S (length (comb_classes d)) in
  S (S (cc * (cc * S (S (length d))))).

(* CombinatorialSpecification(root, rules, group_equiv) *)
Record spec := mkSpec { sp_root : nat; sp_rules : dict; sp_labels : list nat }.

Definition spec_init (root : nat) (rules : list grule) (group_equiv : bool) : xres spec :=
  let d0 := rules_dict rules in
  d1 <-- (if group_equiv then group_equiv_in_path (group_fuel root (ungroup d0)) root d0 else XOk d0) ;;
  d2 <-- set_subrules d1 ;;
  ls <-- enforce_labels root d2 ;;
  XOk (mkSpec root d2 ls).

End Spec.
