(* Key lemmas of Spec/GroupingDesc.v and the composition C02 -> C01 they allow. *)
From Coq Require Import ZArith List Bool Lia.
From CSS Require Import Base.Sx Count.Terms Count.Constructors Count.ConstructorsRun Count.TermsPolyOrder Spec.CountRun
  Spec.Eval Spec.EvalDrop Spec.Adapter Spec.AdapterSound Spec.AdapterGenuine Spec.PipelineConstructors.
From CSS Require Import Forest.Spec Spec.Grouping Spec.GroupingWf Spec.GroupingFacts Spec.GroupingProdKeys
  Spec.GroupingProdLink Spec.GroupingProdObj Spec.GroupingPumps Spec.GroupingPumpsProofs Spec.GroupingDesc.
Import ListNotations.
Open Scope Z_scope.

Section Desc.
Variable info : Z -> cdesc.
Variable sinfo : Z -> step_desc.

Lemma desc_of_deps g : c_deps (desc_of info sinfo g) = Forest.Spec.kids (gkey g).
Proof. destruct g as [r|r0 rs]; reflexivity. Qed.

Lemma max_cls_ge (d : dict) c g : In (c, g) d -> (c <= max_cls d)%nat.
Proof.
  induction d as [|[c' g'] d IH]; intros Hin; [destruct Hin|].
  cbn [max_cls fold_right fst]. fold (max_cls d). destruct Hin as [E|Hin].
  - injection E as -> _. apply Nat.le_max_l.
  - specialize (IH Hin). lia.
Qed.

Lemma descs_of_nth (d : dict) c :
  (c <= max_cls d)%nat ->
  nth_error (descs_of info sinfo d) c =
  Some (match dget c d with Some g => desc_of info sinfo g | None => empty_desc end).
Proof.
  intros Hc. unfold descs_of.
  assert (nth_error (seq 0 (S (max_cls d))) c = Some c) as E.
  { rewrite (nth_error_nth' _ O) by (rewrite seq_length; lia). rewrite seq_nth by lia. reflexivity. }
  exact (map_nth_error _ c (seq 0 (S (max_cls d))) E).
Qed.

Lemma gkey_eta g : gkey g = mkkey (parent (gkey g)) (Forest.Spec.kids (gkey g)).
Proof. destruct (gkey g); reflexivity. Qed.

(* every key of R1 is the key DECLARED by the descriptor of its class *)
Theorem descs_declare_R1 (d : dict) :
  NoDup (map fst d) -> (forall c g, In (c, g) d -> parent (gkey g) = c) ->
  forall k, In k (R1 d) ->
  exists dd, nth_error (descs_of info sinfo d) (parent k) = Some dd /\ c_deps dd = Forest.Spec.kids k.
Proof.
  intros Hnd Hkeyed k Hk. unfold R1, keys_of in Hk. apply in_map_iff in Hk.
  destruct Hk as ([c g] & <- & Hin). cbn [snd].
  rewrite (Hkeyed c g Hin). exists (desc_of info sinfo g). split; [|apply desc_of_deps].
  rewrite (descs_of_nth d c (max_cls_ge d c g Hin)), (In_dget _ _ _ Hnd Hin). reflexivity.
Qed.

(* and the descriptors declare nothing else: a descriptor of the list is that of an entry of d, whose declared key
   is in R1, or the dependency-free filler of a number that is not a class of d *)
Theorem descs_only_R1 (d : dict) :
  (forall c g, In (c, g) d -> parent (gkey g) = c) ->
  forall c dd, nth_error (descs_of info sinfo d) c = Some dd ->
  (exists g, dget c d = Some g /\ dd = desc_of info sinfo g /\ In (mkkey c (c_deps dd)) (R1 d)) \/
  (dget c d = None /\ dd = empty_desc).
Proof.
  intros Hkeyed c dd Hn.
  assert (c <= max_cls d)%nat as Hc.
  { assert (c < length (descs_of info sinfo d))%nat as H by (apply nth_error_Some; congruence).
    unfold descs_of in H. rewrite map_length, seq_length in H. lia. }
  rewrite (descs_of_nth d c Hc) in Hn. injection Hn as <-.
  destruct (dget c d) as [g|] eqn:E; [left|right; auto].
  exists g. split; [reflexivity|]. split; [reflexivity|].
  pose proof (dget_In _ _ _ E) as Hin. rewrite desc_of_deps, <- (Hkeyed c g Hin), <- gkey_eta.
  unfold R1, keys_of. apply in_map_iff. exists (c, g). split; [reflexivity|exact Hin].
Qed.
End Desc.

(* ---------------------------------------------------------------- C02 -> C01
   The proved verdict of C02 on R1 of the finished object is the productivity hypothesis of
   C01_spec_correct_constructors for the descriptor list descs_of ... (sp_rules s): under the four bits run_spec
   prints and a positive verdict, and the per-descriptor contracts of C01, the abstract evaluator returns the true
   table of the root.
   PARTIAL (named so): what is missing for "the object C01's check evaluates" is (1) that the descriptor list
   harness/props/c01.py describe() builds from the real object IS descs_of info sinfo (sp_rules s) for the real
   constructor descriptions `info` / `sinfo`, up to the renumbering of classes (describe() numbers the classes
   breadth-first from the root, C02 in order of appearance) - trusted Python on both sides, no model; describe()
   writes shift 0 for an EquivalencePathRule where R1 has the SUM of the members' shifts (equal on every word
   universe: all 0; deps_shape of a path demands a shift <= 0); (2) nothing feeds run_c01 with this list inside
   C02's check; (3) the contracts (deps_shape, rule_contract) stay hypotheses, and rule_contract must also hold of
   the filler descriptor of numbers that are not classes of the object (i.e. T is the empty table there). *)
Section Compose.
Variable T : nat -> Z -> Count.Terms.terms.
Variable npar : nat -> nat.
Variables vpos kpos : nat -> bool.
Hypothesis HT : T_ok T npar.
Hypothesis Hcanon : forall l m, canon (T l m).
Variable info : Z -> cdesc.
Variable sinfo : Z -> step_desc.
Variable is_empty : nat -> bool.
Variable root : nat.
Variable rules : list grule.
Let d0 := ungroup (rules_dict rules).

Theorem object_counts_partial s :
  wf_inputb is_empty root d0 = true -> shifts_okb d0 = true ->
  spec_init is_empty root rules true = XOk s ->
  same_dictb is_empty root rules true (sp_rules s) = true ->
  pumpsb (R1 (sp_rules s)) root = true ->
  let ds := descs_of info sinfo (sp_rules s) in
  (forall c d, nth_error ds c = Some d -> deps_shape d) ->
  (forall c d, nth_error ds c = Some d -> forall Hz, rule_contract T npar vpos kpos Hz c d) ->
  forall n, 0 <= n ->
  exists f0, forall f, (f0 <= f)%nat -> eval Count.Terms.terms [] (spec_ofN ds) f root n = T root n.
Proof.
  intros Hw Hs Hi Hsame Hv ds Hshape Hcontr n Hn.
  apply (spec_ofN_correct_sub T npar vpos kpos HT Hcanon ds (R1 (sp_rules s)) Hshape Hcontr); [| |exact Hn].
  - intros k Hk.
    destruct (object_keys_pump_iff is_empty root rules s Hw Hs Hi Hsame) as (G & _).
    destruct G as (Hnd & _).
    destruct (descs_declare_R1 info sinfo (sp_rules s) Hnd
                (object_entry_parent is_empty root rules s Hw Hs Hi Hsame) k Hk) as (dd & Hdd & Hdeps).
    exists dd. split; [exact Hdd|]. rewrite Hdeps. apply incl_refl.
  - apply pumpsb_spec. exact Hv.
Qed.
End Compose.
