(* C09 -> C01 in the vocabulary of Spec/Eval.v.

   srule_of_genuine_rel   `genuine` up to representation: the operator of srule_of, fed with good
                          providers (in particular the true tables) returns a good table;
   srule_ofN              the same rule with the operator's result put in canonical form (tnorm);
   srule_ofN_local / srule_ofN_genuine
                          the hypotheses `local` and `genuine` of C01_spec_correct / C01_unique_solution,
                          LITERALLY (Leibniz equality on canonical tables), for rules of the library's
                          constructors: theorems, under deps_shape and the per-form contract;
   spec_ofN_correct       hence C01_spec_correct's conclusion for every specification made of such rules,
                          with only the contracts (and productivity) left as hypotheses. *)
From Coq Require Import ZArith List Bool Lia.
From CSS Require Import Forest.Spec Spec.Eval.
From CSS Require Import Base.Sx Gen.Prelude Count.Terms Count.Constructors Count.ConstructorsRun
  Count.TermsPolyOrder Spec.TermsCanon Spec.Adapter Spec.AdapterLocal Spec.AdapterSound Spec.CountRun.
Import ListNotations.
Open Scope Z_scope.

Section Genuine.
Variable T : nat -> Z -> terms.
Variable npar : nat -> nat.
Variables vpos kpos : nat -> bool.
Hypothesis HT : T_ok T npar.
Variable Hz : Z.

Notation good := (good T npar vpos kpos).

Theorem srule_of_genuine_rel c d (G : nat -> Z -> terms) o n :
  deps_shape d -> rule_contract T npar vpos kpos Hz c d ->
  goodp T npar vpos kpos G -> (forall m, good c m (o m)) -> 0 <= n -> (c_form d = 7 -> n <= Hz) ->
  good c n (r_op terms (srule_of d) (fun i => G (kid_of d i)) o n).
Proof.
  intros Hs HC HG Ho Hn HH. simpl r_op. unfold op_of. replace (n <? 0) with false by lia.
  rewrite <- (stepF_labels d G o n Hs).
  destruct (stepF_sound T npar vpos kpos HT Hz c d G o n HC HG Ho Hn HH) as (r & Hr & Hg).
  rewrite Hr. exact Hg.
Qed.

(* fed with the true tables: the shape of Spec.Eval.genuine, up to the representation of tables *)
Corollary srule_of_genuine_teq c d n :
  deps_shape d -> rule_contract T npar vpos kpos Hz c d -> 0 <= n -> (c_form d = 7 -> n <= Hz) ->
  teq (r_op terms (srule_of d) (fun i m => T (Spec.Eval.kid terms (srule_of d) i) m) (T c) n) (T c n).
Proof.
  intros Hs HC Hn HH.
  apply (srule_of_genuine_rel c d T (T c) n Hs HC (good_T T npar vpos kpos HT) (good_T T npar vpos kpos HT c) Hn HH).
Qed.
End Genuine.

(* ---------------------------------------------------------------- canonical-form operators *)
Definition srule_ofN (d : cdesc) : srule terms :=
  mkrule terms (c_deps d) (fun p o n => tnorm (op_of d p o n)).

Definition spec_ofN (ds : list cdesc) (c : nat) : option (srule terms) :=
  option_map srule_ofN (nth_error ds c).

Theorem srule_ofN_local d : deps_shape d -> local terms (srule_ofN d).
Proof.
  intros Hs p p' o o' n Hp Ho. simpl r_op. f_equal.
  apply (srule_of_local d Hs p p' o o' n); assumption.
Qed.

Lemma srule_ofN_neg d p o n : n < 0 -> r_op terms (srule_ofN d) p o n = [].
Proof. intros H. simpl. unfold op_of. replace (n <? 0) with true by lia. reflexivity. Qed.

Section GenuineN.
Variable T : nat -> Z -> terms.
Variable npar : nat -> nat.
Variables vpos kpos : nat -> bool.
Hypothesis HT : T_ok T npar.
Hypothesis Hcanon : forall l m, canon (T l m).

(* hypothesis h4 of C01_spec_correct, literally *)
Theorem srule_ofN_genuine c d :
  deps_shape d -> (forall Hz, rule_contract T npar vpos kpos Hz c d) -> genuine terms T c (srule_ofN d).
Proof.
  intros Hs HC n Hn. simpl r_op.
  pose proof (srule_of_genuine_teq T npar vpos kpos HT n c d n Hs (HC n) Hn (fun _ => Z.le_refl n)) as H.
  simpl r_op in H. unfold Spec.Eval.kid in *. simpl r_kids in *.
  rewrite (tnorm_unique _ _ H). apply tnorm_id. apply Hcanon.
Qed.

(* C01_spec_correct for specifications made of the library's constructors: no `local`, no `genuine`
   hypothesis is left — only the shape of the declared dependencies (decidable), the per-form contract
   about the true tables, and productivity w.r.t. the declared shifts *)
Theorem spec_ofN_correct (ds : list cdesc) (keys : list fkey) :
  (forall c d, nth_error ds c = Some d -> deps_shape d) ->
  (forall c d, nth_error ds c = Some d -> forall Hz, rule_contract T npar vpos kpos Hz c d) ->
  (forall k, In k keys -> exists d, nth_error ds (parent k) = Some d /\ kids k = c_deps d) ->
  forall c, pumps keys c -> forall n, 0 <= n ->
  exists f0, forall f, (f0 <= f)%nat -> eval terms [] (spec_ofN ds) f c n = T c n.
Proof.
  intros Hs HC Hk c P n Hn.
  assert (Inv : forall c r, spec_ofN ds c = Some r -> exists d, nth_error ds c = Some d /\ r = srule_ofN d).
  { intros c0 r H. unfold spec_ofN in H. destruct (nth_error ds c0) as [d|]; simpl in H; [|discriminate].
    exists d. split; [reflexivity|congruence]. }
  apply (eval_correct terms [] (spec_ofN ds) T).
  - destruct HT as [Hneg _]. exact Hneg.
  - intros c0 r H p o m Hm. destruct (Inv c0 r H) as (d & _ & ->). apply srule_ofN_neg. exact Hm.
  - intros c0 r H. destruct (Inv c0 r H) as (d & Hd & ->). apply srule_ofN_local. apply (Hs c0 d Hd).
  - intros c0 r H. destruct (Inv c0 r H) as (d & Hd & ->). apply srule_ofN_genuine; [apply (Hs c0 d Hd)|apply (HC c0 d Hd)].
  - apply (pumps_ev terms (spec_ofN ds) keys); [|exact P|exact Hn].
    intros k Hin. destruct (Hk k Hin) as (d & Hd & Ek). exists (srule_ofN d). split; [|exact Ek].
    unfold spec_ofN. rewrite Hd. reflexivity.
Qed.
End GenuineN.
