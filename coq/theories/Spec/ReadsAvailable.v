(* C10, second sentence of the property: "Hence whatever the fixed-point analysis accepts as productive
   can be evaluated without a class ever depending on a term that is not yet available."

   The terms a rule REALLY asks for when it computes size n are those the reads model lists
   (Count/ReadsModel.v rule_reads for the four constructors, tied to the code by C10's correspondence:
   the recorded requests of the real get_terms; one read (child 0, n) for the derived forms,
   Count/ReadsDerived.v derived_reads_eq).  `avail ds c n` is the well-founded evaluation order along those
   ACTUAL requests: the term (c, n) is available when every term its rule asks for - a child's, or its own
   earlier one - is available.  No shift occurs in the definition.

   reads_available: if the keys the fixed-point analysis (C03's pumps, over the DECLARED shifts) received
   come from the specification (each key's children include the declared dependencies of the descriptor of
   its parent) and every descriptor has the shape its form prescribes (deps_shape: declared shifts at most
   the shifts the form computes; decidable, Spec/Deciders.v deps_shapeb), then every term of every class
   the analysis calls productive is available, at every size.  Proof: pumps -> ev (Spec/EvalDrop.v
   pumps_ev_sub: evaluable along the DECLARED shifts), and C10's theorem rule_reads_respect_shifts
   (= C10_reads_respect_declared_shifts) turns "within the declared shifts" into "everything that is read". *)
From Coq Require Import ZArith List Lia.
From CSS Require Import Forest.Spec Spec.Eval Spec.EvalDrop Spec.CountRun.
From CSS Require Import Base.Sx Gen.Prelude Gen.Compositions Gen.QuotientParentShift
  Count.CompositionsSpec Count.Terms Count.Constructors Count.ConstructorsRun
  Count.ConstructorsQuotient Count.ConstructorsDerived Count.Reads Count.ReadsDerived Spec.Adapter Spec.AdapterLocal.
Import ListNotations.
Open Scope Z_scope.

(* what the rule of descriptor d asks for when it computes size n: (position, size); position SELF = its
   own earlier terms, position p >= 0 = the p-th declared dependency *)
Definition reads_of (d : cdesc) (n : Z) : list read :=
  match c_form d with
  | 0 | 1 | 2 | 3 => rule_reads (c_form d) (kid_descs (c_kids d)) (Z.of_nat (c_idx d)) n
  | 4 | 5 | 6 => [(0, n)]
  | _ => []                                   (* a verified class: its table is given, nothing is read *)
  end.

(* the class a request is addressed to *)
Definition target (c : nat) (d : cdesc) (p : Z) : nat :=
  if p =? SELF then c else nth (Z.to_nat p) (dep_labels d) O.

Section Avail.
Variable ds : list cdesc.

Inductive avail : nat -> Z -> Prop :=
| avail_intro : forall c d n, nth_error ds c = Some d ->
    (forall p m, In (p, m) (reads_of d n) -> 0 <= m -> avail (target c d p) m) ->
    avail c n.

Hypothesis shapes : forall c d, nth_error ds c = Some d -> deps_shape d.

Lemma spec_of_inv c r : spec_of ds c = Some r -> exists d, nth_error ds c = Some d /\ r = srule_of d.
Proof.
  unfold spec_of. destruct (nth_error ds c) as [d|]; simpl; intros H; [|discriminate].
  injection H as <-. exists d. split; reflexivity.
Qed.

Lemma kid_srule_of d i : Spec.Eval.kid terms (srule_of d) i = nth i (dep_labels d) O.
Proof. exact (kid_of_labels d i). Qed.

(* evaluable along the declared shifts => available along the actual reads *)
Lemma ev_avail : forall c n, ev terms (spec_of ds) c n -> avail c n.
Proof.
  induction 1 as [c r n Hs Hk IHk Ho IHo].
  destruct (spec_of_inv c r Hs) as (d & Hd & ->).
  apply (avail_intro c d n Hd). intros p m Hin Hm0.
  pose proof (shapes c d Hd) as Hsh. unfold deps_shape in Hsh. unfold reads_of in Hin.
  assert (Hplain : forall form, c_form d = form -> 0 <= form <= 3 ->
            (2 <= form -> (c_idx d < length (c_kids d))%nat) ->
            Forall2 Z.le (dep_shifts d) (rule_shifts form (kid_descs (c_kids d)) (Z.of_nat (c_idx d))) ->
            In (p, m) (rule_reads form (kid_descs (c_kids d)) (Z.of_nat (c_idx d)) n) ->
            avail (target c (d) p) m).
  { intros form Ef Hf Hidx HF Hr.
    set (cs := kid_descs (c_kids d)) in *. set (idx := Z.of_nat (c_idx d)) in *.
    assert (Hidx' : 2 <= form -> 0 <= idx < PyList.zlen cs).
    { intros H. specialize (Hidx H). unfold idx, PyList.zlen, cs. rewrite kid_descs_length. lia. }
    assert (Ls : length (dep_shifts d) = length cs).
    { rewrite (Forall2_length' _ _ _ HF).
      pose proof (rule_shifts_length form cs idx Hf Hidx') as H. unfold PyList.zlen in H. lia. }
    destruct (rule_reads_respect_shifts form cs idx n p m Hf Hidx' Hr) as [[-> Hlt]|[Hp Hle]].
    - unfold target. rewrite Z.eqb_refl. apply IHo; lia.
    - unfold target. replace (p =? SELF) with false by (symmetry; apply Z.eqb_neq; unfold SELF; lia).
      unfold PyList.zlen in Hp.
      assert (Hil : (Z.to_nat p < length (dep_shifts d))%nat) by lia.
      rewrite <- kid_srule_of. apply IHk.
      + simpl r_kids. unfold dep_shifts in Hil. rewrite map_length in Hil. exact Hil.
      + exact Hm0.
      + rewrite shift_dep_shifts. pose proof (Forall2_nth_le _ _ (Z.to_nat p) HF Hil). lia. }
  assert (Hone : forall lbl s, c_deps d = [(lbl, s)] -> s <= 0 -> In (p, m) [(0, n)] -> avail (target c d p) m).
  { intros lbl s Ed Hs0 [Heq|[]]. injection Heq as <- <-.
    unfold target. replace (0 =? SELF) with false by reflexivity.
    rewrite <- kid_srule_of. apply IHk.
    - simpl r_kids. rewrite Ed. simpl. lia.
    - exact Hm0.
    - unfold shift. simpl r_kids. rewrite Ed. simpl. lia. }
  destruct (c_form d) as [|[q|q|]|q] eqn:Ef; try (destruct Hin; fail).
  - (* form 0 *) destruct Hsh as (_ & _ & HF). apply (Hplain 0); [reflexivity|lia|lia|exact HF|exact Hin].
  - (* odd forms 3, 5, 7, ... *)
    destruct q as [[q|q|]|[q|q|]|]; try (destruct Hin; fail).
    + (* 5 = xI (xO xH) *) destruct Hsh as (s & Ed & Hs0). exact (Hone _ _ Ed Hs0 Hin).
    + (* 3 *) destruct Hsh as (Hi & _ & _ & HF). apply (Hplain 3); [reflexivity|lia|intros _; exact Hi|exact HF|exact Hin].
  - (* even forms 2, 4, 6, ... *)
    destruct q as [[q|q|]|[q|q|]|]; try (destruct Hin; fail).
    + (* 6 = xO (xI xH) *) destruct Hsh as (s & Ed & Hs0). exact (Hone _ _ Ed Hs0 Hin).
    + (* 4 = xO (xO xH) *) destruct Hsh as (ci & _ & _ & s & Ed & Hs0). exact (Hone _ _ Ed Hs0 Hin).
    + (* 2 *) destruct Hsh as (Hi & _ & _ & HF). apply (Hplain 2); [reflexivity|lia|intros _; exact Hi|exact HF|exact Hin].
  - (* form 1 *) destruct Hsh as (_ & _ & HF). apply (Hplain 1); [reflexivity|lia|lia|exact HF|exact Hin].
Qed.

Variable keys : list fkey.
Hypothesis keys_sub : forall k, In k keys ->
  exists d, nth_error ds (parent k) = Some d /\ incl (c_deps d) (kids k).

Theorem reads_available : forall c, pumps keys c -> forall n, 0 <= n -> avail c n.
Proof.
  intros c P n Hn. apply ev_avail.
  apply (pumps_ev_sub terms (spec_of ds) keys); [|exact P|exact Hn].
  intros k Hin. destruct (keys_sub k Hin) as (d & Hd & Ek). exists (srule_of d). split; [|exact Ek].
  unfold spec_of. rewrite Hd. reflexivity.
Qed.

(* what `avail` means, unfolded once: nothing that is read is missing, and a term never asks for itself or
   for a later term of its own class *)
Theorem avail_reads : forall c n, avail c n ->
  exists d, nth_error ds c = Some d /\
    forall p m, In (p, m) (reads_of d n) -> 0 <= m -> avail (target c d p) m.
Proof. intros c n H. destruct H as [c d n Hd Hr]. exists d. split; assumption. Qed.
End Avail.
