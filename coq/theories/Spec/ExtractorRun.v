(* sx interface for C02.
   input : ( (root stored tree order reps paths) (speckeys) )
     stored, tree : ((parent (child ...)) ...)
     order        : (label ...)      iteration order of _no_lhs_labels() observed in the run
     reps         : (rep_of_label_0 rep_of_label_1 ...)
     paths        : ((l t (x0 x1 ...)) ...)   answers of equivdb.find_path observed in the run
     speckeys     : ((parent ((child shift) ...)) ...)  forest keys of the returned specification
   output: ( status rules_dict check closed ) ( pumps ... )
     status 0 ok / 1 KeyError ; rules_dict as inserted ; check = _check's two assertions ;
     pumps: for every key of speckeys, does its parent pump w.r.t. speckeys alone
     (decided by the table-method model, whose answer is proved correct in C03) *)
From Coq Require Import ZArith List Bool.
From CSS Require Import Base.Sx Forest.Spec Forest.Model Forest.Run Spec.Extractor.
From CSS Require Spec.GroupingRun Spec.FindRuleRun.
From CSS Require Searcher.Run Searcher.DecidersRun.
Import ListNotations.
Open Scope Z_scope.

Definition dec_rkey (s : sx) : rkey := (sx_nat (sx_nth s 0), sx_nats (sx_nth s 1)).
Definition enc_rkey (k : rkey) : sx := L [of_nat (fst k); of_nats (snd k)].

Definition path_table (s : sx) : list (nat * nat * list nat) :=
  map (fun e => (sx_nat (sx_nth e 0), sx_nat (sx_nth e 1), sx_nats (sx_nth e 2))) (sx_list s).

Definition fpath_of (tbl : list (nat * nat * list nat)) (l t : nat) : list nat :=
  match find (fun e => Nat.eqb (fst (fst e)) l && Nat.eqb (snd (fst e)) t) tbl with
  | Some e => snd e
  | None => []
  end.

Definition closedb (d : list rkey) : bool := forallb (dom d) (all_rhs d).

Definition run_extractor (a : sx) : sx :=
  match sx_list a with
  | [] => L [I 9; L []; I 0; I 0]      (* no pruning-database extractor in this run *)
  | _ =>
  let root := sx_nat (sx_nth a 0) in
  let stored := map dec_rkey (sx_list (sx_nth a 1)) in
  let tree := map dec_rkey (sx_list (sx_nth a 2)) in
  let order := sx_nats (sx_nth a 3) in
  let reps := sx_nats (sx_nth a 4) in
  let rep := fun l => nth l reps l in
  let fp := fpath_of (path_table (sx_nth a 5)) in
  match extract rep fp stored tree root order with
  | None => L [I 1; L []; I 0; I 0]
  | Some d => L [I 0; L (map enc_rkey d); of_bool (check d root); of_bool (closedb d && dom d root)]
  end
  end.

Definition dec_fkey (s : sx) : fkey :=
  mkkey (sx_nat (sx_nth s 0))
        (map (fun p => (sx_nat (sx_nth p 0), sx_Z (sx_nth p 1))) (sx_list (sx_nth s 1))).

Definition run_pumps (a : sx) : sx :=
  let ks := map dec_fkey (sx_list a) in
  let ops := map AddKey ks in
  match run pick0 (fuel_for ops) init ops with
  | None => L [I (-1)]
  | Some st => L (map (fun k => of_bool (snd (is_pumping st (parent k)))) ks)
  end.

(* fields 2.. were added later (an input without them gets the "nothing to do" answers):
     2  SpecificationRuleExtractor._find_rule / rules()     Spec/FindRuleRun.v
     3  CombinatorialSpecification.__init__                 Spec/GroupingRun.v
     4  the same constructor on the rules in reverse order (the result does not depend on the order)
     5  the same constructor on the rules with one rule left out (a rule set that is not closed)
   output field 6 (added later, compatible): the verdict of the deciders of Searcher/Deciders.v (the table hypotheses
     of C02_search_find_rule_total) on the table field 2 carries - its empty bits, strategies and nocap, the SAME
     fields run_findrule reads - completed by an 11th element of field 2 = ( ver-sids sym-sids queue-pack packets )
     (Searcher/DecidersRun.v); () when field 2 is empty or has no such element *)
Definition run_findrule_hyps (a : sx) : sx :=
  match sx_list a with
  | [] => L []
  | _ => Searcher.DecidersRun.run_hyps (sx_Zs (sx_nth a 1)) (map Searcher.Run.dec_strat (sx_list (sx_nth a 2)))
           (sx_Zs (sx_nth a 9)) (sx_nth a 10)
  end.

Definition run_c02 (inp : sx) : sx :=
  L [run_extractor (sx_nth inp 0); run_pumps (sx_nth inp 1);
     Spec.FindRuleRun.run_findrule (sx_nth inp 2);
     Spec.GroupingRun.run_spec (sx_nth inp 3);
     Spec.GroupingRun.run_spec (sx_nth inp 4);
     Spec.GroupingRun.run_spec (sx_nth inp 5);
     run_findrule_hyps (sx_nth inp 2)].
