(* get_rule (lazy empty rules), _set_subrules, _enforce_labels and the whole constructor
   CombinatorialSpecification.__init__ (model: Spec/Grouping.v). *)
From Coq Require Import ZArith List Bool Lia.
From CSS Require Import Spec.Grouping Spec.GroupingWf Spec.GroupingFacts Spec.GroupingProofs.
Import ListNotations.

Section Init.
Variable is_empty : nat -> bool.

(* get_rule: hands out the rule of the class; adds a rule only when the class has none and ITS is_empty()
   says empty, and that rule is the empty rule; raises (assert) exactly for a non-empty class without rule *)
Theorem get_rule_spec d c :
  match get_rule is_empty d c with
  | XOk (d', g) =>
      (dget c d = Some g /\ d' = d) \/
      (dget c d = None /\ is_empty c = true /\ g = empty_rule c /\ d' = d ++ [(c, g)])
  | XErr e => e = XAssertEmpty /\ dget c d = None /\ is_empty c = false
  | XFuel => False
  end.
Proof.
  unfold get_rule. destruct (dget c d) eqn:E; [left; auto|].
  destruct (is_empty c) eqn:Em; [right; auto|auto].
Qed.

(* b is a with lazily added empty rules of empty classes appended *)
Definition ext (a b : dict) : Prop :=
  exists extra, b = a ++ extra /\
    forall k g, In (k, g) extra -> g = empty_rule k /\ is_empty k = true /\ dget k a = None.

Lemma ext_refl a : ext a a.
Proof. exists []. split; [rewrite app_nil_r; reflexivity|]. intros k g []. Qed.

Lemma ext_get a b c g : ext a b -> dget c a = Some g -> dget c b = Some g.
Proof. intros (x & -> & _) H. apply dget_app_some. exact H. Qed.

Lemma ext_mem a b c : ext a b -> dmem c a = true -> dmem c b = true.
Proof. intros E H. apply dmem_dget in H as (g & H). apply dmem_dget. exists g. eapply ext_get; eauto. Qed.

Lemma ext_sound a b c g : ext a b -> dget c b = Some g ->
  dget c a = Some g \/ (dget c a = None /\ g = empty_rule c /\ is_empty c = true).
Proof.
  intros (x & -> & Hx) H. destruct (dget c a) eqn:E.
  - rewrite (dget_app_some _ _ _ _ E) in H. left. exact H.
  - rewrite (dget_app_none _ _ _ E) in H. apply dget_In in H. destruct (Hx _ _ H) as (-> & Hem & _). right. auto.
Qed.

Lemma ext_trans a b c : ext a b -> ext b c -> ext a c.
Proof.
  intros (x & -> & Hx) (y & -> & Hy). exists (x ++ y). split; [rewrite app_assoc; reflexivity|].
  intros k g Hin. apply in_app_or in Hin as [Hin|Hin]; auto.
  destruct (Hy _ _ Hin) as (A & B & C). csplit; auto.
  destruct (dget k a) eqn:E; auto. rewrite (dget_app_some _ _ _ _ E) in C. discriminate.
Qed.

Lemma get_rule_ext d c : dmem c d = true \/ is_empty c = true ->
  exists d' g, get_rule is_empty d c = XOk (d', g) /\ ext d d' /\ dget c d' = Some g.
Proof.
  intros H. unfold get_rule. destruct (dget c d) eqn:E.
  - exists d, g. csplit; auto. apply ext_refl.
  - destruct H as [H|H]; [apply dmem_dget in H as (g & H); congruence|]. rewrite H.
    exists (d ++ [(c, empty_rule c)]), (empty_rule c). csplit; auto.
    + exists [(c, empty_rule c)]. split; auto. intros k g [[= <- <-]|[]]. auto.
    + rewrite (dget_app_none _ _ _ E), dget_cons, Nat.eqb_refl. reflexivity.
Qed.

Lemma get_rules_ok cs : forall d, (forall c, In c cs -> dmem c d = true \/ is_empty c = true) ->
  exists d', get_rules is_empty d cs = XOk d' /\ ext d d' /\ forall c, In c cs -> dmem c d' = true.
Proof.
  induction cs as [|c cs IH]; intros d H.
  - exists d. split; [reflexivity|split; [apply ext_refl|intros c []]].
  - destruct (get_rule_ext d c (H c (or_introl eq_refl))) as (d1 & g & Hg & E1 & Hc).
    cbn [get_rules]. rewrite Hg. cbn [xbind fst].
    destruct (IH d1) as (d2 & Hr & E2 & Hall).
    { intros x Hx. destruct (H x (or_intror Hx)) as [A|A]; auto. left. eapply ext_mem; eauto. }
    exists d2. csplit; auto; [eapply ext_trans; eauto|].
    intros x [<-|Hx]; auto. eapply ext_mem; eauto. apply dmem_dget. eauto.
Qed.

Lemma set_subrules_from_ok rs : forall d,
  (forall g c, In g rs -> In c (g_ch g) -> dmem c d = true \/ is_empty c = true) ->
  exists d', set_subrules_from is_empty rs d = XOk d' /\ ext d d' /\
             forall g c, In g rs -> In c (g_ch g) -> dmem c d' = true.
Proof.
  induction rs as [|g rs IH]; intros d H.
  - exists d. split; [reflexivity|split; [apply ext_refl|intros g c []]].
  - destruct (get_rules_ok (g_ch g) d) as (d1 & Hg & E1 & Hall).
    { intros c Hc. apply (H g c); auto. left; auto. }
    cbn [set_subrules_from]. rewrite Hg. cbn [xbind].
    destruct (IH d1) as (d2 & Hr & E2 & Hall2).
    { intros g' c Hg' Hc. destruct (H g' c (or_intror Hg') Hc) as [A|A]; auto. left. eapply ext_mem; eauto. }
    exists d2. csplit; auto; [eapply ext_trans; eauto|].
    intros g' c [<-|Hg'] Hc; eauto. eapply ext_mem; eauto.
Qed.

(* every child of every rule has a rule *)
Definition closed_strict (d : dict) : Prop :=
  forall k g c, In (k, g) d -> In c (g_ch g) -> dmem c d = true.

Lemma valid_children root d : is_valid_spec is_empty root d = true ->
  forall k g c, In (k, g) d -> In c (g_ch g) -> dmem c d = true \/ is_empty c = true.
Proof.
  unfold is_valid_spec. intros H k g c Hin Hc. apply andb_true_iff in H as [_ H].
  rewrite forallb_forall in H. apply orb_true_iff. apply H. unfold comb_classes.
  apply in_flat_map. exists (k, g). split; auto. right. exact Hc.
Qed.

Theorem set_subrules_ok root d : is_valid_spec is_empty root d = true ->
  exists d', set_subrules is_empty d = XOk d' /\ ext d d' /\ closed_strict d'.
Proof.
  intros Hv. destruct (set_subrules_from_ok (map snd d) d) as (d' & H & E & Hall).
  { intros g c Hg Hc. apply in_map_iff in Hg as ([k g'] & <- & Hin). eapply valid_children; eauto. }
  exists d'. csplit; auto. intros k g c Hin Hc. destruct E as (x & -> & Hx).
  apply in_app_or in Hin as [Hin|Hin].
  - apply (Hall g c); auto. apply in_map_iff. exists (k, g). auto.
  - destruct (Hx _ _ Hin) as (-> & _). destruct Hc.
Qed.

(* _enforce_labels: no KeyError on such a dictionary; labels are distinct and cover the classes pushed *)
Lemma enforce_ok fuel d : closed_strict d -> forall todo done labels,
  (forall c, In c todo -> dmem c d = true) -> NoDup labels ->
  match enforce fuel d todo done labels with
  | XOk ls => NoDup ls /\ (forall c, In c labels -> In c ls) /\ (forall c, In c todo -> In c ls)
  | XErr _ => False
  | XFuel => True
  end.
Proof.
  intros Hc. induction fuel as [|f IH]; intros todo done labels Ht Hn; [exact I|].
  cbn [enforce]. destruct todo as [|c rest]; [csplit; auto; intros c []|].
  pose proof (Ht c (or_introl eq_refl)) as Hcd. apply dmem_dget in Hcd as (g & Hg). unfold dget in Hg.
  change (Json.Model.dget Nat.eqb c d) with (dget c d). unfold dget. rewrite Hg.
  set (labels' := if mem c labels then labels else labels ++ [c]).
  assert (NoDup labels') as Hn'.
  { unfold labels'. destruct (mem c labels) eqn:E; auto. apply NoDup_snoc; auto. apply mem_false. exact E. }
  assert (In c labels' /\ forall x, In x labels -> In x labels') as [Hcl Hinc].
  { unfold labels'. destruct (mem c labels) eqn:E.
    - split; auto. apply mem_In. exact E.
    - split; [apply in_or_app; right; left; auto|intros x Hx; apply in_or_app; auto]. }
  specialize (IH (filter (fun x => negb (mem x (c :: done))) (g_ch g) ++ rest) (c :: done) labels').
  assert (forall x, In x (filter (fun x => negb (mem x (c :: done))) (g_ch g) ++ rest) -> dmem x d = true) as Ht'.
  { intros x Hx. apply in_app_or in Hx as [Hx|Hx]; [|apply Ht; right; auto].
    apply filter_In in Hx as [Hx _]. apply (Hc c g x); auto. apply dget_In. exact Hg. }
  specialize (IH Ht' Hn').
  destruct (enforce f d _ _ labels') as [ls| |]; auto. destruct IH as (A & B & C). csplit; auto.
  intros x [<-|Hx]; auto. apply C. apply in_or_app. right. exact Hx.
Qed.

(* the whole constructor, group_equiv=True (what get_specification uses) *)
Theorem spec_init_ok root rules :
  let d0 := ungroup (rules_dict rules) in
  wf_input is_empty root d0 ->
  (forall e, spec_init is_empty root rules true <> XErr e) /\
  (forall s, spec_init is_empty root rules true = XOk s ->
     exists d1, grouped is_empty root d0 d1 /\ ext d1 (sp_rules s) /\ closed_strict (sp_rules s) /\
                sp_root s = root /\ NoDup (sp_labels s) /\ In root (sp_labels s)).
Proof.
  intros d0 W. unfold spec_init, group_equiv_in_path. fold d0.
  destruct (group_core_ok is_empty root d0 W (group_fuel root d0) (le_n _)) as (d1 & Hg & G).
  rewrite Hg. cbn [xbind].
  pose proof G as (_ & Hv & Hroot & _).
  destruct (set_subrules_ok root d1 Hv) as (d2 & Hs & E & Hc). rewrite Hs. cbn [xbind].
  pose proof (enforce_ok (enforce_fuel d2) d2 Hc [root] [] []) as He. unfold enforce_labels.
  assert (forall c, In c [root] -> dmem c d2 = true) as Hr.
  { intros c [<-|[]]. eapply ext_mem; eauto. }
  specialize (He Hr (NoDup_nil _)).
  destruct (enforce (enforce_fuel d2) d2 [root] [] []) as [ls|e|]; cbn [xbind].
  - split; [discriminate|]. intros s [= <-]. cbn [sp_rules sp_root sp_labels]. exists d1.
    destruct He as (A & _ & C). csplit; auto. apply C. left; auto.
  - destruct He.
  - split; [discriminate|]. discriminate.
Qed.

End Init.
