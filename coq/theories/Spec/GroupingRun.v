(* sx interface of the model of CombinatorialSpecification.__init__ (Spec/Grouping.v).
   input : ( root group_equiv (empty_class ...) (rule ...) )      or () = nothing to do
     rule = ( cls (child ...) eqv (shift ...) tag (member ...) )
            member = ( cls (child ...) eqv (shift ...) tag ) ; no members = not an EquivalencePathRule
            (for a path rule only its members are read)
   output: ( status (entry ...) (label_class ...) (entry ...) wf shifts_ok (key ...) (key ...) same )
     status 0 fine, 1..7 the exception (xerr), 9 the grouping loop did not finish, -1 nothing to do
     entry  = ( cls kind tag (child ...) ((member_cls member_tag (member_child ...)) ...) )
              kind 0 plain rule, 1 EquivalencePathRule, 2 lazily added empty rule
     label_class: the classes in the order _enforce_labels hands out labels
     second entry list: rules_dict after _ungroup_equiv_path() on the finished object
     wf: the hypotheses of the C02 grouping theorems hold for this input (wf_inputb)
     added later (fields 5..8; the first five are unchanged):
     shifts_ok: every rule of the ungrouped input declares one shift per child (shifts_okb, the third premise
             of C02_grouping_preserves_productivity)
     first key list : R1 of the finished object's rules_dict - forest keys ( parent ((child shift) ...) ), an
             EquivalencePathRule counted with the SUM of its members' shifts
     second key list: R0 = keys of the ungrouped input and of the lazily added empty rules
     same: the finished rules_dict has as many entries as the dictionary _group_equiv_in_path left, i.e. IS
             that dictionary (Spec/GroupingProdObj.v ext_same_length); with wf, shifts_ok and status 0 the two
             key lists are then an instance of the productivity theorem (object_keys_pump_iff)
     added later still (fields 9..11; the first nine are unchanged), all computed by the PROVED table-method
     model (Spec/GroupingPumps.v verdicts = Forest/Model.v run with the fuel proved sufficient, then is_pumping;
     meaning: Spec/GroupingPumpsProofs.v pumpsb_spec = C03_total_sound_complete):
     9  ( root_pumps_R1 root_pumps_R0 )   does the root pump w.r.t. the first / the second key list
     10 ( (class pumps) ... )              for every key of the first list (R1), in order: does its class pump w.r.t. R1
     11 ( (class pumps) ... )              the same for the second list (R0)
     (status other than 0: three empty lists) *)
From Coq Require Import ZArith List Bool.
From CSS Require Import Base.Sx Forest.Spec Spec.Grouping Spec.GroupingWf Spec.GroupingProdKeys Spec.GroupingPumps.
Import ListNotations.
Open Scope Z_scope.

Definition dec_brule (s : sx) : brule :=
  mkB (sx_nat (sx_nth s 0)) (sx_nats (sx_nth s 1)) (sx_bool (sx_nth s 2)) (sx_Zs (sx_nth s 3)) (sx_Z (sx_nth s 4)).

Definition dec_grule (s : sx) : grule :=
  match map dec_brule (sx_list (sx_nth s 5)) with
  | [] => GB (dec_brule s)
  | r0 :: rs => GP r0 rs
  end.

Definition enc_member (r : brule) : sx := L [of_nat (b_cls r); I (b_tag r); of_nats (b_ch r)].

Definition enc_entry (kv : nat * grule) : sx :=
  let g := snd kv in
  let kind := match g with
              | GP _ _ => 1
              | GB r => if b_tag r =? -1 then 2 else 0
              end in
  let tag := match g with GB r => b_tag r | GP r0 _ => b_tag r0 end in
  L [of_nat (fst kv); I kind; I tag; of_nats (g_ch g); L (map enc_member (members g))].

Definition xerr_code (e : xerr) : Z :=
  match e with
  | XAssertChain => 1 | XAssertPathEqv => 2 | XAssertPathUnary => 3 | XAssertEmpty => 4
  | XAssertValid => 5 | XKey => 6 | XIndex => 7
  end.

Definition enc_fkey (k : fkey) : sx :=
  L [of_nat (parent k); L (map (fun p => L [of_nat (fst p); I (snd p)]) (Forest.Spec.kids k))].

Definition enc_pb (pb : nat * bool) : sx := L [of_nat (fst pb); of_bool (snd pb)].

Definition run_spec (a : sx) : sx :=
  match sx_list a with
  | [] => L [I (-1); L []; L []; L []; I 0; I 0; L []; L []; I 0; L []; L []; L []]
  | _ =>
      let root := sx_nat (sx_nth a 0) in
      let ge := sx_bool (sx_nth a 1) in
      let empties := sx_nats (sx_nth a 2) in
      let is_empty := fun c => mem c empties in
      let rules := map dec_grule (sx_list (sx_nth a 3)) in
      let d0 := ungroup (rules_dict rules) in
      let wf := of_bool (wf_inputb is_empty root d0) in
      let sok := of_bool (shifts_okb d0) in
      match spec_init is_empty root rules ge with
      | XOk s =>
          let v1 := verdicts (R1 (sp_rules s)) root in
          let v0 := verdicts (R0 d0 (sp_rules s)) root in
          L [I 0; L (map enc_entry (sp_rules s)); of_nats (sp_labels s);
             L (map enc_entry (ungroup (sp_rules s))); wf; sok;
             L (map enc_fkey (R1 (sp_rules s))); L (map enc_fkey (R0 d0 (sp_rules s)));
             of_bool (same_dictb is_empty root rules ge (sp_rules s));
             L [of_bool (fst v1); of_bool (fst v0)]; L (map enc_pb (snd v1)); L (map enc_pb (snd v0))]
      | XErr e => L [I (xerr_code e); L []; L []; L []; wf; sok; L []; L []; I 0; L []; L []; L []]
      | XFuel => L [I 9; L []; L []; L []; wf; sok; L []; L []; I 0; L []; L []; L []]
      end
  end.
