(* C01: boolean deciders for the DECIDABLE hypotheses of the theorems about run_c01
   (C01_run_correct, C01_rounds_correct, C01_rounds_is_eval, C01_srule_of*_local/_genuine), so that they can
   be EVALUATED on every descriptor list the harness sends (Spec/CountRunDec.v run_c01d prints the verdicts).

   1. deps_shapeb d = true -> deps_shape d                                         (deps_shapeb_sound)
   2. rule_contract T npar vpos kpos Hz c d  is split into
        contract_shapeb npar vpos kpos Hz c d = true      everything that can be read off the descriptor once the
            number of statistics of every class (npar: len(extra_parameters), sent by the harness) and the two
            flag assignments vpos / kpos are fixed: dictionaries well formed (kid_wf, flip_ok, wf_dict of the
            composed path dictionary), arities (npar of the class, of the original parent, of every child),
            idx in range / the flipped child is the class itself, at least one (product) / two (Quotient)
            children, minimum sizes >= 0, the flag conditions, and for a verified class the shape of the table
            handed over (key lengths, signs) up to the horizon;
        contract_sem T Hz c d                              what is about the TRUE tables T: the constructor's
            identity (union_genuine / product_genuine), Vanish (no object below the minimum size / an atom has
            one size), hprod <> 0 (the siblings of a Quotient have an object at their minimum sizes), and for a
            verified class  teq (table n) (T c n).  NOT decidable from a descriptor: this is what the oracle
            checks per case against brute-force enumeration (n <= 8).
      rule_contract_of_parts :  contract_shapeb = true -> contract_sem -> rule_contract.
   3. flags_of ds: a candidate (vpos, kpos) computed from the descriptors by iteration (largest assignment
      compatible with the forms); soundness does not depend on how the candidate was found.
   Soundness only (true -> hypothesis); a verdict `false` is read as "the theorem is not claimed for this case". *)
From Coq Require Import ZArith List Bool Lia.
From CSS Require Import Spec.Eval Spec.CountRun.
From CSS Require Import Base.Sx Gen.Prelude Gen.Compositions Gen.QuotientParentShift
  Count.CompositionsSpec Count.Terms Count.Constructors Count.ConstructorsRun
  Count.ConstructorsUnionProduct Count.ConstructorsComplement Count.ConstructorsQuotient
  Count.ConstructorsDerived Count.ConstructorsDict Count.TermsPoly Count.TermsPolyOrder
  Count.ConstructorsConv Count.ConstructorsQuotientParams Count.ConstructorsSteps
  Count.ConstructorsStepsQuotient Count.ReadsModel Spec.TermsCanon Spec.Adapter Spec.AdapterLocal Spec.AdapterSound.
Import ListNotations.
Open Scope Z_scope.

Notation remove_at := Count.Constructors.remove_at.

(* ---------------------------------------------------------------- generic boolean helpers *)
Fixpoint list_eqb {A} (e : A -> A -> bool) (a b : list A) : bool :=
  match a, b with
  | [], [] => true
  | x :: a', y :: b' => e x y && list_eqb e a' b'
  | _, _ => false
  end.

Lemma list_eqb_sound {A} (e : A -> A -> bool) :
  (forall x y, e x y = true -> x = y) -> forall a b, list_eqb e a b = true -> a = b.
Proof.
  intros He. induction a as [|x a IH]; intros [|y b] H; simpl in H; try discriminate; [reflexivity|].
  apply andb_prop in H as [H1 H2]. f_equal; [apply He|apply IH]; assumption.
Qed.

Fixpoint forall2b {A B} (f : A -> B -> bool) (a : list A) (b : list B) : bool :=
  match a, b with
  | [], [] => true
  | x :: a', y :: b' => f x y && forall2b f a' b'
  | _, _ => false
  end.

Lemma forall2b_sound {A B} (f : A -> B -> bool) (R : A -> B -> Prop) :
  (forall x y, f x y = true -> R x y) -> forall a b, forall2b f a b = true -> Forall2 R a b.
Proof.
  intros Hf. induction a as [|x a IH]; intros [|y b] H; simpl in H; try discriminate; [constructor|].
  apply andb_prop in H as [H1 H2]. constructor; [apply Hf|apply IH]; assumption.
Qed.

Definition memZ (x : Z) (l : list Z) : bool := existsb (Z.eqb x) l.

Lemma memZ_iff x l : memZ x l = true <-> In x l.
Proof.
  unfold memZ. rewrite existsb_exists. split.
  - intros (y & Hy & E). apply Z.eqb_eq in E. subst. exact Hy.
  - intros H. exists x. split; [exact H|apply Z.eqb_refl].
Qed.

Fixpoint nodupb (l : list Z) : bool :=
  match l with
  | [] => true
  | x :: r => negb (memZ x r) && nodupb r
  end.

Lemma nodupb_sound l : nodupb l = true -> NoDup l.
Proof.
  induction l as [|x r IH]; intros H; [constructor|]. simpl in H. apply andb_prop in H as [H1 H2].
  constructor; [|apply IH; exact H2]. intros Hin. apply memZ_iff in Hin. rewrite Hin in H1. discriminate.
Qed.

Lemma forallb_In {A} (f : A -> bool) l : forallb f l = true -> forall x, In x l -> f x = true.
Proof. intros H. apply forallb_forall. exact H. Qed.

Lemma forallb_Forall {A} (f : A -> bool) (P : A -> Prop) l :
  (forall x, f x = true -> P x) -> forallb f l = true -> Forall P l.
Proof. intros Hf H. apply Forall_forall. intros x Hx. apply Hf. apply (forallb_In f l H x Hx). Qed.

(* ---------------------------------------------------------------- 1. deps_shape *)
Definition nat_list_eqb : list nat -> list nat -> bool := list_eqb Nat.eqb.

Lemma nat_list_eqb_sound a b : nat_list_eqb a b = true -> a = b.
Proof. apply list_eqb_sound. intros x y H. apply Nat.eqb_eq. exact H. Qed.

Definition shifts_leb (a b : list Z) : bool := forall2b Z.leb a b.

Lemma shifts_leb_sound a b : shifts_leb a b = true -> Forall2 Z.le a b.
Proof. apply forall2b_sound. intros x y H. apply Z.leb_le. exact H. Qed.

Definition one_dep (d : cdesc) (l : nat) : bool :=
  match c_deps d with
  | [(l', s)] => (l' =? l)%nat && (s <=? 0)
  | _ => false
  end.

Lemma one_dep_sound d l : one_dep d l = true -> exists s, c_deps d = [(l, s)] /\ s <= 0.
Proof.
  unfold one_dep. destruct (c_deps d) as [|[l' s] [|? ?]]; try discriminate. intros H.
  apply andb_prop in H as [H1 H2]. apply Nat.eqb_eq in H1. apply Z.leb_le in H2. subst. exists s. auto.
Qed.

Definition plain_shapeb (form : Z) (d : cdesc) : bool :=
  nat_list_eqb (dep_labels d) (c_ok d) && (length (c_ok d) =? length (c_kids d))%nat &&
  shifts_leb (dep_shifts d) (rule_shifts form (kid_descs (c_kids d)) 0).

Definition reverse_shapeb (form : Z) (d : cdesc) : bool :=
  (c_idx d <? length (c_kids d))%nat && (length (c_ok d) =? length (c_kids d))%nat &&
  nat_list_eqb (dep_labels d) (c_op d :: remove_at (c_idx d) (c_ok d)) &&
  shifts_leb (dep_shifts d) (rule_shifts form (kid_descs (c_kids d)) (Z.of_nat (c_idx d))).

Definition deps_shapeb (d : cdesc) : bool :=
  match c_form d with
  | 0 => plain_shapeb 0 d
  | 1 => plain_shapeb 1 d
  | 2 => reverse_shapeb 2 d
  | 3 => reverse_shapeb 3 d
  | 4 => match first_nonempty (c_kids d) with
         | Some ci => (length (c_ok d) =? length (c_kids d))%nat && one_dep d (nth ci (c_ok d) O)
         | None => false
         end
  | 5 => one_dep d (c_op d)
  | 6 => one_dep d (c_last d)
  | _ => true
  end.

Lemma plain_shapeb_sound form d : plain_shapeb form d = true ->
  dep_labels d = c_ok d /\ length (c_ok d) = length (c_kids d) /\
  Forall2 Z.le (dep_shifts d) (rule_shifts form (kid_descs (c_kids d)) 0).
Proof.
  unfold plain_shapeb. intros H. apply andb_prop in H as [H H3]. apply andb_prop in H as [H1 H2].
  split; [apply nat_list_eqb_sound; exact H1|]. split; [apply Nat.eqb_eq; exact H2|apply shifts_leb_sound; exact H3].
Qed.

Lemma reverse_shapeb_sound form d : reverse_shapeb form d = true ->
  (c_idx d < length (c_kids d))%nat /\ length (c_ok d) = length (c_kids d) /\
  dep_labels d = c_op d :: remove_at (c_idx d) (c_ok d) /\
  Forall2 Z.le (dep_shifts d) (rule_shifts form (kid_descs (c_kids d)) (Z.of_nat (c_idx d))).
Proof.
  unfold reverse_shapeb. intros H. apply andb_prop in H as [H H4]. apply andb_prop in H as [H H3].
  apply andb_prop in H as [H1 H2].
  split; [apply Nat.ltb_lt; exact H1|]. split; [apply Nat.eqb_eq; exact H2|].
  split; [apply nat_list_eqb_sound; exact H3|apply shifts_leb_sound; exact H4].
Qed.

(* case analysis on the form number as the `match` of the definitions sees it *)
Ltac form_cases f :=
  destruct f as [|[[[?|?|]|[?|?|]|]|[[?|?|]|[?|?|]|]|]|?].

Theorem deps_shapeb_sound d : deps_shapeb d = true -> deps_shape d.
Proof.
  unfold deps_shapeb, deps_shape. cbv zeta. form_cases (c_form d); try (intros _; exact Logic.I);
    first [ apply plain_shapeb_sound | apply reverse_shapeb_sound | apply one_dep_sound | idtac ].
  destruct (first_nonempty (c_kids d)) as [ci|]; [|discriminate]. intros H.
  apply andb_prop in H as [H1 H2]. apply Nat.eqb_eq in H1. apply one_dep_sound in H2 as (s & E & Hs).
  exists ci. split; [reflexivity|]. split; [exact H1|]. exists s. auto.
Qed.

(* ... and complete: a verdict 0 means the hypothesis is FALSE of the descriptor (so a 0 on a descriptor the
   harness built is an irregularity of the rule object or of describe(), never a weakness of the decider) *)
Lemma list_eqb_refl {A} (e : A -> A -> bool) : (forall x, e x x = true) -> forall a, list_eqb e a a = true.
Proof. intros He. induction a as [|x a IH]; simpl; [reflexivity|]. rewrite He, IH. reflexivity. Qed.

Lemma nat_list_eqb_complete a b : a = b -> nat_list_eqb a b = true.
Proof. intros ->. apply list_eqb_refl. intros x. apply Nat.eqb_refl. Qed.

Lemma forall2b_complete {A B} (f : A -> B -> bool) (R : A -> B -> Prop) :
  (forall x y, R x y -> f x y = true) -> forall a b, Forall2 R a b -> forall2b f a b = true.
Proof.
  intros Hf a b H. induction H as [|x y a b Hxy H IH]; simpl; [reflexivity|]. rewrite (Hf x y Hxy), IH. reflexivity.
Qed.

Lemma shifts_leb_complete a b : Forall2 Z.le a b -> shifts_leb a b = true.
Proof. apply forall2b_complete. intros x y H. apply Z.leb_le. exact H. Qed.

Lemma one_dep_complete d l : (exists s, c_deps d = [(l, s)] /\ s <= 0) -> one_dep d l = true.
Proof.
  intros (s & E & Hs). unfold one_dep. rewrite E. rewrite Nat.eqb_refl. simpl. apply Z.leb_le. exact Hs.
Qed.

Lemma plain_shapeb_complete form d :
  dep_labels d = c_ok d /\ length (c_ok d) = length (c_kids d) /\
  Forall2 Z.le (dep_shifts d) (rule_shifts form (kid_descs (c_kids d)) 0) -> plain_shapeb form d = true.
Proof.
  intros (H1 & H2 & H3). unfold plain_shapeb.
  rewrite (nat_list_eqb_complete _ _ H1), (proj2 (Nat.eqb_eq _ _) H2), (shifts_leb_complete _ _ H3). reflexivity.
Qed.

Lemma reverse_shapeb_complete form d :
  (c_idx d < length (c_kids d))%nat /\ length (c_ok d) = length (c_kids d) /\
  dep_labels d = c_op d :: remove_at (c_idx d) (c_ok d) /\
  Forall2 Z.le (dep_shifts d) (rule_shifts form (kid_descs (c_kids d)) (Z.of_nat (c_idx d))) ->
  reverse_shapeb form d = true.
Proof.
  intros (H1 & H2 & H3 & H4). unfold reverse_shapeb.
  rewrite (proj2 (Nat.ltb_lt _ _) H1), (proj2 (Nat.eqb_eq _ _) H2), (nat_list_eqb_complete _ _ H3),
    (shifts_leb_complete _ _ H4). reflexivity.
Qed.

Theorem deps_shapeb_complete d : deps_shape d -> deps_shapeb d = true.
Proof.
  unfold deps_shapeb, deps_shape. cbv zeta. form_cases (c_form d); try (intros _; reflexivity);
    first [ apply plain_shapeb_complete | apply reverse_shapeb_complete | apply one_dep_complete | idtac ].
  intros (ci & E & HL & Hd). rewrite E. rewrite (proj2 (Nat.eqb_eq _ _) HL). simpl. apply one_dep_complete. exact Hd.
Qed.

Theorem deps_shapeb_iff d : deps_shapeb d = true <-> deps_shape d.
Proof. split; [apply deps_shapeb_sound|apply deps_shapeb_complete]. Qed.

Definition all_deps_shapeb (ds : list cdesc) : bool := forallb deps_shapeb ds.

Lemma all_deps_shapeb_sound ds : all_deps_shapeb ds = true ->
  forall c d, nth_error ds c = Some d -> deps_shape d.
Proof.
  intros H c d Hd. apply deps_shapeb_sound. apply (forallb_In _ _ H). apply (nth_error_In _ _ Hd).
Qed.

(* ---------------------------------------------------------------- 2. the decidable part of rule_contract *)
Definition wf_dictb (pnames cnames : list Z) (d : dict) : bool :=
  nodupb pnames && nodupb cnames && nodupb (map fst d) && forallb (fun ab : Z * Z => memZ (fst ab) pnames) d.

Lemma wf_dictb_sound pnames cnames d : wf_dictb pnames cnames d = true -> wf_dict pnames cnames d.
Proof.
  unfold wf_dictb, wf_dict. intros H. apply andb_prop in H as [H H4]. apply andb_prop in H as [H H3].
  apply andb_prop in H as [H1 H2].
  split; [apply nodupb_sound; exact H1|]. split; [apply nodupb_sound; exact H2|]. split; [apply nodupb_sound; exact H3|].
  intros a b Hin. apply memZ_iff. apply (forallb_In _ _ H4 (a, b) Hin).
Qed.

Definition kid_wfb (pnames : list Z) (k : kid) : bool := wf_dictb pnames (k_names k) (k_dict k).

Lemma kid_wfb_sound pnames k : kid_wfb pnames k = true -> kid_wf pnames k.
Proof. apply wf_dictb_sound. Qed.

Definition values_inb (d : dict) (names : list Z) : bool := forallb (fun ab : Z * Z => memZ (snd ab) names) d.
Definition names_coveredb (names : list Z) (d : dict) : bool := forallb (fun cv => memZ cv (map snd d)) names.

Lemma values_inb_sound d names : values_inb d names = true -> forall a b, In (a, b) d -> In b names.
Proof. intros H a b Hin. apply memZ_iff. apply (forallb_In _ _ H (a, b) Hin). Qed.

Lemma names_coveredb_sound names d : names_coveredb names d = true -> forall cv, In cv names -> In cv (map snd d).
Proof. intros H cv Hin. apply memZ_iff. apply (forallb_In _ _ H cv Hin). Qed.

Definition flip_okb (pnames : list Z) (k : kid) : bool :=
  kid_wfb pnames k && nodupb (map snd (k_dict k)) && values_inb (k_dict k) (k_names k) &&
  names_coveredb (k_names k) (k_dict k).

Lemma flip_okb_sound pnames k : flip_okb pnames k = true -> flip_ok pnames k.
Proof.
  unfold flip_okb, flip_ok. intros H. apply andb_prop in H as [H H4]. apply andb_prop in H as [H H3].
  apply andb_prop in H as [H1 H2].
  split; [apply kid_wfb_sound; exact H1|]. split; [apply nodupb_sound; exact H2|].
  split; [apply values_inb_sound; exact H3|apply names_coveredb_sound; exact H4].
Qed.

Section Shape.
Variable npar : nat -> nat.
Variables vpos kpos : nat -> bool.
Variable Hz : Z.

Definition labs_nparb (kids : list kid) (labs : list nat) : bool :=
  forall2b (fun k l => (npar l =? length (k_names k))%nat) kids labs.

Lemma labs_nparb_sound kids labs : labs_nparb kids labs = true -> labs_npar npar kids labs.
Proof. apply forall2b_sound. intros k l H. apply Nat.eqb_eq. exact H. Qed.

Definition flags_fromb (c : nat) (labs : list nat) : bool :=
  implb (vpos c) (forallb vpos labs) && implb (kpos c) (forallb kpos labs).

Lemma flags_fromb_sound c labs : flags_fromb c labs = true -> flags_from vpos kpos c labs.
Proof.
  unfold flags_fromb, flags_from. intros H. apply andb_prop in H as [H1 H2]. split; intros E.
  - rewrite E in H1. simpl in H1. apply (forallb_Forall vpos _ labs (fun x Hx => Hx) H1).
  - rewrite E in H2. simpl in H2. apply (forallb_Forall kpos _ labs (fun x Hx => Hx) H2).
Qed.

Definition siblings_fullb (idx : nat) (labs : list nat) : bool :=
  forallb (fun j => (j =? idx)%nat || (vpos (nth j labs O) && kpos (nth j labs O))) (seq 0 (length labs)).

Lemma siblings_fullb_sound idx labs : siblings_fullb idx labs = true -> siblings_full vpos kpos idx labs.
Proof.
  intros H j Hj Hlt. pose proof (forallb_In _ _ H j) as Hx. simpl in Hx.
  assert (In j (seq 0 (length labs))) as Hin by (apply in_seq; lia). specialize (Hx Hin).
  apply orb_prop in Hx as [Hx|Hx]; [apply Nat.eqb_eq in Hx; contradiction|]. apply andb_prop in Hx. exact Hx.
Qed.

Definition siblings_vposb (idx : nat) (labs : list nat) : bool :=
  forallb (fun j => (j =? idx)%nat || vpos (nth j labs O)) (seq 0 (length labs)).

Lemma siblings_vposb_sound idx labs : siblings_vposb idx labs = true ->
  forall j, j <> idx -> (j < length labs)%nat -> vpos (nth j labs O) = true.
Proof.
  intros H j Hj Hlt. pose proof (forallb_In _ _ H j) as Hx. simpl in Hx.
  assert (In j (seq 0 (length labs))) as Hin by (apply in_seq; lia). specialize (Hx Hin).
  apply orb_prop in Hx as [Hx|Hx]; [apply Nat.eqb_eq in Hx; contradiction|exact Hx].
Qed.

(* the shape `good` asks of a table handed over for a verified class *)
Definition table_shapeb (c : nat) (t : terms) : bool :=
  forallb (fun e : entry => (length (fst e) =? npar c)%nat) t &&
  implb (vpos c) (forallb (fun e : entry => 0 <=? snd e) t) &&
  implb (kpos c) (forallb (fun e : entry => forallb (fun x => 0 <=? x) (fst e)) t).

Lemma table_shapeb_sound c t : table_shapeb c t = true ->
  klen (npar c) t /\ (vpos c = true -> nonneg t) /\ (kpos c = true -> knonneg t).
Proof.
  unfold table_shapeb. intros H. apply andb_prop in H as [H H3]. apply andb_prop in H as [H1 H2].
  split; [|split].
  - intros k v Hin. apply Nat.eqb_eq. apply (forallb_In _ _ H1 (k, v) Hin).
  - intros E k v Hin. rewrite E in H2. simpl in H2. apply Z.leb_le. apply (forallb_In _ _ H2 (k, v) Hin).
  - intros E k v Hin. rewrite E in H3. simpl in H3. pose proof (forallb_In _ _ H3 (k, v) Hin) as Hk. simpl in Hk.
    apply (forallb_Forall (fun x => 0 <=? x) _ k); [|exact Hk]. intros x Hx. apply Z.leb_le. exact Hx.
Qed.

Definition no_params (k : kid) : bool :=
  match k_names k, k_dict k with [], [] => true | _, _ => false end.

Definition is_nil {A} (l : list A) : bool := match l with [] => true | _ => false end.

Definition contract_shapeb (c : nat) (d : cdesc) : bool :=
  let pn := c_pnames d in let kids := c_kids d in let ok := c_ok d in
  let idx := c_idx d in let op := c_op d in
  let ki := nth idx kids default_kid in
  match c_form d with
  | 0 => (npar c =? length pn)%nat && forallb (kid_wfb pn) kids && labs_nparb kids ok && flags_fromb c ok
  | 1 => (npar c =? length pn)%nat && (1 <=? length kids)%nat && forallb (kid_wfb pn) kids && labs_nparb kids ok &&
         forallb (fun m => 0 <=? m) (kid_mins kids) && flags_fromb c ok
  | 2 => (idx <? length kids)%nat && (nth idx ok O =? c)%nat && (npar op =? length pn)%nat && nodupb pn &&
         forallb (kid_wfb pn) kids && labs_nparb kids ok && flip_okb pn ki && siblings_vposb idx ok &&
         negb (vpos c) && negb (kpos c)
  | 3 => (idx <? length kids)%nat && (2 <=? length kids)%nat && (nth idx ok O =? c)%nat &&
         (npar op =? length pn)%nat && labs_nparb kids ok &&
         (((1 <=? length pn)%nat && forallb (kid_wfb pn) kids && values_inb (k_dict ki) (k_names ki) &&
           names_coveredb (k_names ki) (k_dict ki))
          || (is_nil pn && forallb no_params kids)) &&
         forallb (fun m => 0 <=? m) (kid_mins kids) && siblings_fullb idx ok && vpos c && negb (kpos c)
  | 4 => match first_nonempty kids with
         | Some ci => (ci <? length ok)%nat && (npar c =? length pn)%nat && kid_wfb pn (nth ci kids default_kid) &&
                      (npar (nth ci ok O) =? length (k_names (nth ci kids default_kid)))%nat &&
                      flags_fromb c [nth ci ok O]
         | None => false
         end
  | 5 => match first_nonempty kids with Some i => (i =? idx)%nat | None => false end &&
         (npar op =? length pn)%nat && (npar c =? length (k_names ki))%nat && nodupb pn && flip_okb pn ki &&
         negb (vpos c) && negb (kpos c)
  | 6 => match c_steps d with
         | s0 :: _ =>
             match fold_left path_dict_step (c_steps d) (Ok (id_dict (step_source s0))) with
             | Ok D => wf_dictb (step_source s0) (step_target (last (c_steps d) s0)) D &&
                       (npar c =? length (step_source s0))%nat &&
                       (npar (c_last d) =? length (step_target (last (c_steps d) s0)))%nat &&
                       flags_fromb c [c_last d]
             | Err _ => false
             end
         | [] => false
         end
  | 7 => forallb (fun n => table_shapeb c (tab_at (c_table d) (Z.of_nat n))) (seq 0 (Z.to_nat (Hz + 1)))
  | _ => false
  end.

Variable T : nat -> Z -> terms.

(* what rule_contract says about the TRUE tables (not decidable from the descriptor) *)
Definition contract_sem (c : nat) (d : cdesc) : Prop :=
  let pn := c_pnames d in let kids := c_kids d in let ok := c_ok d in
  let idx := c_idx d in let op := c_op d in
  let ki := nth idx kids default_kid in
  match c_form d with
  | 0 => forall n, 0 <= n -> union_genuine (map (kid_sem pn) kids) (map (fun l => T l n) ok) (T c n)
  | 1 => Vanish (map T ok) (kid_mins kids) (kid_maxs kids) /\
         (forall n, 0 <= n -> product_genuine (map (kid_sem pn) kids) (map T ok) (T c n) n)
  | 2 => forall n, 0 <= n -> union_genuine (map (kid_sem pn) kids) (map (fun l => T l n) ok) (T op n)
  | 3 => Vanish (map T ok) (kid_mins kids) (kid_maxs kids) /\
         (forall m, 0 <= m -> product_genuine (map (kid_sem pn) kids) (map T ok) (T op m) m) /\
         hprod (remove_at idx (map T ok)) (remove_at idx (kid_mins kids)) <> 0
  | 4 => forall ci, first_nonempty kids = Some ci ->
         forall n, 0 <= n -> union_genuine [kid_sem pn (nth ci kids default_kid)] [T (nth ci ok O) n] (T c n)
  | 5 => forall n, 0 <= n -> union_genuine [kid_sem pn ki] [T c n] (T op n)
  | 6 => forall s0 rest D, c_steps d = s0 :: rest ->
         fold_left path_dict_step (c_steps d) (Ok (id_dict (step_source s0))) = Ok D ->
         forall n, 0 <= n ->
           union_genuine [dict_sem (step_source s0) (step_target (last (c_steps d) s0)) D] [T (c_last d) n] (T c n)
  | 7 => forall n, 0 <= n <= Hz -> teq (tab_at (c_table d) n) (T c n)
  | _ => True
  end.

Ltac split_andb H :=
  repeat match type of H with
         | (_ && _) = true => let H' := fresh "B" in apply andb_prop in H as [H H']
         end.

Theorem rule_contract_of_parts c d :
  contract_shapeb c d = true -> contract_sem c d -> rule_contract T npar vpos kpos Hz c d.
Proof.
  unfold contract_shapeb, contract_sem, rule_contract. cbv zeta.
  form_cases (c_form d); try (intros H; discriminate H).
  - (* 0 union *)
    intros H S. split_andb H. apply Nat.eqb_eq in H.
    split; [exact H|]. split; [apply (forallb_Forall _ _ _ (kid_wfb_sound _) B1)|].
    split; [apply labs_nparb_sound; exact B0|]. split; [exact S|apply flags_fromb_sound; exact B].
  - (* 7 verified *)
    intros H S n Hn. pose proof (forallb_In _ _ H (Z.to_nat n)) as Hx. simpl in Hx.
    assert (In (Z.to_nat n) (seq 0 (Z.to_nat (Hz + 1)))) as Hin by (apply in_seq; lia). specialize (Hx Hin).
    rewrite Z2Nat.id in Hx by lia. apply table_shapeb_sound in Hx as (K1 & K2 & K3).
    split; [apply S; exact Hn|]. split; [exact K1|]. split; assumption.
  - (* 5 equivalence of a reverse union *)
    intros H S. split_andb H.
    destruct (first_nonempty (c_kids d)) as [i|]; [|discriminate]. apply Nat.eqb_eq in H. subst i.
    apply Nat.eqb_eq in B4. apply Nat.eqb_eq in B3. apply negb_true_iff in B. apply negb_true_iff in B0.
    split; [reflexivity|]. split; [exact B4|]. split; [exact B3|]. split; [apply nodupb_sound; exact B2|].
    split; [apply flip_okb_sound; exact B1|]. split; [exact S|]. split; assumption.
  - (* 3 Quotient *)
    intros H (S1 & S2 & S3). split_andb H.
    apply Nat.ltb_lt in H. apply Nat.leb_le in B7. apply Nat.eqb_eq in B6. apply Nat.eqb_eq in B5.
    apply negb_true_iff in B.
    split; [exact H|]. split; [exact B7|]. split; [exact B6|]. split; [exact B5|].
    split; [apply labs_nparb_sound; exact B4|]. split.
    { apply orb_prop in B3 as [P|P]; [left|right]; split_andb P.
      - apply Nat.leb_le in P. split; [exact P|]. split; [apply (forallb_Forall _ _ _ (kid_wfb_sound _) B9)|].
        split; [apply values_inb_sound; exact B8|apply names_coveredb_sound; exact B3].
      - split; [destruct (c_pnames d); [reflexivity|discriminate]|].
        apply (forallb_Forall no_params _ _); [|exact B3]. intros k Hk. unfold no_params in Hk.
        destruct (k_names k); [|discriminate]. destruct (k_dict k); [auto|discriminate]. }
    split; [apply (forallb_Forall (fun m => 0 <=? m) _ _); [intros m Hm; apply Z.leb_le; exact Hm|exact B2]|].
    split; [exact S1|]. split; [exact S2|]. split; [exact S3|].
    split; [apply siblings_fullb_sound; exact B1|]. split; assumption.
  - (* 6 path *)
    intros H S. destruct (c_steps d) as [|s0 rest] eqn:Es; [discriminate|].
    destruct (fold_left path_dict_step (s0 :: rest) (Ok (id_dict (step_source s0)))) as [D|e] eqn:EF; [|discriminate].
    split_andb H. apply Nat.eqb_eq in B1. apply Nat.eqb_eq in B0.
    exists s0, rest, D. split; [reflexivity|]. split; [exact EF|].
    split; [apply wf_dictb_sound; exact H|]. split; [exact B1|]. split; [exact B0|].
    split; [apply (S s0 rest D eq_refl EF)|apply flags_fromb_sound; exact B].
  - (* 4 equivalence of a union *)
    intros H S. destruct (first_nonempty (c_kids d)) as [ci|]; [|discriminate]. split_andb H.
    apply Nat.ltb_lt in H. apply Nat.eqb_eq in B2. apply Nat.eqb_eq in B0.
    exists ci. split; [reflexivity|]. split; [exact H|]. split; [exact B2|]. split; [apply kid_wfb_sound; exact B1|].
    split; [exact B0|]. split; [apply (S ci eq_refl)|apply flags_fromb_sound; exact B].
  - (* 2 Complement *)
    intros H S. split_andb H.
    apply Nat.ltb_lt in H. apply Nat.eqb_eq in B7. apply Nat.eqb_eq in B6.
    apply negb_true_iff in B. apply negb_true_iff in B0.
    split; [exact H|]. split; [exact B7|]. split; [exact B6|]. split; [apply nodupb_sound; exact B5|].
    split; [apply (forallb_Forall _ _ _ (kid_wfb_sound _) B4)|]. split; [apply labs_nparb_sound; exact B3|].
    split; [apply flip_okb_sound; exact B2|]. split; [exact S|].
    split; [apply siblings_vposb_sound; exact B1|]. split; assumption.
  - (* 1 product *)
    intros H (S1 & S2). split_andb H. apply Nat.eqb_eq in H. apply Nat.leb_le in B3.
    split; [exact H|]. split; [exact B3|]. split; [apply (forallb_Forall _ _ _ (kid_wfb_sound _) B2)|].
    split; [apply labs_nparb_sound; exact B1|].
    split; [apply (forallb_Forall (fun m => 0 <=? m) _ _); [intros m Hm; apply Z.leb_le; exact Hm|exact B0]|].
    split; [exact S1|]. split; [exact S2|apply flags_fromb_sound; exact B].
Qed.

(* nothing is lost: the semantic part is a consequence of the contract *)
Theorem rule_contract_sem c d : rule_contract T npar vpos kpos Hz c d -> contract_sem c d.
Proof.
  unfold contract_sem, rule_contract. cbv zeta.
  form_cases (c_form d); try (intros _; exact Logic.I).
  - intros (_ & _ & _ & S & _). exact S.
  - intros S n Hn. destruct (S n Hn) as (S1 & _). exact S1.
  - intros (_ & _ & _ & _ & _ & S & _). exact S.
  - intros (_ & _ & _ & _ & _ & _ & _ & S1 & S2 & S3 & _). auto.
  - intros (s0 & rest & D & E1 & E2 & _ & _ & _ & S & _) s0' rest' D' E1' E2'.
    rewrite E1 in E1'. inversion E1'; subst s0' rest'. rewrite E2 in E2'. inversion E2'; subst D'. exact S.
  - intros (ci & E & _ & _ & _ & _ & S & _) ci' E'. rewrite E in E'. inversion E'; subst ci'. exact S.
  - intros (_ & _ & _ & _ & _ & _ & _ & S & _). exact S.
  - intros (_ & _ & _ & _ & _ & S1 & S2 & _). auto.
Qed.

(* all classes of a descriptor list *)
Definition all_contract_shapeb (ds : list cdesc) : bool :=
  forallb (fun cd : nat * cdesc => contract_shapeb (fst cd) (snd cd)) (combine (seq 0 (length ds)) ds).

End Shape.

Lemma nth_error_combine_seq {A} : forall (l : list A) s c x,
  nth_error l c = Some x -> In ((s + c)%nat, x) (combine (seq s (length l)) l).
Proof.
  induction l as [|y l IH]; intros s [|c] x H; simpl in H; try discriminate.
  - inversion H; subst. simpl. left. f_equal. lia.
  - simpl. right. replace (s + S c)%nat with (S s + c)%nat by lia. apply IH. exact H.
Qed.

Theorem all_contract_shapeb_sound npar vpos kpos Hz T ds :
  all_contract_shapeb npar vpos kpos Hz ds = true ->
  (forall c d, nth_error ds c = Some d -> contract_sem Hz T c d) ->
  forall c d, nth_error ds c = Some d -> rule_contract T npar vpos kpos Hz c d.
Proof.
  intros H S c d Hd. apply rule_contract_of_parts; [|apply (S c d Hd)].
  pose proof (forallb_In _ _ H (c, d)) as Hx. simpl in Hx. apply Hx.
  apply (nth_error_combine_seq ds 0 c d Hd).
Qed.

(* ---------------------------------------------------------------- 3. a candidate flag assignment
   vpos l: the raw table the evaluator computes for class l has no negative entry;
   kpos l: its keys are tuples of naturals.  Complement's raw output has neither shape, Quotient's keys need
   not be naturals; every other form inherits the flags of the classes it reads.  Start from "all true" and
   lower until stable (length ds rounds suffice; the soundness theorem above does not depend on that). *)
Definition flag_at (l : list bool) (c : nat) : bool := nth c l false.

Definition table_nonneg (d : cdesc) (Hz : Z) : bool :=
  forallb (fun n => forallb (fun e : entry => 0 <=? snd e) (tab_at (c_table d) (Z.of_nat n))) (seq 0 (Z.to_nat (Hz + 1))).
Definition table_knonneg (d : cdesc) (Hz : Z) : bool :=
  forallb (fun n => forallb (fun e : entry => forallb (fun x => 0 <=? x) (fst e)) (tab_at (c_table d) (Z.of_nat n)))
          (seq 0 (Z.to_nat (Hz + 1))).

Definition flag_step (Hz : Z) (ds : list cdesc) (vk : list bool * list bool) : list bool * list bool :=
  let '(vp, kp) := vk in
  let one (d : cdesc) : bool * bool :=
    match c_form d with
    | 0 | 1 => (forallb (flag_at vp) (c_ok d), forallb (flag_at kp) (c_ok d))
    | 2 | 5 => (false, false)
    | 3 => (true, false)
    | 4 => match first_nonempty (c_kids d) with
           | Some ci => (flag_at vp (nth ci (c_ok d) O), flag_at kp (nth ci (c_ok d) O))
           | None => (false, false)
           end
    | 6 => (flag_at vp (c_last d), flag_at kp (c_last d))
    | 7 => (table_nonneg d Hz, table_knonneg d Hz)
    | _ => (false, false)
    end in
  (map (fun d => fst (one d)) ds, map (fun d => snd (one d)) ds).

Fixpoint flag_iter (fuel : nat) (Hz : Z) (ds : list cdesc) (vk : list bool * list bool) : list bool * list bool :=
  match fuel with
  | O => vk
  | S f => flag_iter f Hz ds (flag_step Hz ds vk)
  end.

Definition flags_of (Hz : Z) (ds : list cdesc) : list bool * list bool :=
  flag_iter (S (length ds)) Hz ds (repeat true (length ds), repeat true (length ds)).
