(* Proofs about the model of CombinatorialSpecification._group_equiv_in_path (Spec/Grouping.v):
   for every input satisfying wf_input (Spec/GroupingWf.v) the loop with its explicit stack
   never trips an assert, finishes within group_fuel turns, and its result is characterised
   class by class.  d0 is the rules dictionary after _ungroup_equiv_path. *)
From Coq Require Import ZArith List Bool Lia.
From CSS Require Import Spec.Grouping Spec.GroupingWf Spec.GroupingFacts.
Import ListNotations.

Section Proofs.
Variable is_empty : nat -> bool.
Variable root : nat.
Variable d0 : dict.
Hypothesis WF0 : wf_input is_empty root d0. (* in-section *)

Definition nh : list nat := not_hidden root d0.

Lemma wf_nodup : NoDup (map fst d0).
Proof. destruct WF0 as (_ & (H & _) & _). exact H. Qed.

Lemma d0_In k g : dget k d0 = Some g <-> In (k, g) d0.
Proof. split; [apply dget_In|apply In_dget; apply wf_nodup]. Qed.

(* every entry of d0 is a plain rule sitting under its own class *)
Lemma d0_plain k g : dget k d0 = Some g -> exists r, g = GB r /\ b_cls r = k.
Proof.
  intros H. apply d0_In in H. destruct WF0 as (Hp & (_ & Hk) & _).
  specialize (Hp _ _ H). specialize (Hk _ _ H). destruct g as [r|r0 rs]; [|discriminate].
  exists r. split; auto.
Qed.

Lemma root_nh : mem root nh = true.
Proof. apply mem_In. left. reflexivity. Qed.

Lemma noneq_nh c r : dget c d0 = Some (GB r) -> b_eqv r = false ->
  mem c nh = true /\ forall k, In k (b_ch r) -> mem k nh = true.
Proof.
  intros H He. pose proof (d0_plain _ _ H) as (r' & [= <-] & Hc). apply d0_In in H.
  assert (forall x, In x (b_cls r :: b_ch r) -> mem x nh = true) as G.
  { intros x Hx. apply mem_In. right. apply in_flat_map. exists (c, GB r). split; auto.
    simpl. rewrite He. exact Hx. }
  split; [rewrite <- Hc; apply G; left; reflexivity|]. intros k Hk. apply G. right; auto.
Qed.

Lemma hidden_eqv c r : dget c d0 = Some (GB r) -> mem c nh = false -> b_eqv r = true.
Proof.
  intros H Hh. destruct (b_eqv r) eqn:E; auto.
  destruct (noneq_nh _ _ H E) as [A _]. congruence.
Qed.

Lemma eqv_unary c r : dget c d0 = Some (GB r) -> b_eqv r = true ->
  exists y gy, b_ch r = [y] /\ dget y d0 = Some gy.
Proof.
  intros H He. apply d0_In in H. destruct WF0 as (_ & _ & Hu & _).
  destruct (Hu _ _ H He) as (y & Hy & Hm). apply dmem_dget in Hm as (gy & Hgy). exists y, gy. auto.
Qed.

(* the rule get_rule hands out for a class: its entry, or the lazily added empty rule *)
Definition eff (c : nat) : option grule :=
  match dget c d0 with
  | Some g => Some g
  | None => if is_empty c then Some (empty_rule c) else None
  end.

Lemma eff_plain c g : eff c = Some g -> exists r, g = GB r /\ b_cls r = c.
Proof.
  unfold eff. destruct (dget c d0) eqn:E.
  - intros [= <-]. eapply d0_plain; eauto.
  - destruct (is_empty c); [|discriminate]. intros [= <-]. eexists. split; reflexivity.
Qed.

Lemma eff_d0 c g : dget c d0 = Some g -> eff c = Some g.
Proof. unfold eff. intros ->. reflexivity. Qed.

Lemma eff_eqv_d0 c r : eff c = Some (GB r) -> b_eqv r = true -> dget c d0 = Some (GB r).
Proof.
  unfold eff. destruct (dget c d0) eqn:E; [intros [= ->]; auto|].
  destruct (is_empty c); [|discriminate]. intros [= <-]. discriminate.
Qed.

Lemma closed0 c g k : dget c d0 = Some g -> In k (g_ch g) -> eff k <> None.
Proof.
  intros H Hk. apply d0_In in H. destruct WF0 as (_ & _ & _ & Hc & _).
  unfold eff. destruct (Hc _ _ _ H Hk) as [A|A].
  - apply dmem_dget in A as (gk & ->). discriminate.
  - destruct (dget k d0); [discriminate|]. rewrite A. discriminate.
Qed.

Lemma eff_kids c g k : eff c = Some g -> In k (g_ch g) -> eff k <> None.
Proof.
  unfold eff at 1. destruct (dget c d0) eqn:E.
  - intros [= <-]. eapply closed0; eauto.
  - destruct (is_empty c); [|discriminate]. intros [= <-]. simpl. tauto.
Qed.

Lemma eff_noneq_nh c r : eff c = Some (GB r) -> b_eqv r = false -> mem c nh = true ->
  forall k, In k (b_ch r) -> mem k nh = true.
Proof.
  unfold eff. destruct (dget c d0) eqn:E.
  - intros [= ->] He _. eapply noneq_nh; eauto.
  - destruct (is_empty c); [|discriminate]. intros [= <-]. simpl. tauto.
Qed.

(* ------------------------------------------------------------ the dictionary during the loop *)
Definition dict_ok (d : dict) : Prop :=
  NoDup (map fst d) /\
  exists extra, d = d0 ++ extra /\
    forall k g, In (k, g) extra -> g = empty_rule k /\ dget k d0 = None /\ is_empty k = true.

Lemma dict_ok_d0 : dict_ok d0.
Proof.
  split; [apply wf_nodup|]. exists []. split; [rewrite app_nil_r; reflexivity|]. intros k g [].
Qed.

Lemma dict_ok_dget d c g : dict_ok d -> dget c d = Some g -> eff c = Some g.
Proof.
  intros (_ & extra & -> & Hx) H. unfold eff. destruct (dget c d0) eqn:E.
  - rewrite (dget_app_some _ _ _ _ E) in H. exact H.
  - rewrite (dget_app_none _ _ _ E) in H. apply dget_In in H.
    destruct (Hx _ _ H) as (-> & _ & ->). reflexivity.
Qed.

Lemma dict_ok_get d c g : dict_ok d -> eff c = Some g ->
  exists d', get_rule is_empty d c = XOk (d', g) /\ dict_ok d' /\ dget c d' = Some g /\
             forall k, dmem k d = true -> dmem k d' = true.
Proof.
  intros Hd He. unfold get_rule. destruct (dget c d) as [g'|] eqn:E.
  - rewrite (dict_ok_dget _ _ _ Hd E) in He. injection He as ->. exists d. csplit; auto.
  - destruct Hd as (Hn & extra & -> & Hx). unfold eff in He. destruct (dget c d0) eqn:E0.
    + rewrite (dget_app_some _ _ _ _ E0) in E. discriminate.
    + destruct (is_empty c) eqn:Em; [|discriminate]. injection He as <-.
      exists ((d0 ++ extra) ++ [(c, empty_rule c)]). csplit; [reflexivity| | |].
      * split.
        -- rewrite map_app. cbn [map fst]. apply NoDup_snoc; auto. apply dget_None. exact E.
        -- exists (extra ++ [(c, empty_rule c)]). split; [rewrite app_assoc; reflexivity|].
           intros k g Hin. apply in_app_or in Hin as [Hin|[[= <- <-]|[]]]; auto.
      * rewrite (dget_app_none _ _ _ E). rewrite dget_cons, Nat.eqb_refl. reflexivity.
      * intros k Hk. apply dmem_dget in Hk as (g & Hg). apply dmem_dget. exists g.
        apply dget_app_some. exact Hg.
Qed.

Lemma dict_ok_keeps d c g : dict_ok d -> dget c d0 = Some g -> dget c d = Some g.
Proof. intros (_ & extra & -> & _) H. apply dget_app_some. exact H. Qed.

(* ------------------------------------------------------------ chains of equivalence rules *)
(* rchain p c y: p = path_rules, LAST appended first; the chain starts at class c, its rules are the
   entries of d0 of the classes it goes through, all classes after c are hidden, it ends with child y *)
Inductive rchain : list brule -> nat -> nat -> Prop :=
| rc_one : forall r y, dget (b_cls r) d0 = Some (GB r) -> b_eqv r = true -> b_ch r = [y] ->
    rchain [r] (b_cls r) y
| rc_cons : forall r y p c, rchain p c (b_cls r) -> mem (b_cls r) nh = false ->
    dget (b_cls r) d0 = Some (GB r) -> b_eqv r = true -> b_ch r = [y] -> rchain (r :: p) c y.

Lemma rchain_det p : forall c y c' y', rchain p c y -> rchain p c' y' -> c = c' /\ y = y'.
Proof.
  induction p as [|r p IH]; intros c y c' y' H1 H2; inversion H1; inversion H2; subst; try congruence.
  - split; congruence.
  - match goal with H : rchain [] _ _ |- _ => inversion H end.
  - match goal with H : rchain [] _ _ |- _ => inversion H end.
  - match goal with A : rchain p c _, B : rchain p c' _ |- _ => destruct (IH _ _ _ _ A B) as [-> _] end.
    split; congruence.
Qed.

Lemma rchain_nonempty p c y : rchain p c y -> p <> [].
Proof. intros H; inversion H; discriminate. Qed.

Lemma rchain_head p c y : rchain p c y -> exists r p', p = r :: p' /\ b_ch r = [y].
Proof. intros H; inversion H; subst; eauto. Qed.

(* what EquivalencePathRule.__init__ checks, and the class of the path *)
Lemma rchain_rev p c y : rchain p c y ->
  forallb b_eqv (rev p) = true /\
  forallb (fun r => Nat.eqb (length (b_ch r)) 1) (rev p) = true /\
  exists r0 rs, rev p = r0 :: rs /\ b_cls r0 = c.
Proof.
  induction 1 as [r y H He Hc|r y p c Hp IH Hh H He Hc].
  - simpl. rewrite He, Hc. simpl. csplit; auto. eauto.
  - destruct IH as (A & B & r0 & rs & E & Hr0). simpl. rewrite !forallb_app, A, B. simpl.
    rewrite He, Hc. simpl. csplit; auto. rewrite E. simpl. eauto.
Qed.

Lemma mk_path_rchain p c y : rchain p c y ->
  exists r0 rs, rev p = r0 :: rs /\ b_cls r0 = c /\ mk_path (rev p) = XOk (GP r0 rs).
Proof.
  intros H. destruct (rchain_rev _ _ _ H) as (A & B & r0 & rs & E & Hc).
  exists r0, rs. csplit; auto. unfold mk_path. rewrite A, B. simpl. rewrite E. reflexivity.
Qed.

(* ------------------------------------------------------------ the measure *)
Fixpoint hl (fuel : nat) (x : nat) : nat :=
  if mem x nh then 0
  else match fuel with
       | O => 0
       | S f => match dget x d0 with
                | Some (GB r) => match b_ch r with [y] => S (hl f y) | _ => 0 end
                | _ => 0
                end
       end.
Definition hh (x : nat) : nat := hl (length d0) x.

Lemma hl_le f : forall x, hl f x <= f.
Proof.
  induction f as [|f IH]; intros x; cbn [hl]; destruct (mem x nh); try lia.
  destruct (dget x d0) as [[r|]|]; try lia. destruct (b_ch r) as [|y [|]]; try lia.
  pose proof (IH y). lia.
Qed.

Lemma hl_nh f x : mem x nh = true -> hl f x = 0.
Proof. intros H. destruct f; cbn [hl]; rewrite H; reflexivity. Qed.

Lemma hl_stable f : forall x n, chain_end f nh d0 x = Some n -> hl (S f) x = hl f x.
Proof.
  induction f as [|f IH]; intros x n H.
  - cbn [chain_end] in H. cbn [hl]. destruct (mem x nh); [reflexivity|discriminate].
  - cbn [chain_end] in H. cbn [hl]. destruct (mem x nh); [reflexivity|].
    destruct (dget x d0) as [[r|]|]; try discriminate.
    destruct (b_ch r) as [|y [|]]; try discriminate.
    f_equal. exact (IH _ _ H).
Qed.

Lemma d0_length_pos c g : dget c d0 = Some g -> exists f, length d0 = S f.
Proof. intros H. apply dget_In in H. destruct d0; [destruct H|]. simpl. eauto. Qed.

(* the child of an equivalence rule is at the start of a terminating chain *)
Lemma chain_child c r y : dget c d0 = Some (GB r) -> b_eqv r = true -> b_ch r = [y] ->
  exists n, chain_end (length d0) nh d0 y = Some n.
Proof.
  intros H He Hy. apply d0_In in H. destruct WF0 as (_ & _ & _ & _ & Hc & _).
  specialize (Hc _ _ y H He Hy). fold nh in Hc. destruct (chain_end (length d0) nh d0 y); [eauto|congruence].
Qed.

Lemma hh_step x r y : mem x nh = false -> dget x d0 = Some (GB r) -> b_ch r = [y] ->
  (exists n, chain_end (length d0) nh d0 x = Some n) -> hh x = S (hh y).
Proof.
  intros Hx H Hy (n & Hn). unfold hh. destruct (d0_length_pos _ _ H) as (f & Hf). rewrite Hf in *.
  cbn [chain_end] in Hn. rewrite Hx, H, Hy in Hn.
  cbn [hl]. rewrite Hx, H, Hy. f_equal. symmetry. eapply hl_stable; eauto.
Qed.

Lemma chain_end_next x r y n f : mem x nh = false -> dget x d0 = Some (GB r) -> b_ch r = [y] ->
  chain_end (S f) nh d0 x = Some n -> chain_end f nh d0 y = Some n.
Proof. intros Hx H Hy Hn. cbn [chain_end] in Hn. rewrite Hx, H, Hy in Hn. exact Hn. Qed.

Definition sum (l : list nat) : nat := fold_right plus 0 l.
Lemma sum_app a b : sum (a ++ b) = sum a + sum b.
Proof. induction a; simpl; lia. Qed.
Lemma sum_rev a : sum (rev a) = sum a.
Proof. induction a; simpl; auto. rewrite sum_app. simpl. lia. Qed.

Definition ekids (c : nat) : list nat := match eff c with Some g => g_ch g | None => [] end.
Definition wt (c : nat) : nat := sum (map (fun k => S (hh k)) (ekids c)).
Definition unvisited (vis l : list nat) : list nat := filter (fun c => negb (mem c vis)) l.
Definition Phi (s : lstate) : nat :=
  sum (map (fun x => S (hh x)) (l_stack s)) + sum (map wt (unvisited (l_visited s) nh)).

Lemma sum_filter_le (w : nat -> nat) (p q : nat -> bool) l :
  (forall x, p x = true -> q x = true) ->
  sum (map w (filter p l)) <= sum (map w (filter q l)).
Proof.
  intros H. induction l as [|z l IH]; cbn [filter]; auto.
  destruct (p z) eqn:E.
  - rewrite (H _ E). unfold sum in *. cbn [map fold_right]. lia.
  - destruct (q z); unfold sum in *; cbn [map fold_right]; lia.
Qed.

Lemma mem_cons x c vis : mem x (c :: vis) = Nat.eqb x c || mem x vis.
Proof. reflexivity. Qed.

Lemma unvisited_visit c vis l : In c l -> mem c vis = false ->
  sum (map wt (unvisited (c :: vis) l)) + wt c <= sum (map wt (unvisited vis l)).
Proof.
  induction l as [|x l IH]; [intros []|]. intros Hin Hv. unfold unvisited in *. cbn [filter].
  rewrite mem_cons.
  destruct (Nat.eqb x c) eqn:E.
  - apply Nat.eqb_eq in E. subst x. rewrite Hv. cbn [orb negb].
    pose proof (sum_filter_le wt (fun c0 => negb (mem c0 (c :: vis))) (fun c0 => negb (mem c0 vis)) l) as G.
    assert (forall x, negb (mem x (c :: vis)) = true -> negb (mem x vis) = true) as G0.
    { intros x. rewrite mem_cons. destruct (Nat.eqb x c), (mem x vis); simpl; auto. }
    specialize (G G0). unfold sum in *. cbn [map fold_right]. lia.
  - cbn [orb]. destruct Hin as [->|Hin]; [rewrite Nat.eqb_refl in E; discriminate|].
    specialize (IH Hin Hv). destruct (mem x vis); cbn [negb]; unfold sum in *; cbn [map fold_right]; lia.
Qed.

Lemma unvisited_hidden c vis l : ~ In c l -> unvisited (c :: vis) l = unvisited vis l.
Proof.
  induction l as [|x l IH]; auto. intros Hn. unfold unvisited in *. cbn [filter].
  rewrite mem_cons. destruct (Nat.eqb x c) eqn:E.
  - apply Nat.eqb_eq in E. subst. exfalso. apply Hn. left; auto.
  - cbn [orb]. rewrite IH; auto. intros H. apply Hn. right; auto.
Qed.

(* ------------------------------------------------------------ the loop invariant *)
Definition vis_or_stack (s : lstate) (x : nat) : Prop := In x (l_visited s) \/ In x (l_stack s).

Record Inv (s : lstate) : Prop := mkInv {
  i_dict : dict_ok (l_dict s);
  i_eff : forall c, In c (l_stack s) -> eff c <> None;
  i_shape :
    (l_path s = [] /\ forall c, In c (l_stack s) -> mem c nh = true) \/
    (exists c y rest, rchain (l_path s) c y /\ mem c nh = true /\ In c (l_visited s) /\
        l_stack s = y :: rest /\ forall x, In x rest -> mem x nh = true);
  i_eqv : forall c g, dget c (l_eqv s) = Some g ->
    exists r0 rs y, g = GP r0 rs /\ rchain (rev (r0 :: rs)) c y /\ mem c nh = true /\ mem y nh = true /\
      In c (l_visited s) /\ vis_or_stack s y;
  i_vis : forall c r, In c (l_visited s) -> mem c nh = true -> eff c = Some (GB r) ->
    if b_eqv r then (dmem c (l_eqv s) = true \/ exists y, rchain (l_path s) c y)
    else forall k, In k (b_ch r) -> vis_or_stack s k;
  i_root : vis_or_stack s root;
  i_nodup : NoDup (map fst (l_eqv s));
  i_vd : forall c, In c (l_visited s) -> dmem c (l_dict s) = true
}.

(* the part of a turn after the `if path_rules and ...` block *)
Definition pop_step (s1 : lstate) : xres (option lstate) :=
  match l_stack s1 with
  | [] => XOk None
  | c :: rest =>
      if mem c nh && mem c (l_visited s1) then
        XOk (Some (mkL rest (l_visited s1) (l_path s1) (l_eqv s1) (l_dict s1)))
      else
        dr <-- get_rule is_empty (l_dict s1) c ;;
        let '(d', g) := dr in
        let stack' := rev (g_ch g) ++ rest in
        let vis' := c :: l_visited s1 in
        match g with
        | GB r =>
            if b_eqv r then
              e <-- path_end (l_path s1) ;;
              if match e with Some c0 => Nat.eqb c0 (b_cls r) | None => true end
              then XOk (Some (mkL stack' vis' (r :: l_path s1) (l_eqv s1) d'))
              else XErr XAssertChain
            else XOk (Some (mkL stack' vis' (l_path s1) (l_eqv s1) d'))
        | GP _ _ => XOk (Some (mkL stack' vis' (l_path s1) (l_eqv s1) d'))
        end
  end.

Lemma loop_step_unfold s : l_stack s <> [] ->
  loop_step is_empty nh s = (s1 <-- close_path nh s ;; pop_step s1).
Proof. intros H. unfold loop_step. destruct (l_stack s); [congruence|reflexivity]. Qed.

(* the state is ready for the pop: no open path, or the open path continues at a hidden top *)
Definition ready (s : lstate) : Prop :=
  l_path s = [] \/ exists y rest, l_stack s = y :: rest /\ mem y nh = false.

Lemma close_ok s : Inv s -> l_stack s <> [] ->
  exists s1, close_path nh s = XOk s1 /\ Inv s1 /\ ready s1 /\
             l_stack s1 = l_stack s /\ l_visited s1 = l_visited s.
Proof.
  intros I Hne. destruct (i_shape s I) as [[Hp Hs]|(c & y & rest & Hc & Hcn & Hcv & Hst & Hrest)].
  - exists s. unfold close_path. rewrite Hp. simpl. csplit; auto. left; auto.
  - destruct (rchain_head _ _ _ Hc) as (r & p' & Ep & Hy).
    assert (path_end (l_path s) = XOk (Some y)) as Hpe.
    { rewrite Ep. unfold path_end. rewrite Hy. reflexivity. }
    unfold close_path. rewrite Hpe. cbn [xbind]. destruct (mem y nh) eqn:Ey.
    + destruct (mk_path_rchain _ _ _ Hc) as (r0 & rs & Er & Hr0 & Hmk). rewrite Hmk. cbn [xbind g_cls].
      eexists. split; [reflexivity|]. cbn [l_stack l_visited]. csplit; auto; [|left; reflexivity].
      constructor; cbn [l_dict l_stack l_path l_eqv l_visited].
      * apply (i_dict s I).
      * apply (i_eff s I).
      * left. split; auto. rewrite Hst. intros x [<-|Hx]; auto.
      * intros c1 g. rewrite dget_dset. rewrite Hr0. destruct (Nat.eqb c1 c) eqn:E.
        -- apply Nat.eqb_eq in E. subst c1. intros [= <-]. exists r0, rs, y. csplit; auto.
           ++ rewrite <- Er, rev_involutive. exact Hc.
           ++ right. unfold vis_or_stack; cbn [l_stack]. rewrite Hst. left; reflexivity.
        -- intros Hg. destruct (i_eqv s I _ _ Hg) as (a & b & z & ? & ? & ? & ? & ? & Hv).
           exists a, b, z. csplit; auto.
      * intros c1 r1 Hv Hn He. pose proof (i_vis s I c1 r1 Hv Hn He) as G.
        destruct (b_eqv r1); [|exact G]. left. rewrite Hr0.
        destruct G as [G|(y1 & G)].
        -- apply dmem_dget in G as (g & G). apply dmem_dget. rewrite dget_dset.
           destruct (Nat.eqb c1 c); eauto.
        -- destruct (rchain_det _ _ _ _ _ G Hc) as [-> _]. apply dmem_dget. rewrite dget_dset_same. eauto.
      * apply (i_root s I).
      * apply dset_NoDup. apply (i_nodup s I).
      * apply (i_vd s I).
    + exists s. csplit; auto. right. exists y, rest. auto.
Qed.

Lemma In_rev_app {A} (x : A) a b : In x (rev a ++ b) <-> In x a \/ In x b.
Proof. rewrite in_app_iff, <- in_rev. tauto. Qed.

Lemma hh_nh x : mem x nh = true -> hh x = 0.
Proof. apply hl_nh. Qed.

Lemma stack_sum_push ch rest :
  sum (map (fun x => S (hh x)) (rev ch ++ rest)) =
  sum (map (fun x => S (hh x)) ch) + sum (map (fun x => S (hh x)) rest).
Proof. rewrite map_app, sum_app, map_rev, sum_rev. reflexivity. Qed.

Lemma pop_ok s : Inv s -> ready s -> l_stack s <> [] ->
  exists s', pop_step s = XOk (Some s') /\ Inv s' /\ Phi s' < Phi s.
Proof.
  intros I Hr Hne. unfold pop_step. destruct (l_stack s) as [|c rest] eqn:Est; [congruence|]. clear Hne.
  assert (forall x, vis_or_stack s x -> In x (c :: l_visited s) \/ In x rest) as Mono.
  { intros x [H|H]; [left; right; auto|]. rewrite Est in H. destruct H as [<-|H]; [left; left|right]; auto. }
  destruct (mem c nh) eqn:Ecn.
  - (* the top is not hidden: no path is open *)
    assert (l_path s = []) as Hp.
    { destruct Hr as [H|(y & rest' & H & Hy)]; auto. rewrite Est in H. injection H as <- <-. congruence. }
    assert (forall x, In x (c :: rest) -> mem x nh = true) as Hall.
    { destruct (i_shape s I) as [[_ H]|(c0 & y & r' & Hc & _)]; [rewrite Est in H; exact H|].
      rewrite Hp in Hc. inversion Hc. }
    destruct (mem c (l_visited s)) eqn:Ecv; cbn [andb].
    + (* already visited: skipped *)
      apply mem_In in Ecv.
      assert (forall x, vis_or_stack s x -> In x (l_visited s) \/ In x rest) as Mono'.
      { intros x Hx. destruct (Mono x Hx) as [[<-|H]|H]; auto. }
      eexists. split; [reflexivity|]. split.
      * constructor; cbn [l_dict l_stack l_path l_eqv l_visited].
        -- apply (i_dict s I).
        -- intros x Hx. apply (i_eff s I). rewrite Est. right; auto.
        -- left. split; auto. intros x Hx. apply Hall. right; auto.
        -- intros c1 g Hg. destruct (i_eqv s I _ _ Hg) as (a & b & z & ? & ? & ? & ? & ? & Hv).
           exists a, b, z. csplit; auto. apply Mono'. exact Hv.
        -- intros c1 r1 Hv Hn He. pose proof (i_vis s I c1 r1 Hv Hn He) as G.
           destruct (b_eqv r1); [exact G|]. intros k Hk. apply Mono'. apply G. exact Hk.
        -- apply Mono'. apply (i_root s I).
        -- apply (i_nodup s I).
        -- apply (i_vd s I).
      * unfold Phi. cbn [l_stack l_visited]. rewrite Est. cbn [map sum fold_right]. unfold sum. lia.
    + (* first visit of a class that is not hidden *)
      apply mem_false in Ecv.
      assert (eff c <> None) as Hec by (apply (i_eff s I); rewrite Est; left; auto).
      destruct (eff c) as [g|] eqn:Eg; [clear Hec|congruence].
      destruct (dict_ok_get _ _ _ (i_dict s I) Eg) as (d' & Hget & Hd' & Hcd' & Hmono). rewrite Hget. cbn [xbind].
      assert (forall x, In x (c :: l_visited s) -> dmem x d' = true) as Hvd.
      { intros x [<-|Hx]; [apply dmem_dget; eauto|apply Hmono, (i_vd s I); auto]. }
      destruct (eff_plain _ _ Eg) as (r & -> & Hrc).
      assert (sum (map wt (unvisited (c :: l_visited s) nh)) + wt c <= sum (map wt (unvisited (l_visited s) nh))) as Hw.
      { apply unvisited_visit; [apply mem_In; exact Ecn|apply mem_false; exact Ecv]. }
      assert (wt c = sum (map (fun k => S (hh k)) (b_ch r))) as Hwc.
      { unfold wt, ekids. rewrite Eg. reflexivity. }
      destruct (b_eqv r) eqn:Ee.
      * (* an equivalence rule: a path starts *)
        pose proof (eff_eqv_d0 _ _ Eg Ee) as Hd0.
        destruct (eqv_unary _ _ Hd0 Ee) as (y & gy & Hy & Hgy).
        rewrite Hp. cbn [path_end xbind]. eexists. split; [reflexivity|]. split.
        -- constructor; cbn [l_dict l_stack l_path l_eqv l_visited g_ch].
           ++ exact Hd'.
           ++ rewrite Hy. cbn [rev app]. intros x [<-|Hx].
              ** rewrite (eff_d0 _ _ Hgy). discriminate.
              ** apply (i_eff s I). rewrite Est. right; auto.
           ++ right. exists c, y, rest. rewrite Hy. cbn [rev app]. csplit; auto.
              ** rewrite <- Hrc. apply rc_one; auto. rewrite Hrc. exact Hd0.
              ** left; auto.
              ** intros x Hx. apply Hall. right; auto.
           ++ intros c1 g Hg. destruct (i_eqv s I _ _ Hg) as (a & b & z & ? & ? & ? & ? & ? & Hv).
              exists a, b, z. csplit; auto; [right; auto|].
              unfold vis_or_stack; cbn [l_stack l_visited]. rewrite Hy. cbn [rev app].
              destruct (Mono z Hv) as [H'|H']; [left; auto|right; right; auto].
           ++ intros c1 r1 [<-|Hv] Hn He.
              ** rewrite Eg in He. injection He as <-. rewrite Ee. right. exists y.
                 rewrite <- Hrc. apply rc_one; auto. rewrite Hrc. exact Hd0.
              ** pose proof (i_vis s I c1 r1 Hv Hn He) as G. destruct (b_eqv r1).
                 --- destruct G as [G|(y1 & G)]; [left; exact G|]. rewrite Hp in G. inversion G.
                 --- intros k Hk. unfold vis_or_stack; cbn [l_stack l_visited]. rewrite Hy. cbn [rev app].
                     destruct (Mono k (G k Hk)) as [H'|H']; [left; auto|right; right; auto].
           ++ unfold vis_or_stack; cbn [l_stack l_visited]. rewrite Hy. cbn [rev app].
              destruct (Mono root (i_root s I)) as [H'|H']; [left; auto|right; right; auto].
           ++ apply (i_nodup s I).
           ++ exact Hvd.
        -- unfold Phi. cbn [l_stack l_visited g_ch]. rewrite Est, stack_sum_push. cbn [map sum fold_right].
           rewrite (hh_nh c Ecn). unfold sum in *. lia.
      * (* any other rule: its children go on the stack *)
        eexists. split; [reflexivity|]. split.
        -- constructor; cbn [l_dict l_stack l_path l_eqv l_visited g_ch].
           ++ exact Hd'.
           ++ intros x Hx. apply In_rev_app in Hx as [Hx|Hx].
              ** eapply (eff_kids c (GB r)); eauto.
              ** apply (i_eff s I). rewrite Est. right; auto.
           ++ left. split; auto. intros x Hx. apply In_rev_app in Hx as [Hx|Hx].
              ** eapply eff_noneq_nh; eauto.
              ** apply Hall. right; auto.
           ++ intros c1 g Hg. destruct (i_eqv s I _ _ Hg) as (a & b & z & ? & ? & ? & ? & ? & Hv).
              exists a, b, z. csplit; auto; [right; auto|].
              unfold vis_or_stack; cbn [l_stack l_visited]. rewrite In_rev_app.
              destruct (Mono z Hv) as [H'|H']; auto.
           ++ intros c1 r1 [<-|Hv] Hn He.
              ** rewrite Eg in He. injection He as <-. rewrite Ee. intros k Hk.
                 right. cbn [l_stack]. apply In_rev_app. left; auto.
              ** pose proof (i_vis s I c1 r1 Hv Hn He) as G. destruct (b_eqv r1); [exact G|].
                 intros k Hk. unfold vis_or_stack; cbn [l_stack l_visited]. rewrite In_rev_app.
                 destruct (Mono k (G k Hk)) as [H'|H']; auto.
           ++ unfold vis_or_stack; cbn [l_stack l_visited]. rewrite In_rev_app.
              destruct (Mono root (i_root s I)) as [H'|H']; auto.
           ++ apply (i_nodup s I).
           ++ exact Hvd.
        -- unfold Phi. cbn [l_stack l_visited g_ch]. rewrite Est, stack_sum_push. cbn [map sum fold_right].
           rewrite (hh_nh c Ecn). unfold sum in *. lia.
  - (* a hidden class: the open path goes on *)
    cbn [andb].
    destruct (i_shape s I) as [[_ H]|(c0 & y & rest' & Hc & Hc0n & Hc0v & Hst & Hrest)].
    { rewrite Est in H. rewrite (H c) in Ecn; [discriminate|left; auto]. }
    rewrite Est in Hst. injection Hst as <- <-.
    (* c is the child of the last rule of the path: it has an equivalence rule of its own *)
    destruct (rchain_head _ _ _ Hc) as (rl & p' & Ep & Hyl).
    assert (exists c' , dget c' d0 = Some (GB rl) /\ b_eqv rl = true) as (cl & Hrl & Hel).
    { rewrite Ep in Hc. inversion Hc; subst; eauto. }
    destruct (eqv_unary _ _ Hrl Hel) as (y' & gy & Hy' & Hgy). rewrite Hyl in Hy'. injection Hy' as <-.
    destruct (d0_plain _ _ Hgy) as (r & -> & Hrc).
    pose proof (hidden_eqv _ _ Hgy Ecn) as Ee.
    destruct (eqv_unary _ _ Hgy Ee) as (z & gz & Hz & Hgz).
    destruct (dict_ok_get _ _ _ (i_dict s I) (eff_d0 _ _ Hgy)) as (d' & Hget & Hd' & Hcd' & Hmono). rewrite Hget. cbn [xbind].
    assert (forall x, In x (c :: l_visited s) -> dmem x d' = true) as Hvd.
    { intros x [<-|Hx]; [apply dmem_dget; eauto|apply Hmono, (i_vd s I); auto]. }
    rewrite Ee. rewrite Ep. unfold path_end. rewrite Hyl. cbn [xbind]. rewrite Hrc, Nat.eqb_refl. rewrite <- Ep.
    eexists. split; [reflexivity|]. cbn [g_ch]. rewrite Hz. cbn [rev app]. split.
    + constructor; cbn [l_dict l_stack l_path l_eqv l_visited].
      * exact Hd'.
      * intros x [<-|Hx]; [rewrite (eff_d0 _ _ Hgz); discriminate|].
        apply (i_eff s I). rewrite Est. right; auto.
      * right. exists c0, z, rest. csplit; auto; [|right; auto].
        apply rc_cons; rewrite ?Hrc; auto.
      * intros c1 g Hg. destruct (i_eqv s I _ _ Hg) as (a & b & z1 & ? & ? & ? & ? & ? & Hv).
        exists a, b, z1. csplit; auto; [right; auto|].
        unfold vis_or_stack; cbn [l_stack l_visited].
        destruct (Mono z1 Hv) as [H'|H']; [left; auto|right; right; auto].
      * intros c1 r1 [<-|Hv] Hn He; [congruence|].
        pose proof (i_vis s I c1 r1 Hv Hn He) as G. destruct (b_eqv r1).
        -- destruct G as [G|(y1 & G)]; [left; exact G|]. right.
           destruct (rchain_det _ _ _ _ _ G Hc) as [-> _]. exists z. apply rc_cons; rewrite ?Hrc; auto.
        -- intros k Hk. unfold vis_or_stack; cbn [l_stack l_visited].
           destruct (Mono k (G k Hk)) as [H'|H']; [left; auto|right; right; auto].
      * unfold vis_or_stack; cbn [l_stack l_visited].
        destruct (Mono root (i_root s I)) as [H'|H']; [left; auto|right; right; auto].
      * apply (i_nodup s I).
      * exact Hvd.
    + unfold Phi. cbn [l_stack l_visited]. rewrite Est. cbn [map sum fold_right].
      rewrite (unvisited_hidden c (l_visited s) nh) by (apply mem_false; exact Ecn).
      rewrite (hh_step c r z Ecn Hgy Hz (chain_child _ _ _ Hrl Hel Hyl)). unfold sum. lia.
Qed.

(* ------------------------------------------------------------ the whole loop *)
Lemma Phi_same s s1 : l_stack s1 = l_stack s -> l_visited s1 = l_visited s -> Phi s1 = Phi s.
Proof. intros A B. unfold Phi. rewrite A, B. reflexivity. Qed.

Lemma step_ok s : Inv s -> l_stack s <> [] ->
  exists s', loop_step is_empty nh s = XOk (Some s') /\ Inv s' /\ Phi s' < Phi s.
Proof.
  intros I Hne. rewrite (loop_step_unfold s Hne).
  destruct (close_ok s I Hne) as (s1 & Hc & I1 & Hr & Hs & Hv). rewrite Hc. cbn [xbind].
  assert (l_stack s1 <> []) as Hne1 by congruence.
  destruct (pop_ok s1 I1 Hr Hne1) as (s' & Hp & I' & Hlt). exists s'. csplit; auto.
  rewrite <- (Phi_same s s1 Hs Hv). exact Hlt.
Qed.

Lemma step_done s : l_stack s = [] -> loop_step is_empty nh s = XOk None.
Proof. intros H. unfold loop_step. rewrite H. reflexivity. Qed.

Lemma loop_ok n : forall s, Inv s -> Phi s < n ->
  exists sf, loop is_empty n nh s = XOk sf /\ Inv sf /\ l_stack sf = [].
Proof.
  induction n as [|n IH]; intros s I Hlt; [lia|]. cbn [loop].
  destruct (l_stack s) eqn:Est.
  - rewrite (step_done s Est). cbn [xbind]. exists s. auto.
  - assert (l_stack s <> []) as Hne by congruence.
    destruct (step_ok s I Hne) as (s' & Hs & I' & Hd). rewrite Hs. cbn [xbind].
    apply IH; auto. lia.
Qed.

(* whatever the fuel: the loop never raises *)
Lemma loop_never_raises n : forall s, Inv s ->
  loop is_empty n nh s = XFuel \/ exists sf, loop is_empty n nh s = XOk sf /\ Inv sf /\ l_stack sf = [].
Proof.
  induction n as [|n IH]; intros s I; [left; reflexivity|]. cbn [loop].
  destruct (l_stack s) eqn:Est.
  - rewrite (step_done s Est). cbn [xbind]. right. exists s. auto.
  - assert (l_stack s <> []) as Hne by congruence.
    destruct (step_ok s I Hne) as (s' & Hs & I' & Hd). rewrite Hs. cbn [xbind]. apply IH; auto.
Qed.

Definition s_init : lstate := mkL [root] [] [] [] d0.

Lemma root_eff : eff root <> None.
Proof.
  destruct WF0 as (_ & _ & _ & _ & _ & _ & [H|H]); unfold eff.
  - apply dmem_dget in H as (g & ->). discriminate.
  - destruct (dget root d0); [discriminate|]. rewrite H. discriminate.
Qed.

Lemma Inv_init : Inv s_init.
Proof.
  constructor; cbn [s_init l_dict l_stack l_path l_eqv l_visited].
  - apply dict_ok_d0.
  - intros c [<-|[]]. apply root_eff.
  - left. split; auto. intros c [<-|[]]. apply root_nh.
  - intros c g H. discriminate.
  - intros c r [].
  - right. left. reflexivity.
  - constructor.
  - intros c [].
Qed.

(* the measure of the initial state is below group_fuel *)
Lemma ekids_len c : length (ekids c) <= length (comb_classes d0).
Proof.
  unfold ekids, eff. destruct (dget c d0) as [g|] eqn:E.
  - apply dget_In in E. clear - E. unfold comb_classes. induction d0 as [|[k g'] d IH]; [destruct E|].
    cbn [flat_map]. rewrite app_length. cbn [length snd]. destruct E as [[= -> ->]|E]; [lia|].
    specialize (IH E). lia.
  - destruct (is_empty c); simpl; lia.
Qed.

Lemma wt_le c : wt c <= length (comb_classes d0) * S (length d0).
Proof.
  unfold wt. pose proof (ekids_len c) as H.
  assert (forall l, sum (map (fun k => S (hh k)) l) <= length l * S (length d0)) as G.
  { induction l as [|x l IH]; simpl; [lia|]. pose proof (hl_le (length d0) x). unfold hh, sum in *. lia. }
  specialize (G (ekids c)). nia.
Qed.

Lemma nh_len : length nh <= S (length (comb_classes d0)).
Proof.
  unfold nh, not_hidden, comb_classes. cbn [length]. apply le_n_S. clear WF0.
  induction d0 as [|[k g] d IH]; simpl; [lia|]. rewrite !app_length.
  destruct (g_eqv g); simpl; lia.
Qed.

Lemma Phi_init : Phi s_init < group_fuel root d0.
Proof.
  unfold Phi, s_init, group_fuel. cbn [l_stack l_visited map sum fold_right].
  rewrite (hh_nh root root_nh).
  assert (forall l, sum (map wt (unvisited [] l)) <= length l * (length (comb_classes d0) * S (length d0))) as G.
  { induction l as [|x l IH]; simpl; [lia|]. pose proof (wt_le x). unfold sum in *. simpl. lia. }
  specialize (G nh). pose proof nh_len. unfold sum in *.
  set (cc := length (comb_classes d0)) in *. set (L := length d0) in *. nia.
Qed.

Theorem loop_terminates : forall fuel, group_fuel root d0 <= fuel ->
  exists sf, loop is_empty fuel nh s_init = XOk sf /\ Inv sf /\ l_stack sf = [].
Proof. intros fuel H. apply loop_ok; [apply Inv_init|]. pose proof Phi_init. lia. Qed.

(* ------------------------------------------------------------ chains, first rule first *)
Inductive fchain : list brule -> nat -> nat -> Prop :=
| fc_one : forall r y, dget (b_cls r) d0 = Some (GB r) -> b_eqv r = true -> b_ch r = [y] ->
    fchain [r] (b_cls r) y
| fc_cons : forall r l h y, dget (b_cls r) d0 = Some (GB r) -> b_eqv r = true -> b_ch r = [h] ->
    mem h nh = false -> fchain l h y -> fchain (r :: l) (b_cls r) y.

Lemma fchain_snoc l c h : fchain l c h -> forall r y, mem h nh = false -> b_cls r = h ->
  dget h d0 = Some (GB r) -> b_eqv r = true -> b_ch r = [y] -> fchain (l ++ [r]) c y.
Proof.
  induction 1 as [r0 y0 H0 He0 Hc0|r0 l h0 y0 H0 He0 Hc0 Hh0 Hl IH]; intros r y Hh Hr Hd He Hc.
  - cbn [app]. apply fc_cons with (h := y0); auto. rewrite <- Hr. apply fc_one; rewrite ?Hr; auto.
  - cbn [app]. apply fc_cons with (h := h0); auto.
Qed.

Lemma rchain_fchain p c y : rchain p c y -> fchain (rev p) c y.
Proof.
  induction 1 as [r y H He Hc|r y p c Hp IH Hh H He Hc].
  - apply fc_one; auto.
  - cbn [rev]. eapply fchain_snoc; eauto.
Qed.

Lemma fchain_head l c y : fchain l c y -> exists r l', l = r :: l' /\ b_cls r = c.
Proof. intros H; inversion H; subst; eauto. Qed.

Lemma fchain_mem l c y : fchain l c y -> forall m, In m l ->
  dget (b_cls m) d0 = Some (GB m) /\ b_eqv m = true.
Proof.
  induction 1 as [r y H He Hc|r l h y H He Hc Hh Hl IH]; intros m [<-|Hm]; auto. destruct Hm.
Qed.

Lemma fchain_tl_hidden l c y : fchain l c y -> forall m, In m (tl l) -> mem (b_cls m) nh = false.
Proof.
  induction 1 as [r y H He Hc|r l h y H He Hc Hh Hl IH]; cbn [tl]; intros m Hm; [destruct Hm|].
  destruct (fchain_head _ _ _ Hl) as (r' & l' & -> & Hr'). destruct Hm as [<-|Hm].
  - rewrite Hr'. exact Hh.
  - apply IH. exact Hm.
Qed.

Lemma fchain_next l c y : fchain l c y -> forall m, In m l ->
  exists z, b_ch m = [z] /\ ((z = y) \/ (mem z nh = false /\ In z (map b_cls (tl l)))).
Proof.
  induction 1 as [r y H He Hc|r l h y H He Hc Hh Hl IH]; intros m [<-|Hm].
  - exists y. auto.
  - destruct Hm.
  - exists h. split; auto. right. split; auto. cbn [tl].
    destruct (fchain_head _ _ _ Hl) as (r' & l' & -> & Hr'). left. exact Hr'.
  - destruct (IH m Hm) as (z & Hz & [Hzy|[Hzh Hzin]]); exists z; split; auto. right. split; auto.
    cbn [tl]. destruct l; [destruct Hm|]. right. exact Hzin.
Qed.

Lemma last_cons_default {A} (l : list A) : forall a d, last (a :: l) d = last l a.
Proof.
  induction l as [|b l IH]; intros a d; [reflexivity|].
  change (last (a :: b :: l) d) with (last (b :: l) d). rewrite (IH b d), (IH b a). reflexivity.
Qed.

Lemma fchain_last rs : forall r0 c y, fchain (r0 :: rs) c y -> b_ch (last rs r0) = [y].
Proof.
  induction rs as [|r1 rs IH]; intros r0 c y H; inversion H; subst; auto.
  - match goal with H : fchain [] _ _ |- _ => inversion H end.
  - rewrite last_cons_default. eapply IH; eauto.
Qed.

(* ------------------------------------------------------------ filter and update of dictionaries *)
Lemma dget_filter l (d : dict) c :
  dget c (filter (fun kv => mem (fst kv) l) d) = if mem c l then dget c d else None.
Proof.
  induction d as [|[k g] d IH]; [destruct (mem c l); reflexivity|].
  cbn [filter fst]. destruct (mem k l) eqn:Ek.
  - rewrite !dget_cons. destruct (Nat.eqb c k) eqn:E.
    + apply Nat.eqb_eq in E. subst. rewrite Ek. reflexivity.
    + exact IH.
  - rewrite dget_cons. destruct (Nat.eqb c k) eqn:E; [|exact IH].
    apply Nat.eqb_eq in E. subst. rewrite Ek in *. exact IH.
Qed.

Lemma filter_keys_NoDup (p : nat * grule -> bool) (d : dict) :
  NoDup (map fst d) -> NoDup (map fst (filter p d)).
Proof.
  induction d as [|x d IH]; simpl; auto. intros H. inversion H; subst.
  destruct (p x); simpl; auto. constructor; auto.
  intros Hin. apply in_map_iff in Hin as (z & Hz & Hin). apply filter_In in Hin as [Hin _].
  match goal with H : ~ In _ _ |- _ => apply H end. apply in_map_iff. eauto.
Qed.

Lemma dget_dupdate (o : dict) : forall d c, NoDup (map fst o) ->
  dget c (dupdate d o) = match dget c o with Some g => Some g | None => dget c d end.
Proof.
  induction o as [|[k v] o IH]; intros d c Hn; [reflexivity|].
  inversion Hn as [|? ? Hk Hn']; subst. unfold dupdate in *. cbn [fold_left fst snd].
  rewrite (IH _ _ Hn'), dget_cons, dget_dset. destruct (Nat.eqb c k) eqn:E; auto.
  apply Nat.eqb_eq in E. subst. apply dget_None in Hk. rewrite Hk. reflexivity.
Qed.

Lemma dupdate_NoDup (o : dict) : forall d, NoDup (map fst d) -> NoDup (map fst (dupdate d o)).
Proof.
  induction o as [|[k v] o IH]; intros d H; auto. unfold dupdate in *. cbn [fold_left].
  apply IH. apply dset_NoDup. exact H.
Qed.

(* ------------------------------------------------------------ the state in which the loop stops *)
Section Final.
Variable sf : lstate.
Hypothesis Isf : Inv sf. (* in-section *)
Hypothesis Hstack : l_stack sf = []. (* in-section *)

Lemma final_path : l_path sf = [].
Proof.
  destruct (i_shape sf Isf) as [[H _]|(c & y & rest & _ & _ & _ & H & _)]; auto.
  rewrite Hstack in H. discriminate.
Qed.

Lemma final_vis x : vis_or_stack sf x -> In x (l_visited sf).
Proof. intros [H|H]; auto. rewrite Hstack in H. destruct H. Qed.

(* an entry of eqv_path_rules, first rule first *)
Lemma final_eqv c g : dget c (l_eqv sf) = Some g ->
  exists r0 rs y, g = GP r0 rs /\ fchain (r0 :: rs) c y /\ b_cls r0 = c /\ mem c nh = true /\
                  mem y nh = true /\ In y (l_visited sf) /\ dget c d0 = Some (GB r0).
Proof.
  intros H. destruct (i_eqv sf Isf _ _ H) as (r0 & rs & y & -> & Hc & Hcn & Hyn & Hcv & Hy).
  apply rchain_fchain in Hc. rewrite rev_involutive in Hc.
  destruct (fchain_head _ _ _ Hc) as (r' & l' & [= <- <-] & Hr0).
  destruct (fchain_mem _ _ _ Hc r0 (or_introl eq_refl)) as [Hd _]. rewrite Hr0 in Hd.
  exists r0, rs, y. csplit; auto. apply final_vis. exact Hy.
Qed.

Lemma final_eqv_hidden c : mem c nh = false -> dget c (l_eqv sf) = None.
Proof.
  intros H. destruct (dget c (l_eqv sf)) eqn:E; auto.
  destruct (final_eqv _ _ E) as (? & ? & ? & _ & _ & _ & Hn & _). congruence.
Qed.

(* every class reachable from the root was seen: the classes that are not hidden were visited, the hidden
   ones lie inside a recorded path *)
Lemma reach_complete x : reach d0 root x ->
  (mem x nh = true -> In x (l_visited sf)) /\
  (mem x nh = false -> exists c0 r0 rs, dget c0 (l_eqv sf) = Some (GP r0 rs) /\ In x (map b_cls rs)).
Proof.
  induction 1 as [|x y Hx [IH1 IH2] Hy].
  - split; [intros _; apply final_vis, (i_root sf Isf)|]. rewrite root_nh. discriminate.
  - unfold kids in Hy. destruct (dget x d0) as [g|] eqn:Ex; [|destruct Hy].
    destruct (d0_plain _ _ Ex) as (r & -> & Hrx). cbn [g_ch] in Hy.
    destruct (mem x nh) eqn:Exn.
    + specialize (IH1 eq_refl). pose proof (i_vis sf Isf x r IH1 Exn (eff_d0 _ _ Ex)) as G.
      destruct (b_eqv r) eqn:Ee.
      * destruct G as [G|(z & G)]; [|rewrite final_path in G; inversion G].
        apply dmem_dget in G as (g & G).
        destruct (final_eqv _ _ G) as (r0 & rs & ye & -> & Hc & Hr0 & _ & Hyen & Hyev & Hd0).
        rewrite Ex in Hd0. injection Hd0 as <-.
        destruct (fchain_next _ _ _ Hc r (or_introl eq_refl)) as (z & Hz & Hcase).
        rewrite Hz in Hy. destruct Hy as [<-|[]].
        destruct Hcase as [->|[Hzh Hzin]].
        -- split; auto. rewrite Hyen. discriminate.
        -- split; [rewrite Hzh; discriminate|]. intros _. cbn [tl] in Hzin. eauto.
      * destruct (noneq_nh _ _ Ex Ee) as [_ Hk]. rewrite (Hk y Hy). split; [|discriminate].
        intros _. apply final_vis. apply G. exact Hy.
    + destruct (IH2 eq_refl) as (c0 & r0 & rs & Hg & Hin).
      destruct (final_eqv _ _ Hg) as (r0' & rs' & ye & [= <- <-] & Hc & Hr0 & _ & Hyen & Hyev & _).
      apply in_map_iff in Hin as (m & Hm & Hin).
      destruct (fchain_mem _ _ _ Hc m (or_intror Hin)) as [Hdm _]. rewrite Hm, Ex in Hdm. injection Hdm as <-.
      destruct (fchain_next _ _ _ Hc r (or_intror Hin)) as (z & Hz & Hcase).
      rewrite Hz in Hy. destruct Hy as [<-|[]].
      destruct Hcase as [->|[Hzh Hzin]].
      * split; auto. rewrite Hyen. discriminate.
      * split; [rewrite Hzh; discriminate|]. intros _. cbn [tl] in Hzin. eauto.
Qed.

Lemma all_visited c g : dget c d0 = Some g -> mem c nh = true -> In c (l_visited sf).
Proof.
  intros H Hn. apply d0_In in H. destruct WF0 as (_ & _ & _ & _ & _ & Hr & _).
  apply (reach_complete c (Hr _ _ H)). exact Hn.
Qed.

Lemma hidden_on_path h g : dget h d0 = Some g -> mem h nh = false ->
  exists c0 r0 rs, dget c0 (l_eqv sf) = Some (GP r0 rs) /\ In h (map b_cls rs).
Proof.
  intros H Hn. apply d0_In in H. destruct WF0 as (_ & _ & _ & _ & _ & Hr & _).
  apply (reach_complete h (Hr _ _ H)). exact Hn.
Qed.

(* the dictionary the method leaves *)
Definition d_final : dict :=
  dupdate (filter (fun kv => mem (fst kv) nh) (l_dict sf)) (l_eqv sf).

Lemma d_final_get c :
  dget c d_final =
  if mem c nh then match dget c (l_eqv sf) with Some g => Some g | None => dget c (l_dict sf) end
  else None.
Proof.
  unfold d_final. rewrite (dget_dupdate _ _ _ (i_nodup sf Isf)), dget_filter.
  destruct (mem c nh) eqn:E; auto. rewrite (final_eqv_hidden _ E). reflexivity.
Qed.

Lemma d_final_nodup : NoDup (map fst d_final).
Proof.
  unfold d_final. apply dupdate_NoDup, filter_keys_NoDup. destruct (i_dict sf Isf) as [H _]. exact H.
Qed.

Lemma d_final_In k g : In (k, g) d_final <-> dget k d_final = Some g.
Proof. split; [apply In_dget, d_final_nodup|apply dget_In]. Qed.

(* hidden classes lose their rule *)
Lemma final_hidden c : mem c nh = false -> dget c d_final = None.
Proof. intros H. rewrite d_final_get, H. reflexivity. Qed.

(* a class that is not hidden keeps a rule that is not an equivalence *)
Lemma final_keeps c r : dget c d0 = Some (GB r) -> b_eqv r = false -> dget c d_final = Some (GB r).
Proof.
  intros H He. destruct (noneq_nh _ _ H He) as [Hn _]. rewrite d_final_get, Hn.
  destruct (dget c (l_eqv sf)) eqn:E.
  - destruct (final_eqv _ _ E) as (r0 & rs & y & _ & Hc & _ & _ & _ & _ & Hd0).
    rewrite H in Hd0. injection Hd0 as <-.
    destruct (fchain_mem _ _ _ Hc r (or_introl eq_refl)) as [_ He']. congruence.
  - apply dict_ok_keeps; auto. apply (i_dict sf Isf).
Qed.

(* ... and its equivalence rule becomes the first rule of a path that follows the rules of d0 through
   hidden classes to a class that is not hidden *)
Lemma final_path_rule c r : dget c d0 = Some (GB r) -> b_eqv r = true -> mem c nh = true ->
  exists rs y, dget c d_final = Some (GP r rs) /\ fchain (r :: rs) c y /\ mem y nh = true /\
               dmem y d_final = true.
Proof.
  intros H He Hn. pose proof (all_visited _ _ H Hn) as Hv.
  pose proof (i_vis sf Isf c r Hv Hn (eff_d0 _ _ H)) as G. rewrite He in G.
  destruct G as [G|(z & G)]; [|rewrite final_path in G; inversion G].
  apply dmem_dget in G as (g & G).
  destruct (final_eqv _ _ G) as (r0 & rs & y & -> & Hc & Hr0 & _ & Hyn & Hyv & Hd0).
  rewrite H in Hd0. injection Hd0 as <-. exists rs, y. csplit; auto.
  - rewrite d_final_get, Hn, G. reflexivity.
  - apply dmem_dget. rewrite d_final_get, Hyn. destruct (dget y (l_eqv sf)); eauto.
    apply dmem_dget. apply (i_vd sf Isf). exact Hyv.
Qed.

(* what else is in the result: lazily added empty rules of empty classes that are not hidden *)
Lemma final_sound c g : dget c d_final = Some g ->
  mem c nh = true /\
  ((exists r0 rs, g = GP r0 rs /\ dget c d0 = Some (GB r0) /\ b_eqv r0 = true) \/
   (exists r, g = GB r /\ b_eqv r = false /\ dget c d0 = Some (GB r)) \/
   (dget c d0 = None /\ g = empty_rule c /\ is_empty c = true)).
Proof.
  rewrite d_final_get. destruct (mem c nh) eqn:Hn; [|discriminate]. intros H. split; auto.
  destruct (dget c (l_eqv sf)) eqn:E.
  - injection H as <-. destruct (final_eqv _ _ E) as (r0 & rs & y & -> & Hc & _ & _ & _ & _ & Hd0).
    left. exists r0, rs. csplit; auto. apply (fchain_mem _ _ _ Hc r0). left; auto.
  - pose proof (dict_ok_dget _ _ _ (i_dict sf Isf) H) as He. unfold eff in He.
    destruct (dget c d0) as [g0|] eqn:E0.
    + injection He as ->. destruct (d0_plain _ _ E0) as (r & -> & Hr). right. left.
      exists r. csplit; auto. destruct (b_eqv r) eqn:Ee; auto.
      destruct (final_path_rule _ _ E0 Ee Hn) as (rs & y & Hg & _). rewrite d_final_get, Hn, E in Hg.
      rewrite H in Hg. discriminate.
    + destruct (is_empty c) eqn:Em; [|discriminate]. injection He as <-. right. right. auto.
Qed.

(* _is_valid_spec holds: the assert after the loop does not fire *)
Lemma final_valid : is_valid_spec is_empty root d_final = true.
Proof.
  assert (forall k g, dget k d_final = Some g ->
            g_cls g = k /\ forall x, In x (g_ch g) -> dmem x d_final = true) as G.
  { intros k g Hg. destruct (final_sound _ _ Hg) as (Hn & [(r0 & rs & -> & H0 & He)|[(r & -> & He & H0)|(H0 & -> & Hem)]]).
    - destruct (final_path_rule _ _ H0 He Hn) as (rs' & y & Hg' & Hc & Hyn & Hyd).
      rewrite Hg in Hg'. injection Hg' as <-.
      destruct (fchain_head _ _ _ Hc) as (? & ? & [= <- <-] & Hr0). split; auto.
      cbn [g_ch]. rewrite (fchain_last _ _ _ _ Hc). intros x [<-|[]]. exact Hyd.
    - destruct (d0_plain _ _ H0) as (r' & [= <-] & Hr). split; auto.
      cbn [g_ch]. intros x Hx. destruct (noneq_nh _ _ H0 He) as [_ Hk].
      pose proof (all_visited _ _ H0 Hn) as Hv.
      pose proof (i_vis sf Isf k r Hv Hn (eff_d0 _ _ H0)) as Gv. rewrite He in Gv.
      pose proof (final_vis _ (Gv x Hx)) as Hxv.
      apply dmem_dget. rewrite d_final_get, (Hk x Hx). destruct (dget x (l_eqv sf)); eauto.
      apply dmem_dget. apply (i_vd sf Isf). exact Hxv.
    - split; [reflexivity|]. intros x []. }
  unfold is_valid_spec. apply andb_true_iff. split.
  - (* the root *)
    pose proof (final_vis _ (i_root sf Isf)) as Hv.
    assert (exists g, dget root d_final = Some g) as (g & Hg).
    { rewrite d_final_get, root_nh. destruct (dget root (l_eqv sf)); eauto.
      apply dmem_dget. apply (i_vd sf Isf). exact Hv. }
    destruct (G _ _ Hg) as [Hc _]. apply mem_In. unfold comb_classes. apply in_flat_map.
    exists (root, g). split; [apply d_final_In; exact Hg|]. cbn [snd]. left. exact Hc.
  - apply forallb_forall. intros x Hx. unfold comb_classes in Hx. apply in_flat_map in Hx as ([k g] & Hin & Hx).
    apply d_final_In in Hin. destruct (G _ _ Hin) as [Hc Hk]. cbn [snd] in Hx.
    apply orb_true_iff. left. destruct Hx as [<-|Hx]; [|apply Hk; exact Hx].
    rewrite Hc. apply dmem_dget. eauto.
Qed.

Lemma final_root : dmem root d_final = true.
Proof.
  pose proof (final_vis _ (i_root sf Isf)) as Hv. apply dmem_dget.
  rewrite d_final_get, root_nh. destruct (dget root (l_eqv sf)); eauto.
  apply dmem_dget. apply (i_vd sf Isf). exact Hv.
Qed.

Lemma final_hidden_on_path h g : dget h d0 = Some g -> mem h nh = false ->
  exists c0 r0 rs, dget c0 d_final = Some (GP r0 rs) /\ In h (map b_cls rs).
Proof.
  intros H Hn. destruct (hidden_on_path _ _ H Hn) as (c0 & r0 & rs & Hg & Hin).
  exists c0, r0, rs. split; auto.
  destruct (final_eqv _ _ Hg) as (? & ? & ? & _ & _ & _ & Hc0 & _).
  rewrite d_final_get, Hc0, Hg. reflexivity.
Qed.

End Final.

(* ------------------------------------------------------------ _group_equiv_in_path after ungrouping *)
(* what the method leaves, class by class *)
Definition grouped (d1 : dict) : Prop :=
  NoDup (map fst d1) /\
  is_valid_spec is_empty root d1 = true /\
  dmem root d1 = true /\
  (* hidden classes lose their rule *)
  (forall c, mem c nh = false -> dget c d1 = None) /\
  (* a rule that is not an equivalence is kept as it is *)
  (forall c r, dget c d0 = Some (GB r) -> b_eqv r = false -> dget c d1 = Some (GB r)) /\
  (* an equivalence rule of a class that is not hidden becomes the first member of a path rule whose
     members are the rules of d0 along the chain, through hidden classes, to a class that is not hidden
     and that has a rule in the result *)
  (forall c r, dget c d0 = Some (GB r) -> b_eqv r = true -> mem c nh = true ->
     exists rs y, dget c d1 = Some (GP r rs) /\ fchain (r :: rs) c y /\ mem y nh = true /\
                  dmem y d1 = true) /\
  (* nothing else: besides those, only lazily added empty rules of empty classes *)
  (forall c g, dget c d1 = Some g ->
     mem c nh = true /\
     ((exists r0 rs, g = GP r0 rs /\ dget c d0 = Some (GB r0) /\ b_eqv r0 = true) \/
      (exists r, g = GB r /\ b_eqv r = false /\ dget c d0 = Some (GB r)) \/
      (dget c d0 = None /\ g = empty_rule c /\ is_empty c = true))) /\
  (* every hidden class lies inside a path *)
  (forall h g, dget h d0 = Some g -> mem h nh = false ->
     exists c0 r0 rs, dget c0 d1 = Some (GP r0 rs) /\ In h (map b_cls rs)).

Lemma grouped_final sf : Inv sf -> l_stack sf = [] -> grouped (d_final sf).
Proof.
  intros I Hs. unfold grouped. csplit.
  - apply d_final_nodup; auto.
  - apply final_valid; auto.
  - apply final_root; auto.
  - intros c. apply final_hidden; auto.
  - intros c r. apply final_keeps; auto.
  - intros c r. apply final_path_rule; auto.
  - intros c g. apply final_sound; auto.
  - intros h g. apply final_hidden_on_path; auto.
Qed.

Lemma group_core_unfold fuel :
  group_core is_empty fuel root d0 =
  (s <-- loop is_empty fuel nh s_init ;;
   if is_valid_spec is_empty root (d_final s) then XOk (d_final s) else XErr XAssertValid).
Proof. reflexivity. Qed.

(* with the fuel the model uses (or more) the method finishes, no assert fires *)
Theorem group_core_ok fuel : group_fuel root d0 <= fuel ->
  exists d1, group_core is_empty fuel root d0 = XOk d1 /\ grouped d1.
Proof.
  intros H. destruct (loop_terminates fuel H) as (sf & Hl & I & Hs).
  exists (d_final sf). rewrite group_core_unfold, Hl. cbn [xbind].
  rewrite (final_valid sf I Hs). split; auto. apply grouped_final; auto.
Qed.

(* with any fuel: never an exception *)
Theorem group_core_never_raises fuel :
  group_core is_empty fuel root d0 = XFuel \/
  exists d1, group_core is_empty fuel root d0 = XOk d1 /\ grouped d1.
Proof.
  destruct (loop_never_raises fuel s_init Inv_init) as [H|(sf & Hl & I & Hs)].
  - left. rewrite group_core_unfold, H. reflexivity.
  - right. exists (d_final sf). rewrite group_core_unfold, Hl. cbn [xbind].
    rewrite (final_valid sf I Hs). split; auto. apply grouped_final; auto.
Qed.

(* ------------------------------------------------------------ _ungroup_equiv_path of the result *)
Definition inner (acc : dict) (ms : list brule) : dict :=
  fold_left (fun a r => dset (b_cls r) (GB r) a) ms acc.
Definition new_rules_from (acc : dict) (d : dict) : dict :=
  fold_left (fun acc kv => inner acc (members (snd kv))) d acc.

Lemma ungroup_unfold d : ungroup d = dupdate d (new_rules_from [] d).
Proof. reflexivity. Qed.

Lemma inner_sound ms : forall acc c g, dget c (inner acc ms) = Some g ->
  dget c acc = Some g \/ exists m, In m ms /\ b_cls m = c /\ g = GB m.
Proof.
  induction ms as [|m ms IH]; intros acc c g H; [left; exact H|].
  unfold inner in *. cbn [fold_left] in H. destruct (IH _ _ _ H) as [G|(m' & Hm & Hc & Hg)].
  - rewrite dget_dset in G. destruct (Nat.eqb c (b_cls m)) eqn:E; [|left; exact G].
    apply Nat.eqb_eq in E. injection G as <-. right. exists m. split; [left; auto|auto].
  - right. exists m'. split; [right; auto|auto].
Qed.

Lemma inner_complete ms : forall acc c,
  (dget c acc <> None \/ exists m, In m ms /\ b_cls m = c) -> dget c (inner acc ms) <> None.
Proof.
  induction ms as [|m ms IH]; intros acc c H.
  - destruct H as [H|(m & [] & _)]. exact H.
  - unfold inner in *. cbn [fold_left]. apply IH. rewrite dget_dset.
    destruct (Nat.eqb c (b_cls m)) eqn:E; [left; discriminate|].
    destruct H as [H|(m' & [<-|Hm] & Hc)]; [left; exact H| |right; eauto].
    rewrite Hc, Nat.eqb_refl in E. discriminate.
Qed.

Lemma inner_nodup ms : forall acc, NoDup (map fst acc) -> NoDup (map fst (inner acc ms)).
Proof.
  induction ms as [|m ms IH]; intros acc H; auto. unfold inner in *. cbn [fold_left].
  apply IH. apply dset_NoDup. exact H.
Qed.

Lemma new_rules_sound d : forall acc c g, dget c (new_rules_from acc d) = Some g ->
  dget c acc = Some g \/ exists k gp m, In (k, gp) d /\ In m (members gp) /\ b_cls m = c /\ g = GB m.
Proof.
  induction d as [|[k gp] d IH]; intros acc c g H; [left; exact H|].
  unfold new_rules_from in *. cbn [fold_left snd] in H. destruct (IH _ _ _ H) as [G|(k' & gp' & m & Hin & Hm & Hc & Hg)].
  - destruct (inner_sound _ _ _ _ G) as [G'|(m & Hm & Hc & Hg)]; [left; exact G'|].
    right. exists k, gp, m. split; [left; auto|auto].
  - right. exists k', gp', m. split; [right; auto|auto].
Qed.

Lemma new_rules_complete d : forall acc c,
  (dget c acc <> None \/ exists k gp m, In (k, gp) d /\ In m (members gp) /\ b_cls m = c) ->
  dget c (new_rules_from acc d) <> None.
Proof.
  induction d as [|[k gp] d IH]; intros acc c H.
  - destruct H as [H|(k & gp & m & [] & _)]. exact H.
  - unfold new_rules_from in *. cbn [fold_left snd]. apply IH.
    destruct H as [H|(k' & gp' & m & [[= <- <-]|Hin] & Hm & Hc)].
    + left. apply inner_complete. left. exact H.
    + left. apply inner_complete. right. eauto.
    + right. eauto 6.
Qed.

Lemma new_rules_nodup d : forall acc, NoDup (map fst acc) -> NoDup (map fst (new_rules_from acc d)).
Proof.
  induction d as [|[k gp] d IH]; intros acc H; auto. unfold new_rules_from in *. cbn [fold_left].
  apply IH. apply inner_nodup. exact H.
Qed.

(* grouping, then ungrouping: every class has its original rule again (hidden classes at the end of the
   dictionary); the only other entries are the lazily added empty rules *)
Theorem ungroup_grouped d1 : grouped d1 ->
  (forall c g, dget c d0 = Some g -> dget c (ungroup d1) = Some g) /\
  (forall c g, dget c (ungroup d1) = Some g ->
     dget c d0 = Some g \/ (dget c d0 = None /\ g = empty_rule c /\ is_empty c = true)).
Proof.
  intros (Hnd & _ & _ & Hhid & Hkeep & Hpath & Hsound & Hon).
  assert (forall k gp m, In (k, gp) d1 -> In m (members gp) -> dget (b_cls m) d0 = Some (GB m)) as Hmem.
  { intros k gp m Hin Hm. apply (In_dget _ _ _ Hnd) in Hin.
    destruct (Hsound _ _ Hin) as (Hn & [(r0 & rs & -> & H0 & He)|[(r & -> & _)|(_ & -> & _)]]); try (destruct Hm; fail).
    destruct (Hpath _ _ H0 He Hn) as (rs' & y & Hg & Hc & _). rewrite Hin in Hg. injection Hg as <-.
    apply (fchain_mem _ _ _ Hc m). exact Hm. }
  assert (forall c, dget c (ungroup d1) =
                    match dget c (new_rules_from [] d1) with Some g => Some g | None => dget c d1 end) as Hu.
  { intros c. rewrite ungroup_unfold. apply dget_dupdate. apply new_rules_nodup. constructor. }
  split.
  - intros c g H. rewrite Hu. destruct (dget c (new_rules_from [] d1)) as [g'|] eqn:En.
    + destruct (new_rules_sound _ _ _ _ En) as [G|(k & gp & m & Hin & Hm & Hc & ->)]; [discriminate|].
      pose proof (Hmem _ _ _ Hin Hm) as G. rewrite Hc, H in G. rewrite G. reflexivity.
    + destruct (d0_plain _ _ H) as (r & -> & Hr).
      assert (forall k gp m, In (k, gp) d1 -> In m (members gp) -> b_cls m <> c) as Hno.
      { intros k gp m Hin Hm Hc. apply (new_rules_complete d1 [] c); auto. right. eauto 6. }
      destruct (mem c nh) eqn:Hn.
      * destruct (b_eqv r) eqn:Ee; [|apply Hkeep; auto].
        destruct (Hpath _ _ H Ee Hn) as (rs & y & Hg & _). exfalso.
        apply dget_In in Hg. apply (Hno _ _ r Hg); [left; reflexivity|exact Hr].
      * destruct (Hon _ _ H Hn) as (c0 & r0 & rs & Hg & Hin). exfalso.
        apply in_map_iff in Hin as (m & Hmc & Hin). apply dget_In in Hg.
        apply (Hno _ _ m Hg); [right; exact Hin|exact Hmc].
  - intros c g. rewrite Hu. destruct (dget c (new_rules_from [] d1)) as [g'|] eqn:En.
    + intros [= <-]. destruct (new_rules_sound _ _ _ _ En) as [G|(k & gp & m & Hin & Hm & Hc & ->)]; [discriminate|].
      left. rewrite <- Hc. eapply Hmem; eauto.
    + intros H. destruct (Hsound _ _ H) as (Hn & [(r0 & rs & -> & H0 & He)|[(r & -> & _ & H0)|(H0 & -> & Hem)]]); auto.
      exfalso. apply (new_rules_complete d1 [] c); auto. right. exists c, (GP r0 rs), r0.
      split; [apply dget_In; exact H|]. split; [left; reflexivity|]. destruct (d0_plain _ _ H0) as (? & [= <-] & Hr). exact Hr.
Qed.

End Proofs.
