(* Grouping of equivalence paths preserves productivity (pumping).

   R0 = forest keys of the ungrouped rules, R1 = forest keys of the grouped
   rules (CombinatorialSpecification._group_equiv_in_path): every maximal chain
   c -> h1 -> ... -> n of unary rules through hidden classes is replaced by ONE
   rule c -> n whose shift is the sum of the shifts along the chain.

   NOTHING was changed relative to the requested statement: the Section
   hypotheses are exactly one_rule, grouped_sound, grouped_complete, and the
   three theorems are stated verbatim.  No bound hypothesis is needed: the
   slack M is DEFINED (sum of |shift| over all kids of all keys of R0) and the
   bound  |S| <= M  for every chain ending at a kept class is PROVED (such a
   chain is determined by its start, because of one_rule, hence it repeats no
   key, hence it is a duplicate-free sublist of R0).

   Results:
     derivable_R1_R0     : derivable R1 c v -> derivable R0 c v   (exact, any c)
     derivable_R0_R1     : kept c -> derivable R0 c v -> derivable R1 c (v - M)
     pumps_grouped_iff, pumps_hidden, derivable_grouped_iff_zero.            *)
From Coq Require Import ZArith List Lia Bool.
From CSS Require Import Forest.Spec.
Import ListNotations.
Open Scope Z_scope.

(* ---------- generic: sums over duplicate-free sublists ---------- *)
Section SumIncl.
Variable A : Type.
Variable f : A -> Z.
Hypothesis f_nonneg : forall a, 0 <= f a. (* in-section *)

Fixpoint zsum (l : list A) : Z :=
  match l with [] => 0 | a :: l' => f a + zsum l' end.

Lemma zsum_app l1 l2 : zsum (l1 ++ l2) = zsum l1 + zsum l2.
Proof. induction l1 as [|a l1 IH]; simpl; lia. Qed.

Lemma zsum_nonneg l : 0 <= zsum l.
Proof. induction l as [|a l IH]; simpl; [lia | pose proof (f_nonneg a); lia]. Qed.

Lemma zsum_incl : forall l, NoDup l -> forall R, incl l R -> zsum l <= zsum R.
Proof.
  induction l as [|a l IH]; intros Hnd R Hi.
  - simpl. apply zsum_nonneg.
  - inversion Hnd as [|? ? Hnin Hnd']; subst.
    assert (In a R) as Ha by (apply Hi; left; reflexivity).
    destruct (in_split _ _ Ha) as (R1 & R2 & ->).
    assert (incl l (R1 ++ R2)) as Hi'.
    { intros b Hb. assert (In b (R1 ++ a :: R2)) as Hb' by (apply Hi; right; exact Hb).
      apply in_app_or in Hb'. apply in_or_app.
      destruct Hb' as [Hb' | [Hb' | Hb']]; auto. subst b. contradiction. }
    pose proof (IH Hnd' _ Hi') as Hle.
    rewrite zsum_app in *. simpl. lia.
Qed.
End SumIncl.

Section GroupingProd.
Variable R0 R1 : list fkey.
Variable kept : nat -> Prop.

(* chain ks c n S: ks are keys of R0, each unary, consecutive, starting at class c, ending with child n,
   all intermediate classes are not kept, S = sum of the shifts *)
Inductive chain : list fkey -> nat -> nat -> Z -> Prop :=
| chain_one : forall k n s, In k R0 -> kids k = [(n, s)] -> chain [k] (parent k) n s
| chain_cons : forall k h s ks n S, In k R0 -> kids k = [(h, s)] -> ~ kept h ->
    chain ks h n S -> chain (k :: ks) (parent k) n (s + S).

Hypothesis one_rule : forall k k', In k R0 -> In k' R0 -> parent k = parent k' -> k = k'. (* in-section *)
(* every grouped key is an ungrouped key between kept classes, or the composite of a chain ending at a kept class *)
Hypothesis grouped_sound : forall k1, In k1 R1 -> (* in-section *)
  (In k1 R0 /\ forall c s, In (c, s) (kids k1) -> kept c) \/
  (exists ks n S, chain ks (parent k1) n S /\ kept n /\ kids k1 = [(n, S)]).
(* every ungrouped key of a kept class is kept as it is, or is the head of a chain whose composite is a grouped key *)
Hypothesis grouped_complete : forall k, In k R0 -> kept (parent k) -> (* in-section *)
  (In k R1 /\ forall c s, In (c, s) (kids k) -> kept c) \/
  (exists ks n S, chain (k :: ks) (parent k) n S /\ kept n /\ In (mkkey (parent k) [(n, S)]) R1).

(* ---------- walking a chain upwards in R0 (exact) ---------- *)
Lemma chain_up : forall ks c n S, chain ks c n S ->
  forall v, derivable R0 n (v - S) -> derivable R0 c v.
Proof.
  induction 1 as [k n s Hk Hkids | k h s ks n S Hk Hkids Hh Hch IH]; intros v Hd.
  - apply der_rule; auto. intros c0 s0 Hin. rewrite Hkids in Hin.
    destruct Hin as [E | []]. inversion E; subst. exact Hd.
  - apply der_rule; auto. intros c0 s0 Hin. rewrite Hkids in Hin.
    destruct Hin as [E | []]. inversion E; subst. apply IH.
    replace (v - s0 - S) with (v - (s0 + S)) by lia. exact Hd.
Qed.

(* the easy direction is exact, level by level, for every class *)
Lemma derivable_R1_R0 : forall c v, derivable R1 c v -> derivable R0 c v.
Proof.
  induction 1 as [c v Hv | r v Hr Hk IH].
  - apply der_zero; auto.
  - destruct (grouped_sound r Hr) as [[Hin _] | (ks & n & S & Hch & Hn & Hkids)].
    + apply der_rule; auto.
    + eapply chain_up; eauto. apply IH. rewrite Hkids. left; reflexivity.
Qed.

(* ---------- the other direction, with an abstract slack M ---------- *)
Lemma derivable_R0_R1_slack (M : Z) :
  0 <= M ->
  (forall ks x n S, chain ks x n S -> kept n -> - S <= M) ->
  forall x v, derivable R0 x v ->
    (kept x -> derivable R1 x (v - M)) /\
    (forall ks n S, chain ks x n S -> kept n -> derivable R1 n (v - S - M)).
Proof.
  intros HM Hbound.
  induction 1 as [c v Hv | r v Hr Hk IH].
  - split.
    + intros _. apply der_zero. lia.
    + intros ks n S Hch Hn. pose proof (Hbound _ _ _ _ Hch Hn). apply der_zero. lia.
  - split.
    + intros Hkept.
      destruct (grouped_complete r Hr Hkept) as [[Hin Hkk] | (ks & n & S & Hch & Hn & Hin)].
      * apply der_rule; auto. intros c s Hcs.
        replace (v - M - s) with (v - s - M) by lia.
        apply (proj1 (IH c s Hcs)). eapply Hkk; eauto.
      * apply (der_rule R1 (mkkey (parent r) [(n, S)]) (v - M) Hin).
        simpl. intros c s [E | []]. inversion E; subst c s.
        replace (v - M - S) with (v - S - M) by lia.
        inversion Hch as [k n' s' Hk0 Hkids | k h s' ks' n' S' Hk0 Hkids Hh Hch']; subst.
        -- apply (proj1 (IH n S ltac:(rewrite Hkids; left; reflexivity))). exact Hn.
        -- replace (v - (s' + S') - M) with (v - s' - S' - M) by lia.
           apply (proj2 (IH h s' ltac:(rewrite Hkids; left; reflexivity)) _ _ _ Hch' Hn).
    + intros ks n S Hch Hn.
      inversion Hch as [k n' s' Hk0 Hkids Heq | k h s' ks' n' S' Hk0 Hkids Hh Hch' Heq]; subst.
      * assert (k = r) as -> by (apply one_rule; auto).
        apply (proj1 (IH n S ltac:(rewrite Hkids; left; reflexivity))). exact Hn.
      * assert (k = r) as -> by (apply one_rule; auto).
        replace (v - (s' + S') - M) with (v - s' - S' - M) by lia.
        apply (proj2 (IH h s' ltac:(rewrite Hkids; left; reflexivity)) _ _ _ Hch' Hn).
Qed.

(* ---------- the concrete slack: sum of |shift| over R0 ---------- *)
Definition absk (k : fkey) : Z := zsum _ (fun p : nat * Z => Z.abs (snd p)) (kids k).
Definition slack : Z := zsum _ absk R0.

Lemma absk_nonneg k : 0 <= absk k.
Proof. apply zsum_nonneg. intros a. lia. Qed.

Lemma slack_nonneg : 0 <= slack.
Proof. apply zsum_nonneg. apply absk_nonneg. Qed.

Lemma chain_incl : forall ks c n S, chain ks c n S -> incl ks R0.
Proof.
  induction 1 as [k n s Hk Hkids | k h s ks n S Hk Hkids Hh Hch IH]; intros a Ha.
  - destruct Ha as [<- | []]. exact Hk.
  - destruct Ha as [<- | Ha]; auto.
Qed.

Lemma chain_abs : forall ks c n S, chain ks c n S -> Z.abs S <= zsum _ absk ks.
Proof.
  induction 1 as [k n s Hk Hkids | k h s ks n S Hk Hkids Hh Hch IH]; simpl.
  - unfold absk. rewrite Hkids. simpl. lia.
  - unfold absk at 1. rewrite Hkids. simpl. lia.
Qed.

(* because of one_rule a chain that ends at a kept class is determined by its start *)
Lemma chain_det : forall ks x n S, chain ks x n S -> kept n ->
  forall ks' n' S', chain ks' x n' S' -> kept n' -> ks = ks'.
Proof.
  induction 1 as [k n s Hk Hkids | k h s ks n S Hk Hkids Hh Hch IH]; intros Hn ks' n' S' Hch' Hn'.
  - inversion Hch' as [k' n'' s'' Hk' Hkids' Heq | k' h' s'' ks'' n'' S'' Hk' Hkids' Hh' Hch'' Heq]; subst.
    + assert (k' = k) as -> by (apply one_rule; auto). reflexivity.
    + assert (k' = k) as -> by (apply one_rule; auto).
      rewrite Hkids in Hkids'. inversion Hkids'; subst. contradiction.
  - inversion Hch' as [k' n'' s'' Hk' Hkids' Heq | k' h' s'' ks'' n'' S'' Hk' Hkids' Hh' Hch'' Heq]; subst.
    + assert (k' = k) as -> by (apply one_rule; auto).
      rewrite Hkids in Hkids'. inversion Hkids'; subst. contradiction.
    + assert (k' = k) as -> by (apply one_rule; auto).
      rewrite Hkids in Hkids'. inversion Hkids'; subst.
      f_equal. eapply IH; eauto.
Qed.

Lemma chain_in_suffix : forall ks x n S, chain ks x n S -> forall k, In k ks ->
  exists ks2 S2, chain ks2 (parent k) n S2 /\ (length ks2 <= length ks)%nat.
Proof.
  induction 1 as [k n s Hk Hkids | k h s ks n S Hk Hkids Hh Hch IH]; intros k0 Hin.
  - destruct Hin as [<- | []]. exists [k], s. split; [constructor; auto | auto].
  - destruct Hin as [<- | Hin].
    + exists (k :: ks), (s + S). split; [econstructor; eauto | auto].
    + destruct (IH _ Hin) as (ks2 & S2 & Hc2 & Hlen). exists ks2, S2. split; auto. simpl. lia.
Qed.

Lemma chain_nodup : forall ks x n S, chain ks x n S -> kept n -> NoDup ks.
Proof.
  induction 1 as [k n s Hk Hkids | k h s ks n S Hk Hkids Hh Hch IH]; intros Hn.
  - constructor; [intros [] | constructor].
  - constructor; auto. intros Hin.
    destruct (chain_in_suffix _ _ _ _ Hch _ Hin) as (ks2 & S2 & Hc2 & Hlen).
    assert (chain (k :: ks) (parent k) n (s + S)) as Hfull by (econstructor; eauto).
    pose proof (chain_det _ _ _ _ Hfull Hn _ _ _ Hc2 Hn) as E.
    rewrite <- E in Hlen. simpl in Hlen. lia.
Qed.

Lemma chain_bound : forall ks x n S, chain ks x n S -> kept n -> - S <= slack.
Proof.
  intros ks x n S Hch Hn.
  pose proof (chain_abs _ _ _ _ Hch) as H1.
  pose proof (zsum_incl _ absk absk_nonneg ks (chain_nodup _ _ _ _ Hch Hn) R0 (chain_incl _ _ _ _ Hch)) as H2.
  unfold slack. lia.
Qed.

Lemma derivable_R0_R1 : forall c v, kept c -> derivable R0 c v -> derivable R1 c (v - slack).
Proof.
  intros c v Hc Hd.
  apply (proj1 (derivable_R0_R1_slack slack slack_nonneg chain_bound c v Hd) Hc).
Qed.

(* ---------- the theorems ---------- *)
Theorem pumps_grouped_iff : forall c, kept c -> (pumps R1 c <-> pumps R0 c).
Proof.
  intros c Hc. split; intros P v.
  - apply derivable_R1_R0. apply P.
  - replace v with (v + slack - slack) by lia. apply derivable_R0_R1; auto.
Qed.

(* and for hidden classes on a chain: *)
Theorem pumps_hidden : forall ks h n S, chain ks h n S -> pumps R0 n -> pumps R0 h.
Proof.
  intros ks h n S Hch P v. eapply chain_up; eauto.
Qed.

(* when every chain has all partial sums equal to 0 (the library's equivalence rules all have shift 0)
   the statement is exact, level by level: *)
Definition zero_chains := forall ks c n S, chain ks c n S -> forall k, In k ks -> forall x s, kids k = [(x, s)] -> s = 0.

Lemma zero_chains_sum : zero_chains -> forall ks c n S, chain ks c n S -> S = 0.
Proof.
  intros Z. induction 1 as [k n s Hk Hkids | k h s ks n S Hk Hkids Hh Hch IH].
  - apply (Z [k] (parent k) n s (chain_one k n s Hk Hkids) k (or_introl eq_refl) n s Hkids).
  - assert (s = 0) as ->.
    { apply (Z (k :: ks) (parent k) n (s + S) (chain_cons k h s ks n S Hk Hkids Hh Hch)
               k (or_introl eq_refl) h s Hkids). }
    lia.
Qed.

Theorem derivable_grouped_iff_zero : zero_chains -> forall c v, kept c -> (derivable R1 c v <-> derivable R0 c v).
Proof.
  intros Z c v Hc. split.
  - apply derivable_R1_R0.
  - intros Hd. replace v with (v - 0) by lia.
    refine (proj1 (derivable_R0_R1_slack 0 ltac:(lia) _ c v Hd) Hc).
    intros ks x n S Hch _. pose proof (zero_chains_sum Z _ _ _ _ Hch). lia.
Qed.
End GroupingProd.

Print Assumptions pumps_grouped_iff.
Print Assumptions pumps_hidden.
Print Assumptions derivable_grouped_iff_zero.
