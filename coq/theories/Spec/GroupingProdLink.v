(* Productivity is preserved by grouping: the forest keys of the rules _group_equiv_in_path leaves
   (a path rule counts with the SUM of the shifts of its members) pump exactly the classes that the
   keys of the ungrouped rules pump - instance of Spec/GroupingProd.v for the result characterised in
   Spec/GroupingProofs.v.  The ungrouped rule set is d0 together with the empty rules get_rule adds
   lazily for empty classes (verified leaves: no children). *)
From Coq Require Import ZArith List Bool Lia.
From CSS Require Import Forest.Spec Spec.Grouping Spec.GroupingWf Spec.GroupingFacts Spec.GroupingProofs
  Spec.GroupingProd.
From CSS Require Export Spec.GroupingProdKeys.
Import ListNotations.
Open Scope Z_scope.
Notation fkids := Forest.Spec.kids.

(* bkey, shift1, zsum, gkey, keys_of, lazy1, R0, R1, shifts_okb: Spec/GroupingProdKeys.v (definitions only, shared
   with the executable run_spec) *)

Section Link.
Variable is_empty : nat -> bool.
Variable root : nat.
Variable d0 d1 : dict.
Hypothesis WF0 : wf_input is_empty root d0. (* in-section *)
Hypothesis G1 : grouped is_empty root d0 d1. (* in-section *)
(* one declared shift per child *)
Hypothesis shifts_ok : forall k r, In (k, GB r) d0 -> length (b_sh r) = length (b_ch r). (* in-section *)

Notation nh := (nh root d0).
Definition kept (c : nat) : Prop := mem c nh = true.
Notation lazy1 := (GroupingProdKeys.lazy1 d0 d1).
Notation R0 := (GroupingProdKeys.R0 d0 d1).
Notation R1 := (GroupingProdKeys.R1 d1).

Lemma d1_nodup : NoDup (map fst d1).
Proof. destruct G1 as (H & _). exact H. Qed.

Lemma lazy_entry k g : In (k, g) lazy1 -> dget k d0 = None /\ g = empty_rule k /\ dget k d1 = Some g.
Proof.
  unfold GroupingProdKeys.lazy1. intros H. apply filter_In in H as [Hin Hm]. cbn [fst] in Hm.
  apply negb_true_iff in Hm. apply dmem_false in Hm.
  pose proof (In_dget _ _ _ d1_nodup Hin) as Hg. destruct G1 as (_ & _ & _ & _ & _ & _ & Hs & _).
  destruct (Hs _ _ Hg) as (_ & [(r0 & rs & _ & H0 & _)|[(r & _ & _ & H0)|(_ & -> & _)]]); try congruence. auto.
Qed.

Lemma R0_entry k : In k R0 -> exists c g, In (c, g) (d0 ++ lazy1) /\ k = gkey g /\ parent k = c.
Proof.
  unfold GroupingProdKeys.R0, keys_of. intros H. apply in_map_iff in H as ([c g] & <- & Hin). cbn [snd].
  exists c, g. csplit; auto. apply in_app_or in Hin as [Hin|Hin].
  - apply (d0_In is_empty root d0 WF0) in Hin. destruct (d0_plain is_empty root d0 WF0 _ _ Hin) as (r & -> & Hr). exact Hr.
  - destruct (lazy_entry _ _ Hin) as (_ & -> & _). reflexivity.
Qed.

Lemma one_rule : forall k k', In k R0 -> In k' R0 -> parent k = parent k' -> k = k'.
Proof.
  intros k k' H H' Hp. destruct (R0_entry _ H) as (c & g & Hin & -> & Hc).
  destruct (R0_entry _ H') as (c' & g' & Hin' & -> & Hc'). rewrite Hc, Hc' in Hp. subst c'.
  f_equal. apply in_app_or in Hin as [Hin|Hin]; apply in_app_or in Hin' as [Hin'|Hin'].
  - apply (d0_In is_empty root d0 WF0) in Hin, Hin'. congruence.
  - apply (d0_In is_empty root d0 WF0) in Hin. destruct (lazy_entry _ _ Hin') as (A & _). congruence.
  - apply (d0_In is_empty root d0 WF0) in Hin'. destruct (lazy_entry _ _ Hin) as (A & _). congruence.
  - destruct (lazy_entry _ _ Hin) as (_ & _ & A). destruct (lazy_entry _ _ Hin') as (_ & _ & A'). congruence.
Qed.

Lemma bkey_unary r z : In (b_cls r, GB r) d0 -> b_ch r = [z] -> fkids (bkey r) = [(z, shift1 r)].
Proof.
  intros Hin Hz. pose proof (shifts_ok _ _ Hin) as Hl. unfold bkey, shift1. cbn [Forest.Spec.kids]. rewrite Hz in *.
  destruct (b_sh r) as [|s [|]]; try discriminate. reflexivity.
Qed.

Lemma fchain_chain l c y : fchain root d0 l c y ->
  chain R0 kept (map bkey l) c y (zsum (map shift1 l)).
Proof.
  induction 1 as [r y H He Hc|r l h y H He Hc Hh Hl IH].
  - cbn [map zsum fold_right]. replace (shift1 r + 0) with (shift1 r) by lia.
    apply (d0_In is_empty root d0 WF0) in H.
    change (b_cls r) with (parent (bkey r)). apply chain_one; [|apply bkey_unary; auto].
    unfold GroupingProdKeys.R0, keys_of. apply in_map_iff. exists (b_cls r, GB r). split; auto. apply in_or_app. left; auto.
  - cbn [map zsum fold_right]. apply (d0_In is_empty root d0 WF0) in H.
    change (b_cls r) with (parent (bkey r)). apply chain_cons with (h := h); auto.
    + unfold GroupingProdKeys.R0, keys_of. apply in_map_iff. exists (b_cls r, GB r). split; auto. apply in_or_app. left; auto.
    + apply bkey_unary; auto.
    + unfold kept. rewrite Hh. discriminate.
Qed.

Lemma path_key r0 rs c y : fchain root d0 (r0 :: rs) c y ->
  gkey (GP r0 rs) = mkkey c [(y, zsum (map shift1 (r0 :: rs)))].
Proof.
  intros H. unfold gkey. rewrite (fchain_last root d0 _ _ _ _ H).
  destruct (fchain_head root d0 _ _ _ H) as (? & ? & [= <- <-] & ->). reflexivity.
Qed.

Lemma kids_combine_in c s (r : brule) : In (c, s) (fkids (bkey r)) -> In c (b_ch r).
Proof. unfold bkey. cbn [Forest.Spec.kids]. apply in_combine_l. Qed.

Lemma grouped_sound : forall k1, In k1 R1 ->
  (In k1 R0 /\ forall c s, In (c, s) (fkids k1) -> kept c) \/
  (exists ks n S, chain R0 kept ks (parent k1) n S /\ kept n /\ fkids k1 = [(n, S)]).
Proof.
  intros k1 H. unfold GroupingProdKeys.R1, keys_of in H. apply in_map_iff in H as ([c g] & <- & Hin). cbn [snd].
  pose proof (In_dget _ _ _ d1_nodup Hin) as Hg.
  destruct G1 as (_ & _ & _ & _ & _ & Hpath & Hs & _).
  destruct (Hs _ _ Hg) as (Hn & [(r0 & rs & -> & H0 & He)|[(r & -> & He & H0)|(H0 & -> & Hem)]]).
  - right. destruct (Hpath _ _ H0 He Hn) as (rs' & y & Hg' & Hc & Hyn & _).
    rewrite Hg in Hg'. injection Hg' as <-. rewrite (path_key _ _ _ _ Hc). cbn [parent Forest.Spec.kids].
    eexists _, y, _. csplit; [apply (fchain_chain _ _ _ Hc)|exact Hyn|reflexivity].
  - left. split.
    + unfold GroupingProdKeys.R0, keys_of. apply in_map_iff. exists (c, GB r). split; auto. apply in_or_app. left.
      apply (d0_In is_empty root d0 WF0). exact H0.
    + intros x s Hx. apply kids_combine_in in Hx. destruct (noneq_nh is_empty root d0 WF0 _ _ H0 He) as [_ Hk].
      apply Hk. exact Hx.
  - left. split.
    + unfold GroupingProdKeys.R0, keys_of. apply in_map_iff. exists (c, empty_rule c). split; auto. apply in_or_app. right.
      unfold GroupingProdKeys.lazy1. apply filter_In. split; auto. cbn [fst]. apply negb_true_iff. apply dmem_false. exact H0.
    + intros x s [].
Qed.

Lemma grouped_complete : forall k, In k R0 -> kept (parent k) ->
  (In k R1 /\ forall c s, In (c, s) (fkids k) -> kept c) \/
  (exists ks n S, chain R0 kept (k :: ks) (parent k) n S /\ kept n /\ In (mkkey (parent k) [(n, S)]) R1).
Proof.
  intros k H Hk. destruct (R0_entry _ H) as (c & g & Hin & -> & Hc). rewrite Hc in *.
  destruct G1 as (_ & _ & _ & _ & Hkeep & Hpath & _).
  apply in_app_or in Hin as [Hin|Hin].
  - apply (d0_In is_empty root d0 WF0) in Hin. destruct (d0_plain is_empty root d0 WF0 _ _ Hin) as (r & -> & Hr).
    destruct (b_eqv r) eqn:Ee.
    + right. destruct (Hpath _ _ Hin Ee Hk) as (rs & y & Hg & Hch & Hyn & _).
      pose proof (fchain_chain _ _ _ Hch) as Hc'. cbn [map] in Hc'.
      eexists _, y, _. csplit; [exact Hc'|exact Hyn|].
      unfold GroupingProdKeys.R1, keys_of. apply in_map_iff. exists (c, GP r rs). split; [|apply dget_In; exact Hg].
      cbn [snd]. apply (path_key _ _ _ _ Hch).
    + left. split.
      * unfold GroupingProdKeys.R1, keys_of. apply in_map_iff. exists (c, GB r). split; auto. apply dget_In. apply Hkeep; auto.
      * intros x s Hx. apply kids_combine_in in Hx. destruct (noneq_nh is_empty root d0 WF0 _ _ Hin Ee) as [_ Hkk].
        apply Hkk. exact Hx.
  - destruct (lazy_entry _ _ Hin) as (_ & -> & Hg). left. split; [|intros x s []].
    unfold GroupingProdKeys.R1, keys_of. apply in_map_iff. exists (c, empty_rule c). split; auto. apply dget_In. exact Hg.
Qed.

(* a class that is not hidden pumps w.r.t. the grouped rules iff it pumps w.r.t. the ungrouped ones *)
Theorem grouping_preserves_pumping : forall c, mem c nh = true -> (pumps R1 c <-> pumps R0 c).
Proof. intros c Hc. apply (pumps_grouped_iff R0 R1 kept one_rule grouped_sound grouped_complete c Hc). Qed.

Corollary grouping_preserves_root_pumping : pumps R1 root <-> pumps R0 root.
Proof. apply grouping_preserves_pumping. apply (root_nh root d0). Qed.

(* the derivation is not even longer: level by level, from the grouped to the ungrouped rules *)
Theorem grouped_derivable_ungrouped : forall c v, derivable R1 c v -> derivable R0 c v.
Proof. apply (derivable_R1_R0 R0 R1 kept grouped_sound). Qed.

End Link.
