(* The productivity verdict of the constructor model, computed with the PROVED table-method model.
   DEFINITIONS ONLY (used by the executable Spec/GroupingRun.v run_spec; the theorems are in
   Spec/GroupingPumpsProofs.v).

     pumpsb ks c        the answer of is_pumping(c) of the table-method model (Forest/Model.v `run`, layer A)
                        after inserting the keys ks into a fresh table, run with the fuel PROVED sufficient
                        (Forest/TerminationDefs.v run_total); by C03_total_sound_complete it is true iff
                        c pumps w.r.t. ks in the least-fixed-point semantics (Forest/Spec.v pumps)
     verdicts ks root   one run of the table method on ks: the verdict for `root` and for the parent of
                        every key (in the order of ks)
     all_pumpb ks       every parent of a key of ks pumps w.r.t. ks ("the rule set is productive") *)
From Coq Require Import ZArith List Bool.
From CSS Require Import Forest.Spec Forest.Model Forest.TerminationDefs.
Import ListNotations.

Definition pick_first (_ : list nat) : nat := O.

Definition tm_of (ks : list fkey) : tm := run_total pick_first (map AddKey ks).

Definition pumpsb (ks : list fkey) (c : nat) : bool := snd (is_pumping (tm_of ks) c).

Definition verdicts (ks : list fkey) (root : nat) : bool * list (nat * bool) :=
  let st := tm_of ks in
  (snd (is_pumping st root), map (fun k => (parent k, snd (is_pumping st (parent k)))) ks).

Definition all_pumpb (ks : list fkey) : bool := forallb (fun pb => snd pb) (snd (verdicts ks O)).
