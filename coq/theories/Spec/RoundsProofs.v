(* The executable bottom-up evaluator of Spec/CountRun.v (`rounds`: what run_c01 extracts and the
   harness compares with Rule.get_terms of every class of a returned specification) and the
   recursive evaluator of Spec/Eval.v (`eval`: what the C01 theorems are about).

   rounds_levels   the generic invariant: a property Q of (class, size, table) that every
                   successful step establishes from the levels computed so far holds of EVERY
                   level of the final state, for any fuel.
   rounds_is_eval  REFINEMENT: every level  n  of class  c  that `rounds` computes is, for all large
                   enough fuel, `eval` of the specification  spec_of ds = srule_of of each descriptor
                   at (c, n) — Leibniz equality of the raw tables, no hypothesis on the tables, only
                   deps_shape (declared dependencies = the rule's children, declared shifts at most
                   the regenerated ones).  Uses srule_of_local (C10) and stepF_labels. *)
From Coq Require Import ZArith List Bool Lia.
From CSS Require Import Spec.Eval.
From CSS Require Import Base.Sx Gen.Prelude Count.Terms Count.Constructors Count.ConstructorsRun
  Count.TermsPolyOrder Spec.TermsCanon Spec.Adapter Spec.AdapterLocal Spec.AdapterSound Spec.CountRun.
Import ListNotations.
Open Scope Z_scope.

(* ---------------------------------------------------------------- state *)
Lemma tabs_of_set_nth (st : list (list terms)) c v l :
  tabs_of (set_nth st c v) l = if (l =? c)%nat && (c <? length st)%nat then v else tabs_of st l.
Proof.
  unfold tabs_of. revert c l. induction st as [|x st IH]; intros c l.
  - simpl. destruct c; destruct l; simpl; try rewrite andb_false_r; reflexivity.
  - destruct c as [|c].
    + destruct l as [|l]; reflexivity.
    + destruct l as [|l]; [reflexivity|]. simpl set_nth. cbn [nth]. rewrite IH.
      change (S l =? S c)%nat with (l =? c)%nat. change (S c <? length (x :: st))%nat with (c <? length st)%nat.
      reflexivity.
Qed.

Lemma set_nth_length {A} (l : list A) n v : length (set_nth l n v) = length l.
Proof. revert n. induction l as [|x l IH]; intros [|n]; simpl; try reflexivity. rewrite IH. reflexivity. Qed.

Lemma tabs_of_repeat k l : tabs_of (repeat [] k) l = [].
Proof.
  unfold tabs_of. destruct (Nat.lt_ge_cases l k) as [H|H].
  - apply nth_repeat.
  - apply nth_overflow. rewrite repeat_length. exact H.
Qed.

Lemma ready_spec d st n : ready d st n = true ->
  forall l s, In (l, s) (c_deps d) -> n - s < zlen (tabs_of st l).
Proof.
  unfold ready. rewrite forallb_forall. intros H l s Hin. specialize (H (l, s) Hin). cbv beta iota in H. apply Z.ltb_lt in H. exact H.
Qed.

(* ---------------------------------------------------------------- generic invariants *)
Section Invariant.
Variable DS : list cdesc.
Variable N : Z.
Variable P : list (list terms) -> Prop.
Hypothesis P_step : forall st c d t,
  P st -> nth_error DS c = Some d ->
  zlen (tabs_of st c) <= N -> ready d st (zlen (tabs_of st c)) = true ->
  step_of d st (fun m => tab_at (tabs_of st c) m) (zlen (tabs_of st c)) = Ok t ->
  P (set_nth st c (tabs_of st c ++ [t])).

Lemma round_from_inv : forall ds c st errs,
  (forall i d, nth_error ds i = Some d -> nth_error DS (c + i) = Some d) ->
  P st -> P (fst (round_from ds c N st errs)).
Proof.
  induction ds as [|d rest IH]; intros c st errs Hds HP; [exact HP|].
  assert (Hrest : forall i d0, nth_error rest i = Some d0 -> nth_error DS (S c + i) = Some d0).
  { intros i d0 H. replace (S c + i)%nat with (c + S i)%nat by lia. apply Hds. exact H. }
  assert (Hd : nth_error DS c = Some d) by (rewrite <- (Nat.add_0_r c); apply Hds; reflexivity).
  simpl round_from.
  destruct ((zlen (tabs_of st c) <=? N) && (nth c errs 0 =? 0) && ready d st (zlen (tabs_of st c))) eqn:E.
  - apply andb_true_iff in E. destruct E as [E E3]. apply andb_true_iff in E. destruct E as [E1 E2].
    destruct (step_of d st (fun m => tab_at (tabs_of st c) m) (zlen (tabs_of st c))) as [t|e] eqn:Es.
    + apply IH; [exact Hrest|]. apply (P_step st c d t HP Hd); [lia|exact E3|exact Es].
    + apply IH; [exact Hrest|exact HP].
  - apply IH; [exact Hrest|exact HP].
Qed.

Lemma rounds_inv : forall fuel st errs, P st -> P (fst (rounds fuel DS N st errs)).
Proof.
  induction fuel as [|f IH]; intros st errs HP; [exact HP|]. simpl rounds.
  destruct (round_from DS 0 N st errs) as [st' errs'] eqn:E.
  apply IH. change st' with (fst (st', errs')). rewrite <- E.
  apply round_from_inv; [intros i d H; exact H|exact HP].
Qed.
End Invariant.

(* levels: Q holds of every computed level *)
Definition all_levels (Q : nat -> Z -> terms -> Prop) (st : list (list terms)) : Prop :=
  forall l m, (m < length (tabs_of st l))%nat -> Q l (Z.of_nat m) (nth m (tabs_of st l) []).

Theorem rounds_levels (DS : list cdesc) (N : Z) (Q : nat -> Z -> terms -> Prop) :
  (forall st c d t, all_levels Q st -> nth_error DS c = Some d ->
     let n := zlen (tabs_of st c) in
     n <= N -> ready d st n = true ->
     step_of d st (fun m => tab_at (tabs_of st c) m) n = Ok t -> Q c n t) ->
  forall fuel k errs, all_levels Q (fst (rounds fuel DS N (repeat [] k) errs)).
Proof.
  intros HQ fuel k errs. apply (rounds_inv DS N (all_levels Q)).
  - intros st c d t HP Hd Hn Hr Hs l m Hm. rewrite tabs_of_set_nth in Hm |- *.
    destruct ((l =? c)%nat && (c <? length st)%nat) eqn:E; [|apply HP; exact Hm].
    apply andb_true_iff in E. destruct E as [E _]. apply Nat.eqb_eq in E. subst l.
    rewrite app_length in Hm. simpl in Hm.
    destruct (Nat.lt_ge_cases m (length (tabs_of st c))) as [Hlt|Hge].
    + rewrite app_nth1 by exact Hlt. apply HP. exact Hlt.
    + assert (m = length (tabs_of st c)) by lia. subst m.
      rewrite app_nth2, Nat.sub_diag by lia. simpl.
      apply (HQ st c d t HP Hd Hn Hr Hs).
  - intros l m Hm. rewrite tabs_of_repeat in Hm. simpl in Hm. lia.
Qed.

(* a bound on the fuel that works for all (finitely many) computed levels at once *)
Lemma levels_bound_list (E : nat -> nat -> Z -> Prop) : forall (lv : list terms) l,
  (forall m, (m < length lv)%nat -> exists f0, forall f, (f0 <= f)%nat -> E f l (Z.of_nat m)) ->
  exists F, forall m, (m < length lv)%nat -> forall f, (F <= f)%nat -> E f l (Z.of_nat m).
Proof.
  intros lv l. induction lv as [|t lv IH] using rev_ind; intros H.
  - exists O. intros m Hm. simpl in Hm. lia.
  - rewrite app_length in H. simpl in H.
    destruct IH as [F1 H1]; [intros m Hm; apply H; lia|].
    destruct (H (length lv) ltac:(lia)) as [F2 H2].
    exists (Nat.max F1 F2). intros m Hm f Hf. rewrite app_length in Hm. simpl in Hm.
    destruct (Nat.eq_dec m (length lv)) as [->|Hne]; [apply H2; lia|apply H1; lia].
Qed.

Lemma levels_bound (E : nat -> nat -> Z -> Prop) (st : list (list terms)) :
  (forall l m, (m < length (tabs_of st l))%nat -> exists f0, forall f, (f0 <= f)%nat -> E f l (Z.of_nat m)) ->
  exists F, forall l m, (m < length (tabs_of st l))%nat -> forall f, (F <= f)%nat -> E f l (Z.of_nat m).
Proof.
  intros H.
  assert (G : forall k, exists F, forall l m, (l < k)%nat -> (m < length (tabs_of st l))%nat ->
                forall f, (F <= f)%nat -> E f l (Z.of_nat m)).
  { induction k as [|k [F1 H1]].
    - exists O. intros l m Hl. lia.
    - destruct (levels_bound_list E (tabs_of st k) k (H k)) as [F2 H2].
      exists (Nat.max F1 F2). intros l m Hl Hm f Hf.
      destruct (Nat.eq_dec l k) as [->|Hne]; [apply H2; [exact Hm|lia]|apply H1; [lia|exact Hm|lia]]. }
  destruct (G (length st)) as [F HF]. exists F. intros l m Hm f Hf.
  apply HF; [|exact Hm|exact Hf].
  destruct (Nat.lt_ge_cases l (length st)) as [Hl|Hl]; [exact Hl|].
  unfold tabs_of in Hm. rewrite nth_overflow in Hm by exact Hl. simpl in Hm. lia.
Qed.

(* ================================================================ rounds computes eval *)
Section Refinement.
Variable DS : list cdesc.
Hypothesis shapes : forall c d, nth_error DS c = Some d -> deps_shape d.

Lemma spec_of_some c d : nth_error DS c = Some d -> spec_of DS c = Some (srule_of d).
Proof. intros H. unfold spec_of. rewrite H. reflexivity. Qed.

Lemma spec_of_inv c r : spec_of DS c = Some r -> exists d, nth_error DS c = Some d /\ r = srule_of d.
Proof.
  unfold spec_of. destruct (nth_error DS c) as [d|]; simpl; intros H; [|discriminate].
  exists d. split; [reflexivity|]. congruence.
Qed.

Lemma spec_of_neg : forall c r, spec_of DS c = Some r -> forall p o n, n < 0 -> r_op terms r p o n = [].
Proof. intros c r H p o n Hn. destruct (spec_of_inv c r H) as (d & _ & ->). apply srule_of_neg. exact Hn. Qed.

Lemma spec_of_local : forall c r, spec_of DS c = Some r -> local terms r.
Proof. intros c r H. destruct (spec_of_inv c r H) as (d & Hd & ->). apply srule_of_local. apply (shapes c d Hd). Qed.

Definition ev_is (c : nat) (n : Z) (t : terms) : Prop :=
  exists f0, forall f, (f0 <= f)%nat -> eval terms [] (spec_of DS) f c n = t.

Lemma tab_at_nth (lv : list terms) m : 0 <= m -> tab_at lv m = nth (Z.to_nat m) lv [].
Proof. intros H. unfold tab_at. replace (m <? 0) with false by lia. reflexivity. Qed.

Lemma tab_at_neg (lv : list terms) m : m < 0 -> tab_at lv m = [].
Proof. intros H. unfold tab_at. replace (m <? 0) with true by lia. reflexivity. Qed.

Lemma in_deps_nth d i : (i < length (c_deps d))%nat ->
  In (kid_of d i, shift terms (srule_of d) i) (c_deps d).
Proof.
  intros H. unfold kid_of, Spec.Eval.kid, shift. simpl r_kids. rewrite <- surjective_pairing. apply nth_In. exact H.
Qed.

Lemma step_is_eval st c d t N :
  all_levels ev_is st -> nth_error DS c = Some d ->
  let n := zlen (tabs_of st c) in
  n <= N -> ready d st n = true ->
  step_of d st (fun m => tab_at (tabs_of st c) m) n = Ok t -> ev_is c n t.
Proof.
  intros HP Hd n Hn Hr Hs.
  destruct (levels_bound (fun f l m => eval terms [] (spec_of DS) f l m = tab_at (tabs_of st l) m) st) as [F HF].
  { intros l m Hm. destruct (HP l m Hm) as [f0 H0]. exists f0. intros f Hf.
    rewrite (H0 f Hf), tab_at_nth, Nat2Z.id by lia. reflexivity. }
  assert (Hn0 : 0 <= n) by (unfold n, zlen; lia).
  exists (S F). intros f Hf. destruct f as [|f]; [lia|]. simpl eval.
  rewrite (spec_of_some c d Hd). simpl r_op. unfold op_of. replace (n <? 0) with false by lia.
  rewrite step_of_F in Hs.
  rewrite (stepF_labels d (st_prov st) _ n (shapes c d Hd)) in Hs.
  set (Pf := fun (i : nat) (m : Z) => eval terms [] (spec_of DS) f (Spec.Eval.kid terms (srule_of d) i) m).
  change (unres (stepF_with d (kp_of d Pf) (Pf 0%nat) (Pf 0%nat) (fun m => eval terms [] (spec_of DS) f c m) n) = t).
  rewrite <- (stepF_local d (fun i => st_prov st (kid_of d i)) Pf (fun m => tab_at (tabs_of st c) m)
                (fun m => eval terms [] (spec_of DS) f c m) n (shapes c d Hd)).
  - rewrite Hs. reflexivity.
  - split.
    + intros i m Hi Hm. unfold Pf. fold (kid_of d i). unfold st_prov.
      destruct (Z_lt_le_dec m 0) as [Hneg|Hpos].
      * rewrite tab_at_neg by exact Hneg. symmetry. apply (eval_neg terms [] (spec_of DS) spec_of_neg). exact Hneg.
      * pose proof (ready_spec d st n Hr _ _ (in_deps_nth d i Hi)) as Hlen. unfold zlen in Hlen.
        symmetry. rewrite <- (Z2Nat.id m) by lia. apply HF; [lia|lia].
    + intros m Hm. destruct (Z_lt_le_dec m 0) as [Hneg|Hpos].
      * rewrite tab_at_neg by exact Hneg. symmetry. apply (eval_neg terms [] (spec_of DS) spec_of_neg). exact Hneg.
      * symmetry. rewrite <- (Z2Nat.id m) by lia. apply HF; [unfold n, zlen in Hm; lia|lia].
Qed.

Theorem rounds_is_eval fuel N k errs :
  let st := fst (rounds fuel DS N (repeat [] k) errs) in
  forall c n, 0 <= n < zlen (tabs_of st c) ->
  exists f0, forall f, (f0 <= f)%nat ->
    eval terms [] (spec_of DS) f c n = nth (Z.to_nat n) (tabs_of st c) [].
Proof.
  intros st c n Hn.
  pose proof (rounds_levels DS N ev_is (fun st c d t HP Hd => step_is_eval st c d t N HP Hd) fuel k errs) as H.
  fold st in H. unfold zlen in Hn. specialize (H c (Z.to_nat n) ltac:(lia)).
  rewrite Z2Nat.id in H by lia. exact H.
Qed.
End Refinement.

(* ================================================================ rounds computes the TRUE tables *)
Section Correct.
Variable DS : list cdesc.
Variable N : Z.                         (* levels 0..N are computed *)
Variable T : nat -> Z -> terms.         (* the true tables *)
Variable npar : nat -> nat.
Variables vpos kpos : nat -> bool.
Hypothesis HT : T_ok T npar.
Hypothesis shapes : forall c d, nth_error DS c = Some d -> deps_shape d.
Hypothesis contracts : forall c d, nth_error DS c = Some d -> rule_contract T npar vpos kpos N c d.

Notation good := (good T npar vpos kpos).

(* the levels computed so far, completed by the true tables *)
Definition completed (st : list (list terms)) (l : nat) (m : Z) : terms :=
  if (0 <=? m) && (m <? zlen (tabs_of st l)) then tab_at (tabs_of st l) m else T l m.

Lemma completed_good st : all_levels good st -> goodp T npar vpos kpos (completed st).
Proof.
  intros HP l m. unfold completed. destruct ((0 <=? m) && (m <? zlen (tabs_of st l))) eqn:E.
  - apply andb_true_iff in E. destruct E as [E1 E2]. unfold zlen in E2.
    apply Z.leb_le in E1. apply Z.ltb_lt in E2.
    rewrite tab_at_nth by lia. rewrite <- (Z2Nat.id m) at 1 by lia. apply HP. lia.
  - apply good_T. exact HT.
Qed.

Lemma completed_agrees st l m : m < zlen (tabs_of st l) -> completed st l m = st_prov st l m.
Proof.
  intros H. unfold completed, st_prov. destruct (0 <=? m) eqn:E; simpl.
  - apply Z.ltb_lt in H. rewrite H. reflexivity.
  - apply Z.leb_gt in E. rewrite tab_at_neg by lia. destruct HT as [Hneg _]. apply Hneg. lia.
Qed.

Lemma step_is_good st c d t :
  all_levels good st -> nth_error DS c = Some d ->
  let n := zlen (tabs_of st c) in
  n <= N -> ready d st n = true ->
  step_of d st (fun m => tab_at (tabs_of st c) m) n = Ok t -> good c n t.
Proof.
  intros HP Hd n Hn Hr Hs.
  assert (Hn0 : 0 <= n) by (unfold n, zlen; lia).
  pose proof (shapes c d Hd) as Hsh.
  rewrite step_of_F in Hs.
  rewrite (stepF_labels d (st_prov st) _ n Hsh) in Hs.
  rewrite (stepF_local d (fun i => st_prov st (kid_of d i)) (fun i => completed st (kid_of d i))
             (fun m => tab_at (tabs_of st c) m) (completed st c) n Hsh) in Hs.
  - rewrite <- (stepF_labels d (completed st) (completed st c) n Hsh) in Hs.
    destruct (stepF_sound T npar vpos kpos HT N c d (completed st) (completed st c) n (contracts c d Hd)
                (completed_good st HP) (fun m => completed_good st HP c m) Hn0 (fun _ => Hn)) as (r & Hr' & Hg).
    rewrite Hr' in Hs. inversion Hs; subst. exact Hg.
  - split.
    + intros i m Hi Hm. symmetry. apply completed_agrees.
      pose proof (ready_spec d st n Hr _ _ (in_deps_nth d i Hi)). lia.
    + intros m Hm. symmetry. apply (completed_agrees st c m). fold n. lia.
Qed.

Theorem rounds_good fuel k errs : all_levels good (fst (rounds fuel DS N (repeat [] k) errs)).
Proof. apply rounds_levels. intros st c d t HP Hd. apply (step_is_good st c d t HP Hd). Qed.

(* every level the evaluator has computed — whatever the fuel — is the true table, in canonical form *)
Theorem rounds_correct fuel k errs :
  (forall l m, canon (T l m)) ->
  let st := fst (rounds fuel DS N (repeat [] k) errs) in
  forall c n, 0 <= n < zlen (tabs_of st c) -> tnorm (nth (Z.to_nat n) (tabs_of st c) []) = T c n.
Proof.
  intros Hcanon st c n Hn. unfold zlen in Hn.
  assert (Hlt : (Z.to_nat n < length (tabs_of st c))%nat) by lia.
  pose proof (rounds_good fuel k errs c (Z.to_nat n) Hlt) as Hg.
  rewrite Z2Nat.id in Hg by lia. destruct Hg as (Hteq & _). fold st in Hteq.
  rewrite (tnorm_unique _ _ Hteq). apply tnorm_id. apply Hcanon.
Qed.
End Correct.

(* ================================================================ the extracted function run_c01
   The wire-level statement: whenever run_c01 reports status (0 0) = "complete up to N" for class c,
   the levels 0..N it prints for c are the canonical true tables. *)
Lemma enc_table_tnorm a b : tnorm a = tnorm b -> enc_table a = enc_table b.
Proof. intros H. unfold enc_table. rewrite H. reflexivity. Qed.

Lemma firstn_as_map {A} (d : A) : forall (n : nat) (l : list A), (n <= length l)%nat ->
  firstn n l = map (fun i => nth i l d) (seq 0 n).
Proof.
  induction n as [|n IH]; intros l H; [reflexivity|].
  destruct l as [|x l]; simpl in H; [lia|]. simpl. f_equal.
  rewrite <- seq_shift, map_map. apply IH. lia.
Qed.

Lemma combine_nth' {A B} (da : A) (db : B) : forall (a : list A) (b : list B) c,
  (c < length a)%nat -> (c < length b)%nat -> nth c (combine a b) (da, db) = (nth c a da, nth c b db).
Proof.
  induction a as [|x a IH]; intros [|y b] [|c] Ha Hb; simpl in *; try lia; [reflexivity|].
  apply IH; lia.
Qed.

Definition status_sx (N : Z) (p : list terms * Z) : sx :=
  let '(lv, e) := p in
  if N <? zlen lv then L [I 0; I 0] else if negb (e =? 0) then L [I 2; I e] else L [I 1; I 0].

Lemma run_c01_unfold inp :
  let N := sx_Z (sx_nth inp 0) in
  let Nc := sx_Z (sx_nth inp 1) in
  let ds := map dec_cdesc (sx_list (sx_nth inp 2)) in
  let k := length ds in
  let r := rounds (S (k * Z.to_nat (Nc + 2))) ds Nc (repeat [] k) (repeat 0 k) in
  run_c01 inp = L [ L (map (fun lv => L (map enc_table (firstn (Z.to_nat (N + 1)) lv))) (fst r));
                    L (map (status_sx N) (combine (fst r) (snd r))) ].
Proof.
  cbv zeta. unfold run_c01.
  destruct (rounds _ _ _ _ _) as [st errs]. simpl fst. simpl snd.
  match goal with |- L [_; L (map ?g ?l)] = _ =>
    rewrite (map_ext g (status_sx (sx_Z (sx_nth inp 0)))); [reflexivity|intros [lv e]; reflexivity] end.
Qed.

Section RunCorrect.
Variable inp : sx.
Let N := sx_Z (sx_nth inp 0).
Let Nc := sx_Z (sx_nth inp 1).
Let DS := map dec_cdesc (sx_list (sx_nth inp 2)).
Variable T : nat -> Z -> terms.
Variable npar : nat -> nat.
Variables vpos kpos : nat -> bool.
Hypothesis HT : T_ok T npar.
Hypothesis Hcanon : forall l m, canon (T l m).
Hypothesis shapes : forall c d, nth_error DS c = Some d -> deps_shape d.
Hypothesis contracts : forall c d, nth_error DS c = Some d -> rule_contract T npar vpos kpos Nc c d.
Hypothesis N_nonneg : 0 <= N.

Theorem run_c01_correct c :
  sx_nth (sx_nth (run_c01 inp) 1) c = L [I 0; I 0] ->
  sx_nth (sx_nth (run_c01 inp) 0) c =
  L (map (fun n => enc_table (T c (Z.of_nat n))) (seq 0 (Z.to_nat (N + 1)))).
Proof.
  rewrite run_c01_unfold. fold N Nc DS.
  set (k := length DS). set (r := rounds (S (k * Z.to_nat (Nc + 2))) DS Nc (repeat [] k) (repeat 0 k)).
  unfold sx_nth at 2 4. cbn [sx_list nth]. unfold sx_nth. cbn [sx_list].
  intros Hst.
  assert (Hc : (c < length (combine (fst r) (snd r)))%nat).
  { destruct (Nat.lt_ge_cases c (length (combine (fst r) (snd r)))) as [H|H]; [exact H|].
    rewrite nth_overflow in Hst by (rewrite map_length; exact H). discriminate. }
  rewrite (nth_indep _ (L []) (status_sx N ([], 0))) in Hst by (rewrite map_length; exact Hc).
  rewrite map_nth in Hst. rewrite combine_length in Hc.
  rewrite combine_nth' in Hst by lia. cbv beta iota in Hst.
  unfold status_sx in Hst.
  destruct (N <? zlen (nth c (fst r) [])) eqn:E.
  2:{ destruct (negb (nth c (snd r) 0 =? 0)); discriminate. }
  apply Z.ltb_lt in E. change (nth c (fst r) []) with (tabs_of (fst r) c) in E.
  rewrite (nth_indep _ (L []) ((fun lv => L (map enc_table (firstn (Z.to_nat (N + 1)) lv))) [])) by (rewrite map_length; lia).
  rewrite (map_nth (fun lv => L (map enc_table (firstn (Z.to_nat (N + 1)) lv)))).
  change (nth c (fst r) []) with (tabs_of (fst r) c). f_equal.
  unfold zlen in E.
  transitivity (map enc_table (map (fun i => nth i (tabs_of (fst r) c) []) (seq 0 (Z.to_nat (N + 1)))));
    [f_equal; apply firstn_as_map; lia|].
  rewrite map_map. apply map_ext_in. intros n Hn. apply in_seq in Hn.
  apply enc_table_tnorm.
  pose proof (rounds_correct DS Nc T npar vpos kpos HT shapes contracts (S (k * Z.to_nat (Nc + 2))) k (repeat 0 k) Hcanon
                c (Z.of_nat n)) as H.
  cbv zeta in H. fold r in H. rewrite Nat2Z.id in H. rewrite H; [|unfold zlen; lia].
  symmetry. apply tnorm_id. apply Hcanon.
Qed.
End RunCorrect.
