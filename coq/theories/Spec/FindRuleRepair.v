(* The repair proposed for the open finding `oneway-equivalence-with-empty-sibling`
   (findings/oneway_equivalence_with_empty_sibling.patch.diff: rules() hands out an unconverted
   equivalence rule with several children in its equivalence form, model: rules ... convert := true):
   with it EVERY rule rules() yields whose is_equivalence() is True has exactly one child - the
   hypothesis unary_eqv of the C02 grouping theorems - for every table and every pair of stores.
   With the code as it is (convert := false) the same holds for every rule except the ones that come
   straight from rule_to_strategy (FPlain from the first branch of _find_rule). *)
From Coq Require Import ZArith List Bool Lia.
From CSS Require Import Base.PyList ClassDB.Model Searcher.Model RuleDB.Model Spec.FindRule Spec.FindRuleProofs.
Import ListNotations.
Open Scope Z_scope.

Section Repair.
Variable T : table.
Variable cap : Z -> bool.
Variables get_r get_e : lookup.

Lemma form_unary_or_plain f p cs : from_table T cap get_r get_e p cs f ->
  form_is_equivalence T cap f = true ->
  (exists c, form_children T f = [c]) \/ (exists r, f = FPlain r /\ length (kids_of T r) <> 1%nat).
Proof.
  intros (_ & _ & H) He. destruct f as [r|r|r|r i]; cbn [form_rule] in H.
  - destruct (kids_of T r) as [|c [|c2 t]] eqn:E.
    + right. exists r. split; auto. rewrite E. discriminate.
    + left. exists c. cbn [form_children]. exact E.
    + right. exists r. split; auto. rewrite E. discriminate.
  - left. destruct H as (Hp & _). destruct (plain_equiv_first_nonempty T cap r Hp) as (_ & i & Hi).
    cbn [form_children]. rewrite Hi. eauto.
  - left. cbn [form_children]. eauto.
  - left. cbn [form_children]. eauto.
Qed.

Theorem repair_makes_equivalences_unary : forall entries d d' fs e,
  rules T cap get_r get_e true d entries = (d', fs, e) ->
  forall f, In f fs -> form_is_equivalence T cap f = true -> exists c, form_children T f = [c].
Proof.
  induction entries as [|[p cs] t IH]; intros d d' fs e H f Hin He; simpl in H.
  - injection H as _ <- _. destruct Hin.
  - destruct (find_rule T cap get_r get_e d p cs) as [d1 [f0|x]] eqn:E.
    + destruct (rules T cap get_r get_e true d1 t) as [[d2 fs'] e'] eqn:Er. injection H as _ <- _.
      destruct Hin as [<-|Hin]; [|eapply IH; eauto].
      pose proof (find_rule_from_table' T cap get_r get_e d p cs d1 f0 E) as Hft.
      destruct f0 as [r|r|r|r i]; cbn [converted] in *.
      * destruct (plain_is_equivalence T cap r) eqn:Ep; cbn [andb] in *.
        -- destruct (Nat.eqb (length (kids_of T r)) 1) eqn:El; cbn [negb] in *.
           ++ apply Nat.eqb_eq in El. cbn [form_children].
              destruct (kids_of T r) as [|c [|]]; try discriminate. eauto.
           ++ destruct (plain_equiv_first_nonempty T cap r Ep) as (_ & i & Hi).
              cbn [form_children]. rewrite Hi. eauto.
        -- cbn [form_is_equivalence] in He. congruence.
      * destruct (form_unary_or_plain _ _ _ Hft He) as [G|(r' & [=] & _)]; exact G.
      * destruct (form_unary_or_plain _ _ _ Hft He) as [G|(r' & [=] & _)]; exact G.
      * destruct (form_unary_or_plain _ _ _ Hft He) as [G|(r' & [=] & _)]; exact G.
    + injection H as _ <- _. destruct Hin.
Qed.

(* the code as it is: the only equivalence rules with several children are unconverted rules of rule_to_strategy *)
Theorem unconverted_only_from_rule_store : forall entries d d' fs e,
  rules T cap get_r get_e false d entries = (d', fs, e) ->
  forall f, In f fs -> form_is_equivalence T cap f = true ->
  (exists c, form_children T f = [c]) \/ (exists r, f = FPlain r /\ length (kids_of T r) <> 1%nat).
Proof.
  intros entries d d' fs e H f Hin He.
  pose proof (rules_from_table T cap get_r get_e entries d d' fs e H) as G.
  clear H. induction G as [|k f0 l fs0 Hk Hl IH]; [destruct Hin|].
  destruct Hin as [<-|Hin]; [eapply form_unary_or_plain; eauto|auto].
Qed.

End Repair.

Print Assumptions repair_makes_equivalences_unary.
Print Assumptions unconverted_only_from_rule_store.
