(* C06 -> C02: the path oracle of the specification extractor is the equivalence database.

   SpecificationRuleExtractor (Spec/Extractor.v, over nat labels) takes a representative function `rep`
   and a path function `fpath` and C02_closed ASSUMES of them
       rep l = rep t -> fpath l t <> [] /\ hd O (fpath l t) = l /\ last (fpath l t) O = t
   ("contract: C06_path").  Here the two functions are DEFINED from the model of EquivalenceDB
   (Equiv/Model.v, over Z labels): natrep s = db[.] and natpath s = find_path, read on the state s reached by
   ANY history of operations on labels that are natural numbers (what the class database hands out), and
   the contract is PROVED - together with the clause the contract lacks, "follows recorded edges only":
   every step of natpath is an edge the history recorded (so every unary entry (p, [c]) the extractor
   adds for a path step - third conjunct of C02_closed - is a recorded equivalence edge). *)
From Coq Require Import ZArith List Bool Lia Relations.
From CSS Require Import Equiv.Model Equiv.Ref Equiv.UF Equiv.Inv Equiv.Hist Equiv.Path Equiv.Cov
  Equiv.Complete Equiv.Total Equiv.Neutral.
From CSS Require Import Props.C06.
From CSS Require Spec.Extractor Spec.ExtractorProofs.
Import ListNotations.
Open Scope Z_scope.

(* the labels an operation mentions *)
Definition op_labels (o : op) : list Z :=
  match o with
  | TwoWay a b | OneWay a b | QEquiv a b | QPath a b => [a; b]
  | SetVerified a | QVerified a | QFind a => [a]
  | Connect => []
  end.

(* a history over natural-number labels *)
Definition nonneg_hist (ops : list op) : Prop :=
  forall o x, In o ops -> In x (op_labels o) -> 0 <= x.

Section View.
Variable order : list Z -> list Z.
Hypothesis order_In : forall l x, In x (order l) <-> In x l.
Hypothesis order_len : forall l, (length (order l) <= length l)%nat.

Definition natrep (s : db) (l : nat) : nat := Z.to_nat (repf s (Z.of_nat l)).
Definition natpath (s : db) (l t : nat) : list nat :=
  map Z.to_nat (fpathf order s (Z.of_nat l) (Z.of_nat t)).

(* ------------------------------------------------------------ recorded edges end in labels of the history *)
Lemma recorded_label ops u v : nonneg_hist ops -> recorded ops u v -> 0 <= u /\ 0 <= v.
Proof.
  intros N (_ & [H|[H|H]]); split; apply (N _ _ H); simpl; auto.
Qed.

Lemma rt_last (R : Z -> Z -> Prop) a b : clos_refl_trans Z R a b -> a = b \/ exists u, R u b.
Proof.
  intros H. apply clos_rt_rtn1 in H. destruct H as [|u b Hub _]; [left; reflexivity|right; exists u; exact Hub].
Qed.

Lemma repf_nonneg ops s rs x :
  nonneg_hist ops -> exec order init ops = Some (s, rs) -> 0 <= x -> 0 <= repf s x.
Proof.
  intros N E Hx.
  pose proof (reach_inv order order_In _ _ _ E) as I.
  pose proof (exec_wf order order_len _ _ _ _ wf_init E) as W.
  assert (S : same s x (repf s x)) by (apply same_root; apply repf_root; exact W).
  assert (R : clos_refl_trans Z (recorded ops) x (repf s x)).
  { apply (HInv_reach _ _ _ _ I). eapply inv_sound; eauto. }
  destruct (rt_last _ _ _ R) as [<-|(u & Hu)]; [exact Hx|].
  apply (recorded_label ops u _ N Hu).
Qed.

Lemma epath_nonneg ops : nonneg_hist ops -> forall p, epath (recorded ops) p -> 0 <= hd 0 p -> Forall (fun v => 0 <= v) p.
Proof.
  intros N p. induction p as [|u p IH]; intros E H0; [constructor|].
  constructor; [exact H0|]. destruct p as [|v p]; [constructor|].
  destruct E as (Euv & E). apply IH; [exact E|]. simpl. apply (recorded_label ops u v N Euv).
Qed.

Lemma hd_map_to_nat p : p <> [] -> hd O (map Z.to_nat p) = Z.to_nat (hd 0 p).
Proof. destruct p; [congruence|reflexivity]. Qed.

Lemma last_map_to_nat p : p <> [] -> last (map Z.to_nat p) O = Z.to_nat (last p 0).
Proof.
  induction p as [|x p IH]; [congruence|]. intros _. destruct p as [|y p]; [reflexivity|].
  change (last (map Z.to_nat (y :: p)) O = Z.to_nat (last (y :: p) 0)). apply IH. discriminate.
Qed.

(* consecutive elements of a list *)
Inductive consecutive {A} : list A -> A -> A -> Prop :=
| cons_here : forall p c rest, consecutive (p :: c :: rest) p c
| cons_later : forall x rest p c, consecutive rest p c -> consecutive (x :: rest) p c.

Lemma epath_consecutive (E : Z -> Z -> Prop) p : epath E p -> forall u v, consecutive p u v -> E u v.
Proof.
  induction p as [|x p IH]; intros H u v C; [inversion C|].
  destruct p as [|y p]; [inversion C; subst; match goal with X : consecutive [] _ _ |- _ => inversion X end|].
  destruct H as (Hxy & H). inversion C; subst; [exact Hxy|]. apply IH; assumption.
Qed.

Lemma consecutive_map_to_nat p u v :
  Forall (fun x => 0 <= x) p -> consecutive (map Z.to_nat p) u v ->
  consecutive p (Z.of_nat u) (Z.of_nat v).
Proof.
  induction p as [|x p IH]; intros F C; [inversion C|].
  destruct p as [|y p]; [inversion C; subst; match goal with X : consecutive [] _ _ |- _ => inversion X end|].
  inversion F as [|? ? Hx F']. subst. inversion F' as [|? ? Hy _]. subst.
  simpl in C. inversion C; subst.
  - rewrite !Z2Nat.id by assumption. constructor.
  - constructor. apply IH; assumption.
Qed.

(* ------------------------------------------------------------ the contract of C02_closed, proved *)
Theorem extractor_path_contract ops s rs :
  nonneg_hist ops -> exec order init ops = Some (s, rs) ->
  forall l t, natrep s l = natrep s t ->
    natpath s l t <> [] /\ hd O (natpath s l t) = l /\ last (natpath s l t) O = t /\
    forall u v, consecutive (natpath s l t) u v -> recorded ops (Z.of_nat u) (Z.of_nat v).
Proof.
  intros N E l t R.
  assert (Rz : repf s (Z.of_nat l) = repf s (Z.of_nat t)).
  { unfold natrep in R. apply Z2Nat.inj in R; [exact R| |]; eapply repf_nonneg; eauto; lia. }
  destruct (C06_path_function order order_In order_len ops s rs E (Z.of_nat l) (Z.of_nat t)) as (Y & _).
  destruct (Y Rz) as (Hne & Hh & Hl & He).
  unfold natpath. set (p := fpathf order s (Z.of_nat l) (Z.of_nat t)) in *.
  split; [destruct p; [congruence|discriminate]|].
  split; [rewrite hd_map_to_nat by exact Hne; rewrite Hh; apply Nat2Z.id|].
  split; [rewrite last_map_to_nat by exact Hne; rewrite Hl; apply Nat2Z.id|].
  intros u v C.
  assert (F : Forall (fun x => 0 <= x) p) by (apply (epath_nonneg ops N p He); rewrite Hh; lia).
  apply (epath_consecutive _ p He). apply consecutive_map_to_nat; assumption.
Qed.

(* labels with different representatives get no path *)
Theorem extractor_no_path ops s rs :
  nonneg_hist ops -> exec order init ops = Some (s, rs) ->
  forall l t, natrep s l <> natrep s t -> natpath s l t = [].
Proof.
  intros N E l t R.
  destruct (C06_path_function order order_In order_len ops s rs E (Z.of_nat l) (Z.of_nat t)) as (_ & No).
  unfold natpath. rewrite No; [reflexivity|]. intros H. apply R. unfold natrep. rewrite H. reflexivity.
Qed.

(* the extractor's own notion of "a step of a path" is `consecutive` *)
Lemma step_of_consecutive p u v : Spec.ExtractorProofs.step_of p u v <-> consecutive p u v.
Proof. split; induction 1; constructor; assumption. Qed.

(* C02_closed with its path contract DISCHARGED: for the extractor run on the equivalence database reached by
   any history over natural labels, the dictionary is closed, has the root, and every entry is a stored rule
   or a unary rule along an edge the equivalence database RECORDED *)
Theorem extract_closed_on_equivdb ops s rs stored tree root ord d :
  nonneg_hist ops -> exec order init ops = Some (s, rs) ->
  Spec.Extractor.extract (natrep s) (natpath s) stored tree root ord = Some d ->
  (forall d0 e2p, Spec.Extractor.decompositions (natrep s) stored tree [] [] = Some (d0, e2p) ->
     forall l, Spec.Extractor.no_lhs d0 root l = true -> In l ord) ->
  (forall e, In e d -> forall c, In c (snd e) -> Spec.Extractor.dom d c = true) /\
  Spec.Extractor.dom d root = true /\
  (forall e, In e d -> In e stored \/
     exists p c, e = (p, [c]) /\ recorded ops (Z.of_nat p) (Z.of_nat c)).
Proof.
  intros N E X Hord.
  assert (Hf : forall l, In l ord -> forall t, natrep s l = natrep s t ->
            natpath s l t <> [] /\ hd O (natpath s l t) = l /\ last (natpath s l t) O = t).
  { intros l _ t R. destruct (extractor_path_contract ops s rs N E l t R) as (A & B & C & _). auto. }
  destruct (Spec.ExtractorProofs.extract_closed_order (natrep s) (natpath s) stored tree root ord d Hf X Hord)
    as (C1 & C2 & C3).
  split; [exact C1|]. split; [exact C2|].
  intros e He. destruct (C3 e He) as [Hs|(l & t & p & c & St & ->)]; [left; exact Hs|right].
  exists p, c. split; [reflexivity|].
  (* the path came from a pair with equal representatives, else it is empty and has no step *)
  destruct (Nat.eq_dec (natrep s l) (natrep s t)) as [R|R].
  - destruct (extractor_path_contract ops s rs N E l t R) as (_ & _ & _ & Hrec).
    apply Hrec. apply step_of_consecutive. exact St.
  - rewrite (extractor_no_path ops s rs N E l t R) in St. inversion St.
Qed.
End View.
