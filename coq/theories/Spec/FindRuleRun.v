(* sx interface of the model of SpecificationRuleExtractor._find_rule / rules() (Spec/FindRule.v).
   input : ( (mode convert) empty_bits strats pack_order classes_by_label cache_by_label
             r_store e_store entries nocap )            or () = nothing to do
     mode 0: RuleDB (dicts: store = ((start (end ...) sid) ...) in insertion order)
     mode 1: RuleDBForgetStrategy (RecomputingDict: the sids are ignored, the key set is used)
     strats / empty_bits as in Searcher/Run.v; pack_order as in RuleDB/Run.v
     cache_by_label: classdb.empty_list (-1 unknown / 0 / 1) when rules() starts
     entries: the extractor's rules_dict ((parent (child ...)) ...) in dictionary order
     nocap: strategy ids whose can_be_equivalent() is False
   output: ( error (form ...) nlabels )
     error 0 none, 1 ValueError (rule not found), 2 RuntimeError (could not recompute),
           3 class database exception, 4 StrategyDoesNotApply, 5/6/7 AssertionError (not a Rule /
           not an equivalence / not reversible); the forms yielded before the exception are listed
     form  = ( kind sid base_parent_class comb_class (child_class ...) is_equivalence )
             kind 0 strategy(class) as it is, 1 its equivalence form, 2 its reverse, 3 equivalence form reversed
     nlabels: len(classdb) afterwards (RecomputingDict may label foreign parents) *)
From Coq Require Import ZArith List Bool.
From CSS Require Import Base.Sx Base.PyList ClassDB.Model Searcher.Model Searcher.Run RuleDB.Model RuleDB.Run
  Spec.FindRule.
Import ListNotations.
Open Scope Z_scope.

Definition dec_store (s : sx) : dstore :=
  map (fun e => ((sx_Z (sx_nth e 0), sx_Zs (sx_nth e 1)), sx_Z (sx_nth e 2))) (sx_list s).

Definition ferr_code (e : ferr) : Z :=
  match e with
  | EMissing => 1 | ERecompute => 2 | ECdb _ => 3 | ENotApply => 4
  | EAssertRule => 5 | EAssertEquiv => 6 | EAssertReversible => 7
  end.

Definition enc_form (T : table) (cap : Z -> bool) (f : form) : sx :=
  let kind := match f with FPlain _ => 0 | FEquiv _ => 1 | FRev _ => 2 | FEquivRev _ _ => 3 end in
  let r := form_rule f in
  L [I kind; I (r_sid r); I (r_parent r); I (form_parent T f); of_Zs (form_children T f);
     of_bool (form_is_equivalence T cap f)].

Definition run_findrule (a : sx) : sx :=
  match sx_list a with
  | [] => L [I (-1); L []; I 0]
  | _ =>
      let h := sx_Zs (sx_nth a 0) in
      let mode := nth 0 h 0 in
      let convert := negb (nth 1 h 0 =? 0) in
      let T := mkT (sx_Zs (sx_nth a 1)) (map dec_strat (sx_list (sx_nth a 2))) [] [] in
      let pack := sx_Zs (sx_nth a 3) in
      let classes := sx_Zs (sx_nth a 4) in
      let d := mk_cdb classes (length classes) (sx_Zs (sx_nth a 5)) in
      let rs := dec_store (sx_nth a 6) in
      let es := dec_store (sx_nth a 7) in
      let entries := map (fun e => (sx_Z (sx_nth e 0), sx_Zs (sx_nth e 1))) (sx_list (sx_nth a 8)) in
      let nocap := sx_Zs (sx_nth a 9) in
      let cap := fun sid => negb (mem sid nocap) in
      (* mode 0: the dicts of RuleDB; 1: RecomputingDict as it was before 59cdf67 (replay on the classes of
         the key only); 2: RecomputingDict as it is (then on every other labelled class) *)
      let other := fun (d0 : cdbT) (k : key) =>
        filter (fun l => negb (mem l (fst k :: snd k))) (map Z.of_nat (seq 0 (length (ClassDB.Model.classes d0)))) in
      let rec_x := fun (only_equiv : bool) (st : rstore_t) => (fun d0 k =>
        rec_getitem_x T (if mode =? 2 then other d0 k else []) pack only_equiv st d0 k) : lookup in
      let get_r := if mode =? 0 then dict_lookup rs else rec_x false (map (fun kv => flatten (fst kv)) rs) in
      let get_e := if mode =? 0 then dict_lookup es else rec_x true (map (fun kv => flatten (fst kv)) es) in
      let '(d', fs, e) := rules T cap get_r get_e convert d entries in
      L [I (match e with None => 0 | Some x => ferr_code x end);
         L (map (enc_form T cap) fs);
         of_nat (length (ClassDB.Model.classes d'))]
  end.
