(* C01 core: a closed, one-rule-per-class, productive specification whose rules
   are genuine and read their children only as far as their declared shifts
   allow (C10) has exactly one solution — the true enumeration — and the
   recursive evaluation of the code (Rule.get_terms/_ensure_level through the
   children's get_terms) computes it.

   Everything about a concrete constructor is abstracted into its term
   operator F: given providers for the children's terms and for the rule's own
   earlier terms, F returns the parent's terms of size n.  The two facts the
   theorem needs about F are exactly what C09 (genuine) and C10 (local)
   establish for the library's constructors. *)
From Coq Require Import ZArith List Lia.
From CSS Require Import Forest.Spec.
Import ListNotations.
Open Scope Z_scope.

Section Eval.
Variable terms : Type.                 (* a term table for one size, e.g. parameters -> count *)
Variable dflt : terms.                 (* what an unevaluated provider answers *)

(* a specification: the rule of a class, if any *)
Record srule := mkrule {
  r_kids : list (nat * Z);                                   (* children labels with declared shifts *)
  r_op : (nat -> Z -> terms) -> (Z -> terms) -> Z -> terms   (* children (by index), own, n *)
}.
Variable spec : nat -> option srule.

Definition kid (r : srule) (i : nat) : nat := fst (nth i (r_kids r) (O, 0)).
Definition shift (r : srule) (i : nat) : Z := snd (nth i (r_kids r) (O, 0)).

(* C10: the operator reads child i only at sizes <= n - shift i, itself only below n *)
Definition local (r : srule) : Prop :=
  forall p p' o o' n,
    (forall i m, (i < length (r_kids r))%nat -> m <= n - shift r i -> p i m = p' i m) ->
    (forall m, m < n -> o m = o' m) ->
    r_op r p o n = r_op r p' o' n.

(* C09: fed with the true tables, the operator returns the true table *)
Variable T : nat -> Z -> terms.
Definition genuine (c : nat) (r : srule) : Prop :=
  forall n, 0 <= n -> r_op r (fun i m => T (kid r i) m) (T c) n = T c n.

(* the forest keys of the specification: the shifts the productivity analysis sees *)
Definition key_of (c : nat) (r : srule) : fkey := mkkey c (r_kids r).
Variable keys : list fkey.
Hypothesis keys_from_spec : forall k, In k keys ->
  exists r, spec (parent k) = Some r /\ kids k = r_kids r.

(* Rule.get_terms through the specification, with explicit fuel *)
Fixpoint eval (fuel : nat) (c : nat) (n : Z) : terms :=
  match fuel with
  | O => dflt
  | S f =>
      match spec c with
      | None => dflt
      | Some r => r_op r (fun i m => eval f (kid r i) m) (fun m => eval f c m) n
      end
  end.

(* "the evaluator can compute the terms of size n of class c" *)
Inductive ev : nat -> Z -> Prop :=
| ev_intro : forall c r n, spec c = Some r ->
    (forall i m, (i < length (r_kids r))%nat -> 0 <= m -> m <= n - shift r i -> ev (kid r i) m) ->
    (forall m, 0 <= m -> m < n -> ev c m) ->
    ev c n.

(* productivity (C03's notion over the declared shifts) makes every size evaluable *)
Lemma derivable_ev : forall c v, derivable keys c v -> forall n, 0 <= n -> n < v -> ev c n.
Proof.
  induction 1 as [c v Hv | k v Hk Hkids IH]; intros n Hn0 Hn; [lia|].
  destruct (keys_from_spec k Hk) as (r & Hs & Ek).
  revert Hn. apply (Zlt_0_ind (fun n => n < v -> ev (parent k) n)); [|exact Hn0].
  intros x IHx Hx0 Hxv. apply (ev_intro _ r _ Hs).
  - intros i m Hi Hm0 Hm.
    assert (In (kid r i, shift r i) (kids k)) as Hin.
    { rewrite Ek. unfold kid, shift. rewrite <- surjective_pairing. apply nth_In; auto. }
    apply (IH _ _ Hin m Hm0). lia.
  - intros m Hm0 Hm. apply IHx; lia.
Qed.

Theorem pumps_ev c : pumps keys c -> forall n, 0 <= n -> ev c n.
Proof. intros P n Hn. apply (derivable_ev c (n + 1) (P (n + 1)) n); lia. Qed.

(* tables must vanish (be the default) at negative sizes for the providers to agree there *)
Hypothesis T_neg : forall c m, m < 0 -> T c m = dflt.
(* only for the rules OF THE SPECIFICATION (a hypothesis over every conceivable operator would be
   unsatisfiable) *)
Hypothesis op_neg : forall c r, spec c = Some r -> forall p o n, n < 0 -> r_op r p o n = dflt.

Hypothesis all_local : forall c r, spec c = Some r -> local r.
Hypothesis all_genuine : forall c r, spec c = Some r -> genuine c r.

Lemma eval_neg fuel c n : n < 0 -> eval fuel c n = dflt.
Proof.
  intros Hn. destruct fuel as [|f]; simpl; auto. destruct (spec c) as [r|] eqn:E; auto.
  apply (op_neg c r E); auto.
Qed.

(* evaluation returns the true table once the fuel is large enough *)
Theorem eval_correct : forall c n, ev c n ->
  exists f0, forall f, (f0 <= f)%nat -> eval f c n = T c n.
Proof.
  induction 1 as [c r n Hs Hk IHk Ho IHo].
  (* a bound for finitely many children reads: use classical-free choice via
     induction on the finite ranges *)
  assert (exists fk, forall i m, (i < length (r_kids r))%nat -> 0 <= m -> m <= n - shift r i ->
            forall f, (fk <= f)%nat -> eval f (kid r i) m = T (kid r i) m) as [fk Hfk].
  { assert (forall len, (len <= length (r_kids r))%nat ->
              exists fk, forall i m, (i < len)%nat -> 0 <= m -> m <= n - shift r i ->
                forall f, (fk <= f)%nat -> eval f (kid r i) m = T (kid r i) m) as G.
    { induction len as [|len IHl]; intros Hl.
      - exists O. intros i m Hi. lia.
      - destruct IHl as [f1 H1]; [lia|].
        (* child `len`: sizes 0 .. n - shift *)
        assert (forall b, exists f2, forall m, 0 <= m -> m <= b -> m <= n - shift r len ->
                  forall f, (f2 <= f)%nat -> eval f (kid r len) m = T (kid r len) m) as G2.
        { intros b. destruct (Z_lt_le_dec b 0) as [Hb|Hb]; [exists O; intros; lia|].
          pattern b. apply natlike_ind; auto.
          - destruct (Z_le_gt_dec 0 (n - shift r len)) as [Hle|Hgt].
            + destruct (IHk len 0 ltac:(lia) ltac:(lia) Hle) as [f2 H2].
              exists f2. intros m Hm0 Hmb _ f Hf. assert (m = 0) as -> by lia. auto.
            + exists O. intros; lia.
          - intros x Hx [f2 H2].
            destruct (Z_le_gt_dec (Z.succ x) (n - shift r len)) as [Hle|Hgt].
            + destruct (IHk len (Z.succ x) ltac:(lia) ltac:(lia) Hle) as [f3 H3].
              exists (Nat.max f2 f3). intros m Hm0 Hmb Hmn f Hf.
              destruct (Z.eq_dec m (Z.succ x)) as [->|Hne]; [apply H3; lia|apply H2; lia].
            + exists f2. intros m Hm0 Hmb Hmn f Hf. apply H2; auto; lia. }
        destruct (G2 (n - shift r len)) as [f2 H2].
        exists (Nat.max f1 f2). intros i m Hi Hm0 Hm f Hf.
        destruct (Nat.eq_dec i len) as [->|Hne]; [apply H2; auto; lia|apply H1; auto; lia]. }
    apply (G (length (r_kids r))). lia. }
  assert (exists fo, forall m, 0 <= m -> m < n -> forall f, (fo <= f)%nat -> eval f c m = T c m)
    as [fo Hfo].
  { assert (forall b, exists fo, forall m, 0 <= m -> m < b -> m < n ->
              forall f, (fo <= f)%nat -> eval f c m = T c m) as G.
    { intros b. destruct (Z_lt_le_dec b 0) as [Hb|Hb]; [exists O; intros; lia|].
      pattern b. apply natlike_ind; auto.
      - exists O. intros; lia.
      - intros x Hx [f1 H1]. destruct (Z_lt_le_dec x n) as [Hlt|Hge].
        + destruct (IHo x Hx Hlt) as [f2 H2]. exists (Nat.max f1 f2). intros m Hm0 Hmb Hmn f Hf.
          destruct (Z.eq_dec m x) as [->|Hne]; [apply H2; lia|apply H1; lia].
        + exists f1. intros m Hm0 Hmb Hmn f Hf. apply H1; auto; lia. }
    destruct (G n) as [fo Ho']. exists fo. intros m Hm0 Hmn. apply Ho'; auto. }
  exists (S (Nat.max fk fo)). intros f Hf. destruct f as [|f]; [lia|]. simpl. rewrite Hs.
  destruct (Z_lt_le_dec n 0) as [Hneg|Hnn].
  { rewrite (op_neg c r Hs) by auto. symmetry. apply T_neg; auto. }
  rewrite <- (all_genuine c r Hs n Hnn).
  apply (all_local c r Hs).
  - intros i m Hi Hm. destruct (Z_lt_le_dec m 0) as [Hm0|Hm0].
    + rewrite eval_neg, T_neg; auto.
    + apply Hfk; auto. lia.
  - intros m Hm. destruct (Z_lt_le_dec m 0) as [Hm0|Hm0].
    + rewrite eval_neg, T_neg; auto.
    + apply Hfo; auto. lia.
Qed.

(* any family of tables that satisfies all the rules is the true one on the
   evaluable points: the specification has a unique solution *)
Theorem unique_solution (U : nat -> Z -> terms) :
  (forall c m, m < 0 -> U c m = dflt) ->
  (forall c r n, spec c = Some r -> 0 <= n ->
     r_op r (fun i m => U (kid r i) m) (U c) n = U c n) ->
  forall c n, ev c n -> U c n = T c n.
Proof.
  intros Uneg Usat. induction 1 as [c r n Hs Hk IHk Ho IHo].
  destruct (Z_lt_le_dec n 0) as [Hneg|Hnn]; [rewrite Uneg, T_neg; auto|].
  rewrite <- (Usat c r n Hs Hnn), <- (all_genuine c r Hs n Hnn).
  apply (all_local c r Hs).
  - intros i m Hi Hm. destruct (Z_lt_le_dec m 0); [rewrite Uneg, T_neg; auto|apply IHk; auto].
  - intros m Hm. destruct (Z_lt_le_dec m 0); [rewrite Uneg, T_neg; auto|apply IHo; auto].
Qed.

End Eval.
