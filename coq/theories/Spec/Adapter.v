(* C09/C10 -> C01 adapter, DEFINITIONS (no proofs beyond unfolding lemmas).

   Spec/CountRun.v (what run_c01 extracts) evaluates a specification given as one descriptor
   `cdesc` per class; Spec/Eval.v (what the C01 theorems are about) evaluates a specification
   given as an abstract `srule` per class.  This file turns a descriptor into an srule:

     srule_of d = mkrule (c_deps d) (op_of d)

   whose children-with-shifts are the ones the descriptor DECLARES and whose operator is the
   C09 model's get_terms of the descriptor's constructor (the very `*_step` functions of
   Count/Constructors.v that step_of dispatches to), fed with sub-term PROVIDERS instead of the
   tables computed so far.

   1. `*_stepF`: the step functions of Count/Constructors.v with the children's tables given as
      providers  Z -> terms  instead of lists of levels; `*_step_F` says the executable step is
      the provider form applied to `tab_at` of the lists (pure unfolding, no hypothesis).
   2. `stepF_with`, `step_of_F`: the dispatch of CountRun.step_of in provider form.
   3. `kp_of`: which provider (position in c_deps = position among the rule's children, as in
      ReverseRule.__init__: original parent first, then the original children without idx) feeds
      which position of the ORIGINAL rule's children.
   4. `srule_of`, `spec_of`.
   5. `deps_shape`: the declared dependencies are the rule's children in order, and every
      declared shift is at most the shift the GENERATED shift functions (Gen/UnionShifts.v,
      Gen/ProductShifts.v, Gen/ReverseShifts.v, through Count/ReadsModel.rule_shifts) compute
      from the children's (minimum size, is_atom) — a decidable condition on the descriptor. *)
From Coq Require Import ZArith List Bool Lia.
From CSS Require Import Spec.Eval.
From CSS Require Import Base.Sx Gen.Prelude Count.Terms Count.Constructors Count.ConstructorsRun
  Count.ReadsModel Spec.CountRun.
Import ListNotations.
Open Scope Z_scope.

Notation remove_at := Count.Constructors.remove_at.

Notation prov := (Z -> terms) (only parsing).
Definition noprov : prov := fun _ => [].

(* ---------------------------------------------------------------- provider forms of the steps *)
Definition union_stepF (pnames : list Z) (kids : list kid) (kp : list prov) : prov -> Z -> res terms :=
  fun _ n =>
    bind (mapM (fun k => du_map_of (child_pos_map pnames (k_names k) (k_dict k)) (length pnames)) kids)
         (fun pms => union_get_terms pms (map (fun g : prov => g n) kp)).

Definition product_stepF (pnames : list Z) (kids : list kid) (kp : list prov) : prov -> Z -> res terms :=
  fun _ n =>
    bind (mapM (fun k => sum_map_of (child_pos_map pnames (k_names k) (k_dict k)) (length pnames)) kids)
         (fun fs =>
            Ok (product_get_terms fs (map k_min kids)
                  (map (fun k => if k_atom k then Some (k_min k) else None) kids) kp n)).

Definition complement_stepF (pnames : list Z) (kids : list kid) (idx : nat)
    (pp : prov) (kp : list prov) : prov -> Z -> res terms :=
  fun _ n =>
    let kid_i := nth idx kids (mkKid [] [] 0 false false) in
    bind (mapM (fun k => du_map_of (child_pos_map pnames (k_names k) (k_dict k)) (length pnames))
               (remove_at idx kids))
      (fun pms =>
    bind (du_map_of (parent_pos_map pnames (k_names kid_i) (k_dict kid_i)) (length (k_names kid_i)))
      (fun ppm =>
         complement_get_terms ppm pms (pp n) (map (fun g : prov => g n) (remove_at idx kp)))).

Definition quotient_stepF (pnames : list Z) (kids : list kid) (idx : nat)
    (pp : prov) (kp : list prov) : prov -> Z -> res terms :=
  fun own n =>
    let kid_i := nth idx kids (mkKid [] [] 0 false false) in
    bind (mapM (fun k => sum_map_of (child_pos_map pnames (k_names k) (k_dict k)) (length pnames)) kids)
      (fun fs =>
    bind (bind (parent_pos_map pnames (k_names kid_i) (k_dict kid_i))
               (fun pm => Ok (q_param_map pm (length (k_names kid_i)))))
      (fun ppm =>
         quotient_get_terms fs ppm (length pnames) (kid_descs kids) idx pp (replace_at idx own kp) n)).

Definition equiv_union_stepF (pnames : list Z) (kids : list kid) (kp : list prov) : prov -> Z -> res terms :=
  fun _ n =>
    match first_nonempty kids with
    | None => Err E_ASSERT
    | Some ci =>
        let k := nth ci kids default_kid in
        bind (du_map_of (child_pos_map pnames (k_names k) (k_dict k)) (length pnames))
             (fun pm => union_get_terms [pm] [nth ci kp noprov n])
    end.

Definition equiv_complement_stepF (pnames : list Z) (kids : list kid) (idx : nat) (pp : prov)
  : prov -> Z -> res terms :=
  fun _ n =>
    match first_nonempty kids with
    | None => Err E_ASSERT
    | Some ci =>
        let kd := nth ci kids default_kid in
        let kc := nth idx kids default_kid in
        bind (du_map_of (parent_pos_map pnames (k_names kc) (k_dict kd)) (length (k_names kc)))
             (fun ppm => complement_get_terms ppm [] (pp n) [])
    end.

Definition path_stepF (steps : list step_desc) (lp : prov) : prov -> Z -> res terms :=
  fun _ n =>
    match steps with
    | [] => Err E_ASSERT
    | s0 :: _ =>
        let first := step_source s0 in
        let lastn := step_target (last steps s0) in
        bind (fold_left path_dict_step steps (Ok (map (fun k => (k, k)) first)))
          (fun d =>
        bind (du_map_of (child_pos_map first lastn d) (length first))
          (fun pm => union_get_terms [pm] [lp n]))
    end.

(* ---------------------------------------------------------------- the executable steps ARE these *)
Lemma map_tab_at_n (ktabs : list (list terms)) n :
  map (fun g : prov => g n) (map tab_at ktabs) = map (fun t => tab_at t n) ktabs.
Proof. rewrite map_map. reflexivity. Qed.

Lemma union_step_F pnames kids ktabs own n :
  union_step pnames kids ktabs own n = union_stepF pnames kids (map tab_at ktabs) own n.
Proof. unfold union_step, union_stepF. rewrite map_tab_at_n. reflexivity. Qed.

Lemma product_step_F pnames kids ktabs own n :
  product_step pnames kids ktabs own n = product_stepF pnames kids (map tab_at ktabs) own n.
Proof. reflexivity. Qed.

Lemma remove_at_map_tab_at idx (ktabs : list (list terms)) :
  remove_at idx (map tab_at ktabs) = map tab_at (remove_at idx ktabs).
Proof. unfold Count.Constructors.remove_at. rewrite map_app, firstn_map, skipn_map. reflexivity. Qed.

Lemma complement_step_F pnames kids idx ptabs ktabs own n :
  complement_step pnames kids idx ptabs ktabs own n =
  complement_stepF pnames kids idx (tab_at ptabs) (map tab_at ktabs) own n.
Proof.
  unfold complement_step, complement_stepF. rewrite remove_at_map_tab_at, map_tab_at_n. reflexivity.
Qed.

Lemma quotient_step_F pnames kids idx ptabs ktabs own n :
  quotient_step pnames kids idx ptabs ktabs own n =
  quotient_stepF pnames kids idx (tab_at ptabs) (map tab_at ktabs) own n.
Proof. reflexivity. Qed.

Lemma tab_at_nil' n : tab_at [] n = [].
Proof. unfold tab_at. destruct (n <? 0); [reflexivity|]. destruct (Z.to_nat n); reflexivity. Qed.

Lemma nth_map_tab_at_n (ktabs : list (list terms)) ci n :
  nth ci (map tab_at ktabs) noprov n = tab_at (nth ci ktabs []) n.
Proof.
  revert ci. induction ktabs as [|t l IH]; intros [|ci]; simpl;
    try (unfold noprov; symmetry; apply tab_at_nil'); [reflexivity|apply IH].
Qed.

Lemma equiv_union_step_F pnames kids ktabs own n :
  equiv_union_step pnames kids ktabs own n = equiv_union_stepF pnames kids (map tab_at ktabs) own n.
Proof.
  unfold equiv_union_step, equiv_union_stepF. destruct (first_nonempty kids); [|reflexivity].
  rewrite nth_map_tab_at_n. reflexivity.
Qed.

Lemma equiv_complement_step_F pnames kids idx ptabs own n :
  equiv_complement_step pnames kids idx ptabs own n = equiv_complement_stepF pnames kids idx (tab_at ptabs) own n.
Proof. reflexivity. Qed.

Lemma path_step_F steps tabs own n : path_step steps tabs own n = path_stepF steps (tab_at tabs) own n.
Proof. reflexivity. Qed.

(* ---------------------------------------------------------------- dispatch (CountRun.step_of) *)
Definition stepF_with (d : cdesc) (kp : list prov) (pp lp : prov) : prov -> Z -> res terms :=
  match c_form d with
  | 0 => union_stepF (c_pnames d) (c_kids d) kp
  | 1 => product_stepF (c_pnames d) (c_kids d) kp
  | 2 => complement_stepF (c_pnames d) (c_kids d) (c_idx d) pp kp
  | 3 => quotient_stepF (c_pnames d) (c_kids d) (c_idx d) pp kp
  | 4 => equiv_union_stepF (c_pnames d) (c_kids d) kp
  | 5 => equiv_complement_stepF (c_pnames d) (c_kids d) (c_idx d) pp
  | 6 => path_stepF (c_steps d) lp
  | 7 => fun _ n => Ok (tab_at (c_table d) n)
  | _ => fun _ _ => Err 9
  end.

(* the providers step_of hands to the constructor: `tab_at` of the levels computed so far *)
Definition st_prov (st : list (list terms)) (l : nat) : prov := tab_at (tabs_of st l).

Lemma step_of_F d st own n :
  step_of d st own n =
  stepF_with d (map (st_prov st) (c_ok d)) (st_prov st (c_op d)) (st_prov st (c_last d)) own n.
Proof.
  unfold step_of, stepF_with, st_prov.
  rewrite <- (map_map (tabs_of st) tab_at).
  destruct (c_form d) as [|p|p]; [apply union_step_F| |reflexivity].
  destruct p as [p|p|]; [| |apply product_step_F].
  - destruct p as [p|p|]; [| |apply quotient_step_F].
    + destruct p as [p|p|]; [reflexivity|reflexivity|reflexivity].
    + destruct p as [p|p|]; [reflexivity|reflexivity|apply equiv_complement_step_F].
  - destruct p as [p|p|]; [| |apply complement_step_F].
    + destruct p as [p|p|]; [reflexivity|reflexivity|apply path_step_F].
    + destruct p as [p|p|]; [reflexivity|reflexivity|apply equiv_union_step_F].
Qed.

(* ---------------------------------------------------------------- from rule children to original children *)
(* p i = the provider of the i-th child of the specification's rule (position i of c_deps).
   forms 0,1: the rule's children are the original children;
   forms 2,3: (original parent, original children without idx): original child j is child j+1
              below idx and child j above it (position idx itself is the class being counted:
              Complement drops it, Quotient puts the rule's own terms there);
   form 4: the one child is the first non-empty original child (the only position that is read);
   forms 5,6: the one child is the original parent / the last class of the path. *)
Definition kp_of (d : cdesc) (p : nat -> prov) : list prov :=
  let k := length (c_kids d) in
  match c_form d with
  | 0 | 1 => map p (seq 0 k)
  | 2 | 3 => map (fun j => if (j <? c_idx d)%nat then p (S j) else p j) (seq 0 k)
  | 4 => map (fun _ => p 0%nat) (seq 0 k)
  | _ => []
  end.

Definition unres (r : res terms) : terms := match r with Ok t => t | Err _ => [] end.

(* the operator: Rule.get_terms(n) of the descriptor's constructor over providers; an exception
   (which ends the real computation) is the empty table *)
Definition op_of (d : cdesc) : (nat -> Z -> terms) -> (Z -> terms) -> Z -> terms :=
  fun p o n =>
    if n <? 0 then []
    else unres (stepF_with d (kp_of d p) (p 0%nat) (p 0%nat) o n).

Definition srule_of (d : cdesc) : srule terms := mkrule terms (c_deps d) (op_of d).

Definition spec_of (ds : list cdesc) (c : nat) : option (srule terms) :=
  option_map srule_of (nth_error ds c).

(* ---------------------------------------------------------------- shape of the declared dependencies *)
Definition dep_labels (d : cdesc) : list nat := map fst (c_deps d).
Definition dep_shifts (d : cdesc) : list Z := map snd (c_deps d).

Definition deps_shape (d : cdesc) : Prop :=
  let cs := kid_descs (c_kids d) in
  match c_form d with
  | 0 => dep_labels d = c_ok d /\ length (c_ok d) = length (c_kids d) /\
         Forall2 Z.le (dep_shifts d) (rule_shifts 0 cs 0)
  | 1 => dep_labels d = c_ok d /\ length (c_ok d) = length (c_kids d) /\
         Forall2 Z.le (dep_shifts d) (rule_shifts 1 cs 0)
  | 2 => (c_idx d < length (c_kids d))%nat /\ length (c_ok d) = length (c_kids d) /\
         dep_labels d = c_op d :: remove_at (c_idx d) (c_ok d) /\
         Forall2 Z.le (dep_shifts d) (rule_shifts 2 cs (Z.of_nat (c_idx d)))
  | 3 => (c_idx d < length (c_kids d))%nat /\ length (c_ok d) = length (c_kids d) /\
         dep_labels d = c_op d :: remove_at (c_idx d) (c_ok d) /\
         Forall2 Z.le (dep_shifts d) (rule_shifts 3 cs (Z.of_nat (c_idx d)))
  | 4 => exists ci, first_nonempty (c_kids d) = Some ci /\ length (c_ok d) = length (c_kids d) /\
         exists s, c_deps d = [(nth ci (c_ok d) O, s)] /\ s <= 0
  | 5 => exists s, c_deps d = [(c_op d, s)] /\ s <= 0
  | 6 => exists s, c_deps d = [(c_last d, s)] /\ s <= 0
  | _ => True
  end.
