(* Proofs about the model of SpecificationRuleExtractor._find_rule / rules() (Spec/FindRule.v).

   1. find_rule_from_table   what is handed out is strategy(class) of a table entry (or its equivalence
                             form / reverse), for a strategy a store handed back for the entry's key
   2. find_rule_outcomes     every failure characterised
   3. find_rule_total        an entry that is stored (and whose strategy reproduces the key) is found
                             again, and the rule found is filed under the entry's key (form_key)
   4. add_hist_inv / dict_find_rule_total   the default RuleDB after any sequence of insertions
   5. find_rule_forget_foreign_parent_refuted, four_forms_*   concrete instances (vm_compute)

   DEVIATIONS from the brief (all reported in the final message as well):
   - 3(b), 3(c): "get_r answers KeyError" is stated as  outcome_of g = OKeyError  (what `except KeyError`
     catches: GKeyError of the store, or a KeyError of the class database) - more general.
     The premise "the rule is two-way" is stated for every class carrying the label
     (forall P, lbl d P = Some p -> ...): there is exactly one, so this is the same.
   - 4: the constructor ah_add of add_hist carries ONE MORE premise, twoway_faithful T r:
        r_two_way T r = true -> r_two_way T (rule_of T (r_sid r) (r_parent r)) = true.
     In the table model a rule object carries its own kind (RPlain / RVer) whereas strategy(class)
     (rule_of) reads the kind from the strategy (s_kind = 2 -> RVer).  A factory item may name a
     verification strategy, in which case the model records a RPlain rule whose re-application is a
     RVer rule; add_pre / kind_ok do not exclude this.  In Python the rule object IS
     strategy(comb_class), so the premise always holds there (rule_of_fixed_twoway_faithful:
     it follows from rule_of T (r_sid r) (r_parent r) = r; twoway_faithful_not_ver_strategy: it
     holds for every rule of a strategy whose s_kind is not 2).
   - 4: the invariant has a fifth clause (two-way edges are keys of the equivalence store) which is what
     makes the reversed lookup of a two-way edge succeed; dict_find_rule_total has a third part (iii)
     about the keys of the equivalence store.
   - 4 (ii): non-emptiness is asked of the class labelled by the END of the entry looked up
     (the parent of the stored rule when the entry is found reversed).
   - 3: find_rule_total collects (a) (b) (c) through the inductive stored_entry (one constructor per case,
     carrying the premises of the case); the three cases are find_rule_total_r / _e / _rev.
   - 2: find_rule_outcomes is stated through outcomes_spec (a match on the error) over the relation
     `performed` (which of the at most three lookups, its key, the class database before and after, the answer).
   - find_rule_never_fails_when is merged into find_rule_total (brief allows this).
   All contracts are explicit premises of the theorems: the file declares no section assumption. *)
From Coq Require Import ZArith List Bool Lia.
From CSS Require Import Base.PyList ClassDB.Model ClassDB.Proofs Searcher.Model Searcher.Inv
  RuleDB.Model RuleDB.StoreProofs RuleDB.CdbFacts RuleDB.GetProofs RuleDB.AddProofs Spec.FindRule.
From CSS Require Export RuleDB.AddHist.
From CSS Require Props.C14.
Import ListNotations.
Open Scope Z_scope.

Ltac csplit := repeat match goal with |- _ /\ _ => split end.

Notation lbl := (label_of Z.eqb (fun c : Z => c)).
Notation WFd := (@WF Z).

(* ------------------------------------------------------------ small facts *)
Lemma insert_length x l : length (insert x l) = S (length l).
Proof. induction l as [|y t IH]; simpl; auto. destruct (x <=? y); simpl; auto. Qed.

Lemma isort_length l : length (isort l) = length l.
Proof. induction l as [|y t IH]; simpl; auto. unfold isort in *. simpl. rewrite insert_length, IH. reflexivity. Qed.

Lemma isort_single_inv ls c : isort ls = [c] -> ls = [c].
Proof.
  intros H. pose proof (isort_length ls) as L. rewrite H in L.
  destruct ls as [|x [|y t]]; try discriminate. exact H.
Qed.

Lemma labels_opt_single_inv d cs l : labels_opt d cs = Some [l] -> exists c, cs = [c] /\ label_opt d c = Some l.
Proof.
  destruct cs as [|c [|c2 t]]; simpl; try discriminate.
  - destruct (label_opt d c) as [l0|] eqn:E; [|discriminate]. intros [= <-]. eauto.
  - destruct (label_opt d c); [|discriminate]. destruct (label_opt d c2); [|discriminate].
    destruct (labels_opt d t); discriminate.
Qed.

Lemma filter_all {A} (f : A -> bool) l : (forall x, In x l -> f x = true) -> filter f l = l.
Proof.
  induction l as [|x t IH]; simpl; intros H; auto.
  rewrite (H x) by auto. rewrite IH; auto.
Qed.

Lemma d_mem_get k s : d_mem k s = match d_get k s with Some _ => true | None => false end.
Proof.
  unfold d_mem. induction s as [|[k' v] t IH]; simpl; auto.
  destruct (keqb k k'); simpl; auto.
Qed.

Lemma keqb_refl k : keqb k k = true.
Proof. apply keqb_spec; reflexivity. Qed.

Lemma keqb_sym a b : keqb a b = keqb b a.
Proof.
  destruct (keqb a b) eqn:E1, (keqb b a) eqn:E2; auto.
  - apply keqb_spec in E1. subst. rewrite keqb_refl in E2. discriminate.
  - apply keqb_spec in E2. subst. rewrite keqb_refl in E1. discriminate.
Qed.

Lemma d_get_set k' k v s : d_get k' (d_set k v s) = if keqb k' k then Some v else d_get k' s.
Proof.
  induction s as [|[k0 v0] t IH]; simpl.
  - destruct (keqb k' k); reflexivity.
  - destruct (keqb k k0) eqn:E; simpl.
    + apply keqb_spec in E. subst k0. destruct (keqb k' k); reflexivity.
    + destruct (keqb k' k0) eqn:E0.
      * apply keqb_spec in E0. subst k0. rewrite keqb_sym, E. reflexivity.
      * exact IH.
Qed.

Lemma d_get_del k' k s : d_get k' (d_del k s) = if keqb k k' then None else d_get k' s.
Proof.
  unfold d_del. induction s as [|[k0 v0] t IH]; simpl.
  - destruct (keqb k k'); reflexivity.
  - destruct (keqb k k0) eqn:E; simpl.
    + rewrite IH. apply keqb_spec in E. subst k0. rewrite (keqb_sym k' k). destruct (keqb k k'); reflexivity.
    + destruct (keqb k' k0) eqn:E0.
      * apply keqb_spec in E0. subst k0. rewrite E. reflexivity.
      * exact IH.
Qed.

Lemma d_get_del_if k' k s :
  d_get k' (del_if dstore d_mem d_del k s) = if keqb k k' then None else d_get k' s.
Proof.
  unfold del_if. destruct (d_mem k s) eqn:E; [apply d_get_del|].
  destruct (keqb k k') eqn:E0; auto. apply keqb_spec in E0. subst k'.
  rewrite d_mem_get in E. destruct (d_get k s); [discriminate|reflexivity].
Qed.

(* ================================================================== store-generic part *)
Section Generic.
Variable T : table.
Variable cap : Z -> bool.
Variables get_r get_e : lookup.

Notation orc := (oracle T).
Notation find_rule := (find_rule T cap get_r get_e).
Notation empv := (empv T).

(* ---- strategy(class) ---- *)
Lemma rule_of_sid sid p : r_sid (rule_of T sid p) = sid.
Proof. unfold rule_of. destruct (sid =? -1) eqn:E; simpl; auto. apply Z.eqb_eq in E. auto. Qed.

Lemma rule_of_parent sid p : r_parent (rule_of T sid p) = p.
Proof. unfold rule_of. destruct (sid =? -1); reflexivity. Qed.

Lemma apply_strategy_inv sid p r : apply_strategy T sid p = Some r -> r = rule_of T sid p.
Proof.
  unfold apply_strategy. destruct (sid =? -1).
  - destruct (orc p); [|discriminate]. intros [= <-]. reflexivity.
  - destruct (rule_children T (rule_of T sid p)); [|discriminate]. intros [= <-]. reflexivity.
Qed.

Lemma apply_strategy_self sid p r :
  apply_strategy T sid p = Some r -> apply_strategy T (r_sid r) (r_parent r) = Some r.
Proof.
  intros H. pose proof (apply_strategy_inv _ _ _ H) as ->. rewrite rule_of_sid, rule_of_parent. exact H.
Qed.

Lemma outcome_strategy g sid : outcome_of g = OStrategy sid -> exists x, g = GOk sid x.
Proof. destruct g as [s x| | |[]]; simpl; try discriminate. intros [= ->]. eauto. Qed.

Lemma call_inv d sid l r : call T d sid l = inl r ->
  exists P, snd (c_get_class d l) = RClass P /\ apply_strategy T sid P = Some r.
Proof.
  unfold call. destruct (snd (c_get_class d l)) as [ |P| | |e]; try discriminate.
  destruct (apply_strategy T sid P) as [r'|] eqn:E; [|discriminate]. intros [= <-]. eauto.
Qed.

Lemma unary_or_equiv_inv r f : unary_or_equiv T cap r = inl f ->
  (f = FPlain r /\ exists c, kids_of T r = [c]) \/
  (f = FEquiv r /\ plain_is_equivalence T cap r = true /\ length (kids_of T r) <> 1%nat).
Proof.
  unfold unary_or_equiv. destruct (kids_of T r) as [|c [|c2 t]] eqn:E.
  - destruct (plain_is_equivalence T cap r); [|discriminate]. intros [= <-]. right. simpl. auto.
  - intros [= <-]. left. eauto.
  - destruct (plain_is_equivalence T cap r); [|discriminate]. intros [= <-]. right. simpl. auto.
Qed.

Lemma reverse0_inv r f : reverse0 T cap r = inl f ->
  (f = FRev r /\ r_reversible T r = true /\ exists c, kids_of T r = [c]) \/
  (exists i, f = FEquivRev r i /\ r_reversible T r = true /\ plain_is_equivalence T cap r = true /\
             first_nonempty T (kids_of T r) = Some i /\ orc (r_parent r) = false /\
             cap (r_sid r) = true /\ length (kids_of T r) <> 1%nat).
Proof.
  unfold reverse0.
  assert (forall cs, length cs <> 1%nat ->
            (if plain_is_equivalence T cap r
             then match first_nonempty T cs with
                  | Some i => if r_reversible T r
                              then if cap (r_sid r) && negb (orc (r_parent r)) then inl (FEquivRev r i) else inr EAssertEquiv
                              else inr EAssertReversible
                  | None => inr EAssertEquiv
                  end
             else inr EAssertEquiv) = inl f ->
            exists i, f = FEquivRev r i /\ r_reversible T r = true /\ plain_is_equivalence T cap r = true /\
                      first_nonempty T cs = Some i /\ orc (r_parent r) = false /\ cap (r_sid r) = true /\
                      length cs <> 1%nat) as G.
  { intros cs L. destruct (plain_is_equivalence T cap r); [|discriminate].
    destruct (first_nonempty T cs) as [i|]; [|discriminate].
    destruct (r_reversible T r); [|discriminate].
    destruct (cap (r_sid r)); [|discriminate]. destruct (orc (r_parent r)); [discriminate|].
    simpl. intros [= <-]. exists i. csplit; auto. }
  destruct (kids_of T r) as [|c [|c2 t]] eqn:E.
  - intros H. right. apply G; simpl; auto.
  - destruct (r_reversible T r); [|discriminate]. intros [= <-]. left. eauto.
  - intros H. right. apply G; simpl; auto.
Qed.

(* ================================================================== 1. genuineness *)
Definition from_table (p : Z) (cs : list Z) (f : form) : Prop :=
  let r := form_rule f in
  apply_strategy T (r_sid r) (r_parent r) = Some r /\
  (exists k d0 d1 x,
      (get_r d0 k = (d1, GOk (r_sid r) x) \/ get_e d0 k = (d1, GOk (r_sid r) x)) /\
      snd (c_get_class d1 (fst k)) = RClass (r_parent r) /\
      match f with
      | FPlain _ | FEquiv _ => k = (p, cs)
      | FRev _ | FEquivRev _ _ => exists c, cs = [c] /\ k = (c, [p])
      end) /\
  match f with
  | FPlain _ => True
  | FEquiv _ => plain_is_equivalence T cap r = true /\ length (kids_of T r) <> 1%nat
  | FRev _ => r_reversible T r = true /\ exists c, kids_of T r = [c]
  | FEquivRev _ i => r_reversible T r = true /\ plain_is_equivalence T cap r = true /\
                     first_nonempty T (kids_of T r) = Some i /\ oracle T (r_parent r) = false
  end.

Theorem find_rule_from_table : forall d p cs d' f,
  find_rule d p cs = (d', inl f) ->
  let r := form_rule f in
  apply_strategy T (r_sid r) (r_parent r) = Some r /\
  (exists k d0 d1 x,
      (get_r d0 k = (d1, GOk (r_sid r) x) \/ get_e d0 k = (d1, GOk (r_sid r) x)) /\
      snd (c_get_class d1 (fst k)) = RClass (r_parent r) /\
      match f with
      | FPlain _ | FEquiv _ => k = (p, cs)
      | FRev _ | FEquivRev _ _ => exists c, cs = [c] /\ k = (c, [p])
      end) /\
  match f with
  | FPlain _ => True
  | FEquiv _ => plain_is_equivalence T cap r = true /\ length (kids_of T r) <> 1%nat
  | FRev _ => r_reversible T r = true /\ exists c, kids_of T r = [c]
  | FEquivRev _ i => r_reversible T r = true /\ plain_is_equivalence T cap r = true /\
                     first_nonempty T (kids_of T r) = Some i /\ oracle T (r_parent r) = false
  end.
Proof.
  intros d p cs d' f H. cbv zeta. unfold FindRule.find_rule in H.
  destruct (get_r d (p, cs)) as [d1 g1] eqn:E1.
  destruct (outcome_of g1) as [sid| |e] eqn:O1.
  - (* rule_to_strategy *)
    apply outcome_strategy in O1 as (x & ->).
    destruct (call T d1 sid p) as [r|e] eqn:Ec; [|discriminate]. injection H as <- <-.
    apply call_inv in Ec as (P & Hc & Ha). pose proof (apply_strategy_inv _ _ _ Ha) as Hr.
    cbn [form_rule]. csplit.
    + eapply apply_strategy_self; eauto.
    + exists (p, cs), d, d1, x. csplit; auto.
      * left. rewrite Hr, rule_of_sid. exact E1.
      * cbn [fst]. rewrite Hr, rule_of_parent. exact Hc.
    + exact I.
  - destruct cs as [|c [|c2 t]]; try discriminate.
    destruct (get_e d1 (p, [c])) as [d2 g2] eqn:E2.
    destruct (outcome_of g2) as [sid| |e] eqn:O2.
    + (* eqv_rule_to_strategy, same direction *)
      apply outcome_strategy in O2 as (x & ->).
      destruct (call T d2 sid p) as [r|e] eqn:Ec; [|discriminate].
      destruct (is_ver r); [discriminate|]. injection H as <- H.
      apply call_inv in Ec as (P & Hc & Ha). pose proof (apply_strategy_inv _ _ _ Ha) as Hr.
      assert (exists k d0 d3 x0,
                 (get_r d0 k = (d3, GOk (r_sid r) x0) \/ get_e d0 k = (d3, GOk (r_sid r) x0)) /\
                 snd (c_get_class d3 (fst k)) = RClass (r_parent r) /\ k = (p, [c])) as Prov.
      { exists (p, [c]), d1, d2, x. csplit; auto.
        - right. rewrite Hr, rule_of_sid. exact E2.
        - cbn [fst]. rewrite Hr, rule_of_parent. exact Hc. }
      apply unary_or_equiv_inv in H as [(-> & _)|(-> & Hpe & Hl)]; cbn [form_rule]; csplit; auto;
        eapply apply_strategy_self; eauto.
    + destruct (get_e d2 (c, [p])) as [d3 g3] eqn:E3.
      destruct (outcome_of g3) as [sid| |e] eqn:O3; try discriminate.
      (* eqv_rule_to_strategy, reversed *)
      apply outcome_strategy in O3 as (x & ->).
      destruct (call T d3 sid c) as [r|e] eqn:Ec; [|discriminate].
      destruct (is_ver r); [discriminate|]. injection H as <- H.
      apply call_inv in Ec as (P & Hc & Ha). pose proof (apply_strategy_inv _ _ _ Ha) as Hr.
      assert (exists k d0 d4 x0,
                 (get_r d0 k = (d4, GOk (r_sid r) x0) \/ get_e d0 k = (d4, GOk (r_sid r) x0)) /\
                 snd (c_get_class d4 (fst k)) = RClass (r_parent r) /\ exists c0, [c] = [c0] /\ k = (c0, [p])) as Prov.
      { exists (c, [p]), d2, d3, x. csplit; eauto.
        - right. rewrite Hr, rule_of_sid. exact E3.
        - cbn [fst]. rewrite Hr, rule_of_parent. exact Hc. }
      apply reverse0_inv in H as [(-> & Hrev & Hk)|(i & -> & Hrev & Hpe & Hf & Ho & _)]; cbn [form_rule]; csplit; auto;
        eapply apply_strategy_self; eauto.
    + discriminate.
  - discriminate.
Qed.

Corollary find_rule_from_table' : forall d p cs d' f,
  find_rule d p cs = (d', inl f) -> from_table p cs f.
Proof. intros d p cs d' f H. exact (find_rule_from_table d p cs d' f H). Qed.

(* rules(): every form yielded (code as it is: convert = false) comes from the table, for the entry at the
   same position of the extractor's dictionary *)
Corollary rules_from_table : forall entries d d' fs e,
  rules T cap get_r get_e false d entries = (d', fs, e) ->
  Forall2 (fun k f => from_table (fst k) (snd k) f) (firstn (length fs) entries) fs.
Proof.
  induction entries as [|[p cs] t IH]; intros d d' fs e H; simpl in H.
  - injection H as _ <- _. constructor.
  - destruct (FindRule.find_rule T cap get_r get_e d p cs) as [d1 [f|x]] eqn:E.
    + destruct (rules T cap get_r get_e false d1 t) as [[d2 fs'] e'] eqn:Er. injection H as _ <- _.
      assert (converted T cap false f = f) as -> by (destruct f; reflexivity).
      simpl. constructor; [exact (find_rule_from_table' d p cs d1 f E)|eapply IH; eauto].
    + injection H as _ <- _. constructor.
Qed.

(* ================================================================== 3. totality *)
(* the key under which RuleDBBase.add / _clean_labels would file the rule object f in class database d *)
Definition form_key (d : cdbT) (f : form) : option key :=
  match label_opt d (form_parent T f),
        labels_opt d (filter (fun c => negb (r_pe T (form_rule f) && empv d c)) (form_children T f)) with
  | Some l, Some ls => Some (l, isort ls)
  | _, _ => None
  end.

(* the emptiness cache answers like the classes themselves, on labelled classes
   (C04_empty_cache_truthful / AddProofs.empv_truthful) *)
Definition truthful (d : cdbT) : Prop := forall c l, lbl d c = Some l -> empv d c = orc c.

Lemma key_of_rule_inv d r k : key_of_rule T d r = Some k ->
  exists cs ls, rule_children T r = Some cs /\ label_opt d (r_parent r) = Some (fst k) /\
    labels_opt d (filter (fun c => negb (r_pe T r && empv d c)) cs) = Some ls /\
    forallb (labelled d) cs = true /\ snd k = isort ls.
Proof.
  unfold key_of_rule. destruct (rule_children T r) as [cs|]; [|discriminate].
  destruct (label_opt d (r_parent r)) as [sl|]; [|discriminate].
  destruct (labels_opt d _) as [ls|] eqn:El; [|discriminate].
  destruct (forallb (labelled d) cs) eqn:Ef; [|discriminate]. intros [= <-].
  exists cs, ls. csplit; auto.
Qed.

Lemma reproduces_inv d sid k : reproduces T d sid k = true ->
  exists P, snd (c_get_class d (fst k)) = RClass P /\
            ((sid =? -1) && negb (orc P)) = false /\
            key_of_rule T d (rule_of T sid P) = Some k.
Proof.
  unfold reproduces. destruct (snd (c_get_class d (fst k))) as [ |P| | |e]; try discriminate.
  destruct ((sid =? -1) && negb (orc P)) eqn:E; [discriminate|].
  destruct (key_of_rule T d (rule_of T sid P)) as [k'|] eqn:Ek; [|discriminate].
  intros Hk. apply keqb_spec in Hk. subst k'. eauto.
Qed.

Lemma reproduces_lbl d sid k : reproduces T d sid k = true ->
  exists P, lbl d P = Some (fst k) /\ snd (c_get_class d (fst k)) = RClass P /\
            ((sid =? -1) && negb (orc P)) = false /\
            key_of_rule T d (rule_of T sid P) = Some k.
Proof.
  intros H. destruct (reproduces_inv d sid k H) as (P & Hc & Ho & Hk). exists P. csplit; auto.
  destruct (key_of_rule_inv _ _ _ Hk) as (cs & ls & _ & Hp & _). rewrite rule_of_parent in Hp. exact Hp.
Qed.

Lemma reproduces_intro d sid k P : WFd d -> lbl d P = Some (fst k) ->
  ((sid =? -1) && negb (orc P)) = false -> key_of_rule T d (rule_of T sid P) = Some k ->
  reproduces T d sid k = true.
Proof.
  intros W Hl Ho Hk. unfold reproduces. rewrite (c_get_class_lbl d P (fst k) W Hl). cbn [snd].
  rewrite Ho, Hk. apply keqb_refl.
Qed.

(* reproduces survives growth of the class database that keeps labels and is_empty answers *)
Lemma reproduces_pres d d' sid k : WFd d -> pres T d d' ->
  reproduces T d sid k = true -> reproduces T d' sid k = true.
Proof.
  intros W P H. destruct (reproduces_lbl d sid k H) as (C & Hl & _ & Ho & Hk).
  pose proof P as (W' & X & _).
  apply (reproduces_intro d' sid k C W'); auto.
  - apply (lbl_mono d d' C (fst k) W W' X Hl).
  - apply (key_of_rule_pres T d d' _ k W P Hk).
Qed.

Lemma apply_of_reproduces sid P cs : ((sid =? -1) && negb (orc P)) = false ->
  rule_children T (rule_of T sid P) = Some cs -> apply_strategy T sid P = Some (rule_of T sid P).
Proof.
  intros Ho Hc. unfold apply_strategy. destruct (sid =? -1); simpl in Ho.
  - destruct (orc P); [reflexivity|discriminate].
  - rewrite Hc. reflexivity.
Qed.

(* strategy(get_class(fst k)) succeeds for a strategy that reproduces k *)
Lemma call_of_reproduces d sid k : reproduces T d sid k = true ->
  exists P, lbl d P = Some (fst k) /\ call T d sid (fst k) = inl (rule_of T sid P) /\
            key_of_rule T d (rule_of T sid P) = Some k.
Proof.
  intros H. destruct (reproduces_lbl d sid k H) as (P & Hl & Hc & Ho & Hk).
  exists P. csplit; auto. unfold call. rewrite Hc.
  destruct (key_of_rule_inv _ _ _ Hk) as (cs & ls & Hch & _).
  rewrite (apply_of_reproduces sid P cs Ho Hch). reflexivity.
Qed.

Lemma form_key_plain d r k : key_of_rule T d r = Some k -> form_key d (FPlain r) = Some k.
Proof.
  intros H. destruct (key_of_rule_inv _ _ _ H) as (cs & ls & Hc & Hp & Hl & _ & Hs).
  unfold form_key. cbn [form_parent form_rule form_children]. unfold kids_of. rewrite Hc, Hp, Hl.
  destruct k as [a b]; simpl in *. subst b. reflexivity.
Qed.

(* (a) the key is in rule_to_strategy *)
Lemma find_rule_total_r : forall d p cs d1 sid x,
  get_r d (p, cs) = (d1, GOk sid x) -> WFd d1 -> reproduces T d1 sid (p, cs) = true ->
  exists P, lbl d1 P = Some p /\
    let r := rule_of T sid P in
    find_rule d p cs = (d1, inl (FPlain r)) /\ key_of_rule T d1 r = Some (p, cs) /\
    form_key d1 (FPlain r) = Some (p, cs).
Proof.
  intros d p cs d1 sid x Hg W Hr.
  destruct (call_of_reproduces d1 sid (p, cs) Hr) as (P & Hl & Hc & Hk). cbn [fst] in *.
  exists P. split; [exact Hl|]. cbv zeta. csplit; auto.
  - unfold FindRule.find_rule. rewrite Hg. cbn [outcome_of]. rewrite Hc. reflexivity.
  - apply form_key_plain; auto.
Qed.

(* ---- exactly one child survives ---- *)
Lemma first_nonempty_filter : forall cs k0, filter (fun c => negb (orc c)) cs = [k0] ->
  exists i, first_nonempty T cs = Some i /\ nth i cs 0 = k0.
Proof.
  induction cs as [|c t IH]; simpl; intros k0 H; [discriminate|].
  destruct (orc c); simpl in H.
  - destruct (IH k0 H) as (i & Hi & Hn). exists (S i). rewrite Hi. simpl. auto.
  - injection H as <- _. exists O. auto.
Qed.

Lemma one_survivor d r p c : WFd d -> truthful d -> key_of_rule T d r = Some (p, [c]) ->
  lbl d (r_parent r) = Some p /\
  exists k0, lbl d k0 = Some c /\
    (kids_of T r = [k0] \/
     (length (kids_of T r) <> 1%nat /\ r_pe T r = true /\
      filter (fun x => negb (orc x)) (kids_of T r) = [k0])).
Proof.
  intros W Tr H. destruct (key_of_rule_inv _ _ _ H) as (cs & ls & Hc & Hp & Hl & Hf & Hs).
  cbn [fst snd] in *. split; [exact Hp|].
  symmetry in Hs. apply isort_single_inv in Hs. subst ls.
  apply labels_opt_single_inv in Hl as (k0 & Hfil & Hk0). exists k0. split; [exact Hk0|].
  unfold kids_of. rewrite Hc.
  destruct (Nat.eq_dec (length cs) 1) as [L|L].
  - left. destruct cs as [|k [|k2 t]]; try discriminate.
    assert (In k0 (filter (fun c0 => negb (r_pe T r && empv d c0)) [k])) as Hin by (rewrite Hfil; left; reflexivity).
    apply filter_In in Hin as ([<-|[]] & _). reflexivity.
  - right. split; [exact L|]. destruct (r_pe T r) eqn:Epe.
    + split; [reflexivity|]. rewrite <- Hfil. apply filter_ext_in. intros x Hx.
      apply (all_labelled_forallb d cs W) in Hf. specialize (Hf x Hx).
      destruct (lbl d x) as [lx|] eqn:Ex; [|congruence]. rewrite (Tr x lx Ex). reflexivity.
    + exfalso. rewrite filter_all in Hfil by (intros; reflexivity). subst cs. apply L. reflexivity.
Qed.

Lemma form_key_single d f p c kk :
  label_opt d (form_parent T f) = Some p -> form_children T f = [kk] ->
  lbl d kk = Some c -> empv d kk = false ->
  form_key d f = Some (p, [c]).
Proof.
  intros Hp Hc Hl He. unfold form_key. rewrite Hp, Hc. cbn [filter]. rewrite He, andb_false_r. cbn [negb labels_opt].
  rewrite label_opt_lbl, Hl. reflexivity.
Qed.

Lemma plain_is_equivalence_of r k0 : is_ver r = false -> cap (r_sid r) = true ->
  filter (fun x => negb (orc x)) (kids_of T r) = [k0] -> plain_is_equivalence T cap r = true.
Proof.
  intros Hv Hc Hf. unfold plain_is_equivalence, count_nonempty_o. rewrite Hv, Hc, Hf. reflexivity.
Qed.

(* rule if len(rule.children) == 1 else rule.to_equivalence_rule() succeeds, and the object is filed under the key *)
Lemma unary_or_equiv_total d r p c :
  WFd d -> truthful d -> key_of_rule T d r = Some (p, [c]) -> is_ver r = false -> cap (r_sid r) = true ->
  exists f, unary_or_equiv T cap r = inl f /\
            ((f = FPlain r /\ exists k, kids_of T r = [k]) \/ (f = FEquiv r /\ length (kids_of T r) <> 1%nat)) /\
            form_key d f = Some (p, [c]).
Proof.
  intros W Tr Hk Hv Hc. destruct (one_survivor d r p c W Tr Hk) as (Hp & k0 & Hk0 & [Hone|(L & Hpe & Hfil)]).
  - exists (FPlain r). unfold unary_or_equiv. rewrite Hone. csplit; eauto. apply form_key_plain; auto.
  - exists (FEquiv r). csplit.
    + unfold unary_or_equiv. rewrite (plain_is_equivalence_of r k0 Hv Hc Hfil).
      destruct (kids_of T r) as [|a [|b t]]; auto. exfalso. apply L. reflexivity.
    + right. auto.
    + destruct (first_nonempty_filter _ _ Hfil) as (i & Hi & Hn).
      assert (In k0 (filter (fun x => negb (orc x)) (kids_of T r))) as Hin by (rewrite Hfil; left; reflexivity).
      apply filter_In in Hin as (_ & Ho). apply negb_true_iff in Ho.
      apply (form_key_single d (FEquiv r) p c k0).
      * exact Hp.
      * cbn [form_children]. rewrite Hi, Hn. reflexivity.
      * exact Hk0.
      * rewrite (Tr k0 c Hk0). exact Ho.
Qed.

(* x.to_reverse_rule(0) succeeds for a reversible rule of a non-empty class, and the object is filed under the
   reversed key *)
Lemma reverse0_total d r c p :
  WFd d -> truthful d -> key_of_rule T d r = Some (c, [p]) -> is_ver r = false -> cap (r_sid r) = true ->
  r_reversible T r = true -> orc (r_parent r) = false ->
  exists f, reverse0 T cap r = inl f /\
            ((f = FRev r /\ exists k, kids_of T r = [k]) \/
             (exists i, f = FEquivRev r i /\ length (kids_of T r) <> 1%nat)) /\
            form_key d f = Some (p, [c]).
Proof.
  intros W Tr Hk Hv Hc Hrev Hne.
  destruct (one_survivor d r c p W Tr Hk) as (Hp & k0 & Hk0 & [Hone|(L & Hpe & Hfil)]).
  - exists (FRev r). unfold reverse0. rewrite Hone, Hrev. csplit; eauto.
    apply (form_key_single d (FRev r) p c (r_parent r)).
    + cbn [form_parent]. rewrite Hone. exact Hk0.
    + reflexivity.
    + exact Hp.
    + rewrite (Tr _ c Hp). exact Hne.
  - destruct (first_nonempty_filter _ _ Hfil) as (i & Hi & Hn).
    exists (FEquivRev r i). csplit.
    + unfold reverse0. rewrite (plain_is_equivalence_of r k0 Hv Hc Hfil), Hrev, Hc, Hne. cbn [negb andb].
      destruct (kids_of T r) as [|a [|b t]] eqn:Ek; [|exfalso; apply L; reflexivity|]; rewrite Hi; reflexivity.
    + right. eauto.
    + apply (form_key_single d (FEquivRev r i) p c (r_parent r)).
      * cbn [form_parent]. rewrite Hn. exact Hk0.
      * reflexivity.
      * exact Hp.
      * rewrite (Tr _ c Hp). exact Hne.
Qed.

Lemma two_way_not_ver r : r_two_way T r = true -> is_ver r = false.
Proof. unfold r_two_way, is_ver. destruct (r_kind r); auto; discriminate. Qed.

(* (b) the key is in eqv_rule_to_strategy *)
Lemma find_rule_total_e : forall d p c d1 g1 d2 sid x,
  get_r d (p, [c]) = (d1, g1) -> outcome_of g1 = OKeyError ->
  get_e d1 (p, [c]) = (d2, GOk sid x) -> WFd d2 -> reproduces T d2 sid (p, [c]) = true ->
  (forall P, lbl d2 P = Some p -> r_two_way T (rule_of T sid P) = true) ->
  cap sid = true -> truthful d2 ->
  exists P f, lbl d2 P = Some p /\
    let r := rule_of T sid P in
    find_rule d p [c] = (d2, inl f) /\
    ((f = FPlain r /\ exists k, kids_of T r = [k]) \/ (f = FEquiv r /\ length (kids_of T r) <> 1%nat)) /\
    form_key d2 f = Some (p, [c]).
Proof.
  intros d p c d1 g1 d2 sid x H1 O1 H2 W Hr Htw Hcap Tr.
  destruct (call_of_reproduces d2 sid (p, [c]) Hr) as (P & Hl & Hc & Hk). cbn [fst] in *.
  pose proof (two_way_not_ver _ (Htw P Hl)) as Hv.
  destruct (unary_or_equiv_total d2 (rule_of T sid P) p c W Tr Hk Hv) as (f & Hu & Hf & Hfk);
    [rewrite rule_of_sid; exact Hcap|].
  exists P, f. split; [exact Hl|]. cbv zeta. csplit; auto.
  unfold FindRule.find_rule. rewrite H1, O1, H2. cbn [outcome_of]. rewrite Hc, Hv, Hu. reflexivity.
Qed.

(* (c) the reversed key is in eqv_rule_to_strategy *)
Lemma find_rule_total_rev : forall d p c d1 g1 d2 g2 d3 sid x,
  get_r d (p, [c]) = (d1, g1) -> outcome_of g1 = OKeyError ->
  get_e d1 (p, [c]) = (d2, g2) -> outcome_of g2 = OKeyError ->
  get_e d2 (c, [p]) = (d3, GOk sid x) -> WFd d3 -> reproduces T d3 sid (c, [p]) = true ->
  (forall C, lbl d3 C = Some c -> r_two_way T (rule_of T sid C) = true /\
                                  r_reversible T (rule_of T sid C) = true /\ orc C = false) ->
  cap sid = true -> truthful d3 ->
  exists C f, lbl d3 C = Some c /\
    let r := rule_of T sid C in
    find_rule d p [c] = (d3, inl f) /\
    ((f = FRev r /\ exists k, kids_of T r = [k]) \/ (exists i, f = FEquivRev r i /\ length (kids_of T r) <> 1%nat)) /\
    form_key d3 f = Some (p, [c]).
Proof.
  intros d p c d1 g1 d2 g2 d3 sid x H1 O1 H2 O2 H3 W Hr Hcon Hcap Tr.
  destruct (call_of_reproduces d3 sid (c, [p]) Hr) as (C & Hl & Hc & Hk). cbn [fst] in *.
  destruct (Hcon C Hl) as (Htw & Hrev & Hne).
  pose proof (two_way_not_ver _ Htw) as Hv.
  destruct (reverse0_total d3 (rule_of T sid C) c p W Tr Hk Hv) as (f & Hu & Hf & Hfk); auto;
    [rewrite rule_of_sid; exact Hcap|rewrite rule_of_parent; exact Hne|].
  exists C, f. split; [exact Hl|]. cbv zeta. csplit; auto.
  unfold FindRule.find_rule. rewrite H1, O1, H2, O2, H3. cbn [outcome_of]. rewrite Hc, Hv, Hu. reflexivity.
Qed.

(* the three ways in which an entry (p, cs) is stored; d' = the class database the lookups leave *)
Inductive stored_entry (d : cdbT) (p : Z) (cs : list Z) (d' : cdbT) : Prop :=
| se_rule : forall sid x,
    get_r d (p, cs) = (d', GOk sid x) -> WFd d' -> reproduces T d' sid (p, cs) = true ->
    stored_entry d p cs d'
| se_eqv : forall c d1 g1 sid x,
    cs = [c] ->
    get_r d (p, [c]) = (d1, g1) -> outcome_of g1 = OKeyError ->
    get_e d1 (p, [c]) = (d', GOk sid x) -> WFd d' -> reproduces T d' sid (p, [c]) = true ->
    (forall P, lbl d' P = Some p -> r_two_way T (rule_of T sid P) = true) ->
    cap sid = true -> truthful d' ->
    stored_entry d p cs d'
| se_rev : forall c d1 g1 d2 g2 sid x,
    cs = [c] ->
    get_r d (p, [c]) = (d1, g1) -> outcome_of g1 = OKeyError ->
    get_e d1 (p, [c]) = (d2, g2) -> outcome_of g2 = OKeyError ->
    get_e d2 (c, [p]) = (d', GOk sid x) -> WFd d' -> reproduces T d' sid (c, [p]) = true ->
    (forall C, lbl d' C = Some c -> r_two_way T (rule_of T sid C) = true /\
                                    r_reversible T (rule_of T sid C) = true /\ orc C = false) ->
    cap sid = true -> truthful d' ->
    stored_entry d p cs d'.

Theorem find_rule_total : forall d p cs d',
  stored_entry d p cs d' ->
  exists f, find_rule d p cs = (d', inl f) /\ form_key d' f = Some (p, cs).
Proof.
  intros d p cs d' [sid x Hg W Hr|c d1 g1 sid x -> H1 O1 H2 W Hr Htw Hcap Tr
                    |c d1 g1 d2 g2 sid x -> H1 O1 H2 O2 H3 W Hr Hcon Hcap Tr].
  - destruct (find_rule_total_r d p cs d' sid x Hg W Hr) as (P & _ & Hf & _ & Hk). eauto.
  - destruct (find_rule_total_e d p c d1 g1 d' sid x H1 O1 H2 W Hr Htw Hcap Tr) as (P & f & _ & Hf & _ & Hk). eauto.
  - destruct (find_rule_total_rev d p c d1 g1 d2 g2 d' sid x H1 O1 H2 O2 H3 W Hr Hcon Hcap Tr)
      as (C & f & _ & Hf & _ & Hk). eauto.
Qed.

(* ================================================================== 2. every failure characterised *)
(* the (at most three) lookups _find_rule performs on entry (p, cs) from class database d:
   which one, the key, the class database before and after, the answer *)
Inductive which := LRule | LEqv | LRev.

Inductive performed (d : cdbT) (p : Z) (cs : list Z) : which -> key -> cdbT -> cdbT -> gres -> Prop :=
| pf_rule : forall d1 g1, get_r d (p, cs) = (d1, g1) -> performed d p cs LRule (p, cs) d d1 g1
| pf_eqv : forall c d1 g1 d2 g2, cs = [c] ->
    get_r d (p, [c]) = (d1, g1) -> outcome_of g1 = OKeyError ->
    get_e d1 (p, [c]) = (d2, g2) -> performed d p cs LEqv (p, [c]) d1 d2 g2
| pf_rev : forall c d1 g1 d2 g2 d3 g3, cs = [c] ->
    get_r d (p, [c]) = (d1, g1) -> outcome_of g1 = OKeyError ->
    get_e d1 (p, [c]) = (d2, g2) -> outcome_of g2 = OKeyError ->
    get_e d2 (c, [p]) = (d3, g3) -> performed d p cs LRev (c, [p]) d2 d3 g3.

(* lookup w handed strategy sid back for key k, leaving class database d', and get_class(fst k) is class P *)
Definition handed (d : cdbT) (p : Z) (cs : list Z) (d' : cdbT) (w : which) (k : key) (sid P : Z) : Prop :=
  exists d0 y, performed d p cs w k d0 d' (GOk sid y) /\ snd (c_get_class d' (fst k)) = RClass P.

(* get_class(label) raised x *)
Definition cdb_err (r : @res Z) (x : err) : Prop :=
  match r with
  | RClass _ => False
  | RErr x' => x = x'
  | _ => x = TypeError
  end.

Definition outcomes_spec (d : cdbT) (p : Z) (cs : list Z) (d' : cdbT) (e : ferr) : Prop :=
  match e with
  | EMissing =>
      (* rule_to_strategy answered KeyError and (the entry is not unary, or both lookups in
         eqv_rule_to_strategy answered KeyError) *)
      exists d1 g1, get_r d (p, cs) = (d1, g1) /\ outcome_of g1 = OKeyError /\
        ((length cs <> 1%nat /\ d' = d1) \/
         exists c d2 g2 g3, cs = [c] /\ get_e d1 (p, [c]) = (d2, g2) /\ outcome_of g2 = OKeyError /\
                            get_e d2 (c, [p]) = (d', g3) /\ outcome_of g3 = OKeyError)
  | ERecompute => exists w k d0, performed d p cs w k d0 d' GFail
  | ECdb x =>
      (exists w k d0, performed d p cs w k d0 d' (GErr x) /\ x <> KeyError) \/
      (exists w k d0 sid y, performed d p cs w k d0 d' (GOk sid y) /\ cdb_err (snd (c_get_class d' (fst k))) x)
  | ENotApply => exists w k sid P, handed d p cs d' w k sid P /\ apply_strategy T sid P = None
  | EAssertRule =>
      exists w k sid P, handed d p cs d' w k sid P /\ w <> LRule /\
        apply_strategy T sid P = Some (rule_of T sid P) /\ is_ver (rule_of T sid P) = true
  | EAssertEquiv =>
      exists w k sid P, handed d p cs d' w k sid P /\ w <> LRule /\
        let r := rule_of T sid P in
        apply_strategy T sid P = Some r /\ is_ver r = false /\ length (kids_of T r) <> 1%nat /\
        (plain_is_equivalence T cap r = false \/
         (* the reverse of the equivalence form is not an equivalence: the parent class is empty *)
         (w = LRev /\ plain_is_equivalence T cap r = true /\ r_reversible T r = true /\ orc P = true))
  | EAssertReversible =>
      exists k sid P, handed d p cs d' LRev k sid P /\
        let r := rule_of T sid P in
        apply_strategy T sid P = Some r /\ is_ver r = false /\ r_reversible T r = false /\
        ((exists c, kids_of T r = [c]) \/ (length (kids_of T r) <> 1%nat /\ plain_is_equivalence T cap r = true))
  end.

Lemma call_err d sid l e : call T d sid l = inr e ->
  (e = ENotApply /\ exists P, snd (c_get_class d l) = RClass P /\ apply_strategy T sid P = None) \/
  (exists x, e = ECdb x /\ cdb_err (snd (c_get_class d l)) x).
Proof.
  unfold call, cdb_err. destruct (snd (c_get_class d l)) as [l0|P|b| |x].
  - intros [= <-]. right. eauto.
  - destruct (apply_strategy T sid P) eqn:E; [discriminate|]. intros [= <-]. left. eauto.
  - intros [= <-]. right. eauto.
  - intros [= <-]. right. eauto.
  - intros [= <-]. right. eauto.
Qed.

Lemma outcome_fail g e : outcome_of g = OFail e ->
  (g = GFail /\ e = ERecompute) \/ (exists x, g = GErr x /\ x <> KeyError /\ e = ECdb x).
Proof.
  destruct g as [s y| | |[]]; simpl; try discriminate; intros [= <-]; auto; right; eexists; csplit; eauto; discriminate.
Qed.

Lemma plain_equiv_first_nonempty r : plain_is_equivalence T cap r = true ->
  cap (r_sid r) = true /\ exists i, first_nonempty T (kids_of T r) = Some i.
Proof.
  unfold plain_is_equivalence, count_nonempty_o. intros H.
  apply andb_true_iff in H as (H & Hn). apply andb_true_iff in H as (_ & Hc). split; [exact Hc|].
  apply Nat.eqb_eq in Hn.
  destruct (filter (fun c => negb (orc c)) (kids_of T r)) as [|k0 [|k1 t]] eqn:E; try discriminate.
  destruct (first_nonempty_filter _ _ E) as (i & Hi & _). eauto.
Qed.

Lemma unary_or_equiv_err r e : unary_or_equiv T cap r = inr e ->
  e = EAssertEquiv /\ length (kids_of T r) <> 1%nat /\ plain_is_equivalence T cap r = false.
Proof.
  unfold unary_or_equiv. destruct (kids_of T r) as [|c [|c2 t]]; try discriminate;
    (destruct (plain_is_equivalence T cap r); [discriminate|]); intros [= <-]; csplit; auto; simpl; discriminate.
Qed.

Lemma reverse0_err r e : reverse0 T cap r = inr e ->
  (e = EAssertReversible /\ r_reversible T r = false /\
   ((exists c, kids_of T r = [c]) \/ (length (kids_of T r) <> 1%nat /\ plain_is_equivalence T cap r = true))) \/
  (e = EAssertEquiv /\ length (kids_of T r) <> 1%nat /\
   (plain_is_equivalence T cap r = false \/
    (plain_is_equivalence T cap r = true /\ r_reversible T r = true /\ orc (r_parent r) = true))).
Proof.
  unfold reverse0.
  assert (length (kids_of T r) <> 1%nat ->
          (if plain_is_equivalence T cap r
           then match first_nonempty T (kids_of T r) with
                | Some i => if r_reversible T r
                            then if cap (r_sid r) && negb (orc (r_parent r)) then inl (FEquivRev r i) else inr EAssertEquiv
                            else inr EAssertReversible
                | None => inr EAssertEquiv
                end
           else inr EAssertEquiv) = inr e ->
          (e = EAssertReversible /\ r_reversible T r = false /\
           ((exists c, kids_of T r = [c]) \/ (length (kids_of T r) <> 1%nat /\ plain_is_equivalence T cap r = true))) \/
          (e = EAssertEquiv /\ length (kids_of T r) <> 1%nat /\
           (plain_is_equivalence T cap r = false \/
            (plain_is_equivalence T cap r = true /\ r_reversible T r = true /\ orc (r_parent r) = true)))) as G.
  { intros L. destruct (plain_is_equivalence T cap r) eqn:Ep; [|intros [= <-]; right; auto].
    destruct (plain_equiv_first_nonempty r Ep) as (Hc & i & ->). rewrite Hc.
    destruct (r_reversible T r); [|intros [= <-]; left; auto].
    destruct (orc (r_parent r)); simpl; [|discriminate]. intros [= <-]. right. auto 10. }
  destruct (kids_of T r) as [|c [|c2 t]] eqn:E.
  - apply G. simpl; discriminate.
  - destruct (r_reversible T r); [discriminate|]. intros [= <-]. left. eauto.
  - apply G. simpl; discriminate.
Qed.

Section Cases.
Variables (d : cdbT) (p : Z) (cs : list Z).

Lemma fail_case w k d0 d' g e : performed d p cs w k d0 d' g -> outcome_of g = OFail e -> outcomes_spec d p cs d' e.
Proof.
  intros Pf O. apply outcome_fail in O as [(-> & ->)|(x & -> & Hx & ->)]; simpl.
  - eauto.
  - left. eauto.
Qed.

Lemma call_fail_case w k d0 d' sid y e : performed d p cs w k d0 d' (GOk sid y) ->
  call T d' sid (fst k) = inr e -> outcomes_spec d p cs d' e.
Proof.
  intros Pf Hc. apply call_err in Hc as [(-> & P & Hc & Ha)|(x & -> & Hx)]; simpl.
  - exists w, k, sid, P. split; auto. exists d0, y. auto.
  - right. exists w, k, d0, sid, y. auto.
Qed.

Lemma call_ok_handed w k d0 d' sid y r : performed d p cs w k d0 d' (GOk sid y) ->
  call T d' sid (fst k) = inl r ->
  exists P, handed d p cs d' w k sid P /\ r = rule_of T sid P /\ apply_strategy T sid P = Some (rule_of T sid P).
Proof.
  intros Pf Hc. apply call_inv in Hc as (P & Hc & Ha). exists P.
  pose proof (apply_strategy_inv _ _ _ Ha) as ->. csplit; auto. exists d0, y. auto.
Qed.
End Cases.

Theorem find_rule_outcomes : forall d p cs d' e,
  find_rule d p cs = (d', inr e) -> outcomes_spec d p cs d' e.
Proof.
  intros d p cs d' e H. unfold FindRule.find_rule in H.
  destruct (get_r d (p, cs)) as [d1 g1] eqn:E1.
  pose proof (pf_rule d p cs d1 g1 E1) as P1.
  destruct (outcome_of g1) as [sid| |e1] eqn:O1.
  - apply outcome_strategy in O1 as (y & ->).
    destruct (call T d1 sid p) as [r|e0] eqn:Ec; [discriminate|]. injection H as <- <-.
    apply (call_fail_case d p cs LRule (p, cs) d d1 sid y e0 P1 Ec).
  - destruct cs as [|c [|c2 t]].
    + injection H as <- <-. simpl. exists d1, g1. csplit; auto; try (left; split; [simpl; discriminate|reflexivity]).
    + destruct (get_e d1 (p, [c])) as [d2 g2] eqn:E2.
      pose proof (pf_eqv d p [c] c d1 g1 d2 g2 eq_refl E1 O1 E2) as P2.
      destruct (outcome_of g2) as [sid| |e2] eqn:O2.
      * apply outcome_strategy in O2 as (y & ->).
        destruct (call T d2 sid p) as [r|e0] eqn:Ec.
        -- destruct (call_ok_handed d p [c] LEqv (p, [c]) d1 d2 sid y r P2 Ec) as (P & Hh & -> & Ha).
           destruct (is_ver (rule_of T sid P)) eqn:Ev.
           ++ injection H as <- <-. simpl. exists LEqv, (p, [c]), sid, P. csplit; auto. discriminate.
           ++ injection H as <- H. apply unary_or_equiv_err in H as (-> & L & Hpe). simpl.
              exists LEqv, (p, [c]), sid, P. csplit; auto. discriminate.
        -- injection H as <- <-. apply (call_fail_case d p [c] LEqv (p, [c]) d1 d2 sid y e0 P2 Ec).
      * destruct (get_e d2 (c, [p])) as [d3 g3] eqn:E3.
        pose proof (pf_rev d p [c] c d1 g1 d2 g2 d3 g3 eq_refl E1 O1 E2 O2 E3) as P3.
        destruct (outcome_of g3) as [sid| |e3] eqn:O3.
        -- apply outcome_strategy in O3 as (y & ->).
           destruct (call T d3 sid c) as [r|e0] eqn:Ec.
           ++ destruct (call_ok_handed d p [c] LRev (c, [p]) d2 d3 sid y r P3 Ec) as (P & Hh & -> & Ha).
              destruct (is_ver (rule_of T sid P)) eqn:Ev.
              ** injection H as <- <-. simpl. exists LRev, (c, [p]), sid, P. csplit; auto. discriminate.
              ** injection H as <- H.
                 apply reverse0_err in H as [(-> & Hrev & Hk)|(-> & L & Hk)]; simpl.
                 --- exists (c, [p]), sid, P. csplit; auto.
                 --- exists LRev, (c, [p]), sid, P. csplit; auto; [discriminate|].
                     rewrite rule_of_parent in Hk. destruct Hk as [Hk|(A & B & C)]; auto.
           ++ injection H as <- <-. apply (call_fail_case d p [c] LRev (c, [p]) d2 d3 sid y e0 P3 Ec).
        -- injection H as <- <-. simpl. exists d1, g1. csplit; auto. right. exists c, d2, g2, g3. csplit; auto.
        -- injection H as <- <-. apply (fail_case d p [c] LRev (c, [p]) d2 d3 g3 e3 P3 O3).
      * injection H as <- <-. apply (fail_case d p [c] LEqv (p, [c]) d1 d2 g2 e2 P2 O2).
    + injection H as <- <-. simpl. exists d1, g1. csplit; auto; try (left; split; [simpl; discriminate|reflexivity]).
  - injection H as <- <-. apply (fail_case d p cs LRule (p, cs) d d1 g1 e1 P1 O1).
Qed.

End Generic.

Arguments form_key T d f : simpl never.

(* ================================================================== 4. the default RuleDB *)
(* twoway_faithful, add_hist (histories of ruledb.add calls as the searcher makes them) now live in
   RuleDB/AddHist.v, upstream of Props/C14.v, so that RuleDB/SearchHist.v (C04_search_gives_add_hist: every run
   of the searcher model produces such a history) can be used by Props/C14.v and Props/C02.v alike *)

Lemma d_mem_set_same k v s : d_mem k (d_set k v s) = true.
Proof. rewrite d_mem_get, d_get_set, keqb_refl. reflexivity. Qed.

Lemma d_mem_set_mono k' k v s : d_mem k' s = true -> d_mem k' (d_set k v s) = true.
Proof. rewrite !d_mem_get, d_get_set. destruct (keqb k' k); auto. Qed.

Lemma d_get_set_inv k' k v v' s : d_get k' (d_set k v s) = Some v' -> (k' = k /\ v' = v) \/ d_get k' s = Some v'.
Proof.
  rewrite d_get_set. destruct (keqb k' k) eqn:E; auto. apply keqb_spec in E. intros [= <-]. auto.
Qed.

Lemma in_eqv_true ends' tw : in_eqv ends' tw = true -> tw = true /\ exists e0, ends' = [e0].
Proof. unfold in_eqv. destruct ends' as [|e0 [|e1 t]]; try discriminate. intros ->. eauto. Qed.

(* what the store part of RuleDBBase.add does to the two dicts *)
Lemma gen_store_dict start ends' sid tw r e :
  let '(r', e') := gen_store dstore d_set d_mem d_del start ends' sid tw r e in
  let k := (start, ends') in
  (forall k' v, d_get k' r' = Some v -> (k' = k /\ v = sid /\ in_eqv ends' tw = false) \/ d_get k' r = Some v) /\
  (forall k' v, d_get k' e' = Some v -> (k' = k /\ v = sid /\ in_eqv ends' tw = true) \/ d_get k' e = Some v) /\
  (forall k', d_mem k' e = true -> d_mem k' e' = true) /\
  d_mem k (if in_eqv ends' tw then e' else r') = true /\
  (forall x y, d_mem (x, [y]) r || d_mem (x, [y]) e || d_mem (y, [x]) e = true ->
               d_mem (x, [y]) r' || d_mem (x, [y]) e' || d_mem (y, [x]) e' = true).
Proof.
  assert (in_eqv ends' tw = false ->
          let r' := d_set (start, ends') sid r in
          let k := (start, ends') in
          (forall k' v, d_get k' r' = Some v -> (k' = k /\ v = sid /\ in_eqv ends' tw = false) \/ d_get k' r = Some v) /\
          (forall k' v, d_get k' e = Some v -> (k' = k /\ v = sid /\ in_eqv ends' tw = true) \/ d_get k' e = Some v) /\
          (forall k', d_mem k' e = true -> d_mem k' e = true) /\
          d_mem k (if in_eqv ends' tw then e else r') = true /\
          (forall x y, d_mem (x, [y]) r || d_mem (x, [y]) e || d_mem (y, [x]) e = true ->
                       d_mem (x, [y]) r' || d_mem (x, [y]) e || d_mem (y, [x]) e = true)) as A.
  { intros Hin. cbv zeta. rewrite Hin. csplit; auto.
    - intros k' v H. apply d_get_set_inv in H as [(-> & ->)|H]; auto.
    - apply d_mem_set_same.
    - intros x y H. apply orb_true_iff in H as [H|H]; [apply orb_true_iff in H as [H|H]|].
      + rewrite (d_mem_set_mono _ _ _ _ H). reflexivity.
      + rewrite H, orb_true_r. reflexivity.
      + rewrite H, orb_true_r. reflexivity. }
  unfold gen_store. destruct ends' as [|e0 [|e1 t]]; try (apply A; reflexivity).
  destruct tw; [|apply A; reflexivity]. clear A. cbv zeta. cbn [in_eqv]. csplit; auto.
  - intros k' v H. right. rewrite !d_get_del_if in H.
    destruct (keqb (e0, [start]) k'); [discriminate|]. destruct (keqb (start, [e0]) k'); [discriminate|]. exact H.
  - intros k' v H. apply d_get_set_inv in H as [(-> & ->)|H]; auto.
  - intros k' H. apply d_mem_set_mono; auto.
  - apply d_mem_set_same.
  - intros x y H. apply orb_true_iff in H as [H|H]; [apply orb_true_iff in H as [H|H]|].
    + destruct (keqb (start, [e0]) (x, [y])) eqn:E1.
      { apply keqb_spec in E1. injection E1 as <- <-. rewrite d_mem_set_same, orb_true_r. reflexivity. }
      destruct (keqb (e0, [start]) (x, [y])) eqn:E2.
      { apply keqb_spec in E2. injection E2 as <- <-. rewrite d_mem_set_same, orb_true_r. reflexivity. }
      assert (d_mem (x, [y]) (del_if dstore d_mem d_del (e0, [start]) (del_if dstore d_mem d_del (start, [e0]) r)) = true) as ->.
      { rewrite d_mem_get, !d_get_del_if, E1, E2. rewrite d_mem_get in H. exact H. }
      reflexivity.
    + rewrite (d_mem_set_mono _ _ _ _ H), orb_true_r. reflexivity.
    + rewrite (d_mem_set_mono _ _ _ _ H), orb_true_r. reflexivity.
Qed.

Lemma gen_eqcalls_edge start ends' ver tw tw' x y :
  In (EqEdge tw' x y) (rev (gen_eqcalls start ends' ver tw)) -> tw' = tw /\ x = start /\ ends' = [y].
Proof.
  intros H. apply in_rev in H. unfold gen_eqcalls in H. apply in_app_or in H as [H|H].
  - destruct ver; [destruct H as [H|[]]; discriminate|destruct H].
  - destruct ends' as [|e0 [|e1 t]]; [destruct H| |destruct H]. destruct H as [[= <- <- <-]|[]]. auto.
Qed.

Section Hist.
Variable T : table.
Notation orc := (oracle T).

Definition hist_ok (a : dbst dstore) : Prop :=
  WFd (b_cdb dstore a) /\
  (* every stored strategy, re-applied to the class labelled by the key's start, is filed under the key again *)
  (forall k sid, d_get k (b_r dstore a) = Some sid \/ d_get k (b_e dstore a) = Some sid ->
                 reproduces T (b_cdb dstore a) sid k = true) /\
  (* the equivalence store holds two-way rules with exactly one end *)
  (forall k sid, d_get k (b_e dstore a) = Some sid ->
     exists P e0, snd k = [e0] /\ lbl (b_cdb dstore a) P = Some (fst k) /\
                  r_two_way T (rule_of T sid P) = true) /\
  (* every edge handed to the equivalence database is covered by a stored key *)
  (forall tw x y, In (EqEdge tw x y) (b_eq dstore a) ->
     d_mem (x, [y]) (b_r dstore a) || d_mem (x, [y]) (b_e dstore a) || d_mem (y, [x]) (b_e dstore a) = true) /\
  (* a two-way edge is a key of the equivalence store *)
  (forall x y, In (EqEdge true x y) (b_eq dstore a) -> d_mem (x, [y]) (b_e dstore a) = true).

Theorem add_hist_inv : forall a, add_hist T a -> hist_ok a.
Proof.
  induction 1 as [d W|a start ends r cs Ha IH Hpre Hkind Hfaith|a d' Ha IH P].
  - unfold hist_ok, dict_init. cbn [b_cdb b_r b_e b_eq]. csplit; auto;
      try (intros k sid [H|H]; discriminate); try (intros k sid H; discriminate); try (intros tw x y []); try (intros x y []).
  - destruct IH as (W & Hrep & Heq & Hcov & Htw).
    destruct Hpre as (_ & Hc & Hp & Hf).
    destruct (add_key_is_key_of_rule T (b_cdb dstore a) r start ends cs W Hc Hp Hf) as (d' & stop & Hcl & P & Hkr).
    unfold dict_add, gen_add. rewrite Hc, Hcl.
    remember (isort (kept_labels T (b_cdb dstore a) (r_pe T r) (combine cs ends))) as ends' eqn:Ee. clear Ee.
    pose proof (gen_store_dict start ends' (r_sid r) (r_two_way T r) (b_r dstore a) (b_e dstore a)) as G.
    destruct (gen_store dstore d_set d_mem d_del start ends' (r_sid r) (r_two_way T r) (b_r dstore a) (b_e dstore a)) as [r' e'].
    cbv zeta in G. destruct G as (G1 & G2 & G3 & G4 & G5).
    pose proof P as (W' & X & _).
    assert (reproduces T d' (r_sid r) (start, ends') = true) as Hnew.
    { apply (good_reproduces T d' false _ r W' Hkind). split; [exact Hkr|discriminate]. }
    unfold hist_ok. cbn [b_cdb b_r b_e b_eq]. csplit.
    + exact W'.
    + intros k sid [H|H].
      * apply G1 in H as [(-> & -> & _)|H]; [exact Hnew|].
        apply (reproduces_pres T _ d' sid k W P). apply Hrep. left; exact H.
      * apply G2 in H as [(-> & -> & _)|H]; [exact Hnew|].
        apply (reproduces_pres T _ d' sid k W P). apply Hrep. right; exact H.
    + intros k sid H. apply G2 in H as [(-> & -> & Hin)|H].
      * apply in_eqv_true in Hin as (Htwr & e0 & ->). exists (r_parent r), e0. csplit; auto.
        apply (lbl_mono _ d' _ _ W W' X Hp).
      * destruct (Heq k sid H) as (P0 & e0 & Hs & Hl & Ht). exists P0, e0. csplit; auto.
        apply (lbl_mono _ d' _ _ W W' X Hl).
    + intros tw x y H. apply in_app_or in H as [H|H].
      * apply gen_eqcalls_edge in H as (-> & -> & ->). cbn [in_eqv] in G4.
        destruct (r_two_way T r); rewrite G4; [rewrite orb_true_r|]; reflexivity.
      * apply G5. apply (Hcov tw x y H).
    + intros x y H. apply in_app_or in H as [H|H].
      * apply gen_eqcalls_edge in H as (Ht & -> & ->). cbn [in_eqv] in G4. rewrite <- Ht in G4. exact G4.
      * apply G3. apply (Htw x y H).
  - destruct IH as (W & Hrep & Heq & Hcov & Htw). pose proof P as (W' & X & _).
    unfold hist_ok. cbn [b_cdb b_r b_e b_eq]. csplit; auto.
    + intros k sid H. apply (reproduces_pres T _ d' sid k W P). apply Hrep. exact H.
    + intros k sid H. destruct (Heq k sid H) as (P0 & e0 & Hs & Hl & Ht). exists P0, e0. csplit; auto.
      apply (lbl_mono _ d' _ _ W W' X Hl).
Qed.

(* ---- totality of _find_rule on the default database ---- *)
Variable cap : Z -> bool.

Lemma two_way_reversible r :
  (forall sid c e, entry_of T sid c = Some e -> e_two_way e = true -> e_reversible e = true) ->
  r_two_way T r = true -> r_reversible T r = true.
Proof.
  intros Hcon. unfold r_two_way, r_reversible. destruct (r_kind r); auto.
  destruct (entry_of T (r_sid r) (r_parent r)) as [e|] eqn:E; auto. apply (Hcon _ _ _ E).
Qed.

Section Contracts.
Variable a : dbst dstore.
Notation d := (b_cdb dstore a).
Notation fr := (find_rule T cap (dict_lookup (b_r dstore a)) (dict_lookup (b_e dstore a)) d).

Lemma dict_lookup_hit s (d0 : cdbT) k sid : d_get k s = Some sid -> dict_lookup s d0 k = (d0, GOk sid 0).
Proof. intros H. unfold dict_lookup. rewrite H. reflexivity. Qed.
Lemma dict_lookup_miss s (d0 : cdbT) k : d_get k s = None -> dict_lookup s d0 k = (d0, GKeyError).
Proof. intros H. unfold dict_lookup. rewrite H. reflexivity. Qed.

(* (i) every key of rule_to_strategy: no contract needed *)
Lemma dict_find_rule_total_r : hist_ok a ->
  forall p cs sid, d_get (p, cs) (b_r dstore a) = Some sid ->
    exists f, fr p cs = (d, inl f) /\ form_key T d f = Some (p, cs).
Proof.
  intros (W & Hrep & _) p cs sid H. apply find_rule_total.
  apply (se_rule T cap _ _ d p cs d sid 0); auto. apply dict_lookup_hit; exact H.
Qed.

(* an entry (x, (y,)) covered by a stored key *)
Lemma dict_find_covered :
  (forall c l, lbl d c = Some l -> empv T d c = oracle T c) ->
  (forall k sid, d_get k (b_e dstore a) = Some sid -> cap sid = true) ->
  (forall sid c e, entry_of T sid c = Some e -> e_two_way e = true -> e_reversible e = true) ->
  hist_ok a -> forall x y,
  d_mem (x, [y]) (b_r dstore a) || d_mem (x, [y]) (b_e dstore a) || d_mem (y, [x]) (b_e dstore a) = true ->
  (forall C, lbl d C = Some y -> orc C = false) ->
  exists f, fr x [y] = (d, inl f) /\ form_key T d f = Some (x, [y]).
Proof.
  intros Htruth Hcap Hrev (W & Hrep & Heq & _) x y Hcov Hne. apply find_rule_total.
  rewrite !d_mem_get in Hcov.
  destruct (d_get (x, [y]) (b_r dstore a)) as [sid|] eqn:E1.
  { apply (se_rule T cap _ _ d x [y] d sid 0); auto. apply dict_lookup_hit; exact E1. }
  destruct (d_get (x, [y]) (b_e dstore a)) as [sid|] eqn:E2.
  { apply (se_eqv T cap _ _ d x [y] d y d GKeyError sid 0); auto.
    - apply dict_lookup_miss; exact E1.
    - apply dict_lookup_hit; exact E2.
    - intros P HP. destruct (Heq _ _ E2) as (P0 & e0 & _ & Hl & Ht). cbn [fst] in Hl.
      rewrite (label_injective Z.eqb Zeqb_spec (fun c : Z => c) (fun k : Z => k) id_inv d P P0 x W HP Hl). exact Ht.
    - apply (Hcap _ _ E2). }
  destruct (d_get (y, [x]) (b_e dstore a)) as [sid|] eqn:E3; [|discriminate].
  apply (se_rev T cap _ _ d x [y] d y d GKeyError d GKeyError sid 0); auto.
  - apply dict_lookup_miss; exact E1.
  - apply dict_lookup_miss; exact E2.
  - apply dict_lookup_hit; exact E3.
  - intros C HC. destruct (Heq _ _ E3) as (P0 & e0 & _ & Hl & Ht). cbn [fst] in Hl.
    rewrite (label_injective Z.eqb Zeqb_spec (fun c : Z => c) (fun k : Z => k) id_inv d C P0 y W HC Hl).
    csplit; auto. apply two_way_reversible; auto.
  - apply (Hcap _ _ E3).
Qed.

End Contracts.

(* C02_find_rule_total: if the entry was stored by the searcher from a table entry, _find_rule finds a rule whose
   (parent, sorted non-empty children labels) is the entry *)
Theorem dict_find_rule_total : forall a, add_hist T a ->
  let d := b_cdb dstore a in
  let fr := find_rule T cap (dict_lookup (b_r dstore a)) (dict_lookup (b_e dstore a)) d in
  (* the emptiness cache is truthful on labelled classes *)
  (forall c l, lbl d c = Some l -> empv T d c = oracle T c) ->
  (* the strategies in the equivalence store can be equivalent *)
  (forall k sid, d_get k (b_e dstore a) = Some sid -> cap sid = true) ->
  (* two-way table entries are reversible *)
  (forall sid c e, entry_of T sid c = Some e -> e_two_way e = true -> e_reversible e = true) ->
  (* (i) the keys of rule_to_strategy *)
  (forall p cs sid, d_get (p, cs) (b_r dstore a) = Some sid ->
     exists f, fr p cs = (d, inl f) /\ form_key T d f = Some (p, cs)) /\
  (* (ii) the edges handed to the equivalence database, and the two-way ones backwards *)
  (forall tw x y, In (EqEdge tw x y) (b_eq dstore a) ->
     ((forall C, lbl d C = Some y -> oracle T C = false) ->
      exists f, fr x [y] = (d, inl f) /\ form_key T d f = Some (x, [y])) /\
     (tw = true -> (forall C, lbl d C = Some x -> oracle T C = false) ->
      exists f', fr y [x] = (d, inl f') /\ form_key T d f' = Some (y, [x]))) /\
  (* (iii) the keys of eqv_rule_to_strategy, both ways *)
  (forall p cs sid, d_get (p, cs) (b_e dstore a) = Some sid ->
     exists c, cs = [c] /\
     ((forall C, lbl d C = Some c -> oracle T C = false) ->
      exists f, fr p [c] = (d, inl f) /\ form_key T d f = Some (p, [c])) /\
     ((forall C, lbl d C = Some p -> oracle T C = false) ->
      exists f', fr c [p] = (d, inl f') /\ form_key T d f' = Some (c, [p]))).
Proof.
  intros a Ha d fr Htruth Hcap Hrev. pose proof (add_hist_inv a Ha) as Inv.
  pose proof Inv as (W & Hrep & Heq & Hcov & Htw). csplit.
  - apply dict_find_rule_total_r; exact Inv.
  - intros tw x y Hin. split.
    + intros Hne. apply (dict_find_covered a Htruth Hcap Hrev Inv x y); auto. apply (Hcov tw x y Hin).
    + intros -> Hne. apply (dict_find_covered a Htruth Hcap Hrev Inv y x); auto.
      rewrite (Htw x y Hin). apply orb_true_r.
  - intros p cs sid H. destruct (Heq _ _ H) as (P0 & c & Hs & _). cbn [snd] in Hs. subst cs.
    assert (d_mem (p, [c]) (b_e dstore a) = true) as Hm by (rewrite d_mem_get, H; reflexivity).
    exists c. csplit; auto.
    + intros Hne. apply (dict_find_covered a Htruth Hcap Hrev Inv p c); auto. rewrite Hm, orb_true_r. reflexivity.
    + intros Hne. apply (dict_find_covered a Htruth Hcap Hrev Inv c p); auto. rewrite Hm. apply orb_true_r.
Qed.

End Hist.

(* ================================================================== 5. concrete instances *)
(* The recorded limitation (C14_every_stored_rule_handed_back_refuted, findings/forget_foreign_parent.py): the rule
   S(1) -> (2,) a factory produced while expanding class 0 is stored under (1, (2,)) in both databases; with the dicts
   of RuleDB _find_rule hands strategy(class 1) back, with the RecomputingDict stores of RuleDBForgetStrategy it
   raises RuntimeError (the pack [1] replayed on classes 1 and 2 never yields the rule) *)
Theorem find_rule_forget_foreign_parent_refuted :
  let T := C14.fp_table in
  let cap := fun _ : Z => true in
  let A := dict_add T (dict_init C14.fp_cdb) 1 [2] (mkR 0 1 RPlain) in
  let B := rec_add T (rec_init C14.fp_cdb) 1 [2] (mkR 0 1 RPlain) in
  d_get (1, [2]) (b_e dstore A) = Some 0 /\ r_mem (1, [2]) (b_e rstore_t B) = true /\
  snd (find_rule T cap (rec_lookup T [1] false (b_r rstore_t B)) (rec_lookup T [1] true (b_e rstore_t B))
         (b_cdb rstore_t B) 1 [2]) = inr ERecompute /\
  snd (find_rule T cap (dict_lookup (b_r dstore A)) (dict_lookup (b_e dstore A)) (b_cdb dstore A) 1 [2])
    = inl (FPlain (mkR 0 1 RPlain)).
Proof. vm_compute. csplit; reflexivity. Qed.

(* the four forms on a concrete table: 0 <-> (1, empty 2) two-way with an empty sibling, 3 <-> (4,) unary two-way *)
Definition ff_table : table :=
  mkT [0; 0; 1; 0; 0]
      [ mkS 0 false true true true [(0, mkE [1; 2] true true [0; 0])] [];     (* 0: possibly_empty, two-way *)
        mkS 0 false true false true [(3, mkE [4] true true [0])] [] ]          (* 1: unary, two-way *)
      [] [].
Definition ff_cdb : cdbT :=
  mk [0; 1; 2; 3; 4] [(0, 0); (1, 1); (2, 2); (3, 3); (4, 4)] [None; None; None; None; None] 0.
Definition ff_A : dbst dstore :=
  dict_add ff_table (dict_add ff_table (dict_init ff_cdb) 0 [1; 2] (mkR 0 0 RPlain)) 3 [4] (mkR 1 3 RPlain).
Definition ff_find (p : Z) (cs : list Z) : form + ferr :=
  snd (find_rule ff_table (fun _ => true) (dict_lookup (b_r dstore ff_A)) (dict_lookup (b_e dstore ff_A))
         (b_cdb dstore ff_A) p cs).

Example four_forms_stores :
  d_keys (b_r dstore ff_A) = [] /\ d_keys (b_e dstore ff_A) = [(0, [1]); (3, [4])] /\
  rev (b_eq dstore ff_A) = [EqEdge true 0 1; EqEdge true 3 4].
Proof. vm_compute. csplit; reflexivity. Qed.

Example four_forms_equiv :            (* a two-way rule with an empty sibling: its equivalence form *)
  ff_find 0 [1] = inl (FEquiv (mkR 0 0 RPlain)) /\
  form_key ff_table (b_cdb dstore ff_A) (FEquiv (mkR 0 0 RPlain)) = Some (0, [1]).
Proof. vm_compute. csplit; reflexivity. Qed.

Example four_forms_equiv_rev :        (* ... and its reverse *)
  ff_find 1 [0] = inl (FEquivRev (mkR 0 0 RPlain) 0) /\
  form_key ff_table (b_cdb dstore ff_A) (FEquivRev (mkR 0 0 RPlain) 0) = Some (1, [0]).
Proof. vm_compute. csplit; reflexivity. Qed.

Example four_forms_plain :            (* a unary two-way rule, from the equivalence store, as it is *)
  ff_find 3 [4] = inl (FPlain (mkR 1 3 RPlain)) /\
  form_key ff_table (b_cdb dstore ff_A) (FPlain (mkR 1 3 RPlain)) = Some (3, [4]).
Proof. vm_compute. csplit; reflexivity. Qed.

Example four_forms_rev :              (* ... and its reverse *)
  ff_find 4 [3] = inl (FRev (mkR 1 3 RPlain)) /\
  form_key ff_table (b_cdb dstore ff_A) (FRev (mkR 1 3 RPlain)) = Some (4, [3]).
Proof. vm_compute. csplit; reflexivity. Qed.

Example four_forms_missing : ff_find 0 [4] = inr EMissing /\ ff_find 0 [1; 2] = inr EMissing.
Proof. vm_compute. csplit; reflexivity. Qed.

(* non-vacuity of dict_find_rule_total: ff_A is a history of the searcher's insertions, and the contracts hold *)
Lemma ff_wf : WFd ff_cdb.
Proof.
  unfold WF; simpl. split; [reflexivity|split; [reflexivity|]].
  repeat constructor; simpl; intuition discriminate.
Qed.

Example four_forms_add_hist : add_hist ff_table ff_A.
Proof.
  unfold ff_A. apply (ah_add ff_table _ 3 [4] (mkR 1 3 RPlain) [4]).
  - apply (ah_add ff_table _ 0 [1; 2] (mkR 0 0 RPlain) [1; 2]).
    + apply ah_init. exact ff_wf.
    + unfold add_pre. split; [exact ff_wf|]. split; [reflexivity|]. split; [reflexivity|repeat constructor].
    + intros H; discriminate.
    + intros _. reflexivity.
  - assert (pres ff_table ff_cdb (b_cdb dstore (dict_add ff_table (dict_init ff_cdb) 0 [1; 2] (mkR 0 0 RPlain)))) as P.
    { apply (dict_add_spec ff_table (dict_init ff_cdb) 0 [1; 2] (mkR 0 0 RPlain) [1; 2]).
      - unfold add_pre. split; [exact ff_wf|]. split; [reflexivity|]. split; [reflexivity|repeat constructor].
      - intros H; discriminate. }
    destruct P as (W & _). unfold add_pre. split; [exact W|]. split; [reflexivity|]. split; [reflexivity|repeat constructor].
  - intros H; discriminate.
  - intros _. reflexivity.
Qed.

Example four_forms_contracts :
  let d := b_cdb dstore ff_A in
  (forall c l, lbl d c = Some l -> empv ff_table d c = oracle ff_table c) /\
  (forall sid c e, entry_of ff_table sid c = Some e -> e_two_way e = true -> e_reversible e = true).
Proof.
  cbv zeta. split.
  - intros c l H.
    assert (WFd (b_cdb dstore ff_A)) as W by (destruct (add_hist_inv ff_table ff_A four_forms_add_hist); auto).
    assert (In c [0; 1; 2; 3; 4]) as Hin.
    { destruct (in_dec Z.eq_dec c [0; 1; 2; 3; 4]) as [Hin|Hn]; auto. exfalso.
      assert (lbl (b_cdb dstore ff_A) c = None) as Hnone.
      { apply (label_of_none Z.eqb Zeqb_spec (fun c : Z => c) (b_cdb dstore ff_A) c W). exact Hn. }
      congruence. }
    simpl in Hin. repeat (destruct Hin as [<-|Hin]; [vm_compute; reflexivity|]). destruct Hin.
  - intros sid c e H _. unfold entry_of, strat_of in H.
    destruct (sid <? 0); [discriminate|].
    destruct (Z.to_nat sid) as [|[|n]]; simpl in H.
    + destruct c; try discriminate. injection H as <-. reflexivity.
    + destruct c as [|[[|[]|]|[]|]|]; try discriminate. injection H as <-. reflexivity.
    + destruct n; discriminate.
Qed.

Print Assumptions find_rule_from_table.
Print Assumptions rules_from_table.
Print Assumptions find_rule_outcomes.
Print Assumptions find_rule_total.
Print Assumptions find_rule_total_r.
Print Assumptions find_rule_total_e.
Print Assumptions find_rule_total_rev.
Print Assumptions reproduces_pres.
Print Assumptions add_hist_inv.
Print Assumptions dict_find_rule_total.
Print Assumptions find_rule_forget_foreign_parent_refuted.
Print Assumptions four_forms_add_hist.
Print Assumptions four_forms_contracts.
