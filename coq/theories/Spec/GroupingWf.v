(* The inputs for which the C02 grouping theorems are stated (wf_input), as a
   proposition and as a decision procedure (wf_inputb, sound: wf_inputb_sound),
   so that the check can report on every real rule set whether the hypotheses of
   the theorems held.

   d is the rules dictionary AFTER _ungroup_equiv_path (no EquivalencePathRule left).
     keyed      every rule sits under its own class, one entry per class
     unary_eqv  a rule with is_equivalence() has exactly one child, and that child has a rule
     closed     every child has a rule or is an empty class
     chains     following equivalence rules from the child of an equivalence rule reaches a
                class that is not hidden (no cycle of hidden classes)
     reachable  every class with a rule is reachable from the root through the rules
     root_ok    the root has a rule or is empty *)
From Coq Require Import ZArith List Bool Lia.
From CSS Require Import Spec.Grouping.
Import ListNotations.

Section Wf.
Variable is_empty : nat -> bool.

Definition kids (d : dict) (c : nat) : list nat :=
  match dget c d with Some g => g_ch g | None => [] end.

Inductive reach (d : dict) (root : nat) : nat -> Prop :=
| reach_root : reach d root root
| reach_step : forall x y, reach d root x -> In y (kids d x) -> reach d root y.

(* follow equivalence rules from c until a class of nh is met *)
Fixpoint chain_end (fuel : nat) (nh : list nat) (d : dict) (c : nat) : option nat :=
  if mem c nh then Some c
  else match fuel with
       | O => None
       | S f =>
           match dget c d with
           | Some (GB r) => match b_ch r with [y] => chain_end f nh d y | _ => None end
           | _ => None
           end
       end.

Definition path_free (d : dict) : Prop := forall k g, In (k, g) d -> is_path g = false.
Definition keyed (d : dict) : Prop :=
  NoDup (map fst d) /\ forall k g, In (k, g) d -> g_cls g = k.
Definition unary_eqv (d : dict) : Prop :=
  forall k g, In (k, g) d -> g_eqv g = true -> exists y, g_ch g = [y] /\ dmem y d = true.
Definition closed (d : dict) : Prop :=
  forall k g c, In (k, g) d -> In c (g_ch g) -> dmem c d = true \/ is_empty c = true.
Definition chains (root : nat) (d : dict) : Prop :=
  forall k g y, In (k, g) d -> g_eqv g = true -> g_ch g = [y] ->
    chain_end (length d) (not_hidden root d) d y <> None.
Definition reachable (root : nat) (d : dict) : Prop :=
  forall k g, In (k, g) d -> reach d root k.

Definition root_ok (root : nat) (d : dict) : Prop := dmem root d = true \/ is_empty root = true.

Definition wf_input (root : nat) (d : dict) : Prop :=
  path_free d /\ keyed d /\ unary_eqv d /\ closed d /\ chains root d /\ reachable root d /\ root_ok root d.

(* ---------------------------------------------------------------- decision *)
Fixpoint nodupb (l : list nat) : bool :=
  match l with [] => true | x :: t => negb (mem x t) && nodupb t end.

Fixpoint add_new (xs acc : list nat) : list nat :=
  match xs with
  | [] => acc
  | x :: t => if mem x acc then add_new t acc else add_new t (acc ++ [x])
  end.
Definition reach_round (d : dict) (acc : list nat) : list nat :=
  fold_left (fun a c => add_new (kids d c) a) acc acc.
Fixpoint reach_iter (n : nat) (d : dict) (acc : list nat) : list nat :=
  match n with O => acc | S m => reach_iter m d (reach_round d acc) end.
Definition reach_list (root : nat) (d : dict) : list nat :=
  reach_iter (length (comb_classes d)) d [root].

Definition wf_inputb (root : nat) (d : dict) : bool :=
  forallb (fun kv => negb (is_path (snd kv))) d &&
  nodupb (map fst d) && forallb (fun kv => Nat.eqb (g_cls (snd kv)) (fst kv)) d &&
  forallb (fun kv => if g_eqv (snd kv)
                     then match g_ch (snd kv) with [y] => dmem y d | _ => false end
                     else true) d &&
  forallb (fun kv => forallb (fun c => dmem c d || is_empty c) (g_ch (snd kv))) d &&
  forallb (fun kv => if g_eqv (snd kv)
                     then match g_ch (snd kv) with
                          | [y] => match chain_end (length d) (not_hidden root d) d y with
                                   | Some _ => true | None => false end
                          | _ => true
                          end
                     else true) d &&
  forallb (fun kv => mem (fst kv) (reach_list root d)) d &&
  (dmem root d || is_empty root).

(* ---------------------------------------------------------------- soundness *)
Lemma mem_In x l : mem x l = true <-> In x l.
Proof.
  unfold mem. rewrite existsb_exists. split.
  - intros (y & Hy & E). apply Nat.eqb_eq in E. subst; auto.
  - intros H. exists x. split; auto. apply Nat.eqb_refl.
Qed.

Lemma mem_false x l : mem x l = false <-> ~ In x l.
Proof.
  rewrite <- mem_In. destruct (mem x l).
  - split; [discriminate|]. intros H. exfalso; apply H; reflexivity.
  - split; [intros _ ?; discriminate|reflexivity].
Qed.

Lemma nodupb_NoDup l : nodupb l = true -> NoDup l.
Proof.
  induction l as [|x t IH]; simpl; [constructor|].
  intros H. apply andb_true_iff in H as [A B]. constructor; auto.
  apply negb_true_iff in A. apply mem_false in A. exact A.
Qed.

Lemma add_new_sound (P : nat -> Prop) xs : forall acc,
  (forall x, In x xs -> P x) -> (forall x, In x acc -> P x) -> forall x, In x (add_new xs acc) -> P x.
Proof.
  induction xs as [|y t IH]; simpl; intros acc Hx Ha x Hin; auto.
  destruct (mem y acc).
  - apply (IH acc); auto.
  - apply (IH (acc ++ [y])); auto. intros z Hz. apply in_app_or in Hz as [Hz|[<-|[]]]; auto.
Qed.

Lemma reach_round_sound d root acc :
  (forall x, In x acc -> reach d root x) -> forall x, In x (reach_round d acc) -> reach d root x.
Proof.
  unfold reach_round. intros Ha.
  assert (forall l a, (forall x, In x l -> reach d root x) -> (forall x, In x a -> reach d root x) ->
            forall x, In x (fold_left (fun a c => add_new (kids d c) a) l a) -> reach d root x) as G.
  { induction l as [|c l IH]; simpl; intros a Hl Haa x Hin; auto.
    apply (IH (add_new (kids d c) a)); auto.
    apply add_new_sound; auto. intros y Hy. eapply reach_step; eauto. }
  apply G; auto.
Qed.

Lemma reach_iter_sound d root n : forall acc,
  (forall x, In x acc -> reach d root x) -> forall x, In x (reach_iter n d acc) -> reach d root x.
Proof.
  induction n as [|n IH]; simpl; intros acc Ha x Hin; auto.
  apply (IH (reach_round d acc)); auto. apply reach_round_sound; auto.
Qed.

Lemma reach_list_sound d root x : In x (reach_list root d) -> reach d root x.
Proof.
  apply reach_iter_sound. intros y [<-|[]]. constructor.
Qed.

Theorem wf_inputb_sound root d : wf_inputb root d = true -> wf_input root d.
Proof.
  unfold wf_inputb. intros H.
  repeat (apply andb_true_iff in H; destruct H as [H ?]).
  rename H into H1, H0 into H8, H1 into H7, H2 into H6, H3 into H5, H4 into H4, H5 into H3, H6 into H2.
  rewrite forallb_forall in H1, H3, H4, H5, H6, H7.
  unfold wf_input. repeat match goal with |- _ /\ _ => split end.
  - intros k g Hin. specialize (H1 _ Hin). simpl in H1. apply negb_true_iff in H1. exact H1.
  - split; [apply nodupb_NoDup; auto|].
    intros k g Hin. specialize (H3 _ Hin). simpl in H3. apply Nat.eqb_eq in H3. exact H3.
  - intros k g Hin He. specialize (H4 _ Hin). simpl in H4. rewrite He in H4.
    destruct (g_ch g) as [|y [|z t]]; try discriminate. exists y. auto.
  - intros k g c Hin Hc. specialize (H5 _ Hin). simpl in H5. rewrite forallb_forall in H5.
    specialize (H5 _ Hc). apply orb_true_iff in H5. exact H5.
  - intros k g y Hin He Hy. specialize (H6 _ Hin). simpl in H6. rewrite He, Hy in H6.
    destruct (chain_end _ _ _ y); [discriminate|discriminate H6].
  - intros k g Hin. specialize (H7 _ Hin). simpl in H7. apply mem_In in H7.
    apply reach_list_sound; auto.
  - apply orb_true_iff in H8. exact H8.
Qed.

End Wf.
