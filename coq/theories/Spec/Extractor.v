(* Executable model of SpecificationRuleExtractor (specification_extrator.py):
   _populate_decompositions (with RuleDBBase.rule_from_equivalence_rule_dict),
   _populate_equivalences, _no_lhs_labels, _check.
   Inputs that come from other components are arguments:
     stored  : the keys of rule_to_strategy in dictionary order
     rep     : the equivalence database's representative function
     tree    : root_node.rule_keys() (equivalence-level rule keys of the proof tree)
     fpath   : equivdb.find_path (contract: C06_path)
     order   : the order in which CPython iterates the set _no_lhs_labels()
               (arbitrary; the theorems hold for every order) *)
From Coq Require Import ZArith List Bool Lia Sorting.Mergesort Orders.
Import ListNotations.

Module NatOrder <: TotalLeBool.
  Definition t := nat.
  Definition leb := Nat.leb.
  Lemma leb_total : forall a b, leb a b = true \/ leb b a = true.
  Proof. intros a b. unfold leb. destruct (Nat.leb_spec a b); auto. right. apply Nat.leb_le. lia. Qed.
End NatOrder.
Module NatSort := Sort NatOrder.

Definition rkey := (nat * list nat)%type.          (* RuleKey *)

Definition list_eqb (a b : list nat) : bool :=
  (Nat.eqb (length a) (length b)) && forallb (fun p => Nat.eqb (fst p) (snd p)) (combine a b).
Definition rkey_eqb (a b : rkey) : bool := Nat.eqb (fst a) (fst b) && list_eqb (snd a) (snd b).

Definition lookup (d : list rkey) (k : nat) : option (list nat) :=
  option_map snd (find (fun e => Nat.eqb (fst e) k) d).
Definition dom (d : list rkey) (k : nat) : bool :=
  match lookup d k with Some _ => true | None => false end.
(* dict assignment d[k] = v *)
Fixpoint assign (d : list rkey) (k : nat) (v : list nat) : list rkey :=
  match d with
  | [] => [(k, v)]
  | e :: t => if Nat.eqb (fst e) k then (k, v) :: t else e :: assign t k v
  end.

Section Extract.
Variable rep : nat -> nat.
Variable fpath : nat -> nat -> list nat.

Definition eqv_key (k : rkey) : rkey := (rep (fst k), NatSort.sort (map rep (snd k))).

(* RuleDBBase.rule_from_equivalence_rule_dict: later stored keys overwrite earlier ones *)
Definition rule_for (stored : list rkey) (e : rkey) : option rkey :=
  fold_left (fun acc k => if rkey_eqb (eqv_key k) e then Some k else acc) stored None.

(* _populate_decompositions: returns (rules_dict, eqvparent_to_parent) or None = KeyError *)
Fixpoint decompositions (stored tree : list rkey) (d : list rkey) (e2p : list (nat * nat))
  : option (list rkey * list (nat * nat)) :=
  match tree with
  | [] => Some (d, e2p)
  | e :: t =>
      match rule_for stored e with
      | None => None
      | Some (p, cs) => decompositions stored t (assign d p cs) ((fst e, p) :: e2p)
      end
  end.

Definition e2p_get (e2p : list (nat * nat)) (k : nat) : option nat :=
  option_map snd (find (fun e => Nat.eqb (fst e) k) e2p).

(* the for-loop over a path: add parent -> (child,) until a known parent is met *)
Fixpoint add_path (d : list rkey) (path : list nat) : list rkey :=
  match path with
  | p :: ((c :: _) as rest) => if dom d p then d else add_path (assign d p [c]) rest
  | _ => d
  end.

(* _populate_equivalences over the labels in the given order *)
Fixpoint equivalences (d : list rkey) (e2p : list (nat * nat)) (labels : list nat)
  : option (list rkey) :=
  match labels with
  | [] => Some d
  | l :: t =>
      match e2p_get e2p (rep l) with
      | None => None                                  (* KeyError *)
      | Some target => equivalences (add_path d (fpath l target)) e2p t
      end
  end.

Definition all_rhs (d : list rkey) : list nat := flat_map snd d.

(* _no_lhs_labels as a membership test *)
Definition no_lhs (d : list rkey) (root : nat) (l : nat) : bool :=
  (existsb (Nat.eqb l) (all_rhs d) && negb (dom d l)) || (Nat.eqb l root && negb (dom d root)).

(* _check: first assertion (every right-hand label is a left-hand label) and
   second assertion (the only left-hand label that is nowhere on a right-hand side is the root) *)
Definition check (d : list rkey) (root : nat) : bool :=
  forallb (dom d) (all_rhs d) &&
  forallb (fun e => existsb (Nat.eqb (fst e)) (all_rhs d) || Nat.eqb (fst e) root) d.

Definition extract (stored tree : list rkey) (root : nat) (order : list nat) : option (list rkey) :=
  match decompositions stored tree [] [] with
  | None => None
  | Some (d, e2p) => equivalences d e2p order
  end.

End Extract.
