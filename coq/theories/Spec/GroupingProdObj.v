(* What the four bits and two key lists exported by Spec/GroupingRun.v run_spec mean together:
   when wf_inputb and shifts_okb hold for the ungrouped input, the constructor finished, and the finished
   object's rules_dict has as many entries as the dictionary _group_equiv_in_path left (same_dictb), then the
   key lists run_spec prints - R1 of the OBJECT'S rules_dict and R0 of the ungrouped input - are an instance
   of Spec/GroupingProdLink.v: a class with a rule in the object pumps w.r.t. the one iff it pumps w.r.t. the
   other. *)
From Coq Require Import ZArith List Bool Lia.
From CSS Require Import Forest.Spec Spec.Grouping Spec.GroupingWf Spec.GroupingFacts Spec.GroupingProofs
  Spec.GroupingInit Spec.GroupingProdLink.
Import ListNotations.

Lemma shifts_okb_sound d : shifts_okb d = true ->
  forall k r, In (k, GB r) d -> length (b_sh r) = length (b_ch r).
Proof.
  unfold shifts_okb. intros H k r Hin. rewrite forallb_forall in H. specialize (H _ Hin). cbn [snd] in H.
  apply Nat.eqb_eq. exact H.
Qed.

Lemma shifts_okb_complete d :
  (forall k r, In (k, GB r) d -> length (b_sh r) = length (b_ch r)) -> shifts_okb d = true.
Proof.
  intros H. unfold shifts_okb. apply forallb_forall. intros [k g] Hin. cbn [snd]. destruct g as [r|r0 rs]; auto.
  apply Nat.eqb_eq. eapply H; eauto.
Qed.

(* _set_subrules only appends: as many entries = the same dictionary *)
Lemma ext_same_length is_empty a b : ext is_empty a b -> length a = length b -> b = a.
Proof.
  intros (x & -> & _) H. rewrite app_length in H. destruct x as [|e x]; [apply app_nil_r|]. cbn [length] in H. lia.
Qed.

Section Obj.
Variable is_empty : nat -> bool.
Variable root : nat.
Variable rules : list grule.
Let d0 := ungroup (rules_dict rules).

Theorem object_keys_pump_iff s :
  wf_inputb is_empty root d0 = true ->
  shifts_okb d0 = true ->
  spec_init is_empty root rules true = XOk s ->
  same_dictb is_empty root rules true (sp_rules s) = true ->
  grouped is_empty root d0 (sp_rules s) /\
  (forall c g, In (c, g) (sp_rules s) -> (pumps (R1 (sp_rules s)) c <-> pumps (R0 d0 (sp_rules s)) c)) /\
  (pumps (R1 (sp_rules s)) root <-> pumps (R0 d0 (sp_rules s)) root) /\
  (forall c v, derivable (R1 (sp_rules s)) c v -> derivable (R0 d0 (sp_rules s)) c v).
Proof.
  intros Hw Hs Hi Hsame. apply wf_inputb_sound in Hw. pose proof (shifts_okb_sound _ Hs) as Hsh.
  destruct (spec_init_ok is_empty root rules Hw) as (_ & Hok). fold d0 in Hok.
  (* the dictionary the grouping leaves *)
  destruct (group_core_ok is_empty root d0 Hw (group_fuel root d0) (le_n _)) as (d1 & Hg & G).
  assert (grouped_dict is_empty root rules true = XOk d1) as Hgd.
  { unfold grouped_dict, group_equiv_in_path. fold d0. exact Hg. }
  unfold same_dictb in Hsame. rewrite Hgd in Hsame. apply Nat.eqb_eq in Hsame.
  (* the object's dictionary extends it *)
  assert (ext is_empty d1 (sp_rules s)) as E.
  { revert Hi. unfold spec_init, group_equiv_in_path. fold d0. rewrite Hg. cbn [xbind].
    pose proof G as (_ & Hv & _).
    destruct (set_subrules_ok is_empty root d1 Hv) as (d2 & Hs2 & E2 & _). rewrite Hs2. cbn [xbind].
    destruct (enforce_labels root d2) as [ls|e|]; cbn [xbind]; try discriminate.
    intros [= <-]. exact E2. }
  rewrite (ext_same_length _ _ _ E Hsame). split; [exact G|]. split; [|split].
  - intros c g Hin. apply (grouping_preserves_pumping is_empty root d0 d1 Hw G Hsh).
    destruct G as (Hnd & _ & _ & _ & _ & _ & H7 & _).
    destruct (H7 c g (In_dget _ _ _ Hnd Hin)) as (Hc & _). exact Hc.
  - exact (grouping_preserves_root_pumping is_empty root d0 d1 Hw G Hsh).
  - exact (grouped_derivable_ungrouped is_empty root d0 d1 Hw G Hsh).
Qed.

End Obj.

Print Assumptions object_keys_pump_iff.
