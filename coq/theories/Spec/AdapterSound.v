(* C09 -> C01: fed with GOOD tables (tables that MEAN the true tables of the children, in any
   representation) the operator of srule_of returns a good table for the parent, and raises nothing.

   "Good" is the invariant the bottom-up evaluator maintains on its RAW tables (entry lists in the
   order the constructors produce them, keys possibly repeated):
       good l m t  :=  teq t (T l m)                    means the true table
                    /\ klen (npar l) t                  every key has one entry per statistic of the class
                    /\ (vpos l = true -> nonneg t)      (flagged classes) every ENTRY is a count >= 0
                    /\ (kpos l = true -> knonneg t)     (flagged classes) every key is a tuple of naturals
   The two flags record which classes are computed by constructors whose raw output has that shape:
   Complement's raw output contains the subtracted entries with negative values, so a class counted by
   a reverse union rule is not vpos; Complement/Quotient of another reverse rule need vpos (kpos) siblings
   — exactly as C09_complement / C09_quotient_params ask for tables of counts.

   The per-form CONTRACTS (rule_contract) are the hypotheses of the C09 theorems stated about the TRUE
   tables T: well-formed extra_parameters dictionaries (kid_wf, flip_ok), the minimum_size/is_atom
   contract (Vanish), and the genuineness identity of the constructor (union_genuine / product_genuine)
   — "the true tables satisfy the constructor's identity".  Everything else is proved. *)
From Coq Require Import ZArith List Bool Lia.
From CSS Require Import Spec.Eval Spec.CountRun.
From CSS Require Import Base.Sx Gen.Prelude Gen.Compositions Gen.QuotientParentShift
  Count.CompositionsSpec Count.Terms Count.Constructors Count.ConstructorsRun
  Count.ConstructorsUnionProduct Count.ConstructorsComplement Count.ConstructorsQuotient
  Count.ConstructorsDerived Count.ConstructorsDict Count.TermsPoly Count.TermsPolyOrder
  Count.ConstructorsConv Count.ConstructorsQuotientParams Count.ConstructorsSteps
  Count.ConstructorsStepsQuotient Spec.TermsCanon Spec.Adapter Spec.AdapterLocal.
Import ListNotations.
Open Scope Z_scope.

Notation remove_at := Count.Constructors.remove_at.

(* ---------------------------------------------------------------- tables up to meaning *)
Lemma teq_flat_map {A} (f g : A -> terms) l :
  (forall x, In x l -> teq (f x) (g x)) -> teq (flat_map f l) (flat_map g l).
Proof.
  intros H p. rewrite !tget_flat_map. apply zsum_ext. intros x Hx. apply (H x Hx).
Qed.

Lemma union_table_teq : forall fs tabs tabs',
  Forall2 teq tabs tabs' -> teq (union_table fs tabs) (union_table fs tabs').
Proof.
  induction fs as [|f fs IH]; intros tabs tabs' H.
  - unfold union_table. destruct tabs, tabs'; apply teq_refl.
  - inversion H as [|t t' r r' Ht Hr]; subst; [unfold union_table; simpl; apply teq_refl|].
    rewrite !union_table_cons. apply teq_app; [apply tget_rekey_ext; exact Ht|apply IH; exact Hr].
Qed.

Lemma union_table_keys (Pk : params -> Prop) : forall fs tabs,
  Forall2 (fun (f : params -> params) (t : terms) => forall k0 v, In (k0, v) t -> Pk (f k0)) fs tabs ->
  forall k v, In (k, v) (union_table fs tabs) -> Pk k.
Proof.
  intros fs tabs H. induction H as [|f t fs tabs Hf H IH]; intros k v Hin.
  - unfold union_table in Hin. simpl in Hin. contradiction.
  - rewrite union_table_cons in Hin. apply in_app_or in Hin. destruct Hin as [Hin|Hin]; [|apply (IH k v Hin)].
    unfold rekey in Hin. apply in_map_iff in Hin. destruct Hin as ([k0 v0] & E & Hin). simpl in E.
    inversion E; subst. apply (Hf k0 v Hin).
Qed.

Lemma tabs_at_Forall2 {B} (R : terms -> B -> Prop) : forall (tabs : list (Z -> terms)) (bs : list B) sizes,
  Forall2 (fun (tab : Z -> terms) b => forall m, R (tab m) b) tabs bs -> length sizes = length tabs ->
  Forall2 R (tabs_at tabs sizes) bs.
Proof.
  intros tabs bs sizes H. revert sizes. induction H as [|tab b tabs bs Hb H IH]; intros [|s sizes] Hl; simpl in Hl; try lia.
  - constructor.
  - rewrite tabs_at_cons. constructor; [apply Hb|apply IH; lia].
Qed.

Lemma tabs_at_teq : forall (tabs tabs' : list (Z -> terms)) sizes,
  Forall2 (fun (a b : Z -> terms) => forall m, teq (a m) (b m)) tabs tabs' ->
  Forall2 teq (tabs_at tabs sizes) (tabs_at tabs' sizes).
Proof.
  intros tabs tabs' sizes H. revert sizes. induction H as [|a b tabs tabs' Hab H IH]; intros [|s sizes];
    try (unfold tabs_at; simpl; constructor).
  - apply Hab.
  - apply IH.
Qed.

Lemma Forall2_length'' {A B} (R : A -> B -> Prop) l l' : Forall2 R l l' -> length l = length l'.
Proof. induction 1; simpl; lia. Qed.

(* pointwise-equivalent providers give equivalent product tables (same compositions) *)
Lemma product_table_teq fs mins maxs (tabs tabs' : list (Z -> terms)) n :
  length fs = length tabs ->
  Forall2 (fun (a b : Z -> terms) => forall m, teq (a m) (b m)) tabs tabs' ->
  zlen mins = zlen tabs -> zlen maxs = zlen tabs ->
  teq (product_table fs mins maxs tabs n) (product_table fs mins maxs tabs' n).
Proof.
  intros Lf H Lm LM. unfold product_table.
  replace (zlen tabs') with (zlen tabs) by (unfold zlen; rewrite (Forall2_length'' _ _ _ H); reflexivity).
  apply teq_flat_map. intros sizes Hs.
  apply compositions_sound in Hs; [|exact Lm|exact LM]. destruct Hs as (L & _).
  apply (ctab_teq fs (tabs_at tabs sizes) (tabs_at tabs' sizes)).
  - rewrite tabs_at_length; [exact Lf|]. unfold zlen in L. lia.
  - apply tabs_at_teq. exact H.
Qed.

Lemma product_table_keys (Pk : params -> Prop) fs mins maxs (tabs : list (Z -> terms)) n :
  zlen mins = zlen tabs -> zlen maxs = zlen tabs ->
  (forall sizes k v, length sizes = length tabs -> In (k, v) (ctab fs (tabs_at tabs sizes)) -> Pk k) ->
  forall k v, In (k, v) (product_table fs mins maxs tabs n) -> Pk k.
Proof.
  intros Lm LM H k v Hin. unfold product_table in Hin. apply in_flat_map in Hin. destruct Hin as (sizes & Hs & Hin).
  apply compositions_sound in Hs; [|exact Lm|exact LM]. destruct Hs as (L & _).
  apply (H sizes k v); [unfold zlen in L; lia|exact Hin].
Qed.

(* keys of the table of one composition: any property of the mapped child keys that zip_add preserves *)
Lemma ctab_keys_gen (Pk : params -> Prop) fs (tl : list terms) k v :
  (forall a b, Pk a -> Pk b -> Pk (zip_add a b)) ->
  length fs = length tl -> (1 <= length tl)%nat ->
  Forall2 (fun (f : params -> params) (t : terms) => forall k0 v0, In (k0, v0) t -> Pk (f k0)) fs tl ->
  In (k, v) (ctab fs tl) -> Pk k.
Proof.
  intros Hz Hl H1 HF Hin. unfold ctab in Hin. apply in_map_iff in Hin. destruct Hin as (c & E & Hc).
  unfold combo_entry in E. inversion E; subst. clear E.
  apply in_combos_Forall2 in Hc.
  assert (HP : Forall Pk (map2 (fun f k => f k) fs (map fst c))).
  { clear H1 Hl. revert c Hc. induction HF as [|f t fs tl Hft HF IH]; intros c Hc; inversion Hc; subst; simpl; constructor.
    - destruct x as [k0 v0]. apply (Hft k0 v0). assumption.
    - apply IH. assumption. }
  unfold new_param. destruct (map2 (fun f k => f k) fs (map fst c)) as [|x r] eqn:E.
  - exfalso. destruct fs, tl; simpl in *; try lia. inversion Hc; subst. simpl in E. discriminate.
  - inversion HP as [|? ? Hx Hr]; subst. clear -Hz Hx Hr. revert x Hx. induction Hr as [|y r Hy Hr IH]; intros x Hx; simpl; [exact Hx|].
    apply IH. apply Hz; assumption.
Qed.

Lemma zip_add_nonneg : forall a b, Forall (fun y => 0 <= y) a -> Forall (fun y => 0 <= y) b -> Forall (fun y => 0 <= y) (zip_add a b).
Proof.
  induction a as [|x a IH]; intros [|y b] Ha Hb; simpl; try constructor.
  - inversion Ha; inversion Hb; subst. lia.
  - inversion Ha; inversion Hb; subst. apply IH; assumption.
Qed.

Lemma Forall2_fs_tabs_at {F} (Q : F -> terms -> Prop) : forall (fs : list F) (tabs : list (Z -> terms)) sizes,
  Forall2 (fun f (tab : Z -> terms) => forall m, Q f (tab m)) fs tabs -> length sizes = length tabs ->
  Forall2 Q fs (tabs_at tabs sizes).
Proof.
  intros fs tabs sizes H. revert sizes. induction H as [|f tab fs tabs Hf H IH]; intros [|s sizes] Hl; simpl in Hl; try lia.
  - constructor.
  - rewrite tabs_at_cons. constructor; [apply Hf|apply IH; lia].
Qed.

(* ---------------------------------------------------------------- shapes of the outputs of the parameter maps *)
Lemma du_set_length acc p v l : du_set acc p v = Ok l -> exists l0, acc = Ok l0 /\ length l = length l0.
Proof.
  unfold du_set. destruct acc as [l0|e]; simpl; [|discriminate]. intros H. exists l0. split; [reflexivity|].
  destruct (nth p l0 None) as [w|].
  - destruct (w =? v); [inversion H; reflexivity|discriminate].
  - inversion H. apply upd_length.
Qed.

Lemma du_inner_length v : forall ps acc l,
  fold_left (fun a p => du_set a p v) ps acc = Ok l -> exists l0, acc = Ok l0 /\ length l = length l0.
Proof.
  induction ps as [|p ps IH]; intros acc l H; simpl in H.
  - exists l. split; [exact H|reflexivity].
  - destruct (IH _ _ H) as (l1 & E1 & L1). destruct (du_set_length _ _ _ _ E1) as (l0 & E0 & L0).
    exists l0. split; [exact E0|lia].
Qed.

Lemma du_outer_length : forall (pvs : list (list nat * Z)) acc l,
  fold_left (fun acc (pv : list nat * Z) => fold_left (fun acc2 p => du_set acc2 p (snd pv)) (fst pv) acc) pvs acc = Ok l ->
  exists l0, acc = Ok l0 /\ length l = length l0.
Proof.
  induction pvs as [|pv pvs IH]; intros acc l H; simpl in H.
  - exists l. split; [exact H|reflexivity].
  - destruct (IH _ _ H) as (l1 & E1 & L1). destruct (du_inner_length _ _ _ _ E1) as (l0 & E0 & L0).
    exists l0. split; [exact E0|lia].
Qed.

Lemma du_param_map_length pm num k k' : du_param_map pm num k = Ok k' -> length k' = num.
Proof.
  unfold du_param_map. destruct (fold_left _ (combine pm k) (Ok (repeat None num))) as [l|e] eqn:E; simpl; [|discriminate].
  intros H. inversion H. destruct (du_outer_length _ _ _ E) as (l0 & E0 & L0). inversion E0; subst l0.
  unfold unnone. rewrite map_length, L0. apply repeat_length.
Qed.

(* keys of what Complement.get_terms returns are outputs of the parent map *)
Lemma rekey_res_keys (Pk : params -> Prop) (pm : params -> res params) :
  (forall k k', pm k = Ok k' -> Pk k') -> forall t r, rekey_res pm t = Ok r -> forall k v, In (k, v) r -> Pk k.
Proof.
  intros Hpm. induction t as [|[k0 v0] t IH]; intros r H k v Hin; simpl in H.
  - inversion H; subst. contradiction.
  - destruct (pm k0) as [k0'|e] eqn:E0; simpl in H; [|discriminate].
    destruct (rekey_res pm t) as [r'|e] eqn:E1; simpl in H; [|discriminate]. inversion H; subst.
    destruct Hin as [Hin|Hin]; [inversion Hin; subst; apply (Hpm _ _ E0)|apply (IH r' eq_refl k v Hin)].
Qed.

Lemma acc_mapped_keys (Pk : params -> Prop) sgn (mp : params -> res params) :
  (forall k k', mp k = Ok k' -> Pk k') -> forall es acc r,
  (forall k v, In (k, v) acc -> Pk k) -> acc_mapped sgn mp acc es = Ok r -> forall k v, In (k, v) r -> Pk k.
Proof.
  intros Hmp. induction es as [|[k0 v0] es IH]; intros acc r Hacc H; simpl in H.
  - inversion H; subst. exact Hacc.
  - destruct (mp k0) as [k0'|e] eqn:E0; simpl in H; [|discriminate].
    match type of H with (if ?b then _ else _) = _ => destruct b; [|discriminate] end.
    assert (Hacc' : forall k v, In (k, v) ((k0', sgn * v0) :: acc) -> Pk k).
    { intros k v [E|Hin]; [inversion E; subst; apply (Hmp _ _ E0)|apply (Hacc k v Hin)]. }
    apply (IH _ _ Hacc' H).
Qed.

Lemma complement_subtract_keys (Pk : params -> Prop) (ppm : params -> res params) :
  (forall k k', ppm k = Ok k' -> Pk k') -> forall subs pms acc r,
  (forall k v, In (k, v) acc -> Pk k) -> complement_subtract ppm pms subs acc = Ok r -> forall k v, In (k, v) r -> Pk k.
Proof.
  intros Hp. induction subs as [|t ts IH]; intros pms acc r Hacc H.
  - destruct pms; simpl in H; inversion H; subst; exact Hacc.
  - destruct pms as [|pm pms]; simpl in H; [inversion H; subst; exact Hacc|].
    destruct (acc_mapped (-1) (fun k => bind (pm k) ppm) acc t) as [acc'|e] eqn:E; simpl in H; [|discriminate].
    apply (IH pms acc' r); [|exact H].
    apply (acc_mapped_keys Pk (-1) (fun k => bind (pm k) ppm)) with (es := t) (acc := acc); [|exact Hacc|exact E].
    intros k k' Hb. destruct (pm k) as [k1|e]; simpl in Hb; [|discriminate]. apply (Hp _ _ Hb).
Qed.

Lemma complement_get_terms_keys (Pk : params -> Prop) ppm pms sub0 subs r :
  (forall k k', ppm k = Ok k' -> Pk k') -> complement_get_terms ppm pms sub0 subs = Ok r ->
  forall k v, In (k, v) r -> Pk k.
Proof.
  intros Hp H. unfold complement_get_terms in H.
  destruct (rekey_res ppm _) as [acc|e] eqn:E; simpl in H; [|discriminate].
  apply (complement_subtract_keys Pk ppm Hp subs pms acc r); [|exact H].
  apply (rekey_res_keys Pk ppm Hp _ _ E).
Qed.

Lemma q_set_length acc p v l : q_set acc p v = Ok l -> exists l0, acc = Ok l0 /\ length l = length l0.
Proof.
  unfold q_set. destruct acc as [l0|e]; simpl; [|discriminate]. intros H. exists l0. split; [reflexivity|].
  destruct (nth p l0 None) as [w|].
  - destruct (w =? v); [inversion H; apply upd_length|discriminate].
  - inversion H. apply upd_length.
Qed.

Lemma q_inner_length v : forall ps acc l,
  fold_left (fun a p => q_set a p v) ps acc = Ok l -> exists l0, acc = Ok l0 /\ length l = length l0.
Proof.
  induction ps as [|p ps IH]; intros acc l H; simpl in H.
  - exists l. split; [exact H|reflexivity].
  - destruct (IH _ _ H) as (l1 & E1 & L1). destruct (q_set_length _ _ _ _ E1) as (l0 & E0 & L0).
    exists l0. split; [exact E0|lia].
Qed.

Lemma q_outer_length : forall (pvs : list (list nat * Z)) acc l,
  fold_left (fun acc (pv : list nat * Z) => fold_left (fun acc2 p => q_set acc2 p (snd pv)) (fst pv) acc) pvs acc = Ok l ->
  exists l0, acc = Ok l0 /\ length l = length l0.
Proof.
  induction pvs as [|pv pvs IH]; intros acc l H; simpl in H.
  - exists l. split; [exact H|reflexivity].
  - destruct (IH _ _ H) as (l1 & E1 & L1). destruct (q_inner_length _ _ _ _ E1) as (l0 & E0 & L0).
    exists l0. split; [exact E0|lia].
Qed.

Lemma q_param_map_length pm num k k' : q_param_map pm num k = Ok k' -> length k' = num.
Proof.
  unfold q_param_map. destruct (fold_left _ (combine pm k) (Ok (repeat None num))) as [l|e] eqn:E; simpl; [|discriminate].
  destruct (forallb _ l); [|discriminate].
  intros H. inversion H. destruct (q_outer_length _ _ _ E) as (l0 & E0 & L0). inversion E0; subst l0.
  unfold unnone. rewrite map_length, L0. apply repeat_length.
Qed.

(* keys of what Quotient.get_terms returns are outputs of the parent map *)
Lemma quotient_collect_keys (Pk : params -> Prop) (ppm : params -> res params) :
  (forall k k', ppm k = Ok k' -> Pk k') -> forall b acc r,
  (forall k v, In (k, v) acc -> Pk k) -> quotient_collect ppm b acc = Ok r -> forall k v, In (k, v) r -> Pk k.
Proof.
  intros Hp. induction b as [|[k0 v0] b IH]; intros acc r Hacc H; simpl in H.
  - inversion H; subst. exact Hacc.
  - destruct (ppm k0) as [k0'|e] eqn:E0; simpl in H; [|discriminate].
    destruct (existsb (fun e : entry => params_eqb (fst e) k0') acc).
    + destruct (tget acc k0' =? v0); [|discriminate]. apply (IH acc r Hacc H).
    + apply (IH ((k0', v0) :: acc) r); [|exact H].
      intros k v [E|Hin]; [inversion E; subst; apply (Hp _ _ E0)|apply (Hacc k v Hin)].
Qed.

Lemma quotient_get_terms_keys (Pk : params -> Prop) fs ppm num cs idx sub0 tabs n r :
  (forall k k', ppm k = Ok k' -> Pk k') ->
  quotient_get_terms fs ppm num cs idx sub0 tabs n = Ok r -> forall k v, In (k, v) r -> Pk k.
Proof.
  intros Hp H. unfold quotient_get_terms in H.
  destruct (n <? _); [inversion H; subst; intros k v []|].
  destruct (acc_entries (-1) _ _) as [a|e]; simpl in H; [|discriminate].
  match type of H with bind ?X _ = _ => destruct X as [c|e] end; simpl in H; [|discriminate].
  destruct (quotient_divide num a c) as [b|e]; simpl in H; [|discriminate].
  apply (quotient_collect_keys Pk ppm Hp b [] r); [intros k v []|exact H].
Qed.

Lemma replace_replace_at {A} i (x y : A) l : (i < length l)%nat -> replace_at i x (replace_at i y l) = replace_at i x l.
Proof.
  intros H. unfold replace_at.
  rewrite firstn_app, firstn_firstn, Nat.min_id, firstn_length, Nat.min_l, Nat.sub_diag by lia.
  simpl firstn. rewrite app_nil_r. f_equal. f_equal.
  replace (S i) with (length (firstn i l ++ [y]) + 0)%nat at 1 by (rewrite app_length, firstn_length, Nat.min_l; simpl; lia).
  rewrite app_assoc, skipn_app, skipn_all2, Nat.add_0_r by (rewrite app_length, firstn_length; simpl; lia).
  simpl. rewrite app_length, firstn_length, Nat.min_l by lia. simpl.
  replace (i + 1 - (i + 1))%nat with 0%nat by lia. reflexivity.
Qed.

Lemma Forall2_of_nth {A B} (R : A -> B -> Prop) da db : forall l l', length l = length l' ->
  (forall j, (j < length l)%nat -> R (nth j l da) (nth j l' db)) -> Forall2 R l l'.
Proof.
  induction l as [|x l IH]; intros [|y l'] Hl H; simpl in Hl; try discriminate; constructor.
  - apply (H 0%nat). simpl. lia.
  - apply IH; [lia|]. intros j Hj. apply (H (S j)). simpl. lia.
Qed.

Lemma hprod_teq : forall (tabs tabs' : list (Z -> terms)) t,
  Forall2 (fun (a b : Z -> terms) => forall m, teq (a m) (b m)) tabs tabs' -> hprod tabs t = hprod tabs' t.
Proof.
  intros tabs tabs' t H. revert t. induction H as [|a b tabs tabs' Hab H IH]; intros [|x t]; try reflexivity.
  rewrite !hprod_cons, (tsum_teq _ _ (Hab x)), IH. reflexivity.
Qed.

(* ---------------------------------------------------------------- good tables *)
Section Good.
Variable T : nat -> Z -> terms.
Variable npar : nat -> nat.
Variables vpos kpos : nat -> bool.

Definition good (l : nat) (m : Z) (t : terms) : Prop :=
  teq t (T l m) /\ klen (npar l) t /\ (vpos l = true -> nonneg t) /\ (kpos l = true -> knonneg t).

(* the true tables: counts of objects by statistics *)
Definition T_ok : Prop :=
  (forall l m, m < 0 -> T l m = []) /\
  (forall l m, klen (npar l) (T l m) /\ nonneg (T l m) /\ knonneg (T l m)).

Lemma good_T : T_ok -> forall l m, good l m (T l m).
Proof.
  intros [_ H] l m. destruct (H l m) as (H1 & H2 & H3). split; [apply teq_refl|]. split; [exact H1|]. split; auto.
Qed.

Definition goodp (G : nat -> Z -> terms) : Prop := forall l m, good l m (G l m).

End Good.

(* ================================================================ soundness of the steps *)
Section Sound.
Variable T : nat -> Z -> terms.
Variable npar : nat -> nat.
Variables vpos kpos : nat -> bool.
Hypothesis HT : T_ok T npar.

Notation good := (good T npar vpos kpos).
Notation goodp := (goodp T npar vpos kpos).

Lemma good_teq l m t : good l m t -> teq t (T l m). Proof. intros H. apply H. Qed.
Lemma good_klen l m t : good l m t -> klen (npar l) t. Proof. intros H. apply H. Qed.
Lemma good_nonneg l m t : good l m t -> vpos l = true -> nonneg t. Proof. intros H. apply H. Qed.
Lemma good_knonneg l m t : good l m t -> kpos l = true -> knonneg t. Proof. intros H. apply H. Qed.

(* ---------------------------------------------------------------- union-like constructors *)
(* DisjointUnion.get_terms over the maps built from the dictionaries of `kids`, the children being the
   classes `labs`; used for forms 0 (all children), 4 (the one non-empty child) and 6 (the last class of
   a path through the composed dictionary) *)
Lemma union_core pn (kids : list kid) (labs : list nat) (G : nat -> Z -> terms) c n :
  goodp G -> npar c = length pn ->
  Forall (kid_wf pn) kids -> Forall2 (fun k l => npar l = length (k_names k)) kids labs ->
  union_genuine (map (kid_sem pn) kids) (map (fun l => T l n) labs) (T c n) ->
  (vpos c = true -> Forall (fun l => vpos l = true) labs) ->
  (kpos c = true -> Forall (fun l => kpos l = true) labs) ->
  exists r, union_get_terms (map (kid_du pn) kids) (map (fun l => G l n) labs) = Ok r /\ good c n r.
Proof.
  intros HG Hc Hwf Hn Hgen Hv Hk.
  set (tabs := map (fun l => G l n) labs).
  assert (Hkeys : Forall2 kid_keys kids tabs).
  { unfold tabs. clear -Hn HG. induction Hn as [|k l kids labs Hkl _ IH]; simpl; constructor; [|exact IH].
    unfold kid_keys. rewrite <- Hkl. apply (good_klen l n). apply HG. }
  exists (union_table (map (kid_sem pn) kids) tabs). split.
  - apply union_get_terms_ok. apply MapsOk_kids; assumption.
  - split; [|split; [|split]].
    + eapply teq_trans; [|apply teq_sym; exact Hgen]. apply union_table_teq.
      unfold tabs. clear -HG. induction labs as [|l labs IH]; simpl; constructor; [|exact IH].
      apply (good_teq l n). apply HG.
    + intros k v Hin. revert k v Hin. apply union_table_keys.
      clear -Hn Hc. unfold tabs. induction Hn as [|k l kids labs _ _ IH]; simpl; constructor; [|exact IH].
      intros k0 v _. rewrite Hc. apply kid_sem_length.
    + intros Hvc. apply nonneg_union_table. specialize (Hv Hvc). unfold tabs. clear -Hv HG.
      induction Hv as [|l labs Hl _ IH]; simpl; constructor; [|exact IH]. apply (good_nonneg l n); [apply HG|exact Hl].
    + intros Hkc. specialize (Hk Hkc). intros k v Hin. revert k v Hin. apply union_table_keys.
      unfold tabs. clear -Hn Hk HG. revert Hk. induction Hn as [|k l kids labs _ _ IH]; intros Hk; simpl; constructor.
      * inversion Hk; subst. intros k0 v Hin. apply kid_sem_nonneg. apply (good_knonneg l n _ (HG l n)) with (v := v); assumption.
      * inversion Hk; subst. apply IH. assumption.
Qed.

(* ---------------------------------------------------------------- product *)
Lemma product_core pn (kids : list kid) (labs : list nat) (G : nat -> Z -> terms) c n :
  goodp G -> npar c = length pn -> (1 <= length kids)%nat ->
  Forall (kid_wf pn) kids -> Forall2 (fun k l => npar l = length (k_names k)) kids labs ->
  Forall (fun m => 0 <= m) (kid_mins kids) ->
  Vanish (map T labs) (kid_mins kids) (kid_maxs kids) ->
  product_genuine (map (kid_sem pn) kids) (map T labs) (T c n) n ->
  (vpos c = true -> Forall (fun l => vpos l = true) labs) ->
  (kpos c = true -> Forall (fun l => kpos l = true) labs) ->
  good c n (product_table (map (kid_sum pn) kids) (kid_mins kids) (kid_maxs kids) (map G labs) n).
Proof.
  intros HG Hc H1 Hwf Hn Hmins Hvan Hgen Hv Hk.
  set (tabs := map G labs).
  assert (Ll : length labs = length kids) by (symmetry; apply (Forall2_length'' _ _ _ Hn)).
  assert (Lt : length tabs = length kids) by (unfold tabs; rewrite map_length; exact Ll).
  assert (Hkeys : Forall2 (fun k (tab : Z -> terms) => forall m, kid_keys k (tab m)) kids tabs).
  { unfold tabs. clear -Hn HG. induction Hn as [|k l kids labs Hkl _ IH]; simpl; constructor; [|exact IH].
    intros m. unfold kid_keys. rewrite <- Hkl. apply (good_klen l m). apply HG. }
  assert (Lmin : zlen (kid_mins kids) = zlen tabs) by (unfold zlen, kid_mins; rewrite map_length, Lt; reflexivity).
  assert (Lmax : zlen (kid_maxs kids) = zlen tabs) by (unfold zlen, kid_maxs; rewrite map_length, Lt; reflexivity).
  rewrite (product_table_agree (map (kid_sum pn) kids) (map (kid_sem pn) kids));
    [|apply kids_agree; assumption|rewrite map_length; lia|rewrite map_length; lia|exact Lmin|exact Lmax].
  assert (Ltl : forall sizes, length sizes = length tabs -> length (tabs_at tabs sizes) = length kids).
  { intros sizes Ls. rewrite tabs_at_length; lia. }
  split; [|split; [|split]].
  - eapply teq_trans.
    + apply (product_table_teq _ _ _ tabs (map T labs)); [rewrite map_length; lia| |exact Lmin|exact Lmax].
      unfold tabs. clear -HG. induction labs as [|l labs IH]; simpl; constructor; [|exact IH].
      intros m. apply (good_teq l m). apply HG.
    + apply product_correct; [unfold zlen; rewrite map_length; lia|exact Hmins|exact Hvan|exact Hgen].
  - intros k v Hin. revert k v Hin. apply product_table_keys; [exact Lmin|exact Lmax|].
    intros sizes k v Ls Hin.
    apply (ctab_keys_gen (fun k => length k = npar c) (map (kid_sem pn) kids) (tabs_at tabs sizes) k v); [| | | |exact Hin].
    + intros a b Ha Hb. rewrite zip_add_length; lia.
    + rewrite map_length, Ltl; [reflexivity|exact Ls].
    + rewrite Ltl; [exact H1|exact Ls].
    + apply Forall2_fs_tabs_at; [|exact Ls]. clear -Hkeys Hc.
      induction Hkeys as [|k0 tab kids tabs _ _ IH]; simpl; constructor; [|exact IH].
      intros m key v0 _. rewrite Hc. apply kid_sem_length.
  - intros Hvc. apply product_table_nonneg. specialize (Hv Hvc). unfold tabs. clear -Hv HG.
    induction Hv as [|l labs Hl _ IH]; simpl; constructor; [|exact IH].
    intros m. apply (good_nonneg l m); [apply HG|exact Hl].
  - intros Hkc. specialize (Hk Hkc). intros k v Hin. revert k v Hin.
    apply product_table_keys; [exact Lmin|exact Lmax|].
    intros sizes k v Ls Hin.
    apply (ctab_keys_gen (fun k => Forall (fun y => 0 <= y) k) (map (kid_sem pn) kids) (tabs_at tabs sizes) k v); [| | | |exact Hin].
    + apply zip_add_nonneg.
    + rewrite map_length, Ltl; [reflexivity|exact Ls].
    + rewrite Ltl; [exact H1|exact Ls].
    + apply Forall2_fs_tabs_at; [|exact Ls]. unfold tabs. clear -Hn Hk HG.
      revert Hk. induction Hn as [|k0 l kids labs _ _ IH]; intros Hk; simpl; constructor.
      * inversion Hk; subst. intros m key v0 Hin. apply kid_sem_nonneg.
        apply (good_knonneg l m _ (HG l m)) with (v := v0); assumption.
      * inversion Hk; subst. apply IH. assumption.
Qed.

(* ---------------------------------------------------------------- complement (form 2) *)
Lemma nth_map_default {A B} (f : A -> B) (l : list A) i da db : (i < length l)%nat -> nth i (map f l) db = f (nth i l da).
Proof. intros H. rewrite (nth_indep _ db (f da)) by (rewrite map_length; exact H). apply map_nth. Qed.

Lemma flip_parent_map pn (ki : kid) : NoDup pn -> flip_ok pn ki ->
  parent_pos_map pn (k_names ki) (k_dict ki) = Ok (parent_pm pn (k_names ki) (k_dict ki)) /\
  forall key, length key = length pn ->
    du_param_map (parent_pm pn (k_names ki) (k_dict ki)) (length (k_names ki)) key = Ok (flip_sem pn ki key).
Proof.
  intros Hpn ((_ & Hcn & Hkeys & Hsub) & Hinj & Hvals & Hcov).
  assert (E := parent_pos_map_ok pn (k_names ki) (k_dict ki) Hvals Hcn). split; [exact E|].
  intros key Hkey.
  destruct (complement_parent_map_sem pn (k_names ki) (k_dict ki) key Hpn Hcn Hkeys Hinj Hvals Hkey) as (pm & E1 & E2).
  rewrite E in E1. inversion E1; subst pm. exact E2.
Qed.

Lemma complement_sound pn (kids : list kid) (labs : list nat) idx (G : nat -> Z -> terms) c op own n :
  goodp G -> (idx < length kids)%nat -> nth idx labs O = c ->
  npar op = length pn -> NoDup pn ->
  Forall (kid_wf pn) kids -> Forall2 (fun k l => npar l = length (k_names k)) kids labs ->
  flip_ok pn (nth idx kids default_kid) ->
  union_genuine (map (kid_sem pn) kids) (map (fun l => T l n) labs) (T op n) ->
  (forall j, j <> idx -> (j < length labs)%nat -> vpos (nth j labs O) = true) ->
  vpos c = false -> kpos c = false ->
  exists r, complement_stepF pn kids idx (G op) (map G labs) own n = Ok r /\ good c n r.
Proof.
  intros HG Hi Hlab Hop Hpn Hwf Hn Hflip Hgen Hsibs Hvc Hkc.
  set (ki := nth idx kids default_kid) in *.
  assert (Ll : length labs = length kids) by (symmetry; apply (Forall2_length'' _ _ _ Hn)).
  assert (Hci : npar c = length (k_names ki)).
  { rewrite <- Hlab. apply (Forall2_nth (fun k l => npar l = length (k_names k)) default_kid O idx kids labs Hn Hi). }
  destruct (flip_parent_map pn ki Hpn Hflip) as [Epm Hppm].
  destruct Hflip as (Hwfi & Hinj & Hvals & Hcov). destruct Hwfi as (_ & Hcn & Hkeys & Hsub).
  unfold complement_stepF. change (mkKid [] [] 0 false false) with default_kid. fold ki.
  rewrite (mapM_du_maps pn (remove_at idx kids)) by (apply Forall_remove_at; exact Hwf). cbn [bind].
  unfold du_map_of. rewrite Epm. cbn [bind].
  set (ppm := du_param_map (parent_pm pn (k_names ki) (k_dict ki)) (length (k_names ki))) in *.
  rewrite <- ConstructorsQuotient.map_remove_at. rewrite map_map.
  set (sibs := remove_at idx labs).
  destruct (complement_correct ppm (flip_sem pn ki) (map (kid_du pn) (remove_at idx kids))
              (map (kid_sem pn) (remove_at idx kids)) (kid_sem pn ki) (G op n) (T c n)
              (map (fun l => G l n) sibs)) as (r & Hr & Hteq).
  - eapply teq_trans; [apply (good_teq op n); apply HG|].
    eapply teq_trans; [exact Hgen|].
    eapply teq_trans; [apply (union_table_remove_at idx); [rewrite map_length; lia|rewrite !map_length; lia]|].
    rewrite (nth_map_default (kid_sem pn) kids idx default_kid) by exact Hi.
    rewrite (nth_map_default (fun l => T l n) labs idx O) by lia. rewrite Hlab. fold ki.
    apply teq_app; [apply teq_refl|].
    rewrite <- !ConstructorsQuotient.map_remove_at. apply union_table_teq. fold sibs.
    clear -HG. induction sibs as [|l sibs IH]; simpl; constructor; [|exact IH].
    apply teq_sym. apply (good_teq l n). apply HG.
  - destruct HT as [_ H]. apply (H c n).
  - unfold sibs. apply Forall_forall. intros t Ht. apply in_map_iff in Ht. destruct Ht as (l & <- & Hl).
    apply (In_nth _ _ O) in Hl. destruct Hl as (j & Hj & <-).
    rewrite length_remove_at' in Hj by lia. rewrite nth_remove_at'.
    destruct (j <? idx)%nat eqn:E.
    + apply Nat.ltb_lt in E. apply (good_nonneg (nth j labs O) n _ (HG _ n)). apply Hsibs; lia.
    + apply Nat.ltb_ge in E. apply (good_nonneg (nth (S j) labs O) n _ (HG _ n)). apply Hsibs; lia.
  - intros key v Hin. apply Hppm. apply filter_In in Hin. destruct Hin as [Hin _].
    rewrite <- Hop. apply (good_klen op n _ (HG op n) key v Hin).
  - apply CMapsOk_kids; [apply Forall_remove_at; exact Hwf| |exact Hppm].
    unfold sibs. apply (Forall2_remove_at _ idx) in Hn. revert Hn. generalize (remove_at idx kids) (remove_at idx labs).
    clear -HG. intros ks ls H. induction H as [|k l ks ls Hkl _ IH]; simpl; constructor; [|exact IH].
    unfold kid_keys. rewrite <- Hkl. apply (good_klen l n). apply HG.
  - intros key v Hin. unfold flip_sem, kid_sem. apply dict_round_trip; try assumption.
    rewrite <- Hci. destruct HT as [_ H]. apply (proj1 (H c n) key v Hin).
  - exists r. split; [exact Hr|]. split; [exact Hteq|]. split; [|split; [rewrite Hvc; discriminate|rewrite Hkc; discriminate]].
    rewrite Hci. intros k v Hin.
    exact (complement_get_terms_keys (fun k => length k = length (k_names ki)) _ _ _ _ _ (fun k k' => du_param_map_length _ _ k k') Hr k v Hin).
Qed.

(* ---------------------------------------------------------------- equivalence rule of a reverse union rule (form 5) *)
Lemma equiv_complement_sound pn (kids : list kid) idx (G : nat -> Z -> terms) c op own n :
  goodp G -> first_nonempty kids = Some idx ->
  npar op = length pn -> npar c = length (k_names (nth idx kids default_kid)) -> NoDup pn ->
  flip_ok pn (nth idx kids default_kid) ->
  union_genuine [kid_sem pn (nth idx kids default_kid)] [T c n] (T op n) ->
  vpos c = false -> kpos c = false ->
  exists r, equiv_complement_stepF pn kids idx (G op) own n = Ok r /\ good c n r.
Proof.
  intros HG Hf Hop Hci Hpn Hflip Hgen Hvc Hkc.
  set (ki := nth idx kids default_kid) in *.
  destruct (flip_parent_map pn ki Hpn Hflip) as [Epm Hppm].
  destruct Hflip as (Hwfi & Hinj & Hvals & Hcov). destruct Hwfi as (_ & Hcn & Hkeys & Hsub).
  unfold equiv_complement_stepF. rewrite Hf. fold ki. unfold du_map_of. rewrite Epm. cbn [bind].
  destruct (equiv_complement_correct (du_param_map (parent_pm pn (k_names ki) (k_dict ki)) (length (k_names ki)))
              (flip_sem pn ki) (kid_sem pn ki) (G op n) (T c n)) as (r & Hr & Hteq).
  - eapply teq_trans; [apply (good_teq op n); apply HG|exact Hgen].
  - destruct HT as [_ H]. apply (H c n).
  - intros key v Hin. apply Hppm. apply filter_In in Hin. destruct Hin as [Hin _].
    rewrite <- Hop. apply (good_klen op n _ (HG op n) key v Hin).
  - intros key v Hin. unfold flip_sem, kid_sem. apply dict_round_trip; try assumption.
    rewrite <- Hci. destruct HT as [_ H]. apply (proj1 (H c n) key v Hin).
  - exists r. split; [exact Hr|]. split; [exact Hteq|]. split; [|split; [rewrite Hvc; discriminate|rewrite Hkc; discriminate]].
    rewrite Hci. intros k v Hin.
    exact (complement_get_terms_keys (fun k => length k = length (k_names ki)) _ _ _ _ _ (fun k k' => du_param_map_length _ _ k k') Hr k v Hin).
Qed.

(* ---------------------------------------------------------------- quotient (form 3) *)
(* a provider that is good in every respect (the true table itself, or the table of a class flagged
   vpos and kpos) *)
Definition full (l : nat) (g : Z -> terms) : Prop :=
  forall m, teq (g m) (T l m) /\ klen (npar l) (g m) /\ nonneg (g m) /\ knonneg (g m).

Lemma full_T l : full l (T l).
Proof. intros m. destruct HT as [_ H]. destruct (H l m) as (H1 & H2 & H3). split; [apply teq_refl|]. auto. Qed.

Lemma full_good (G : nat -> Z -> terms) l : goodp G -> vpos l = true -> kpos l = true -> full l (G l).
Proof.
  intros HG Hv Hk m. destruct (HG l m) as (H1 & H2 & H3 & H4). split; [exact H1|]. split; [exact H2|]. split; auto.
Qed.

(* the original children's providers with the true table of the class being counted at position idx *)
Lemma full_providers (G : nat -> Z -> terms) (labs : list nat) idx c :
  goodp G -> (idx < length labs)%nat -> nth idx labs O = c ->
  (forall j, j <> idx -> (j < length labs)%nat -> vpos (nth j labs O) = true /\ kpos (nth j labs O) = true) ->
  Forall2 full labs (replace_at idx (T c) (map G labs)).
Proof.
  intros HG Hi Hc Hs. apply (Forall2_of_nth full O noprov).
  - rewrite replace_at_length, map_length by (rewrite map_length; exact Hi). reflexivity.
  - intros j Hj. rewrite nth_replace_at' by (rewrite map_length; exact Hi).
    destruct (j =? idx)%nat eqn:E.
    + apply Nat.eqb_eq in E. subst j. rewrite Hc. apply full_T.
    + apply Nat.eqb_neq in E. rewrite (nth_map_default G labs j O) by exact Hj.
      destruct (Hs j E Hj) as [Hv Hk]. apply full_good; assumption.
Qed.

Lemma Vanish_full : forall (labs : list nat) (gs : list (Z -> terms)) mins maxs,
  Forall2 full labs gs -> Vanish (map T labs) mins maxs -> Vanish gs mins maxs.
Proof.
  intros labs gs mins maxs H. revert mins maxs. induction H as [|l g labs gs Hg H IH]; intros mins maxs HV; simpl in HV.
  - inversion HV; subst. constructor.
  - inversion HV as [|tab lo hi tabs mins' maxs' Hz HV']; subst. constructor; [|apply IH; exact HV'].
    intros m Hm. destruct (Hg m) as (H1 & _ & H3 & _). apply (teq_allzero _ _ H1 H3). apply Hz. exact Hm.
Qed.

Lemma full_teq : forall labs gs, Forall2 full labs gs ->
  Forall2 (fun (a b : Z -> terms) => forall m, teq (a m) (b m)) gs (map T labs).
Proof. intros labs gs H. induction H as [|l g labs gs Hg _ IH]; simpl; constructor; [intros m; apply (Hg m)|exact IH]. Qed.

Lemma full_kid_keys : forall (kids : list kid) (labs : list nat) (gs : list (Z -> terms)),
  Forall2 (fun k l => npar l = length (k_names k)) kids labs -> Forall2 full labs gs ->
  Forall2 (fun k (tab : Z -> terms) => forall m, kid_keys k (tab m)) kids gs.
Proof.
  intros kids labs gs Hn. revert gs. induction Hn as [|k l kids labs Hkl _ IH]; intros gs Hf;
    inversion Hf as [|l0 g0 ls gs0 Hg Hrest]; subst; constructor.
  - intros m. unfold kid_keys. rewrite <- Hkl. apply (Hg m).
  - apply IH. exact Hrest.
Qed.

Lemma full_knn pn : forall (kids : list kid) (labs : list nat) (gs : list (Z -> terms)),
  Forall (kid_wf pn) kids -> Forall2 (fun k l => npar l = length (k_names k)) kids labs -> Forall2 full labs gs ->
  Forall2 (fun (f : params -> params) (tab : Z -> terms) =>
             forall m k v, In (k, v) (tab m) -> Forall (fun y => 0 <= y) (f k)) (map (kid_sum pn) kids) gs.
Proof.
  intros kids labs gs Hwf Hn. revert gs. induction Hn as [|k l kids labs Hkl _ IH]; intros gs Hf;
    inversion Hf as [|l0 g0 ls gs0 Hg Hrest]; subst; simpl; constructor.
  - inversion Hwf; subst. intros m key v Hin. destruct (Hg m) as (_ & Hk & _ & Hkn).
    rewrite kid_sum_sem; [|assumption|rewrite <- Hkl; apply (Hk key v Hin)].
    apply kid_sem_nonneg. apply (Hkn key v Hin).
  - inversion Hwf; subst. apply IH; assumption.
Qed.

Lemma zlen_zeros k : 0 <= k -> zlen (zeros k) = k. Proof. apply zlen_repeat. Qed.
Lemma zlen_nones k : 0 <= k -> zlen (nones k) = k. Proof. apply zlen_repeat. Qed.

(* the common part of the two quotient cases: what the C09 level lemmas need about the actual providers *)
Lemma quotient_common pn (kids : list kid) (labs : list nat) idx (G : nat -> Z -> terms) c op :
  goodp G -> (idx < length kids)%nat -> nth idx labs O = c -> npar op = length pn ->
  Forall (kid_wf pn) kids -> Forall2 (fun k l => npar l = length (k_names k)) kids labs ->
  Forall (fun m => 0 <= m) (kid_mins kids) ->
  Vanish (map T labs) (kid_mins kids) (kid_maxs kids) ->
  (forall m, 0 <= m -> product_genuine (map (kid_sem pn) kids) (map T labs) (T op m) m) ->
  hprod (remove_at idx (map T labs)) (remove_at idx (kid_mins kids)) <> 0 ->
  (forall j, j <> idx -> (j < length labs)%nat -> vpos (nth j labs O) = true /\ kpos (nth j labs O) = true) ->
  let gs := replace_at idx (T c) (map G labs) in
  let cs := kid_descs kids in
  length gs = length cs /\
  Forall2 full labs gs /\
  Forall (fun m => 0 <= m) (quotient_min_sizes cs) /\
  Vanish gs (quotient_min_sizes cs) (quotient_max_sizes cs) /\
  Forall (fun tab : Z -> terms => forall m, nonneg (tab m)) gs /\
  Forall2 (fun (f : params -> params) (tab : Z -> terms) =>
             forall m k v, In (k, v) (tab m) -> Forall (fun y => 0 <= y) (f k)) (map (kid_sum pn) kids) gs /\
  (forall m, 0 <= m -> product_genuine (map (kid_sum pn) kids) gs (G op m) m) /\
  hprod (remove_at idx gs) (remove_at idx (quotient_min_sizes cs)) <> 0 /\
  nth idx gs noprov = T c.
Proof.
  intros HG Hi Hc Hop Hwf Hn Hmins Hvan Hgen Hsib Hsibs gs cs.
  assert (Ll : length labs = length kids) by (symmetry; apply (Forall2_length'' _ _ _ Hn)).
  assert (Lg : length gs = length kids) by (unfold gs; rewrite replace_at_length, map_length by (rewrite map_length; lia); exact Ll).
  assert (Hfull : Forall2 full labs gs) by (apply full_providers; try assumption; lia).
  assert (Hkeys : Forall2 (fun k (tab : Z -> terms) => forall m, kid_keys k (tab m)) kids gs)
    by (apply (full_kid_keys kids labs); assumption).
  split; [unfold cs; rewrite kid_descs_length; exact Lg|]. split; [exact Hfull|].
  unfold cs. rewrite quotient_mins_kids, quotient_maxs_kids.
  split; [exact Hmins|]. split; [apply (Vanish_full labs); assumption|].
  split; [clear -Hfull; induction Hfull as [|l g labs gs Hg _ IH]; constructor; [intros m; apply (Hg m)|exact IH]|].
  split.
  { apply (full_knn pn kids labs); assumption. }
  split.
  { intros m Hm. unfold product_genuine.
    assert (Zg : zlen gs = zlen (map T labs)) by (unfold zlen; rewrite Lg, map_length, Ll; reflexivity).
    rewrite (product_table_agree (map (kid_sum pn) kids) (map (kid_sem pn) kids));
      [|apply kids_agree; assumption|rewrite map_length; lia|rewrite map_length; lia
       |apply zlen_zeros; unfold zlen; lia|apply zlen_nones; unfold zlen; lia].
    eapply teq_trans; [apply (good_teq op m); apply HG|].
    eapply teq_trans; [apply (Hgen m Hm)|]. rewrite <- Zg. apply teq_sym.
    apply product_table_teq; [rewrite map_length; lia|apply full_teq; exact Hfull
                             |apply zlen_zeros; unfold zlen; lia|apply zlen_nones; unfold zlen; lia]. }
  split.
  { rewrite (hprod_teq (remove_at idx gs) (remove_at idx (map T labs))); [exact Hsib|].
    apply Forall2_remove_at. apply full_teq. exact Hfull. }
  unfold gs. apply nth_replace_at. rewrite map_length. lia.
Qed.

(* Quotient with parameters: Count/ConstructorsQuotientParams.quotient_level_p (C09_quotient_params) *)
Lemma quotient_sound_params pn (kids : list kid) (labs : list nat) idx (G : nat -> Z -> terms) c op own n :
  goodp G -> (forall m, good c m (own m)) ->
  (idx < length kids)%nat -> (2 <= length kids)%nat -> nth idx labs O = c -> npar op = length pn ->
  (1 <= length pn)%nat ->
  Forall (kid_wf pn) kids -> Forall2 (fun k l => npar l = length (k_names k)) kids labs ->
  (forall a b, In (a, b) (k_dict (nth idx kids default_kid)) -> In b (k_names (nth idx kids default_kid))) ->
  (forall cv, In cv (k_names (nth idx kids default_kid)) -> In cv (map snd (k_dict (nth idx kids default_kid)))) ->
  Forall (fun m => 0 <= m) (kid_mins kids) ->
  Vanish (map T labs) (kid_mins kids) (kid_maxs kids) ->
  (forall m, 0 <= m -> product_genuine (map (kid_sem pn) kids) (map T labs) (T op m) m) ->
  hprod (remove_at idx (map T labs)) (remove_at idx (kid_mins kids)) <> 0 ->
  (forall j, j <> idx -> (j < length labs)%nat -> vpos (nth j labs O) = true /\ kpos (nth j labs O) = true) ->
  vpos c = true -> kpos c = false -> 0 <= n ->
  exists r, quotient_stepF pn kids idx (G op) (map G labs) own n = Ok r /\ good c n r.
Proof.
  intros HG Hown Hi H2 Hc Hop Hnum Hwf Hn Hvals Hcov Hmins Hvan Hgen Hsib Hsibs Hvc Hkc Hn0.
  set (ki := nth idx kids default_kid) in *.
  destruct (quotient_common pn kids labs idx G c op HG Hi Hc Hop Hwf Hn Hmins Hvan Hgen Hsib Hsibs)
    as (Lg & Hfull & Hm & Hv & Hnn & Hknn & Hgen' & Hsib' & Eidx).
  set (gs := replace_at idx (T c) (map G labs)) in *. set (cs := kid_descs kids) in *.
  assert (Ll : length labs = length kids) by (symmetry; apply (Forall2_length'' _ _ _ Hn)).
  assert (Hwfi : kid_wf pn ki) by (rewrite Forall_forall in Hwf; apply Hwf; apply nth_In; exact Hi).
  assert (Hcn : NoDup (k_names ki)) by (destruct Hwfi as (_ & H & _); exact H).
  assert (Hci : npar c = length (k_names ki)).
  { rewrite <- Hc. apply (Forall2_nth (fun k l => npar l = length (k_names k)) default_kid O idx kids labs Hn Hi). }
  assert (Lcs : length cs = length kids) by apply kid_descs_length.
  unfold quotient_stepF. change (mkKid [] [] 0 false false) with default_kid. fold ki.
  rewrite (mapM_sum_maps pn kids Hwf). cbn [bind].
  rewrite (parent_pos_map_ok pn (k_names ki) (k_dict ki) Hvals Hcn). cbn [bind].
  rewrite <- (replace_replace_at idx own (T c) (map G labs)) by (rewrite map_length; lia). fold gs. fold cs.
  destruct (quotient_level_p (map (kid_sum pn) kids) (quot_ppm pn ki) (length pn) cs idx (G op) gs n) with (own := own) (n := n)
    as (r & Hr & Hnnr & Hteq).
  - lia.
  - lia.
  - exact Lg.
  - rewrite map_length. lia.
  - exact Hnum.
  - apply Forall_forall. intros f Hf. apply in_map_iff in Hf. destruct Hf as (k & <- & _). intros key. apply sum_param_map_length.
  - exact Hm.
  - exact Hv.
  - exact Hnn.
  - exact Hknn.
  - intros m Hmm. apply Hgen'. lia.
  - exact Hsib'.
  - intros m key v Hin. change (fun _ : Z => @nil entry) with noprov in Hin. rewrite Eidx in Hin.
    rewrite (nth_map_default (kid_sum pn) kids idx default_kid) by exact Hi. fold ki.
    assert (Hkey : length key = length (k_names ki)).
    { rewrite <- Hci. destruct HT as [_ H]. apply (proj1 (H c m) key v Hin). }
    rewrite kid_sum_sem by assumption. unfold quot_ppm, kid_sem. apply quotient_parent_map_round_trip; assumption.
  - lia.
  - intros m. apply (good_nonneg c m _ (Hown m) Hvc).
  - intros m Hmm. change (fun _ : Z => @nil entry) with noprov. rewrite Eidx. apply (good_teq c m). apply Hown.
  - change (fun _ : Z => @nil entry) with noprov in Hteq. rewrite Eidx in Hteq.
    exists r. split; [exact Hr|]. split; [exact Hteq|]. split; [|split; [intros _; exact Hnnr|rewrite Hkc; discriminate]].
    rewrite Hci. intros k v Hin.
    exact (quotient_get_terms_keys (fun k => length k = length (k_names ki)) _ _ _ _ _ _ _ _ _
             (fun k k' => q_param_map_length _ _ k k') Hr k v Hin).
Qed.

(* Quotient without parameters: Count/ConstructorsQuotient.quotient_level (C09_quotient_parameter_free) *)
Lemma klen0_nokeys t : klen 0 t <-> nokeys t.
Proof.
  split; intros H k v Hin.
  - specialize (H k v Hin). destruct k; [reflexivity|discriminate].
  - rewrite (H k v Hin). reflexivity.
Qed.

Lemma nokeys_teq a b : nokeys a -> nokeys b -> tsum a = tsum b -> teq a b.
Proof.
  intros Ha Hb E p. destruct p as [|x p].
  - rewrite !tget_nokeys by assumption. exact E.
  - rewrite !tget_nokeys_other by (try assumption; discriminate). reflexivity.
Qed.

Lemma quotient_sound_nopar (kids : list kid) (labs : list nat) idx (G : nat -> Z -> terms) c op own n :
  goodp G -> (forall m, good c m (own m)) ->
  (idx < length kids)%nat -> (2 <= length kids)%nat -> nth idx labs O = c -> npar op = 0%nat ->
  Forall (fun k => k_names k = [] /\ k_dict k = []) kids ->
  Forall2 (fun k l => npar l = length (k_names k)) kids labs ->
  Forall (fun m => 0 <= m) (kid_mins kids) ->
  Vanish (map T labs) (kid_mins kids) (kid_maxs kids) ->
  (forall m, 0 <= m -> product_genuine (map (kid_sem []) kids) (map T labs) (T op m) m) ->
  hprod (remove_at idx (map T labs)) (remove_at idx (kid_mins kids)) <> 0 ->
  (forall j, j <> idx -> (j < length labs)%nat -> vpos (nth j labs O) = true /\ kpos (nth j labs O) = true) ->
  vpos c = true -> kpos c = false -> 0 <= n ->
  exists r, quotient_stepF [] kids idx (G op) (map G labs) own n = Ok r /\ good c n r.
Proof.
  intros HG Hown Hi H2 Hc Hop Hnop Hn Hmins Hvan Hgen Hsib Hsibs Hvc Hkc Hn0.
  set (ki := nth idx kids default_kid) in *.
  assert (Hwf : Forall (kid_wf []) kids).
  { apply Forall_forall. intros k Hk. rewrite Forall_forall in Hnop. destruct (Hnop k Hk) as [E1 E2].
    unfold kid_wf, wf_dict. rewrite E1, E2. repeat split; try constructor. intros a b []. }
  destruct (quotient_common [] kids labs idx G c op HG Hi Hc Hop Hwf Hn Hmins Hvan Hgen Hsib Hsibs)
    as (Lg & Hfull & Hm & Hv & Hnn & _ & Hgen' & Hsib' & Eidx).
  set (gs := replace_at idx (T c) (map G labs)) in *. set (cs := kid_descs kids) in *.
  assert (Ll : length labs = length kids) by (symmetry; apply (Forall2_length'' _ _ _ Hn)).
  assert (Hki : k_names ki = [] /\ k_dict ki = []) by (rewrite Forall_forall in Hnop; apply Hnop; apply nth_In; exact Hi).
  destruct Hki as [En Ed].
  assert (Hci : npar c = 0%nat).
  { rewrite <- Hc. rewrite (Forall2_nth (fun k l => npar l = length (k_names k)) default_kid O idx kids labs Hn Hi).
    fold ki. rewrite En. reflexivity. }
  assert (Lcs : length cs = length kids) by apply kid_descs_length.
  unfold quotient_stepF. change (mkKid [] [] 0 false false) with default_kid. fold ki.
  rewrite (mapM_sum_maps [] kids Hwf). cbn [bind].
  rewrite (parent_pos_map_ok [] (k_names ki) (k_dict ki));
    [|rewrite Ed; intros a b []|rewrite En; constructor]. cbn [bind].
  rewrite <- (replace_replace_at idx own (T c) (map G labs)) by (rewrite map_length; lia). fold gs. fold cs.
  destruct (quotient_level (map (kid_sum []) kids) (quot_ppm [] ki) cs idx (G op) gs n) with (own := own) (n := n)
    as (r & Hr & Hnk & Hnnr & Hsum).
  - lia.
  - lia.
  - exact Lg.
  - apply Forall_forall. intros f Hf. apply in_map_iff in Hf. destruct Hf as (k & <- & _). intros key. apply sum_param_map_zero.
  - exact Hm.
  - exact Hv.
  - exact Hnn.
  - intros m. apply klen0_nokeys. rewrite <- Hop. apply (good_klen op m). apply HG.
  - intros m Hmm. apply Hgen'. lia.
  - exact Hsib'.
  - unfold quot_ppm. rewrite En, Ed. reflexivity.
  - lia.
  - intros m. apply (good_nonneg c m _ (Hown m) Hvc).
  - intros m Hmm. change (fun _ : Z => @nil entry) with noprov. rewrite Eidx. apply tsum_teq. apply (good_teq c m). apply Hown.
  - change (fun _ : Z => @nil entry) with noprov in Hsum. rewrite Eidx in Hsum.
    exists r. split; [exact Hr|]. split; [|split; [|split; [intros _; exact Hnnr|rewrite Hkc; discriminate]]].
    + apply nokeys_teq; [exact Hnk| |exact Hsum]. apply klen0_nokeys. rewrite <- Hci.
      destruct HT as [_ H]. apply (H c n).
    + rewrite Hci. apply klen0_nokeys. exact Hnk.
Qed.

(* ================================================================ the contract of a rule, per constructor form
   What has to be known about the TRUE tables T (and the descriptor's dictionaries) for the rule of
   class c described by d.  Forms: 0 union, 1 product, 2 Complement (reverse of a union w.r.t. idx),
   3 Quotient (reverse of a product w.r.t. idx; WITH parameters: first disjunct, WITHOUT: second),
   4 equivalence rule of a union, 5 equivalence rule of a reverse union rule, 6 equivalence path,
   7 verified (the table handed over is good up to the horizon Hz).  Any other form: no contract. *)
Variable Hz : Z.

Definition labs_npar (kids : list kid) (labs : list nat) : Prop :=
  Forall2 (fun k l => npar l = length (k_names k)) kids labs.

Definition flags_from (c : nat) (labs : list nat) : Prop :=
  (vpos c = true -> Forall (fun l => vpos l = true) labs) /\
  (kpos c = true -> Forall (fun l => kpos l = true) labs).

Definition siblings_full (idx : nat) (labs : list nat) : Prop :=
  forall j, j <> idx -> (j < length labs)%nat -> vpos (nth j labs O) = true /\ kpos (nth j labs O) = true.

Definition rule_contract (c : nat) (d : cdesc) : Prop :=
  let pn := c_pnames d in let kids := c_kids d in let ok := c_ok d in
  let idx := c_idx d in let op := c_op d in
  let ki := nth idx kids default_kid in
  match c_form d with
  | 0 => npar c = length pn /\ Forall (kid_wf pn) kids /\ labs_npar kids ok /\
         (forall n, 0 <= n -> union_genuine (map (kid_sem pn) kids) (map (fun l => T l n) ok) (T c n)) /\
         flags_from c ok
  | 1 => npar c = length pn /\ (1 <= length kids)%nat /\ Forall (kid_wf pn) kids /\ labs_npar kids ok /\
         Forall (fun m => 0 <= m) (kid_mins kids) /\
         Vanish (map T ok) (kid_mins kids) (kid_maxs kids) /\
         (forall n, 0 <= n -> product_genuine (map (kid_sem pn) kids) (map T ok) (T c n) n) /\
         flags_from c ok
  | 2 => (idx < length kids)%nat /\ nth idx ok O = c /\ npar op = length pn /\ NoDup pn /\
         Forall (kid_wf pn) kids /\ labs_npar kids ok /\ flip_ok pn ki /\
         (forall n, 0 <= n -> union_genuine (map (kid_sem pn) kids) (map (fun l => T l n) ok) (T op n)) /\
         (forall j, j <> idx -> (j < length ok)%nat -> vpos (nth j ok O) = true) /\
         vpos c = false /\ kpos c = false
  | 3 => (idx < length kids)%nat /\ (2 <= length kids)%nat /\ nth idx ok O = c /\ npar op = length pn /\
         labs_npar kids ok /\
         (((1 <= length pn)%nat /\ Forall (kid_wf pn) kids /\
           (forall a b, In (a, b) (k_dict ki) -> In b (k_names ki)) /\
           (forall cv, In cv (k_names ki) -> In cv (map snd (k_dict ki)))) \/
          (pn = [] /\ Forall (fun k => k_names k = [] /\ k_dict k = []) kids)) /\
         Forall (fun m => 0 <= m) (kid_mins kids) /\
         Vanish (map T ok) (kid_mins kids) (kid_maxs kids) /\
         (forall m, 0 <= m -> product_genuine (map (kid_sem pn) kids) (map T ok) (T op m) m) /\
         hprod (remove_at idx (map T ok)) (remove_at idx (kid_mins kids)) <> 0 /\
         siblings_full idx ok /\ vpos c = true /\ kpos c = false
  | 4 => exists ci, first_nonempty kids = Some ci /\ (ci < length ok)%nat /\ npar c = length pn /\
         kid_wf pn (nth ci kids default_kid) /\
         npar (nth ci ok O) = length (k_names (nth ci kids default_kid)) /\
         (forall n, 0 <= n -> union_genuine [kid_sem pn (nth ci kids default_kid)] [T (nth ci ok O) n] (T c n)) /\
         flags_from c [nth ci ok O]
  | 5 => first_nonempty kids = Some idx /\ npar op = length pn /\ npar c = length (k_names ki) /\ NoDup pn /\
         flip_ok pn ki /\
         (forall n, 0 <= n -> union_genuine [kid_sem pn ki] [T c n] (T op n)) /\
         vpos c = false /\ kpos c = false
  | 6 => exists s0 rest D, c_steps d = s0 :: rest /\
         fold_left path_dict_step (c_steps d) (Ok (id_dict (step_source s0))) = Ok D /\
         wf_dict (step_source s0) (step_target (last (c_steps d) s0)) D /\
         npar c = length (step_source s0) /\ npar (c_last d) = length (step_target (last (c_steps d) s0)) /\
         (forall n, 0 <= n ->
            union_genuine [dict_sem (step_source s0) (step_target (last (c_steps d) s0)) D] [T (c_last d) n] (T c n)) /\
         flags_from c [c_last d]
  | 7 => forall n, 0 <= n <= Hz -> good c n (tab_at (c_table d) n)
  | _ => False
  end.

Lemma single_union pn (k : kid) (l : nat) (G : nat -> Z -> terms) c n :
  goodp G -> npar c = length pn -> kid_wf pn k -> npar l = length (k_names k) ->
  union_genuine [kid_sem pn k] [T l n] (T c n) -> flags_from c [l] ->
  exists r, union_get_terms [kid_du pn k] [G l n] = Ok r /\ good c n r.
Proof.
  intros HG Hc Hwf Hl Hgen [Hv Hk].
  apply (union_core pn [k] [l] G c n HG Hc); [constructor; [exact Hwf|constructor]|constructor; [exact Hl|constructor]
                                              |exact Hgen|exact Hv|exact Hk].
Qed.

(* fed with good providers (by label) and good own terms, the step of a rule that satisfies its contract
   raises nothing and returns a good table *)
Theorem stepF_sound c d (G : nat -> Z -> terms) own n :
  rule_contract c d -> goodp G -> (forall m, good c m (own m)) -> 0 <= n -> (c_form d = 7 -> n <= Hz) ->
  exists r, stepF_with d (map G (c_ok d)) (G (c_op d)) (G (c_last d)) own n = Ok r /\ good c n r.
Proof.
  intros HC HG Hown Hn HH. unfold rule_contract in HC. unfold stepF_with.
  destruct (c_form d) as [|f|f] eqn:Hf.
  - (* 0 *) destruct HC as (Hc & Hwf & Hnp & Hgen & Hv & Hk).
    unfold union_stepF. rewrite (mapM_du_maps _ _ Hwf). cbn [bind]. rewrite map_map.
    apply (union_core (c_pnames d) (c_kids d) (c_ok d) G c n); auto.
  - destruct f as [f|f|].
    + destruct f as [f|f|].
      * destruct f as [f|f|]; try contradiction.
        (* 7 *) eexists. split; [reflexivity|]. apply HC. split; [exact Hn|]. apply HH. reflexivity.
      * destruct f as [f|f|]; try contradiction.
        (* 5 *) destruct HC as (Hfn & Hop & Hci & Hpn & Hflip & Hgen & Hvc & Hkc).
        apply equiv_complement_sound; auto.
      * (* 3 *) destruct HC as (Hi & H2 & Hc & Hop & Hnp & Hcase & Hmins & Hvan & Hgen & Hsib & Hsibs & Hvc & Hkc).
        destruct Hcase as [(Hnum & Hwf & Hvals & Hcov)|(Epn & Hnop)].
        -- apply quotient_sound_params; auto.
        -- rewrite Epn in *. apply quotient_sound_nopar; auto.
    + destruct f as [f|f|].
      * destruct f as [f|f|]; try contradiction.
        (* 6 *) destruct HC as (s0 & rest & D & Es & Efold & Hwf & Hc & Hl & Hgen & Hfl).
        unfold path_stepF. rewrite Es in *. cbv zeta.
        change (@Ok (list (Z * Z)) (map (fun k : Z => (k, k)) (step_source s0))) with (@Ok dict (id_dict (step_source s0))).
        rewrite Efold. cbn [bind]. unfold du_map_of.
        set (first := step_source s0) in *. set (lastn := step_target (last (s0 :: rest) s0)) in *.
        rewrite (child_pos_map_ok first lastn D Hwf). cbn [bind].
        apply (single_union first (mkKid lastn D 0 false false) (c_last d) G c n); auto.
      * destruct f as [f|f|]; try contradiction.
        (* 4 *) destruct HC as (ci & Hfn & Hci & Hc & Hwf & Hl & Hgen & Hfl).
        unfold equiv_union_stepF. rewrite Hfn. unfold du_map_of.
        rewrite (child_pos_map_ok _ _ _ Hwf). cbn [bind].
        rewrite (nth_map_default G (c_ok d) ci O) by exact Hci.
        apply (single_union (c_pnames d) (nth ci (c_kids d) default_kid) (nth ci (c_ok d) O) G c n); auto.
      * (* 2 *) destruct HC as (Hi & Hc & Hop & Hpn & Hwf & Hnp & Hflip & Hgen & Hsibs & Hvc & Hkc).
        apply complement_sound; auto.
    + (* 1 *) destruct HC as (Hc & H1 & Hwf & Hnp & Hmins & Hvan & Hgen & Hv & Hk).
      unfold product_stepF. rewrite (mapM_sum_maps _ _ Hwf). cbn [bind]. eexists. split; [reflexivity|].
      apply (product_core (c_pnames d) (c_kids d) (c_ok d) G c n); auto.
  - contradiction.
Qed.
End Sound.

(* ---------------------------------------------------------------- form 6 from link-wise genuineness
   The contract of an equivalence path is stated through the COMPOSED dictionary.  It follows from the
   hypotheses of C09_path: a chain of links, each genuine through its own dictionary (chain_ok), whose
   dictionaries are the ones the steps of the descriptor contribute (step_dict). *)
Lemma path_contract_of_chain first (T0 : terms) (chain : list (list Z * dict * terms)) (steps : list step_desc) :
  NoDup first -> klen (length first) T0 -> chain_ok first T0 chain ->
  map step_dict steps = map Some (map (fun s : list Z * dict * terms => snd (fst s)) chain) ->
  let D := fold_left dict_compose (map (fun s : list Z * dict * terms => snd (fst s)) chain) (id_dict first) in
  fold_left path_dict_step steps (Ok (id_dict first)) = Ok D /\
  union_genuine [dict_sem first (fst (chain_end first T0 chain)) D] [snd (chain_end first T0 chain)] T0.
Proof.
  intros Hf Hk Hc Hd D. split; [apply path_dict_fold; exact Hd|].
  unfold union_genuine, union_table. simpl. rewrite app_nil_r.
  apply (path_compose_genuine first T0 chain first T0 (id_dict first) Hc).
  - unfold id_dict. rewrite map_map. simpl. rewrite map_id. exact Hf.
  - intros q. f_equal. symmetry. apply rekey_id_in. intros k v Hin. apply dict_sem_id; [exact Hf|]. apply (Hk k v Hin).
Qed.
