(* Forest keys of a rules dictionary of the constructor model (Spec/Grouping.v), and the test that every
   rule declares one shift per child.  DEFINITIONS ONLY (no proofs in this file): they are used by the
   theorems of Spec/GroupingProdLink.v (which re-exports this file) AND by the executable
   Spec/GroupingRun.v run_spec, so that the key lists the check compares with the real object are
   literally the R0 / R1 the productivity theorem speaks about.

     bkey r      the key of a rule that is not a path: (class, zip(children, shifts))  -  Python's zip = combine
     gkey g      the key of a rule as the constructor keeps it; an EquivalencePathRule counts as
                 (first class, [(last child, SUM of the first shifts of its members)])
     R1 d1       keys of the grouped dictionary
     R0 d0 d1    keys of the ungrouped dictionary d0 together with the empty rules get_rule added lazily
                 (the entries of d1 whose class has no rule in d0)
     shifts_okb  len(rule.shifts()) == len(rule.children) for every rule of the (ungrouped) dictionary:
                 the third premise of C02_grouping_preserves_productivity
     grouped_dict / same_dictb
                 the dictionary _group_equiv_in_path leaves, and "the finished object's rules_dict has
                 as many entries" (then it IS that dictionary: _set_subrules only appends) *)
From Coq Require Import ZArith List Bool.
From CSS Require Import Forest.Spec Spec.Grouping.
Import ListNotations.
Open Scope Z_scope.

Definition bkey (r : brule) : fkey := mkkey (b_cls r) (combine (b_ch r) (b_sh r)).
Definition shift1 (r : brule) : Z := hd 0 (b_sh r).
Definition zsum (l : list Z) : Z := fold_right Z.add 0 l.
(* the key of a rule as the constructor keeps it; a path rule: (first class, [(last child, sum of shifts)]) *)
Definition gkey (g : grule) : fkey :=
  match g with
  | GB r => bkey r
  | GP r0 rs => mkkey (b_cls r0)
                  (match b_ch (last rs r0) with
                   | [y] => [(y, zsum (map shift1 (r0 :: rs)))]
                   | _ => []
                   end)
  end.
Definition keys_of (d : dict) : list fkey := map (fun kv => gkey (snd kv)) d.

(* the lazily added empty rules *)
Definition lazy1 (d0 d1 : dict) : dict := filter (fun kv => negb (dmem (fst kv) d0)) d1.
Definition R0 (d0 d1 : dict) : list fkey := keys_of (d0 ++ lazy1 d0 d1).
Definition R1 (d1 : dict) : list fkey := keys_of d1.

(* one declared shift per child *)
Definition shifts_okb (d : dict) : bool :=
  forallb (fun kv => match snd kv with
                     | GB r => Nat.eqb (length (b_sh r)) (length (b_ch r))
                     | GP _ _ => true
                     end) d.

(* rules_dict after `if group_equiv: self._group_equiv_in_path()` (as spec_init computes it) *)
Definition grouped_dict (is_empty : nat -> bool) (root : nat) (rules : list grule) (group_equiv : bool) : xres dict :=
  let d0 := rules_dict rules in
  if group_equiv then group_equiv_in_path is_empty (group_fuel root (ungroup d0)) root d0 else XOk d0.

Definition same_dictb (is_empty : nat -> bool) (root : nat) (rules : list grule) (group_equiv : bool) (d2 : dict) : bool :=
  match grouped_dict is_empty root rules group_equiv with
  | XOk d1 => Nat.eqb (length d1) (length d2)
  | _ => false
  end.
