(* The extractor's rules dictionary is closed: every right-hand label is a
   left-hand label, the root has a rule, and every entry is a stored rule or a
   step of an explanation path. *)
From Coq Require Import ZArith List Bool Lia.
From CSS Require Import Spec.Extractor.
Import ListNotations.

Lemma lookup_assign d k v x :
  lookup (assign d k v) x = if Nat.eqb k x then Some v else lookup d x.
Proof.
  unfold lookup. induction d as [|e t IH]; simpl.
  - destruct (Nat.eqb k x) eqn:E; reflexivity.
  - destruct (Nat.eqb (fst e) k) eqn:Ek; simpl.
    + apply Nat.eqb_eq in Ek. rewrite Ek. destruct (Nat.eqb k x) eqn:E; reflexivity.
    + destruct (Nat.eqb (fst e) x) eqn:Ex; simpl.
      * destruct (Nat.eqb k x) eqn:E; auto. apply Nat.eqb_eq in E, Ex. apply Nat.eqb_neq in Ek. lia.
      * exact IH.
Qed.

Lemma dom_assign d k v x : dom (assign d k v) x = Nat.eqb k x || dom d x.
Proof. unfold dom. rewrite lookup_assign. destruct (Nat.eqb k x); reflexivity. Qed.

Lemma in_assign d k v e : In e (assign d k v) -> e = (k, v) \/ In e d.
Proof.
  induction d as [|a t IH]; simpl.
  - intros [<-|[]]; auto.
  - destruct (Nat.eqb (fst a) k); simpl; intros [<-|H]; auto. destruct (IH H); auto.
Qed.

Lemma assign_new d k v e : dom d k = false -> In e d -> In e (assign d k v).
Proof.
  unfold dom, lookup. induction d as [|a t IH]; simpl; [intros _ []|].
  destruct (Nat.eqb (fst a) k) eqn:E; simpl; [discriminate|].
  intros Hd [<-|H]; [left; auto|right; auto].
Qed.

Lemma in_assign_self d k v : In (k, v) (assign d k v).
Proof.
  induction d as [|a t IH]; simpl; [left; auto|].
  destruct (Nat.eqb (fst a) k); simpl; auto.
Qed.

Lemma dom_in d k : dom d k = true -> exists v, In (k, v) d.
Proof.
  unfold dom, lookup. induction d as [|a t IH]; simpl; [discriminate|].
  destruct (Nat.eqb (fst a) k) eqn:E; simpl.
  - intros _. apply Nat.eqb_eq in E. exists (snd a). left. destruct a; simpl in *; subst; auto.
  - intros H. destruct (IH H) as [v Hv]. exists v; auto.
Qed.

Lemma in_dom d k v : In (k, v) d -> dom d k = true.
Proof.
  unfold dom, lookup. induction d as [|a t IH]; simpl; [intros []|].
  intros [->|H]; simpl.
  - rewrite Nat.eqb_refl. reflexivity.
  - destruct (Nat.eqb (fst a) k); simpl; auto.
Qed.

(* consecutive elements of a path *)
Inductive step_of : list nat -> nat -> nat -> Prop :=
| step_here : forall p c rest, step_of (p :: c :: rest) p c
| step_later : forall x rest p c, step_of rest p c -> step_of (x :: rest) p c.

(* an entry whose children are all left-hand labels *)
Definition entry_closed (d : list rkey) (e : rkey) : Prop := forall c, In c (snd e) -> dom d c = true.

Lemma entry_closed_mono d d' e :
  (forall x, dom d x = true -> dom d' x = true) -> entry_closed d e -> entry_closed d' e.
Proof. intros H Hc c Hin. auto. Qed.

(* add_path: keeps old entries, only adds steps of the path, and — when the end
   of the path is a left-hand label — every added entry is closed and the head
   of the path becomes a left-hand label *)
Lemma add_path_spec : forall path d,
  let d' := add_path d path in
  (forall x, dom d x = true -> dom d' x = true) /\
  (forall e, In e d -> In e d') /\
  (forall e, In e d' -> In e d \/ exists p c, step_of path p c /\ e = (p, [c])) /\
  (dom d (last path O) = true -> path <> [] ->
     dom d' (hd O path) = true /\
     forall e, In e d' -> In e d \/ entry_closed d' e).
Proof.
  induction path as [|p rest IH]; intros d; simpl.
  - repeat split; auto; intros; try contradiction; try congruence.
  - destruct rest as [|c rest'].
    + simpl. repeat split; auto.
    + destruct (dom d p) eqn:Ep.
      * repeat split; auto.
      * specialize (IH (assign d p [c])). simpl in IH. destruct IH as (A & B & C & D).
        assert (forall x, dom d x = true -> dom (assign d p [c]) x = true) as Hm.
        { intros x Hx. rewrite dom_assign, Hx. apply orb_true_r. }
        split; [intros x Hx; apply A; auto|].
        split; [intros e He; apply B; apply assign_new; auto|].
        split.
        -- intros e He. destruct (C e He) as [H|(p' & c' & Hs & ->)].
           ++ destruct (in_assign _ _ _ _ H) as [->|H']; auto.
              right. exists p, c. split; [constructor|reflexivity].
           ++ right. exists p', c'. split; [constructor; auto|reflexivity].
        -- intros Hl _.
           assert (dom (assign d p [c]) (last (c :: rest') O) = true) as Hl'.
           { apply Hm. exact Hl. }
           destruct (D Hl' ltac:(discriminate)) as [Dh Dc].
           split.
           ++ apply A. rewrite dom_assign, Nat.eqb_refl. reflexivity.
           ++ intros e He. destruct (Dc e He) as [H|H]; auto.
              destruct (in_assign _ _ _ _ H) as [->|H']; auto.
              right. intros x [<-|[]]. exact Dh.
Qed.

Section Proofs.
Variable rep : nat -> nat.
Variable fpath : nat -> nat -> list nat.
(* C06_path: between equivalent labels find_path starts at the first, ends at the second *)
Hypothesis fpath_ok : forall l t, rep l = rep t ->
  fpath l t <> [] /\ hd O (fpath l t) = l /\ last (fpath l t) O = t.

Notation eqv_key := (eqv_key rep).
Notation rule_for := (rule_for rep).
Notation decompositions := (decompositions rep).
Notation equivalences := (equivalences rep fpath).

Lemma rkey_eqb_eq a b : rkey_eqb a b = true -> a = b.
Proof.
  unfold rkey_eqb, list_eqb. destruct a as [a1 a2], b as [b1 b2]; simpl.
  rewrite !andb_true_iff. intros [E1 [E2 E3]]. apply Nat.eqb_eq in E1, E2. subst. f_equal.
  revert b2 E2 E3. induction a2 as [|x a2 IH]; intros [|y b2] E2 E3; simpl in *; try lia; auto.
  apply andb_true_iff in E3. destruct E3 as [E3 E4]. apply Nat.eqb_eq in E3. subst. f_equal.
  apply IH; auto.
Qed.

Lemma rule_for_spec stored e k : rule_for stored e = Some k -> In k stored /\ eqv_key k = e.
Proof.
  unfold Extractor.rule_for.
  assert (forall acc, fold_left (fun acc k => if rkey_eqb (eqv_key k) e then Some k else acc) stored acc = Some k ->
            (In k stored /\ eqv_key k = e) \/ acc = Some k) as G.
  { induction stored as [|a t IH]; intros acc H; simpl in H; auto.
    destruct (IH _ H) as [[A B]|E]; [left; split; auto; right; auto|].
    destruct (rkey_eqb (eqv_key a) e) eqn:Ea; auto.
    injection E as <-. left. split; [left; auto|apply rkey_eqb_eq; auto]. }
  intros H. destruct (G None H) as [?|?]; [auto|discriminate].
Qed.

(* after the decompositions: entries are stored rules; e2p maps rep-labels to left-hand labels *)
Lemma decompositions_spec stored : forall tree d e2p d' e2p',
  decompositions stored tree d e2p = Some (d', e2p') ->
  (forall e, In e d -> In e stored) ->
  (forall q p, In (q, p) e2p -> dom d p = true /\ rep p = q) ->
  (forall e, In e d' -> In e stored) /\
  (forall q p, In (q, p) e2p' -> dom d' p = true /\ rep p = q) /\
  (forall e, In e tree -> exists p, In (fst e, p) e2p') /\
  (forall x, In x e2p -> In x e2p').
Proof.
  induction tree as [|e t IH]; intros d e2p d' e2p' H Hd He; simpl in H.
  - injection H as <- <-. split; [auto|]. split; [auto|]. split; [intros e []|auto].
  - destruct (rule_for stored e) as [[p cs]|] eqn:Er; [|discriminate].
    destruct (rule_for_spec _ _ _ Er) as [Hin Hk].
    destruct (IH _ _ _ _ H) as (A & B & C & D).
    + intros x Hx. destruct (in_assign _ _ _ _ Hx) as [->|Hx']; auto.
    + intros q p' [E|Hq].
      * injection E as <- <-. split; [rewrite dom_assign, Nat.eqb_refl; auto|].
        rewrite <- Hk. reflexivity.
      * destruct (He q p' Hq) as [X Y]. split; auto. rewrite dom_assign, X. apply orb_true_r.
    + split; [exact A|]. split; [exact B|]. split.
      * intros x [<-|Hx]; auto. exists p. apply D. left; auto.
      * intros x Hx. apply D. right; auto.
Qed.

Lemma e2p_get_in e2p k t : e2p_get e2p k = Some t -> In (k, t) e2p.
Proof.
  unfold e2p_get. induction e2p as [|a l IH]; simpl; [discriminate|].
  destruct (Nat.eqb (fst a) k) eqn:E; simpl.
  - intros [= <-]. apply Nat.eqb_eq in E. left. destruct a; simpl in *; subst; auto.
  - intros H. right; auto.
Qed.

(* an entry is "original" (from the decompositions) or closed *)
Lemma equivalences_spec e2p d0 : forall labels d d',
  (* the find_path contract is only needed for the labels iterated over *)
  (forall l, In l labels -> forall t, rep l = rep t ->
     fpath l t <> [] /\ hd O (fpath l t) = l /\ last (fpath l t) O = t) ->
  equivalences d e2p labels = Some d' ->
  (forall q p, In (q, p) e2p -> dom d0 p = true /\ rep p = q) ->
  (forall x, dom d0 x = true -> dom d x = true) ->
  (forall e, In e d -> In e d0 \/ entry_closed d e) ->
  (forall x, dom d x = true -> dom d' x = true) /\
  (forall e, In e d -> In e d') /\
  (forall e, In e d' -> In e d0 \/ entry_closed d' e) /\
  (forall l, In l labels -> dom d' l = true) /\
  (forall e, In e d' -> In e d \/ exists l t p c, step_of (fpath l t) p c /\ e = (p, [c])).
Proof.
  induction labels as [|l t IH]; intros d d' Hfp H He Hd0 Hc; simpl in H.
  - injection H as <-. repeat split; auto; try (intros l []).
  - destruct (e2p_get e2p (rep l)) as [target|] eqn:Et; [|discriminate].
    apply e2p_get_in in Et. destruct (He _ _ Et) as [Htd Hrep].
    destruct (Hfp l (or_introl eq_refl) target (eq_sym Hrep)) as (Hne & Hhd & Hlast).
    assert (forall l0, In l0 t -> forall t0, rep l0 = rep t0 ->
              fpath l0 t0 <> [] /\ hd O (fpath l0 t0) = l0 /\ last (fpath l0 t0) O = t0) as Hfp'
      by (intros l0 Hl0; apply Hfp; right; exact Hl0).
    destruct (add_path_spec (fpath l target) d) as (A & B & C & D).
    rewrite Hlast in D. destruct (D (Hd0 _ Htd) Hne) as [Dh Dc]. rewrite Hhd in Dh.
    destruct (IH _ _ Hfp' H He) as (A' & B' & C' & D' & E').
    + intros x Hx. apply A, Hd0, Hx.
    + intros e Hin. destruct (Dc e Hin) as [H1|H1]; auto.
      destruct (Hc e H1) as [H2|H2]; auto. right. eapply entry_closed_mono; eauto.
    + repeat split.
      * intros x Hx. apply A', A, Hx.
      * intros e Hin. apply B', B, Hin.
      * exact C'.
      * intros x [<-|Hx]; [apply A'; exact Dh|apply D'; auto].
      * intros e Hin. destruct (E' e Hin) as [H1|H1]; auto.
        destruct (C e H1) as [H2|(p & c & Hs & ->)]; auto.
        right. exists l, target, p, c. auto.
Qed.

(* the rules dictionary handed to the specification; the find_path contract is asked only for
   the labels of `order` (the labels the extractor really calls find_path on) *)
Theorem extract_closed_order stored tree root order d :
  (forall l, In l order -> forall t, rep l = rep t ->
     fpath l t <> [] /\ hd O (fpath l t) = l /\ last (fpath l t) O = t) ->
  extract rep fpath stored tree root order = Some d ->
  (* the iteration covers the labels _no_lhs_labels() computes on the decompositions *)
  (forall d0 e2p, decompositions stored tree [] [] = Some (d0, e2p) ->
     forall l, no_lhs d0 root l = true -> In l order) ->
  (forall e, In e d -> forall c, In c (snd e) -> dom d c = true) /\
  dom d root = true /\
  (forall e, In e d -> In e stored \/ exists l t p c, step_of (fpath l t) p c /\ e = (p, [c])).
Proof.
  unfold extract. intros Hfp H Hcov.
  destruct (decompositions stored tree [] []) as [[d0 e2p]|] eqn:Ed; [|discriminate].
  specialize (Hcov d0 e2p eq_refl).
  destruct (decompositions_spec stored tree [] [] d0 e2p Ed) as (A & B & _ & _);
    [intros e []|intros q p []|].
  destruct (equivalences_spec e2p d0 order d0 d Hfp H B) as (M & K & C & L & S); auto.
  assert (forall c, (exists e, In e d0 /\ In c (snd e)) -> dom d c = true) as Hrhs.
  { intros c (e & He & Hc). destruct (dom d0 c) eqn:Ec; [apply M; auto|].
    apply L. apply Hcov. unfold no_lhs. rewrite Ec. simpl.
    assert (existsb (Nat.eqb c) (all_rhs d0) = true) as Hex.
    { apply existsb_exists. exists c. split; [|apply Nat.eqb_refl].
      unfold all_rhs. apply in_flat_map. exists e; auto. }
    rewrite Hex. reflexivity. }
  split; [|split].
  - intros e He c Hc. destruct (C e He) as [H0|Hcl]; [|apply Hcl; auto].
    apply Hrhs. exists e; auto.
  - destruct (dom d0 root) eqn:Er; [apply M; auto|].
    apply L. apply Hcov. unfold no_lhs. rewrite Er, Nat.eqb_refl. simpl. apply orb_true_r.
  - intros e He. destruct (S e He) as [H0|H1]; auto.
Qed.

(* the same with the contract for all labels *)
Theorem extract_closed stored tree root order d :
  extract rep fpath stored tree root order = Some d ->
  (forall d0 e2p, decompositions stored tree [] [] = Some (d0, e2p) ->
     forall l, no_lhs d0 root l = true -> In l order) ->
  (forall e, In e d -> forall c, In c (snd e) -> dom d c = true) /\
  dom d root = true /\
  (forall e, In e d -> In e stored \/ exists l t p c, step_of (fpath l t) p c /\ e = (p, [c])).
Proof.
  apply extract_closed_order. intros l _. apply fpath_ok.
Qed.

(* ---- one entry per left-hand label: the dictionary is built by assignments only ---- *)
Lemma keys_assign d k v :
  map fst (assign d k v) = if dom d k then map fst d else map fst d ++ [k].
Proof.
  unfold dom, lookup. induction d as [|a t IH]; simpl; [reflexivity|].
  destruct (Nat.eqb (fst a) k) eqn:E; simpl.
  - apply Nat.eqb_eq in E. rewrite E. reflexivity.
  - rewrite IH. destruct (find (fun e => Nat.eqb (fst e) k) t); reflexivity.
Qed.

Lemma dom_false_notin d k : dom d k = false -> ~ In k (map fst d).
Proof.
  intros H Hin. apply in_map_iff in Hin. destruct Hin as ([k' v] & E & Hin). simpl in E. subst k'.
  rewrite (in_dom d k v Hin) in H. discriminate.
Qed.

Lemma assign_nodup d k v : NoDup (map fst d) -> NoDup (map fst (assign d k v)).
Proof.
  intros H. rewrite keys_assign. destruct (dom d k) eqn:E; auto.
  apply NoDup_rev in H. rewrite <- (rev_involutive (map fst d ++ [k])). apply NoDup_rev.
  rewrite rev_app_distr. simpl. constructor; auto.
  intros Hin. apply in_rev in Hin. exact (dom_false_notin d k E Hin).
Qed.

Lemma add_path_nodup : forall path d, NoDup (map fst d) -> NoDup (map fst (add_path d path)).
Proof.
  induction path as [|p rest IH]; intros d H; simpl; auto.
  destruct rest as [|c rest']; auto.
  destruct (dom d p); auto. apply IH. apply assign_nodup; auto.
Qed.

Lemma decompositions_nodup stored : forall tree d e2p d' e2p',
  decompositions stored tree d e2p = Some (d', e2p') -> NoDup (map fst d) -> NoDup (map fst d').
Proof.
  induction tree as [|e t IH]; intros d e2p d' e2p' H Hd; simpl in H.
  - injection H as <- <-. exact Hd.
  - destruct (rule_for stored e) as [[p cs]|]; [|discriminate].
    apply (IH _ _ _ _ H). apply assign_nodup; auto.
Qed.

Lemma equivalences_nodup e2p : forall labels d d',
  equivalences d e2p labels = Some d' -> NoDup (map fst d) -> NoDup (map fst d').
Proof.
  induction labels as [|l t IH]; intros d d' H Hd; simpl in H.
  - injection H as <-. exact Hd.
  - destruct (e2p_get e2p (rep l)) as [target|]; [|discriminate].
    apply (IH _ _ H). apply add_path_nodup; auto.
Qed.

Lemma nodup_lookup : forall d, NoDup (map fst d) ->
  forall p cs, In (p, cs) d <-> lookup d p = Some cs.
Proof.
  unfold lookup. induction d as [|a t IH]; simpl; intros Hd p cs.
  - split; [intros []|discriminate].
  - inversion Hd as [|x l Hn Hd']; subst. destruct (Nat.eqb (fst a) p) eqn:E; simpl.
    + apply Nat.eqb_eq in E. split.
      * intros [->|Hin]; [reflexivity|]. exfalso. apply Hn. subst p.
        apply in_map_iff. exists (fst a, cs). auto.
      * intros [= <-]. left. destruct a; simpl in *; subst; reflexivity.
    + rewrite <- (IH Hd' p cs). split; [intros [->|Hin]; auto|auto].
      simpl in E. rewrite Nat.eqb_refl in E. discriminate.
Qed.

(* the rules dictionary has exactly one entry per left-hand label, and looking a label up
   returns that entry: no class is the left-hand side of two rules *)
Theorem extract_functional stored tree root order d :
  extract rep fpath stored tree root order = Some d ->
  NoDup (map fst d) /\ forall p cs, In (p, cs) d <-> lookup d p = Some cs.
Proof.
  unfold extract. intros H.
  destruct (decompositions stored tree [] []) as [[d0 e2p]|] eqn:Ed; [|discriminate].
  assert (NoDup (map fst d)) as Hd.
  { apply (equivalences_nodup e2p order d0 d H).
    apply (decompositions_nodup stored tree [] [] d0 e2p Ed). constructor. }
  split; [exact Hd|apply nodup_lookup; exact Hd].
Qed.

End Proofs.
