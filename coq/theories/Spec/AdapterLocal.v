(* C10 -> C01: the operator of srule_of is LOCAL w.r.t. the shifts the descriptor declares.

   Two steps.
   (1) BRIDGE between the two hand transcriptions of the constructors: the C09 term model
       (Count/Constructors.v: union/complement/product/quotient get_terms) reads its sub-term
       providers nowhere else than the C10 reads model (Count/ReadsModel.v rule_reads) says —
       `stepF_reads`: two provider families that agree on every (provider, size) of
       `rule_reads form (kid_descs kids) idx n` (and own terms on the SELF reads) give the same
       result, errors included.
   (2) C10's theorem about the reads model (Count/Reads.v rule_reads_respect_shifts =
       Props/C10.v C10_reads_respect_declared_shifts, over the GENERATED shift functions) bounds
       those reads by n - rule_shifts; the descriptor's declared shifts are at most rule_shifts
       (deps_shape), hence `srule_of_local : deps_shape d -> local terms (srule_of d)`.
   The derived forms 4..6 read their one child at size n only (direct), form 7 reads nothing. *)
From Coq Require Import ZArith List Bool Lia.
From CSS Require Import Spec.Eval Spec.CountRun.
From CSS Require Import Base.Sx Gen.Prelude Gen.Compositions Gen.QuotientParentShift
  Count.CompositionsSpec Count.Terms Count.Constructors Count.ConstructorsRun
  Count.ConstructorsQuotient Count.ConstructorsDerived Count.Reads Count.ReadsDerived Spec.Adapter.
Import ListNotations.
Open Scope Z_scope.

Notation remove_at := Count.Constructors.remove_at.

(* ---------------------------------------------------------------- lists *)
Lemma my_flat_map_ext_in {A B} (f g : A -> list B) l :
  (forall a, In a l -> f a = g a) -> flat_map f l = flat_map g l.
Proof.
  induction l as [|x l IH]; intros H; simpl; [reflexivity|].
  rewrite (H x (or_introl eq_refl)), IH; [reflexivity|]. intros a Ha. apply H. right. exact Ha.
Qed.

Lemma nth_map_seq {A} (f : nat -> A) k j d : (j < k)%nat -> nth j (map f (seq 0 k)) d = f j.
Proof.
  intros H. rewrite (nth_indep _ d (f 0%nat)) by (rewrite map_length, seq_length; exact H).
  rewrite map_nth, seq_nth by exact H. reflexivity.
Qed.

Lemma list_ext_nth {A} (d : A) : forall l l', length l = length l' ->
  (forall j, (j < length l)%nat -> nth j l d = nth j l' d) -> l = l'.
Proof.
  induction l as [|x l IH]; intros [|y l'] Hl H; simpl in Hl; try discriminate; [reflexivity|].
  f_equal; [apply (H 0%nat); simpl; lia|]. apply IH; [lia|]. intros j Hj. apply (H (S j)). simpl. lia.
Qed.

Lemma nth_remove_at' {A} (d : A) (l : list A) i j :
  nth j (remove_at i l) d = if (j <? i)%nat then nth j l d else nth (S j) l d.
Proof. unfold Count.Constructors.remove_at. apply nth_remove_at. Qed.

Lemma length_remove_at' {A} (l : list A) i : (i < length l)%nat -> length (remove_at i l) = (length l - 1)%nat.
Proof. unfold Count.Constructors.remove_at. apply length_remove_at. Qed.

Lemma remove_at_ext {A} (d : A) i (l l' : list A) :
  length l = length l' -> (i < length l)%nat ->
  (forall j, j <> i -> (j < length l)%nat -> nth j l d = nth j l' d) ->
  remove_at i l = remove_at i l'.
Proof.
  intros Hl Hi H. apply (list_ext_nth d).
  - rewrite !length_remove_at' by lia. lia.
  - intros j Hj. rewrite length_remove_at' in Hj by lia. rewrite !nth_remove_at'.
    destruct (j <? i)%nat eqn:E.
    + apply Nat.ltb_lt in E. apply H; lia.
    + apply Nat.ltb_ge in E. apply H; lia.
Qed.

Lemma nth_replace_at' {A} (d : A) i x (l : list A) j : (i < length l)%nat ->
  nth j (replace_at i x l) d = if (j =? i)%nat then x else nth j l d.
Proof.
  intros Hi. unfold replace_at.
  destruct (Nat.lt_ge_cases j i) as [Hlt|Hge].
  - rewrite app_nth1 by (rewrite firstn_length; lia).
    replace (j =? i)%nat with false by (symmetry; apply Nat.eqb_neq; lia).
    rewrite <- (firstn_skipn i l) at 2. rewrite app_nth1 by (rewrite firstn_length; lia). reflexivity.
  - rewrite app_nth2 by (rewrite firstn_length; lia). rewrite firstn_length, Nat.min_l by lia.
    destruct (Nat.eq_dec j i) as [->|Hne].
    + rewrite Nat.sub_diag, Nat.eqb_refl. reflexivity.
    + replace (j =? i)%nat with false by (symmetry; apply Nat.eqb_neq; lia).
      destruct (j - i)%nat as [|q] eqn:E; [lia|]. simpl.
      rewrite <- (firstn_skipn (S i) l) at 2. rewrite app_nth2 by (rewrite firstn_length; lia).
      rewrite firstn_length, Nat.min_l by lia. f_equal. lia.
Qed.

Lemma replace_at_ext {A} (d : A) i x (l l' : list A) :
  length l = length l' -> (i < length l)%nat ->
  (forall j, j <> i -> (j < length l)%nat -> nth j l d = nth j l' d) ->
  replace_at i x l = replace_at i x l'.
Proof.
  intros Hl Hi H. apply (list_ext_nth d).
  - rewrite !replace_at_length by lia. exact Hl.
  - intros j Hj. rewrite replace_at_length in Hj by lia. rewrite !nth_replace_at' by lia.
    destruct (j =? i)%nat eqn:E; [reflexivity|]. apply Nat.eqb_neq in E. apply H; lia.
Qed.

Lemma nth_map_at (l : list prov) n j : (j < length l)%nat ->
  nth j (map (fun g : prov => g n) l) [] = nth j l noprov n.
Proof.
  intros H. rewrite (nth_indep _ [] (noprov n)) by (rewrite map_length; exact H).
  apply (map_nth (fun g : prov => g n)).
Qed.

(* ---------------------------------------------------------------- product_table only looks at the compositions *)
Lemma tabs_at_ext : forall (tabs tabs' : list prov) (sizes : list Z),
  length tabs = length tabs' ->
  (forall i, (i < length tabs)%nat -> (i < length sizes)%nat ->
     nth i tabs noprov (nth i sizes 0) = nth i tabs' noprov (nth i sizes 0)) ->
  tabs_at tabs sizes = tabs_at tabs' sizes.
Proof.
  unfold tabs_at.
  induction tabs as [|g tabs IH]; intros [|g' tabs'] sizes Hl H; simpl in Hl; try discriminate; [reflexivity|].
  destruct sizes as [|s sizes]; [reflexivity|]. simpl. f_equal.
  - apply (H 0%nat); simpl; lia.
  - apply IH; [lia|]. intros i H1 H2. apply (H (S i)); simpl; lia.
Qed.

Lemma product_table_ext fs mins maxs (tabs tabs' : list prov) n :
  length tabs = length tabs' ->
  (forall sizes, In sizes (compositions n (zlen tabs) mins maxs) ->
     forall i, (i < length tabs)%nat -> (i < length sizes)%nat ->
       nth i tabs noprov (nth i sizes 0) = nth i tabs' noprov (nth i sizes 0)) ->
  product_table fs mins maxs tabs n = product_table fs mins maxs tabs' n.
Proof.
  intros Hl H. unfold product_table. unfold zlen in *. rewrite <- Hl.
  apply my_flat_map_ext_in. intros sizes Hs. f_equal. f_equal.
  apply tabs_at_ext; [exact Hl|]. intros i H1 H2. apply (H sizes Hs i H1 H2).
Qed.

Lemma in_reads_of_sizes_nth (pr : Z -> Z) sizes i : (i < length sizes)%nat ->
  In (pr (Z.of_nat i), nth i sizes 0) (reads_of_sizes pr sizes).
Proof.
  intros H. unfold reads_of_sizes. apply in_map_iff. exists (Z.of_nat i, nth i sizes 0). split; [reflexivity|].
  unfold py_enumerate. apply (in_enumerate_from_nth 0 sizes 0 i H).
Qed.

(* ---------------------------------------------------------------- descriptors of the children *)
Lemma product_min_kids kids : product_min_sizes (kid_descs kids) = map k_min kids.
Proof. unfold product_min_sizes, kid_descs. rewrite map_map. reflexivity. Qed.

Lemma product_max_kids kids :
  product_max_sizes (kid_descs kids) = map (fun k => if k_atom k then Some (k_min k) else None) kids.
Proof. unfold product_max_sizes, kid_descs. rewrite map_map. reflexivity. Qed.

Lemma kid_descs_length kids : length (kid_descs kids) = length kids.
Proof. unfold kid_descs. apply map_length. Qed.

(* ---------------------------------------------------------------- the positions of kp_of *)
Lemma kp_of_length d p : (c_form d = 0 \/ c_form d = 1 \/ c_form d = 2 \/ c_form d = 3 \/ c_form d = 4) ->
  length (kp_of d p) = length (c_kids d).
Proof.
  unfold kp_of. intros [-> | [-> | [-> | [-> | ->]]]]; rewrite map_length, seq_length; reflexivity.
Qed.

Lemma kp_of_nth_fwd d p j : (c_form d = 0 \/ c_form d = 1) -> (j < length (c_kids d))%nat ->
  nth j (kp_of d p) noprov = p j.
Proof. unfold kp_of. intros [-> | ->] H; apply nth_map_seq; exact H. Qed.

Lemma kp_of_nth_rev d p j : (c_form d = 2 \/ c_form d = 3) -> (j < length (c_kids d))%nat ->
  nth j (kp_of d p) noprov = if (j <? c_idx d)%nat then p (S j) else p j.
Proof. unfold kp_of. intros [-> | ->] H; apply (nth_map_seq (fun j => if (j <? c_idx d)%nat then p (S j) else p j)); exact H. Qed.

(* ================================================================ (1) the bridge *)
Definition reads_agree (form : Z) (c : desc) (idx n : Z) (p p' : nat -> prov) (o o' : prov) : Prop :=
  (forall i m, In (Z.of_nat i, m) (rule_reads form c idx n) -> p i m = p' i m) /\
  (forall m, In (SELF, m) (rule_reads form c idx n) -> o m = o' m).

(* form 0 *)
Lemma in_reads_union (c : desc) n j : (j < length c)%nat -> In (Z.of_nat j, n) (reads_union c n).
Proof.
  intros H. unfold reads_union. apply in_map_iff. exists (Z.of_nat j, nth j c (0, false)). split; [reflexivity|].
  unfold py_enumerate. apply (in_enumerate_from_nth (0, false) c 0 j H).
Qed.

Lemma union_reads d p p' o o' n : c_form d = 0 ->
  reads_agree 0 (kid_descs (c_kids d)) (Z.of_nat (c_idx d)) n p p' o o' ->
  stepF_with d (kp_of d p) (p 0%nat) (p 0%nat) o n = stepF_with d (kp_of d p') (p' 0%nat) (p' 0%nat) o' n.
Proof.
  intros Hf [Hp _]. unfold stepF_with. rewrite Hf. unfold union_stepF.
  destruct (mapM _ (c_kids d)) as [pms|e]; [|reflexivity]. simpl. f_equal.
  unfold kp_of. rewrite Hf. rewrite !map_map. apply map_ext_in. intros j Hj. apply in_seq in Hj.
  apply Hp. simpl rule_reads. apply in_reads_union. rewrite kid_descs_length. lia.
Qed.

(* form 1 *)
Lemma product_reads d p p' o o' n : c_form d = 1 ->
  reads_agree 1 (kid_descs (c_kids d)) (Z.of_nat (c_idx d)) n p p' o o' ->
  stepF_with d (kp_of d p) (p 0%nat) (p 0%nat) o n = stepF_with d (kp_of d p') (p' 0%nat) (p' 0%nat) o' n.
Proof.
  intros Hf [Hp _]. unfold stepF_with. rewrite Hf. unfold product_stepF.
  destruct (mapM _ (c_kids d)) as [fs|e]; [|reflexivity]. simpl. f_equal.
  unfold product_get_terms.
  assert (L : forall q, length (kp_of d q) = length (c_kids d)) by (intros q; apply kp_of_length; auto).
  apply product_table_ext; [rewrite !L; reflexivity|].
  intros sizes Hs i Hi Hi2. rewrite L in Hi. rewrite !kp_of_nth_fwd by auto.
  apply Hp. simpl rule_reads. unfold reads_product. apply in_flat_map. exists sizes. split.
  - rewrite product_min_kids, product_max_kids.
    replace (zlen (kid_descs (c_kids d))) with (zlen (kp_of d p)); [exact Hs|].
    unfold zlen. rewrite L, kid_descs_length. reflexivity.
  - apply (in_reads_of_sizes_nth (fun j => j)). exact Hi2.
Qed.

(* form 2 *)
Lemma in_reads_complement (c : desc) idx n i : (i = 0 \/ 1 <= i < zlen c) -> In (i, n) (reads_complement c idx n).
Proof.
  intros [->|H]; [left; reflexivity|]. right. apply in_map_iff. exists i. split; [reflexivity|].
  apply in_py_range. exact H.
Qed.

Lemma complement_reads d p p' o o' n : c_form d = 2 -> (c_idx d < length (c_kids d))%nat ->
  reads_agree 2 (kid_descs (c_kids d)) (Z.of_nat (c_idx d)) n p p' o o' ->
  stepF_with d (kp_of d p) (p 0%nat) (p 0%nat) o n = stepF_with d (kp_of d p') (p' 0%nat) (p' 0%nat) o' n.
Proof.
  intros Hf Hi [Hp _]. unfold stepF_with. rewrite Hf. unfold complement_stepF.
  destruct (mapM _ (remove_at (c_idx d) (c_kids d))) as [pms|e]; [|reflexivity]. simpl.
  destruct (du_map_of _ _) as [ppm|e]; [|reflexivity]. simpl.
  assert (L : forall q, length (kp_of d q) = length (c_kids d)) by (intros q; apply kp_of_length; auto).
  assert (Lc : zlen (kid_descs (c_kids d)) = Z.of_nat (length (c_kids d))) by (unfold zlen; rewrite kid_descs_length; reflexivity).
  f_equal.
  - apply (Hp 0%nat). simpl rule_reads. apply in_reads_complement. left. reflexivity.
  - rewrite !(ConstructorsQuotient.map_remove_at (fun g : prov => g n)).
    apply (remove_at_ext [] (c_idx d)); [rewrite !map_length, !L; reflexivity|rewrite map_length, L; exact Hi|].
    intros j Hne Hj. rewrite map_length, L in Hj.
    rewrite !nth_map_at by (rewrite L; exact Hj). rewrite !kp_of_nth_rev by auto.
    destruct (j <? c_idx d)%nat eqn:E.
    + apply Nat.ltb_lt in E. apply Hp. simpl rule_reads. apply in_reads_complement. right. lia.
    + apply Nat.ltb_ge in E. apply Hp. simpl rule_reads. apply in_reads_complement. right. lia.
Qed.

(* form 3 *)
Lemma quotient_reads d p p' o o' n : c_form d = 3 -> (c_idx d < length (c_kids d))%nat ->
  reads_agree 3 (kid_descs (c_kids d)) (Z.of_nat (c_idx d)) n p p' o o' ->
  stepF_with d (kp_of d p) (p 0%nat) (p 0%nat) o n = stepF_with d (kp_of d p') (p' 0%nat) (p' 0%nat) o' n.
Proof.
  intros Hf Hi [Hp Ho]. unfold stepF_with. rewrite Hf. unfold quotient_stepF.
  destruct (mapM _ (c_kids d)) as [fs|e]; [|reflexivity]. simpl.
  match goal with |- bind ?X _ = _ => destruct X as [ppm|e]; [|reflexivity] end. simpl.
  set (idx := c_idx d) in *. set (cs := kid_descs (c_kids d)) in *. set (k := length (c_kids d)) in *.
  assert (L : forall q, length (kp_of d q) = k) by (intros q; apply kp_of_length; auto).
  assert (Lcs : length cs = k) by apply kid_descs_length.
  unfold quotient_get_terms. simpl rule_reads in Hp, Ho. unfold reads_quotient in Hp, Ho. cbv zeta in Hp, Ho.
  destruct (n <? py_get 0 (quotient_min_sizes cs) (Z.of_nat idx)) eqn:G; [reflexivity|].
  set (mins := quotient_min_sizes cs) in *. set (maxs := quotient_max_sizes cs) in *.
  set (psh := quotient_parent_shift cs (Z.of_nat idx)) in *.
  rewrite Nat2Z.id in Hp, Ho. replace (Z.to_nat (Z.of_nat idx + 1)) with (S idx) in Hp, Ho by lia.
  rewrite remove_at_nat in Hp, Ho. rewrite remove_at_nat in Hp, Ho.
  change (firstn idx maxs ++ [Some (n - 1)] ++ skipn (S idx) maxs) with (replace_at idx (Some (n - 1)) maxs) in Hp, Ho.
  change (firstn idx mins ++ skipn (S idx) mins) with (remove_at idx mins) in Hp, Ho.
  change (firstn idx maxs ++ skipn (S idx) maxs) with (remove_at idx maxs) in Hp, Ho.
  assert (E0 : p 0%nat (n + psh) = p' 0%nat (n + psh)) by (apply (Hp 0%nat); left; reflexivity).
  assert (EA : product_table fs mins (replace_at idx (Some (n - 1)) maxs) (replace_at idx o (kp_of d p)) (n + psh) =
               product_table fs mins (replace_at idx (Some (n - 1)) maxs) (replace_at idx o' (kp_of d p')) (n + psh)).
  { apply product_table_ext; [rewrite !replace_at_length by (rewrite L; exact Hi); rewrite !L; reflexivity|].
    intros sizes Hs i H1 H2. rewrite replace_at_length in H1 by (rewrite L; exact Hi). rewrite L in H1.
    rewrite !nth_replace_at' by (rewrite L; exact Hi).
    assert (Hin : In (quotient_prov (Z.of_nat idx) (Z.of_nat i), nth i sizes 0)
                     (flat_map (reads_of_sizes (quotient_prov (Z.of_nat idx)))
                        (compositions (n + psh) (zlen cs) mins (replace_at idx (Some (n - 1)) maxs)))).
    { apply in_flat_map. exists sizes. split; [|apply in_reads_of_sizes_nth; exact H2].
      replace (zlen cs) with (zlen (replace_at idx o (kp_of d p))); [exact Hs|].
      unfold zlen. rewrite replace_at_length by (rewrite L; exact Hi). rewrite L, Lcs. reflexivity. }
    unfold quotient_prov in Hin.
    destruct (i =? idx)%nat eqn:E.
    - apply Nat.eqb_eq in E. subst i. apply Ho. right. apply in_or_app. left.
      replace (Z.of_nat idx <? Z.of_nat idx) with false in Hin by lia.
      rewrite Z.eqb_refl in Hin. exact Hin.
    - apply Nat.eqb_neq in E. rewrite !kp_of_nth_rev by auto. fold idx.
      destruct (i <? idx)%nat eqn:E2.
      + apply Nat.ltb_lt in E2. apply Hp. right. apply in_or_app. left.
        replace (Z.of_nat i <? Z.of_nat idx) with true in Hin by lia.
        replace (Z.of_nat (S i)) with (Z.of_nat i + 1) by lia. exact Hin.
      + apply Nat.ltb_ge in E2. apply Hp. right. apply in_or_app. left.
        replace (Z.of_nat i <? Z.of_nat idx) with false in Hin by lia.
        replace (Z.of_nat i =? Z.of_nat idx) with false in Hin by lia. exact Hin. }
  assert (EB : product_table (remove_at idx fs) (remove_at idx mins) (remove_at idx maxs)
                 (remove_at idx (replace_at idx o (kp_of d p))) psh =
               product_table (remove_at idx fs) (remove_at idx mins) (remove_at idx maxs)
                 (remove_at idx (replace_at idx o' (kp_of d p'))) psh).
  { rewrite !remove_replace_at by (rewrite L; exact Hi).
    apply product_table_ext; [rewrite !length_remove_at' by (rewrite L; exact Hi); rewrite !L; reflexivity|].
    intros sizes Hs i H1 H2. rewrite length_remove_at' in H1 by (rewrite L; exact Hi). rewrite L in H1.
    rewrite !nth_remove_at'.
    assert (Hin : In (Z.of_nat i + 1, nth i sizes 0)
                     (flat_map (reads_of_sizes (fun j => j + 1))
                        (compositions psh (zlen cs - 1) (remove_at idx mins) (remove_at idx maxs)))).
    { apply in_flat_map. exists sizes. split; [|apply (in_reads_of_sizes_nth (fun j => j + 1)); exact H2].
      replace (zlen cs - 1) with (zlen (remove_at idx (kp_of d p))); [exact Hs|].
      unfold zlen. rewrite length_remove_at' by (rewrite L; exact Hi). rewrite L, Lcs. lia. }
    destruct (i <? idx)%nat eqn:E2.
    + apply Nat.ltb_lt in E2. rewrite !kp_of_nth_rev by (auto; lia). fold idx.
      replace (i <? idx)%nat with true by (symmetry; apply Nat.ltb_lt; lia).
      apply Hp. right. apply in_or_app. right. replace (Z.of_nat (S i)) with (Z.of_nat i + 1) by lia. exact Hin.
    + apply Nat.ltb_ge in E2. rewrite !kp_of_nth_rev by (auto; lia). fold idx.
      replace (S i <? idx)%nat with false by (symmetry; apply Nat.ltb_ge; lia).
      apply Hp. right. apply in_or_app. right. replace (Z.of_nat (S i)) with (Z.of_nat i + 1) by lia. exact Hin. }
  rewrite E0, EA, EB. reflexivity.
Qed.

(* the four plain forms together: the C09 term model reads its providers only where the C10 reads
   model says *)
Theorem stepF_reads d p p' o o' n :
  0 <= c_form d <= 3 -> (2 <= c_form d -> (c_idx d < length (c_kids d))%nat) ->
  reads_agree (c_form d) (kid_descs (c_kids d)) (Z.of_nat (c_idx d)) n p p' o o' ->
  stepF_with d (kp_of d p) (p 0%nat) (p 0%nat) o n = stepF_with d (kp_of d p') (p' 0%nat) (p' 0%nat) o' n.
Proof.
  intros Hf Hi H.
  assert (E : c_form d = 0 \/ c_form d = 1 \/ c_form d = 2 \/ c_form d = 3) by lia.
  destruct E as [E|[E|[E|E]]]; rewrite E in H.
  - apply union_reads; assumption.
  - apply product_reads; assumption.
  - apply complement_reads; [exact E|apply Hi; lia|exact H].
  - apply quotient_reads; [exact E|apply Hi; lia|exact H].
Qed.

(* ================================================================ (2) from reads to declared shifts *)
Lemma Forall2_nth_le : forall (a b : list Z) i, Forall2 Z.le a b -> (i < length a)%nat -> nth i a 0 <= nth i b 0.
Proof.
  intros a b i H. revert i. induction H as [|x y a b Hxy H IH]; intros [|i] Hi; simpl in *; try lia.
  apply IH. lia.
Qed.

Lemma Forall2_length' {A B} (R : A -> B -> Prop) l l' : Forall2 R l l' -> length l = length l'.
Proof. induction 1; simpl; lia. Qed.

Lemma shift_dep_shifts d i : shift terms (srule_of d) i = nth i (dep_shifts d) 0.
Proof.
  unfold shift, dep_shifts. simpl r_kids.
  change 0 with (snd (O, 0)) at 2. rewrite map_nth. reflexivity.
Qed.

(* the premise of `local`, for the rule of descriptor d *)
Definition agree_declared (d : cdesc) (n : Z) (p p' : nat -> prov) (o o' : prov) : Prop :=
  (forall i m, (i < length (c_deps d))%nat -> m <= n - shift terms (srule_of d) i -> p i m = p' i m) /\
  (forall m, m < n -> o m = o' m).

(* C10_reads_respect_declared_shifts (Count/Reads.v rule_reads_respect_shifts) turns agreement up to
   the declared shifts into agreement on everything the reads model lists *)
Lemma reads_agree_of_declared d form n p p' o o' :
  0 <= form <= 3 -> (2 <= form -> (c_idx d < length (c_kids d))%nat) ->
  Forall2 Z.le (dep_shifts d) (rule_shifts form (kid_descs (c_kids d)) (Z.of_nat (c_idx d))) ->
  agree_declared d n p p' o o' ->
  reads_agree form (kid_descs (c_kids d)) (Z.of_nat (c_idx d)) n p p' o o'.
Proof.
  intros Hf Hidx Hsh [Hp Ho].
  set (c := kid_descs (c_kids d)) in *. set (idx := Z.of_nat (c_idx d)) in *.
  assert (Hidx' : 2 <= form -> 0 <= idx < PyList.zlen c).
  { intros H. specialize (Hidx H). unfold idx, PyList.zlen, c. rewrite kid_descs_length. lia. }
  assert (Ls : length (dep_shifts d) = length c).
  { rewrite (Forall2_length' _ _ _ Hsh).
    pose proof (rule_shifts_length form c idx Hf Hidx') as H. unfold PyList.zlen in H. lia. }
  split.
  - intros i m Hin.
    destruct (rule_reads_respect_shifts form c idx n (Z.of_nat i) m Hf Hidx' Hin) as [[Hs _]|[Hi Hm]].
    + unfold SELF in Hs. lia.
    + rewrite Nat2Z.id in Hm. unfold PyList.zlen in Hi.
      assert (Hil : (i < length (dep_shifts d))%nat) by lia.
      apply Hp.
      * unfold dep_shifts in Hil. rewrite map_length in Hil. exact Hil.
      * rewrite shift_dep_shifts. pose proof (Forall2_nth_le _ _ i Hsh Hil). lia.
  - intros m Hin.
    destruct (rule_reads_respect_shifts form c idx n SELF m Hf Hidx' Hin) as [[_ Hm]|[Hi _]].
    + apply Ho. exact Hm.
    + unfold SELF in Hi. lia.
Qed.

(* ================================================================ local *)
Theorem stepF_local d p p' o o' n :
  deps_shape d -> agree_declared d n p p' o o' ->
  stepF_with d (kp_of d p) (p 0%nat) (p 0%nat) o n = stepF_with d (kp_of d p') (p' 0%nat) (p' 0%nat) o' n.
Proof.
  intros Hs Ha. unfold deps_shape in Hs.
  destruct (c_form d) as [|f|f] eqn:Hf.
  - destruct Hs as (_ & _ & Hsh). apply union_reads; [exact Hf|].
    apply reads_agree_of_declared; [lia|lia|exact Hsh|exact Ha].
  - destruct f as [f|f|].
    + destruct f as [f|f|].
      * destruct f as [f|f|]; try (unfold stepF_with; rewrite Hf; reflexivity).
      * destruct f as [f|f|]; try (unfold stepF_with; rewrite Hf; reflexivity).
        (* 5 *) destruct Hs as (s & Hd & Hle). destruct Ha as [Hp _].
        unfold stepF_with. rewrite Hf. unfold equiv_complement_stepF.
        rewrite (Hp 0%nat n); [reflexivity|rewrite Hd; simpl; lia|].
        rewrite shift_dep_shifts. unfold dep_shifts. rewrite Hd. simpl. lia.
      * (* 3 *) destruct Hs as (Hi & _ & _ & Hsh). apply quotient_reads; [exact Hf|exact Hi|].
        apply reads_agree_of_declared; [lia|intros _; exact Hi|exact Hsh|exact Ha].
    + destruct f as [f|f|].
      * destruct f as [f|f|]; try (unfold stepF_with; rewrite Hf; reflexivity).
        (* 6 *) destruct Hs as (s & Hd & Hle). destruct Ha as [Hp _].
        unfold stepF_with. rewrite Hf. unfold path_stepF.
        rewrite (Hp 0%nat n); [reflexivity|rewrite Hd; simpl; lia|].
        rewrite shift_dep_shifts. unfold dep_shifts. rewrite Hd. simpl. lia.
      * destruct f as [f|f|]; try (unfold stepF_with; rewrite Hf; reflexivity).
        (* 4 *) destruct Hs as (ci & Hci & _ & s & Hd & Hle). destruct Ha as [Hp _].
        unfold stepF_with. rewrite Hf. unfold equiv_union_stepF. rewrite Hci.
        assert (E : nth ci (kp_of d p) noprov n = nth ci (kp_of d p') noprov n).
        { unfold kp_of. rewrite Hf.
          destruct (Nat.lt_ge_cases ci (length (c_kids d))) as [Hlt|Hge].
          - rewrite !(nth_map_seq (fun _ => _)) by exact Hlt.
            apply (Hp 0%nat n); [rewrite Hd; simpl; lia|].
            rewrite shift_dep_shifts. unfold dep_shifts. rewrite Hd. simpl. lia.
          - rewrite !nth_overflow by (rewrite map_length, seq_length; exact Hge). reflexivity. }
        rewrite E. reflexivity.
      * (* 2 *) destruct Hs as (Hi & _ & _ & Hsh). apply complement_reads; [exact Hf|exact Hi|].
        apply reads_agree_of_declared; [lia|intros _; exact Hi|exact Hsh|exact Ha].
    + (* 1 *) destruct Hs as (_ & _ & Hsh). apply product_reads; [exact Hf|].
      apply reads_agree_of_declared; [lia|lia|exact Hsh|exact Ha].
  - unfold stepF_with. rewrite Hf. reflexivity.
Qed.

(* hypothesis h3 of C01_spec_correct for the rule of a descriptor *)
Theorem srule_of_local d : deps_shape d -> local terms (srule_of d).
Proof.
  intros Hs p p' o o' n Hp Ho. simpl r_op. unfold op_of.
  destruct (n <? 0); [reflexivity|]. f_equal.
  apply stepF_local; [exact Hs|]. split; [exact Hp|exact Ho].
Qed.

(* hypothesis op_neg of C01_spec_correct *)
Lemma srule_of_neg d p o n : n < 0 -> r_op terms (srule_of d) p o n = [].
Proof. intros H. simpl. unfold op_of. replace (n <? 0) with true by lia. reflexivity. Qed.

(* ================================================================ labels
   CountRun.step_of looks the tables up by LABEL (c_ok, c_op, c_last of the original rule); the
   operator of srule_of receives providers by POSITION among the rule's children.  When the declared
   dependencies are the rule's children in order (deps_shape) the two agree, for any assignment G of
   providers to labels: the position that differs (the class being counted itself, position idx of
   the original children of a reverse rule) is dropped by Complement and overwritten by Quotient. *)
Definition kid_of (d : cdesc) (i : nat) : nat := Spec.Eval.kid terms (srule_of d) i.

Lemma kid_of_labels d i : kid_of d i = nth i (dep_labels d) O.
Proof.
  unfold kid_of, Spec.Eval.kid, dep_labels. simpl r_kids.
  change O with (fst (O, 0)) at 2. rewrite map_nth. reflexivity.
Qed.

Lemma map_nth_seq {A B} (f : A -> B) (d : A) l : map f l = map (fun j => f (nth j l d)) (seq 0 (length l)).
Proof.
  apply (list_ext_nth (f d)); [rewrite !map_length, seq_length; reflexivity|].
  intros j Hj. rewrite map_length in Hj. rewrite map_nth.
  rewrite (nth_map_seq (fun j => f (nth j l d))) by exact Hj. reflexivity.
Qed.

Theorem stepF_labels d (G : nat -> prov) own n :
  deps_shape d ->
  stepF_with d (map G (c_ok d)) (G (c_op d)) (G (c_last d)) own n =
  stepF_with d (kp_of d (fun i => G (kid_of d i))) (G (kid_of d 0)) (G (kid_of d 0)) own n.
Proof.
  intros Hs. unfold deps_shape in Hs.
  set (P := fun i => G (kid_of d i)).
  assert (FWD : dep_labels d = c_ok d -> length (c_ok d) = length (c_kids d) ->
                map G (c_ok d) = map P (seq 0 (length (c_kids d)))).
  { intros Hl Hk. rewrite (map_nth_seq G O), Hk. apply map_ext. intros j. unfold P.
    rewrite kid_of_labels, Hl. reflexivity. }
  assert (REV : dep_labels d = c_op d :: remove_at (c_idx d) (c_ok d) ->
                length (c_ok d) = length (c_kids d) -> (c_idx d < length (c_kids d))%nat ->
                G (c_op d) = P 0%nat /\
                forall j, j <> c_idx d -> (j < length (c_kids d))%nat ->
                  nth j (map G (c_ok d)) noprov =
                  nth j (map (fun j => if (j <? c_idx d)%nat then P (S j) else P j) (seq 0 (length (c_kids d)))) noprov).
  { intros Hl Hk Hi. split; [unfold P; rewrite kid_of_labels, Hl; reflexivity|].
    intros j Hne Hj. rewrite (nth_map_seq (fun j => if (j <? c_idx d)%nat then P (S j) else P j)) by exact Hj.
    rewrite (nth_indep _ noprov (G O)) by (rewrite map_length; lia). rewrite map_nth.
    unfold P. rewrite !kid_of_labels, Hl. cbn [nth].
    destruct (j <? c_idx d)%nat eqn:E.
    - apply Nat.ltb_lt in E. rewrite nth_remove_at'. replace (j <? c_idx d)%nat with true by (symmetry; apply Nat.ltb_lt; exact E).
      reflexivity.
    - apply Nat.ltb_ge in E. destruct j as [|j]; [lia|]. cbn [nth]. rewrite nth_remove_at'.
      replace (j <? c_idx d)%nat with false by (symmetry; apply Nat.ltb_ge; lia). reflexivity. }
  destruct (c_form d) as [|f|f] eqn:Hf.
  - destruct Hs as (Hl & Hk & _). unfold stepF_with, kp_of. rewrite Hf. rewrite (FWD Hl Hk). reflexivity.
  - destruct f as [f|f|].
    + destruct f as [f|f|].
      * destruct f as [f|f|]; unfold stepF_with; rewrite Hf; reflexivity.
      * destruct f as [f|f|]; try (unfold stepF_with; rewrite Hf; reflexivity).
        (* 5 *) destruct Hs as (s & Hd & _). unfold stepF_with. rewrite Hf.
        replace (G (kid_of d 0)) with (G (c_op d)); [reflexivity|].
        rewrite kid_of_labels. unfold dep_labels. rewrite Hd. reflexivity.
      * (* 3 *) destruct Hs as (Hi & Hk & Hl & _). destruct (REV Hl Hk Hi) as [E0 En].
        change (G (kid_of d 0)) with (P 0%nat). rewrite <- E0. unfold stepF_with, kp_of. rewrite Hf. unfold quotient_stepF.
        destruct (mapM _ (c_kids d)) as [fs|e]; [|reflexivity]. simpl.
        match goal with |- bind ?X _ = _ => destruct X as [ppm|e]; [|reflexivity] end. simpl.
        rewrite (replace_at_ext noprov (c_idx d) own (map G (c_ok d))
                   (map (fun j => if (j <? c_idx d)%nat then P (S j) else P j) (seq 0 (length (c_kids d))))).
        -- reflexivity.
        -- rewrite !map_length, seq_length. exact Hk.
        -- rewrite map_length. lia.
        -- intros j Hne Hj. rewrite map_length in Hj. apply En; [exact Hne|lia].
    + destruct f as [f|f|].
      * destruct f as [f|f|]; try (unfold stepF_with; rewrite Hf; reflexivity).
        (* 6 *) destruct Hs as (s & Hd & _). unfold stepF_with. rewrite Hf.
        replace (G (kid_of d 0)) with (G (c_last d)); [reflexivity|].
        rewrite kid_of_labels. unfold dep_labels. rewrite Hd. reflexivity.
      * destruct f as [f|f|]; try (unfold stepF_with; rewrite Hf; reflexivity).
        (* 4 *) destruct Hs as (ci & Hci & Hk & s & Hd & _).
        unfold stepF_with, kp_of. rewrite Hf. unfold equiv_union_stepF. rewrite Hci.
        destruct (first_nonempty_spec _ _ Hci) as (Hlt & _).
        replace (nth ci (map G (c_ok d)) noprov) with (G (kid_of d 0)).
        -- rewrite (nth_map_seq (fun _ => G (kid_of d 0))) by exact Hlt. reflexivity.
        -- rewrite (nth_indep _ noprov (G O)) by (rewrite map_length; lia). rewrite map_nth.
           rewrite kid_of_labels. unfold dep_labels. rewrite Hd. reflexivity.
      * (* 2 *) destruct Hs as (Hi & Hk & Hl & _). destruct (REV Hl Hk Hi) as [E0 En].
        change (G (kid_of d 0)) with (P 0%nat). rewrite <- E0. unfold stepF_with, kp_of. rewrite Hf. unfold complement_stepF.
        destruct (mapM _ (remove_at (c_idx d) (c_kids d))) as [pms|e]; [|reflexivity]. simpl.
        destruct (du_map_of _ _) as [ppm|e]; [|reflexivity]. simpl.
        rewrite (remove_at_ext noprov (c_idx d) (map G (c_ok d))
                   (map (fun j => if (j <? c_idx d)%nat then P (S j) else P j) (seq 0 (length (c_kids d))))).
        -- reflexivity.
        -- rewrite !map_length, seq_length. exact Hk.
        -- rewrite map_length. lia.
        -- intros j Hne Hj. rewrite map_length in Hj. apply En; [exact Hne|lia].
    + (* 1 *) destruct Hs as (Hl & Hk & _). unfold stepF_with, kp_of. rewrite Hf. rewrite (FWD Hl Hk). reflexivity.
  - unfold stepF_with. rewrite Hf. reflexivity.
Qed.
